import Ufo2ftModel.Props.C14
import Ufo2ftModel.Spec.C14Run
/-!
# C14 at the pre-processor level: `BaseInterpolatablePreProcessor._run`

What a filter step reports is the union over the masters of what the filters changed, however the step is run
(one interpolatable filter for all masters, or one filter per master); the instantiator is refreshed whenever a
glyph of any master changed; a master that is given no filter is not changed.
-/
namespace Ufo2ft.C14
open List

/-! ### small facts -/

theorem mem_unionS {a b : List String} {k : String} : k ∈ unionS a b ↔ k ∈ a ∨ k ∈ b := by
  unfold unionS
  induction b generalizing a with
  | nil => simp
  | cons x t ih =>
    simp only [List.foldl_cons, ih, mem_sadd, List.mem_cons]
    constructor
    · rintro ((h | h) | h)
      · exact Or.inl h
      · exact Or.inr (Or.inl h)
      · exact Or.inr (Or.inr h)
    · rintro (h | h | h)
      · exact Or.inl (Or.inl h)
      · exact Or.inl (Or.inr h)
      · exact Or.inr h

theorem changedNames_self (gs : GlyphSet) : changedNames gs gs = [] := by
  unfold changedNames
  simp

theorem mem_changedNames_iff {gs gs' : GlyphSet} {n : String} (h : alookup n gs' ≠ alookup n gs) :
    n ∈ changedNames gs gs' := by
  unfold changedNames
  rw [List.mem_filter]
  refine ⟨?_, by simpa using fun e => h e.symm⟩
  rw [List.mem_eraseDups, List.mem_append]
  -- a name whose entries differ is a key of one of the two sets
  by_cases h1 : alookup n gs = none
  · have h2 : alookup n gs' ≠ none := fun e => h (by rw [e, h1])
    obtain ⟨g, hg⟩ := Option.ne_none_iff_exists'.mp h2
    exact Or.inr (mem_keys_of_alookup hg)
  · obtain ⟨g, hg⟩ := Option.ne_none_iff_exists'.mp h1
    exact Or.inl (mem_keys_of_alookup hg)

/-- the element-wise form of the report clause -/
def Reported (m : List String) (gs gs' : GlyphSet) : Prop := ∀ n, alookup n gs' ≠ alookup n gs → n ∈ m

theorem report_of_all₂ {gss gss' : List GlyphSet} {m : List String} (h : All₂ (Reported m) gss gss') :
    holdsRunReport gss gss' m = true := by
  simp only [holdsRunReport, Bool.and_eq_true, beq_iff_eq, List.all_eq_true]
  refine ⟨h.length_eq, ?_⟩
  intro p hp n hn
  simpa using h.zip p hp n (mem_changedNames hn)

theorem all₂_of_report {gss gss' : List GlyphSet} {m : List String} (h : holdsRunReport gss gss' m = true) :
    ∀ p ∈ List.zip gss gss', ∀ n ∈ changedNames p.1 p.2, n ∈ m := by
  simp only [holdsRunReport, Bool.and_eq_true, beq_iff_eq, List.all_eq_true] at h
  intro p hp n hn
  simpa using h.2 p hp n hn

/-- report ⇒ refresh: if whatever changed is reported, a change makes the reported set non-empty, and the
 pre-processor refreshes the instantiator exactly when the set is non-empty -/
theorem refresh_of_report (hasInst : Bool) {gss gss' : List GlyphSet} {m : List String}
    (h : holdsRunReport gss gss' m = true) :
    holdsRefresh hasInst gss gss' (mkOut hasInst m gss').refreshed = true := by
  unfold holdsRefresh mkOut
  cases hasInst with
  | false => simp
  | true =>
    by_cases hc : anyChangedB gss gss' = true
    · simp only [anyChangedB, List.any_eq_true] at hc
      obtain ⟨p, hp, hne⟩ := hc
      have : changedNames p.1 p.2 ≠ [] := by
        intro e; simp [e] at hne
      obtain ⟨n, hn⟩ := List.exists_mem_of_ne_nil _ this
      have hm : n ∈ m := all₂_of_report h p hp n hn
      have : m ≠ [] := List.ne_nil_of_mem hm
      cases m with
      | nil => exact absurd rfl this
      | cons _ _ => simp
    · simp [hc]

/-! ### the per-master loop -/

theorem perMaster_spec : ∀ (fs : List (Option FSpec)) (gss : List GlyphSet) (m : List String) (gss' : List GlyphSet),
    perMaster fs gss = .ok (m, gss') →
    All₂ (Reported m) gss gss' ∧ footprintPer (toMs fs) gss gss' = true
  | [], [], m, gss', h => by
    simp only [perMaster, Except.ok.injEq, Prod.mk.injEq] at h
    obtain ⟨rfl, rfl⟩ := h
    exact ⟨.nil, by simp [toMs, footprintPer]⟩
  | [], _ :: _, m, gss', h => by simp [perMaster] at h
  | none :: _, [], m, gss', h => by simp [perMaster] at h
  | some _ :: _, [], m, gss', h => by simp [perMaster] at h
  | none :: fs, gs :: gss, m, gss', h => by
    simp only [perMaster] at h
    split at h
    · exact absurd h (by simp)
    · rename_i m₁ r hr
      simp only [Except.ok.injEq, Prod.mk.injEq] at h
      obtain ⟨rfl, rfl⟩ := h
      obtain ⟨h1, h2⟩ := perMaster_spec fs gss m₁ r hr
      refine ⟨.cons (fun n hn => absurd rfl hn) h1, ?_⟩
      simp only [toMs, List.map_cons, Option.map_none, footprintPer, changedNames_self, List.isEmpty_nil,
        Bool.true_and]
      exact h2
  | some f :: fs, gs :: gss, m, gss', h => by
    simp only [perMaster] at h
    split at h
    · exact absurd h (by simp)
    · rename_i o ho
      split at h
      · exact absurd h (by simp)
      · rename_i m₁ r hr
        simp only [Except.ok.injEq, Prod.mk.injEq] at h
        obtain ⟨rfl, rfl⟩ := h
        obtain ⟨h1, h2⟩ := perMaster_spec fs gss m₁ r hr
        have hc := C14_holds f.kind f.incl Obj.fresh gs o ho
        simp only [holdsCall, Bool.and_eq_true] at hc
        refine ⟨.cons ?_ (h1.imp (fun _ _ hr n hn => mem_unionS.mpr (Or.inr (hr n hn)))), ?_⟩
        · intro n hn
          exact mem_unionS.mpr (Or.inl (C14_report f.kind f.incl Obj.fresh gs o ho n hn))
        · simp only [toMs, List.map_cons, Option.map_some, footprintPer, FSpec.toM, Bool.and_eq_true]
          exact ⟨hc.1, h2⟩

/-- `zip_strict`: the per-master loop only succeeds when there is exactly one (possibly absent) filter per master -/
theorem perMaster_length : ∀ (fs : List (Option FSpec)) (gss : List GlyphSet) (r : List String × List GlyphSet),
    perMaster fs gss = .ok r → fs.length = gss.length
  | [], [], _, _ => rfl
  | [], _ :: _, _, h => by simp [perMaster] at h
  | none :: _, [], _, h => by simp [perMaster] at h
  | some _ :: _, [], _, h => by simp [perMaster] at h
  | none :: fs, gs :: gss, r, h => by
    simp only [perMaster] at h
    split at h
    · exact absurd h (by simp)
    · rename_i m₁ r₁ hr
      simp [perMaster_length fs gss _ hr]
  | some f :: fs, gs :: gss, r, h => by
    simp only [perMaster] at h
    split at h
    · exact absurd h (by simp)
    · split at h
      · exact absurd h (by simp)
      · rename_i m₁ r₁ hr
        simp [perMaster_length fs gss _ hr]

/-! ### the three ways a step can end well -/

/-- how a successful `runCore` came about -/
theorem runCore_cases (hasInst : Bool) (fs : List (Option FSpec)) (gss : List GlyphSet) (order : List String)
    (o : RunOut) (h : runCore hasInst fs gss order = .ok o) :
    (route fs = .perMaster ∧ ∃ m gss', perMaster fs gss = .ok (m, gss') ∧ o = mkOut hasInst m gss') ∨
    (∃ ik incl io, route fs = .interp ik (some incl) ∧ (icall ik incl Obj.fresh gss order).2 = .ok io ∧
        o = mkOut hasInst io.modified io.gss) ∨
    (∃ ik, route fs = .interp ik none ∧ o = mkOut hasInst [] gss) := by
  unfold runCore at h
  split at h
  · exact absurd h (by simp)
  · rename_i hr
    split at h
    · exact absurd h (by simp)
    · rename_i m gss' hp
      simp only [Except.ok.injEq] at h
      exact Or.inl ⟨hr, m, gss', hp, h.symm⟩
  · rename_i ik incl hr
    split at h
    · exact absurd h (by simp)
    · rename_i io hio
      simp only [Except.ok.injEq] at h
      exact Or.inr (Or.inl ⟨ik, incl, io, hr, hio, h.symm⟩)
  · rename_i ik hr
    split at h
    · exact absurd h (by simp)
    · split at h
      · exact absurd h (by simp)
      · simp only [Except.ok.injEq] at h
        exact Or.inr (Or.inr ⟨ik, hr, h.symm⟩)
      · exact absurd h (by simp)

theorem reported_refl (m : List String) (gss : List GlyphSet) : All₂ (Reported m) gss gss :=
  All₂.refl_of (fun _ _ hn => absurd rfl hn) gss

theorem runCore_report (hasInst : Bool) (fs : List (Option FSpec)) (gss : List GlyphSet) (order : List String)
    (o : RunOut) (h : runCore hasInst fs gss order = .ok o) :
    holdsRunReport gss o.gss o.modified = true := by
  rcases runCore_cases hasInst fs gss order o h with ⟨_, m, gss', hp, rfl⟩ | ⟨ik, incl, io, _, hio, rfl⟩ | ⟨_, _, rfl⟩
  · exact report_of_all₂ (perMaster_spec fs gss m gss' hp).1
  · exact report_of_all₂ (C14_ireport ik incl Obj.fresh gss order io hio)
  · exact report_of_all₂ (reported_refl [] gss)

theorem run_eq_runCore (hasInst : Bool) (fs : List (Option FSpec)) (gss : List GlyphSet) (order : List String)
    (o : RunOut) (h : run hasInst fs gss order = .ok o) :
    runCore hasInst (expand fs gss.length) gss order = .ok o := by
  unfold run at h
  split at h
  · exact absurd h (by simp)
  · exact h

/-- **C14_run_report**: whatever the filters of a step changed, added or removed in ANY master is in the set the
 step reports (it is the union over the masters, not the set of the last filter). -/
theorem C14_run_report (hasInst : Bool) (fs : List (Option FSpec)) (gss : List GlyphSet) (order : List String)
    (o : RunOut) (h : run hasInst fs gss order = .ok o) :
    holdsRunReport gss o.gss o.modified = true :=
  runCore_report hasInst _ gss order o (run_eq_runCore hasInst fs gss order o h)

theorem runCore_refreshed (hasInst : Bool) (fs : List (Option FSpec)) (gss : List GlyphSet) (order : List String)
    (o : RunOut) (h : runCore hasInst fs gss order = .ok o) : o = mkOut hasInst o.modified o.gss := by
  rcases runCore_cases hasInst fs gss order o h with ⟨_, m, gss', _, rfl⟩ | ⟨_, _, io, _, _, rfl⟩ | ⟨_, _, rfl⟩ <;> rfl

/-- **C14_run_refresh**: when there is an instantiator and some glyph of some master changed, the step refreshed
 the instantiator (its source layers are the working glyph sets, the cached glyph models are dropped). -/
theorem C14_run_refresh (hasInst : Bool) (fs : List (Option FSpec)) (gss : List GlyphSet) (order : List String)
    (o : RunOut) (h : run hasInst fs gss order = .ok o) :
    holdsRefresh hasInst gss o.gss o.refreshed = true := by
  have hc := run_eq_runCore hasInst fs gss order o h
  have hr := runCore_report hasInst _ gss order o hc
  have := refresh_of_report hasInst hr
  rw [← runCore_refreshed hasInst _ gss order o hc] at this
  exact this

/-- the refresh is not gratuitous: nothing reported, nothing refreshed; no instantiator, nothing to refresh -/
theorem C14_run_refresh_only (hasInst : Bool) (fs : List (Option FSpec)) (gss : List GlyphSet) (order : List String)
    (o : RunOut) (h : run hasInst fs gss order = .ok o) :
    o.refreshed = (hasInst && !o.modified.isEmpty) := by
  have hc := run_eq_runCore hasInst fs gss order o h
  have := runCore_refreshed hasInst _ gss order o hc
  rw [this]; rfl

/-! ### the footprint of a step -/

theorem includedAnyB_mono {incl incl' : Include} (h : ∀ n g, incl n g = true → incl' n g = true)
    (gss : List GlyphSet) (n : String) (hi : includedAnyB incl gss n = true) : includedAnyB incl' gss n = true := by
  simp only [includedAnyB, List.any_eq_true] at hi ⊢
  obtain ⟨gs, hgs, hb⟩ := hi
  refine ⟨gs, hgs, ?_⟩
  unfold includedB at hb ⊢
  split at hb
  · exact h _ _ hb
  · exact absurd hb (by simp)

theorem allowedIB_mono {incl incl' : Include} (h : ∀ n g, incl n g = true → incl' n g = true)
    (fp : Footprint) (gss : List GlyphSet) (gs : GlyphSet) (n : String)
    (ha : allowedIB fp incl gss gs n = true) : allowedIB fp incl' gss gs n = true := by
  cases fp with
  | self => exact includedAnyB_mono h gss n ha
  | reach =>
    simp only [allowedIB, List.any_eq_true, Bool.and_eq_true] at ha ⊢
    obtain ⟨m, hm, hi, hr⟩ := ha
    exact ⟨m, hm, includedAnyB_mono h gss m hi, hr⟩
  | selfOr l =>
    simp only [allowedIB, Bool.or_eq_true] at ha ⊢
    rcases ha with ha | ha
    · exact Or.inl (includedAnyB_mono h gss n ha)
    · exact Or.inr ha

theorem presentM_toMs (fs : List (Option FSpec)) : presentM (toMs fs) = (present fs).map FSpec.toM := by
  unfold presentM toMs present
  induction fs with
  | nil => rfl
  | cons o t ih =>
    cases o with
    | none => simpa using ih
    | some f => simpa using ih

theorem unionInclM_toMs (fs : List (Option FSpec)) (n : String) (g : Glyph) :
    unionInclM (toMs fs) n g = unionIncl (present fs) n g := by
  unfold unionInclM unionIncl
  rw [presentM_toMs, List.any_map]
  rfl

theorem footprintUnion_of_iholds (fs : List (Option FSpec)) (f : FSpec) (rest : List FSpec)
    (hp : present fs = f :: rest) (ik : IKind) (hfp : fpOfI ik = fpOf f.kind) (incl : Include)
    (hincl : ∀ n g, incl n g = true → unionIncl (present fs) n g = true)
    (gss : List GlyphSet) (m : List String) (gss' : List GlyphSet)
    (h : holdsICall (fpOfI ik) incl gss m gss' = true) :
    footprintUnion (toMs fs) gss gss' = true := by
  unfold footprintUnion
  rw [presentM_toMs, hp]
  simp only [List.map_cons, Bool.and_eq_true, beq_iff_eq, List.all_eq_true]
  simp only [holdsICall, Bool.and_eq_true, beq_iff_eq, List.all_eq_true] at h
  refine ⟨h.1, ?_⟩
  intro p hpz n hn
  have := (h.2 p hpz n hn).1
  rw [hfp] at this
  exact allowedIB_mono (fun n g hi => by rw [unionInclM_toMs]; exact hincl n g hi) _ gss p.1 n this

theorem footprintPer_refl : ∀ (fs : List (Option FSpec)) (gss : List GlyphSet), fs.length = gss.length →
    footprintPer (toMs fs) gss gss = true
  | [], [], _ => by simp [toMs, footprintPer]
  | [], _ :: _, h => by simp at h
  | _ :: _, [], h => by simp at h
  | none :: fs, gs :: gss, h => by
    simp only [toMs, List.map_cons, Option.map_none, footprintPer, changedNames_self, List.isEmpty_nil, Bool.true_and]
    exact footprintPer_refl fs gss (by simpa using h)
  | some f :: fs, gs :: gss, h => by
    simp only [toMs, List.map_cons, Option.map_some, footprintPer, holdsFootprint, changedNames_self, List.all_nil,
      Bool.true_and]
    exact footprintPer_refl fs gss (by simpa using h)

theorem sameCfg_toM (f g : FSpec) : f.toM.sameCfg g.toM = f.same g := rfl

theorem all_same_toMs (f : FSpec) (rest : List (Option FSpec)) :
    (toMs rest).all f.toM.sameCfgOpt = rest.all f.sameOpt := by
  induction rest with
  | nil => rfl
  | cons o t ih =>
    have e : toMs (o :: t) = o.map FSpec.toM :: toMs t := rfl
    rw [e, List.all_cons, List.all_cons, ih]
    cases o <;> rfl

theorem uniformB_toMs_cons (f : FSpec) (rest : List (Option FSpec)) :
    uniformB (toMs (some f :: rest)) =
      (f.ikind.isSome && rest.all f.sameOpt) := by
  have e : toMs (some f :: rest) = some f.toM :: toMs rest := rfl
  rw [e]
  simp only [uniformB]
  rw [all_same_toMs]
  rfl

theorem uniformB_toMs_none (rest : List (Option FSpec)) : uniformB (toMs (none :: rest)) = false := by
  simp [toMs, uniformB]

/-- **C14_run_route**: the pre-processor runs the filters as ONE interpolatable filter exactly in the declared
 situation – every master has a filter of the first one's class, options and `pre`, and the class has an
 interpolatable variant (`hI`: a `BaseIFilter` object is only ever passed for all masters at once, which is what
 `process()` does with the objects of its `filters=` argument). -/
theorem C14_run_route (fs : List (Option FSpec))
    (hI : ∀ f ∈ present fs, f.isI = true → fs.all Option.isSome = true) :
    uniformB (toMs fs) = true ↔ ∃ ik incl, route fs = .interp ik (some incl) := by
  cases fs with
  | nil => simp [toMs, uniformB, route, present]
  | cons o rest =>
    cases o with
    | none =>
      rw [uniformB_toMs_none]
      constructor
      · intro h; exact absurd h (by simp)
      · rintro ⟨ik, incl, hr⟩
        exfalso
        unfold route at hr
        split at hr
        · exact absurd hr (by simp)
        · rename_i f t hp
          split at hr
          · split at hr
            · exact absurd hr (by simp)
            · rename_i ik' hik
              split at hr
              · rename_i hisI
                have := hI f (by rw [hp]; exact List.mem_cons_self) hisI
                simp at this
              · simp at hr
          · exact absurd hr (by simp)
    | some f =>
      rw [uniformB_toMs_cons]
      have hp : present (some f :: rest) = f :: present rest := by simp [present]
      unfold route
      rw [hp]
      simp only [List.tail_cons]
      constructor
      · intro h
        simp only [Bool.and_eq_true] at h
        obtain ⟨ik, hik⟩ := Option.isSome_iff_exists.mp h.1
        simp only [h.2, if_true, hik]
        by_cases hisI : f.isI = true
        · exact ⟨ik, f.incl, by simp only [hisI, if_true]⟩
        · have hall : (some f :: rest).all Option.isSome = true := by
            simp only [List.all_cons, Option.isSome_some, Bool.true_and, List.all_eq_true]
            intro o ho
            have := (List.all_eq_true.mp h.2) o ho
            cases o with
            | none => exact absurd this (by simp [FSpec.sameOpt])
            | some _ => rfl
          exact ⟨ik, unionIncl (f :: present rest), by simp [hisI, hall]⟩
      · rintro ⟨ik, incl, hr⟩
        by_cases hall : rest.all f.sameOpt = true
        · cases hik : f.ikind with
          | none => simp [hall, hik] at hr
          | some ik' => simp [hall]
        · simp [hall] at hr

/-- **C14_run_footprint**: the glyphs a step changes are those its filters were asked to touch – master by
 master when the filters are run one per master (a master without a filter is left alone), and as one filter with
 the union of the includes when they are run as one interpolatable filter.
 `hlen`: one (possibly absent) filter per master; `hI` as in `C14_run_route`; `hfp`: the interpolatable variant of a
 class has the declared footprint of the class. -/
theorem C14_run_footprint (hasInst : Bool) (fs : List (Option FSpec)) (gss : List GlyphSet) (order : List String)
    (o : RunOut) (hlen : fs.length = gss.length)
    (hI : ∀ f ∈ present fs, f.isI = true → fs.all Option.isSome = true)
    (hfp : ∀ f ∈ present fs, ∀ ik, f.ikind = some ik → fpOfI ik = fpOf f.kind)
    (h : runCore hasInst fs gss order = .ok o) :
    holdsRunFootprint (toMs fs) gss o.gss = true := by
  unfold holdsRunFootprint
  rcases runCore_cases hasInst fs gss order o h with ⟨hr, m, gss', hp, rfl⟩ | ⟨ik, incl, io, hr, hio, rfl⟩ | ⟨ik, hr, rfl⟩
  · have hu : uniformB (toMs fs) = false := by
      cases hb : uniformB (toMs fs) with
      | false => rfl
      | true =>
        obtain ⟨ik, incl, hr'⟩ := (C14_run_route fs hI).mp hb
        rw [hr] at hr'
        exact absurd hr' (by simp)
    rw [hu]
    simp only [Bool.false_eq_true, if_false, mkOut]
    exact (perMaster_spec fs gss m gss' hp).2
  · have hu : uniformB (toMs fs) = true := (C14_run_route fs hI).mpr ⟨ik, incl, hr⟩
    rw [hu]
    simp only [if_true, mkOut]
    have hh := C14_iholds ik incl Obj.fresh gss order io hio
    -- which filter the interpolatable one was made from
    unfold route at hr
    split at hr
    · exact absurd hr (by simp)
    · rename_i f t hp
      split at hr
      · split at hr
        · exact absurd hr (by simp)
        · rename_i ik' hik
          have hmem : f ∈ present fs := by rw [hp]; exact List.mem_cons_self
          split at hr
          · simp only [Route.interp.injEq, Option.some.injEq] at hr
            obtain ⟨rfl, rfl⟩ := hr
            refine footprintUnion_of_iholds fs f t hp ik' (hfp f hmem ik' hik) f.incl ?_ gss io.modified io.gss hh
            intro n g hi
            simp only [unionIncl, List.any_eq_true]
            exact ⟨f, hmem, hi⟩
          · split at hr
            · simp only [Route.interp.injEq, Option.some.injEq] at hr
              obtain ⟨rfl, rfl⟩ := hr
              exact footprintUnion_of_iholds fs f t hp ik' (hfp f hmem ik' hik) _ (fun _ _ hi => hi) gss
                io.modified io.gss hh
            · simp at hr
      · exact absurd hr (by simp)
  · have hu : uniformB (toMs fs) = false := by
      cases hb : uniformB (toMs fs) with
      | false => rfl
      | true =>
        obtain ⟨ik', incl, hr'⟩ := (C14_run_route fs hI).mp hb
        rw [hr] at hr'
        exact absurd hr' (by simp)
    rw [hu]
    simp only [Bool.false_eq_true, if_false, mkOut]
    exact footprintPer_refl fs gss hlen

theorem expand_of_length (fs : List (Option FSpec)) (n : Nat) (h : fs.length = n) : expand fs n = fs := by
  unfold expand
  split
  · rename_i f
    split
    · rfl
    · simp at h; subst h; rfl
  · rfl

/-- **C14_run_holds**: the predicate the driver evaluates on the observed steps of the real pre-processor holds of
 every successful step of the model: report, refresh and footprint. -/
theorem C14_run_holds (hasInst : Bool) (fs : List (Option FSpec)) (gss : List GlyphSet) (order : List String)
    (o : RunOut) (hlen : fs.length = gss.length)
    (hI : ∀ f ∈ present fs, f.isI = true → fs.all Option.isSome = true)
    (hfp : ∀ f ∈ present fs, ∀ ik, f.ikind = some ik → fpOfI ik = fpOf f.kind)
    (h : run hasInst fs gss order = .ok o) :
    holdsRun hasInst (toMs fs) gss o.modified o.gss o.refreshed = true := by
  simp only [holdsRun, Bool.and_eq_true]
  refine ⟨⟨C14_run_report hasInst fs gss order o h, C14_run_refresh hasInst fs gss order o h⟩, ?_⟩
  have hc := run_eq_runCore hasInst fs gss order o h
  rw [expand_of_length fs gss.length hlen] at hc
  exact C14_run_footprint hasInst fs gss order o hlen hI hfp hc

/-- **C14_run_single**: a single filter that is not interpolatable stands for the same filter in every master -/
theorem C14_run_single (hasInst : Bool) (f : FSpec) (hf : f.isI = false) (gss : List GlyphSet) (order : List String) :
    run hasInst [some f] gss order = runCore hasInst (List.replicate gss.length (some f)) gss order := by
  simp [run, expand, hf]

/-- **C14_run_zipStrict**: run one per master, the filters must be as many as the masters -/
theorem C14_run_zipStrict (hasInst : Bool) (fs : List (Option FSpec)) (gss : List GlyphSet) (order : List String)
    (hr : route fs = .perMaster) (hlen : fs.length ≠ gss.length) :
    ∃ e, runCore hasInst fs gss order = .error e := by
  unfold runCore
  rw [hr]
  simp only
  cases hp : perMaster fs gss with
  | error e => exact ⟨e, rfl⟩
  | ok r => exact absurd (perMaster_length fs gss r hp) hlen

/-- **C14_run_noneFirst**: when the first master has no filter and all the others have the same configuration of a
 class with an interpolatable variant, the union include dereferences `None`: unless there is no glyph at all the
 step fails (AttributeError, or the error of the depth computation) and nothing is reported. -/
theorem C14_run_noneFirst (hasInst : Bool) (fs : List (Option FSpec)) (gss : List GlyphSet) (order : List String)
    (ik : IKind) (hr : route fs = .interp ik none) (o : RunOut) (h : runCore hasInst fs gss order = .ok o) :
    o = mkOut hasInst [] gss := by
  rcases runCore_cases hasInst fs gss order o h with ⟨hr', _⟩ | ⟨_, _, _, hr', _⟩ | ⟨_, _, ho⟩
  · rw [hr] at hr'; exact absurd hr' (by simp)
  · rw [hr] at hr'; exact absurd hr' (by simp)
  · exact ho

/-! ### non-vacuity: the hypotheses are met by concrete steps in which the union over the masters matters -/

def exTr (l : List String) : FSpec :=
  { cls := "transform", opts := "OffsetX=10,ScaleX=50", pre := true, isI := false, kind := .transform exT, ikind := none,
    incl := exIncl l }
def exDec (l : List String) : FSpec :=
  { cls := "decompose", opts := "", pre := true, isI := false, kind := .decompose, ikind := some .decompose,
    incl := exIncl l }
/-- a sparse last master: only the composite `c` -/
def exSparse : GlyphSet := [("c", exC)]

/-- (reported set, refreshed, names changed per master) -/
def exShow (gss : List GlyphSet) (r : Except Err RunOut) : Option (List String × Bool × List (List String)) :=
  match r with
  | .ok o => some (o.modified, o.refreshed, (List.zip gss o.gss).map (fun p => changedNames p.1 p.2))
  | .error _ => none

-- one filter per master (no interpolatable variant): `a` is moved in the full master, the filter is a no-op in the
-- sparse LAST master; the step reports `a` and refreshes the instantiator
example : exShow [exGs, exSparse] (run true [some (exTr ["a"]), some (exTr ["a"])] [exGs, exSparse] []) =
    some (["a"], true, [["a"], []]) := by decide +kernel
-- only the first UFO declares the filter
example : exShow [exGs, exGs2] (run true [some (exTr ["a"]), none] [exGs, exGs2] []) =
    some (["a"], true, [["a"], []]) := by decide +kernel
-- same class and options in all masters: ONE interpolatable filter, union of the includes (`c` from the first,
-- `b` from the second filter: both decomposed in both masters)
example : exShow [exGs, exGs2] (run false [some (exDec ["c"]), some (exDec ["b"])] [exGs, exGs2] ["a", "b", "c"]) =
    some (["c", "b"], false, [["b", "c"], ["b", "c"]]) := by decide +kernel
example : uniformB (toMs [some (exDec ["c"]), some (exDec ["b"])]) = true := by decide +kernel
-- different classes: each master its own filter and footprint
example : exShow [exGs, exGs2] (run false [some (exDec ["c"]), some (exTr ["b"])] [exGs, exGs2] ["a", "b", "c"]) =
    some (["c", "b"], false, [["c"], ["b"]]) := by decide +kernel
example : uniformB (toMs [some (exDec ["c"]), some (exTr ["b"])]) = false := by decide +kernel
-- the first UFO has no filter, the other one a class with an interpolatable variant: `None.include`
example : exShow [exGs, exGs2] (run false [none, some (exDec ["b"])] [exGs, exGs2] ["a", "b", "c"]) = none := by
  decide +kernel
-- the hypotheses of C14_run_holds / C14_run_footprint hold of these steps
example : ∀ f ∈ present [some (exDec ["c"]), some (exDec ["b"])], ∀ ik, f.ikind = some ik → fpOfI ik = fpOf f.kind := by
  intro f hf ik hik
  simp only [present, List.filterMap_cons, id, List.filterMap_nil, List.mem_cons, List.not_mem_nil, or_false] at hf
  rcases hf with rfl | rfl <;> (simp only [exDec, Option.some.injEq] at hik; subst hik; rfl)

/-- the fallback loop with the rule `modified = filter_(ufo, glyphSet)` (the set of the LAST filter wins) instead of
 `modified |= …` -/
def perMasterLast : List (Option FSpec) → List GlyphSet → List String → Except Err (List String × List GlyphSet)
  | [], [], m => .ok (m, [])
  | none :: fs, gs :: gss, m =>
    match perMasterLast fs gss m with
    | .error e => .error e
    | .ok (m', r) => .ok (m', gs :: r)
  | some f :: fs, gs :: gss, _ =>
    match (call f.kind f.incl Obj.fresh gs).2 with
    | .error e => .error e
    | .ok o =>
      match perMasterLast fs gss o.modified with
      | .error e => .error e
      | .ok (m', r) => .ok (m', o.gs :: r)
  | _, _, _ => .error .valueError

/-- **the union is needed**: were the reported set that of the last filter, the step above (a filter that is a no-op in
 the sparse last master) would move `a` in the first master, report nothing, and so never refresh the instantiator:
 `holdsRunReport` and `holdsRefresh` are false of it. -/
theorem perMasterLast_underreports :
    (match perMasterLast [some (exTr ["a"]), some (exTr ["a"])] [exGs, exSparse] [] with
     | .ok (m, gss') => some (m, holdsRunReport [exGs, exSparse] gss' m,
                              holdsRefresh true [exGs, exSparse] gss' (mkOut true m gss').refreshed)
     | .error _ => none) = some ([], false, false) := by decide +kernel

end Ufo2ft.C14
