import Ufo2ftModel.Props.C05Order
import Ufo2ftModel.Props.C05Quant
import Ufo2ftModel.Props.C05Groups
/-! C05, part 3: the first matching rule of the sorted pair list carries the UFO kerning value (`lookupKerningValue`), rounded. -/
namespace Ufo2ft.C05
open Ufo2ft List

-- `wfKern` (valid groups, distinct names and keys, no glyph named like a group) is defined in Spec/C05.lean

structure WF (gs : List String) (groups : List (String × List String)) (kerning : List (String × String × Q)) : Prop where
  d1 : ((groups.filter (fun e => is1 e.1)).flatMap (·.2)).Nodup
  d2 : ((groups.filter (fun e => is2 e.1)).flatMap (·.2)).Nodup
  names : (groups.map (·.1)).Nodup
  noGlyph : ∀ e ∈ groups, (is1 e.1 = true ∨ is2 e.1 = true) → e.1 ∉ gs
  keys : (kerning.map (fun e => (e.1, e.2.1))).Nodup

theorem wf_of_wfKern (gs : List String) (groups : List (String × List String)) (kerning : List (String × String × Q))
    (h : wfKern gs groups kerning = true) : WF gs groups kerning := by
  simp only [wfKern, validGroups, Bool.and_eq_true, decide_eq_true_eq, all_eq_true, Bool.not_eq_true', Bool.and_eq_false_iff,
    Bool.or_eq_false_iff] at h
  obtain ⟨⟨⟨⟨a, b⟩, c⟩, d⟩, e⟩ := h
  refine ⟨a, b, c, ?_, e⟩
  intro x hx hp
  rcases d x hx with h | h
  · rcases hp with hp | hp
    · rw [h.1] at hp; cases hp
    · rw [h.2] at hp; cases hp
  · simpa using h

/-! ### the kept groups as association lists -/

theorem side_eq (gs : List String) (groups : List (String × List String)) (kerning : List (String × String × Q))
    (w : WF gs groups kerning) :
    (getKerningGroups gs groups).side1 = expect1 gs groups ∧ (getKerningGroups gs groups).side2 = expect2 gs groups := by
  rw [getKerningGroups_eq_foldl]
  have := groups_fold gs groups ⟨[], [], [], []⟩ w.names w.d1 w.d2
    (by intro e _; exact ⟨rfl, rfl⟩) (by intro e _ _ m _; rfl) (by intro e _ _ m _; rfl)
  simpa using this

theorem expect_keys_nodup (gs : List String) (groups : List (String × List String)) (p : String × List String → Bool)
    (hn : (groups.map (·.1)).Nodup) :
    (((groups.filter p).map (fun e => (e.1, sortStr (kept gs e)))).map (·.1)).Nodup := by
  rw [map_map]
  have : ((fun x : String × List String => x.1) ∘ fun e => (e.1, sortStr (kept gs e))) = (·.1) := rfl
  rw [this]
  exact (filter_sublist.map _).nodup hn

/-- side 1: a kerning key is treated as a class exactly when it names a `public.kern1.` group that keeps a member -/
theorem side1_some (gs : List String) (groups : List (String × List String)) (kerning : List (String × String × Q))
    (w : WF gs groups kerning) (s : String) (c : List String)
    (h : alookup s (getKerningGroups gs groups).side1 = some c) :
    ∃ e ∈ groups, e.1 = s ∧ is1 s = true ∧ c = sortStr (kept gs e) := by
  rw [(side_eq gs groups kerning w).1] at h
  have := mem_of_alookup s c _ h
  simp only [expect1, mem_map, mem_filter, Bool.and_eq_true, Prod.mk.injEq] at this
  obtain ⟨e, ⟨he, _, h1⟩, rfl, rfl⟩ := this
  exact ⟨e, he, rfl, h1, rfl⟩

theorem side1_of_group (gs : List String) (groups : List (String × List String)) (kerning : List (String × String × Q))
    (w : WF gs groups kerning) (e : String × List String) (he : e ∈ groups) (h1 : is1 e.1 = true) (x : String)
    (hx : x ∈ e.2) (hg : x ∈ gs) :
    alookup e.1 (getKerningGroups gs groups).side1 = some (sortStr (kept gs e)) := by
  rw [(side_eq gs groups kerning w).1]
  apply alookup_of_mem _ _ _ (expect_keys_nodup gs groups _ w.names)
  simp only [mem_map, mem_filter, Bool.and_eq_true, Prod.mk.injEq]
  refine ⟨e, ⟨he, ?_, h1⟩, rfl, rfl⟩
  have : x ∈ kept gs e := (mem_kept gs e x).mpr ⟨hx, hg⟩
  cases hk : kept gs e with
  | nil => rw [hk] at this; cases this
  | cons _ _ => rfl

theorem side2_some (gs : List String) (groups : List (String × List String)) (kerning : List (String × String × Q))
    (w : WF gs groups kerning) (s : String) (c : List String)
    (h : alookup s (getKerningGroups gs groups).side2 = some c) :
    ∃ e ∈ groups, e.1 = s ∧ is2 s = true ∧ c = sortStr (kept gs e) := by
  rw [(side_eq gs groups kerning w).2] at h
  have := mem_of_alookup s c _ h
  simp only [expect2, mem_map, mem_filter, Bool.and_eq_true, Prod.mk.injEq] at this
  obtain ⟨e, ⟨he, _, h1⟩, rfl, rfl⟩ := this
  exact ⟨e, he, rfl, h1, rfl⟩

theorem side2_of_group (gs : List String) (groups : List (String × List String)) (kerning : List (String × String × Q))
    (w : WF gs groups kerning) (e : String × List String) (he : e ∈ groups) (h1 : is2 e.1 = true) (x : String)
    (hx : x ∈ e.2) (hg : x ∈ gs) :
    alookup e.1 (getKerningGroups gs groups).side2 = some (sortStr (kept gs e)) := by
  rw [(side_eq gs groups kerning w).2]
  apply alookup_of_mem _ _ _ (expect_keys_nodup gs groups _ w.names)
  simp only [mem_map, mem_filter, Bool.and_eq_true, Prod.mk.injEq]
  refine ⟨e, ⟨he, ?_, h1⟩, rfl, rfl⟩
  have : x ∈ kept gs e := (mem_kept gs e x).mpr ⟨hx, hg⟩
  cases hk : kept gs e with
  | nil => rw [hk] at this; cases this
  | cons _ _ => rfl

theorem mem_sortStr (l : List String) (x : String) : x ∈ sortStr l ↔ x ∈ l := (sortStr_perm l).mem_iff

/-! ### the reference semantics -/

theorem getLast?_mem {α : Type} (l : List α) (a : α) (h : l.getLast? = some a) : a ∈ l := by
  obtain ⟨ys, rfl⟩ := getLast?_eq_some_iff.mp h; simp

/-- `groupOf` under validity: the (unique) group of the side that lists the glyph -/
theorem groupOf_iff (pfx : String) (groups : List (String × List String))
    (hd : ((groups.filter (fun e => e.1.startsWith pfx)).flatMap (·.2)).Nodup) (g n : String) :
    groupOf pfx groups g = some n ↔ ∃ e ∈ groups, e.1 = n ∧ e.1.startsWith pfx = true ∧ g ∈ e.2 := by
  unfold groupOf
  constructor
  · intro h
    simp only [Option.map_eq_some_iff] at h
    obtain ⟨e, he, rfl⟩ := h
    have := getLast?_mem _ _ he
    simp only [mem_filter, Bool.and_eq_true, contains_iff_mem] at this
    exact ⟨e, this.1, rfl, this.2.1, this.2.2⟩
  · rintro ⟨e, he, rfl, hp, hg⟩
    have hmem : e ∈ groups.filter (fun e => e.1.startsWith pfx && e.2.contains g) := by
      simp only [mem_filter, Bool.and_eq_true, contains_iff_mem]; exact ⟨he, hp, hg⟩
    cases hl : (groups.filter (fun e => e.1.startsWith pfx && e.2.contains g)).getLast? with
    | none => rw [getLast?_eq_none_iff] at hl; rw [hl] at hmem; cases hmem
    | some e' =>
      have h' := getLast?_mem _ _ hl
      simp only [mem_filter, Bool.and_eq_true, contains_iff_mem] at h'
      have : e' = e := flatMap_nodup_unique (·.2) _ hd e' e g
        (mem_filter.mpr ⟨h'.1, h'.2.1⟩) (mem_filter.mpr ⟨he, hp⟩) h'.2.2 hg
      rw [this]; rfl

theorem map_nodup_inj {α β : Type} (f : α → β) : ∀ (l : List α), (l.map f).Nodup → ∀ a b, a ∈ l → b ∈ l → f a = f b → a = b := by
  intro l
  induction l with
  | nil => intro _ a b ha; cases ha
  | cons y ys ih =>
    intro hn a b ha hb hf
    rw [map_cons, nodup_cons] at hn
    rcases mem_cons.mp ha with ha' | ha' <;> rcases mem_cons.mp hb with hb' | hb'
    · rw [ha', hb']
    · subst ha'; exact absurd (hf ▸ mem_map_of_mem (f := f) hb') hn.1
    · subst hb'; exact absurd (hf.symm ▸ mem_map_of_mem (f := f) ha') hn.1
    · exact ih hn.2 a b ha' hb' hf

theorem kernGet_iff (kerning : List (String × String × Q)) (hk : (kerning.map (fun e => (e.1, e.2.1))).Nodup) (x y : String) (v : Q) :
    kernGet kerning (some x) (some y) = some v ↔ (x, y, v) ∈ kerning := by
  unfold kernGet
  dsimp only
  constructor
  · intro h
    simp only [Option.map_eq_some_iff] at h
    obtain ⟨e, he, rfl⟩ := h
    have := getLast?_mem _ _ he
    simp only [mem_filter, Bool.and_eq_true, beq_iff_eq] at this
    obtain ⟨h1, rfl, rfl⟩ := this
    exact h1
  · intro h
    have hmem : (x, y, v) ∈ kerning.filter (fun e => e.1 == x && e.2.1 == y) := by
      refine mem_filter.mpr ⟨h, ?_⟩; simp
    cases hl : (kerning.filter (fun e => e.1 == x && e.2.1 == y)).getLast? with
    | none => rw [getLast?_eq_none_iff] at hl; rw [hl] at hmem; cases hmem
    | some e' =>
      have h' := getLast?_mem _ _ hl
      simp only [mem_filter, Bool.and_eq_true, beq_iff_eq] at h'
      obtain ⟨h1, h2, h3⟩ := h'
      have : e' = (x, y, v) := by
        apply map_nodup_inj _ _ hk e' (x, y, v) h1 h
        simp [h2, h3]
      rw [this]; rfl

/-! ### the pairs the writer makes, against the reference -/

def pairOf (gs : List String) (g : Groups) (q : Q) (e : String × String × Q) : Option KPair :=
  let c1 := alookup e.1 g.side1
  let c2 := alookup e.2.1 g.side2
  if c1.isNone && !gs.contains e.1 then none
  else if c2.isNone && !gs.contains e.2.1 then none
  else if c1.isSome && c2.isSome && e.2.2 == 0 then none
  else some ⟨match c1 with | some c => .cls c | none => .glyph e.1,
             match c2 with | some c => .cls c | none => .glyph e.2.1, quantize e.2.2 q⟩

theorem getKerningPairs_eq (gs : List String) (g : Groups) (q : Q) (kerning : List (String × String × Q)) :
    getKerningPairs gs g q kerning = kerning.filterMap (pairOf gs g q) := rfl

/-- the key under which the reference looks a glyph up at the given specificity of a side -/
def key1 (groups : List (String × List String)) (g1 : String) (cls : Bool) : Option String :=
  if cls then groupOf SIDE1_PREFIX groups g1 else some g1
def key2 (groups : List (String × List String)) (g2 : String) (cls : Bool) : Option String :=
  if cls then groupOf SIDE2_PREFIX groups g2 else some g2

theorem kernGet_some (kerning : List (String × String × Q)) (a b : Option String) (v : Q) (h : kernGet kerning a b = some v) :
    ∃ x y, a = some x ∧ b = some y := by
  cases a with
  | none => simp [kernGet] at h
  | some x =>
    cases b with
    | none => simp [kernGet] at h
    | some y => exact ⟨x, y, rfl, rfl⟩

/-- every rule that matches (g1, g2) comes from the kerning entry the reference finds at the rule's specificity -/
theorem pair_sound (gs : List String) (groups : List (String × List String)) (kerning : List (String × String × Q)) (q : Q)
    (w : WF gs groups kerning) (g1 g2 : String) (p : KPair)
    (hp : p ∈ getKerningPairs gs (getKerningGroups gs groups) q kerning) (hm : Matches p g1 g2) :
    ∃ v, kernGet kerning (key1 groups g1 p.side1.isClass) (key2 groups g2 p.side2.isClass) = some v ∧
      p.value = quantize v q ∧ ¬(p.side1.isClass = true ∧ p.side2.isClass = true ∧ v = 0) := by
  rw [getKerningPairs_eq, mem_filterMap] at hp
  obtain ⟨⟨s1, s2, v⟩, he, hpo⟩ := hp
  refine ⟨v, ?_⟩
  unfold pairOf at hpo
  dsimp only at hpo
  have hk1 : ∀ c, alookup s1 (getKerningGroups gs groups).side1 = some c → g1 ∈ c → groupOf SIDE1_PREFIX groups g1 = some s1 := by
    intro c hc hg
    obtain ⟨e, he, hn, h1, rfl⟩ := side1_some gs groups kerning w s1 c hc
    rw [mem_sortStr, mem_kept] at hg
    exact (groupOf_iff SIDE1_PREFIX groups w.d1 g1 s1).mpr ⟨e, he, hn, by rw [hn]; exact h1, hg.1⟩
  have hk2 : ∀ c, alookup s2 (getKerningGroups gs groups).side2 = some c → g2 ∈ c → groupOf SIDE2_PREFIX groups g2 = some s2 := by
    intro c hc hg
    obtain ⟨e, he, hn, h1, rfl⟩ := side2_some gs groups kerning w s2 c hc
    rw [mem_sortStr, mem_kept] at hg
    exact (groupOf_iff SIDE2_PREFIX groups w.d2 g2 s2).mpr ⟨e, he, hn, by rw [hn]; exact h1, hg.1⟩
  have hkv := (kernGet_iff kerning w.keys s1 s2 v).mpr he
  unfold Matches at hm
  cases hc1 : alookup s1 (getKerningGroups gs groups).side1 with
  | none =>
    cases hc2 : alookup s2 (getKerningGroups gs groups).side2 with
    | none =>
      rw [hc1, hc2] at hpo
      simp only [Option.isNone_none, Bool.true_and, Option.isSome_none, Bool.false_and, Bool.false_eq_true, if_false] at hpo
      split at hpo
      · cases hpo
      · split at hpo
        · cases hpo
        · cases hpo
          simp only [Side.glyphs, mem_singleton] at hm
          simp only [key1, key2, Side.isClass, Bool.false_eq_true, if_false, hm.1, hm.2, hkv, false_and, not_false_eq_true, and_self]
    | some c2 =>
      rw [hc1, hc2] at hpo
      simp only [Option.isNone_none, Bool.true_and, Option.isSome_none, Bool.false_and, Bool.false_eq_true, if_false,
        Option.isNone_some] at hpo
      split at hpo
      · cases hpo
      · cases hpo
        simp only [Side.glyphs, mem_singleton] at hm
        simp only [key1, key2, Side.isClass, Bool.false_eq_true, if_false, if_true, hm.1, hk2 c2 hc2 hm.2, hkv, true_and, false_and,
          not_false_eq_true, and_self]
  | some c1 =>
    cases hc2 : alookup s2 (getKerningGroups gs groups).side2 with
    | none =>
      rw [hc1, hc2] at hpo
      simp only [Option.isNone_none, Bool.true_and, Option.isSome_none, Bool.false_and, Bool.false_eq_true, if_false,
        Option.isNone_some, Bool.and_false] at hpo
      split at hpo
      · cases hpo
      · cases hpo
        simp only [Side.glyphs, mem_singleton] at hm
        simp only [key1, key2, Side.isClass, Bool.false_eq_true, if_false, if_true, hm.2, hk1 c1 hc1 hm.1, hkv, false_and,
          and_false, not_false_eq_true, and_self]
    | some c2 =>
      rw [hc1, hc2] at hpo
      simp only [Option.isNone_some, Bool.false_and, Bool.false_eq_true, if_false, Option.isSome_some, Bool.true_and] at hpo
      split at hpo
      · cases hpo
      · rename_i hz
        cases hpo
        simp only [Side.glyphs] at hm
        simp only [key1, key2, Side.isClass, if_true, hk1 c1 hc1 hm.1, hk2 c2 hc2 hm.2, hkv, true_and]
        simpa using hz

/-- every kerning entry the reference could find for (g1, g2) at some specificity — except a zero class-class entry — has
    become a rule of that specificity that matches (g1, g2) -/
theorem pair_complete (gs : List String) (groups : List (String × List String)) (kerning : List (String × String × Q)) (q : Q)
    (w : WF gs groups kerning) (g1 g2 : String) (hg1 : g1 ∈ gs) (hg2 : g2 ∈ gs) (a b : Bool) (v : Q)
    (h : kernGet kerning (key1 groups g1 a) (key2 groups g2 b) = some v) (hz : ¬(a = true ∧ b = true ∧ v = 0)) :
    ∃ p ∈ getKerningPairs gs (getKerningGroups gs groups) q kerning,
      Matches p g1 g2 ∧ p.side1.isClass = a ∧ p.side2.isClass = b ∧ p.value = quantize v q := by
  obtain ⟨s1, s2, e1, e2⟩ := kernGet_some kerning _ _ v h
  rw [e1, e2] at h
  have hmem := (kernGet_iff kerning w.keys s1 s2 v).mp h
  -- side 1
  have hS1 : ∃ sd : Side, (match alookup s1 (getKerningGroups gs groups).side1 with | some c => Side.cls c | none => Side.glyph s1) = sd ∧
      sd.isClass = a ∧ g1 ∈ sd.glyphs ∧ ((alookup s1 (getKerningGroups gs groups).side1).isNone = true → s1 ∈ gs) ∧
      (alookup s1 (getKerningGroups gs groups).side1).isSome = a := by
    cases a with
    | false =>
      simp only [key1, Bool.false_eq_true, if_false, Option.some.injEq] at e1
      subst e1
      cases hc : alookup g1 (getKerningGroups gs groups).side1 with
      | none => exact ⟨_, rfl, rfl, by simp [Side.glyphs], fun _ => hg1, rfl⟩
      | some c =>
        obtain ⟨e, he, hn, h1, _⟩ := side1_some gs groups kerning w g1 c hc
        exact absurd hg1 (hn ▸ w.noGlyph e he (Or.inl (by rw [hn]; exact h1)))
    | true =>
      simp only [key1, if_true] at e1
      obtain ⟨e, he, hn, h1, hg⟩ := (groupOf_iff SIDE1_PREFIX groups w.d1 g1 s1).mp e1
      have := side1_of_group gs groups kerning w e he h1 g1 hg hg1
      rw [hn] at this
      rw [this]
      refine ⟨_, rfl, rfl, ?_, by simp, rfl⟩
      simp only [Side.glyphs, mem_sortStr, mem_kept]; exact ⟨hg, hg1⟩
  have hS2 : ∃ sd : Side, (match alookup s2 (getKerningGroups gs groups).side2 with | some c => Side.cls c | none => Side.glyph s2) = sd ∧
      sd.isClass = b ∧ g2 ∈ sd.glyphs ∧ ((alookup s2 (getKerningGroups gs groups).side2).isNone = true → s2 ∈ gs) ∧
      (alookup s2 (getKerningGroups gs groups).side2).isSome = b := by
    cases b with
    | false =>
      simp only [key2, Bool.false_eq_true, if_false, Option.some.injEq] at e2
      subst e2
      cases hc : alookup g2 (getKerningGroups gs groups).side2 with
      | none => exact ⟨_, rfl, rfl, by simp [Side.glyphs], fun _ => hg2, rfl⟩
      | some c =>
        obtain ⟨e, he, hn, h1, _⟩ := side2_some gs groups kerning w g2 c hc
        exact absurd hg2 (hn ▸ w.noGlyph e he (Or.inr (by rw [hn]; exact h1)))
    | true =>
      simp only [key2, if_true] at e2
      obtain ⟨e, he, hn, h1, hg⟩ := (groupOf_iff SIDE2_PREFIX groups w.d2 g2 s2).mp e2
      have := side2_of_group gs groups kerning w e he h1 g2 hg hg2
      rw [hn] at this
      rw [this]
      refine ⟨_, rfl, rfl, ?_, by simp, rfl⟩
      simp only [Side.glyphs, mem_sortStr, mem_kept]; exact ⟨hg, hg2⟩
  obtain ⟨sd1, hsd1, hc1, hm1, hn1, hi1⟩ := hS1
  obtain ⟨sd2, hsd2, hc2, hm2, hn2, hi2⟩ := hS2
  refine ⟨⟨sd1, sd2, quantize v q⟩, ?_, ⟨hm1, hm2⟩, hc1, hc2, rfl⟩
  rw [getKerningPairs_eq, mem_filterMap]
  refine ⟨(s1, s2, v), hmem, ?_⟩
  unfold pairOf
  dsimp only
  have c1 : ((alookup s1 (getKerningGroups gs groups).side1).isNone && !gs.contains s1) = false := by
    cases hh : (alookup s1 (getKerningGroups gs groups).side1).isNone with
    | false => rfl
    | true => simp [hn1 hh]
  have c2 : ((alookup s2 (getKerningGroups gs groups).side2).isNone && !gs.contains s2) = false := by
    cases hh : (alookup s2 (getKerningGroups gs groups).side2).isNone with
    | false => rfl
    | true => simp [hn2 hh]
  have c3 : ((alookup s1 (getKerningGroups gs groups).side1).isSome && (alookup s2 (getKerningGroups gs groups).side2).isSome && v == 0) = false := by
    rw [hi1, hi2]
    cases a <;> cases b <;> simp_all
  rw [c1, c2, c3, hsd1, hsd2]
  rfl

/-! ### the main statement -/

/-- which kerning entry determines the UFO value of (g1, g2): (specificity, value) — `ufoKern` with the level kept -/
def ufoEntry (groups : List (String × List String)) (kerning : List (String × String × Q)) (g1 g2 : String) : Option (Nat × Q) :=
  match kernGet kerning (key1 groups g1 false) (key2 groups g2 false) with
  | some v => some (0, v)
  | none => match kernGet kerning (key1 groups g1 false) (key2 groups g2 true) with
    | some v => some (1, v)
    | none => match kernGet kerning (key1 groups g1 true) (key2 groups g2 false) with
      | some v => some (2, v)
      | none => (kernGet kerning (key1 groups g1 true) (key2 groups g2 true)).map (fun v => (3, v))

theorem ufoKern_eq_entry (groups : List (String × List String)) (kerning : List (String × String × Q)) (g1 g2 : String) :
    ufoKern groups kerning g1 g2 = ((ufoEntry groups kerning g1 g2).map (·.2)).getD 0 := by
  unfold ufoKern ufoEntry key1 key2
  simp only [Bool.false_eq_true, if_false, if_true]
  cases kernGet kerning (some g1) (some g2) with
  | some v => rfl
  | none =>
    cases kernGet kerning (some g1) (groupOf SIDE2_PREFIX groups g2) with
    | some v => rfl
    | none =>
      cases kernGet kerning (groupOf SIDE1_PREFIX groups g1) (some g2) with
      | some v => rfl
      | none =>
        cases kernGet kerning (groupOf SIDE1_PREFIX groups g1) (groupOf SIDE2_PREFIX groups g2) with
        | some v => rfl
        | none => rfl

/-- what the generated rules apply to (g1, g2) when read first-match in `KerningPair` order -/
def kernApplied (glyphSet : List String) (groups : List (String × List String)) (kerning : List (String × String × Q)) (q : Q)
    (g1 g2 : String) : Option KPair :=
  firstMatch (sortPairs (getKerningPairs glyphSet (getKerningGroups glyphSet groups) q kerning)) g1 g2

theorem level_eq (p : KPair) : level p = (if p.side1.isClass then 2 else 0) + (if p.side2.isClass then 1 else 0) := rfl

/-- Target 3a: the first matching rule has the specificity of, and the rounded value of, the kerning entry that determines
    the UFO value (glyph-glyph, then glyph-group, then group-glyph, then group-group); it is never a zero group-group entry -/
theorem C05_ufo_some (gs : List String) (groups : List (String × List String)) (kerning : List (String × String × Q)) (q : Q)
    (hw : wfKern gs groups kerning = true) (g1 g2 : String) (hg1 : g1 ∈ gs) (hg2 : g2 ∈ gs) (p : KPair)
    (h : kernApplied gs groups kerning q g1 g2 = some p) :
    ∃ v, ufoEntry groups kerning g1 g2 = some (level p, v) ∧ p.value = quantize v q ∧ ¬(level p = 3 ∧ v = 0) := by
  have w := wf_of_wfKern gs groups kerning hw
  obtain ⟨hp, hm, hmin⟩ := firstMatch_minimal _ g1 g2 p h
  obtain ⟨v, hk, hv, hz⟩ := pair_sound gs groups kerning q w g1 g2 p hp hm
  refine ⟨v, ?_, hv, ?_⟩
  · -- no more specific entry exists
    have hlow : ∀ a b u, kernGet kerning (key1 groups g1 a) (key2 groups g2 b) = some u → ¬(a = true ∧ b = true) →
        level p ≤ (if a then 2 else 0) + (if b then 1 else 0) := by
      intro a b u hu hab
      obtain ⟨p', hp', hm', ha, hb, _⟩ := pair_complete gs groups kerning q w g1 g2 hg1 hg2 a b u hu (fun hh => hab ⟨hh.1, hh.2.1⟩)
      have := hmin p' hp' hm'
      rw [level_eq p', ha, hb] at this
      exact this
    unfold ufoEntry
    rw [level_eq] at hlow ⊢
    cases h00 : kernGet kerning (key1 groups g1 false) (key2 groups g2 false) with
    | some u =>
      have := hlow false false u h00 (by simp)
      cases c1 : p.side1.isClass <;> cases c2 : p.side2.isClass <;> simp [c1, c2] at this hk ⊢
      rw [h00] at hk; simpa using hk
    | none =>
      dsimp only
      cases h01 : kernGet kerning (key1 groups g1 false) (key2 groups g2 true) with
      | some u =>
        have := hlow false true u h01 (by simp)
        cases c1 : p.side1.isClass <;> cases c2 : p.side2.isClass <;> simp [c1, c2] at this hk ⊢
        · rw [h00] at hk; cases hk
        · rw [h01] at hk; simpa using hk
      | none =>
        dsimp only
        cases h10 : kernGet kerning (key1 groups g1 true) (key2 groups g2 false) with
        | some u =>
          have := hlow true false u h10 (by simp)
          cases c1 : p.side1.isClass <;> cases c2 : p.side2.isClass <;> simp [c1, c2] at this hk ⊢
          · rw [h00] at hk; cases hk
          · rw [h01] at hk; cases hk
          · rw [h10] at hk; simpa using hk
        | none =>
          dsimp only
          cases c1 : p.side1.isClass <;> cases c2 : p.side2.isClass <;> simp [c1, c2] at hk ⊢
          · rw [h00] at hk; cases hk
          · rw [h01] at hk; cases hk
          · rw [h10] at hk; cases hk
          · rw [hk]
  · rintro ⟨hl, hv0⟩
    apply hz
    rw [level_eq] at hl
    cases c1 : p.side1.isClass <;> cases c2 : p.side2.isClass <;> simp [c1, c2] at hl
    exact ⟨rfl, rfl, hv0⟩

/-- Target 3b: no rule matches exactly when no kerning entry determines the pair, or the determining entry is a group-group
    entry with value 0 (which `getKerningPairs` leaves out) -/
theorem C05_ufo_none (gs : List String) (groups : List (String × List String)) (kerning : List (String × String × Q)) (q : Q)
    (hw : wfKern gs groups kerning = true) (g1 g2 : String) (hg1 : g1 ∈ gs) (hg2 : g2 ∈ gs) :
    kernApplied gs groups kerning q g1 g2 = none ↔
      (ufoEntry groups kerning g1 g2 = none ∨ ufoEntry groups kerning g1 g2 = some (3, 0)) := by
  have w := wf_of_wfKern gs groups kerning hw
  constructor
  · intro h
    have hno := (firstMatch_eq_none_iff _ g1 g2).mp h
    have hall : ∀ a b u, kernGet kerning (key1 groups g1 a) (key2 groups g2 b) = some u → (a = true ∧ b = true ∧ u = 0) := by
      intro a b u hu
      apply Classical.byContradiction
      intro hz
      obtain ⟨p', hp', hm', _⟩ := pair_complete gs groups kerning q w g1 g2 hg1 hg2 a b u hu hz
      exact hno p' hp' hm'
    unfold ufoEntry
    cases h00 : kernGet kerning (key1 groups g1 false) (key2 groups g2 false) with
    | some u => have := hall _ _ u h00; simp at this
    | none =>
      dsimp only
      cases h01 : kernGet kerning (key1 groups g1 false) (key2 groups g2 true) with
      | some u => have := hall _ _ u h01; simp at this
      | none =>
        dsimp only
        cases h10 : kernGet kerning (key1 groups g1 true) (key2 groups g2 false) with
        | some u => have := hall _ _ u h10; simp at this
        | none =>
          dsimp only
          cases h11 : kernGet kerning (key1 groups g1 true) (key2 groups g2 true) with
          | some u => have := hall _ _ u h11; right; simp [this.2.2]
          | none => left; rfl
  · intro h
    cases hk : kernApplied gs groups kerning q g1 g2 with
    | none => rfl
    | some p =>
      obtain ⟨v, he, _, hz⟩ := C05_ufo_some gs groups kerning q hw g1 g2 hg1 hg2 p hk
      rcases h with h | h
      · rw [h] at he; cases he
      · rw [h] at he
        simp only [Option.some.injEq, Prod.mk.injEq] at he
        exact absurd ⟨he.1.symm, he.2.symm⟩ hz

/-- Target 3 (value form): the amount the sorted rule list applies to (g1, g2) — the value of its first match, 0 without a
    match — is the UFO kerning value of (g1, g2) rounded to the quantisation step -/
theorem C05_ufo_value (gs : List String) (groups : List (String × List String)) (kerning : List (String × String × Q)) (q : Q)
    (hw : wfKern gs groups kerning = true) (g1 g2 : String) (hg1 : g1 ∈ gs) (hg2 : g2 ∈ gs) :
    ((kernApplied gs groups kerning q g1 g2).map (·.value)).getD 0 = quantize (ufoKern groups kerning g1 g2) q := by
  rw [ufoKern_eq_entry]
  cases hk : kernApplied gs groups kerning q g1 g2 with
  | none =>
    rcases (C05_ufo_none gs groups kerning q hw g1 g2 hg1 hg2).mp hk with h | h
    · rw [h]; simp [quantize_zero]
    · rw [h]; simp [quantize_zero]
  | some p =>
    obtain ⟨v, he, hv, _⟩ := C05_ufo_some gs groups kerning q hw g1 g2 hg1 hg2 p hk
    rw [he]; simpa using hv

/-! non-vacuity: a class pair, a glyph-class exception and a glyph-glyph exception of the exception -/
def exGs : List String := ["A", "B", "V", "W"]
def exGroups : List (String × List String) := [("public.kern1.A", ["A", "B"]), ("public.kern2.V", ["V", "W", "ghost"])]
def exKerning : List (String × String × Q) :=
  [("public.kern1.A", "public.kern2.V", -10), ("A", "public.kern2.V", -7), ("A", "V", 5), ("ghost", "V", 3)]

example : ((kernApplied exGs exGroups exKerning 1 "A" "V").map (·.value)).getD 0 = quantize 5 1 ∧
    ((kernApplied exGs exGroups exKerning 1 "A" "W").map (·.value)).getD 0 = quantize (-7) 1 ∧
    ((kernApplied exGs exGroups exKerning 1 "B" "W").map (·.value)).getD 0 = quantize (-10) 1 ∧
    kernApplied exGs exGroups exKerning 1 "V" "A" = none := by
  have hw : wfKern exGs exGroups exKerning = true := by decide +kernel
  have a := C05_ufo_value exGs exGroups exKerning 1 hw "A" "V" (by decide) (by decide)
  have b := C05_ufo_value exGs exGroups exKerning 1 hw "A" "W" (by decide) (by decide)
  have c := C05_ufo_value exGs exGroups exKerning 1 hw "B" "W" (by decide) (by decide)
  have d := (C05_ufo_none exGs exGroups exKerning 1 hw "V" "A" (by decide) (by decide)).mpr (Or.inl (by decide +kernel))
  have ea : ufoKern exGroups exKerning "A" "V" = 5 := by decide +kernel
  have eb : ufoKern exGroups exKerning "A" "W" = -7 := by decide +kernel
  have ec : ufoKern exGroups exKerning "B" "W" = -10 := by decide +kernel
  rw [ea] at a; rw [eb] at b; rw [ec] at c
  exact ⟨a, b, c, d⟩

end Ufo2ft.C05
