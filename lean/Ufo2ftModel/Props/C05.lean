import Ufo2ftModel.Props.C05Order
import Ufo2ftModel.Props.C05Quant
import Ufo2ftModel.Props.C05Groups
import Ufo2ftModel.Props.C05Ufo
import Ufo2ftModel.Props.C05Merge
import Ufo2ftModel.Props.C05Split
import Ufo2ftModel.Props.C05Part
import Ufo2ftModel.Props.C05Reg
import Ufo2ftModel.Props.C05Together
/-! Property C05 theorems.  The proofs live in the helper files:
  * `C05Order`  — `KerningPair.__lt__` is a strict weak order, `sortPairs` sorts; first-match precedence ("exceptions still win")
  * `C05Quant`  — `quantize` is the nearest multiple, halves up
  * `C05Groups`, `C05Ufo` — `getKerningGroups` on valid groups; the first match of the sorted pairs carries the rounded UFO value
  * `C05Merge`  — `mergeScripts`: fuel, disjointness, cover, multiset of pairs
  * `C05Split`, `C05Part` — `_splitBaseAndMarkPairs`, `partitionByScript`
  * `C05Together` — exception and excepted class cell end up in the same `splitKerning` bucket
  * `C05Reg`    — `_registerLookups`
  This file keeps the early small facts and states the headline corollary. -/
namespace Ufo2ft.C05
open Ufo2ft List

/-- `quantize v q` is an integer multiple of `q` -/
theorem quantize_multiple (v q : Q) : ∃ k : Int, quantize v q = q * (k : Q) := ⟨otRound (v / q), rfl⟩

/-- with the default quantisation 1 the value is rounded to the nearest integer, halves up -/
theorem quantize_one (v : Q) : quantize v 1 = (otRound v : Q) := by
  unfold quantize
  have : v / 1 = v := by grind
  rw [this]; grind

/-- a more specific pair sorts before a less specific one: glyph-glyph < glyph-class < class-glyph < class-class -/
theorem pairLt_of_flags (a b : KPair) :
    (a.side1.isClass = false ∧ b.side1.isClass = true → pairLt a b = true) ∧
    (a.side1.isClass = b.side1.isClass ∧ a.side2.isClass = false ∧ b.side2.isClass = true → pairLt a b = true) := by
  constructor
  · rintro ⟨h1, h2⟩; simp [pairLt, h1, h2]
  · rintro ⟨h0, h1, h2⟩; simp [pairLt, h0, h1, h2]

theorem sortPairs_perm (l : List KPair) : (sortPairs l).Perm l := List.mergeSort_perm _ _

/-- Headline (single lookup, "UFO precedence glyph-glyph, glyph-group, group-glyph, group-group, rounded to the quantisation
    step"): for well-formed kerning data and any two glyphs of the font, reading the `KerningPair`-sorted rule list first-match
    gives the UFO kerning value of the pair rounded to a multiple of the step; when the step is positive the result is within
    half a step of the UFO value. -/
theorem C05_precedence (gs : List String) (groups : List (String × List String)) (kerning : List (String × String × Q)) (q : Q)
    (hw : wfKern gs groups kerning = true) (hq : 0 < q) (g1 g2 : String) (hg1 : g1 ∈ gs) (hg2 : g2 ∈ gs) :
    ((kernApplied gs groups kerning q g1 g2).map (·.value)).getD 0 = quantize (ufoKern groups kerning g1 g2) q ∧
    (∃ k : Int, ((kernApplied gs groups kerning q g1 g2).map (·.value)).getD 0 = q * (k : Q)) ∧
    absQ (((kernApplied gs groups kerning q g1 g2).map (·.value)).getD 0 - ufoKern groups kerning g1 g2) ≤ q / 2 := by
  have h := C05_ufo_value gs groups kerning q hw g1 g2 hg1 hg2
  rw [h]
  exact ⟨rfl, quantize_multiple _ _, quantize_abs _ _ hq⟩

example : ∃ k : Int, ((kernApplied exGs exGroups exKerning 5 "A" "V").map (·.value)).getD 0 = 5 * (k : Q) :=
  (C05_precedence exGs exGroups exKerning 5 (by decide +kernel) (by decide) "A" "V" (by decide) (by decide)).2.1

end Ufo2ft.C05
