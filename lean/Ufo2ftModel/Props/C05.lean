import Ufo2ftModel.Spec.C05
/-! Property C05 theorems. -/
namespace Ufo2ft.C05
open Ufo2ft List

/-- `quantize v q` is an integer multiple of `q` -/
theorem quantize_multiple (v q : Q) : ∃ k : Int, quantize v q = q * (k : Q) := ⟨otRound (v / q), rfl⟩

/-- with the default quantisation 1 the value is rounded to the nearest integer, halves up -/
theorem quantize_one (v : Q) : quantize v 1 = (otRound v : Q) := by
  unfold quantize
  have : v / 1 = v := by grind
  rw [this]; grind

/-- a more specific pair sorts before a less specific one: glyph-glyph < glyph-class < class-glyph < class-class -/
theorem pairLt_of_flags (a b : KPair) :
    (a.side1.isClass = false ∧ b.side1.isClass = true → pairLt a b = true) ∧
    (a.side1.isClass = b.side1.isClass ∧ a.side2.isClass = false ∧ b.side2.isClass = true → pairLt a b = true) := by
  constructor
  · rintro ⟨h1, h2⟩; simp [pairLt, h1, h2]
  · rintro ⟨h0, h1, h2⟩; simp [pairLt, h0, h1, h2]

theorem sortPairs_perm (l : List KPair) : (sortPairs l).Perm l := List.mergeSort_perm _ _

end Ufo2ft.C05
