import Ufo2ftModel.Props.C06Complete
import Ufo2ftModel.Props.C06CtxSound
import Ufo2ftModel.Props.C06Frame
import Ufo2ftModel.Props.C06CtxComplete
/-!
Property C06 — generated mark features make matching anchors coincide.

The theorems are about `model` (Model/C06.lean: the MarkFeatureWriter) under the shaper semantics `attach`
(Spec/C06.lean: the last lookup that applies wins).  Supporting lemmas live in Props/C06Parse … C06Complete.
-/
namespace Ufo2ft.C06
open List

theorem model_ok {i : Input} {P : Program} (h : model i = .ok P) : ∃ al, anchorLists i = .ok al ∧ P = build i al := by
  unfold model at h
  cases ha : anchorLists i with
  | error e => rw [ha] at h; simp at h
  | ok al => rw [ha] at h; simp only [Except.ok.injEq] at h; exact ⟨al, rfl, h.symm⟩

/-- what membership in `candidates` says: a pair of SOURCE anchors of `b` and `m`, named `k` (or `k_N`, N = c+1) and `_k` -/
theorem mem_candidates_iff {i : Input} {b m : String} {c : Option Nat} {d : Int × Int} :
    d ∈ candidates i b m c ↔ ∃ gb gm, findGlyph i b = some gb ∧ findGlyph i m = some gm ∧
      ∃ sm ∈ gm.anchors, ∃ k, k ≠ [] ∧ sm.name.toList = '_' :: k ∧ ∃ sb ∈ gb.anchors, baseNameMatches k c sb.name.toList = true ∧
        d = (qround i.quant sb.x - qround i.quant sm.x, qround i.quant sb.y - qround i.quant sm.y) := by
  unfold candidates
  constructor
  · intro h
    cases hb : findGlyph i b with
    | none => rw [hb] at h; simp at h
    | some gb =>
      cases hm : findGlyph i m with
      | none => rw [hb, hm] at h; simp at h
      | some gm =>
        rw [hb, hm] at h
        simp only [mem_flatMap] at h
        obtain ⟨sm, hsm, hd⟩ := h
        cases hk : markKey sm.name.toList with
        | none => rw [hk] at hd; simp at hd
        | some k =>
          rw [hk] at hd
          obtain ⟨sb, hsb, rfl⟩ := mem_map.mp hd
          obtain ⟨hsb1, hsb2⟩ := mem_filter.mp hsb
          obtain ⟨hn, hne⟩ := markKey_some hk
          exact ⟨gb, gm, rfl, rfl, sm, hsm, k, hne, hn, sb, hsb1, hsb2, rfl⟩
  · rintro ⟨gb, gm, hb, hm, sm, hsm, k, hne, hn, sb, hsb, hmatch, rfl⟩
    rw [hb, hm]
    simp only [mem_flatMap]
    refine ⟨sm, hsm, ?_⟩
    rw [hn, markKey_of hne]
    exact mem_map.mpr ⟨sb, mem_filter.mpr ⟨hsb, hmatch⟩, rfl⟩

/-- **C06_offset**: whatever attachment the generated lookups (all of them, or those of one feature — any sub-list)
    give to mark `m` after glyph `b` (component `c`), it is  qround(anchor on b) − qround(anchor on m)  for a pair of
    source anchors named `k` / `k_(c+1)` and `_k`. -/
theorem C06_offset (i : Input) (P : Program) (hwf : wf i = true) (hm : model i = .ok P) (ls : List Lookup)
    (hls : ∀ L ∈ ls, L ∈ P.lookups) (b m : String) (c : Option Nat) (d : Int × Int)
    (h : attach P ls b m c = some d) : d ∈ candidates i b m c := by
  obtain ⟨al, hal, rfl⟩ := model_ok hm
  exact offset_sound (alwf_of_ok (wf_wf0 hwf) hal) hls h

/-- **C06_candidate**: when several anchor classes could attach the pair, the attachment chosen is one of the
    source-defined candidates (the statement of C06_offset for the complete lookup list). -/
theorem C06_candidate (i : Input) (P : Program) (hwf : wf i = true) (hm : model i = .ok P) (b m : String) (c : Option Nat)
    (d : Int × Int) (h : attach P P.lookups b m c = some d) : d ∈ candidates i b m c :=
  C06_offset i P hwf hm P.lookups (fun _ h => h) b m c d h

/-- **C06_sound**: no matching anchor names ⇒ no attachment. -/
theorem C06_sound (i : Input) (P : Program) (hwf : wf i = true) (hm : model i = .ok P) (ls : List Lookup)
    (hls : ∀ L ∈ ls, L ∈ P.lookups) (b m : String) (c : Option Nat) (hc : candidates i b m c = []) :
    attach P ls b m c = none := by
  cases h : attach P ls b m c with
  | none => rfl
  | some d =>
    have := C06_offset i P hwf hm ls hls b m c d h
    rw [hc] at this; simp at this

/-- **C06_ligature**: an attachment to component index `j` of a ligature comes from an anchor named `k_N` with N = j+1
    (and `_k` on the mark); a component without such an anchor (a gap, or one declared empty) gets none. -/
theorem C06_ligature (i : Input) (P : Program) (hwf : wf i = true) (hm : model i = .ok P) (b m : String) (j : Nat)
    (d : Int × Int) (h : attach P P.lookups b m (some j) = some d) :
    ∃ gb gm, findGlyph i b = some gb ∧ findGlyph i m = some gm ∧ ∃ sm ∈ gm.anchors, ∃ k, sm.name.toList = '_' :: k ∧
      ∃ sb ∈ gb.anchors, isLigName k (j + 1) sb.name.toList = true ∧
        d = (qround i.quant sb.x - qround i.quant sm.x, qround i.quant sb.y - qround i.quant sm.y) := by
  obtain ⟨gb, gm, hb, hgm, sm, hsm, k, _, hn, sb, hsb, hmatch, hd⟩ :=
    mem_candidates_iff.mp (C06_candidate i P hwf hm b m (some j) d h)
  exact ⟨gb, gm, hb, hgm, sm, hsm, k, hn, sb, hsb, by simpa [baseNameMatches] using hmatch, hd⟩

/-- the core of completeness, for any well-formed anchor list (object-lib data and contextual anchors allowed): an eligible
    (glyph, mark, component) is attached by one of the non-contextual lookups of `build` -/
theorem complete_build {i : Input} {al : AList} (w : ALwf i al) (cv : ALcov i al)
    (hcover : ∀ g ∈ i.glyphs, g.name ∈ i.abvm ∨ g.name ∈ i.notAbvm) {b m : String} {c : Option Nat}
    (he : eligible i b m c = true) :
    ∃ L ∈ (build i al).lookups, (attachLookup (build i al) L b m c).isSome = true := by
  unfold eligible at he
  cases hfb : findGlyph i b with
  | none => rw [hfb] at he; simp at he
  | some gb =>
    cases hfm : findGlyph i m with
    | none => rw [hfb, hfm] at he; simp at he
    | some gm =>
      rw [hfb, hfm] at he
      simp only [Bool.and_eq_true, any_eq_true] at he
      obtain ⟨⟨⟨⟨hincb, hincm⟩, hokm⟩, hcond⟩, sm, hsm, hpair⟩ := he
      obtain ⟨hgb, hgbn⟩ := findGlyph_some hfb
      obtain ⟨hgm, hgmn⟩ := findGlyph_some hfm
      cases hmk : markKey sm.name.toList with
      | none => rw [hmk] at hpair; simp at hpair
      | some k =>
        rw [hmk] at hpair
        simp only [Bool.and_eq_true, any_eq_true] at hpair
        obtain ⟨hpk, sb, hsb, hmatch⟩ := hpair
        obtain ⟨hn, _⟩ := markKey_some hmk
        obtain ⟨am, ham, hmm, hmkey, hmname⟩ := na_of_src_mark cv hgm (by rw [hgmn]; exact hincm) hsm hn hpk
        obtain ⟨ab, hab, hnb, hbkey, hbnum, hplb⟩ := na_of_src_base w cv hgb (by rw [hgbn]; exact hincb) hsb hpk c hmatch
        rw [hgmn] at ham
        rw [hgbn] at hab
        obtain ⟨asm0, hasm0, ham0⟩ := ham
        obtain ⟨asb0, hasb0, hab0⟩ := hab
        have hplm : am.ctx = none := plain_of_us w hasm0 ham0 (by rw [hmname]; exact hn)
        have p : Pair al b m ab am :=
          ⟨⟨asb0, hasb0, hab0⟩, ⟨asm0, hasm0, ham0⟩, hnb, hmm, hplm, by rw [hmkey, hbkey]⟩
        obtain ⟨fB, fM, inc, mf, hinc, hmf, rB, rL, rM⟩ := route al ab (hcover gb hgb |> fun h => by rw [hgbn] at h; exact h)
        cases c with
        | none =>
          simp only [Option.map_none] at hbnum
          simp only [Bool.or_eq_true] at hcond
          by_cases hmg : b ∈ mgOf i al
          · obtain ⟨L, hL, hs⟩ := mkmk_attach w p hokm hplb hbnum hmg fM inc mf hinc hmf
            exact ⟨L, rM L hL, hs⟩
          · have hbase : baseOK i b = true := by
              rcases hcond with h | h
              · exact absurd (mg_of_isMarkGlyph w cv hfb h) hmg
              · exact h
            obtain ⟨L, hL, hs⟩ := base_attach w p hokm hplb hbnum hmg hbase fB inc mf hinc hmf
            exact ⟨L, rB L hL, hs⟩
        | some j =>
          simp only [Option.map_some] at hbnum
          simp only [Bool.and_eq_true, Bool.not_eq_true'] at hcond
          obtain ⟨⟨hnmk, hlig⟩, hnull⟩ := hcond
          have hmg : b ∉ mgOf i al := by
            intro h
            rw [isMarkGlyph_of_mg w hfb h] at hnmk; simp at hnmk
          have hnonull : ∀ as, (b, as) ∈ al → ∀ a ∈ as, a.ctx = none → a.number = some (j + 1) → a.key ≠ "" := by
            intro as has a ha hpl hnum hkey
            have hsa := w.shape _ has a ha hpl
            have hnmark : a.isMark = false := by
              cases hmk' : a.isMark with
              | false => rfl
              | true => have := (hsa.mark hmk').2.2; rw [hnum] at this; simp at this
            obtain ⟨_, hl, _⟩ := hsa.lig hnmark _ hnum
            rw [hkey] at hl
            obtain ⟨sg, hsg, _, hsrc⟩ := w.src _ has
            simp only at hsg
            rw [hfb] at hsg
            simp only [Option.some.injEq] at hsg; subst hsg
            obtain ⟨s, hs, hsn, _, _⟩ := hsrc a ha
            have : gb.anchors.any (fun a => isLigName [] (j + 1) a.name.toList) = true :=
              any_eq_true.mpr ⟨s, hs, by rw [hsn]; simpa using hl⟩
            rw [this] at hnull; simp at hnull
          obtain ⟨L, hL, hs⟩ := lig_attach w p hokm hplb j hbnum hmg hlig hnonull fB inc mf hinc hmf
          exact ⟨L, rL L hL, hs⟩

/-- **C06_complete**: every eligible (glyph, mark, component) — matching anchors on a plain key, both glyphs passing the
    GDEF / category filters — is attached by the generated lookups. -/
theorem C06_complete (i : Input) (P : Program) (hwf : wf i = true) (hm : model i = .ok P) (b m : String) (c : Option Nat)
    (he : eligible i b m c = true) : (attach P P.lookups b m c).isSome = true := by
  obtain ⟨al, hal, rfl⟩ := model_ok hm
  obtain ⟨_, hcover⟩ := wf_iff i (wf_wf0 hwf)
  obtain ⟨L, hL, hs⟩ := complete_build (alwf_of_ok (wf_wf0 hwf) hal) (alcov_of_ok hal) hcover he
  exact attach_isSome_of_mem hL hs


/-! ### the Bool predicates the driver evaluates on OBSERVED tables hold of the model's own tables -/

theorem mem_tableOf {P : Program} {ls : List Lookup} {qs : List Query} {e : Query × (Int × Int)} (h : e ∈ tableOf P ls qs) :
    attach P ls e.1.1 e.1.2.1 e.1.2.2 = some e.2 := by
  obtain ⟨q, _, hq⟩ := mem_filterMap.mp h
  cases ha : attach P ls q.1 q.2.1 q.2.2 with
  | none => rw [ha] at hq; simp at hq
  | some d => rw [ha] at hq; simp only [Option.map_some, Option.some.injEq] at hq; subst hq; exact ha

/-- **C06_holds**: `holdsOffset`, `holdsSound` and `holdsComplete` are true of the table the model's lookups produce
    (for every sub-list of lookups for the first two; for all lookups and any component bound K for completeness). -/
theorem C06_holds (i : Input) (P : Program) (hwf : wf i = true) (hm : model i = .ok P) (K : Nat) (qs : List Query)
    (ls : List Lookup) (hls : ∀ L ∈ ls, L ∈ P.lookups) :
    holdsOffset i (tableOf P ls qs) = true ∧ holdsSound i (tableOf P ls qs) = true ∧
      holdsComplete i K (tableOf P P.lookups (allQueries i K)) = true := by
  refine ⟨?_, ?_, ?_⟩
  · simp only [holdsOffset, all_eq_true, contains_iff_mem]
    intro e he
    exact C06_offset i P hwf hm ls hls _ _ _ _ (mem_tableOf he)
  · simp only [holdsSound, all_eq_true, Bool.not_eq_true', isEmpty_eq_false_iff]
    intro e he
    exact ne_nil_of_mem (C06_offset i P hwf hm ls hls _ _ _ _ (mem_tableOf he))
  · simp only [holdsComplete, all_eq_true, Bool.or_eq_true, Bool.not_eq_true', any_eq_true]
    intro q hq
    cases he : eligible i q.1 q.2.1 q.2.2 with
    | false => exact Or.inl rfl
    | true =>
      right
      have := C06_complete i P hwf hm _ _ _ he
      cases ha : attach P P.lookups q.1 q.2.1 q.2.2 with
      | none => rw [ha] at this; simp at this
      | some d =>
        refine ⟨(q, d), mem_filterMap.mpr ⟨q, hq, by rw [ha]; rfl⟩, by simp⟩

/-! ### rejected inputs -/

theorem mapE_error_iff {α β ε} {f : α → Except ε β} {l : List α} :
    (∃ e, mapE f l = .error e) ↔ ∃ a ∈ l, ∃ e, f a = .error e := by
  induction l with
  | nil => simp [mapE]
  | cons a l ih =>
    simp only [mapE]
    cases hf : f a with
    | error e => simp [hf]
    | ok b =>
      simp only
      cases hm : mapE f l with
      | error e =>
        have := ih.mp ⟨e, hm⟩
        obtain ⟨a', ha', e', he'⟩ := this
        simp only [Except.error.injEq, exists_eq', mem_cons, exists_eq_or_imp, true_iff]
        exact Or.inr ⟨a', ha', e', he'⟩
      | ok bs =>
        simp only [reduceCtorEq, exists_false, mem_cons, exists_eq_or_imp, hf, false_or, false_iff]
        rintro ⟨a', ha', e', he'⟩
        have := ih.mpr ⟨a', ha', e', he'⟩
        rw [hm] at this; simp at this

theorem namedAnchor_error_iff (q : Q) (s : SrcAnchor) :
    (∃ e, namedAnchor q s = .error e) ↔ s.name ≠ "" ∧ ∃ e, parseAnchor s.name.toList = .error e := by
  unfold namedAnchor
  by_cases hne : s.name = ""
  · simp [hne]
  · rw [if_neg hne]
    cases hp : parseAnchor s.name.toList with
    | error e' => simp [hne]
    | ok p =>
      simp only [hne, ne_eq, not_false_eq_true, reduceCtorEq, exists_false, and_false, iff_false, not_exists]
      intro e
      split <;> simp

theorem glyphAnchors_error_iff (q : Q) (srcs : List SrcAnchor) :
    (∃ e, glyphAnchors q srcs = .error e) ↔ ∃ s ∈ srcs, s.name ≠ "" ∧ ∃ e, parseAnchor s.name.toList = .error e := by
  have key : (∃ e, glyphAnchors q srcs = .error e) ↔ ∃ e, mapE (namedAnchor q) srcs = .error e := by
    unfold glyphAnchors
    cases mapE (namedAnchor q) srcs with
    | error e => simp
    | ok ps => simp
  rw [key, mapE_error_iff]
  constructor
  · rintro ⟨s, hs, he⟩; exact ⟨s, hs, (namedAnchor_error_iff q s).mp he⟩
  · rintro ⟨s, hs, he⟩; exact ⟨s, hs, (namedAnchor_error_iff q s).mpr he⟩

/-- **C06_error**: the writer rejects the font (ValueError / AssertionError out of NamedAnchor) exactly when some glyph that
    passes the GDEF filter carries a non-empty anchor name that parseAnchorName / NamedAnchor reject
    (`_`, `_x_1`, `x_0`, `*`, …: see parse_numbered_mark_error, parse_bare_prefix_error, parse_zero_error). -/
theorem C06_error (i : Input) : (∃ e, model i = .error e) ↔
    ∃ g ∈ i.glyphs, included i g.name = true ∧ ∃ s ∈ g.anchors, s.name ≠ "" ∧ ∃ e, parseAnchor s.name.toList = .error e := by
  have hmodel : (∃ e, model i = .error e) ↔ ∃ e, anchorLists i = .error e := by
    unfold model
    cases anchorLists i with
    | error e => simp
    | ok al => simp
  rw [hmodel]
  unfold anchorLists
  generalize hf : (fun (g : SrcGlyph) => match glyphAnchors i.quant g.anchors with
      | .error e => (.error e : Except Err (String × List NA))
      | .ok as => .ok (g.name, as)) = f
  have hfe : ∀ g, (∃ e, f g = .error e) ↔ ∃ e, glyphAnchors i.quant g.anchors = .error e := by
    intro g; subst hf
    simp only
    cases hg : glyphAnchors i.quant g.anchors with
    | error e => simp
    | ok as => simp
  constructor
  · rintro ⟨e, he⟩
    cases hm : mapE f (i.glyphs.filter (fun g => included i g.name)) with
    | ok l => rw [hm] at he; simp at he
    | error e' =>
      obtain ⟨g, hg, heg⟩ := mapE_error_iff.mp ⟨e', hm⟩
      obtain ⟨hg1, hg2⟩ := mem_filter.mp hg
      exact ⟨g, hg1, hg2, (glyphAnchors_error_iff _ _).mp ((hfe g).mp heg)⟩
  · rintro ⟨g, hg1, hg2, hs⟩
    have hgm : g ∈ i.glyphs.filter (fun g => included i g.name) := mem_filter.mpr ⟨hg1, hg2⟩
    obtain ⟨e, he⟩ := mapE_error_iff.mpr ⟨g, hgm, (hfe g).mpr ((glyphAnchors_error_iff _ _).mpr hs)⟩
    exact ⟨e, by rw [he]⟩

/-! ### which candidate wins -/

/-- **C06_candidate_order_partial**.  Full statement (NOT proved): in the default mode the attachment chosen for a pair with
    several matching keys is the one of the alphabetically greatest matching anchor key (within the feature that carries the
    pair), in groupMarkClasses mode the one of the last colour group in `groupLe` order.  Proved here is only the ingredient
    that makes it so in the default mode: the lookup groups are one singleton per anchor key, listed in ascending key order
    (`attach` lets the last lookup win).  Which candidate wins is otherwise tied to the code by the correspondence run only
    (a reversed order shows up there as a disagreement, not as a failing input: the property as stated allows any candidate). -/
theorem C06_candidate_order_partial (km : List (String × String)) :
    ∃ ks : List String, ks.Pairwise (fun a b => a ≤ b) ∧ ks.Perm (km.map (·.1)) ∧
      singleGroups km = ks.filterMap (fun k => (alookup k km).map (fun c => [c])) ∧
      ∀ grp ∈ singleGroups km, ∃ c, grp = [c] :=
  ⟨sortStr (km.map (·.1)), sortStr_sorted _, sortStr_perm _, rfl, fun _ h => mem_singleGroups h⟩

/-- **C06_classes_injective**: distinct anchor keys get distinct mark classes — also when ast.makeFeaClassName reduces their names
    to the same legal class name ('top-alt' / 'topalt'): the key → class map of the writer is injective, and no two mark
    classes have the same name. -/
theorem C06_classes_injective (i : Input) (P : Program) (hwf : wf0 i = true) (al : AList) (hal : anchorLists i = .ok al)
    (hP : P = build i al) :
    (∀ k1 k2 c, alookup k1 (kmOf i al) = some c → alookup k2 (kmOf i al) = some c → k1 = k2) ∧
    (P.classes.map (·.1)).Nodup := by
  have w := alwf_of_ok hwf hal
  subst hP
  refine ⟨?_, clsOf_names_nodup w⟩
  intro k1 k2 c h1 h2
  have m1 := alookup_some_mem h1
  have m2 := alookup_some_mem h2
  rw [kmOf_eq w] at m1 m2
  obtain ⟨n1, hn1, e1⟩ := mem_map.mp m1
  obtain ⟨n2, hn2, e2⟩ := mem_map.mp m2
  simp only [Prod.mk.injEq] at e1 e2
  have : n1 = n2 := (makeClasses_meOf w).2 n1 hn1 n2 hn2 (by rw [e1.2, e2.2])
  rw [← e1.1, ← e2.1, this]

/-- the group loop of _makeMarkClassDefinitions over an explicit list of mark anchor names: the repaired one and the old one -/
def classesOver (me : AList) (ns : List String) : ClsState := (ns.foldl (groupStep me) (⟨[], []⟩, [])).1
def classesOverOld (me : AList) (ns : List String) : ClsState :=
  ns.foldl (fun st n =>
    (defineGroup (groupOf me n) (groupClassName (groupOf me n) (sanitize ("MC" ++ n)) st.classes) st).1) ⟨[], []⟩

/-- the witness: mark `m1` with `_top-alt` at (10, 20), mark `m2` with `_topalt` at (30, 40) -/
def collisionMarks : AList :=
  [("m1", [⟨"_top-alt", 10, 20, true, "top-alt", none, none⟩]), ("m2", [⟨"_topalt", 30, 40, true, "topalt", none, none⟩])]

/-- **C06_collision_old_counterexample** (repaired defect, kept as a labelled counterexample over the OLD group loop
    `classesOverOld` = `makeClassesFromOld` on the sorted names): 'top-alt' and 'topalt' both sanitise to MC_topalt; the old loop
    put `m1` and `m2` into ONE class and mapped both keys to it — so a base with `top-alt` (100, 500) and `topalt` (120, 520) got
    `m1` attached through the later lookup at (120−10, 520−20) = (110, 500) instead of (90, 480), as observed on the
    unrepaired code; the repaired loop gives the second name (in sorted order '_top-alt' < '_topalt') the class MC_topalt_1. -/
theorem C06_collision_old_counterexample :
    (classesOverOld collisionMarks ["_top-alt", "_topalt"]).classes =
      [("MC_topalt", [⟨"m1", 10, 20⟩, ⟨"m2", 30, 40⟩])] ∧
    (classesOverOld collisionMarks ["_top-alt", "_topalt"]).keyMap = [("top-alt", "MC_topalt"), ("topalt", "MC_topalt")] ∧
    (classesOver collisionMarks ["_top-alt", "_topalt"]).classes =
      [("MC_topalt", [⟨"m1", 10, 20⟩]), ("MC_topalt_1", [⟨"m2", 30, 40⟩])] ∧
    (classesOver collisionMarks ["_top-alt", "_topalt"]).keyMap = [("top-alt", "MC_topalt"), ("topalt", "MC_topalt_1")] := by
  refine ⟨?_, ?_, ?_, ?_⟩ <;> decide +kernel

/-- the loops over the sorted group names are the model's functions -/
theorem classesOver_eq (me : AList) :
    makeClassesFrom [] me = classesOver me (groupNames me) ∧ makeClassesFromOld [] me = classesOverOld me (groupNames me) :=
  ⟨rfl, rfl⟩

/-- **C06_objectLibs_old_counterexample** (repaired defect, kept as a labelled counterexample over the OLD loop body
    `namedAnchorOld`): before the repair of `_getAnchorLists` an anchor with an identifier on a glyph without
    "public.objectLibs" made the writer raise KeyError whatever its name — here a perfectly ordinary `top`; the current loop body
    (`namedAnchor`) treats it as an anchor without lib data, and agrees with the old one on every anchor that has no such
    identifier. -/
theorem C06_objectLibs_old_counterexample :
    namedAnchorOld 1 { name := "top", x := 100, y := 500, idNoLib := true } = .error .keyErrorObjectLibs ∧
    (∃ a, namedAnchor 1 { name := "top", x := 100, y := 500, idNoLib := true } = .ok (some a) ∧ a.key = "top" ∧ a.ctx = none) ∧
    ∀ q s, s.idNoLib = false → namedAnchorOld q s = namedAnchor q s := by
  refine ⟨by rfl, ⟨_, by rfl, by rfl, by rfl⟩, ?_⟩
  intro q s h
  unfold namedAnchorOld
  by_cases hn : s.name = ""
  · simp [hn, namedAnchor]
  · simp [hn, h]

/-! ### graph colouring (groupMarkClasses mode) -/

/-- **firstAvailable_smallest**: the colour picked is not among the used ones, and every smaller one is -/
theorem firstAvailable_smallest (used : List Nat) :
    firstAvail used.length used 0 ∉ used ∧ ∀ x, x < firstAvail used.length used 0 → x ∈ used := by
  obtain ⟨h1, _, h3⟩ := firstAvail_spec used.length used 0 (Nat.le_refl _)
  exact ⟨h1, fun x hx => h3 x (Nat.zero_le _) hx⟩

/-- **colorGraph_proper'**: on a symmetric, irreflexive adjacency, colorGraph gives every node exactly one colour and
    adjacent nodes different colours -/
theorem colorGraph_is_proper (nodes : List String) (R : String → String → Bool) (hsymm : ∀ a b, R a b = R b a)
    (hirr : ∀ a, R a a = false) (hnd : nodes.Nodup) :
    (colorGraph nodes (fun c => nodes.filter (R c))).map (·.1) = sortStr nodes ∧
    ∀ p ∈ colorGraph nodes (fun c => nodes.filter (R c)), ∀ q ∈ colorGraph nodes (fun c => nodes.filter (R c)),
      R p.1 q.1 = true → p.2 ≠ q.2 := by
  obtain ⟨⟨_, h2⟩, h3⟩ := colorGraph_proper nodes R hsymm hirr hnd
  exact ⟨h3, h2⟩

/-- **groups_no_shared_mark**: in groupMarkClasses mode no lookup group holds two mark classes that share a mark glyph
    (the invariant `_groupMarkClasses` exists for), for any mark classes and any set of referenced classes -/
theorem groups_no_shared_mark (cl : Classes) (used : List String) (grp : List String) (h : grp ∈ groupMarkClasses cl used)
    (c1 c2 : String) (h1 : c1 ∈ grp) (h2 : c2 ∈ grp) (hne : c1 ≠ c2) (g : String) (hg1 : g ∈ members cl c1) :
    g ∉ members cl c2 := by
  have hp := groupMarkClasses_proper cl used h h1 h2
  unfold conflict at hp
  rw [bne_iff_ne.mpr hne, Bool.true_and, any_eq_false] at hp
  simpa using hp g hg1

/-- every referenced non-empty class is in exactly the groups' union, and only referenced classes are -/
theorem groups_cover (cl : Classes) (used : List String) (c : String) (hc : c ∈ used) (hm : members cl c ≠ []) :
    ∃ grp ∈ groupMarkClasses cl used, c ∈ grp := groupMarkClasses_cover cl used hc hm

/-! ### parseAnchorName facts (restated from Props/C06Parse for the audit) -/

/-- `_x` ↦ (mark, key x) -/
theorem C06_parse_mark (k : List Char) (hk : plainKey k = true) : parseAnchor ('_' :: k) = .ok ⟨true, k, none, false⟩ :=
  parse_mark hk
/-- `x` ↦ (base, key x) -/
theorem C06_parse_base (k : List Char) (hk : plainKey k = true) : parseAnchor k = .ok ⟨false, k, none, false⟩ :=
  parse_base hk
/-- `x_N` ↦ (base, key x, component N) for N ≥ 1 written with digits `ds` -/
theorem C06_parse_lig (k ds : List Char) (ha : HeadAlpha k) (hne : ds ≠ []) (hd : ∀ c ∈ ds, c.isDigit = true)
    (hn : 1 ≤ digitsToNat ds) : parseAnchor (k ++ '_' :: ds) = .ok ⟨false, k, some (digitsToNat ds), false⟩ :=
  parse_lig ha hne hd hn
/-- `_N` ↦ the key-less anchor declaring component N empty -/
theorem C06_parse_null (ds : List Char) (hne : ds ≠ []) (hd : ∀ c ∈ ds, c.isDigit = true) (hn : 1 ≤ digitsToNat ds) :
    parseAnchor ('_' :: ds) = .ok ⟨false, [], some (digitsToNat ds), false⟩ := parse_null hne hd hn
/-- `_x_N` raises -/
theorem C06_parse_numbered_mark (k ds : List Char) (hne : ds ≠ []) (hd : ∀ c ∈ ds, c.isDigit = true) :
    parseAnchor ('_' :: (k ++ '_' :: ds)) = .error .valueError := parse_numbered_mark_error hne hd
/-- every accepted, non-contextual, non-ignorable name has one of the three shapes -/
theorem C06_parse_shape (cs : List Char) (p : Parsed) (h : parseAnchor cs = .ok p) (hctx : p.ctx = false)
    (hign : keyIgnorable p.key = false) :
    (p.isMark = true → cs = '_' :: p.key ∧ plainKey p.key = true ∧ p.number = none) ∧
    (p.isMark = false → p.number = none → cs = p.key ∧ HeadAlpha p.key) ∧
    (p.isMark = false → ∀ n, p.number = some n → 1 ≤ n ∧ isLigName p.key n cs = true ∧ (p.key = [] ∨ HeadAlpha p.key)) :=
  parseAnchor_shape h hctx hign


/-! ### contextual anchors ('*'-prefixed anchors with GPOS_Context object-lib data): `modelX` -/

theorem modelX_ok {i : Input} {X : ProgramX} (h : modelX i = .ok X) :
    ∃ al cm ck, anchorLists i = .ok al ∧ ctxFeatures i al = .ok (cm, ck) ∧
      X = ⟨⟨(build i al).classes, orderLookups (build i al).lookups (!cm.refs.isEmpty) (!ck.refs.isEmpty)⟩, cm, ck⟩ := by
  unfold modelX at h
  cases ha : anchorLists i with
  | error e => rw [ha] at h; simp at h
  | ok al =>
    rw [ha] at h; simp only at h
    cases hc : ctxFeatures i al with
    | error e => rw [hc] at h; simp at h
    | ok p =>
      obtain ⟨cm, ck⟩ := p
      rw [hc] at h; simp only [Except.ok.injEq] at h
      exact ⟨al, cm, ck, rfl, hc, h.symm⟩

theorem mem_orderLookups {ls : List Lookup} {a b : Bool} {L : Lookup} (h : L ∈ orderLookups ls a b) : L ∈ ls := by
  unfold orderLookups at h
  simp only [mem_append] at h
  rcases h with ((((h | h) | h) | h) | h) | h
  all_goals (first | (split at h <;> first | exact (mem_filter.mp h).1 | simp at h) | exact (mem_filter.mp h).1)

theorem attachLookup_congr {P P' : Program} (h : P.classes = P'.classes) (L : Lookup) (b m : String) (c : Option Nat) :
    attachLookup P L b m c = attachLookup P' L b m c := by
  simp only [attachLookup, markIn, h]

theorem attach_congr {P P' : Program} (h : P.classes = P'.classes) (ls : List Lookup) (b m : String) (c : Option Nat) :
    attach P ls b m c = attach P' ls b m c := by
  unfold attach
  congr 1
  funext L
  exact attachLookup_congr h L b m c

/-- **C06_offset_general** (frame, soundness half): also in the presence of contextual anchors and object-lib data, whatever
    the NON-contextual lookups (mark2base / mark2liga / mark2mark of mark, mkmk, abvm, blwm — any sub-list) attach is
    qround(anchor k or k_N on b) − qround(anchor _k on m) for PLAIN source anchor names: a contextual anchor `*k` never
    supplies or changes the default attachment of its glyph (that is the plain anchor `k`, and none if there is no `k`). -/
theorem C06_offset_general (i : Input) (X : ProgramX) (hwf : wf0 i = true) (hm : modelX i = .ok X) (ls : List Lookup)
    (hls : ∀ L ∈ ls, L ∈ X.plain.lookups) (b m : String) (c : Option Nat) (d : Int × Int)
    (h : attach X.plain ls b m c = some d) : d ∈ candidates i b m c := by
  obtain ⟨al, cm, ck, hal, _, rfl⟩ := modelX_ok hm
  have h2 : attach (build i al) ls b m c = some d := (attach_congr (by rfl) ls b m c).trans h
  exact offset_sound (alwf_of_ok hwf hal) (fun L hL => mem_orderLookups (hls L hL)) h2

theorem build_lookup_feature {i : Input} {al : AList} {L : Lookup} (h : L ∈ (build i al).lookups) :
    L.feature = "abvm" ∨ L.feature = "blwm" ∨ L.feature = "mark" ∨ L.feature = "mkmk" := by
  rw [build_eq] at h
  simp only [mem_append] at h
  rcases h with ((h | h) | h) | h
  · exact Or.inl (abvmLOf_feature h)
  · exact Or.inr (Or.inl (blwmLOf_feature h))
  · exact Or.inr (Or.inr (Or.inl (markLOf_feature h)))
  · exact Or.inr (Or.inr (Or.inr (mkmkLOf_feature h)))

theorem mem_orderLookups_of {ls : List Lookup} {a b : Bool} {L : Lookup} (h : L ∈ ls)
    (hf : L.feature = "abvm" ∨ L.feature = "blwm" ∨ L.feature = "mark" ∨ L.feature = "mkmk") : L ∈ orderLookups ls a b := by
  unfold orderLookups
  simp only [mem_append]
  rcases hf with hf | hf | hf | hf
  · exact Or.inl (Or.inl (Or.inl (Or.inr (mem_filter.mpr ⟨h, by simp [hf]⟩))))
  · exact Or.inl (Or.inl (Or.inr (mem_filter.mpr ⟨h, by simp [hf]⟩)))
  · cases a with
    | true => exact Or.inl (Or.inl (Or.inl (Or.inl (Or.inl (mem_filter.mpr ⟨h, by simp [hf]⟩)))))
    | false => exact Or.inl (Or.inr (mem_filter.mpr ⟨h, by simp [hf]⟩))
  · cases b with
    | true => exact Or.inl (Or.inl (Or.inl (Or.inl (Or.inr (mem_filter.mpr ⟨h, by simp [hf]⟩)))))
    | false => exact Or.inr (mem_filter.mpr ⟨h, by simp [hf]⟩)

/-- **C06_complete_general** (frame, completeness half): also in the presence of object-lib data and contextual anchors every
    eligible (glyph, mark, component) — a plain `k` / `k_N` on the glyph, `_k` on the mark, both passing the GDEF / category
    filters — is attached by the non-contextual lookups; contextual anchors take part in deciding what a mark glyph is
    (`isMarkGlyph` counts `*k` with lib data as a base-side anchor) but never take an attachment away. -/
theorem C06_complete_general (i : Input) (X : ProgramX) (hwf : wf0 i = true) (hm : modelX i = .ok X) (b m : String)
    (c : Option Nat) (he : eligible i b m c = true) : (attach X.plain X.plain.lookups b m c).isSome = true := by
  obtain ⟨al, cm, ck, hal, _, rfl⟩ := modelX_ok hm
  obtain ⟨_, hcover⟩ := wf_iff i hwf
  obtain ⟨L, hL, hs⟩ := complete_build (alwf_of_ok hwf hal) (alcov_of_ok hal) hcover he
  refine attach_isSome_of_mem (L := L) (mem_orderLookups_of hL (build_lookup_feature hL)) ?_
  rw [← hs]; exact congrArg Option.isSome (attachLookup_congr (P' := build i al) (by rfl) L b m c)

/-- the Bool predicates on the table of all non-contextual lookups hold of the extended model's own table, object-lib data or not -/
theorem C06_holds_general (i : Input) (X : ProgramX) (hwf : wf0 i = true) (hm : modelX i = .ok X) (K : Nat) :
    holdsOffset i (tableOf X.plain X.plain.lookups (allQueries i K)) = true ∧
    holdsSound i (tableOf X.plain X.plain.lookups (allQueries i K)) = true ∧
    holdsComplete i K (tableOf X.plain X.plain.lookups (allQueries i K)) = true := by
  refine ⟨?_, ?_, ?_⟩
  · simp only [holdsOffset, all_eq_true, contains_iff_mem]
    intro e he
    exact C06_offset_general i X hwf hm _ (fun _ h => h) _ _ _ _ (mem_tableOf he)
  · simp only [holdsSound, all_eq_true, Bool.not_eq_true', isEmpty_eq_false_iff]
    intro e he
    exact ne_nil_of_mem (C06_offset_general i X hwf hm _ (fun _ h => h) _ _ _ _ (mem_tableOf he))
  · simp only [holdsComplete, all_eq_true, Bool.or_eq_true, Bool.not_eq_true', any_eq_true]
    intro q hq
    cases he : eligible i q.1 q.2.1 q.2.2 with
    | false => exact Or.inl rfl
    | true =>
      right
      have := C06_complete_general i X hwf hm _ _ _ he
      cases ha : attach X.plain X.plain.lookups q.1 q.2.1 q.2.2 with
      | none => rw [ha] at this; simp at this
      | some d => exact ⟨(q, d), mem_filterMap.mpr ⟨q, hq, by rw [ha]; rfl⟩, by simp⟩

/-- no contextual anchor is ever written into a non-contextual lookup -/
theorem C06_plain_lookups_have_no_contextual_anchor (i : Input) (X : ProgramX) (hm : modelX i = .ok X) :
    ∃ al, anchorLists i = .ok al ∧ ∀ L ∈ X.plain.lookups, ∀ e ∈ L.entries, ∀ (j : Nat) (comp : List (String × Int × Int)),
      e.comps[j]? = some comp → ∀ t ∈ comp, ∃ a, AnchorIn al e.glyph a ∧ a.ctx = none ∧ t.2 = (otRound a.x, otRound a.y) := by
  obtain ⟨al, cm, ck, hal, _, rfl⟩ := modelX_ok hm
  refine ⟨al, hal, ?_⟩
  intro L hL e he j comp hj t ht
  obtain ⟨bA, htb, hin, _, _, hpl⟩ := build_lookups_ok i al L (mem_orderLookups hL) e he j comp hj t ht
  exact ⟨bA.a, hin, hpl, by rw [htb]⟩

/-- **C06_ctx_offset**: whatever a lookup referenced from a contextual (chaining) rule of the mark or mkmk feature attaches is
    qround(contextual anchor on b) − qround(anchor _k on m): the anchor on `b` is '*'-prefixed, carries object-lib data, and
    its name without '*' and '.suffix' is `k` (or `k_N`, N = component + 1). -/
theorem C06_ctx_offset (i : Input) (X : ProgramX) (hwf : wf0 i = true) (hm : modelX i = .ok X) (L : Lookup)
    (hL : L ∈ X.markCtx.refs ++ X.mkmkCtx.refs) (b m : String) (c : Option Nat) (d : Int × Int)
    (h : attachLookup X.plain L b m c = some d) : d ∈ ctxCandidates i b m c := by
  obtain ⟨al, cm, ck, hal, hctx, rfl⟩ := modelX_ok hm
  have h2 : attachLookup (build i al) L b m c = some d := (attachLookup_congr (by rfl) L b m c).trans h
  exact ctx_sound (alwf_of_ok hwf hal) hctx hL h2

/-- the Bool predicate the driver evaluates on the observed referenced lookups holds of the model's -/
theorem C06_ctx_holds (i : Input) (X : ProgramX) (hwf : wf0 i = true) (hm : modelX i = .ok X) (L : Lookup)
    (hL : L ∈ X.markCtx.refs ++ X.mkmkCtx.refs) (qs : List Query) :
    holdsCtxOffset i (tableOf X.plain [L] qs) = true := by
  simp only [holdsCtxOffset, all_eq_true, contains_iff_mem]
  intro e he
  have h1 := mem_tableOf he
  obtain ⟨L', hL', hat⟩ := attach_some h1
  simp only [mem_singleton] at hL'; subst hL'
  exact C06_ctx_offset i X hwf hm L' hL _ _ _ _ hat

theorem attach_singleton (P : Program) (L : Lookup) (b m : String) (c : Option Nat) :
    attach P [L] b m c = attachLookup P L b m c := by
  unfold attach
  cases h : attachLookup P L b m c <;> simp [h]

/-- the contextual part of the extended model that carries the contextual attachments of glyph `gb` -/
def ctxPartX (i : Input) (X : ProgramX) (gb : SrcGlyph) : CtxFeature :=
  if isMarkGlyph i gb then X.mkmkCtx else X.markCtx

/-- **C06_ctx_complete** (the converse of C06_ctx_offset): for a glyph with a contextual anchor `*k…` / `*k_N…` carrying a
    non-empty GPOS_Context and a mark glyph with `_k` (so that the mark class exists), both passing the writer's filters for
    the destination, the contextual part of the right feature — mkmk when the glyph is itself a mark glyph, else mark
    (ligature lookup for a numbered anchor, base lookup otherwise) — has a referenced lookup that attaches the mark to the
    glyph (component N−1), and a dispatch line for the anchor's context under the text before its ';' — provided no other
    contextual anchor of the glyph has the same context and key (`ctxEligible`; without that proviso the clause is false:
    C06_ctx_ligature_last_wins_counterexample). -/
theorem C06_ctx_complete (i : Input) (X : ProgramX) (hwf : wf0 i = true) (hm : modelX i = .ok X) (gb gm : SrcGlyph)
    (hgb : gb ∈ i.glyphs) (hgm : gm ∈ i.glyphs) (sb : SrcAnchor) (hsb : sb ∈ gb.anchors) (c : Option Nat)
    (he : ctxEligible i gb gm c sb = true) :
    (∃ L ∈ (ctxPartX i X gb).refs, (attachLookup X.plain L gb.name gm.name c).isSome = true) ∧
    ∀ before after, splitCtx (ctxOfSrc sb) = .ok (before, after) →
      ∃ text, HasLine (ctxPartX i X gb).disp before ("# " ++ after, text) := by
  obtain ⟨al, cm, ck, hal, hctx, rfl⟩ := modelX_ok hm
  obtain ⟨hnd, _⟩ := wf_iff i hwf
  obtain ⟨F, hF, ⟨L, hL, hs⟩, hdisp⟩ := ctx_complete (alwf_of_ok hwf hal) (alcov_of_ok hal) hnd hctx hgb hgm hsb he
  have hFeq : ctxPartX i ⟨⟨(build i al).classes, orderLookups (build i al).lookups (!cm.refs.isEmpty) (!ck.refs.isEmpty)⟩, cm, ck⟩ gb = F := by
    unfold ctxPartX
    unfold ctxFeatureOf at hF
    rcases hF with ⟨rfl, hf⟩ | ⟨rfl, hf⟩
    · split at hf
      · simp at hf
      · rename_i hmg; simp [hmg]
    · split at hf
      · rename_i hmg; simp [hmg]
      · simp at hf
  rw [hFeq]
  refine ⟨⟨L, hL, ?_⟩, hdisp⟩
  rw [← hs]; exact congrArg Option.isSome (attachLookup_congr (P' := build i al) (by rfl) L _ _ c)

theorem mem_allQueries {i : Input} {K : Nat} {gb gm : SrcGlyph} (hgb : gb ∈ i.glyphs) (hgm : gm ∈ i.glyphs) {c : Option Nat}
    (hc : c ∈ none :: (List.range K).map some) : (gb.name, gm.name, c) ∈ allQueries i K := by
  unfold allQueries
  exact mem_flatMap.mpr ⟨gb, hgb, mem_flatMap.mpr ⟨gm, hgm, mem_map.mpr ⟨c, hc, rfl⟩⟩⟩

/-- the Bool predicate the driver evaluates on the observed contextual part holds of the model's: per feature, with the
    attachment table of every referenced lookup over all queries -/
theorem C06_ctx_complete_holds (i : Input) (X : ProgramX) (hwf : wf0 i = true) (hm : modelX i = .ok X) (K : Nat) :
    holdsCtxComplete i K "mark" (X.markCtx.refs.map (fun L => tableOf X.plain [L] (allQueries i K))) X.markCtx.disp = true ∧
    holdsCtxComplete i K "mkmk" (X.mkmkCtx.refs.map (fun L => tableOf X.plain [L] (allQueries i K))) X.mkmkCtx.disp = true := by
  have key : ∀ (f : String) (F : CtxFeature), (∀ gb, ctxFeatureOf i gb = f → ctxPartX i X gb = F) →
      holdsCtxComplete i K f (F.refs.map (fun L => tableOf X.plain [L] (allQueries i K))) F.disp = true := by
    intro f F hF
    simp only [holdsCtxComplete, all_eq_true, Bool.or_eq_true, Bool.not_eq_true', Bool.and_eq_true, any_eq_true, beq_iff_eq]
    intro gb hgb sb hsb gm hgm c hc
    cases he : (ctxEligible i gb gm c sb && ctxFeatureOf i gb == f) with
    | false => exact Or.inl rfl
    | true =>
      right
      simp only [Bool.and_eq_true, beq_iff_eq] at he
      obtain ⟨⟨L, hL, hs⟩, hdisp⟩ := C06_ctx_complete i X hwf hm gb gm hgb hgm sb hsb c he.1
      rw [hF gb he.2] at hL hdisp
      constructor
      · refine ⟨_, mem_map.mpr ⟨L, hL, rfl⟩, ?_⟩
        cases ha : attachLookup X.plain L gb.name gm.name c with
        | none => rw [ha] at hs; simp at hs
        | some d =>
          exact ⟨((gb.name, gm.name, c), d), mem_filterMap.mpr ⟨_, mem_allQueries hgb hgm hc,
            by rw [attach_singleton, ha]; rfl⟩, rfl⟩
      · cases hsp : splitCtx (ctxOfSrc sb) with
        | error e => trivial
        | ok ba =>
          obtain ⟨text, hline⟩ := hdisp ba.1 ba.2 (by rw [hsp])
          obtain ⟨d, hd, hd1, hl⟩ := hline
          simp only [any_eq_true, Bool.and_eq_true, beq_iff_eq]
          exact ⟨d, hd, hd1, _, hl, rfl⟩
  constructor
  · apply key
    intro gb hf
    unfold ctxPartX; unfold ctxFeatureOf at hf
    split at hf
    · simp at hf
    · rename_i hmg; simp [hmg]
  · apply key
    intro gb hf
    unfold ctxPartX; unfold ctxFeatureOf at hf
    split at hf
    · rename_i hmg; simp [hmg]
    · simp at hf

/-- **C06_ctx_ligature_last_wins_counterexample**: without the proviso of C06_ctx_complete the clause is false.  Two contextual
    anchors of one ligature with the same context and key on DIFFERENT components (`*top_1` and `*top_2`, both "* x") make two
    `pos ligature f_i …` statements in one referenced lookup — each with its own component filled and the other NULL —, and
    feaLib keeps only the last statement of a glyph: the loop body `ctxStep` produces a lookup whose only entry is the second
    statement, so component 1 (index 0) gets no contextual attachment although its anchor is there. -/
theorem C06_ctx_ligature_last_wins_counterexample :
    let e1 : Entry := ⟨"f_i", [[("MC_top", 100, 200)], []]⟩
    let e2 : Entry := ⟨"f_i", [[], [("MC_top", 150, 550)]]⟩
    let P : Program := ⟨[("MC_top", [⟨"m", 10, 20⟩])], []⟩
    ∃ st, ctxStep [("top", "MC_top")] "mark" "ContextualMark" .liga "* x" "top" ["f_i", "f_i"] [e1, e2] ⟨[], []⟩ = .ok st ∧
      st.refs.map (·.entries) = [[e2]] ∧
      attachLookup P ⟨"mark", .liga, [e2]⟩ "f_i" "m" (some 0) = none ∧
      attachLookup P ⟨"mark", .liga, [e2]⟩ "f_i" "m" (some 1) = some (140, 530) ∧
      attachLookup P ⟨"mark", .liga, [e1]⟩ "f_i" "m" (some 0) = some (90, 180) := by
  refine ⟨_, rfl, by decide, by decide, by decide, by decide⟩

/-- **C06_frame**: on a font without object-lib data (`wf`) the writer with the contextual code is the writer without it:
    same mark classes, same lookups in the same order, no contextual lookups — so every theorem about `model` is a theorem
    about `modelX` there. -/
theorem C06_frame (i : Input) (P : Program) (hwf : wf i = true) (hm : model i = .ok P) :
    modelX i = .ok ⟨P, ⟨[], []⟩, ⟨[], []⟩⟩ := by
  obtain ⟨al, hal, rfl⟩ := model_ok hm
  have w := alwf_of_ok (wf_wf0 hwf) hal
  have hno : ∀ e ∈ al, ∀ a ∈ e.2, a.ctx = none := fun e he a ha => noctx w (wf_nolib hwf) he ha
  unfold modelX
  rw [hal]
  simp only [ctxFeatures_nil hno, isEmpty_nil, Bool.not_true, orderLookups_build]

/-! ### rejected contextual data -/

/-- a context string with two or more ';' cannot be split into (lookupflag part, context): ValueError, as in the code
    (`before, after = fullcontext.split(";")`); with at most one ';' the split succeeds -/
theorem C06_ctx_split (s : String) :
    (2 ≤ (s.toList.filter (· == ';')).length → splitCtx s = .error .valueError) ∧
    ((s.toList.filter (· == ';')).length ≤ 1 → ∃ p, splitCtx s = .ok p) := by
  unfold splitCtx
  constructor
  · intro h
    match hl : s.toList.filter (· == ';') with
    | [] => rw [hl] at h; simp at h
    | [_] => rw [hl] at h; simp at h
    | _ :: _ :: _ => rfl
  · intro h
    match hl : s.toList.filter (· == ';') with
    | [] => exact ⟨_, rfl⟩
    | [_] => exact ⟨_, rfl⟩
    | _ :: _ :: _ => rw [hl] at h; simp at h

/-- **C06_ctx_error**: what makes the contextual part raise, per (context, anchor key): ValueError, exactly for a key that has a
    mark class together with a context with two or more ';' — nothing else (a key without mark class is skipped before the
    context is even looked at: C06_ctx_skip) -/
theorem C06_ctx_error (km : List (String × String)) (feat pre : String) (kind : Kind) (c k : String) (names : List String)
    (entries : List Entry) (st : CtxFeature) :
    (ctxStep km feat pre kind c k names entries st = .error .valueError ↔
      (ctxClass km k).isSome = true ∧ 2 ≤ (c.toList.filter (· == ';')).length) ∧
    (∀ e, ctxStep km feat pre kind c k names entries st = .error e → e = .valueError) := by
  obtain ⟨s1, s2⟩ := C06_ctx_split c
  cases hc : ctxClass km k with
  | none =>
    have : ctxStep km feat pre kind c k names entries st = .ok st := by simp [ctxStep, hc]
    exact ⟨⟨fun h => by rw [this] at h; simp at h, fun h => by simp at h⟩, fun e he => by rw [this] at he; simp at he⟩
  | some cls =>
    by_cases h2 : 2 ≤ (c.toList.filter (· == ';')).length
    · have : ctxStep km feat pre kind c k names entries st = .error .valueError := by simp [ctxStep, hc, s1 h2]
      exact ⟨⟨fun _ => ⟨rfl, h2⟩, fun _ => this⟩, fun e he => by rw [this] at he; simp at he; exact he.symm⟩
    · obtain ⟨p, hp⟩ := s2 (by omega)
      have : ∃ r, ctxStep km feat pre kind c k names entries st = .ok r := by simp [ctxStep, hc, hp]
      obtain ⟨r, hr⟩ := this
      exact ⟨⟨fun h => by rw [hr] at h; simp at h, fun h => absurd h.2 h2⟩, fun e he => by rw [hr] at he; simp at he⟩

/-- **C06_ctx_skip**: an anchor key to which no mark glyph attaches (no entry in `markClasses`) contributes nothing: the loop body
    returns the state as it found it — no referenced lookup, no dispatch block or line, the counters that name the following
    lookups (`len(refLkps)`, `len(ctxLkps)`) untouched — whatever the context string is (it is not even split); and running the
    whole loop is the same as running it without those keys, so no other lookup changes its name or its content. -/
theorem C06_ctx_skip (al : AList) (km : List (String × String)) (feat pre : String) (d : Dest)
    (atts : List (String × String × NA)) :
    (∀ kind c k names entries st, ctxClass km k = none → ctxStep km feat pre kind c k names entries st = .ok st) ∧
    (∀ (work : List (String × String)) (acc : Except Err CtxFeature),
      work.foldl (ctxWorkStep al km feat pre d atts) acc =
        (work.filter (fun ck => (ctxClass km ck.2).isSome)).foldl (ctxWorkStep al km feat pre d atts) acc) := by
  have h1 : ∀ kind c k names entries st, ctxClass km k = none → ctxStep km feat pre kind c k names entries st = .ok st := by
    intro kind c k names entries st hk; simp [ctxStep, hk]
  refine ⟨h1, ?_⟩
  intro work
  induction work with
  | nil => intro acc; rfl
  | cons ck work ih =>
    intro acc
    simp only [foldl_cons, filter_cons]
    cases hc : ctxClass km ck.2 with
    | some cls => simp only [Option.isSome_some, if_true, foldl_cons]; exact ih _
    | none =>
      simp only [Option.isSome_none, Bool.false_eq_true, if_false]
      have : ctxWorkStep al km feat pre d atts acc ck = acc := by
        cases acc with
        | error e => rfl
        | ok s => simp [ctxWorkStep, h1 _ _ _ _ _ _ hc]
      rw [this]; exact ih acc

/-- **C06_ctx_keyError_old_counterexample** (repaired defect, kept as a labelled counterexample over the OLD loop body
    `ctxStepOld`): before the repair a contextual anchor key without mark class made the writer raise KeyError
    (`self.context.markClasses[anchorKey]`); the current body skips it, and agrees with the old one on every key that has a class. -/
theorem C06_ctx_keyError_old_counterexample :
    ctxStepOld [] "mark" "ContextualMark" .base "* b" "top" ["a"] [] ⟨[], []⟩ = .error .keyErrorMarkClass ∧
    ctxStep [] "mark" "ContextualMark" .base "* b" "top" ["a"] [] ⟨[], []⟩ = .ok ⟨[], []⟩ ∧
    ∀ km feat pre kind c k names entries st, (ctxClass km k).isSome = true →
      ctxStepOld km feat pre kind c k names entries st = ctxStep km feat pre kind c k names entries st := by
  refine ⟨by rfl, by rfl, ?_⟩
  intro km feat pre kind c k names entries st hk
  cases hc : ctxClass km k with
  | none => rw [hc] at hk; simp at hk
  | some cls =>
    unfold ctxStepOld
    cases hs : splitCtx c with
    | error e => simp [ctxStep, hc, hs]
    | ok p => simp [hc]

/-- the writer as a whole raises iff the anchor lists raise (malformed anchor name: C06_error) or the contextual part does -/
theorem C06_modelX_error (i : Input) : (∃ e, modelX i = .error e) ↔
    (∃ e, model i = .error e) ∨ ∃ al, anchorLists i = .ok al ∧ ∃ e, ctxFeatures i al = .error e := by
  unfold modelX model
  cases ha : anchorLists i with
  | error e => simp
  | ok al =>
    cases hc : ctxFeatures i al with
    | error e => simp [hc]
    | ok p => simp [hc]

/-! ### non-vacuity: a concrete font meets the hypotheses, and the theorems pin its attachments down -/

/-- an anchor without object-lib data -/
def sa (n : String) (x y : Q) : SrcAnchor := { name := n, x := x, y := y }

/-- base `a` (top, bottom), ligature `f_i` (top_1, top_2 with a fractional y), marks `acutecomb` (_top, and `top` for
    mark-to-mark) and `gravecomb` (_top at x = 5.5) -/
def exampleFont : Input :=
  { glyphs := [⟨"a", [sa "top" (100) (500), sa "bottom" (100) (0)]⟩,
               ⟨"f_i", [sa "top_1" (100) (500), sa "top_2" (300) ((1021 : Q) / 2)]⟩,
               ⟨"acutecomb", [sa "_top" (10) (20), sa "top" (10) (200)]⟩,
               ⟨"gravecomb", [sa "_top" ((11 : Q) / 2) (20)]⟩],
    gdef := none, quant := 1, group := true, abvm := ["a"], notAbvm := ["f_i", "acutecomb", "gravecomb"] }

example : wf exampleFont = true := by decide

/-- the hypothesis `model i = .ok P` of the main theorems is met (via C06_error: no name is rejected) -/
theorem exampleFont_ok : ∃ P, model exampleFont = .ok P := by
  cases h : model exampleFont with
  | ok P => exact ⟨P, rfl⟩
  | error e =>
    exfalso
    obtain ⟨g, hg, _, s, hs, _, e', he⟩ := (C06_error exampleFont).mp ⟨e, h⟩
    have hall : exampleFont.glyphs.all (fun g => g.anchors.all (fun s => (parseAnchor s.name.toList).toBool)) = true := by
      decide
    have := all_eq_true.mp (all_eq_true.mp hall g hg) s hs
    rw [he] at this; simp [Except.toBool] at this

/-- C06_complete + C06_candidate + C06_sound determine the attachments of the example: base (through abvm), ligature
    component 2 (511 − 20 = 491 after rounding 510.5 up and 5.5 up to 6), mark-to-mark, and nothing for a pair without
    matching names or for a ligature component index that has no anchor -/
example : ∃ P, model exampleFont = .ok P ∧
    attach P P.lookups "a" "acutecomb" none = some (90, 480) ∧
    attach P P.lookups "f_i" "gravecomb" (some 1) = some (294, 491) ∧
    attach P P.lookups "acutecomb" "gravecomb" none = some (4, 180) ∧
    attach P P.lookups "a" "a" none = none ∧
    attach P P.lookups "f_i" "gravecomb" (some 2) = none := by
  obtain ⟨P, hP⟩ := exampleFont_ok
  have hwf : wf exampleFont = true := by decide
  have pin : ∀ b m c d, eligible exampleFont b m c = true → candidates exampleFont b m c = [d] →
      attach P P.lookups b m c = some d := by
    intro b m c d he hc
    have h1 := C06_complete exampleFont P hwf hP b m c he
    cases h : attach P P.lookups b m c with
    | none => rw [h] at h1; simp at h1
    | some d' =>
      have h2 := C06_candidate exampleFont P hwf hP _ _ _ d' h
      rw [hc] at h2; simp at h2; rw [h2]
  refine ⟨P, hP, pin _ _ _ _ (by decide) (by decide +kernel), pin _ _ _ _ (by decide) (by decide +kernel),
    pin _ _ _ _ (by decide) (by decide +kernel), ?_, ?_⟩
  · exact C06_sound exampleFont P hwf hP P.lookups (fun _ h => h) "a" "a" none (by decide)
  · exact C06_sound exampleFont P hwf hP P.lookups (fun _ h => h) "f_i" "gravecomb" (some 2) (by decide)

/-- colouring: three classes, `A`–`B` and `B`–`C` share a glyph: two lookup groups suffice and neither holds a conflict -/
example : conflict [("A", [⟨"m1", 0, 0⟩]), ("B", [⟨"m1", 0, 0⟩, ⟨"m2", 0, 0⟩]), ("C", [⟨"m2", 0, 0⟩])] "A" "B" = true ∧
    conflict [("A", [⟨"m1", 0, 0⟩]), ("B", [⟨"m1", 0, 0⟩, ⟨"m2", 0, 0⟩]), ("C", [⟨"m2", 0, 0⟩])] "A" "C" = false := by
  decide

example : parseAnchor "_top".toList = .ok ⟨true, "top".toList, none, false⟩ ∧
    parseAnchor "top_3".toList = .ok ⟨false, "top".toList, some 3, false⟩ ∧
    parseAnchor "_3".toList = .ok ⟨false, [], some 3, false⟩ ∧
    parseAnchor "top.alt".toList = .ok ⟨false, "top.alt".toList, none, false⟩ ∧
    parseAnchor "_x_1".toList = .error .valueError ∧ parseAnchor "_".toList = .error .valueError ∧
    parseAnchor "top_0".toList = .error .valueError ∧ parseAnchor "*".toList = .error .assertionError :=
  ⟨by rfl, by rfl, by rfl, by rfl, by rfl, by rfl, by rfl, by rfl⟩


/-- a base with a plain `top` and a contextual `*top.alt` (context "* b"), and a mark: the plain candidate is the plain anchor,
    the contextual candidate is the contextual anchor; the hypothesis `wf0` of the contextual theorems is met, `wf` is not -/
def exampleCtx : Input :=
  { glyphs := [⟨"a", [sa "top" 100 500, { name := "*top.alt", x := 150, y := (1101 : Q) / 2, lib := some "* b" }]⟩,
               ⟨"b", []⟩, ⟨"acutecomb", [sa "_top" 10 20]⟩],
    gdef := none, quant := 1, group := false, abvm := [], notAbvm := ["a", "b", "acutecomb"] }

example : wf0 exampleCtx = true ∧ wf exampleCtx = false := by decide
example : candidates exampleCtx "a" "acutecomb" none = [(90, 480)] ∧
    ctxCandidates exampleCtx "a" "acutecomb" none = [(140, 531)] := by decide +kernel
example : splitCtx "lookupflag IgnoreMarks; * b" = .ok ("lookupflag IgnoreMarks", "* b") ∧
    splitCtx "a; b; * c" = .error .valueError ∧
    posText "* b" "a e" "MC_top" "ContextualMark_0" = "pos [a e] @MC_top' lookup ContextualMark_0 b;" :=
  ⟨by rfl, by rfl, by decide +kernel⟩

end Ufo2ft.C06
