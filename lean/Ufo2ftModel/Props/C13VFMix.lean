import Ufo2ftModel.Model.C13VF
import Ufo2ftModel.Model.C09Shape
/-!
C13 (variable fonts), part 1: the algebra of interpolating *alike* glyphs.

Two glyphs are alike when they have the same `sh` (name, point types, component bases **and 2×2 parts**, anchor names) —
what interpolation leaves alone.  On alike glyphs fontMath's `a·(1-s) + b·s` (`C09.lerpGlyph`) is the total `mixGlyph`,
and `mixGlyph` obeys the laws of an affine combination.
-/
namespace Ufo2ft.C13
open Ufo2ft Ufo2ft.C09 List

/-! ### generic list lemmas -/

theorem zipWith_comm_of_map {α κ} (f : α → κ) (F G : α → α → α) (hp : ∀ x y, f x = f y → F x y = G y x) :
    ∀ a b : List α, a.map f = b.map f → zipWith F a b = zipWith G b a
  | [], [], _ => rfl
  | [], _ :: _, h => by simp at h
  | _ :: _, [], h => by simp at h
  | x :: a, y :: b, h => by
    simp only [map_cons, cons.injEq] at h
    simp only [zipWith_cons_cons, hp x y h.1, zipWith_comm_of_map f F G hp a b h.2]

theorem zipWith_zipWith3 {α} (F F0 F1 F2 : α → α → α) (hp : ∀ x y, F (F0 x y) (F1 x y) = F2 x y) :
    ∀ a b : List α, zipWith F (zipWith F0 a b) (zipWith F1 a b) = zipWith F2 a b
  | [], _ => by simp
  | _ :: _, [] => by simp
  | x :: a, y :: b => by simp only [zipWith_cons_cons, hp, zipWith_zipWith3 F F0 F1 F2 hp a b]

theorem zipWith_left_of_map {α κ} (f : α → κ) (F : α → α → α) (hp : ∀ x y, f x = f y → F x y = x) :
    ∀ a b : List α, a.map f = b.map f → zipWith F a b = a
  | [], [], _ => rfl
  | [], _ :: _, h => by simp at h
  | _ :: _, [], h => by simp at h
  | x :: a, y :: b, h => by
    simp only [map_cons, cons.injEq] at h
    simp only [zipWith_cons_cons, hp x y h.1, zipWith_left_of_map f F hp a b h.2]

theorem zipWith_right_of_map {α κ} (f : α → κ) (F : α → α → α) (hp : ∀ x y, f x = f y → F x y = y) :
    ∀ a b : List α, a.map f = b.map f → zipWith F a b = b
  | [], [], _ => rfl
  | [], _ :: _, h => by simp at h
  | _ :: _, [], h => by simp at h
  | x :: a, y :: b, h => by
    simp only [map_cons, cons.injEq] at h
    simp only [zipWith_cons_cons, hp x y h.1, zipWith_right_of_map f F hp a b h.2]

theorem map_zipWith_of_map {α κ} (f : α → κ) (F : α → α → α) (hp : ∀ x y, f x = f y → f (F x y) = f x) :
    ∀ a b : List α, a.map f = b.map f → (zipWith F a b).map f = a.map f
  | [], [], _ => rfl
  | [], _ :: _, h => by simp at h
  | _ :: _, [], h => by simp at h
  | x :: a, y :: b, h => by
    simp only [map_cons, cons.injEq] at h
    simp only [zipWith_cons_cons, map_cons, hp x y h.1, map_zipWith_of_map f F hp a b h.2]

theorem zipWith_congr_of_map {α κ γ} (f : α → κ) (F G : α → α → γ) (hp : ∀ x y, f x = f y → F x y = G x y) :
    ∀ a b : List α, a.map f = b.map f → zipWith F a b = zipWith G a b
  | [], [], _ => rfl
  | [], _ :: _, h => by simp at h
  | _ :: _, [], h => by simp at h
  | x :: a, y :: b, h => by
    simp only [map_cons, cons.injEq] at h
    simp only [zipWith_cons_cons, hp x y h.1, zipWith_congr_of_map f F G hp a b h.2]

theorem length_eq_of_map_eq {α β κ} {f : α → κ} {g : β → κ} {a : List α} {b : List β} (h : a.map f = b.map g) :
    a.length = b.length := by
  have := congrArg List.length h
  simpa using this

theorem zipWithM?_eq_of_map {α κ γ} (f : α → κ) (F : α → α → Option γ) (F' : α → α → γ)
    (hp : ∀ x y, f x = f y → F x y = some (F' x y)) :
    ∀ a b : List α, a.map f = b.map f → zipWithM? F a b = some (zipWith F' a b)
  | [], [], _ => rfl
  | [], _ :: _, h => by simp at h
  | _ :: _, [], h => by simp at h
  | x :: a, y :: b, h => by
    simp only [map_cons, cons.injEq] at h
    simp only [zipWithM?, hp x y h.1, zipWithM?_eq_of_map f F F' hp a b h.2, zipWith_cons_cons]

/-! ### alike glyphs -/

/-! ### the total interpolation of alike glyphs -/

def mixPt (s : Q) (p q : Pt) : Pt := ⟨lerp p.x q.x s, lerp p.y q.y s, p.seg⟩
def mixContour (s : Q) (c d : Contour) : Contour := zipWith (mixPt s) c d
def mixAnchor (s : Q) (a b : Anchor) : Anchor := ⟨a.name, lerp a.x b.x s, lerp a.y b.y s⟩

def mixGlyph (s : Q) (a b : Glyph) : Glyph :=
  ⟨a.name, lerp a.width b.width s, lerp a.height b.height s, zipWith (mixContour s) a.contours b.contours,
   zipWith (lerpComp s) a.comps b.comps, zipWith (mixAnchor s) a.anchors b.anchors⟩

theorem lerp_self (x s : Q) : lerp x x s = x := by simp only [lerp]; grind
theorem lerp_zero (x y : Q) : lerp x y 0 = x := by simp only [lerp]; grind
theorem lerp_one (x y : Q) : lerp x y 1 = y := by simp only [lerp]; grind
theorem lerp_swap (x y s : Q) : lerp y x (1 - s) = lerp x y s := by simp only [lerp]; grind
theorem lerp_lerp (x y s0 s1 s : Q) : lerp (lerp x y s0) (lerp x y s1) s = lerp x y (s0 + s * (s1 - s0)) := by
  simp only [lerp]; grind

theorem removeFirst_head {α} (p : α → Bool) (a : α) (l : List α) (h : p a = true) :
    removeFirst p (a :: l) = some (a, l) := by simp [removeFirst, h]

theorem pairComps_alike : ∀ a b : List Comp, a.map ksh = b.map ksh → pairComps a b = a.zip b
  | [], [], _ => rfl
  | [], _ :: _, h => by simp at h
  | _ :: _, [], h => by simp at h
  | x :: a, y :: b, h => by
    simp only [map_cons, cons.injEq] at h
    have hb : y.base = x.base := by have := congrArg Prod.fst h.1; simpa [ksh] using this.symm
    simp only [pairComps, removeFirst_head (fun d => d.base == x.base) y b (by simp [hb]), zip_cons_cons,
      pairComps_alike a b h.2]

/-- on alike glyphs fontMath's interpolation is `mixGlyph` -/
theorem lerpGlyph_eq_mix (s : Q) (a b : Glyph) (h : sh a = sh b) : lerpGlyph s a b = some (mixGlyph s a b) := by
  have hc : a.contours.map contourShape = b.contours.map contourShape := congrArg GShape.contours h
  have hk : a.comps.map ksh = b.comps.map ksh := congrArg GShape.comps h
  have ha : a.anchors.map (fun a => a.name) = b.anchors.map (fun a => a.name) := congrArg GShape.anchors h
  have e1 : zipWithM? (zipWithM? (lerpPt s)) a.contours b.contours = some (zipWith (mixContour s) a.contours b.contours) := by
    apply zipWithM?_eq_of_map contourShape
    · intro c d hcd
      exact zipWithM?_eq_of_map (fun (p : Pt) => p.seg) (lerpPt s) (mixPt s) (fun _ _ _ => rfl) c d hcd
    · exact hc
  have e2 : zipWithM? (lerpAnchor s) a.anchors b.anchors = some (zipWith (mixAnchor s) a.anchors b.anchors) := by
    apply zipWithM?_eq_of_map (fun (a : Anchor) => a.name)
    · intro x y hxy
      simp only [lerpAnchor, mixAnchor]
      rw [if_pos hxy]
    · exact ha
  simp only [lerpGlyph, e1, e2, pairComps_alike _ _ hk, mixGlyph, map_zip_eq_zipWith]
  rfl


/-! ### laws of `mixGlyph` -/

theorem sh_name {a b : Glyph} (h : sh a = sh b) : a.name = b.name := congrArg GShape.name h
theorem sh_contours {a b : Glyph} (h : sh a = sh b) : a.contours.map contourShape = b.contours.map contourShape :=
  congrArg GShape.contours h
theorem sh_comps {a b : Glyph} (h : sh a = sh b) : a.comps.map ksh = b.comps.map ksh := congrArg GShape.comps h
theorem sh_anchors {a b : Glyph} (h : sh a = sh b) :
    a.anchors.map (fun a => a.name) = b.anchors.map (fun a => a.name) := congrArg GShape.anchors h

theorem ksh_base {x y : Comp} (h : ksh x = ksh y) : x.base = y.base := congrArg Prod.fst h
theorem ksh_linear {x y : Comp} (h : ksh x = ksh y) : x.t.linear = y.t.linear := congrArg Prod.snd h

theorem linear_fields {a b : Affine} (h : a.linear = b.linear) : a.xx = b.xx ∧ a.xy = b.xy ∧ a.yx = b.yx ∧ a.yy = b.yy := by
  simp only [Affine.linear, Prod.mk.injEq] at h
  exact h

theorem lerpAffine_linear (s : Q) (a b : Affine) (h : a.linear = b.linear) : (lerpAffine s a b).linear = a.linear := by
  obtain ⟨h1, h2, h3, h4⟩ := linear_fields h
  simp only [lerpAffine, Affine.linear, ← h1, ← h2, ← h3, ← h4, lerp_self]

theorem ksh_lerpComp (s : Q) (x y : Comp) (h : ksh x = ksh y) : ksh (lerpComp s x y) = ksh x := by
  simp only [ksh, lerpComp, lerpAffine_linear s x.t y.t (ksh_linear h)]

theorem contourShape_mix (s : Q) (c d : Contour) (h : contourShape c = contourShape d) :
    contourShape (mixContour s c d) = contourShape c :=
  map_zipWith_of_map (fun (p : Pt) => p.seg) (mixPt s) (fun _ _ _ => rfl) c d h

/-- interpolating alike glyphs gives a glyph alike to both -/
theorem sh_mix (s : Q) (a b : Glyph) (h : sh a = sh b) : sh (mixGlyph s a b) = sh a := by
  simp only [sh, mixGlyph, GShape.mk.injEq, true_and]
  refine ⟨?_, ?_, ?_⟩
  · exact map_zipWith_of_map contourShape (mixContour s) (contourShape_mix s) _ _ (sh_contours h)
  · exact map_zipWith_of_map ksh (lerpComp s) (ksh_lerpComp s) _ _ (sh_comps h)
  · exact map_zipWith_of_map (fun (a : Anchor) => a.name) (mixAnchor s) (fun _ _ _ => rfl) _ _ (sh_anchors h)

theorem lerpAffine_swap (s : Q) (a b : Affine) : lerpAffine (1 - s) b a = lerpAffine s a b := by
  simp only [lerpAffine, lerp_swap]

theorem mixContour_swap (s : Q) (c d : Contour) (h : contourShape c = contourShape d) :
    mixContour s c d = mixContour (1 - s) d c := by
  apply zipWith_comm_of_map (fun (p : Pt) => p.seg) _ _ _ c d h
  intro p q hpq
  simp only [mixPt, lerp_swap, hpq]

/-- `a·(1-s) + b·s = b·s + a·(1-s)`: which of the two glyphs provides the structure does not matter when they are alike -/
theorem mix_swap (s : Q) (a b : Glyph) (h : sh a = sh b) : mixGlyph (1 - s) b a = mixGlyph s a b := by
  simp only [mixGlyph, lerp_swap, Glyph.mk.injEq, true_and]
  refine ⟨(sh_name h).symm, ?_, ?_, ?_⟩
  · exact (zipWith_comm_of_map contourShape _ _ (mixContour_swap s) _ _ (sh_contours h)).symm
  · refine (zipWith_comm_of_map ksh (lerpComp s) (lerpComp (1 - s)) ?_ _ _ (sh_comps h)).symm
    intro x y hxy
    simp only [lerpComp, lerpAffine_swap, ksh_base hxy]
  · refine (zipWith_comm_of_map (fun (a : Anchor) => a.name) (mixAnchor s) (mixAnchor (1 - s)) ?_ _ _ (sh_anchors h)).symm
    intro x y hxy
    simp only [mixAnchor, lerp_swap, hxy]

/-- an interpolation of two interpolations is an interpolation -/
theorem mix_mix (s s0 s1 : Q) (a b : Glyph) :
    mixGlyph s (mixGlyph s0 a b) (mixGlyph s1 a b) = mixGlyph (s0 + s * (s1 - s0)) a b := by
  simp only [mixGlyph, lerp_lerp, Glyph.mk.injEq, true_and]
  refine ⟨?_, ?_, ?_⟩
  · apply zipWith_zipWith3
    intro c d
    apply zipWith_zipWith3
    intro p q
    simp only [mixPt, lerp_lerp]
  · apply zipWith_zipWith3
    intro x y
    simp only [lerpComp, lerpAffine, lerp_lerp]
  · apply zipWith_zipWith3
    intro x y
    simp only [mixAnchor, lerp_lerp]

theorem mix_zero (a b : Glyph) (h : sh a = sh b) : mixGlyph 0 a b = a := by
  obtain ⟨n, w, ht, cs, ks, an⟩ := a
  simp only [mixGlyph, lerp_zero, Glyph.mk.injEq, true_and]
  refine ⟨?_, ?_, ?_⟩
  · apply zipWith_left_of_map contourShape _ _ _ _ (sh_contours h)
    intro c d hcd
    apply zipWith_left_of_map (fun (p : Pt) => p.seg) _ _ _ _ hcd
    intro p q _
    simp only [mixPt, lerp_zero]
  · apply zipWith_left_of_map ksh _ _ _ _ (sh_comps h)
    intro x y _
    simp only [lerpComp, lerpAffine, lerp_zero]
  · apply zipWith_left_of_map (fun (a : Anchor) => a.name) _ _ _ _ (sh_anchors h)
    intro x y _
    simp only [mixAnchor, lerp_zero]

theorem mix_one (a b : Glyph) (h : sh a = sh b) : mixGlyph 1 a b = b := by
  obtain ⟨n, w, ht, cs, ks, an⟩ := b
  have hn := sh_name h
  simp only at hn
  simp only [mixGlyph, lerp_one, Glyph.mk.injEq, true_and]
  refine ⟨hn, ?_, ?_, ?_⟩
  · apply zipWith_right_of_map contourShape _ _ _ _ (sh_contours h)
    intro c d hcd
    apply zipWith_right_of_map (fun (p : Pt) => p.seg) _ _ _ _ hcd
    intro p q hpq
    simp only [mixPt, lerp_one, hpq]
  · apply zipWith_right_of_map ksh _ _ _ _ (sh_comps h)
    intro x y hxy
    simp only [lerpComp, lerpAffine, lerp_one, ksh_base hxy]
  · apply zipWith_right_of_map (fun (a : Anchor) => a.name) _ _ _ _ (sh_anchors h)
    intro x y hxy
    simp only [mixAnchor, lerp_one, hxy]

theorem isEmpty_of_length_eq {α β} (x : List α) (y : List β) (hxy : x.length = y.length) : x.isEmpty = y.isEmpty := by
  cases x <;> cases y <;> simp_all

theorem glyphEmpty_sh {a b : Glyph} (h : sh a = sh b) : glyphEmpty a = glyphEmpty b := by
  have h1 := length_eq_of_map_eq (sh_contours h)
  have h2 := length_eq_of_map_eq (sh_comps h)
  unfold glyphEmpty
  rw [isEmpty_of_length_eq _ _ h1, isEmpty_of_length_eq _ _ h2]

end Ufo2ft.C13
