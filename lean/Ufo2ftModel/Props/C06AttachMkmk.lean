import Ufo2ftModel.Props.C06AttachBase
/-! C06, part 14: mark-to-mark attachment of a matching pair. -/
namespace Ufo2ft.C06
open List

theorem mkmkAtts_mem {al : AList} {mg : List String} {km : List (String × String)} {g : String} {as : List NA}
    (h : (g, as) ∈ al) (hmg : g ∈ mg) {a : NA} (ha : a ∈ as) (hp : a.ctx = none) (hn : a.number = none) {c : String}
    (hc : classOf km a = some c) : (a.key, g, (⟨a, c⟩ : BAnchor)) ∈ mkmkAtts al mg km := by
  refine mem_flatMap.mpr ⟨(g, as), h, ?_⟩
  have : mg.contains g = true := by simpa using hmg
  simp only [this, Bool.not_true, Bool.false_eq_true, if_false]
  exact mem_filterMap.mpr ⟨a, mem_plainOf_of ha hp, by simp [hn, hc]⟩

/-- mark-to-mark: for a pair whose base side is itself a mark glyph -/
theorem mkmk_attach {i : Input} {al : AList} (w : ALwf i al) {b m : String} {ab am : NA} (p : Pair al b m ab am)
    (hok : markOK i m = true) (hpl : ab.ctx = none) (hnum : ab.number = none) (hmg : b ∈ mgOf i al)
    (feat : String) (inc : String → Bool) (mf : NA → Bool) (hinc : inc b = true) (hmf : mf ab = true) :
    ∃ L ∈ mkmkLookups feat inc mf (maOf i al), (attachLookup (build i al) L b m none).isSome = true := by
  have hcl := pair_classOf w p hok
  obtain ⟨recs, hcls, r, hr, hrg⟩ := pair_class w p hok
  obtain ⟨as', has', hab'⟩ := pair_prune_b w p
  have ht0 : (ab.key, b, (⟨ab, cnOf i al am.name⟩ : BAnchor)) ∈ maOf i al := mkmkAtts_mem has' hmg hab' hpl hnum hcl
  generalize hes : ((maOf i al).filter (fun t => t.1 == ab.key && inc t.2.1 && mf t.2.2.a)).map (fun t =>
      (⟨t.2.1, [compAST [t.2.2]]⟩ : Entry)) = es
  -- every entry of this lookup refers to the class of the pair
  have hentry : ∀ e ∈ es, ∃ x : BAnchor, e.comps = [compAST [x]] ∧ x.cls = cnOf i al am.name := by
    intro e he
    rw [← hes] at he
    obtain ⟨t, ht, rfl⟩ := mem_map.mp he
    obtain ⟨ht1, ht2⟩ := mem_filter.mp ht
    simp only [Bool.and_eq_true, beq_iff_eq] at ht2
    obtain ⟨_, hk, _, hc, _⟩ := mkmkAtts_ok ht1
    refine ⟨t.2.2, rfl, ?_⟩
    exact classOf_same_key hc hcl (by rw [← hk, ht2.1.1])
  have he0 : (⟨b, [compAST [⟨ab, cnOf i al am.name⟩]]⟩ : Entry) ∈ es := by
    rw [← hes]
    exact mem_map.mpr ⟨_, mem_filter.mpr ⟨ht0, by simp [hinc, hmf]⟩, rfl⟩
  have hL : (⟨feat, .mkmk, es⟩ : Lookup) ∈ mkmkLookups feat inc mf (maOf i al) := by
    refine mem_filterMap.mpr ⟨ab.key, ?_, ?_⟩
    · exact mem_sortStr.mpr (mem_dedupFirst.mpr (mem_map.mpr ⟨_, ht0, rfl⟩))
    · simp only
      rw [hes, if_neg]
      cases es with
      | nil => simp at he0
      | cons _ _ => simp
  have hused : ∀ cn, cn ∈ usedClasses (⟨feat, .mkmk, es⟩ : Lookup) → cn = cnOf i al am.name := by
    intro cn hcn
    obtain ⟨e, he, comp, hcomp, t, ht, htc⟩ := mem_usedClasses.mp hcn
    obtain ⟨x, hc, hx⟩ := hentry e he
    rw [hc] at hcomp
    simp only [mem_singleton] at hcomp; subst hcomp
    obtain ⟨y, hy, rfl⟩ := mem_compAST ht
    simp only [mem_singleton] at hy; subst hy
    rw [← htc]; exact hx
  refine ⟨_, hL, attachLookup_isSome rfl ⟨_, he0, rfl⟩ ?_ ?_⟩
  · refine ⟨(cnOf i al am.name, recs), hcls, ?_, r, hr, hrg⟩
    exact mem_usedClasses.mpr ⟨_, he0, compAST [⟨ab, cnOf i al am.name⟩], mem_singleton.mpr rfl,
      _, mem_compAST_of (mem_singleton.mpr rfl), rfl⟩
  · intro e he _ cls _ hu _
    obtain ⟨x, hc, hx⟩ := hentry e he
    have := hused cls.1 hu
    refine ⟨compAST [x], by rw [hc]; rfl, _, mem_compAST_of (mem_singleton.mpr rfl), ?_⟩
    rw [this]; exact hx

end Ufo2ft.C06
