import Ufo2ftModel.Spec.C08Filter
import Ufo2ftModel.Props.C01
/-! Property C08, theorems for the filter-object part (Model/C08Filter.lean): a TransformationsFilter instance carries nothing
from one font into the next. -/
namespace Ufo2ft.C08
open List

/-- `set_context` does not read the previous context: whatever an earlier call left behind, the result is the same -/
theorem setContext_forgets (s : TInst) (c : Option TCtx) (f : HInfo) :
    ({ s with context := c } : TInst).setContext f = s.setContext f := rfl

theorem setContext_opts (s : TInst) (f : HInfo) : (s.setContext f).opts = s.opts := rfl

/-- what a fresh instance with options `o` works with on font `f` -/
def freshCtx (o : TOpts) (f : HInfo) : Option TCtx := ((TInst.new o).setContext f).context

/-- **C08_filter_history_free**: for every instance (any options, ANY earlier history `s.context`) and every list of fonts, the
context (origin height + matrix) of the k-th call is the one a fresh instance computes for the k-th font -/
theorem C08_filter_history_free (s : TInst) (fs : List HInfo) : (session s fs).1 = fs.map (freshCtx s.opts) := by
  induction fs generalizing s with
  | nil => rfl
  | cons f fs ih =>
    simp only [session, List.map_cons]
    rw [ih (s.setContext f)]
    rfl

/-- the heights alone, as the task states it: the height used for font k is `originHeight origin fₖ` -/
theorem C08_filter_heights (s : TInst) (fs : List HInfo) :
    (session s fs).1.map (fun c => c.map TCtx.height) = fs.map (fun f => some (originHeight s.opts.origin f)) := by
  rw [C08_filter_history_free, List.map_map]
  rfl

/-- a session leaves the options as they were (so the NEXT session starts from the same function) -/
theorem session_opts (s : TInst) (fs : List HInfo) : (session s fs).2.opts = s.opts := by
  induction fs generalizing s with
  | nil => rfl
  | cons f fs ih => simp only [session]; rw [ih (s.setContext f)]; rfl

/-- two sessions of one instance: the second is not influenced by the first -/
theorem session_after_session (s : TInst) (fs gs : List HInfo) :
    (session (session s fs).2 gs).1 = (session (TInst.new s.opts) gs).1 := by
  rw [C08_filter_history_free, C08_filter_history_free, session_opts]
  rfl

/-- the spec predicate on the model: everything a shared instance shows = what fresh instances show -/
def ctxRow : Option TCtx → List Q
  | none => []
  | some c => [c.height, c.matrix.xx, c.matrix.xy, c.matrix.yx, c.matrix.yy, c.matrix.dx, c.matrix.dy]

theorem C08_filter_history_holds (s : TInst) (fs : List HInfo) :
    holdsOriginHistory (fs.map (fun f => ctxRow (freshCtx s.opts f))) ((session s fs).1.map ctxRow) = true := by
  rw [C08_filter_history_free, List.map_map]
  simp [holdsOriginHistory]

/-- **the caching slip is not history-free** (kernel-checked witness): Origin = cap height, fonts with capHeight 700 then 600 -
the slip uses 700 for the second font -/
theorem cached_slip_violates :
    ∃ (o : TOpts) (fs : List HInfo), (sessionCached (TInst.new o) fs).1 ≠ fs.map (freshCtx o) := by
  refine ⟨⟨.capHeight, 0, 0, 100, 100⟩, [⟨none, some 700, none⟩, ⟨none, some 600, none⟩], ?_⟩
  decide

theorem cached_slip_heights :
    (sessionCached (TInst.new ⟨.capHeight, 0, 0, 100, 100⟩) [⟨none, some 700, none⟩, ⟨none, some 600, none⟩]).1.map
      (fun c => c.map TCtx.height) = [some 700, some 700] ∧
    (session (TInst.new ⟨.capHeight, 0, 0, 100, 100⟩) [⟨none, some 700, none⟩, ⟨none, some 600, none⟩]).1.map
      (fun c => c.map TCtx.height) = [some 700, some 600] := by
  decide

/-- the spec predicate rejects the slip's observation -/
example : holdsOriginHistory [[700], [600]] [[700], [700]] = false := by decide

theorem isRoundOf_otRound (x : Q) : isRoundOf x ((otRound x : Int) : Q) = true := by
  have h := C01.otRound_spec x
  simp only [isRoundOf, Bool.and_eq_true, decide_eq_true_eq, beq_iff_eq]
  exact ⟨⟨by simp, h.1⟩, h.2⟩

/-- **origin_heights_spec**: the five modelled origin heights of any font satisfy the declarative description -/
theorem origin_heights_spec (i : HInfo) :
    holdsOriginHeights i.unitsPerEm i.capHeight i.xHeight
      [originHeight .capHeight i, originHeight .halfCapHeight i, originHeight .xHeight i, originHeight .halfXHeight i,
       originHeight .baseline i] = true := by
  obtain ⟨u, c, x⟩ := i
  have hu : ∀ u : Option Q, unitsPerEmOf ⟨u, c, x⟩ = u.getD 1000 := by intro u; cases u <;> rfl
  simp only [holdsOriginHeights, originHeight, Bool.and_eq_true]
  refine ⟨⟨⟨⟨?_, isRoundOf_otRound _⟩, ?_⟩, isRoundOf_otRound _⟩, by simp⟩
  · cases c with
    | some v => simp [capHeightOf]
    | none =>
      simp only [capHeightOf, hu]
      have e : Option.getD u 1000 * 7 / 10 = Option.getD u 1000 * (7 / 10) := by grind
      rw [e]; exact isRoundOf_otRound _
  · cases x with
    | some v => simp [xHeightOf]
    | none =>
      simp only [xHeightOf, hu]
      have e : Option.getD u 1000 / 2 = Option.getD u 1000 * (1 / 2) := by grind
      rw [e]; exact isRoundOf_otRound _

/-- the fallbacks really are reached / not reached -/
example : originHeight .halfCapHeight ⟨none, none, none⟩ = 350 ∧ originHeight .capHeight ⟨some 2048, none, none⟩ = 1434 ∧
    originHeight .halfXHeight ⟨none, none, some 501⟩ = 251 ∧ originHeight .xHeight ⟨some 15, none, none⟩ = 8 := by decide +kernel

/-- `start()` accepts exactly 0..4 -/
theorem origin_ofInt_error (n : Int) : (Origin.ofInt n = .error "ValueError") ↔ (n < 0 ∨ 4 < n) := by
  unfold Origin.ofInt
  constructor
  · intro h
    split at h <;> try (cases h)
    all_goals (try split at h) <;> try (cases h)
    all_goals (try split at h) <;> try (cases h)
    all_goals (try split at h) <;> try (cases h)
    all_goals (try split at h) <;> try (cases h)
    all_goals omega
  · intro h
    rw [if_neg (by omega), if_neg (by omega), if_neg (by omega), if_neg (by omega), if_neg (by omega)]

/-- the matrix of a scaled instance moves with the origin height: scaling about height h keeps (0, h) where it is -/
theorem ctxMatrix_fixes_origin (o : TOpts) (h : Q) (h0 : o.offsetX = 0 ∧ o.offsetY = 0) (hs : o.scaleY ≠ 100) :
    (ctxMatrix o h).yy * h + (ctxMatrix o h).dy = h := by
  obtain ⟨og, ox, oy, sx, sy⟩ := o
  simp only at h0 hs
  obtain ⟨rfl, rfl⟩ := h0
  have c : ((sx != 100 || sy != 100) = true) := by simp [hs]
  by_cases hh : h = 0
  · subst hh; simp [ctxMatrix, c, Mat.identity, Mat.scale, Mat.transform]; grind
  · have c2 : (h != 0) = true := by simp [hh]
    simp only [ctxMatrix, c, c2, Mat.identity, Mat.scale, Mat.translate, Mat.transform, if_true]
    simp
    grind

example : (ctxMatrix ⟨.capHeight, 0, 0, 50, 50⟩ 700).dy = 350 := by decide +kernel

end Ufo2ft.C08
