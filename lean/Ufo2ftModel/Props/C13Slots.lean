import Ufo2ftModel.Props.C13
import Ufo2ftModel.Props.C13Flags
import Ufo2ftModel.Props.C13VFEval
import Ufo2ftModel.Props.Total
/-! C13, TrueType component flags, the missing link: the hypothesis `SameSlots` of `C13_flags_effAdv` DERIVED from the model of
    `util.decomposeCompositeGlyph(glyph, glyphSet, include=skip, decomposeNested=False)` as `SkipExportGlyphsFilter.filter`
    calls it (`decomposeGlyph gs false (some skip)` / `skipExportStep` of Model/Geom.lean, Model/Filters.lean).

    (a) `ExpandsL`: the declarative reading of "components are redrawn in order; a reference to a skipped glyph is replaced by
        that glyph's own (transformed) components" - `decomposeGlyph_expands`, `skipExportStep_expands`: the component list
        after the step is the in-order concatenation, over the original components, of `[c]` for kept ones and the expansion
        of the skipped base for inlined ones (`expands_cons_iff`, `expands_kept_iff`, `expands_inl_iff`, `expands_flat`);
        the relation is functional (`ExpandsL.det`).
    (b) `inPlace_iff_one`: every component stays in its slot (`InPlace`) exactly when every reference expands to exactly ONE
        component (`One`; for a skipped base without skipped references of its own: it has exactly one component,
        `one_inl_flat_iff`); `length_eq_iff_one`: when no reference expands to nothing, the component count is unchanged
        iff that holds; `count_same_not_inPlace`: without that proviso an unchanged count does NOT imply it.
    (c) `C13_slots_effAdv`, `C13_slots_effAdv_kept`, `C13_slots_count_changed`, `C13_slots_step`: the conclusions of
        `C13_flags_effAdv` / `C13_flags_count_changed` about the output of the model's filter step, with no `SameSlots`
        hypothesis;
    (c') the whole filter: `skipExport_expands` (invariant `tracks_loop`: expanding w.r.t. the glyph set the traversal has
        reached is expanding w.r.t. the original one, `expands_transfer` / `expands_trans` / `expands_transport`), then
        `C13_slots_filter`, `C13_slots_filter_count`, and `C13_slots_filter_total` (no success hypothesis either).

    What is NOT in here: that the compiled `glyf` glyph has the components of the pre-processed glyph, same bases in the same
    order (`ttOf`), and that remaining glyphs have the same `hmtx` advance in both builds (`hadv`; in the model's terms
    `C13_render`: same width) - both observed on every generated font (stream (e)). -/
namespace Ufo2ft.C13
open Ufo2ft List

/-! ### (a) what the decomposing pen with include = skip list, decomposeNested = False, does to a component list -/

/-- `ExpandsL gs skip t ks r`: drawing the components `ks` through a pen stack whose accumulated transformation is `t` leaves the
    components `r`: a component whose base is not skipped is passed on (with the composed matrix); a reference to a skipped
    glyph `b` is replaced, in place, by what `b`'s own components leave under the composed matrix (contours of `b` become
    contours of the glyph and leave no component). -/
inductive ExpandsL (gs : GlyphSet) (skip : List String) : Affine → List Comp → List Comp → Prop
  | nil (t : Affine) : ExpandsL gs skip t [] []
  | kept {t : Affine} {k : Comp} {ks r : List Comp} : skip.contains k.base = false → ExpandsL gs skip t ks r →
      ExpandsL gs skip t (k :: ks) (⟨k.base, t.compose k.t⟩ :: r)
  | inl {t : Affine} {k : Comp} {ks : List Comp} {b : Glyph} {r1 r2 : List Comp} : skip.contains k.base = true →
      gs.get? k.base = some b → ExpandsL gs skip (t.compose k.t) b.comps r1 → ExpandsL gs skip t ks r2 →
      ExpandsL gs skip t (k :: ks) (r1 ++ r2)

/-- the relation is a (partial) function of the component list -/
theorem ExpandsL.det {gs : GlyphSet} {skip : List String} {t : Affine} {ks r r' : List Comp}
    (h : ExpandsL gs skip t ks r) (h' : ExpandsL gs skip t ks r') : r = r' := by
  induction h generalizing r' with
  | nil t => cases h'; rfl
  | kept hk _ ih =>
    cases h' with
    | kept _ h2 => rw [ih h2]
    | inl hk' _ _ _ => rw [hk] at hk'; cases hk'
  | inl hk hb _ _ ih1 ih2 =>
    cases h' with
    | kept hk' _ => rw [hk] at hk'; cases hk'
    | inl _ hb' h1' h2' =>
      rw [hb] at hb'
      have := Option.some.inj hb'; subst this
      rw [ih1 h1', ih2 h2']

theorem expands_nil_iff (gs : GlyphSet) (skip : List String) (t : Affine) (r : List Comp) :
    ExpandsL gs skip t [] r ↔ r = [] :=
  ⟨fun h => by cases h; rfl, fun h => by subst h; exact ExpandsL.nil t⟩

/-- a kept component leaves itself (matrix composed with the pen's) -/
theorem expands_kept_iff (gs : GlyphSet) (skip : List String) (t : Affine) (k : Comp) (r : List Comp)
    (hk : skip.contains k.base = false) : ExpandsL gs skip t [k] r ↔ r = [⟨k.base, t.compose k.t⟩] := by
  constructor
  · intro h
    cases h with
    | kept _ h2 => cases h2; rfl
    | inl hk' _ _ _ => rw [hk] at hk'; cases hk'
  · intro h; subst h; exact ExpandsL.kept hk (ExpandsL.nil t)

/-- a reference to a skipped glyph leaves what that glyph's components leave under the composed matrix -/
theorem expands_inl_iff (gs : GlyphSet) (skip : List String) (t : Affine) (k : Comp) (b : Glyph) (r : List Comp)
    (hk : skip.contains k.base = true) (hb : gs.get? k.base = some b) :
    ExpandsL gs skip t [k] r ↔ ExpandsL gs skip (t.compose k.t) b.comps r := by
  constructor
  · intro h
    cases h with
    | kept hk' _ => rw [hk] at hk'; cases hk'
    | inl _ hb' h1 h2 =>
      rw [hb] at hb'
      have := Option.some.inj hb'; subst this
      cases h2
      simpa using h1
  · intro h
    have := ExpandsL.inl hk hb h (ExpandsL.nil t)
    simpa using this

/-- in-order concatenation: the components left by `k :: ks` are those left by `k` followed by those left by `ks` -/
theorem expands_cons_iff (gs : GlyphSet) (skip : List String) (t : Affine) (k : Comp) (ks r : List Comp) :
    ExpandsL gs skip t (k :: ks) r ↔
      ∃ r1 r2, ExpandsL gs skip t [k] r1 ∧ ExpandsL gs skip t ks r2 ∧ r = r1 ++ r2 := by
  constructor
  · intro h
    cases h with
    | kept hk h2 => exact ⟨_, _, ExpandsL.kept hk (ExpandsL.nil t), h2, rfl⟩
    | inl hk hb h1 h2 =>
      refine ⟨_, _, ?_, h2, rfl⟩
      have := ExpandsL.inl hk hb h1 (ExpandsL.nil t)
      simpa using this
  · rintro ⟨r1, r2, h1, h2, rfl⟩
    cases h1 with
    | kept hk h3 => cases h3; exact ExpandsL.kept hk h2
    | inl hk hb h3 h4 => cases h4; simpa using ExpandsL.inl hk hb h3 h2

/-- a component list without references to skipped glyphs is passed on as it is (matrices composed) -/
theorem expands_flat (gs : GlyphSet) (skip : List String) (t : Affine) :
    ∀ (ks r : List Comp), (∀ k ∈ ks, skip.contains k.base = false) →
      (ExpandsL gs skip t ks r ↔ r = ks.map (fun k => ⟨k.base, t.compose k.t⟩))
  | [], r, _ => by simpa using expands_nil_iff gs skip t r
  | k :: ks, r, h => by
    have hk := h k mem_cons_self
    have ih := fun r2 => expands_flat gs skip t ks r2 (fun k' hk' => h k' (mem_cons_of_mem _ hk'))
    rw [expands_cons_iff]
    constructor
    · rintro ⟨r1, r2, h1, h2, rfl⟩
      rw [(expands_kept_iff gs skip t k r1 hk).mp h1, (ih r2).mp h2]; rfl
    · intro hr
      exact ⟨_, _, (expands_kept_iff gs skip t k _ hk).mpr rfl, (ih _).mpr rfl, by rw [hr]; rfl⟩

/-! #### the model computes it -/

def ExpOne (gs : GlyphSet) (skip : List String) (fuel : Nat) : Prop :=
  ∀ base t D, addComp fuel gs true false (some skip) base t = .ok D →
    (skip.contains base = false ∧ D.comps = [⟨base, t⟩]) ∨
    (skip.contains base = true ∧ ∃ b, gs.get? base = some b ∧ ExpandsL gs skip t b.comps D.comps)
def ExpMany (gs : GlyphSet) (skip : List String) (fuel : Nat) : Prop :=
  ∀ t ks D, addComps fuel gs true false (some skip) t ks = .ok D → ExpandsL gs skip t ks D.comps

theorem expMany_of_expOne (gs : GlyphSet) (skip : List String) (fuel : Nat)
    (h1 : ExpOne gs skip fuel) : ExpMany gs skip fuel := by
  intro t ks
  induction ks with
  | nil => intro D hD; simp only [addComps] at hD; cases hD; exact ExpandsL.nil t
  | cons k0 ks ih =>
    intro D hD
    simp only [addComps] at hD
    cases h0 : addComp fuel gs true false (some skip) k0.base (t.compose k0.t) with
    | error e => rw [h0] at hD; cases hD
    | ok d =>
      rw [h0] at hD
      cases hr : addComps fuel gs true false (some skip) t ks with
      | error e => rw [hr] at hD; cases hD
      | ok d' =>
        rw [hr] at hD
        have hD' := Except.ok.inj hD
        subst hD'
        show ExpandsL gs skip t (k0 :: ks) (d.comps ++ d'.comps)
        rcases h1 k0.base _ d h0 with ⟨hk, hc⟩ | ⟨hk, b, hb, he⟩
        · rw [hc]; exact ExpandsL.kept hk (ih d' hr)
        · exact ExpandsL.inl hk hb he (ih d' hr)

theorem expOne_succ (gs : GlyphSet) (skip : List String) (fuel : Nat)
    (h2 : ExpMany gs skip fuel) : ExpOne gs skip (fuel + 1) := by
  intro base t D hD
  unfold addComp at hD
  by_cases hi : isIncluded (some skip) base = true
  · rw [if_pos hi] at hD
    cases hb : gs.get? base with
    | none => rw [hb] at hD; cases hD
    | some b =>
      rw [hb] at hD
      dsimp only at hD
      have hin : inclNested false (some skip) = some skip := by simp [inclNested]
      rw [hin] at hD
      cases hd : addComps fuel gs true false (some skip) t b.comps with
      | error e => rw [hd] at hD; cases hD
      | ok d =>
        rw [hd] at hD
        have hD' := Except.ok.inj hD
        subst hD'
        exact Or.inr ⟨by simpa [isIncluded] using hi, b, rfl, h2 t b.comps d hd⟩
  · rw [if_neg hi] at hD
    have hD' := Except.ok.inj hD
    subst hD'
    exact Or.inl ⟨by simpa [isIncluded] using hi, rfl⟩

theorem pen_expands (gs : GlyphSet) (skip : List String) : ∀ fuel, ExpOne gs skip fuel ∧ ExpMany gs skip fuel := by
  intro fuel
  induction fuel with
  | zero =>
    have h0 : ExpOne gs skip 0 := by
      intro base t D hD; simp only [addComp] at hD; cases hD
    exact ⟨h0, expMany_of_expOne gs skip 0 h0⟩
  | succ n ih =>
    have h1 := expOne_succ gs skip n ih.2
    exact ⟨h1, expMany_of_expOne gs skip (n + 1) h1⟩

/-- (a) for `util.decomposeCompositeGlyph(glyph, glyphSet, include=skip, decomposeNested=False)`: whenever the model returns,
    the new component list is the expansion of the old one (nothing else about the glyph's components changes: the result
    is determined by `ExpandsL.det`) -/
theorem decomposeGlyph_expands (gs : GlyphSet) (skip : List String) (g g' : Glyph)
    (h : decomposeGlyph gs false (some skip) g = .ok g') : ExpandsL gs skip Affine.id g.comps g'.comps := by
  unfold decomposeGlyph at h
  cases hd : addComps (gs.length + 1) gs true false (some skip) Affine.id g.comps with
  | error e => rw [hd] at h; cases h
  | ok d =>
    rw [hd] at h
    have := Except.ok.inj h; subst this
    exact (pen_expands gs skip _).2 _ _ d hd

/-- (a) for `SkipExportGlyphsFilter.filter(glyph)`: a glyph reported as modified is stored again with the expansion of its
    component list w.r.t. the glyph set at that moment; a glyph not reported is not touched and references no skipped glyph -/
theorem skipExportStep_expands (skip : List String) (st st' : FState) (g : Glyph) (r : Bool)
    (h : skipExportStep skip st g = .ok (st', r)) :
    (r = true ∧ ∃ g', decomposeGlyph st.gs false (some skip) g = .ok g' ∧ st'.gs = st.gs.set g.name g' ∧
        ExpandsL st.gs skip Affine.id g.comps g'.comps) ∨
    (r = false ∧ st' = st ∧ ∀ k ∈ g.comps, skip.contains k.base = false) := by
  unfold skipExportStep at h
  by_cases hc : (g.comps.isEmpty || !(g.comps.any (fun k => skip.contains k.base))) = true
  · rw [if_pos hc] at h
    have := Except.ok.inj h
    injection this with h1 h2
    refine Or.inr ⟨h2.symm, h1.symm, ?_⟩
    intro k hk
    rcases Bool.or_eq_true _ _ |>.mp hc with he | hn
    · have : g.comps = [] := by simpa using he
      rw [this] at hk; cases hk
    · simp only [Bool.not_eq_true', any_eq_false] at hn
      simpa using hn k hk
  · rw [if_neg hc] at h
    cases hd : decomposeGlyph st.gs false (some skip) g with
    | error e => rw [hd] at h; cases h
    | ok g' =>
      rw [hd] at h
      have := Except.ok.inj h
      injection this with h1 h2
      exact Or.inl ⟨h2.symm, g', rfl, by rw [← h1], decomposeGlyph_expands st.gs skip g g' hd⟩

/-! ### (b) slots -/

/-- the reference `k` expands to exactly one component -/
def One (gs : GlyphSet) (skip : List String) (t : Affine) (k : Comp) : Prop := ∃ d, ExpandsL gs skip t [k] [d]

/-- every component of `ks` stays in its slot: `ds` has, index by index, the one component the reference expands to -/
def InPlace (gs : GlyphSet) (skip : List String) (t : Affine) : List Comp → List Comp → Prop
  | [], [] => True
  | k :: ks, d :: ds => ExpandsL gs skip t [k] [d] ∧ InPlace gs skip t ks ds
  | _, _ => False

theorem inPlace_length (gs : GlyphSet) (skip : List String) (t : Affine) :
    ∀ (ks ds : List Comp), InPlace gs skip t ks ds → ds.length = ks.length
  | [], [], _ => rfl
  | k :: ks, d :: ds, h => by simp [inPlace_length gs skip t ks ds h.2]
  | [], _ :: _, h => by simp [InPlace] at h
  | _ :: _, [], h => by simp [InPlace] at h

/-- a kept component always stays in its slot -/
theorem one_kept (gs : GlyphSet) (skip : List String) (t : Affine) (k : Comp) (hk : skip.contains k.base = false) :
    One gs skip t k := ⟨_, (expands_kept_iff gs skip t k _ hk).mpr rfl⟩

/-- a reference to a skipped glyph that itself references no skipped glyph (the state of every skipped glyph when the filter
    reaches the glyphs that use it: deepest composites are filtered first) stays in its slot iff that glyph has exactly one
    component (and then no matter whether it has contours of its own) -/
theorem one_inl_flat_iff (gs : GlyphSet) (skip : List String) (t : Affine) (k : Comp) (b : Glyph)
    (hk : skip.contains k.base = true) (hb : gs.get? k.base = some b)
    (hflat : ∀ k' ∈ b.comps, skip.contains k'.base = false) : One gs skip t k ↔ b.comps.length = 1 := by
  unfold One
  constructor
  · rintro ⟨d, hd⟩
    have := (expands_flat gs skip _ b.comps [d] hflat).mp ((expands_inl_iff gs skip t k b [d] hk hb).mp hd)
    have hl := congrArg length this
    simpa using hl.symm
  · intro hl
    match hbc : b.comps, hl with
    | [k'], _ =>
      refine ⟨⟨k'.base, (t.compose k.t).compose k'.t⟩, (expands_inl_iff gs skip t k b _ hk hb).mpr ?_⟩
      rw [hbc] at hflat ⊢
      exact (expands_flat gs skip _ [k'] _ hflat).mpr rfl

/-- (b) SLOTS ARE KEPT EXACTLY WHEN EVERY REFERENCE EXPANDS TO EXACTLY ONE COMPONENT -/
theorem inPlace_iff_one (gs : GlyphSet) (skip : List String) (t : Affine) :
    ∀ (ks r : List Comp), ExpandsL gs skip t ks r → (InPlace gs skip t ks r ↔ ∀ k ∈ ks, One gs skip t k)
  | [], r, h => by cases h; simp [InPlace]
  | k :: ks, r, h => by
    obtain ⟨r1, r2, h1, h2, rfl⟩ := (expands_cons_iff gs skip t k ks r).mp h
    have ih := inPlace_iff_one gs skip t ks r2 h2
    constructor
    · intro hp
      cases r1 with
      | nil =>
        cases r2 with
        | nil => simp [InPlace] at hp
        | cons d ds =>
          have hp' : InPlace gs skip t (k :: ks) (d :: ds) := hp
          have := h1.det hp'.1
          cases this
      | cons d r1' =>
        have hp' : InPlace gs skip t (k :: ks) (d :: (r1' ++ r2)) := hp
        have hd := h1.det hp'.1
        have hr1 : r1' = [] := by simpa using hd
        subst hr1
        intro x hx
        rcases mem_cons.mp hx with rfl | hx
        · exact ⟨d, h1⟩
        · exact ih.mp hp'.2 x hx
    · intro ho
      obtain ⟨d, hd⟩ := ho k mem_cons_self
      have := h1.det hd; subst this
      exact ⟨hd, ih.mpr (fun x hx => ho x (mem_cons_of_mem _ hx))⟩

/-- … and then the number of components is unchanged -/
theorem one_length (gs : GlyphSet) (skip : List String) (t : Affine) (ks r : List Comp) (h : ExpandsL gs skip t ks r)
    (ho : ∀ k ∈ ks, One gs skip t k) : r.length = ks.length :=
  inPlace_length gs skip t ks r ((inPlace_iff_one gs skip t ks r h).mpr ho)

theorem length_ge_of_nonempty (gs : GlyphSet) (skip : List String) (t : Affine) :
    ∀ (ks r : List Comp), ExpandsL gs skip t ks r → (∀ k ∈ ks, ∀ p, ExpandsL gs skip t [k] p → p ≠ []) →
      ks.length ≤ r.length ∧ (r.length = ks.length → ∀ k ∈ ks, One gs skip t k)
  | [], r, h, _ => by cases h; simp
  | k :: ks, r, h, hne => by
    obtain ⟨r1, r2, h1, h2, rfl⟩ := (expands_cons_iff gs skip t k ks r).mp h
    obtain ⟨ihl, ihe⟩ := length_ge_of_nonempty gs skip t ks r2 h2 (fun x hx => hne x (mem_cons_of_mem _ hx))
    have h1ne := hne k mem_cons_self r1 h1
    have h1l : 1 ≤ r1.length := by
      cases r1 with
      | nil => exact absurd rfl h1ne
      | cons _ _ => simp
    refine ⟨by simp only [length_append, length_cons]; omega, ?_⟩
    intro hl
    simp only [length_append, length_cons] at hl
    have hr1 : r1.length = 1 := by omega
    have hr2 : r2.length = ks.length := by omega
    intro x hx
    rcases mem_cons.mp hx with rfl | hx
    · match r1, hr1, h1 with
      | [d], _, h1 => exact ⟨d, h1⟩
    · exact ihe hr2 x hx

/-- (b) when no reference expands to nothing (no skipped glyph made of contours only is referenced), THE COMPONENT COUNT IS
    UNCHANGED IFF EVERY REFERENCE EXPANDS TO EXACTLY ONE COMPONENT -/
theorem length_eq_iff_one (gs : GlyphSet) (skip : List String) (t : Affine) (ks r : List Comp)
    (h : ExpandsL gs skip t ks r) (hne : ∀ k ∈ ks, ∀ p, ExpandsL gs skip t [k] p → p ≠ []) :
    r.length = ks.length ↔ ∀ k ∈ ks, One gs skip t k :=
  ⟨(length_ge_of_nonempty gs skip t ks r h hne).2, one_length gs skip t ks r h⟩

/-! ### (c) the TrueType flags of the filter's output -/

/-- the component of the compiled `glyf` glyph made from a component of the (pre-processed) glyph set: same base, same
    position in the list, USE_MY_METRICS not yet set; `plain` = "no 2×2 part and no horizontal shift" as the compiler sees it
    (after rounding), a parameter -/
def ttOf (plain : Comp → Bool) (k : Comp) : TTComp := ⟨k.base, plain k, false⟩

/-- wherever the UFO asks `useMyMetrics` (flags are paired BY INDEX), the one component the reference at that index
    expands to has, in the font built with the skip list, the advance the referenced glyph has in the font built without -/
def MetricsSlots (advF advC : String → Option Int) (gs : GlyphSet) (skip : List String) (t : Affine) :
    List CLib → List Comp → Prop
  | u :: us, k :: ks =>
    (u = .entry (some true) → ∀ d, ExpandsL gs skip t [k] [d] → advF k.base = advC d.base) ∧
      MetricsSlots advF advC gs skip t us ks
  | _, _ => True

/-- the simple sufficient condition: `useMyMetrics` is never asked of a reference to a skipped glyph (the complement of the
    known finding use-my-metrics-on-skipped-component) -/
def MetricsKept (skip : List String) : List CLib → List Comp → Prop
  | u :: us, k :: ks => (u = .entry (some true) → skip.contains k.base = false) ∧ MetricsKept skip us ks
  | _, _ => True

theorem metricsSlots_of_kept (advF advC : String → Option Int) (gs : GlyphSet) (skip : List String) (t : Affine)
    (hadv : ∀ n, skip.contains n = false → advF n = advC n) :
    ∀ (us : List CLib) (ks : List Comp), MetricsKept skip us ks → MetricsSlots advF advC gs skip t us ks
  | [], _, _ => by simp [MetricsSlots]
  | _ :: _, [], _ => by simp [MetricsSlots]
  | u :: us, k :: ks, h => by
    refine ⟨?_, metricsSlots_of_kept advF advC gs skip t hadv us ks h.2⟩
    intro hu d hd
    have hk := h.1 hu
    have := (expands_kept_iff gs skip t k [d] hk).mp hd
    have hd' : d = ⟨k.base, t.compose k.t⟩ := by simpa using this
    rw [hd']; exact hadv _ hk

/-- `SameSlots` DERIVED: components in place + the advance condition at the `useMyMetrics` slots -/
theorem sameSlots_of_inPlace (advF advC : String → Option Int) (gs : GlyphSet) (skip : List String) (t : Affine)
    (plain : Comp → Bool) :
    ∀ (us : List CLib) (ks ds : List Comp), InPlace gs skip t ks ds → MetricsSlots advF advC gs skip t us ks →
      SameSlots advF advC us (ks.map (ttOf plain)) (ds.map (ttOf plain))
  | us, [], [], _, _ => by cases us <;> simp [SameSlots]
  | [], k :: ks, d :: ds, hp, _ => by
    have ih := sameSlots_of_inPlace advF advC gs skip t plain [] ks ds hp.2 (by simp [MetricsSlots])
    simp only [map_cons, SameSlots]
    exact ⟨rfl, rfl, ih⟩
  | u :: us, k :: ks, d :: ds, hp, hm => by
    have ih := sameSlots_of_inPlace advF advC gs skip t plain us ks ds hp.2 hm.2
    simp only [map_cons, SameSlots]
    exact ⟨rfl, rfl, fun hu => hm.1 hu d hp.1, ih⟩
  | _, [], _ :: _, hp, _ => by simp [InPlace] at hp
  | _, _ :: _, [], hp, _ => by simp [InPlace] at hp

/-- **C13_slots_effAdv** (no `SameSlots` hypothesis): let `g'` be what the model of
    `decomposeCompositeGlyph(g, glyphSet, include=skip, decomposeNested=False)` makes of `g`.  If every reference of `g` expands
    to exactly one component, and at the indices where the UFO asks `useMyMetrics` that component has the advance of the
    referenced glyph, the advance a rasteriser uses for the glyph compiled from `g'` (flags set by `_set_composite_flags`
    from the ORIGINAL glyph's `public.objectLibs`, `us`) is the one it uses for the glyph compiled from `g`. -/
theorem C13_slots_effAdv (gs : GlyphSet) (skip : List String) (g g' : Glyph) (advF advC : String → Option Int) (own : Int)
    (us : List CLib) (plain : Comp → Bool)
    (h : decomposeGlyph gs false (some skip) g = .ok g')
    (hone : ∀ k ∈ g.comps, One gs skip Affine.id k)
    (hm : MetricsSlots advF advC gs skip Affine.id us g.comps) :
    effOf advF own (setCompositeFlags advF own us (g.comps.map (ttOf plain))) =
      effOf advC own (setCompositeFlags advC own us (g'.comps.map (ttOf plain))) := by
  have he := decomposeGlyph_expands gs skip g g' h
  have hp := (inPlace_iff_one gs skip Affine.id g.comps g'.comps he).mpr hone
  exact C13_flags_effAdv advF advC own us _ _
    (sameSlots_of_inPlace advF advC gs skip Affine.id plain us g.comps g'.comps hp hm)

/-- … with hypotheses on the SOURCE only: remaining glyphs have the same `hmtx` advance in both fonts (`C13_render`), every
    referenced skipped glyph is a one-component alias (`One`), and `useMyMetrics` is not asked of a reference to a skipped
    glyph -/
theorem C13_slots_effAdv_kept (gs : GlyphSet) (skip : List String) (g g' : Glyph) (advF advC : String → Option Int)
    (own : Int) (us : List CLib) (plain : Comp → Bool)
    (h : decomposeGlyph gs false (some skip) g = .ok g')
    (hone : ∀ k ∈ g.comps, One gs skip Affine.id k)
    (hadv : ∀ n, skip.contains n = false → advF n = advC n)
    (hm : MetricsKept skip us g.comps) :
    effOf advF own (setCompositeFlags advF own us (g.comps.map (ttOf plain))) =
      effOf advC own (setCompositeFlags advC own us (g'.comps.map (ttOf plain))) :=
  C13_slots_effAdv gs skip g g' advF advC own us plain h hone
    (metricsSlots_of_kept advF advC gs skip Affine.id hadv us g.comps hm)

/-- **C13_slots_count_changed**: if the UFO has hinting data for every component, no reference expands to nothing, and some
    reference does NOT expand to exactly one component, the number of components changes, `_set_composite_flags` falls back
    to `autoUseMyMetrics`, and the rasteriser's advance of the glyph compiled from the filter's output is the glyph's own,
    whatever the UFO asked for -/
theorem C13_slots_count_changed (gs : GlyphSet) (skip : List String) (g g' : Glyph) (adv : String → Option Int) (own : Int)
    (us : List CLib) (plain : Comp → Bool)
    (h : decomposeGlyph gs false (some skip) g = .ok g')
    (hus : us.length = g.comps.length)
    (hne : ∀ k ∈ g.comps, ∀ p, ExpandsL gs skip Affine.id [k] p → p ≠ [])
    (hnot : ¬ ∀ k ∈ g.comps, One gs skip Affine.id k) :
    effOf adv own (setCompositeFlags adv own us (g'.comps.map (ttOf plain))) = some own := by
  have he := decomposeGlyph_expands gs skip g g' h
  have hl : g'.comps.length ≠ g.comps.length :=
    fun hl => hnot ((length_eq_iff_one gs skip Affine.id g.comps g'.comps he hne).mp hl)
  refine C13_flags_count_changed adv own us _ (by rw [length_map, hus]; exact hl) ?_
  intro d hd
  obtain ⟨k, _, rfl⟩ := mem_map.mp hd
  rfl

/-- **C13_slots_step**: the same about one step of the model of `SkipExportGlyphsFilter` (`filter(glyph)` on the state the
    traversal has reached): whatever glyph `g''` the step leaves under the name of `g`, the rasteriser's advance of the
    glyph compiled from it is that of the glyph compiled from `g` -/
theorem C13_slots_step (skip : List String) (st st' : FState) (g g'' : Glyph) (r : Bool)
    (advF advC : String → Option Int) (own : Int) (us : List CLib) (plain : Comp → Bool)
    (h : skipExportStep skip st g = .ok (st', r))
    (hget : st.gs.get? g.name = some g) (hget' : st'.gs.get? g.name = some g'')
    (hone : ∀ k ∈ g.comps, One st.gs skip Affine.id k)
    (hadv : ∀ n, skip.contains n = false → advF n = advC n)
    (hm : MetricsKept skip us g.comps) :
    effOf advF own (setCompositeFlags advF own us (g.comps.map (ttOf plain))) =
      effOf advC own (setCompositeFlags advC own us (g''.comps.map (ttOf plain))) := by
  rcases skipExportStep_expands skip st st' g r h with ⟨_, g', hd, hs, _⟩ | ⟨_, hs, hk⟩
  · have hg'' : g'' = g' := by
      rw [hs] at hget'
      rw [get?_set st.gs g.name g.name g g' hget, if_pos rfl] at hget'
      exact (Option.some.inj hget').symm
    rw [hg'']
    exact C13_slots_effAdv_kept st.gs skip g g' advF advC own us plain hd hone hadv hm
  · rw [hs, hget] at hget'
    have := Option.some.inj hget'; subst this
    -- untouched: same components in both builds, none refers to a skipped glyph
    have hp : InPlace st.gs skip Affine.id g.comps (g.comps.map (fun k => ⟨k.base, Affine.id.compose k.t⟩)) :=
      (inPlace_iff_one st.gs skip Affine.id _ _ ((expands_flat st.gs skip Affine.id g.comps _ hk).mpr rfl)).mpr
        (fun k hk' => one_kept st.gs skip Affine.id k (hk k hk'))
    have hmap : g.comps.map (fun k => (⟨k.base, Affine.id.compose k.t⟩ : Comp)) = g.comps := by
      rw [map_congr_left (g := fun k => k) (fun k _ => by rw [Affine.id_compose])]; simp
    rw [hmap] at hp
    exact C13_flags_effAdv advF advC own us _ _
      (sameSlots_of_inPlace advF advC st.gs skip Affine.id plain us g.comps g.comps hp
        (metricsSlots_of_kept advF advC st.gs skip Affine.id hadv us g.comps hm))


/-! ### (c') the whole filter: the loop of `BaseFilter.__call__` over all glyphs, then the deletion of the skipped glyphs

When the traversal reaches a glyph, the skipped glyphs it references may already have been rewritten (their own references to
skipped glyphs inlined).  Expanding w.r.t. the CURRENT glyph set is expanding w.r.t. the ORIGINAL one: -/

/-- nothing that is left refers to a skipped glyph -/
theorem expands_noskip {gs : GlyphSet} {skip : List String} {t : Affine} {ks r : List Comp}
    (h : ExpandsL gs skip t ks r) : ∀ c ∈ r, skip.contains c.base = false := by
  induction h with
  | nil t => intro c hc; cases hc
  | kept hk _ ih =>
    intro c hc
    rcases mem_cons.mp hc with rfl | hc
    · exact hk
    · exact ih c hc
  | inl _ _ _ _ ih1 ih2 =>
    intro c hc
    rcases mem_append.mp hc with hc | hc
    · exact ih1 c hc
    · exact ih2 c hc

/-- drawing through one more transforming pen composes every matrix that is left -/
theorem expands_transport {gs : GlyphSet} {skip : List String} (T : Affine) {t : Affine} {ks r : List Comp}
    (h : ExpandsL gs skip t ks r) :
    ExpandsL gs skip (T.compose t) ks (r.map (fun c => ⟨c.base, T.compose c.t⟩)) := by
  induction h with
  | nil t => exact ExpandsL.nil _
  | @kept t k ks r hk _ ih =>
    have := ExpandsL.kept hk ih
    rw [Affine.compose_assoc] at this
    simpa using this
  | @inl t k ks b r1 r2 hk hb _ _ ih1 ih2 =>
    rw [← Affine.compose_assoc] at ih1
    have := ExpandsL.inl hk hb ih1 ih2
    rw [map_append]; exact this

/-- expanding an expansion is expanding -/
theorem expands_trans {gs : GlyphSet} {skip : List String} {T : Affine} {ks m r : List Comp}
    (h1 : ExpandsL gs skip Affine.id ks m) (h2 : ExpandsL gs skip T m r) : ExpandsL gs skip T ks r := by
  have hr := (expands_flat gs skip T m r (expands_noskip h1)).mp h2
  have := expands_transport T h1
  rw [Affine.compose_id] at this
  rw [hr]; exact this

/-- the invariant of the traversal: every glyph of the current set still has its original components or their expansion
    w.r.t. the original glyph set `gs0` -/
def Tracks (gs0 : GlyphSet) (skip : List String) (gs : GlyphSet) : Prop :=
  ∀ n g1, gs.get? n = some g1 → ∃ g, gs0.get? n = some g ∧
    (g1.comps = g.comps ∨ ExpandsL gs0 skip Affine.id g.comps g1.comps)

theorem expands_transfer {gs0 gs : GlyphSet} {skip : List String} (hT : Tracks gs0 skip gs) {t : Affine}
    {ks r : List Comp} (h : ExpandsL gs skip t ks r) : ExpandsL gs0 skip t ks r := by
  induction h with
  | nil t => exact ExpandsL.nil _
  | kept hk _ ih => exact ExpandsL.kept hk ih
  | inl hk hb _ _ ih1 ih2 =>
    obtain ⟨b0, hb0, hc | hc⟩ := hT _ _ hb
    · rw [hc] at ih1; exact ExpandsL.inl hk hb0 ih1 ih2
    · exact ExpandsL.inl hk hb0 (expands_trans hc ih1) ih2

theorem tracks_loop (gs0 : GlyphSet) (skip : List String) (incl : String → Bool) :
    ∀ (order : List String) (st st' : FState), filterLoop (skipExportStep skip) incl order st = .ok st' →
      Named st.gs → Tracks gs0 skip st.gs → Named st'.gs ∧ Tracks gs0 skip st'.gs := by
  intro order
  induction order with
  | nil =>
    intro st st' h hn hT
    simp only [filterLoop] at h
    have := Except.ok.inj h; subst this; exact ⟨hn, hT⟩
  | cons n ns ih =>
    intro st st' h hn hT
    unfold filterLoop at h
    by_cases hm : st.modified.contains n = true
    · rw [if_pos hm] at h; exact ih st st' h hn hT
    · rw [if_neg hm] at h
      cases hget : st.gs.get? n with
      | none => rw [hget] at h; cases h
      | some g =>
        rw [hget] at h
        dsimp only at h
        by_cases hi : incl n = true
        · rw [if_pos hi] at h
          cases hs : skipExportStep skip st g with
          | error e => rw [hs] at h; cases h
          | ok res =>
            obtain ⟨st1, r⟩ := res
            rw [hs] at h
            dsimp only at h
            have hname : g.name = n := hn n g hget
            have hgetg : st.gs.get? g.name = some g := by rw [hname]; exact hget
            have key : Named st1.gs ∧ Tracks gs0 skip st1.gs := by
              rcases skipExportStep_expands skip st st1 g r hs with ⟨_, g', hd, e, he⟩ | ⟨_, e, _⟩
              · rw [e]
                refine ⟨named_set st.gs hn g.name g g' hgetg (decomposeGlyph_name st.gs false (some skip) g g' hd), ?_⟩
                intro m g1 hm1
                rw [get?_set st.gs g.name m g g' hgetg] at hm1
                by_cases hmn : m = g.name
                · rw [if_pos hmn] at hm1
                  have := Option.some.inj hm1; subst this
                  obtain ⟨g0, hg0, hc⟩ := hT g.name g hgetg
                  refine ⟨g0, by rw [hmn]; exact hg0, Or.inr ?_⟩
                  have he0 := expands_transfer hT he
                  rcases hc with hc | hc
                  · rw [← hc]; exact he0
                  · exact expands_trans hc he0
                · rw [if_neg hmn] at hm1; exact hT m g1 hm1
              · rw [e]; exact ⟨hn, hT⟩
            by_cases hr : r = true
            · rw [if_pos hr] at h; exact ih _ st' h key.1 key.2
            · rw [if_neg hr] at h; exact ih _ st' h key.1 key.2
        · rw [if_neg hi] at h; exact ih st st' h hn hT

/-- **skipExport_expands**: (a) for the WHOLE model of `SkipExportGlyphsFilter.__call__` (any glyph set whose glyphs are stored
    under their names; no acyclicity or other well-formedness needed beyond the filter returning): every remaining glyph ends
    up with exactly the expansion of its ORIGINAL component list w.r.t. the ORIGINAL glyph set - kept components in place,
    each reference to a skipped glyph replaced in place by what that glyph's components (recursively) leave -/
theorem skipExport_expands (skip : List String) (gs : GlyphSet) (st : FState) (hn : Named gs)
    (h : skipExport skip (fun _ => true) gs = .ok st) :
    ∀ n g, skip.contains n = false → gs.get? n = some g →
      ∃ g', st.gs.get? n = some g' ∧ ExpandsL gs skip Affine.id g.comps g'.comps := by
  unfold skipExport at h
  cases hr : runFilter (skipExportStep skip) (fun _ => true) gs with
  | error e => rw [hr] at h; cases h
  | ok st0 =>
    rw [hr] at h
    have := Except.ok.inj h; subst this
    dsimp only
    unfold runFilter at hr
    cases ho : orderedGlyphs gs with
    | error e => rw [ho] at hr; cases hr
    | ok order =>
      rw [ho] at hr
      obtain ⟨_, _, hvis, _, _, hsome⟩ := skipLoop skip order ⟨gs, [], []⟩ st0 hr hn (fun x hx => (by cases hx))
      have hT0 : Tracks gs skip gs := fun n g1 h1 => ⟨g1, h1, Or.inl rfl⟩
      obtain ⟨_, hT⟩ := tracks_loop gs skip (fun _ => true) order ⟨gs, [], []⟩ st0 hr hn hT0
      intro n g hsk hget
      cases hp : st0.gs.get? n with
      | none => have := hsome n; rw [hp] at this; simp only [hget] at this; cases this
      | some g' =>
        refine ⟨g', ?_, ?_⟩
        · unfold GlyphSet.get?; rw [alookup_filter skip n hsk]; exact hp
        · obtain ⟨g0, hg0, hc⟩ := hT n g' hp
          rw [hget] at hg0
          have := Option.some.inj hg0; subst this
          rcases hc with hc | hc
          · have hns := hvis n (C01.orderedGlyphs_mem gs order ho n g hget) g' hp
            rw [hc] at hns
            rw [hc]
            have hmap : g.comps.map (fun k => (⟨k.base, Affine.id.compose k.t⟩ : Comp)) = g.comps := by
              rw [map_congr_left (g := fun k => k) (fun k _ => by rw [Affine.id_compose])]; simp
            have := (expands_flat gs skip Affine.id g.comps _ hns).mpr rfl
            rw [hmap] at this; exact this
          · exact hc

/-- the flags theorems for any pair of component lists related by `ExpandsL` -/
theorem effAdv_of_expands (gs : GlyphSet) (skip : List String) (ks r : List Comp) (advF advC : String → Option Int)
    (own : Int) (us : List CLib) (plain : Comp → Bool)
    (he : ExpandsL gs skip Affine.id ks r)
    (hone : ∀ k ∈ ks, One gs skip Affine.id k)
    (hadv : ∀ n, skip.contains n = false → advF n = advC n)
    (hm : MetricsKept skip us ks) :
    effOf advF own (setCompositeFlags advF own us (ks.map (ttOf plain))) =
      effOf advC own (setCompositeFlags advC own us (r.map (ttOf plain))) :=
  C13_flags_effAdv advF advC own us _ _
    (sameSlots_of_inPlace advF advC gs skip Affine.id plain us ks r
      ((inPlace_iff_one gs skip Affine.id ks r he).mpr hone)
      (metricsSlots_of_kept advF advC gs skip Affine.id hadv us ks hm))

/-- **C13_slots_filter** (end to end, no `SameSlots` hypothesis, hypotheses on the SOURCE only): let `st` be what the model of
    `SkipExportGlyphsFilter` returns on the glyph set `gs`, `g` a remaining glyph of `gs` and `g'` the glyph `st` has under its
    name.  If every component of `g` that refers to a skipped glyph expands (w.r.t. `gs`, through nested skipped glyphs) to
    exactly ONE component, `useMyMetrics` is not asked of such a reference, and the glyphs that are not skipped have the same
    `hmtx` advance in both fonts, then the advance a rasteriser uses for the glyph compiled from `g'` - flags set by
    `_set_composite_flags` from the hinting data `us` of the ORIGINAL glyph, paired by index - is the advance it uses for
    the glyph compiled from `g`. -/
theorem C13_slots_filter (skip : List String) (gs : GlyphSet) (st : FState) (hn : Named gs)
    (h : skipExport skip (fun _ => true) gs = .ok st)
    (n : String) (g : Glyph) (hsk : skip.contains n = false) (hget : gs.get? n = some g)
    (advF advC : String → Option Int) (own : Int) (us : List CLib) (plain : Comp → Bool)
    (hone : ∀ k ∈ g.comps, One gs skip Affine.id k)
    (hadv : ∀ n, skip.contains n = false → advF n = advC n)
    (hm : MetricsKept skip us g.comps) :
    ∃ g', st.gs.get? n = some g' ∧ g'.comps.length = g.comps.length ∧
      effOf advF own (setCompositeFlags advF own us (g.comps.map (ttOf plain))) =
        effOf advC own (setCompositeFlags advC own us (g'.comps.map (ttOf plain))) := by
  obtain ⟨g', hg', he⟩ := skipExport_expands skip gs st hn h n g hsk hget
  exact ⟨g', hg', one_length gs skip Affine.id g.comps g'.comps he hone,
    effAdv_of_expands gs skip g.comps g'.comps advF advC own us plain he hone hadv hm⟩

/-- **C13_slots_filter_count**: … and if some reference does NOT expand to exactly one component (none expanding to nothing;
    hinting data for every component), the filter's output has another number of components and the rasteriser's advance
    of the compiled glyph is the glyph's own, whatever the UFO asked for -/
theorem C13_slots_filter_count (skip : List String) (gs : GlyphSet) (st : FState) (hn : Named gs)
    (h : skipExport skip (fun _ => true) gs = .ok st)
    (n : String) (g : Glyph) (hsk : skip.contains n = false) (hget : gs.get? n = some g)
    (adv : String → Option Int) (own : Int) (us : List CLib) (plain : Comp → Bool)
    (hus : us.length = g.comps.length)
    (hne : ∀ k ∈ g.comps, ∀ p, ExpandsL gs skip Affine.id [k] p → p ≠ [])
    (hnot : ¬ ∀ k ∈ g.comps, One gs skip Affine.id k) :
    ∃ g', st.gs.get? n = some g' ∧ g'.comps.length ≠ g.comps.length ∧
      effOf adv own (setCompositeFlags adv own us (g'.comps.map (ttOf plain))) = some own := by
  obtain ⟨g', hg', he⟩ := skipExport_expands skip gs st hn h n g hsk hget
  have hl : g'.comps.length ≠ g.comps.length :=
    fun hl => hnot ((length_eq_iff_one gs skip Affine.id g.comps g'.comps he hne).mp hl)
  refine ⟨g', hg', hl, C13_flags_count_changed adv own us _ (by rw [length_map, hus]; exact hl) ?_⟩
  intro d hd
  obtain ⟨k, _, rfl⟩ := mem_map.mp hd
  rfl

/-- **C13_slots_filter_total**: no success hypothesis either - on a well-formed closed glyph set (`WF`: acyclic, stored under
    their names, distinct keys, no dangling reference; certified by the decidable `wfCert`) the filter returns (`skipExport_ok`)
    and the conclusion of `C13_slots_filter` holds of what it returns -/
theorem C13_slots_filter_total (skip : List String) (gs : GlyphSet) (rank : String → Nat) (hw : Ufo2ft.WF gs rank)
    (n : String) (g : Glyph) (hsk : skip.contains n = false) (hget : gs.get? n = some g)
    (advF advC : String → Option Int) (own : Int) (us : List CLib) (plain : Comp → Bool)
    (hone : ∀ k ∈ g.comps, One gs skip Affine.id k)
    (hadv : ∀ n, skip.contains n = false → advF n = advC n)
    (hm : MetricsKept skip us g.comps) :
    ∃ st g', skipExport skip (fun _ => true) gs = .ok st ∧ st.gs.get? n = some g' ∧
      g'.comps.length = g.comps.length ∧
      effOf advF own (setCompositeFlags advF own us (g.comps.map (ttOf plain))) =
        effOf advC own (setCompositeFlags advC own us (g'.comps.map (ttOf plain))) := by
  obtain ⟨st, h, _⟩ := skipExport_ok skip gs rank hw.ranked hw.named hw.nodup hw.closed
  obtain ⟨g', h1, h2, h3⟩ := C13_slots_filter skip gs st hw.named h n g hsk hget advF advC own us plain hone hadv hm
  exact ⟨st, g', h, h1, h2, h3⟩

/-! ### witnesses -/

def sGlyph (n : String) (w : Q) (cs : List Contour) (ks : List Comp) : Glyph := ⟨n, w, 0, cs, ks, []⟩
def sBox : Contour := [⟨0, 0, some .line⟩, ⟨10, 0, some .line⟩, ⟨10, 10, some .line⟩]
def sShift : Affine := ⟨1, 0, 0, 1, 100, 0⟩
def sAacute : Glyph := sGlyph "aacute" 560 [] [⟨"_alias", sShift⟩, ⟨"a", Affine.id⟩]
/-- `_alias` = one component; `_two` = two components; `_dot` = contours only -/
def sGS : GlyphSet :=
  [("a", sGlyph "a" 560 [sBox] []), ("acutecomb", sGlyph "acutecomb" 0 [sBox] []),
   ("_alias", sGlyph "_alias" 0 [] [⟨"acutecomb", Affine.id⟩]),
   ("_two", sGlyph "_two" 0 [] [⟨"acutecomb", Affine.id⟩, ⟨"acutecomb", sShift⟩]),
   ("_dot", sGlyph "_dot" 0 [sBox] []),
   ("aacute", sAacute)]
def sSkip : List String := ["_alias", "_two", "_dot"]

theorem sAlias_one : One sGS sSkip Affine.id ⟨"_alias", sShift⟩ :=
  (one_inl_flat_iff sGS sSkip Affine.id ⟨"_alias", sShift⟩ (sGlyph "_alias" 0 [] [⟨"acutecomb", Affine.id⟩])
    (by decide) (by decide +kernel) (by decide)).mpr rfl

theorem sAacute_dec : decomposeGlyph sGS false (some sSkip) sAacute =
    .ok (sGlyph "aacute" 560 [] [⟨"acutecomb", sShift⟩, ⟨"a", Affine.id⟩]) := by
  have h : (decomposeGlyph sGS false (some sSkip) sAacute).toOption =
      some (sGlyph "aacute" 560 [] [⟨"acutecomb", sShift⟩, ⟨"a", Affine.id⟩]) := by
    rw [decomposeGlyph_eqK]; decide +kernel
  cases hd : decomposeGlyph sGS false (some sSkip) sAacute with
  | error e => rw [hd] at h; simp [Except.toOption] at h
  | ok g' => rw [hd] at h; simp only [Except.toOption, Option.some.injEq] at h; rw [h]

/-- the hypotheses of `C13_slots_effAdv_kept` are met by aacute = [_alias, a] with `useMyMetrics` on `a`, `_alias` skipped -/
example : ∃ g', decomposeGlyph sGS false (some sSkip) sAacute = .ok g' ∧
    (∀ k ∈ sAacute.comps, One sGS sSkip Affine.id k) ∧ MetricsKept sSkip wLib sAacute.comps ∧
    g'.comps.map (·.base) = ["acutecomb", "a"] := by
  refine ⟨sGlyph "aacute" 560 [] [⟨"acutecomb", sShift⟩, ⟨"a", Affine.id⟩], sAacute_dec, ?_,
    by simp [MetricsKept, wLib, sAacute, sGlyph, sSkip], by decide +kernel⟩
  intro k hk
  simp only [sAacute, sGlyph, mem_cons, not_mem_nil, or_false] at hk
  rcases hk with rfl | rfl
  · exact sAlias_one
  · exact one_kept _ _ _ _ (by decide)

theorem sGS_cert : wfCert sGS = true := by decide +kernel

theorem sAacute_one : ∀ k ∈ sAacute.comps, One sGS sSkip Affine.id k := by
  intro k hk
  simp only [sAacute, sGlyph, mem_cons, not_mem_nil, or_false] at hk
  rcases hk with rfl | rfl
  · exact sAlias_one
  · exact one_kept _ _ _ _ (by decide)

/-- the hypotheses of `C13_slots_filter` / `C13_slots_filter_total` are met by the glyph set above (the filter's result EXISTS
    by the totality theorem; nothing is `#eval`-ed): aacute = [_alias, a] keeps its two slots and the advance 560 of `a` -/
example : ∃ st g', skipExport sSkip (fun _ => true) sGS = .ok st ∧ st.gs.get? "aacute" = some g' ∧
    g'.comps.length = 2 ∧
    effOf wAdv 560 (setCompositeFlags wAdv 560 wLib (g'.comps.map (ttOf (fun _ => true)))) = some 560 := by
  obtain ⟨st, g', h, h1, h2, h3⟩ := C13_slots_filter_total sSkip sGS _ (wfCert_sound sGS sGS_cert).2.1 "aacute" sAacute
    (by decide) (by decide +kernel) wAdv wAdv 560 wLib (fun _ => true) sAacute_one (fun _ _ => rfl)
    (by simp [MetricsKept, wLib, sAacute, sGlyph, sSkip])
  refine ⟨st, g', h, h1, h2, ?_⟩
  rw [← h3]; decide +kernel

/-- the hypotheses of `C13_slots_count_changed` are met by [_two, a]: the reference to `_two` expands to two components -/
example : (∀ k ∈ [(⟨"_two", sShift⟩ : Comp), ⟨"a", Affine.id⟩], ∀ p, ExpandsL sGS sSkip Affine.id [k] p → p ≠ []) ∧
    ¬ ∀ k ∈ [(⟨"_two", sShift⟩ : Comp), ⟨"a", Affine.id⟩], One sGS sSkip Affine.id k := by
  have h2 : ∀ p, ExpandsL sGS sSkip Affine.id [(⟨"_two", sShift⟩ : Comp)] p → p.length = 2 := by
    intro p hp
    have := (expands_flat sGS sSkip _ _ p (by decide)).mp
      ((expands_inl_iff sGS sSkip Affine.id ⟨"_two", sShift⟩
        (sGlyph "_two" 0 [] [⟨"acutecomb", Affine.id⟩, ⟨"acutecomb", sShift⟩]) p (by decide) (by decide +kernel)).mp hp)
    rw [this]; rfl
  constructor
  · intro k hk p hp
    simp only [mem_cons, not_mem_nil, or_false] at hk
    rcases hk with rfl | rfl
    · intro hp0; have := h2 p hp; rw [hp0] at this; cases this
    · have := (expands_kept_iff sGS sSkip Affine.id ⟨"a", Affine.id⟩ p (by decide)).mp hp
      rw [this]; simp
  · intro hall
    obtain ⟨d, hd⟩ := hall ⟨"_two", sShift⟩ (by simp)
    have := h2 [d] hd
    cases this

/-- the proviso of `length_eq_iff_one` is needed: [_dot, _two] (a skipped glyph of contours only, a skipped glyph of two
    components) expands to two components - the count is unchanged - yet no reference stays in its slot -/
theorem count_same_not_inPlace :
    ∃ r, ExpandsL sGS sSkip Affine.id [⟨"_dot", Affine.id⟩, ⟨"_two", Affine.id⟩] r ∧ r.length = 2 ∧
      ¬ InPlace sGS sSkip Affine.id [⟨"_dot", Affine.id⟩, ⟨"_two", Affine.id⟩] r := by
  have hdot : ExpandsL sGS sSkip Affine.id [(⟨"_dot", Affine.id⟩ : Comp)] [] :=
    (expands_inl_iff sGS sSkip Affine.id ⟨"_dot", Affine.id⟩ (sGlyph "_dot" 0 [sBox] []) [] (by decide)
      (by decide +kernel)).mpr (ExpandsL.nil _)
  have htwo := (expands_inl_iff sGS sSkip Affine.id ⟨"_two", Affine.id⟩
      (sGlyph "_two" 0 [] [⟨"acutecomb", Affine.id⟩, ⟨"acutecomb", sShift⟩]) _ (by decide) (by decide +kernel)).mpr
      ((expands_flat sGS sSkip _ _ _ (by decide)).mpr rfl)
  refine ⟨_, (expands_cons_iff _ _ _ _ _ _).mpr ⟨_, _, hdot, htwo, rfl⟩, rfl, ?_⟩
  intro hp
  have := hdot.det hp.1
  cases this

end Ufo2ft.C13
