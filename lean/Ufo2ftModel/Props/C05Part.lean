import Ufo2ftModel.Props.C05Order
import Ufo2ftModel.Props.C05Groups
/-! C05, part 6b: `partitionByScript` — every direction cell of a pair matches a subset of what the pair matches, keeps value and
    specificity, and (for glyphs whose scripts all share one direction) different cells never match the same glyph pair. -/
namespace Ufo2ft.C05
open Ufo2ft List

/-! ### the dict direction → glyphs -/

/-- invariant of the dict built by `sideDirections`: distinct keys; every listed glyph is one of `G` and has a script of
    that direction; no empty entry -/
def DirInv (c : Ctx) (G : List String) (d : List (String × List String)) : Prop :=
  (d.map (·.1)).Nodup ∧ ∀ e ∈ d, e.2 ≠ [] ∧ ∀ x ∈ e.2, x ∈ G ∧ ∃ s ∈ c.resolved x, c.dir s = e.1

theorem addDir_inv (c : Ctx) (G : List String) (d : List (String × List String)) (g s : String)
    (hg : g ∈ G) (hs : s ∈ c.resolved g) (h : DirInv c G d) : DirInv c G (addDir d (c.dir s) g) := by
  unfold addDir
  cases hl : alookup (c.dir s) d with
  | some v =>
    dsimp only
    refine ⟨?_, ?_⟩
    · rw [map_map]
      have : ((fun x : String × List String => x.1) ∘ fun e : String × List String =>
          if e.1 == c.dir s then (e.1, if e.2.contains g then e.2 else e.2 ++ [g]) else e) = (·.1) := by
        funext e; simp only [Function.comp]; split <;> rfl
      rw [this]; exact h.1
    · intro e he
      obtain ⟨e0, he0, rfl⟩ := mem_map.mp he
      obtain ⟨hne, hall⟩ := h.2 e0 he0
      split
      · rename_i hk
        have hk' : e0.1 = c.dir s := by simpa using hk
        dsimp only
        split
        · exact ⟨hne, hall⟩
        · refine ⟨by simp, ?_⟩
          intro x hx
          rcases mem_append.mp hx with hx | hx
          · exact hall x hx
          · simp only [mem_singleton] at hx; subst hx; exact ⟨hg, s, hs, hk'.symm⟩
      · exact ⟨hne, hall⟩
  | none =>
    dsimp only
    have hnk := (alookup_eq_none_iff _ _).mp hl
    refine ⟨?_, ?_⟩
    · rw [map_append, nodup_append]
      refine ⟨h.1, by simp, ?_⟩
      intro a ha b hb
      simp only [map_cons, map_nil, mem_singleton] at hb
      subst hb
      obtain ⟨e, he, rfl⟩ := mem_map.mp ha
      exact hnk e he
    · intro e he
      rcases mem_append.mp he with he | he
      · exact h.2 e he
      · simp only [mem_singleton] at he; subst he
        refine ⟨by simp, ?_⟩
        intro x hx
        simp only [mem_singleton] at hx; subst hx
        exact ⟨hg, s, hs, rfl⟩

theorem sideDirections_inv (c : Ctx) (G : List String) : ∀ (glyphs : List String) (d : List (String × List String)),
    (∀ g ∈ glyphs, g ∈ G) → DirInv c G d →
    DirInv c G (glyphs.foldl (fun d g => (sortStr (c.resolved g)).foldl (fun d s => addDir d (c.dir s) g) d) d) := by
  intro glyphs
  induction glyphs with
  | nil => intro d _ h; exact h
  | cons g gs ih =>
    intro d hG h
    rw [foldl_cons]
    apply ih _ (fun x hx => hG x (mem_cons_of_mem _ hx))
    have hg : g ∈ G := hG g mem_cons_self
    -- inner loop over the scripts of g
    have inner : ∀ (ss : List String) (d : List (String × List String)), (∀ s ∈ ss, s ∈ c.resolved g) → DirInv c G d →
        DirInv c G (ss.foldl (fun d s => addDir d (c.dir s) g) d) := by
      intro ss
      induction ss with
      | nil => intro d _ h; exact h
      | cons s ss ih2 =>
        intro d hss h
        rw [foldl_cons]
        exact ih2 _ (fun x hx => hss x (mem_cons_of_mem _ hx)) (addDir_inv c G d g s hg (hss s mem_cons_self) h)
    exact inner _ d (fun s hs => (sortStr_perm _).mem_iff.mp hs) h

theorem sideDirections_spec (c : Ctx) (glyphs : List String) : DirInv c glyphs (sideDirections c glyphs) :=
  sideDirections_inv c glyphs glyphs [] (fun _ h => h) ⟨by simp, by intro e he; cases he⟩

/-! ### the cells -/

def cellOf (c : Ctx) (p : KPair) (e : (String × List String) × (String × List String)) : Option (List String × KPair) :=
  let e1 := e.1
  let e2 := e.2
  let local1 : Side := if p.side1.isClass then .cls (sortStr e1.2) else .glyph (e1.2.headD "")
  let local2 : Side := if p.side2.isClass then .cls (sortStr e2.2) else .glyph (e2.2.headD "")
  let s1 := local1.glyphs.foldl (fun acc g => unionStr acc (c.resolved g)) []
  let s2 := local2.glyphs.foldl (fun acc g => unionStr acc (c.resolved g)) []
  if e1.1 != e2.1 && e1.1 != "Auto" && e2.1 != "Auto" then none
  else
    let scripts := unionStr s1 s2
    let scripts := if s1.contains COMMON && s2.contains COMMON then scripts
                   else scripts.filter (· != COMMON)
    some (sortStr scripts, ⟨local1, local2, p.value⟩)

theorem partitionByScript_eq (c : Ctx) (p : KPair) :
    partitionByScript c p =
      ((sideDirections c p.side1.glyphs).flatMap (fun e1 => (sideDirections c p.side2.glyphs).map (fun e2 => (e1, e2)))).filterMap
        (cellOf c p) := rfl

theorem headD_mem (l : List String) (h : l ≠ []) : l.headD "" ∈ l := by
  cases l with
  | nil => exact absurd rfl h
  | cons a _ => exact mem_cons_self

/-- the local side of a cell lists only glyphs of the dict entry it was made from -/
theorem local_sub (isCls : Bool) (gl : List String) (hne : gl ≠ []) (g : String)
    (h : g ∈ (if isCls then Side.cls (sortStr gl) else Side.glyph (gl.headD "")).glyphs) : g ∈ gl := by
  cases isCls with
  | true => simp only [if_true, Side.glyphs] at h; exact (sortStr_perm gl).mem_iff.mp h
  | false =>
    simp only [Bool.false_eq_true, if_false, Side.glyphs, mem_singleton] at h
    subst h; exact headD_mem gl hne

theorem cellOf_some (c : Ctx) (p : KPair) (e : (String × List String) × (String × List String)) (k : List String) (sp : KPair)
    (h : cellOf c p e = some (k, sp)) :
    sp.side1 = (if p.side1.isClass then Side.cls (sortStr e.1.2) else Side.glyph (e.1.2.headD "")) ∧
    sp.side2 = (if p.side2.isClass then Side.cls (sortStr e.2.2) else Side.glyph (e.2.2.headD "")) ∧
    sp.value = p.value ∧ ¬(e.1.1 ≠ e.2.1 ∧ e.1.1 ≠ "Auto" ∧ e.2.1 ≠ "Auto") := by
  unfold cellOf at h
  dsimp only at h
  split at h
  · cases h
  · rename_i hmix
    simp only [Option.some.injEq, Prod.mk.injEq] at h
    obtain ⟨_, rfl⟩ := h
    refine ⟨rfl, rfl, rfl, ?_⟩
    intro hh; apply hmix
    simp [hh.1, hh.2.1, hh.2.2]

theorem isClass_local (isCls : Bool) (gl : List String) :
    (if isCls then Side.cls (sortStr gl) else Side.glyph (gl.headD "")).isClass = isCls := by
  cases isCls <;> rfl

theorem mem_product {α β : Type} (l1 : List α) (l2 : List β) (a : α) (b : β) :
    (a, b) ∈ l1.flatMap (fun x => l2.map (fun y => (x, y))) ↔ a ∈ l1 ∧ b ∈ l2 := by
  simp only [mem_flatMap, mem_map, Prod.mk.injEq]
  constructor
  · rintro ⟨x, hx, y, hy, rfl, rfl⟩; exact ⟨hx, hy⟩
  · rintro ⟨ha, hb⟩; exact ⟨a, ha, b, hb, rfl, rfl⟩

/-- Target 6 (partition, soundness): a split pair has the value and specificity of its source pair, matches only glyph pairs
    the source pair matches, pairs each glyph with a script of the cell's direction, and is never of two opposite directions -/
theorem partition_sound (c : Ctx) (p : KPair) (k : List String) (sp : KPair) (h : (k, sp) ∈ partitionByScript c p) :
    sp.value = p.value ∧ level sp = level p ∧
    (∀ g1 g2, Matches sp g1 g2 → Matches p g1 g2) ∧
    ∃ d1 d2, ¬(d1 ≠ d2 ∧ d1 ≠ "Auto" ∧ d2 ≠ "Auto") ∧
      ∀ g1 g2, Matches sp g1 g2 → (∃ s ∈ c.resolved g1, c.dir s = d1) ∧ (∃ s ∈ c.resolved g2, c.dir s = d2) := by
  rw [partitionByScript_eq, mem_filterMap] at h
  obtain ⟨⟨e1, e2⟩, he, hc⟩ := h
  rw [mem_product] at he
  obtain ⟨h1, h2, h3, h4⟩ := cellOf_some c p (e1, e2) k sp hc
  dsimp only at h1 h2 h4
  obtain ⟨n1, a1⟩ := (sideDirections_spec c p.side1.glyphs).2 e1 he.1
  obtain ⟨n2, a2⟩ := (sideDirections_spec c p.side2.glyphs).2 e2 he.2
  have m1 : ∀ g, g ∈ sp.side1.glyphs → g ∈ e1.2 := fun g hg => local_sub _ e1.2 n1 g (h1 ▸ hg)
  have m2 : ∀ g, g ∈ sp.side2.glyphs → g ∈ e2.2 := fun g hg => local_sub _ e2.2 n2 g (h2 ▸ hg)
  refine ⟨h3, ?_, ?_, e1.1, e2.1, h4, ?_⟩
  · simp only [level, h1, h2, isClass_local]
  · intro g1 g2 hm; exact ⟨(a1 g1 (m1 g1 hm.1)).1, (a2 g2 (m2 g2 hm.2)).1⟩
  · intro g1 g2 hm; exact ⟨(a1 g1 (m1 g1 hm.1)).2, (a2 g2 (m2 g2 hm.2)).2⟩

/-! ### completeness: every compatible glyph pair of the source pair is in some cell -/

/-- `g` is listed under direction `k` -/
def Listed (d : List (String × List String)) (k g : String) : Prop := ∃ e ∈ d, e.1 = k ∧ g ∈ e.2

theorem addDir_listed (d : List (String × List String)) (dr g : String) :
    Listed (addDir d dr g) dr g ∧ ∀ k x, Listed d k x → Listed (addDir d dr g) k x := by
  unfold addDir
  cases hl : alookup dr d with
  | some v =>
    dsimp only
    have hin := mem_of_alookup dr v d hl
    constructor
    · refine ⟨_, mem_map_of_mem hin, ?_⟩
      simp only [beq_self_eq_true, if_true, true_and]
      split
      · rename_i hc; simpa using hc
      · simp
    · rintro k x ⟨e, he, hk, hx⟩
      refine ⟨_, mem_map_of_mem he, ?_⟩
      split
      · refine ⟨hk, ?_⟩
        dsimp only
        split
        · exact hx
        · exact mem_append_left _ hx
      · exact ⟨hk, hx⟩
  | none =>
    dsimp only
    constructor
    · exact ⟨(dr, [g]), by simp, rfl, by simp⟩
    · rintro k x ⟨e, he, hk, hx⟩
      exact ⟨e, mem_append_left _ he, hk, hx⟩

theorem sideDirections_listed (c : Ctx) : ∀ (glyphs : List String) (d : List (String × List String)),
    (∀ k x, Listed d k x → Listed (glyphs.foldl (fun d g => (sortStr (c.resolved g)).foldl (fun d s => addDir d (c.dir s) g) d) d) k x) ∧
    (∀ g ∈ glyphs, ∀ s ∈ c.resolved g,
      Listed (glyphs.foldl (fun d g => (sortStr (c.resolved g)).foldl (fun d s => addDir d (c.dir s) g) d) d) (c.dir s) g) := by
  intro glyphs
  induction glyphs with
  | nil => intro d; exact ⟨fun k x h => h, fun g hg => by cases hg⟩
  | cons g gs ih =>
    intro d
    rw [foldl_cons]
    have inner : ∀ (ss : List String) (d : List (String × List String)),
        (∀ k x, Listed d k x → Listed (ss.foldl (fun d s => addDir d (c.dir s) g) d) k x) ∧
        (∀ s ∈ ss, Listed (ss.foldl (fun d s => addDir d (c.dir s) g) d) (c.dir s) g) := by
      intro ss
      induction ss with
      | nil => intro d; exact ⟨fun k x h => h, fun s hs => by cases hs⟩
      | cons s ss ih2 =>
        intro d
        rw [foldl_cons]
        obtain ⟨m, l⟩ := ih2 (addDir d (c.dir s) g)
        obtain ⟨a1, a2⟩ := addDir_listed d (c.dir s) g
        refine ⟨fun k x h => m k x (a2 k x h), ?_⟩
        intro s' hs'
        rcases mem_cons.mp hs' with rfl | hs'
        · exact m _ _ a1
        · exact l s' hs'
    obtain ⟨m1, l1⟩ := inner (sortStr (c.resolved g)) d
    obtain ⟨m2, l2⟩ := ih ((sortStr (c.resolved g)).foldl (fun d s => addDir d (c.dir s) g) d)
    refine ⟨fun k x h => m2 k x (m1 k x h), ?_⟩
    intro g' hg' s hs
    rcases mem_cons.mp hg' with rfl | hg'
    · exact m2 _ _ (l1 s ((sortStr_perm _).mem_iff.mpr hs))
    · exact l2 g' hg' s hs

theorem local_mem (sd : Side) (gl : List String) (g : String) (hg : g ∈ gl) (hsub : ∀ x ∈ gl, x ∈ sd.glyphs) :
    g ∈ (if sd.isClass then Side.cls (sortStr gl) else Side.glyph (gl.headD "")).glyphs := by
  cases sd with
  | cls gs => simp only [Side.isClass, if_true, Side.glyphs]; exact (sortStr_perm gl).mem_iff.mpr hg
  | glyph y =>
    simp only [Side.isClass, Bool.false_eq_true, if_false, Side.glyphs, mem_singleton]
    have hall : ∀ x ∈ gl, x = y := fun x hx => by simpa [Side.glyphs] using hsub x hx
    cases gl with
    | nil => cases hg
    | cons a t => simp only [headD_cons]; rw [hall g hg, hall a mem_cons_self]

/-- Target 6 (partition, completeness): a glyph pair matched by the source pair, with scripts of compatible directions (equal,
    or one of them "Auto"), is matched by a split pair — together with `partition_disjoint`: by exactly one, for
    single-direction glyphs -/
theorem partition_complete (c : Ctx) (p : KPair) (g1 g2 : String) (hm : Matches p g1 g2) (s1 s2 : String)
    (h1 : s1 ∈ c.resolved g1) (h2 : s2 ∈ c.resolved g2)
    (hcompat : ¬(c.dir s1 ≠ c.dir s2 ∧ c.dir s1 ≠ "Auto" ∧ c.dir s2 ≠ "Auto")) :
    ∃ x ∈ partitionByScript c p, Matches x.2 g1 g2 ∧ x.2.value = p.value := by
  obtain ⟨e1, he1, hk1, hg1⟩ := (sideDirections_listed c p.side1.glyphs []).2 g1 hm.1 s1 h1
  obtain ⟨e2, he2, hk2, hg2⟩ := (sideDirections_listed c p.side2.glyphs []).2 g2 hm.2 s2 h2
  have sub1 := fun x hx => (((sideDirections_spec c p.side1.glyphs).2 e1 he1).2 x hx).1
  have sub2 := fun x hx => (((sideDirections_spec c p.side2.glyphs).2 e2 he2).2 x hx).1
  rw [partitionByScript_eq]
  have hcell : ∃ k sp, cellOf c p (e1, e2) = some (k, sp) ∧
      sp.side1 = (if p.side1.isClass then Side.cls (sortStr e1.2) else Side.glyph (e1.2.headD "")) ∧
      sp.side2 = (if p.side2.isClass then Side.cls (sortStr e2.2) else Side.glyph (e2.2.headD "")) ∧ sp.value = p.value := by
    unfold cellOf
    dsimp only
    have hmix : (e1.1 != e2.1 && e1.1 != "Auto" && e2.1 != "Auto") = false := by
      rw [hk1, hk2]
      cases hb : (c.dir s1 != c.dir s2 && c.dir s1 != "Auto" && c.dir s2 != "Auto") with
      | false => rfl
      | true =>
        exfalso; apply hcompat
        have hb' : (¬c.dir s1 = c.dir s2 ∧ ¬c.dir s1 = "Auto") ∧ ¬c.dir s2 = "Auto" := by simpa using hb
        exact ⟨hb'.1.1, hb'.1.2, hb'.2⟩
    rw [hmix]
    exact ⟨_, _, rfl, rfl, rfl, rfl⟩
  obtain ⟨k, sp, hc, a1, a2, a3⟩ := hcell
  refine ⟨(k, sp), mem_filterMap.mpr ⟨(e1, e2), (mem_product _ _ e1 e2).mpr ⟨he1, he2⟩, hc⟩, ⟨?_, ?_⟩, a3⟩
  · rw [a1]; exact local_mem p.side1 e1.2 g1 hg1 sub1
  · rw [a2]; exact local_mem p.side2 e2.2 g2 hg2 sub2

/-- all scripts of the glyph are written in one direction -/
def uniDir (c : Ctx) (g : String) : Prop := ∀ s ∈ c.resolved g, ∀ s' ∈ c.resolved g, c.dir s = c.dir s'
instance (c : Ctx) (g : String) : Decidable (uniDir c g) :=
  inferInstanceAs (Decidable (∀ s ∈ c.resolved g, ∀ s' ∈ c.resolved g, c.dir s = c.dir s'))

theorem product_pairwise (d1 d2 : List (String × List String)) (h1 : (d1.map (·.1)).Nodup) (h2 : (d2.map (·.1)).Nodup) :
    (d1.flatMap (fun e1 => d2.map (fun e2 => (e1, e2)))).Pairwise (fun x y => x.1.1 ≠ y.1.1 ∨ x.2.1 ≠ y.2.1) := by
  induction d1 with
  | nil => exact Pairwise.nil
  | cons a d1 ih =>
    rw [map_cons, nodup_cons] at h1
    rw [flatMap_cons, pairwise_append]
    refine ⟨?_, ih h1.2, ?_⟩
    · rw [pairwise_map]
      have : d2.Pairwise (fun x y => x.1 ≠ y.1) := by
        have := h2; rw [Nodup, pairwise_map] at this; exact this
      exact this.imp (fun h => Or.inr h)
    · intro x hx y hy
      obtain ⟨b, _, rfl⟩ := mem_map.mp hx
      obtain ⟨a', ha', hy'⟩ := mem_flatMap.mp hy
      obtain ⟨b', _, rfl⟩ := mem_map.mp hy'
      left
      intro heq
      exact h1.1 (heq ▸ mem_map_of_mem (f := (·.1)) ha')

/-- Target 6 (partition, disjointness): for glyphs whose scripts all have one direction, two different direction cells of one
    source pair never match the same glyph pair — at most one split pair of a source pair applies to (g1, g2) -/
theorem partition_disjoint (c : Ctx) (p : KPair) (g1 g2 : String) (u1 : uniDir c g1) (u2 : uniDir c g2) :
    (partitionByScript c p).Pairwise (fun a b => ¬(Matches a.2 g1 g2 ∧ Matches b.2 g1 g2)) := by
  rw [partitionByScript_eq]
  have s1 := sideDirections_spec c p.side1.glyphs
  have s2 := sideDirections_spec c p.side2.glyphs
  have hpw := product_pairwise _ _ s1.1 s2.1
  -- strengthen with membership, then push through filterMap
  have hpw' : ((sideDirections c p.side1.glyphs).flatMap (fun e1 => (sideDirections c p.side2.glyphs).map (fun e2 => (e1, e2)))).Pairwise
      (fun x y => (x.1 ∈ sideDirections c p.side1.glyphs ∧ x.2 ∈ sideDirections c p.side2.glyphs) ∧
        (y.1 ∈ sideDirections c p.side1.glyphs ∧ y.2 ∈ sideDirections c p.side2.glyphs) ∧ (x.1.1 ≠ y.1.1 ∨ x.2.1 ≠ y.2.1)) := by
    rw [pairwise_iff_forall_sublist] at hpw ⊢
    intro x y hsub
    have hx : x ∈ _ := hsub.subset mem_cons_self
    have hy : y ∈ _ := hsub.subset (mem_cons_of_mem _ mem_cons_self)
    exact ⟨(mem_product _ _ x.1 x.2).mp hx, (mem_product _ _ y.1 y.2).mp hy, hpw hsub⟩
  refine Pairwise.filterMap (cellOf c p) ?_ hpw'
  intro x y ⟨hx, hy, hne⟩ a ha b hb ⟨ma, mb⟩
  obtain ⟨ka, spa⟩ := a
  obtain ⟨kb, spb⟩ := b
  obtain ⟨a1, a2, _, _⟩ := cellOf_some c p x ka spa (by simpa using ha)
  obtain ⟨b1, b2, _, _⟩ := cellOf_some c p y kb spb (by simpa using hb)
  dsimp only at ma mb
  have inx1 := local_sub _ x.1.2 (s1.2 x.1 hx.1).1 g1 (a1 ▸ ma.1)
  have inx2 := local_sub _ x.2.2 (s2.2 x.2 hx.2).1 g2 (a2 ▸ ma.2)
  have iny1 := local_sub _ y.1.2 (s1.2 y.1 hy.1).1 g1 (b1 ▸ mb.1)
  have iny2 := local_sub _ y.2.2 (s2.2 y.2 hy.2).1 g2 (b2 ▸ mb.2)
  obtain ⟨s, hs, hd⟩ := ((s1.2 x.1 hx.1).2 g1 inx1).2
  obtain ⟨s', hs', hd'⟩ := ((s1.2 y.1 hy.1).2 g1 iny1).2
  obtain ⟨t, ht, hdt⟩ := ((s2.2 x.2 hx.2).2 g2 inx2).2
  obtain ⟨t', ht', hdt'⟩ := ((s2.2 y.2 hy.2).2 g2 iny2).2
  rcases hne with hne | hne
  · exact hne (by rw [← hd, ← hd']; exact u1 s hs s' hs')
  · exact hne (by rw [← hdt, ← hdt']; exact u2 t ht t' ht')

/-- the hypothesis is needed: a glyph that belongs to a left-to-right and a right-to-left script (an unencoded glyph reached
    from both through GSUB) sits in the LTR and in the RTL cell; both cells match (x, x).  (The two cells carry the same rule
    and end up in the same script bucket, so this doubles nothing in the compiled lookup.) -/
def exBothCtx : Ctx := { glyphScripts := [("x", ["Arab", "Latn"])], scriptDir := [("Arab", "RTL"), ("Latn", "LTR")], bidiR := [], bidiL := [] }

theorem sortStr_pair (a b : String) (h : a ≤ b) : sortStr [a, b] = [a, b] := by
  unfold sortStr
  apply List.mergeSort_of_pairwise
  simp [strLe, h]

example : ¬ (partitionByScript exBothCtx ⟨.glyph "x", .glyph "x", 1⟩).Pairwise
    (fun a b => ¬(Matches a.2 "x" "x" ∧ Matches b.2 "x" "x")) := by
  simp [partitionByScript, sideDirections, Ctx.resolved, exBothCtx, alookup, DFLT_SCRIPTS, sortStr_pair "Arab" "Latn" (by decide),
    addDir, Ctx.dir, Side.glyphs, Side.isClass, unionStr, COMMON, Matches]

/-- non-vacuity: a Latin × (Latin + Arabic) class pair; "A" and "alef-ar" are single-direction glyphs -/
def exCtx : Ctx := { glyphScripts := [("A", ["Latn"]), ("V", ["Latn"]), ("alef-ar", ["Arab"])],
                     scriptDir := [("Arab", "RTL"), ("Latn", "LTR")], bidiR := ["alef-ar"], bidiL := ["A", "V"] }

example : (partitionByScript exCtx ⟨.cls ["A"], .cls ["V", "alef-ar"], -10⟩).Pairwise
    (fun a b => ¬(Matches a.2 "A" "V" ∧ Matches b.2 "A" "V")) :=
  partition_disjoint exCtx _ "A" "V" (by decide +kernel) (by decide +kernel)

example : ∃ x ∈ partitionByScript exCtx ⟨.cls ["A"], .cls ["V", "alef-ar"], -10⟩, Matches x.2 "A" "V" ∧ x.2.value = -10 :=
  partition_complete exCtx _ "A" "V" (by simp [Matches, Side.glyphs]) "Latn" "Latn" (by decide +kernel) (by decide +kernel)
    (by decide +kernel)

end Ufo2ft.C05
