import Ufo2ftModel.Props.C13VFMix
import Ufo2ftModel.Props.C09
/-!
C13 (variable fonts), part 3: **decomposition commutes with interpolation** when the 2×2 parts of the component
matrices are the same in the glyphs being interpolated (offsets free): drawing a component through the decomposing pen
in the interpolated glyph set gives the interpolation of what it gives in the two glyph sets.
-/
namespace Ufo2ft.C13
open Ufo2ft Ufo2ft.C09 List

/-! ### points, contours, reversal -/

theorem map_mixPt (s : Q) (T0 T1 : Affine) (h : T0.linear = T1.linear) (p q : Pt) :
    Pt.map (lerpAffine s T0 T1) (mixPt s p q) = mixPt s (Pt.map T0 p) (Pt.map T1 q) := by
  obtain ⟨h1, h2, h3, h4⟩ := linear_fields h
  simp only [Pt.map, mixPt, Affine.apply, lerpAffine, lerp, Pt.mk.injEq, and_true, ← h1, ← h2, ← h3, ← h4]
  constructor <;> grind

theorem map_mixContour (s : Q) (T0 T1 : Affine) (h : T0.linear = T1.linear) (c d : Contour) :
    Contour.map (lerpAffine s T0 T1) (mixContour s c d) = mixContour s (Contour.map T0 c) (Contour.map T1 d) := by
  simp only [Contour.map, mixContour, List.map_zipWith, List.zipWith_map, map_mixPt s T0 T1 h]

theorem retype_mix (s : Q) : ∀ (l1 l2 : List Pt) (last : Option Seg), contourShape l1 = contourShape l2 →
    retype (zipWith (mixPt s) l1 l2) last = zipWith (mixPt s) (retype l1 last) (retype l2 last)
  | [], [], _, _ => rfl
  | [], _ :: _, _, h => by simp [contourShape] at h
  | _ :: _, [], _, h => by simp [contourShape] at h
  | p :: l1, q :: l2, last, h => by
    simp only [contourShape, map_cons, cons.injEq] at h
    have ih := fun last' => retype_mix s l1 l2 last' h.2
    have hq : q.seg = p.seg := h.1.symm
    simp only [zipWith_cons_cons, retype]
    have hm : (mixPt s p q).seg = p.seg := rfl
    rw [hm, hq]
    cases hp : p.seg with
    | none => simp only [zipWith_cons_cons, ih]
    | some t => simp only [zipWith_cons_cons, ih]; rfl

theorem dropWhile_mix (s : Q) : ∀ (l1 l2 : List Pt), contourShape l1 = contourShape l2 →
    (zipWith (mixPt s) l1 l2).dropWhile (fun p => p.seg.isNone) =
      zipWith (mixPt s) (l1.dropWhile (fun p => p.seg.isNone)) (l2.dropWhile (fun p => p.seg.isNone))
  | [], [], _ => rfl
  | [], _ :: _, h => by simp [contourShape] at h
  | _ :: _, [], h => by simp [contourShape] at h
  | p :: l1, q :: l2, h => by
    simp only [contourShape, map_cons, cons.injEq] at h
    have ih := dropWhile_mix s l1 l2 h.2
    have hq : q.seg = p.seg := h.1.symm
    have hm : (mixPt s p q).seg = p.seg := rfl
    simp only [zipWith_cons_cons, dropWhile_cons, hm, hq]
    by_cases hn : p.seg.isNone = true
    · simp only [hn, if_true, ih]
    · simp only [hn, Bool.false_eq_true, if_false, zipWith_cons_cons]

theorem firstOnCurve_of_shape (l1 l2 : List Pt) (h : contourShape l1 = contourShape l2) :
    firstOnCurve l1 = firstOnCurve l2 := by
  rw [firstOn_shape, firstOn_shape, h]

theorem contourShape_reverse (l : List Pt) : contourShape l.reverse = (contourShape l).reverse := by
  simp only [contourShape, map_reverse]

theorem contourShape_dropWhile (l : List Pt) :
    contourShape (l.dropWhile (fun p => p.seg.isNone)) = (contourShape l).dropWhile Option.isNone := by
  simp only [contourShape, dropWhile_map]
  rfl

/-- reversal commutes with interpolation of contours that have the same point types -/
theorem reverseContour_mix (s : Q) (c d : Contour) (h : contourShape c = contourShape d) :
    reverseContour (mixContour s c d) = mixContour s (reverseContour c) (reverseContour d) := by
  cases c with
  | nil => cases d with
    | nil => rfl
    | cons _ _ => simp [contourShape] at h
  | cons p0 rest =>
    cases d with
    | nil => simp [contourShape] at h
    | cons q0 rest' =>
      have hlen : (p0 :: rest).length = (q0 :: rest').length := length_eq_of_map_eq h
      have h' := h
      simp only [contourShape, map_cons, cons.injEq] at h'
      have hrest : contourShape rest = contourShape rest' := h'.2
      have hlen' : rest.length = rest'.length := length_eq_of_map_eq hrest
      have hq : q0.seg = p0.seg := h'.1.symm
      have hm : (mixPt s p0 q0).seg = p0.seg := rfl
      simp only [mixContour, zipWith_cons_cons, reverseContour, hm, hq]
      by_cases hmv : p0.seg = some Seg.move
      · simp only [hmv, if_true]
        rw [← zipWith_cons_cons, List.reverse_zipWith hlen, dropWhile_mix, retype_mix]
        · rw [contourShape_dropWhile, contourShape_dropWhile, contourShape_reverse, contourShape_reverse, h]
        · rw [contourShape_reverse, contourShape_reverse, h]
      · simp only [hmv, if_false]
        have e : zipWith (mixPt s) rest rest' ++ [mixPt s p0 q0] = mixContour s (rest ++ [p0]) (rest' ++ [q0]) := by
          unfold mixContour
          rw [List.zipWith_append hlen']; rfl
        have hs : contourShape (rest ++ [p0]) = contourShape (rest' ++ [q0]) := by
          simp only [contourShape, map_append, map_cons, map_nil] at hrest ⊢
          rw [hrest, hq]
        rw [e, firstOnCurve_of_shape _ _ (contourShape_mix s _ _ hs), ← firstOnCurve_of_shape _ _ hs,
          List.reverse_zipWith hlen', ← zipWith_cons_cons, retype_mix]
        simp only [contourShape, map_cons, map_reverse] at hrest ⊢
        rw [hrest, hq]


/-! ### matrices -/

theorem det_of_linear {a b : Affine} (h : a.linear = b.linear) : a.det = b.det := by
  obtain ⟨h1, h2, h3, h4⟩ := linear_fields h
  simp only [Affine.det, h1, h2, h3, h4]

theorem compose_linear {T0 T1 A0 A1 : Affine} (hT : T0.linear = T1.linear) (hA : A0.linear = A1.linear) :
    (T0.compose A0).linear = (T1.compose A1).linear := by
  obtain ⟨h1, h2, h3, h4⟩ := linear_fields hT
  obtain ⟨g1, g2, g3, g4⟩ := linear_fields hA
  simp only [Affine.compose, Affine.linear, h1, h2, h3, h4, g1, g2, g3, g4]

/-- composing interpolated matrices = interpolating the composed ones, when the 2×2 parts do not vary -/
theorem compose_lerpAffine (s : Q) {T0 T1 A0 A1 : Affine} (hT : T0.linear = T1.linear) (hA : A0.linear = A1.linear) :
    (lerpAffine s T0 T1).compose (lerpAffine s A0 A1) = lerpAffine s (T0.compose A0) (T1.compose A1) := by
  obtain ⟨h1, h2, h3, h4⟩ := linear_fields hT
  obtain ⟨g1, g2, g3, g4⟩ := linear_fields hA
  simp only [Affine.compose, lerpAffine, lerp, Affine.mk.injEq, ← h1, ← h2, ← h3, ← h4, ← g1, ← g2, ← g3, ← g4]
  refine ⟨?_, ?_, ?_, ?_, ?_, ?_⟩ <;> grind

theorem lerpAffine_id (s : Q) : lerpAffine s Affine.id Affine.id = Affine.id := by
  simp only [lerpAffine, Affine.id, lerp_self]

/-! ### drawn contours -/

theorem drawContours_mix (s : Q) (T0 T1 : Affine) (h : T0.linear = T1.linear) (cs0 cs1 : List Contour)
    (hc : cs0.map contourShape = cs1.map contourShape) :
    drawContours true (lerpAffine s T0 T1) (zipWith (mixContour s) cs0 cs1) =
      zipWith (mixContour s) (drawContours true T0 cs0) (drawContours true T1 cs1) := by
  have hl : (lerpAffine s T0 T1).linear = T0.linear := lerpAffine_linear s T0 T1 h
  have d1 : (lerpAffine s T0 T1).det = T0.det := det_of_linear hl
  have d2 : T1.det = T0.det := (det_of_linear h).symm
  simp only [drawContours, d1, d2, List.map_zipWith, List.zipWith_map, Bool.true_and]
  apply zipWith_congr_of_map contourShape _ _ _ _ _ hc
  intro c d hcd
  by_cases hneg : T0.det < 0
  · simp only [hneg, decide_true, if_true]
    rw [reverseContour_mix s c d hcd, map_mixContour s T0 T1 h]
  · simp only [hneg, decide_false, Bool.false_eq_true, if_false]
    rw [map_mixContour s T0 T1 h]

theorem drawContours_shape_of_linear (T0 T1 : Affine) (h : T0.linear = T1.linear) (cs0 cs1 : List Contour)
    (hc : cs0.map contourShape = cs1.map contourShape) :
    (drawContours true T0 cs0).map contourShape = (drawContours true T1 cs1).map contourShape := by
  rw [drawContours_shape, drawContours_shape, det_of_linear h, hc]

/-! ### what the pen emits -/

def mixDrawn (s : Q) (d0 d1 : Drawn) : Drawn :=
  ⟨zipWith (mixContour s) d0.contours d1.contours, zipWith (lerpComp s) d0.comps d1.comps⟩

def AlikeD (d0 d1 : Drawn) : Prop :=
  d0.contours.map contourShape = d1.contours.map contourShape ∧ d0.comps.map ksh = d1.comps.map ksh

theorem mixDrawn_append (s : Q) (a0 a1 b0 b1 : Drawn) (ha : AlikeD a0 a1) :
    mixDrawn s (a0.append b0) (a1.append b1) = (mixDrawn s a0 a1).append (mixDrawn s b0 b1) := by
  simp only [mixDrawn, Drawn.append]
  rw [List.zipWith_append (length_eq_of_map_eq ha.1), List.zipWith_append (length_eq_of_map_eq ha.2)]

theorem alikeD_append {a0 a1 b0 b1 : Drawn} (ha : AlikeD a0 a1) (hb : AlikeD b0 b1) :
    AlikeD (a0.append b0) (a1.append b1) := by
  simp only [AlikeD, Drawn.append, map_append, ha.1, ha.2, hb.1, hb.2, and_self]

theorem inclNested_false (incl : Option (List String)) : inclNested false incl = incl := by
  cases incl <;> simp [inclNested]

/-- the glyph sets `G0`, `G1` and their interpolation `Gs`, as far as the pen can see from the names in `V` -/
def MixSets (s : Q) (G0 G1 Gs : GlyphSet) (incl : Option (List String)) (V : String → Prop) : Prop :=
  ∀ b, V b → isIncluded incl b = true → ∀ b0 b1, G0.get? b = some b0 → G1.get? b = some b1 →
    sh b0 = sh b1 ∧ Gs.get? b = some (mixGlyph s b0 b1) ∧ ∀ k ∈ b0.comps, V k.base

def MixOne (s : Q) (G0 G1 Gs : GlyphSet) (incl : Option (List String)) (V : String → Prop) (fuel : Nat) : Prop :=
  ∀ base T0 T1 d0 d1, V base → T0.linear = T1.linear →
    addComp fuel G0 true false incl base T0 = .ok d0 → addComp fuel G1 true false incl base T1 = .ok d1 →
    addComp fuel Gs true false incl base (lerpAffine s T0 T1) = .ok (mixDrawn s d0 d1) ∧ AlikeD d0 d1

def MixMany (s : Q) (G0 G1 Gs : GlyphSet) (incl : Option (List String)) (V : String → Prop) (fuel : Nat) : Prop :=
  ∀ T0 T1 ks0 ks1 d0 d1, (∀ k ∈ ks0, V k.base) → T0.linear = T1.linear → ks0.map ksh = ks1.map ksh →
    addComps fuel G0 true false incl T0 ks0 = .ok d0 → addComps fuel G1 true false incl T1 ks1 = .ok d1 →
    addComps fuel Gs true false incl (lerpAffine s T0 T1) (zipWith (lerpComp s) ks0 ks1) = .ok (mixDrawn s d0 d1) ∧
      AlikeD d0 d1

theorem mixMany_of_mixOne (s : Q) (G0 G1 Gs : GlyphSet) (incl : Option (List String)) (V : String → Prop) (fuel : Nat)
    (h1 : MixOne s G0 G1 Gs incl V fuel) : MixMany s G0 G1 Gs incl V fuel := by
  intro T0 T1 ks0
  induction ks0 with
  | nil =>
    intro ks1 d0 d1 _ _ hk h0 h1'
    cases ks1 with
    | cons _ _ => simp at hk
    | nil =>
      simp only [addComps] at h0 h1'
      have := Except.ok.inj h0; subst this
      have := Except.ok.inj h1'; subst this
      refine ⟨?_, rfl, rfl⟩
      simp only [zipWith_nil_left, addComps, mixDrawn]
  | cons k0 ks0 ih =>
    intro ks1 d0 d1 hV hT hk h0 h1'
    cases ks1 with
    | nil => simp at hk
    | cons k1 ks1 =>
      simp only [map_cons, cons.injEq] at hk
      have hb : k1.base = k0.base := (ksh_base hk.1).symm
      simp only [addComps] at h0 h1'
      cases ha0 : addComp fuel G0 true false incl k0.base (T0.compose k0.t) with
      | error e => rw [ha0] at h0; cases h0
      | ok a0 =>
        rw [ha0] at h0
        cases hr0 : addComps fuel G0 true false incl T0 ks0 with
        | error e => rw [hr0] at h0; cases h0
        | ok r0 =>
          rw [hr0] at h0
          have := Except.ok.inj h0; subst this
          rw [hb] at h1'
          cases ha1 : addComp fuel G1 true false incl k0.base (T1.compose k1.t) with
          | error e => rw [ha1] at h1'; cases h1'
          | ok a1 =>
            rw [ha1] at h1'
            cases hr1 : addComps fuel G1 true false incl T1 ks1 with
            | error e => rw [hr1] at h1'; cases h1'
            | ok r1 =>
              rw [hr1] at h1'
              have := Except.ok.inj h1'; subst this
              obtain ⟨e1, al1⟩ := h1 k0.base _ _ a0 a1 (hV k0 mem_cons_self)
                (compose_linear hT (ksh_linear hk.1)) ha0 ha1
              obtain ⟨e2, al2⟩ := ih ks1 r0 r1 (fun k hk' => hV k (mem_cons_of_mem _ hk')) hT hk.2 hr0 hr1
              refine ⟨?_, alikeD_append al1 al2⟩
              simp only [zipWith_cons_cons, addComps]
              have hbase : (lerpComp s k0 k1).base = k0.base := rfl
              have ht : (lerpComp s k0 k1).t = lerpAffine s k0.t k1.t := rfl
              rw [hbase, ht, compose_lerpAffine s hT (ksh_linear hk.1), e1, e2, mixDrawn_append s _ _ _ _ al1]

theorem mixOne_succ (s : Q) (G0 G1 Gs : GlyphSet) (incl : Option (List String)) (V : String → Prop)
    (hV : MixSets s G0 G1 Gs incl V) (fuel : Nat)
    (h2 : MixMany s G0 G1 Gs incl V fuel) : MixOne s G0 G1 Gs incl V (fuel + 1) := by
  intro base T0 T1 d0 d1 hVb hT h0 h1
  unfold addComp at h0 h1 ⊢
  by_cases hi : isIncluded incl base = true
  · rw [if_pos hi] at h0 h1 ⊢
    cases hb0 : G0.get? base with
    | none => rw [hb0] at h0; cases h0
    | some b0 =>
      cases hb1 : G1.get? base with
      | none => rw [hb1] at h1; cases h1
      | some b1 =>
        rw [hb0] at h0
        rw [hb1] at h1
        dsimp only at h0 h1
        rw [inclNested_false] at h0 h1
        obtain ⟨hsh, hGs, hVc⟩ := hV base hVb hi b0 b1 hb0 hb1
        rw [hGs]
        dsimp only
        rw [inclNested_false]
        cases hc0 : addComps fuel G0 true false incl T0 b0.comps with
        | error e => rw [hc0] at h0; cases h0
        | ok e0 =>
          rw [hc0] at h0
          have := Except.ok.inj h0; subst this
          cases hc1 : addComps fuel G1 true false incl T1 b1.comps with
          | error e => rw [hc1] at h1; cases h1
          | ok e1 =>
            rw [hc1] at h1
            have := Except.ok.inj h1; subst this
            obtain ⟨em, al⟩ := h2 T0 T1 b0.comps b1.comps e0 e1 hVc hT (sh_comps hsh) hc0 hc1
            have hcomps : (mixGlyph s b0 b1).comps = zipWith (lerpComp s) b0.comps b1.comps := rfl
            have hconts : (mixGlyph s b0 b1).contours = zipWith (mixContour s) b0.contours b1.contours := rfl
            rw [hcomps, em, hconts, drawContours_mix s T0 T1 hT _ _ (sh_contours hsh)]
            have hds := drawContours_shape_of_linear T0 T1 hT _ _ (sh_contours hsh)
            refine ⟨?_, ?_⟩
            · simp only [mixDrawn]
              rw [List.zipWith_append (length_eq_of_map_eq hds)]
            · exact ⟨by simp only [map_append, hds, al.1], al.2⟩
  · rw [if_neg hi] at h0 h1 ⊢
    have := Except.ok.inj h0; subst this
    have := Except.ok.inj h1; subst this
    refine ⟨rfl, rfl, ?_⟩
    simp only [map_cons, map_nil, ksh, hT]

theorem mix_all (s : Q) (G0 G1 Gs : GlyphSet) (incl : Option (List String)) (V : String → Prop)
    (hV : MixSets s G0 G1 Gs incl V) : ∀ fuel, MixOne s G0 G1 Gs incl V fuel ∧ MixMany s G0 G1 Gs incl V fuel := by
  intro fuel
  induction fuel with
  | zero =>
    have h0 : MixOne s G0 G1 Gs incl V 0 := by
      intro base T0 T1 d0 d1 _ _ h; simp only [addComp] at h; cases h
    exact ⟨h0, mixMany_of_mixOne s G0 G1 Gs incl V 0 h0⟩
  | succ n ih =>
    have h1 := mixOne_succ s G0 G1 Gs incl V hV n ih.2
    exact ⟨h1, mixMany_of_mixOne s G0 G1 Gs incl V (n + 1) h1⟩


/-! ### fuel and glyph-set independence of successful pen runs -/

theorem addComp_mono (gs : GlyphSet) (rf nested : Bool) :
    ∀ (fuel : Nat),
      (∀ incl base t d, addComp fuel gs rf nested incl base t = .ok d →
        ∀ fuel', fuel ≤ fuel' → addComp fuel' gs rf nested incl base t = .ok d) ∧
      (∀ incl t ks d, addComps fuel gs rf nested incl t ks = .ok d →
        ∀ fuel', fuel ≤ fuel' → addComps fuel' gs rf nested incl t ks = .ok d) := by
  intro fuel
  induction fuel with
  | zero =>
    have h1 : ∀ incl base t d, addComp 0 gs rf nested incl base t = .ok d →
        ∀ fuel', 0 ≤ fuel' → addComp fuel' gs rf nested incl base t = .ok d := by
      intro incl base t d h; simp only [addComp] at h; cases h
    refine ⟨h1, ?_⟩
    intro incl t ks
    induction ks with
    | nil => intro d h fuel' _; simp only [addComps] at h ⊢; exact h
    | cons k ks ih =>
      intro d h fuel' _
      simp only [addComps, addComp] at h
      cases h
  | succ n ih =>
    have h1 : ∀ incl base t d, addComp (n + 1) gs rf nested incl base t = .ok d →
        ∀ fuel', n + 1 ≤ fuel' → addComp fuel' gs rf nested incl base t = .ok d := by
      intro incl base t d h fuel' hle
      obtain ⟨m, rfl⟩ : ∃ m, fuel' = m + 1 := ⟨fuel' - 1, by omega⟩
      unfold addComp at h ⊢
      by_cases hi : isIncluded incl base = true
      · rw [if_pos hi] at h ⊢
        cases hb : gs.get? base with
        | none => rw [hb] at h; cases h
        | some b =>
          rw [hb] at h
          dsimp only at h ⊢
          cases hc : addComps n gs rf nested (inclNested nested incl) t b.comps with
          | error e => rw [hc] at h; cases h
          | ok d' =>
            rw [hc] at h
            rw [ih.2 _ _ _ d' hc m (by omega)]
            exact h
      · rw [if_neg hi] at h ⊢
        exact h
    refine ⟨h1, ?_⟩
    intro incl t ks
    induction ks with
    | nil => intro d h fuel' _; simp only [addComps] at h ⊢; exact h
    | cons k ks ihk =>
      intro d h fuel' hle
      simp only [addComps] at h ⊢
      cases ha : addComp (n + 1) gs rf nested incl k.base (t.compose k.t) with
      | error e => rw [ha] at h; cases h
      | ok a =>
        rw [ha] at h
        cases hr : addComps (n + 1) gs rf nested incl t ks with
        | error e => rw [hr] at h; cases h
        | ok r =>
          rw [hr] at h
          rw [h1 _ _ _ a ha fuel' hle, ihk r hr fuel' hle]
          exact h

/-- the pen only looks up included bases -/
theorem addComp_congr (L1 L2 : GlyphSet) (rf : Bool) (incl : Option (List String))
    (hL : ∀ b, isIncluded incl b = true → L1.get? b = L2.get? b) :
    ∀ (fuel : Nat),
      (∀ base t, addComp fuel L1 rf false incl base t = addComp fuel L2 rf false incl base t) ∧
      (∀ t ks, addComps fuel L1 rf false incl t ks = addComps fuel L2 rf false incl t ks) := by
  intro fuel
  induction fuel with
  | zero =>
    have h1 : ∀ base t, addComp 0 L1 rf false incl base t = addComp 0 L2 rf false incl base t := by
      intro base t; simp only [addComp]
    refine ⟨h1, ?_⟩
    intro t ks
    induction ks with
    | nil => simp only [addComps]
    | cons k ks ih => simp only [addComps, h1, ih]
  | succ n ih =>
    have h1 : ∀ base t, addComp (n + 1) L1 rf false incl base t = addComp (n + 1) L2 rf false incl base t := by
      intro base t
      unfold addComp
      by_cases hi : isIncluded incl base = true
      · rw [if_pos hi, if_pos hi, hL base hi]
        cases L2.get? base with
        | none => rfl
        | some b =>
          dsimp only
          rw [inclNested_false, ih.2]
      · rw [if_neg hi, if_neg hi]
    refine ⟨h1, ?_⟩
    intro t ks
    induction ks with
    | nil => simp only [addComps]
    | cons k ks ihk => simp only [addComps, h1, ihk]

/-- components whose bases are not included pass through unchanged -/
theorem addComps_pass (gs : GlyphSet) (rf nested : Bool) (incl : Option (List String)) (fuel : Nat) (t : Affine) :
    ∀ ks : List Comp, (∀ k ∈ ks, isIncluded incl k.base = false) →
      addComps (fuel + 1) gs rf nested incl t ks = .ok ⟨[], ks.map (fun k => ⟨k.base, t.compose k.t⟩)⟩ := by
  intro ks
  induction ks with
  | nil => intro _; simp only [addComps, map_nil]
  | cons k ks ih =>
    intro h
    have hk := h k mem_cons_self
    simp only [addComps, addComp, hk, Bool.false_eq_true, if_false, ih (fun k' hk' => h k' (mem_cons_of_mem _ hk')),
      Drawn.append, map_cons, nil_append, cons_append]

end Ufo2ft.C13
