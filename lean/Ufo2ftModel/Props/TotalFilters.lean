import Ufo2ftModel.Props.TotalGeom
import Ufo2ftModel.Props.C13
import Ufo2ftModel.Props.C01Skip
/-!
TOTALITY, part 2: a whole filter run (`runFilter step incl gs`) returns `.ok` on every well-formed (closed) glyph set, and
the result is again well-formed (closed): decompose, decomposeTransformed, skipExport, flatten.
(transformations and propagateAnchors: `Props/TotalFilters2.lean`.)
-/
namespace Ufo2ft
open List

/-! ### the loop of `BaseFilter.__call__`, generically -/

/-- Loop rule.  `I` = invariant of the glyph set, `E` = the errors a step may produce.  If every step on an included glyph
    of the set either succeeds keeping `I` or fails with an `E`-error, so does the loop over any list of keys. -/
theorem filterLoop_res (step : FState → Glyph → Except GErr (FState × Bool)) (incl : String → Bool)
    (I : GlyphSet → Prop) (E : GErr → Prop) (names0 : List String)
    (hnamed : ∀ gs, I gs → Named gs) (hnames : ∀ gs, I gs → gs.names = names0)
    (hstep : ∀ st g, I st.gs → st.gs.get? g.name = some g → incl g.name = true →
      (∃ st' r, step st g = .ok (st', r) ∧ I st'.gs) ∨ (∃ e, step st g = .error e ∧ E e)) :
    ∀ (order : List String) (st : FState), I st.gs → (∀ n ∈ order, n ∈ names0) →
      (∃ st', filterLoop step incl order st = .ok st' ∧ I st'.gs) ∨
      (∃ e, filterLoop step incl order st = .error e ∧ E e) := by
  intro order
  induction order with
  | nil => intro st hi _; exact Or.inl ⟨st, by simp only [filterLoop], hi⟩
  | cons n ns ih =>
    intro st hi hord
    have hord' : ∀ m ∈ ns, m ∈ names0 := fun m hm => hord m (mem_cons_of_mem _ hm)
    unfold filterLoop
    by_cases hm : st.modified.contains n = true
    · rw [if_pos hm]; exact ih st hi hord'
    · rw [if_neg hm]
      have hmem : n ∈ st.gs.names := by rw [hnames st.gs hi]; exact hord n mem_cons_self
      obtain ⟨g, hget⟩ := C15.mem_names_get st.gs n hmem
      rw [hget]
      dsimp only
      by_cases hin : incl n = true
      · rw [if_pos hin]
        have hname : g.name = n := hnamed st.gs hi n g hget
        rcases hstep st g hi (by rw [hname]; exact hget) (by rw [hname]; exact hin) with ⟨st1, r, hs, hi1⟩ | ⟨e, hs, he⟩
        · rw [hs]
          dsimp only
          by_cases hr : r = true
          · rw [if_pos hr]; exact ih _ hi1 hord'
          · rw [if_neg hr]; exact ih _ hi1 hord'
        · rw [hs]; exact Or.inr ⟨e, rfl, he⟩
      · rw [if_neg hin]; exact ih st hi hord'

/-- the same for `BaseFilter.__call__` as a whole: the traversal order exists (`orderedGlyphs_ok`) -/
theorem runFilter_res (step : FState → Glyph → Except GErr (FState × Bool)) (incl : String → Bool)
    (I : GlyphSet → Prop) (E : GErr → Prop) (gs : GlyphSet) (rank : String → Nat)
    (hr : Ranked gs rank) (hn : Named gs) (hnd : gs.names.Nodup)
    (hnamed : ∀ gs', I gs' → Named gs') (hnames : ∀ gs', I gs' → gs'.names = gs.names)
    (hstep : ∀ st g, I st.gs → st.gs.get? g.name = some g → incl g.name = true →
      (∃ st' r, step st g = .ok (st', r) ∧ I st'.gs) ∨ (∃ e, step st g = .error e ∧ E e))
    (h0 : I gs) :
    (∃ st, runFilter step incl gs = .ok st ∧ I st.gs) ∨ (∃ e, runFilter step incl gs = .error e ∧ E e) := by
  obtain ⟨order, ho, hp⟩ := orderedGlyphs_ok gs rank hr hn hnd
  unfold runFilter
  rw [ho]
  exact filterLoop_res step incl I E gs.names hnamed hnames hstep order ⟨gs, [], []⟩ h0
    (fun n hn' => hp.mem_iff.mp hn')

/-! ### what a filter keeps of the glyph set -/

/-- `gs` has the keys of `gs0`, its keys are its glyph names, and every acyclicity witness of `gs0` is one of `gs` -/
def Keeps (gs0 gs : GlyphSet) : Prop :=
  (∀ r, Ranked gs0 r → Ranked gs r) ∧ Named gs ∧ gs.names = gs0.names

theorem Keeps.refl {gs : GlyphSet} (hn : Named gs) : Keeps gs gs := ⟨fun _ h => h, hn, rfl⟩

theorem Keeps.trans {a b c : GlyphSet} (h1 : Keeps a b) (h2 : Keeps b c) : Keeps a c :=
  ⟨fun r hr => h2.1 r (h1.1 r hr), h2.2.1, h2.2.2.trans h1.2.2⟩

theorem Keeps.length {a b : GlyphSet} (h : Keeps a b) : b.length = a.length := names_length h.2.2

theorem Keeps.nodup {a b : GlyphSet} (h : Keeps a b) (hnd : a.names.Nodup) : b.names.Nodup := by rw [h.2.2]; exact hnd

theorem ranked_set (gs : GlyphSet) (r : String → Nat) (hr : Ranked gs r) (n : String) (g g' : Glyph)
    (hget : gs.get? n = some g) (hrk : ∀ k ∈ g'.comps, r k.base < r n) : Ranked (gs.set n g') r := by
  intro m h' hm k hk
  rw [get?_set gs n m g g' hget] at hm
  by_cases e : m = n
  · rw [if_pos e] at hm; have := Option.some.inj hm; subst this; rw [e]; exact hrk k hk
  · rw [if_neg e] at hm; exact hr m h' hm k hk

theorem Keeps.set {gs0 gs : GlyphSet} (h : Keeps gs0 gs) (n : String) (g g' : Glyph) (hget : gs.get? n = some g)
    (hname : g'.name = n) (hrk : ∀ r, Ranked gs r → ∀ k ∈ g'.comps, r k.base < r n) : Keeps gs0 (gs.set n g') :=
  ⟨fun r hr => ranked_set gs r (h.1 r hr) n g g' hget (hrk r (h.1 r hr)),
   named_set gs h.2.1 n g g' hget hname, by rw [set_names]; exact h.2.2⟩

theorem present_set (gs : GlyphSet) (n : String) (g' : Glyph) (x : String) :
    Present (gs.set n g') x ↔ Present gs x := present_of_names_eq (set_names gs n g') x

theorem closed_set (gs : GlyphSet) (hc : Closed gs) (n : String) (g g' : Glyph) (hget : gs.get? n = some g)
    (hp : ∀ k ∈ g'.comps, Present gs k.base) : Closed (gs.set n g') := by
  intro m h' hm k hk
  rw [present_set]
  rw [get?_set gs n m g g' hget] at hm
  by_cases e : m = n
  · rw [if_pos e] at hm; have := Option.some.inj hm; subst this; exact hp k hk
  · rw [if_neg e] at hm; exact hc m h' hm k hk

/-! ### decompose / decomposeTransformed / the decomposition phase of skipExport -/

/-- a decomposing step keeps the glyph set well-formed and closed -/
theorem decompStep_keeps (step : FState → Glyph → Except GErr (FState × Bool)) (hd : IsDecompStep step)
    (gs0 : GlyphSet) (st : FState) (g : Glyph) (st' : FState) (r : Bool) (h : step st g = .ok (st', r))
    (hget : st.gs.get? g.name = some g) (hk : Keeps gs0 st.gs) (hc : Closed st.gs) :
    Keeps gs0 st'.gs ∧ Closed st'.gs := by
  rcases hd st g st' r h with e | ⟨nested, incl, g', hdec, e⟩
  · rw [e]; exact ⟨hk, hc⟩
  · rw [e]
    have hpres := hc g.name g hget
    exact ⟨hk.set g.name g g' hget (decomposeGlyph_name st.gs nested incl g g' hdec)
        (fun r hr => decomposeGlyph_rank st.gs r hr nested incl g g' (r g.name) (hr g.name g hget) hdec),
      closed_set st.gs hc g.name g g' hget (decomposeGlyph_present st.gs hc nested incl g g' hpres hdec)⟩

/-- a step that fails only if `decomposeCompositeGlyph` fails -/
def DecompTotal (step : FState → Glyph → Except GErr (FState × Bool)) : Prop :=
  ∀ st g, (∀ nested incl, ∃ g', decomposeGlyph st.gs nested incl g = .ok g') → ∃ res, step st g = .ok res

theorem decomposeStep_total : DecompTotal decomposeStep := by
  intro st g h
  unfold decomposeStep
  by_cases he : g.comps.isEmpty = true
  · rw [if_pos he]; exact ⟨_, rfl⟩
  · rw [if_neg he]
    obtain ⟨g', hg'⟩ := h true none
    rw [hg']; exact ⟨_, rfl⟩

theorem decomposeTransformedStep_total : DecompTotal decomposeTransformedStep := by
  intro st g h
  unfold decomposeTransformedStep
  by_cases he : g.comps.any isTransformed = true
  · rw [if_pos he]; exact decomposeStep_total st g h
  · rw [if_neg he]; exact ⟨_, rfl⟩

theorem skipExportStep_total (skip : List String) : DecompTotal (skipExportStep skip) := by
  intro st g h
  unfold skipExportStep
  by_cases he : (g.comps.isEmpty || !(g.comps.any (fun k => skip.contains k.base))) = true
  · rw [if_pos he]; exact ⟨_, rfl⟩
  · rw [if_neg he]
    obtain ⟨g', hg'⟩ := h false (some skip)
    rw [hg']; exact ⟨_, rfl⟩

/-- **`runFilter_ok` for the decomposing filters** (DecomposeComponentsFilter, DecomposeTransformedComponentsFilter, the
    decomposition phase of SkipExportGlyphsFilter): for every acyclic, closed glyph set with distinct keys equal to the glyph
    names and every include predicate the whole run succeeds; the result has the same keys, is again closed, named, and
    every acyclicity witness of the input is one of the result. -/
theorem runFilter_decomp_ok (step : FState → Glyph → Except GErr (FState × Bool)) (hd : IsDecompStep step)
    (htot : DecompTotal step) (incl : String → Bool) (gs : GlyphSet) (rank : String → Nat)
    (hr : Ranked gs rank) (hn : Named gs) (hnd : gs.names.Nodup) (hc : Closed gs) :
    ∃ st, runFilter step incl gs = .ok st ∧ Keeps gs st.gs ∧ Closed st.gs := by
  have := runFilter_res step incl (fun gs' => Keeps gs gs' ∧ Closed gs') (fun _ => False) gs rank hr hn hnd
    (fun gs' h => h.1.2.1) (fun gs' h => h.1.2.2)
    (by
      intro st g hi hget _
      left
      obtain ⟨res, hres⟩ := htot st g (fun nested incl' =>
        decomposeGlyph_ok st.gs rank (hi.1.1 rank hr) hi.2 nested incl' g (hi.2 g.name g hget))
      obtain ⟨st', r⟩ := res
      exact ⟨st', r, hres, decompStep_keeps step hd gs st g st' r hres hget hi.1 hi.2⟩)
    ⟨Keeps.refl hn, hc⟩
  rcases this with h | ⟨e, _, he⟩
  · exact h
  · exact absurd he id

theorem runFilter_decomposeStep_ok (incl : String → Bool) (gs : GlyphSet) (rank : String → Nat)
    (hr : Ranked gs rank) (hn : Named gs) (hnd : gs.names.Nodup) (hc : Closed gs) :
    ∃ st, runFilter decomposeStep incl gs = .ok st ∧ Keeps gs st.gs ∧ Closed st.gs :=
  runFilter_decomp_ok _ decomposeStep_isDecomp decomposeStep_total incl gs rank hr hn hnd hc

theorem runFilter_decomposeTransformedStep_ok (incl : String → Bool) (gs : GlyphSet) (rank : String → Nat)
    (hr : Ranked gs rank) (hn : Named gs) (hnd : gs.names.Nodup) (hc : Closed gs) :
    ∃ st, runFilter decomposeTransformedStep incl gs = .ok st ∧ Keeps gs st.gs ∧ Closed st.gs :=
  runFilter_decomp_ok _ decomposeTransformedStep_isDecomp decomposeTransformedStep_total incl gs rank hr hn hnd hc

theorem runFilter_skipExportStep_ok (skip : List String) (incl : String → Bool) (gs : GlyphSet) (rank : String → Nat)
    (hr : Ranked gs rank) (hn : Named gs) (hnd : gs.names.Nodup) (hc : Closed gs) :
    ∃ st, runFilter (skipExportStep skip) incl gs = .ok st ∧ Keeps gs st.gs ∧ Closed st.gs :=
  runFilter_decomp_ok _ (skipExportStep_isDecomp skip) (skipExportStep_total skip) incl gs rank hr hn hnd hc

/-! ### skipExport as a whole: the reduced glyph set -/

theorem ranked_filter (skip : List String) (gs : GlyphSet) (r : String → Nat) (hr : Ranked gs r) :
    Ranked (gs.filter (fun e => !skip.contains e.1)) r := by
  intro n g h
  have : gs.get? n = some g := by
    unfold GlyphSet.get? at h ⊢
    by_cases hs : skip.contains n = true
    · rw [C01.alookup_filter_skipped skip n hs] at h; cases h
    · rw [C13.alookup_filter skip n (by simpa using hs)] at h; exact h
  exact hr n g this

/-- **`skipExport_ok`**: SkipExportGlyphsFilter (any skip list) succeeds on every acyclic, closed glyph set with distinct
    keys equal to the glyph names; the reduced glyph set holds exactly the non-skipped keys, is again acyclic (same
    witnesses), named, has distinct keys and is CLOSED (no remaining glyph refers to a removed one) — so the next filter of
    the pipeline is total on it. -/
theorem skipExport_ok (skip : List String) (gs : GlyphSet) (rank : String → Nat)
    (hr : Ranked gs rank) (hn : Named gs) (hnd : gs.names.Nodup) (hc : Closed gs) :
    ∃ st, skipExport skip (fun _ => true) gs = .ok st ∧
      (∀ r, Ranked gs r → Ranked st.gs r) ∧ Named st.gs ∧ st.gs.names.Nodup ∧ Closed st.gs ∧
      st.gs.names = gs.names.filter (fun n => !skip.contains n) := by
  obtain ⟨st0, h0, hk, hc0⟩ := runFilter_skipExportStep_ok skip (fun _ => true) gs rank hr hn hnd hc
  refine ⟨_, by unfold skipExport; rw [h0], ?_⟩
  dsimp only
  -- every glyph of `st0` is free of skipped references
  have hall : ∀ n, C13.NoSkipAt skip st0.gs n := by
    have h0' := h0
    unfold runFilter at h0'
    cases ho : orderedGlyphs gs with
    | error e => rw [ho] at h0'; cases h0'
    | ok order =>
      rw [ho] at h0'
      obtain ⟨_, _, hvis, _, _, hsome⟩ := C13.skipLoop skip order ⟨gs, [], []⟩ st0 h0' hn (fun x hx => (by cases hx))
      intro n g0 hg0
      cases hgn : gs.get? n with
      | none => have := hsome n; rw [hg0] at this; simp only [hgn] at this; cases this
      | some g => exact hvis n (C01.orderedGlyphs_mem gs order ho n g hgn) g0 hg0
  have key : ∀ n g, GlyphSet.get? (st0.gs.filter (fun e => !skip.contains e.1)) n = some g →
      st0.gs.get? n = some g ∧ skip.contains n = false := by
    intro n g h
    unfold GlyphSet.get? at h ⊢
    by_cases hs : skip.contains n = true
    · rw [C01.alookup_filter_skipped skip n hs] at h; cases h
    · rw [C13.alookup_filter skip n (by simpa using hs)] at h; exact ⟨h, by simpa using hs⟩
  have hnames : GlyphSet.names (st0.gs.filter (fun e => !skip.contains e.1)) =
      gs.names.filter (fun n => !skip.contains n) := by rw [C13.names_filter, hk.2.2]
  refine ⟨fun r hr' => ranked_filter skip st0.gs r (hk.1 r hr'), ?_, ?_, ?_, hnames⟩
  · intro n g h; exact hk.2.1 n g (key n g h).1
  · rw [hnames]; exact hnd.filter _
  · intro n g h k hkm
    have hp := hc0 n g (key n g h).1 k hkm
    have hns := hall n g (key n g h).1 k hkm
    unfold Present GlyphSet.get? at hp ⊢
    rw [C13.alookup_filter skip k.base hns]; exact hp

/-- with an arbitrary include predicate SkipExportGlyphsFilter still returns a result (but a glyph that was not included
    may keep a reference to a removed glyph: the reduced set is closed only when every glyph is included, as in the
    pipelines — `skipExport_ok`) -/
theorem skipExport_ok_incl (skip : List String) (incl : String → Bool) (gs : GlyphSet) (rank : String → Nat)
    (hr : Ranked gs rank) (hn : Named gs) (hnd : gs.names.Nodup) (hc : Closed gs) :
    ∃ st, skipExport skip incl gs = .ok st := by
  obtain ⟨st0, h0, _, _⟩ := runFilter_skipExportStep_ok skip incl gs rank hr hn hnd hc
  exact ⟨_, by unfold skipExport; rw [h0]⟩

/-! ### flattenComponents -/

/-- `a` is below `b` for every acyclicity witness of `gs` -/
def Below (gs : GlyphSet) (a b : String) : Prop := ∀ r, Ranked gs r → r a ≤ r b

def FlatTotOne (gs : GlyphSet) (rank : String → Nat) (fuel : Nat) : Prop :=
  ∀ k, Present gs k.base → rank k.base < fuel →
    ∃ fl, flattenComp fuel gs k = .ok fl ∧ fl ≠ [] ∧ ∀ c ∈ fl, Present gs c.base ∧ Below gs c.base k.base
def FlatTotMany (gs : GlyphSet) (rank : String → Nat) (fuel : Nat) : Prop :=
  ∀ outer ks, (∀ k ∈ ks, Present gs k.base ∧ rank k.base < fuel) →
    ∃ fl, flattenNested fuel gs outer ks = .ok fl ∧ (ks ≠ [] → fl ≠ []) ∧
      ∀ c ∈ fl, Present gs c.base ∧ ∃ k ∈ ks, Below gs c.base k.base

theorem flatTotMany_of_one (gs : GlyphSet) (rank : String → Nat) (fuel : Nat) (h1 : FlatTotOne gs rank fuel) :
    FlatTotMany gs rank fuel := by
  intro outer ks
  induction ks with
  | nil => intro _; exact ⟨[], by simp only [flattenNested], fun h => absurd rfl h, fun c hc => by cases hc⟩
  | cons n ns ih =>
    intro hks
    obtain ⟨fn, hn, hne, hfn⟩ := h1 n (hks n mem_cons_self).1 (hks n mem_cons_self).2
    obtain ⟨r, hr, _, hfr⟩ := ih (fun k hk => hks k (mem_cons_of_mem _ hk))
    have e : flattenNested fuel gs outer (n :: ns) = .ok (List.map (fun c => (⟨c.base,
        ((outer.t.translate c.t.dx c.t.dy).compose ⟨c.t.xx, c.t.xy, c.t.yx, c.t.yy, 0, 0⟩)⟩ : Comp)) fn ++ r) := by
      simp only [flattenNested, hn, hr]
    refine ⟨_, e, ?_, ?_⟩
    · intro _ h
      have := List.append_eq_nil_iff.mp h
      exact hne (List.map_eq_nil_iff.mp this.1)
    · intro c hc
      rcases mem_append.mp hc with hc | hc
      · obtain ⟨c0, hc0, rfl⟩ := mem_map.mp hc
        exact ⟨(hfn c0 hc0).1, n, mem_cons_self, (hfn c0 hc0).2⟩
      · obtain ⟨hp, k, hk, hb⟩ := hfr c hc
        exact ⟨hp, k, mem_cons_of_mem _ hk, hb⟩

theorem flatTotOne_succ (gs : GlyphSet) (rank : String → Nat) (hr : Ranked gs rank) (hc : Closed gs) (fuel : Nat)
    (h2 : FlatTotMany gs rank fuel) : FlatTotOne gs rank (fuel + 1) := by
  intro k hp hlt
  unfold flattenComp
  unfold Present at hp
  cases hb : gs.get? k.base with
  | none => rw [hb] at hp; cases hp
  | some b =>
    dsimp only
    by_cases hs : isSimpleOrMixed b = true
    · rw [if_pos hs]
      refine ⟨[k], rfl, by simp, ?_⟩
      intro c hc'
      simp only [mem_singleton] at hc'
      subst hc'
      exact ⟨by unfold Present; rw [hb]; rfl, fun r _ => Nat.le_refl _⟩
    · rw [if_neg hs]
      obtain ⟨fl, hfl, hne, hall⟩ := h2 k b.comps (fun k' hk' =>
        ⟨hc k.base b hb k' hk', by have := hr k.base b hb k' hk'; omega⟩)
      refine ⟨fl, hfl, ?_, ?_⟩
      · apply hne
        intro he
        simp only [isSimpleOrMixed, he, List.isEmpty_nil, Bool.true_or, not_true_eq_false] at hs
      · intro c hc'
        obtain ⟨hp', k', hk', hb'⟩ := hall c hc'
        refine ⟨hp', ?_⟩
        intro r hr'
        have := hr' k.base b hb k' hk'
        have := hb' r hr'
        omega

theorem flat_total (gs : GlyphSet) (rank : String → Nat) (hr : Ranked gs rank) (hc : Closed gs) :
    ∀ fuel, FlatTotOne gs rank fuel ∧ FlatTotMany gs rank fuel := by
  intro fuel
  induction fuel with
  | zero =>
    have h0 : FlatTotOne gs rank 0 := by intro k _ h; omega
    exact ⟨h0, flatTotMany_of_one gs rank 0 h0⟩
  | succ n ih =>
    have h1 := flatTotOne_succ gs rank hr hc n ih.2
    exact ⟨h1, flatTotMany_of_one gs rank (n + 1) h1⟩

/-- `_flattenGlyphComponents` succeeds (neither the fuel, nor the `ValueError` for a missing base, nor the model's
    `assertion` for an empty flattened list occurs); the new components refer to keys below the old ones -/
theorem flattenGlyphComps_ok (gs : GlyphSet) (rank : String → Nat) (hr : Ranked gs rank) (hc : Closed gs) :
    ∀ (ks : List Comp), (∀ k ∈ ks, Present gs k.base) →
      ∃ cs f, flattenGlyphComps gs ks = .ok (cs, f) ∧ ∀ c ∈ cs, Present gs c.base ∧ ∃ k ∈ ks, Below gs c.base k.base := by
  have hr' := normRank_ranked gs rank hr
  intro ks
  induction ks with
  | nil => intro _; exact ⟨[], false, rfl, fun c hc => by cases hc⟩
  | cons k ks ih =>
    intro hks
    obtain ⟨fl, hfl, hne, hall⟩ := (flat_total gs (normRank gs rank) hr' hc (gs.length + 1)).1 k (hks k mem_cons_self)
      (by have := normRank_le gs rank k.base; omega)
    obtain ⟨cs, f, hcs, hall'⟩ := ih (fun k' hk' => hks k' (mem_cons_of_mem _ hk'))
    cases hh : fl.head? with
    | none => exact absurd (List.head?_eq_none_iff.mp hh) hne
    | some h =>
      refine ⟨fl ++ cs, (h != k) || f, by simp only [flattenGlyphComps, hfl, hh, hcs], ?_⟩
      intro c hc'
      rcases mem_append.mp hc' with hc' | hc'
      · exact ⟨(hall c hc').1, k, mem_cons_self, (hall c hc').2⟩
      · obtain ⟨hp, k', hk', hb⟩ := hall' c hc'
        exact ⟨hp, k', mem_cons_of_mem _ hk', hb⟩

theorem flattenStep_total (gs0 : GlyphSet) (rank : String → Nat) (st : FState) (g : Glyph)
    (hr : Ranked st.gs rank) (hget : st.gs.get? g.name = some g) (hk : Keeps gs0 st.gs) (hc : Closed st.gs) :
    ∃ st' r, flattenStep st g = .ok (st', r) ∧ Keeps gs0 st'.gs ∧ Closed st'.gs := by
  unfold flattenStep
  by_cases he : g.comps.isEmpty = true
  · rw [if_pos he]; exact ⟨st, false, rfl, hk, hc⟩
  · rw [if_neg he]
    obtain ⟨cs, f, hcs, hall⟩ := flattenGlyphComps_ok st.gs rank hr hc g.comps (hc g.name g hget)
    rw [hcs]
    refine ⟨_, f, rfl, ?_, ?_⟩
    · show Keeps gs0 (st.gs.set g.name { g with comps := cs })
      refine Keeps.set hk g.name g { g with comps := cs } hget rfl ?_
      intro r hr' c hc'
      obtain ⟨_, k, hkm, hb⟩ := hall c hc'
      have := hr' g.name g hget k hkm
      have := hb r hr'
      omega
    · show Closed (st.gs.set g.name { g with comps := cs })
      exact closed_set st.gs hc g.name g { g with comps := cs } hget (fun c hc' => (hall c hc').1)

/-- **`runFilter_ok` for FlattenComponentsFilter**: total on every acyclic closed glyph set with distinct keys equal to the
    glyph names, for every include predicate — although the traversal order is NOT a true depth order
    (`C02.depth_undercount`) the fuel `len(glyphSet) + 1` of `_flattenComponent` always suffices. -/
theorem runFilter_flattenStep_ok (incl : String → Bool) (gs : GlyphSet) (rank : String → Nat)
    (hr : Ranked gs rank) (hn : Named gs) (hnd : gs.names.Nodup) (hc : Closed gs) :
    ∃ st, runFilter flattenStep incl gs = .ok st ∧ Keeps gs st.gs ∧ Closed st.gs := by
  have := runFilter_res flattenStep incl (fun gs' => Keeps gs gs' ∧ Closed gs') (fun _ => False) gs rank hr hn hnd
    (fun gs' h => h.1.2.1) (fun gs' h => h.1.2.2)
    (by
      intro st g hi hget _
      left
      exact flattenStep_total gs rank st g (hi.1.1 rank hr) hget hi.1 hi.2)
    ⟨Keeps.refl hn, hc⟩
  rcases this with h | ⟨e, _, he⟩
  · exact h
  · exact absurd he id

end Ufo2ft
