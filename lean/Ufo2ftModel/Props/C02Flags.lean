import Ufo2ftModel.Spec.C02Flags
/-!
The glyf flag post-processing (Model/C02Flags.lean) meets its declarative description (Spec/C02Flags.lean), for all flag
lists, all lib values and all component lists.
-/
namespace Ufo2ft.C02.Flags
theorem sameOutside_iff (m a b : Nat) :
    sameOutside m a b = true ↔ ∀ i, m.testBit i = false → a.testBit i = b.testBit i := by
  unfold sameOutside
  constructor
  · intro h i hi
    have h' : (a ||| m) = (b ||| m) := by simpa using h
    have := congrArg (fun x => x.testBit i) h'
    simpa [Nat.testBit_or, hi] using this
  · intro h
    have : (a ||| m) = (b ||| m) := by
      apply Nat.eq_of_testBit_eq
      intro i
      simp only [Nat.testBit_or]
      cases hm : m.testBit i
      · simp [h i hm]
      · simp
    simp [this]

theorem clearBits_testBit (x m i : Nat) : (clearBits x m).testBit i = (x.testBit i && !m.testBit i) := by
  simp only [clearBits, Nat.testBit_xor, Nat.testBit_and]
  cases x.testBit i <;> cases m.testBit i <;> rfl
theorem setBits_testBit (x m i : Nat) : (setBits x m).testBit i = (x.testBit i || m.testBit i) := by
  simp only [setBits, Nat.testBit_or]
theorem putBits_testBit (v : Bool) (x m i : Nat) :
    (putBits v x m).testBit i = if m.testBit i then v else x.testBit i := by
  unfold putBits
  cases v <;> simp [clearBits_testBit, setBits_testBit] <;> cases x.testBit i <;> cases m.testBit i <;> rfl

theorem flagOverlapSimple_testBit (j : Nat) : flagOverlapSimple.testBit j = decide (6 = j) := by
  unfold flagOverlapSimple; rw [Nat.testBit_two_pow]

theorem sameOutside_putBits (v : Bool) (x m : Nat) : sameOutside m (putBits v x m) x = true := by
  rw [sameOutside_iff]; intro i hi; simp [putBits_testBit, hi]

theorem bitsAre_putBits (v : Bool) (x m : Nat) : bitsAre v (putBits v x m) m = true := by
  cases v
  · simp only [bitsAre, noBits, putBits, Bool.false_eq_true, if_false, beq_iff_eq]
    apply Nat.eq_of_testBit_eq; intro i
    simp only [Nat.testBit_and, clearBits_testBit, Nat.zero_testBit]
    cases x.testBit i <;> cases m.testBit i <;> rfl
  · simp only [bitsAre, hasBits, putBits, if_true, beq_iff_eq]
    apply Nat.eq_of_testBit_eq; intro i
    simp only [Nat.testBit_and, setBits_testBit]
    cases x.testBit i <;> cases m.testBit i <;> rfl

/-- **the model meets the predicate**: for every glyph and every lib value, what `_set_simple_flags` returns has the pen's
    coordinates, contour ends and count, the pen's flag bytes except OVERLAP_SIMPLE of the first, which is the lib value when
    the key is present (and the glyph has contours); key absent: nothing changed. -/
theorem C02_flags_simple_spec (lib : Option Bool) (g : SimpleTT) :
    holdsSimpleFlags lib g (setSimpleFlags lib g) = true := by
  unfold holdsSimpleFlags setSimpleFlags
  by_cases h : (decide (g.numberOfContours < 1) || g.flags.isEmpty) = true
  · simp only [h, if_true]
    cases hf : g.flags.head? with
    | none => simp
    | some p =>
      have : sameOutside flagOverlapSimple p p = true := by simp [sameOutside]
      cases lib with
      | none => simp [this]
      | some v =>
        simp only [Bool.or_eq_true, decide_eq_true_eq] at h
        rcases h with h | h
        · simp [this, h]
        · cases hfl : g.flags with
          | nil => simp [hfl] at hf
          | cons a l => simp [hfl] at h
  · simp only [h]
    simp only [Bool.or_eq_true, decide_eq_true_eq, not_or] at h
    cases lib with
    | none => cases hf : g.flags <;> simp [hf, sameOutside]
    | some v =>
      cases hf : g.flags with
      | nil => simp [hf] at h
      | cons f rest => simp [sameOutside_putBits, bitsAre_putBits, h.1]

/-- coordinates, contour ends and the contour count are never written -/
theorem C02_flags_simple_coords (lib : Option Bool) (g : SimpleTT) :
    (setSimpleFlags lib g).coords = g.coords ∧ (setSimpleFlags lib g).endPts = g.endPts ∧
    (setSimpleFlags lib g).numberOfContours = g.numberOfContours ∧ (setSimpleFlags lib g).flags.length = g.flags.length := by
  unfold setSimpleFlags
  split
  · simp
  · split <;> simp_all

/-- **every bit except 0x40 of the first flag byte is preserved**: bit `j` of point `i`'s flag byte is the pen's unless
    `i = 0` and `j = 6`.  In particular the on-curve bit (j = 0) and the cubic bit (j = 7) of every point. -/
theorem C02_flags_simple_bits (lib : Option Bool) (g : SimpleTT) (i j : Nat) (h : i ≠ 0 ∨ j ≠ 6) :
    ((setSimpleFlags lib g).flags.getD i 0).testBit j = (g.flags.getD i 0).testBit j := by
  unfold setSimpleFlags
  split
  · rfl
  · split
    · rename_i v f rest hf
      simp only [hf]
      cases i with
      | zero =>
        have hj : j ≠ 6 := by rcases h with h | h; exact absurd rfl h; exact h
        simp only [List.getD_cons_zero, putBits_testBit, flagOverlapSimple_testBit]
        have : decide (6 = j) = false := by simp; omega
        simp [this]
      | succ k => simp
    · rfl

theorem C02_flags_simple_oncurve (lib : Option Bool) (g : SimpleTT) (i : Nat) :
    ((setSimpleFlags lib g).flags.getD i 0).testBit 0 = (g.flags.getD i 0).testBit 0 ∧
    ((setSimpleFlags lib g).flags.getD i 0).testBit 7 = (g.flags.getD i 0).testBit 7 :=
  ⟨C02_flags_simple_bits lib g i 0 (Or.inr (by decide)), C02_flags_simple_bits lib g i 7 (Or.inr (by decide))⟩

/-- key absent: the glyph is returned as it came -/
theorem C02_flags_simple_absent (g : SimpleTT) : setSimpleFlags none g = g := by
  unfold setSimpleFlags; split <;> rfl

/-- key present, the glyph has contours and points: OVERLAP_SIMPLE of the first point is the lib value -/
theorem C02_flags_simple_value (v : Bool) (g : SimpleTT) (f : Nat) (rest : List Nat)
    (hn : 1 ≤ g.numberOfContours) (hf : g.flags = f :: rest) :
    ((setSimpleFlags (some v) g).flags.getD 0 0).testBit 6 = v := by
  have hlt : ¬ g.numberOfContours < 1 := by omega
  simp [setSimpleFlags, hf, hlt, putBits_testBit, flagOverlapSimple_testBit]

example : ((setSimpleFlags (some true) ⟨1, [(0, 0), (1, 1)], [1], [1, 0]⟩).flags.getD 0 0).testBit 6 = true :=
  C02_flags_simple_value true _ 1 [0] (by decide) rfl
example : (setSimpleFlags (some true) ⟨1, [(0, 0), (1, 1)], [1], [1, 0]⟩).flags = [0x41, 0] := by decide

theorem putBits_idem (v : Bool) (x m : Nat) : putBits v (putBits v x m) m = putBits v x m := by
  apply Nat.eq_of_testBit_eq; intro i
  simp only [putBits_testBit]
  split <;> simp_all

/-- running the post-processing twice is running it once -/
theorem C02_flags_simple_idempotent (lib : Option Bool) (g : SimpleTT) :
    setSimpleFlags lib (setSimpleFlags lib g) = setSimpleFlags lib g := by
  by_cases h : (decide (g.numberOfContours < 1) || g.flags.isEmpty) = true
  · have : setSimpleFlags lib g = g := by unfold setSimpleFlags; simp only [h, if_true]
    rw [this, this]
  · cases lib with
    | none => simp [C02_flags_simple_absent]
    | some v =>
      cases hf : g.flags with
      | nil => simp [hf] at h
      | cons f rest =>
        have hlt : ¬ g.numberOfContours < 1 := by
          intro hh; apply h; simp [hh]
        simp [setSimpleFlags, hf, hlt, putBits_idem]

/-- what the predicate buys, for ANY output that satisfies it (not only the model's): every point keeps its on-curve and
    cubic bit. -/
theorem C02_flags_spec_oncurve (lib : Option Bool) (pen out : SimpleTT) (h : holdsSimpleFlags lib pen out = true) (i : Nat) :
    (out.flags.getD i 0).testBit 0 = (pen.flags.getD i 0).testBit 0 ∧
    (out.flags.getD i 0).testBit 7 = (pen.flags.getD i 0).testBit 7 ∧ out.coords = pen.coords := by
  unfold holdsSimpleFlags at h
  simp only [Bool.and_eq_true, beq_iff_eq] at h
  obtain ⟨⟨⟨⟨_, hc⟩, _⟩, hd⟩, hh⟩ := h
  refine ⟨?_, ?_, hc⟩
  all_goals
    cases hp : pen.flags with
    | nil =>
      cases ho : out.flags with
      | nil => rfl
      | cons o os => simp [hp, ho] at hh
    | cons p ps =>
      cases ho : out.flags with
      | nil => simp [hp, ho] at hh
      | cons o os =>
        simp only [hp, ho, List.drop_succ_cons, List.drop_zero, List.head?_cons, Bool.and_eq_true] at hd hh
        cases i with
        | zero =>
          have := (sameOutside_iff _ _ _).1 hh.1
          simp only [List.getD_cons_zero]
          first
            | exact this 0 (by rw [flagOverlapSimple_testBit]; decide)
            | exact this 7 (by rw [flagOverlapSimple_testBit]; decide)
        | succ k => simp [hd]

/-- **negative witness** for the slip `first & flag` in place of `first & ~flag`: on a glyph whose first point is on-curve
    (flag byte 1) with the key False, the slipped code returns flag byte 0 - the point turns off-curve - and the predicate
    rejects it (kernel-checked), while the real code's output is accepted. -/
theorem C02_flags_slip_witness :
    let g : SimpleTT := ⟨1, [(0, 0), (100, 0), (50, 80)], [2], [1, 1, 1]⟩
    (setSimpleFlagsSlip (some false) g).flags = [0, 1, 1] ∧
    holdsSimpleFlags (some false) g (setSimpleFlagsSlip (some false) g) = false ∧
    holdsSimpleFlags (some false) g (setSimpleFlags (some false) g) = true := by decide


/-! ### composites -/

/-- the reference part of a component record: everything but the flag word -/
def ref (c : CompTT) : String × Int × Int × (Q × Q × Q × Q) := (c.base, c.dx, c.dy, c.lin)

theorem auto_ref (adv : String → Option Int) (w : Int) (cs : List CompTT) :
    (autoUseMyMetrics adv w cs).map ref = cs.map ref := by
  induction cs with
  | nil => rfl
  | cons c rest ih =>
    unfold autoUseMyMetrics
    split
    · simp [ref]
    · simp [ih]

theorem step_ref (u : UfoFlags) (first : Bool) (st : LoopSt) (c : CompTT) (id : Option String) :
    ref (stepComp u first st c id).1 = ref c := by
  unfold stepComp
  cases id with
  | none => rfl
  | some i =>
    simp only
    cases compLib u i with
    | none => rfl
    | some e =>
      simp only
      split <;> rfl

theorem loop_ref (u : UfoFlags) (cs : List CompTT) : ∀ (first : Bool) (st : LoopSt) (ids : List (Option String)),
    (loopComps u first st cs ids).1.map ref = cs.map ref := by
  induction cs with
  | nil => intro first st ids; unfold loopComps; rfl
  | cons c rest ih =>
    intro first st ids
    cases ids with
    | nil => unfold loopComps; rfl
    | cons id ids =>
      unfold loopComps
      simp only [List.map_cons, step_ref, ih]

theorem compMask_testBit (i : Nat) (h : compMask.testBit i = false) :
    ROUND_XY_TO_GRID.testBit i = false ∧ USE_MY_METRICS.testBit i = false ∧ OVERLAP_COMPOUND.testBit i = false := by
  simp only [compMask, Nat.testBit_or, Bool.or_eq_false_iff] at h
  exact ⟨h.1.1, h.1.2, h.2⟩

/-- one pass of the loop body of `_set_composite_flags` changes a component's flag word at most in ROUND_XY_TO_GRID,
    USE_MY_METRICS and OVERLAP_COMPOUND - whatever the lib says (a step towards the flag-mask clauses of the full statement below) -/
theorem C02_flags_step_mask (u : UfoFlags) (first : Bool) (st : LoopSt) (c : CompTT) (id : Option String) :
    sameOutside compMask (stepComp u first st c id).1.flags c.flags = true := by
  rw [sameOutside_iff]; intro i hi
  obtain ⟨h2, h9, h10⟩ := compMask_testBit i hi
  have hf0 : (ovlStep u first c.flags).testBit i = c.flags.testBit i := by
    unfold ovlStep
    split
    · simp [putBits_testBit, h10]
    · rfl
  unfold stepComp
  cases id with
  | none => exact hf0
  | some j =>
    simp only
    cases compLib u j with
    | none => exact hf0
    | some e =>
      simp only
      split <;> split <;> (try split) <;>
        first
          | exact hf0
          | (simp only [clearBits_testBit, setBits_testBit, h2, h9, h10, Bool.not_false, Bool.and_true, Bool.or_false]; exact hf0)

/-- Full statement (kept visible):
      `holdsCompositeFlags auto u cs (setCompositeFlags auto adv width u cs) = true`   for all auto, adv, width, u, cs
    (references kept; flag words differ at most in ROUND_XY_TO_GRID / USE_MY_METRICS and, on the first component,
    OVERLAP_COMPOUND; OVERLAP_COMPOUND of the first component = lib value when the key is present and the counts are equal;
    count mismatch: only USE_MY_METRICS may differ).
    Proved here: the reference part - every component keeps its base glyph, offset and 2x2 and the count is unchanged, for all
    lib contents, hmtx advances and both settings of autoUseMyMetrics.  Missing: the three flag-mask clauses for the whole loop + autoUseMyMetrics (one loop pass: C02_flags_step_mask; they are evaluated by
    the driver on every compiled composite of the glyph-lib stream, and the model's flag words are compared with the font's). -/
theorem C02_flags_composite_refs_partial (auto : Bool) (adv : String → Option Int) (width : Int) (u : UfoFlags) (cs : List CompTT) :
    (setCompositeFlags auto adv width u cs).map ref = cs.map ref := by
  unfold setCompositeFlags
  simp only
  split
  · split
    · exact auto_ref ..
    · rfl
  · split
    · split
      · rw [auto_ref]; exact loop_ref ..
      · exact loop_ref ..
    · exact loop_ref ..

end Ufo2ft.C02.Flags
