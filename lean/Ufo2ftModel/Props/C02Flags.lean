import Ufo2ftModel.Spec.C02Flags
/-!
The glyf flag post-processing (Model/C02Flags.lean) meets its declarative description (Spec/C02Flags.lean), for all flag
lists, all lib values and all component lists.
-/
namespace Ufo2ft.C02.Flags
theorem sameOutside_iff (m a b : Nat) :
    sameOutside m a b = true ↔ ∀ i, m.testBit i = false → a.testBit i = b.testBit i := by
  unfold sameOutside
  constructor
  · intro h i hi
    have h' : (a ||| m) = (b ||| m) := by simpa using h
    have := congrArg (fun x => x.testBit i) h'
    simpa [Nat.testBit_or, hi] using this
  · intro h
    have : (a ||| m) = (b ||| m) := by
      apply Nat.eq_of_testBit_eq
      intro i
      simp only [Nat.testBit_or]
      cases hm : m.testBit i
      · simp [h i hm]
      · simp
    simp [this]

theorem clearBits_testBit (x m i : Nat) : (clearBits x m).testBit i = (x.testBit i && !m.testBit i) := by
  simp only [clearBits, Nat.testBit_xor, Nat.testBit_and]
  cases x.testBit i <;> cases m.testBit i <;> rfl
theorem setBits_testBit (x m i : Nat) : (setBits x m).testBit i = (x.testBit i || m.testBit i) := by
  simp only [setBits, Nat.testBit_or]
theorem putBits_testBit (v : Bool) (x m i : Nat) :
    (putBits v x m).testBit i = if m.testBit i then v else x.testBit i := by
  unfold putBits
  cases v <;> simp [clearBits_testBit, setBits_testBit] <;> cases x.testBit i <;> cases m.testBit i <;> rfl

theorem flagOverlapSimple_testBit (j : Nat) : flagOverlapSimple.testBit j = decide (6 = j) := by
  unfold flagOverlapSimple; rw [Nat.testBit_two_pow]

theorem sameOutside_putBits (v : Bool) (x m : Nat) : sameOutside m (putBits v x m) x = true := by
  rw [sameOutside_iff]; intro i hi; simp [putBits_testBit, hi]

theorem bitsAre_putBits (v : Bool) (x m : Nat) : bitsAre v (putBits v x m) m = true := by
  cases v
  · simp only [bitsAre, noBits, putBits, Bool.false_eq_true, if_false, beq_iff_eq]
    apply Nat.eq_of_testBit_eq; intro i
    simp only [Nat.testBit_and, clearBits_testBit, Nat.zero_testBit]
    cases x.testBit i <;> cases m.testBit i <;> rfl
  · simp only [bitsAre, hasBits, putBits, if_true, beq_iff_eq]
    apply Nat.eq_of_testBit_eq; intro i
    simp only [Nat.testBit_and, setBits_testBit]
    cases x.testBit i <;> cases m.testBit i <;> rfl

/-- **the model meets the predicate**: for every glyph and every lib value, what `_set_simple_flags` returns has the pen's
    coordinates, contour ends and count, the pen's flag bytes except OVERLAP_SIMPLE of the first, which is the lib value when
    the key is present (and the glyph has contours); key absent: nothing changed. -/
theorem C02_flags_simple_spec (lib : Option Bool) (g : SimpleTT) :
    holdsSimpleFlags lib g (setSimpleFlags lib g) = true := by
  unfold holdsSimpleFlags setSimpleFlags
  by_cases h : (decide (g.numberOfContours < 1) || g.flags.isEmpty) = true
  · simp only [h, if_true]
    cases hf : g.flags.head? with
    | none => simp
    | some p =>
      have : sameOutside flagOverlapSimple p p = true := by simp [sameOutside]
      cases lib with
      | none => simp [this]
      | some v =>
        simp only [Bool.or_eq_true, decide_eq_true_eq] at h
        rcases h with h | h
        · simp [this, h]
        · cases hfl : g.flags with
          | nil => simp [hfl] at hf
          | cons a l => simp [hfl] at h
  · simp only [h]
    simp only [Bool.or_eq_true, decide_eq_true_eq, not_or] at h
    cases lib with
    | none => cases hf : g.flags <;> simp [hf, sameOutside]
    | some v =>
      cases hf : g.flags with
      | nil => simp [hf] at h
      | cons f rest => simp [sameOutside_putBits, bitsAre_putBits, h.1]

/-- coordinates, contour ends and the contour count are never written -/
theorem C02_flags_simple_coords (lib : Option Bool) (g : SimpleTT) :
    (setSimpleFlags lib g).coords = g.coords ∧ (setSimpleFlags lib g).endPts = g.endPts ∧
    (setSimpleFlags lib g).numberOfContours = g.numberOfContours ∧ (setSimpleFlags lib g).flags.length = g.flags.length := by
  unfold setSimpleFlags
  split
  · simp
  · split <;> simp_all

/-- **every bit except 0x40 of the first flag byte is preserved**: bit `j` of point `i`'s flag byte is the pen's unless
    `i = 0` and `j = 6`.  In particular the on-curve bit (j = 0) and the cubic bit (j = 7) of every point. -/
theorem C02_flags_simple_bits (lib : Option Bool) (g : SimpleTT) (i j : Nat) (h : i ≠ 0 ∨ j ≠ 6) :
    ((setSimpleFlags lib g).flags.getD i 0).testBit j = (g.flags.getD i 0).testBit j := by
  unfold setSimpleFlags
  split
  · rfl
  · split
    · rename_i v f rest hf
      simp only [hf]
      cases i with
      | zero =>
        have hj : j ≠ 6 := by rcases h with h | h; exact absurd rfl h; exact h
        simp only [List.getD_cons_zero, putBits_testBit, flagOverlapSimple_testBit]
        have : decide (6 = j) = false := by simp; omega
        simp [this]
      | succ k => simp
    · rfl

theorem C02_flags_simple_oncurve (lib : Option Bool) (g : SimpleTT) (i : Nat) :
    ((setSimpleFlags lib g).flags.getD i 0).testBit 0 = (g.flags.getD i 0).testBit 0 ∧
    ((setSimpleFlags lib g).flags.getD i 0).testBit 7 = (g.flags.getD i 0).testBit 7 :=
  ⟨C02_flags_simple_bits lib g i 0 (Or.inr (by decide)), C02_flags_simple_bits lib g i 7 (Or.inr (by decide))⟩

/-- key absent: the glyph is returned as it came -/
theorem C02_flags_simple_absent (g : SimpleTT) : setSimpleFlags none g = g := by
  unfold setSimpleFlags; split <;> rfl

/-- key present, the glyph has contours and points: OVERLAP_SIMPLE of the first point is the lib value -/
theorem C02_flags_simple_value (v : Bool) (g : SimpleTT) (f : Nat) (rest : List Nat)
    (hn : 1 ≤ g.numberOfContours) (hf : g.flags = f :: rest) :
    ((setSimpleFlags (some v) g).flags.getD 0 0).testBit 6 = v := by
  have hlt : ¬ g.numberOfContours < 1 := by omega
  simp [setSimpleFlags, hf, hlt, putBits_testBit, flagOverlapSimple_testBit]

example : ((setSimpleFlags (some true) ⟨1, [(0, 0), (1, 1)], [1], [1, 0]⟩).flags.getD 0 0).testBit 6 = true :=
  C02_flags_simple_value true _ 1 [0] (by decide) rfl
example : (setSimpleFlags (some true) ⟨1, [(0, 0), (1, 1)], [1], [1, 0]⟩).flags = [0x41, 0] := by decide

theorem putBits_idem (v : Bool) (x m : Nat) : putBits v (putBits v x m) m = putBits v x m := by
  apply Nat.eq_of_testBit_eq; intro i
  simp only [putBits_testBit]
  split <;> simp_all

/-- running the post-processing twice is running it once -/
theorem C02_flags_simple_idempotent (lib : Option Bool) (g : SimpleTT) :
    setSimpleFlags lib (setSimpleFlags lib g) = setSimpleFlags lib g := by
  by_cases h : (decide (g.numberOfContours < 1) || g.flags.isEmpty) = true
  · have : setSimpleFlags lib g = g := by unfold setSimpleFlags; simp only [h, if_true]
    rw [this, this]
  · cases lib with
    | none => simp [C02_flags_simple_absent]
    | some v =>
      cases hf : g.flags with
      | nil => simp [hf] at h
      | cons f rest =>
        have hlt : ¬ g.numberOfContours < 1 := by
          intro hh; apply h; simp [hh]
        simp [setSimpleFlags, hf, hlt, putBits_idem]

/-- what the predicate buys, for ANY output that satisfies it (not only the model's): every point keeps its on-curve and
    cubic bit. -/
theorem C02_flags_spec_oncurve (lib : Option Bool) (pen out : SimpleTT) (h : holdsSimpleFlags lib pen out = true) (i : Nat) :
    (out.flags.getD i 0).testBit 0 = (pen.flags.getD i 0).testBit 0 ∧
    (out.flags.getD i 0).testBit 7 = (pen.flags.getD i 0).testBit 7 ∧ out.coords = pen.coords := by
  unfold holdsSimpleFlags at h
  simp only [Bool.and_eq_true, beq_iff_eq] at h
  obtain ⟨⟨⟨⟨_, hc⟩, _⟩, hd⟩, hh⟩ := h
  refine ⟨?_, ?_, hc⟩
  all_goals
    cases hp : pen.flags with
    | nil =>
      cases ho : out.flags with
      | nil => rfl
      | cons o os => simp [hp, ho] at hh
    | cons p ps =>
      cases ho : out.flags with
      | nil => simp [hp, ho] at hh
      | cons o os =>
        simp only [hp, ho, List.drop_succ_cons, List.drop_zero, List.head?_cons, Bool.and_eq_true] at hd hh
        cases i with
        | zero =>
          have := (sameOutside_iff _ _ _).1 hh.1
          simp only [List.getD_cons_zero]
          first
            | exact this 0 (by rw [flagOverlapSimple_testBit]; decide)
            | exact this 7 (by rw [flagOverlapSimple_testBit]; decide)
        | succ k => simp [hd]

/-- **negative witness** for the slip `first & flag` in place of `first & ~flag`: on a glyph whose first point is on-curve
    (flag byte 1) with the key False, the slipped code returns flag byte 0 - the point turns off-curve - and the predicate
    rejects it (kernel-checked), while the real code's output is accepted. -/
theorem C02_flags_slip_witness :
    let g : SimpleTT := ⟨1, [(0, 0), (100, 0), (50, 80)], [2], [1, 1, 1]⟩
    (setSimpleFlagsSlip (some false) g).flags = [0, 1, 1] ∧
    holdsSimpleFlags (some false) g (setSimpleFlagsSlip (some false) g) = false ∧
    holdsSimpleFlags (some false) g (setSimpleFlags (some false) g) = true := by decide


/-! ### composites -/

/-- the reference part of a component record: everything but the flag word -/
def ref (c : CompTT) : String × Int × Int × (Q × Q × Q × Q) := (c.base, c.dx, c.dy, c.lin)

theorem auto_ref (adv : String → Option Int) (w : Int) (cs : List CompTT) :
    (autoUseMyMetrics adv w cs).map ref = cs.map ref := by
  induction cs with
  | nil => rfl
  | cons c rest ih =>
    unfold autoUseMyMetrics
    split
    · simp [ref]
    · simp [ih]

theorem step_ref (u : UfoFlags) (first : Bool) (st : LoopSt) (c : CompTT) (id : Option String) :
    ref (stepComp u first st c id).1 = ref c := by
  unfold stepComp
  cases id with
  | none => rfl
  | some i =>
    simp only
    cases compLib u i with
    | none => rfl
    | some e =>
      simp only
      split <;> rfl

theorem loop_ref (u : UfoFlags) (cs : List CompTT) : ∀ (first : Bool) (st : LoopSt) (ids : List (Option String)),
    (loopComps u first st cs ids).1.map ref = cs.map ref := by
  induction cs with
  | nil => intro first st ids; unfold loopComps; rfl
  | cons c rest ih =>
    intro first st ids
    cases ids with
    | nil => unfold loopComps; rfl
    | cons id ids =>
      unfold loopComps
      simp only [List.map_cons, step_ref, ih]

theorem compMask_testBit (i : Nat) (h : compMask.testBit i = false) :
    ROUND_XY_TO_GRID.testBit i = false ∧ USE_MY_METRICS.testBit i = false ∧ OVERLAP_COMPOUND.testBit i = false := by
  simp only [compMask, Nat.testBit_or, Bool.or_eq_false_iff] at h
  exact ⟨h.1.1, h.1.2, h.2⟩

/-- one pass of the loop body of `_set_composite_flags` changes a component's flag word at most in ROUND_XY_TO_GRID,
    USE_MY_METRICS and OVERLAP_COMPOUND - whatever the lib says (a step towards the flag-mask clauses of the full statement below) -/
theorem C02_flags_step_mask (u : UfoFlags) (first : Bool) (st : LoopSt) (c : CompTT) (id : Option String) :
    sameOutside compMask (stepComp u first st c id).1.flags c.flags = true := by
  rw [sameOutside_iff]; intro i hi
  obtain ⟨h2, h9, h10⟩ := compMask_testBit i hi
  have hf0 : (ovlStep u first c.flags).testBit i = c.flags.testBit i := by
    unfold ovlStep
    split
    · simp [putBits_testBit, h10]
    · rfl
  unfold stepComp
  cases id with
  | none => exact hf0
  | some j =>
    simp only
    cases compLib u j with
    | none => exact hf0
    | some e =>
      simp only
      split <;> split <;> (try split) <;>
        first
          | exact hf0
          | (simp only [clearBits_testBit, setBits_testBit, h2, h9, h10, Bool.not_false, Bool.and_true, Bool.or_false]; exact hf0)

/-- The reference part of the composite statement: every component keeps its base glyph, offset and 2x2 and the count is
    unchanged, for all lib contents, hmtx advances and both settings of autoUseMyMetrics.  (The name is historical: the FULL
    statement `holdsCompositeFlags auto u cs (setCompositeFlags auto adv width u cs) = true` is `C02_flags_composite_spec`
    at the end of this file, proved for all inputs, loop and autoUseMyMetrics fallback included.) -/
theorem C02_flags_composite_refs_partial (auto : Bool) (adv : String → Option Int) (width : Int) (u : UfoFlags) (cs : List CompTT) :
    (setCompositeFlags auto adv width u cs).map ref = cs.map ref := by
  unfold setCompositeFlags
  simp only
  split
  · split
    · exact auto_ref ..
    · rfl
  · split
    · split
      · rw [auto_ref]; exact loop_ref ..
      · exact loop_ref ..
    · exact loop_ref ..


/-! ### composites: the whole loop and the autoUseMyMetrics fallback -/

/-- `compSame m p o` as a proposition: same reference, flag words bitwise equal outside `m` -/
def R (m : Nat) (p o : CompTT) : Prop :=
  ref o = ref p ∧ ∀ i, m.testBit i = false → o.flags.testBit i = p.flags.testBit i

theorem compSame_iff (m : Nat) (p o : CompTT) : compSame m p o = true ↔ R m p o := by
  unfold compSame R ref
  rw [← sameOutside_iff]
  simp only [Bool.and_eq_true, beq_iff_eq, Prod.mk.injEq]
  constructor
  · rintro ⟨⟨⟨⟨a, b⟩, c⟩, d⟩, e⟩; exact ⟨⟨a, b, c, d⟩, e⟩
  · rintro ⟨⟨a, b, c, d⟩, e⟩; exact ⟨⟨⟨⟨a, b⟩, c⟩, d⟩, e⟩

theorem R_refl (m : Nat) (p : CompTT) : R m p p := ⟨rfl, fun _ _ => rfl⟩
theorem R_trans {m : Nat} {p q o : CompTT} (h1 : R m p q) (h2 : R m q o) : R m p o :=
  ⟨h2.1.trans h1.1, fun i hi => (h2.2 i hi).trans (h1.2 i hi)⟩
theorem R_mono {m m' : Nat} {p o : CompTT} (hm : ∀ i, m'.testBit i = false → m.testBit i = false) (h : R m p o) :
    R m' p o := ⟨h.1, fun i hi => h.2 i (hm i hi)⟩

theorem umm_le_rest (i : Nat) (h : compMaskRest.testBit i = false) : USE_MY_METRICS.testBit i = false := by
  simp only [compMaskRest, Nat.testBit_or, Bool.or_eq_false_iff] at h; exact h.2
theorem rest_le_mask (i : Nat) (h : compMask.testBit i = false) : compMaskRest.testBit i = false := by
  simp only [compMask, compMaskRest, Nat.testBit_or, Bool.or_eq_false_iff] at h ⊢; exact h.1
theorem umm_le_mask (i : Nat) (h : compMask.testBit i = false) : USE_MY_METRICS.testBit i = false :=
  umm_le_rest i (rest_le_mask i h)

theorem compSame_refl (m : Nat) (p : CompTT) : compSame m p p = true := (compSame_iff ..).2 (R_refl ..)
theorem compSame_trans {m : Nat} {p q o : CompTT} (h1 : compSame m p q = true) (h2 : compSame m q o = true) :
    compSame m p o = true := (compSame_iff ..).2 (R_trans ((compSame_iff ..).1 h1) ((compSame_iff ..).1 h2))
theorem compSame_mono {m m' : Nat} {p o : CompTT} (hm : ∀ i, m'.testBit i = false → m.testBit i = false)
    (h : compSame m p o = true) : compSame m' p o = true := (compSame_iff ..).2 (R_mono hm ((compSame_iff ..).1 h))

theorem all2_refl {r : α → α → Bool} (h : ∀ a, r a a = true) (l : List α) : all2 r l l = true := by
  induction l with
  | nil => rfl
  | cons a l ih => simp [all2, h a, ih]

theorem all2_trans {r : α → β → Bool} {r' : β → γ → Bool} {r'' : α → γ → Bool}
    (h : ∀ a b c, r a b = true → r' b c = true → r'' a c = true) (l1 : List α) :
    ∀ (l2 : List β) (l3 : List γ), all2 r l1 l2 = true → all2 r' l2 l3 = true → all2 r'' l1 l3 = true := by
  induction l1 with
  | nil =>
    intro l2 l3 h1 h2
    cases l2 with
    | nil => cases l3 with
      | nil => rfl
      | cons c l3 => simp [all2] at h2
    | cons b l2 => simp [all2] at h1
  | cons a l1 ih =>
    intro l2 l3 h1 h2
    cases l2 with
    | nil => simp [all2] at h1
    | cons b l2 =>
      cases l3 with
      | nil => simp [all2] at h2
      | cons c l3 =>
        simp only [all2, Bool.and_eq_true] at h1 h2 ⊢
        exact ⟨h _ _ _ h1.1 h2.1, ih l2 l3 h1.2 h2.2⟩

theorem all2_mono {r r' : α → β → Bool} (h : ∀ a b, r a b = true → r' a b = true) (l1 : List α) :
    ∀ (l2 : List β), all2 r l1 l2 = true → all2 r' l1 l2 = true := by
  induction l1 with
  | nil => intro l2 h1; cases l2 with
    | nil => rfl
    | cons b l2 => simp [all2] at h1
  | cons a l1 ih =>
    intro l2 h1
    cases l2 with
    | nil => simp [all2] at h1
    | cons b l2 =>
      simp only [all2, Bool.and_eq_true] at h1 ⊢
      exact ⟨h _ _ h1.1, ih l2 h1.2⟩

/-- `autoUseMyMetrics` writes USE_MY_METRICS and nothing else, on every component list -/
theorem C02_flags_auto_mask (adv : String → Option Int) (w : Int) (cs : List CompTT) :
    all2 (compSame USE_MY_METRICS) cs (autoUseMyMetrics adv w cs) = true := by
  induction cs with
  | nil => rfl
  | cons c rest ih =>
    unfold autoUseMyMetrics
    split
    · simp only [all2, Bool.and_eq_true]
      refine ⟨(compSame_iff ..).2 ⟨rfl, ?_⟩, all2_refl (compSame_refl _) rest⟩
      intro i hi
      simp [setBits_testBit, hi]
    · simp only [all2, Bool.and_eq_true]
      exact ⟨compSame_refl .., ih⟩

/-- one pass of the loop body, relative to the flag word after the OVERLAP_COMPOUND step: only ROUND_XY_TO_GRID and
    USE_MY_METRICS may differ -/
theorem step_rest (u : UfoFlags) (first : Bool) (st : LoopSt) (c : CompTT) (id : Option String) (i : Nat)
    (hi : compMaskRest.testBit i = false) :
    (stepComp u first st c id).1.flags.testBit i = (ovlStep u first c.flags).testBit i := by
  have h9 := umm_le_rest i hi
  have h2 : ROUND_XY_TO_GRID.testBit i = false := by
    simp only [compMaskRest, Nat.testBit_or, Bool.or_eq_false_iff] at hi; exact hi.1
  unfold stepComp
  cases id with
  | none => rfl
  | some j =>
    simp only
    cases compLib u j with
    | none => rfl
    | some e =>
      simp only
      split <;> split <;> (try split) <;>
        first
          | rfl
          | (simp only [clearBits_testBit, setBits_testBit, h2, h9, Bool.not_false, Bool.and_true, Bool.or_false])

theorem ovlStep_false (u : UfoFlags) (f : Nat) : ovlStep u false f = f := by
  unfold ovlStep; split <;> simp_all

/-- a component that is not the first: only ROUND_XY_TO_GRID / USE_MY_METRICS may differ -/
theorem step_rest_false (u : UfoFlags) (st : LoopSt) (c : CompTT) (id : Option String) :
    compSame compMaskRest c (stepComp u false st c id).1 = true := by
  refine (compSame_iff ..).2 ⟨step_ref .., fun i hi => ?_⟩
  rw [step_rest u false st c id i hi, ovlStep_false]

/-- the loop from the second component on: references kept, flag words differ at most in ROUND_XY_TO_GRID / USE_MY_METRICS -/
theorem C02_flags_loop_rest (u : UfoFlags) (cs : List CompTT) : ∀ (st : LoopSt) (ids : List (Option String)),
    all2 (compSame compMaskRest) cs (loopComps u false st cs ids).1 = true := by
  induction cs with
  | nil => intro st ids; unfold loopComps; rfl
  | cons c rest ih =>
    intro st ids
    cases ids with
    | nil => unfold loopComps; exact all2_refl (compSame_refl _) _
    | cons id ids =>
      unfold loopComps
      simp only [all2, Bool.and_eq_true]
      exact ⟨step_rest_false .., ih ..⟩

theorem and_two_pow_ite (x k : Nat) : x &&& 2 ^ k = if x.testBit k then 2 ^ k else 0 := by
  apply Nat.eq_of_testBit_eq; intro i
  by_cases h : k = i
  · subst h; cases hx : x.testBit k <;> simp [Nat.testBit_and, Nat.testBit_two_pow, hx]
  · cases hx : x.testBit k <;> simp [Nat.testBit_and, Nat.testBit_two_pow, h]

theorem ovl_testBit (j : Nat) : OVERLAP_COMPOUND.testBit j = decide (10 = j) := by
  unfold OVERLAP_COMPOUND; rw [Nat.testBit_two_pow]

theorem bitsAre_ovl (v : Bool) (x : Nat) : bitsAre v x OVERLAP_COMPOUND = true ↔ x.testBit 10 = v := by
  unfold bitsAre hasBits noBits OVERLAP_COMPOUND
  rw [and_two_pow_ite]
  cases x.testBit 10 <;> cases v <;> simp

theorem ovl_not_rest : compMaskRest.testBit 10 = false := by decide
theorem ovl_not_umm : USE_MY_METRICS.testBit 10 = false := by decide

/-- the first component: at most the three bits differ; OVERLAP_COMPOUND is the lib value when the key is present,
    untouched when absent -/
theorem C02_flags_step_first (u : UfoFlags) (st : LoopSt) (c : CompTT) (id : Option String) :
    compSame compMask c (stepComp u true st c id).1 = true ∧
    (match u.overlap with
     | some v => bitsAre v (stepComp u true st c id).1.flags OVERLAP_COMPOUND = true
     | none => compSame compMaskRest c (stepComp u true st c id).1 = true) := by
  refine ⟨(compSame_iff ..).2 ⟨step_ref .., (sameOutside_iff ..).1 (C02_flags_step_mask ..)⟩, ?_⟩
  cases ho : u.overlap with
  | some v =>
    simp only
    rw [bitsAre_ovl, step_rest u true st c id 10 ovl_not_rest]
    simp [ovlStep, ho, putBits_testBit, ovl_testBit]
  | none =>
    simp only
    refine (compSame_iff ..).2 ⟨step_ref .., fun i hi => ?_⟩
    rw [step_rest u true st c id i hi]
    simp [ovlStep, ho]

/-- the optional `autoUseMyMetrics` pass -/
theorem au_mask (auto : Bool) (adv : String → Option Int) (w : Int) (cs : List CompTT) :
    all2 (compSame USE_MY_METRICS) cs (if auto then autoUseMyMetrics adv w cs else cs) = true := by
  cases auto
  · exact all2_refl (compSame_refl _) _
  · exact C02_flags_auto_mask ..

/-- composing a loop result `r0 :: rs` with a pass `out` that writes only USE_MY_METRICS -/
theorem compose_first (p r0 : CompTT) (ps rs out : List CompTT)
    (h1 : compSame compMask p r0 = true) (h2 : all2 (compSame compMaskRest) ps rs = true)
    (h3 : all2 (compSame USE_MY_METRICS) (r0 :: rs) out = true) :
    ∃ o os, out = o :: os ∧ compSame compMask p o = true ∧ all2 (compSame compMaskRest) ps os = true ∧
      compSame USE_MY_METRICS r0 o = true := by
  cases out with
  | nil => simp [all2] at h3
  | cons o os =>
    simp only [all2, Bool.and_eq_true] at h3
    refine ⟨o, os, rfl, compSame_trans h1 (compSame_mono umm_le_mask h3.1), ?_, h3.1⟩
    exact all2_trans (r := compSame compMaskRest) (r' := compSame USE_MY_METRICS) (r'' := compSame compMaskRest) (fun a b c hab hbc => compSame_trans hab (compSame_mono umm_le_rest hbc)) ps rs os h2 h3.2

theorem loop_cons (u : UfoFlags) (first : Bool) (st : LoopSt) (c : CompTT) (cs : List CompTT) (id : Option String)
    (ids : List (Option String)) :
    (loopComps u first st (c :: cs) (id :: ids)).1 =
      (stepComp u first st c id).1 :: (loopComps u false (stepComp u first st c id).2 cs ids).1 := by
  rw [loopComps]

/-- counts differ: the method is `autoUseMyMetrics` alone -/
theorem set_mismatch (auto : Bool) (adv : String → Option Int) (width : Int) (u : UfoFlags) (cs : List CompTT)
    (h : cs.length ≠ u.ids.length) :
    setCompositeFlags auto adv width u cs = if auto then autoUseMyMetrics adv width cs else cs := by
  unfold setCompositeFlags
  simp [h]

/-- counts equal: the loop's result, then at most a pass that writes USE_MY_METRICS -/
theorem set_match (auto : Bool) (adv : String → Option Int) (width : Int) (u : UfoFlags) (cs : List CompTT)
    (h : cs.length = u.ids.length) :
    all2 (compSame USE_MY_METRICS) (loopComps u true { used := false, contains := false } cs u.ids).1
      (setCompositeFlags auto adv width u cs) = true := by
  unfold setCompositeFlags
  simp only [h, bne_self_eq_false, Bool.false_eq_true, if_false]
  split
  · exact au_mask ..
  · exact all2_refl (compSame_refl _) _

/-- **the model meets the predicate, composites**: for every component list, every lib content, all hmtx advances and both
    settings of `autoUseMyMetrics`, what `_set_composite_flags` leaves has the pen's references, flag words that differ from
    the pen's at most in ROUND_XY_TO_GRID / USE_MY_METRICS and (first component) OVERLAP_COMPOUND; counts equal: OVERLAP_COMPOUND
    of the first component is the lib value (absent: the pen's); counts differ: only USE_MY_METRICS may differ, and nothing
    with `auto` off. -/
theorem C02_flags_composite_spec (auto : Bool) (adv : String → Option Int) (width : Int) (u : UfoFlags) (cs : List CompTT) :
    holdsCompositeFlags auto u cs (setCompositeFlags auto adv width u cs) = true := by
  by_cases hlen : cs.length = u.ids.length
  · have hout := set_match auto adv width u cs hlen
    cases cs with
    | nil =>
      have hl : (loopComps u true { used := false, contains := false } [] u.ids).1 = [] := by unfold loopComps; rfl
      rw [hl] at hout
      cases hs : setCompositeFlags auto adv width u [] with
      | nil => simp [holdsCompositeFlags, hlen]
      | cons o os => rw [hs] at hout; simp [all2] at hout
    | cons p ps =>
      cases hids : u.ids with
      | nil => simp [hids] at hlen
      | cons id ids =>
        rw [hids, loop_cons] at hout
        obtain ⟨hf1, hf2⟩ := C02_flags_step_first u { used := false, contains := false } p id
        obtain ⟨o, os, ho, hA, hB, hC⟩ := compose_first p _ ps _ _ hf1 (C02_flags_loop_rest u ps _ ids) hout
        have hcond : (match u.overlap with
            | some v => bitsAre v o.flags OVERLAP_COMPOUND
            | none => compSame compMaskRest p o) = true := by
          cases hov : u.overlap with
          | some v =>
            simp only [hov] at hf2 ⊢
            rw [bitsAre_ovl] at hf2 ⊢
            rw [((compSame_iff ..).1 hC).2 10 ovl_not_umm]; exact hf2
          | none =>
            simp only [hov] at hf2 ⊢
            exact compSame_trans hf2 (compSame_mono umm_le_rest hC)
        unfold holdsCompositeFlags
        rw [ho]
        simp only [hA, hB, hlen, Bool.and_true, Bool.true_and, beq_self_eq_true, if_true]
        exact hcond
  · rw [set_mismatch auto adv width u cs hlen]
    have hA := au_mask auto adv width cs
    have h2 : (if auto then all2 (compSame USE_MY_METRICS) cs (if auto then autoUseMyMetrics adv width cs else cs)
        else (if auto then autoUseMyMetrics adv width cs else cs) == cs) = true := by
      cases auto
      · simp
      · simpa using hA
    have hne : (cs.length == u.ids.length) = false := by simpa using hlen
    cases cs with
    | nil =>
      cases hs : (if auto then autoUseMyMetrics adv width [] else []) with
      | nil => simp [holdsCompositeFlags, all2]
      | cons o os => rw [hs] at hA; simp [all2] at hA
    | cons p ps =>
      obtain ⟨o, os, ho, hB, hC, _⟩ := compose_first p p ps ps _ (compSame_refl ..) (all2_refl (compSame_refl _) _) hA
      unfold holdsCompositeFlags
      rw [ho] at h2 ⊢
      simp only [hB, hC, hne, h2, Bool.and_true, if_true, Bool.false_eq_true, if_false]

/-- non-vacuity of the two case lemmas: a count mismatch and a count match that exist -/
example : setCompositeFlags true (fun _ => none) 0 ⟨none, [none], none⟩ [] = [] := by
  rw [set_mismatch _ _ _ _ _ (by decide)]; rfl
example : all2 (compSame USE_MY_METRICS) (loopComps ⟨some true, [], none⟩ true ⟨false, false⟩ [] []).1
    (setCompositeFlags true (fun _ => none) 0 ⟨some true, [], none⟩ []) = true := set_match _ _ _ _ _ rfl
/-- `compose_first` with its hypotheses met (one component, identity passes) -/
example (p : CompTT) : ∃ o os, [p] = o :: os ∧ compSame compMask p o = true ∧ all2 (compSame compMaskRest) [] os = true ∧
    compSame USE_MY_METRICS p o = true :=
  compose_first p p [] [] [p] (compSame_refl ..) rfl (all2_refl (compSame_refl _) _)
/-- the relation lemmas on a pair that differs (USE_MY_METRICS set): mono and trans are used on non-trivial instances -/
example (p : CompTT) : compSame compMask p { p with flags := setBits p.flags USE_MY_METRICS } = true :=
  compSame_mono umm_le_mask ((compSame_iff ..).2 ⟨rfl, fun i hi => by simp [setBits_testBit, hi]⟩)

/-- what the theorem buys on a concrete glyph: two components, overlap key True, second component's lib says useMyMetrics -
    the first gets 0x400, the second 0x200, nothing else moves, and no autoUseMyMetrics pass runs (the key was seen) -/
example :
    (setCompositeFlags true (fun _ => some 500) 500 ⟨some true, [none, some "k"], some [("k", ⟨none, some true⟩)]⟩
      [⟨"a", 0, 0, (1, 0, 0, 1), 4⟩, ⟨"b", 10, 0, (1, 0, 0, 1), 4⟩]).map (·.flags) = [0x404, 0x204] := by decide

end Ufo2ft.C02.Flags
