import Ufo2ftModel.Spec.C05
/-! C05, part 5: `mergeScripts` — the fixed-point loop yields pairwise disjoint script sets that cover the input sets, the fuel
    given by the model is sufficient, and no kerning pair is lost or duplicated. -/
namespace Ufo2ft.C05
open Ufo2ft List

/-- `b` shares no element with `a` (the test `s.any common.contains` of the Python loop, negated) -/
def Apart (a b : List String) : Prop := b.any a.contains = false

theorem apart_iff (a b : List String) : Apart a b ↔ ∀ x, x ∈ b → x ∉ a := by
  simp [Apart, any_eq_false]

theorem apart_symm (a b : List String) (h : Apart a b) : Apart b a := by
  rw [apart_iff] at h ⊢; intro x hx hx'; exact h x hx' hx

def Sub (a b : List String) : Prop := ∀ x, x ∈ a → x ∈ b

theorem mem_unionStr (a b : List String) (x : String) : x ∈ unionStr a b ↔ x ∈ a ∨ x ∈ b := by
  simp only [unionStr, mem_append, mem_filter]
  constructor
  · rintro (h | h)
    · exact Or.inl h
    · exact Or.inr h.1
  · rintro (h | h)
    · exact Or.inl h
    · by_cases hx : x ∈ a
      · exact Or.inl hx
      · exact Or.inr ⟨h, by simpa using hx⟩

/-! ### one pass over the remaining sets -/

def sweepStep (acc : List String × List (List String) × Bool) (s : List String) : List String × List (List String) × Bool :=
  if s.any acc.1.contains then (unionStr acc.1 s, acc.2.1, true) else (acc.1, acc.2.1 ++ [s], acc.2.2)

theorem mergeSweep_zero (sets : List (List String)) : mergeSweep 0 sets = (sets, false) := rfl
theorem mergeSweep_nil (fuel : Nat) : mergeSweep fuel [] = ([], false) := by cases fuel <;> rfl
theorem mergeSweep_cons (fuel : Nat) (common : List String) (rest : List (List String)) :
    mergeSweep (fuel + 1) (common :: rest) =
      ((rest.foldl sweepStep (common, [], false)).1 :: (mergeSweep fuel (rest.foldl sweepStep (common, [], false)).2.1).1,
       (rest.foldl sweepStep (common, [], false)).2.2 || (mergeSweep fuel (rest.foldl sweepStep (common, [], false)).2.1).2) := rfl

/-- what one pass does to (common, remaining, merged) -/
theorem sweepFold (rest : List (List String)) : ∀ (c0 : List String) (r0 : List (List String)) (m0 : Bool),
    ∃ r', (rest.foldl sweepStep (c0, r0, m0)).2.1 = r0 ++ r' ∧
      Sub c0 (rest.foldl sweepStep (c0, r0, m0)).1 ∧
      (∀ x ∈ (rest.foldl sweepStep (c0, r0, m0)).1, x ∈ c0 ∨ ∃ s ∈ rest, x ∈ s) ∧
      (∀ s ∈ r', s ∈ rest) ∧
      (∀ s ∈ rest, Sub s (rest.foldl sweepStep (c0, r0, m0)).1 ∨ s ∈ r') ∧
      r'.length ≤ rest.length ∧
      (m0 = true → (rest.foldl sweepStep (c0, r0, m0)).2.2 = true) ∧
      (m0 = false → (rest.foldl sweepStep (c0, r0, m0)).2.2 = true → r'.length < rest.length) ∧
      ((rest.foldl sweepStep (c0, r0, m0)).2.2 = false →
        (rest.foldl sweepStep (c0, r0, m0)).1 = c0 ∧ r' = rest ∧ ∀ s ∈ rest, Apart c0 s) := by
  induction rest with
  | nil =>
    intro c0 r0 m0
    refine ⟨[], by simp, fun x h => h, fun x h => Or.inl h, by simp, by simp, by simp, by simp, by simp, ?_⟩
    intro _; simp
  | cons s rest ih =>
    intro c0 r0 m0
    simp only [foldl_cons]
    by_cases hs : s.any c0.contains = true
    · have e : sweepStep (c0, r0, m0) s = (unionStr c0 s, r0, true) := by simp [sweepStep, hs]
      rw [e]
      obtain ⟨r', h1, h2, h3, h4, h5, h6, h7, h8, h9⟩ := ih (unionStr c0 s) r0 true
      refine ⟨r', h1, ?_, ?_, ?_, ?_, ?_, ?_, ?_, ?_⟩
      · intro x hx; exact h2 x ((mem_unionStr c0 s x).mpr (Or.inl hx))
      · intro x hx
        rcases h3 x hx with h | ⟨t, ht, hxt⟩
        · rcases (mem_unionStr c0 s x).mp h with h | h
          · exact Or.inl h
          · exact Or.inr ⟨s, mem_cons_self, h⟩
        · exact Or.inr ⟨t, mem_cons_of_mem _ ht, hxt⟩
      · intro t ht; exact mem_cons_of_mem _ (h4 t ht)
      · intro t ht
        rcases mem_cons.mp ht with rfl | ht
        · left; intro x hx; exact h2 x ((mem_unionStr c0 t x).mpr (Or.inr hx))
        · exact h5 t ht
      · simp only [length_cons]; omega
      · intro _; exact h7 rfl
      · intro _ _; simp only [length_cons]; omega
      · intro hf; rw [h7 rfl] at hf; cases hf
    · have hs' : s.any c0.contains = false := by simpa using hs
      have e : sweepStep (c0, r0, m0) s = (c0, r0 ++ [s], m0) := by simp [sweepStep, hs']
      rw [e]
      obtain ⟨r', h1, h2, h3, h4, h5, h6, h7, h8, h9⟩ := ih c0 (r0 ++ [s]) m0
      refine ⟨s :: r', by rw [h1]; simp, h2, ?_, ?_, ?_, ?_, h7, ?_, ?_⟩
      · intro x hx
        rcases h3 x hx with h | ⟨t, ht, hxt⟩
        · exact Or.inl h
        · exact Or.inr ⟨t, mem_cons_of_mem _ ht, hxt⟩
      · intro t ht
        rcases mem_cons.mp ht with rfl | ht
        · exact mem_cons_self
        · exact mem_cons_of_mem _ (h4 t ht)
      · intro t ht
        rcases mem_cons.mp ht with rfl | ht
        · exact Or.inr mem_cons_self
        · rcases h5 t ht with h | h
          · exact Or.inl h
          · exact Or.inr (mem_cons_of_mem _ h)
      · simp only [length_cons]; omega
      · intro hm hf; have := h8 hm hf; simp only [length_cons]; omega
      · intro hf
        obtain ⟨a, b, c⟩ := h9 hf
        refine ⟨a, by rw [b], ?_⟩
        intro t ht
        rcases mem_cons.mp ht with rfl | ht
        · exact hs'
        · exact c t ht

/-! ### the inner `while sets:` loop -/

/-- every input set is contained in an output set, every output set contains an input set and consists of input elements -/
def Covers (out sets : List (List String)) : Prop :=
  (∀ s ∈ sets, ∃ t ∈ out, Sub s t) ∧ (∀ t ∈ out, ∃ s ∈ sets, Sub s t) ∧ (∀ t ∈ out, ∀ x ∈ t, ∃ s ∈ sets, x ∈ s)

theorem covers_refl (sets : List (List String)) : Covers sets sets :=
  ⟨fun s hs => ⟨s, hs, fun _ h => h⟩, fun s hs => ⟨s, hs, fun _ h => h⟩, fun t ht _ hx => ⟨t, ht, hx⟩⟩

theorem covers_trans (a b c : List (List String)) (h1 : Covers a b) (h2 : Covers b c) : Covers a c := by
  refine ⟨?_, ?_, ?_⟩
  · intro s hs
    obtain ⟨t, ht, hst⟩ := h2.1 s hs
    obtain ⟨u, hu, htu⟩ := h1.1 t ht
    exact ⟨u, hu, fun x hx => htu x (hst x hx)⟩
  · intro u hu
    obtain ⟨t, ht, htu⟩ := h1.2.1 u hu
    obtain ⟨s, hs, hst⟩ := h2.2.1 t ht
    exact ⟨s, hs, fun x hx => htu x (hst x hx)⟩
  · intro u hu x hx
    obtain ⟨t, ht, hxt⟩ := h1.2.2 u hu x hx
    exact h2.2.2 t ht x hxt

theorem mergeSweep_covers : ∀ (fuel : Nat) (sets : List (List String)), Covers (mergeSweep fuel sets).1 sets := by
  intro fuel
  induction fuel with
  | zero => intro sets; exact covers_refl sets
  | succ fuel ih =>
    intro sets
    cases sets with
    | nil => rw [mergeSweep_nil]; exact covers_refl []
    | cons common rest =>
      rw [mergeSweep_cons]
      obtain ⟨r', h1, h2, h3, h4, h5, _, _, _, _⟩ := sweepFold rest common [] false
      simp only [nil_append] at h1
      have hc := ih (rest.foldl sweepStep (common, [], false)).2.1
      rw [h1] at hc ⊢
      dsimp only
      refine ⟨?_, ?_, ?_⟩
      · intro s hs
        rcases mem_cons.mp hs with rfl | hs
        · exact ⟨_, mem_cons_self, h2⟩
        · rcases h5 s hs with h | h
          · exact ⟨_, mem_cons_self, h⟩
          · obtain ⟨t, ht, hst⟩ := hc.1 s h
            exact ⟨t, mem_cons_of_mem _ ht, hst⟩
      · intro t ht
        rcases mem_cons.mp ht with rfl | ht
        · exact ⟨common, mem_cons_self, h2⟩
        · obtain ⟨s, hs, hst⟩ := hc.2.1 t ht
          exact ⟨s, mem_cons_of_mem _ (h4 s hs), hst⟩
      · intro t ht x hx
        rcases mem_cons.mp ht with rfl | ht
        · rcases h3 x hx with h | ⟨s, hs, hxs⟩
          · exact ⟨common, mem_cons_self, h⟩
          · exact ⟨s, mem_cons_of_mem _ hs, hxs⟩
        · obtain ⟨s, hs, hxs⟩ := hc.2.2 t ht x hx
          exact ⟨s, mem_cons_of_mem _ (h4 s hs), hxs⟩

theorem mergeSweep_length : ∀ (fuel : Nat) (sets : List (List String)),
    (mergeSweep fuel sets).1.length ≤ sets.length ∧ ((mergeSweep fuel sets).2 = true → (mergeSweep fuel sets).1.length < sets.length) := by
  intro fuel
  induction fuel with
  | zero => intro sets; simp [mergeSweep_zero]
  | succ fuel ih =>
    intro sets
    cases sets with
    | nil => simp [mergeSweep_nil]
    | cons common rest =>
      rw [mergeSweep_cons]
      obtain ⟨r', h1, _, _, _, _, h6, _, h8, _⟩ := sweepFold rest common [] false
      simp only [nil_append] at h1
      have hc := ih (rest.foldl sweepStep (common, [], false)).2.1
      rw [h1] at hc ⊢
      dsimp only
      simp only [length_cons, Bool.or_eq_true]
      refine ⟨by omega, ?_⟩
      rintro (h | h)
      · have := h8 rfl h; omega
      · have := hc.2 h; omega

/-- a pass that merges nothing leaves the list as it is, and then every set is apart from all later ones -/
theorem mergeSweep_stable : ∀ (fuel : Nat) (sets : List (List String)), sets.length ≤ fuel → (mergeSweep fuel sets).2 = false →
    (mergeSweep fuel sets).1 = sets ∧ sets.Pairwise Apart := by
  intro fuel
  induction fuel with
  | zero =>
    intro sets hl _
    have : sets = [] := length_eq_zero_iff.mp (Nat.le_zero.mp hl)
    subst this; exact ⟨rfl, Pairwise.nil⟩
  | succ fuel ih =>
    intro sets hl hm
    cases sets with
    | nil => rw [mergeSweep_nil]; exact ⟨rfl, Pairwise.nil⟩
    | cons common rest =>
      rw [mergeSweep_cons] at hm ⊢
      obtain ⟨r', h1, _, _, _, _, _, _, _, h9⟩ := sweepFold rest common [] false
      simp only [nil_append] at h1
      dsimp only at hm ⊢
      rw [Bool.or_eq_false_iff] at hm
      obtain ⟨a, b, c⟩ := h9 hm.1
      rw [h1, b] at hm ⊢
      have hr := ih rest (by simp only [length_cons] at hl; omega) hm.2
      rw [a, hr.1]
      exact ⟨rfl, pairwise_cons.mpr ⟨c, hr.2⟩⟩

/-! ### the outer `while merged:` loop -/

theorem mergeFix_succ (fuel : Nat) (sets : List (List String)) :
    mergeFix (fuel + 1) sets =
      if (mergeSweep (sets.length + 1) sets).2 then mergeFix fuel (mergeSweep (sets.length + 1) sets).1
      else (mergeSweep (sets.length + 1) sets).1 := rfl

theorem mergeFix_covers : ∀ (fuel : Nat) (sets : List (List String)), Covers (mergeFix fuel sets) sets := by
  intro fuel
  induction fuel with
  | zero => intro sets; exact covers_refl sets
  | succ fuel ih =>
    intro sets
    rw [mergeFix_succ]
    split
    · exact covers_trans _ _ _ (ih _) (mergeSweep_covers _ sets)
    · exact mergeSweep_covers _ sets

/-- Target 5 (fuel): as many rounds as there are sets suffice for the loop to reach its fixed point, where the sets are
    pairwise disjoint -/
theorem mergeFix_apart : ∀ (fuel : Nat) (sets : List (List String)), sets.length ≤ fuel → (mergeFix fuel sets).Pairwise Apart := by
  intro fuel
  induction fuel with
  | zero =>
    intro sets hl
    have : sets = [] := length_eq_zero_iff.mp (Nat.le_zero.mp hl)
    subst this; exact Pairwise.nil
  | succ fuel ih =>
    intro sets hl
    rw [mergeFix_succ]
    split
    · rename_i hm
      have := (mergeSweep_length (sets.length + 1) sets).2 hm
      exact ih _ (by omega)
    · rename_i hm
      have hm' : (mergeSweep (sets.length + 1) sets).2 = false := by simpa using hm
      have := mergeSweep_stable (sets.length + 1) sets (by omega) hm'
      rw [this.1]; exact this.2

/-- the result really is a fixed point of the loop body: one more pass merges nothing -/
theorem mergeFix_fixed (fuel : Nat) (sets : List (List String)) (hl : sets.length ≤ fuel) :
    (mergeSweep ((mergeFix fuel sets).length + 1) (mergeFix fuel sets)).2 = false := by
  induction fuel generalizing sets with
  | zero =>
    have : sets = [] := length_eq_zero_iff.mp (Nat.le_zero.mp hl)
    subst this; rfl
  | succ fuel ih =>
    rw [mergeFix_succ]
    split
    · rename_i hm
      have := (mergeSweep_length (sets.length + 1) sets).2 hm
      exact ih _ (by omega)
    · rename_i hm
      have hm' : (mergeSweep (sets.length + 1) sets).2 = false := by simpa using hm
      have := mergeSweep_stable (sets.length + 1) sets (by omega) hm'
      rw [this.1]; exact hm'

/-- in a list of pairwise disjoint sets an element tells its set -/
theorem apart_unique : ∀ (l : List (List String)), l.Pairwise Apart → ∀ a b x, a ∈ l → b ∈ l → x ∈ a → x ∈ b → a = b := by
  intro l
  induction l with
  | nil => intro _ a b x ha; cases ha
  | cons y ys ih =>
    intro hp a b x ha hb hxa hxb
    rw [pairwise_cons] at hp
    rcases mem_cons.mp ha with ha' | ha' <;> rcases mem_cons.mp hb with hb' | hb'
    · rw [ha', hb']
    · subst ha'; exact absurd hxa ((apart_iff a b).mp (hp.1 b hb') x hxb)
    · subst hb'; exact absurd hxb ((apart_iff b a).mp (hp.1 a ha') x hxa)
    · exact ih hp.2 a b x ha' hb' hxa hxb

/-! ### mergeScripts -/

/-- the script sets `mergeScripts` ends up with -/
def mergedSets (b : List (List String × List KPair)) : List (List String) :=
  mergeFix (b.length + 1) ((b.map (·.1)).filter (fun k => !k.isEmpty))

def emptyBuckets (sets : List (List String)) : List (List String × List KPair) :=
  sets.foldl (fun acc s => if acc.any (fun e => e.1 == sortStr s) then acc else acc ++ [(sortStr s, [])]) []

def pourStep (sets : List (List String)) (acc : List (List String × List KPair)) (e : List String × List KPair) :
    List (List String × List KPair) :=
  match sets.find? (fun s2 => s2.any e.1.contains) with
  | some s2 => acc.map (fun x => if x.1 == sortStr s2 then (x.1, x.2 ++ e.2) else x)
  | none => acc

theorem mergeScripts_eq (b : List (List String × List KPair)) :
    mergeScripts b = b.foldl (pourStep (mergedSets b)) (emptyBuckets (mergedSets b)) := rfl

/-- Target 5 (disjoint): the merged script sets are pairwise disjoint -/
theorem mergedSets_apart (b : List (List String × List KPair)) : (mergedSets b).Pairwise Apart := by
  apply mergeFix_apart
  have := length_filter_le (fun k : List String => !k.isEmpty) (b.map (·.1))
  simp only [length_map] at this
  omega

theorem mergedSets_covers (b : List (List String × List KPair)) :
    Covers (mergedSets b) ((b.map (·.1)).filter (fun k => !k.isEmpty)) := mergeFix_covers _ _

theorem mergedSets_nonempty (b : List (List String × List KPair)) (t : List String) (ht : t ∈ mergedSets b) : t ≠ [] := by
  obtain ⟨s, hs, hst⟩ := (mergedSets_covers b).2.1 t ht
  simp only [mem_filter, Bool.not_eq_true', isEmpty_eq_false_iff] at hs
  intro h
  subst h
  cases s with
  | nil => exact hs.2 rfl
  | cons x _ => exact absurd (hst x mem_cons_self) (by simp)

/-- Target 5 (cover, "exactly one"): every bucket with a non-empty script key is contained in exactly one merged set — the one
    the pouring loop finds for it -/
theorem mergedSets_unique (b : List (List String × List KPair)) (e : List String × List KPair) (he : e ∈ b) (hk : e.1 ≠ []) :
    ∃ t ∈ mergedSets b, Sub e.1 t ∧ (∀ t' ∈ mergedSets b, t'.any e.1.contains = true → t' = t) ∧
      (mergedSets b).find? (fun s2 => s2.any e.1.contains) = some t := by
  have hmem : e.1 ∈ (b.map (·.1)).filter (fun k => !k.isEmpty) := by
    simp only [mem_filter, mem_map, Bool.not_eq_true', isEmpty_eq_false_iff]
    exact ⟨⟨e, he, rfl⟩, hk⟩
  obtain ⟨t, ht, hst⟩ := (mergedSets_covers b).1 e.1 hmem
  have huniq : ∀ t' ∈ mergedSets b, t'.any e.1.contains = true → t' = t := by
    intro t' ht' hany
    simp only [any_eq_true, contains_iff_mem] at hany
    obtain ⟨x, hx', hx⟩ := hany
    exact apart_unique _ (mergedSets_apart b) t' t x ht' ht hx' (hst x hx)
  refine ⟨t, ht, hst, huniq, ?_⟩
  cases hf : (mergedSets b).find? (fun s2 => s2.any e.1.contains) with
  | none =>
    rw [find?_eq_none] at hf
    have := hf t ht
    cases hk' : e.1 with
    | nil => exact absurd hk' hk
    | cons x xs =>
      exfalso; apply this
      simp only [any_eq_true, contains_iff_mem]
      exact ⟨x, hst x (by rw [hk']; exact mem_cons_self), by rw [hk']; exact mem_cons_self⟩
  | some t' =>
    have h1 := find?_some hf
    have h2 := mem_of_find?_eq_some hf
    rw [huniq t' h2 h1]

theorem find_none_of_empty (sets : List (List String)) (k : List String) (hk : k = []) :
    sets.find? (fun s2 => s2.any k.contains) = none := by
  subst hk; rw [find?_eq_none]; intro x _; simp

/-! keys of the empty buckets -/

theorem emptyBuckets_keys (sets : List (List String)) :
    ((emptyBuckets sets).map (·.1)).Nodup ∧ (∀ s ∈ sets, sortStr s ∈ (emptyBuckets sets).map (·.1)) ∧
    (emptyBuckets sets).flatMap (·.2) = [] := by
  unfold emptyBuckets
  suffices h : ∀ (acc : List (List String × List KPair)), (acc.map (·.1)).Nodup → acc.flatMap (·.2) = [] →
      ((sets.foldl (fun acc s => if acc.any (fun e => e.1 == sortStr s) then acc else acc ++ [(sortStr s, [])]) acc).map (·.1)).Nodup ∧
      (∀ k ∈ acc.map (·.1), k ∈ (sets.foldl (fun acc s => if acc.any (fun e => e.1 == sortStr s) then acc else acc ++ [(sortStr s, [])]) acc).map (·.1)) ∧
      (∀ s ∈ sets, sortStr s ∈ (sets.foldl (fun acc s => if acc.any (fun e => e.1 == sortStr s) then acc else acc ++ [(sortStr s, [])]) acc).map (·.1)) ∧
      (sets.foldl (fun acc s => if acc.any (fun e => e.1 == sortStr s) then acc else acc ++ [(sortStr s, [])]) acc).flatMap (·.2) = [] by
    obtain ⟨a, _, c, d⟩ := h [] (by simp) (by simp)
    exact ⟨a, c, d⟩
  induction sets with
  | nil => intro acc h1 h2; exact ⟨h1, fun k hk => hk, by simp, h2⟩
  | cons s sets ih =>
    intro acc h1 h2
    simp only [foldl_cons]
    by_cases hany : acc.any (fun e => e.1 == sortStr s) = true
    · rw [if_pos hany]
      obtain ⟨a, b, c, d⟩ := ih acc h1 h2
      refine ⟨a, b, ?_, d⟩
      intro t ht
      rcases mem_cons.mp ht with rfl | ht
      · apply b
        simp only [any_eq_true, beq_iff_eq] at hany
        obtain ⟨e, he, hek⟩ := hany
        exact mem_map.mpr ⟨e, he, hek⟩
      · exact c t ht
    · rw [if_neg hany]
      have hnot : sortStr s ∉ acc.map (·.1) := by
        intro hin
        apply hany
        obtain ⟨e, he, hek⟩ := mem_map.mp hin
        simp only [any_eq_true, beq_iff_eq]
        exact ⟨e, he, hek⟩
      obtain ⟨a, b, c, d⟩ := ih (acc ++ [(sortStr s, [])])
        (by
          rw [map_append, nodup_append]
          refine ⟨h1, by simp, ?_⟩
          intro x hx y hy
          simp only [map_cons, map_nil, mem_singleton] at hy
          subst hy
          intro hxy; subst hxy; exact hnot hx)
        (by rw [flatMap_append, h2]; simp)
      refine ⟨a, ?_, ?_, d⟩
      · intro k hk; apply b; rw [map_append]; exact mem_append_left _ hk
      · intro t ht
        rcases mem_cons.mp ht with rfl | ht
        · apply b; rw [map_append]; apply mem_append_right; simp
        · exact c t ht

/-- appending to the one bucket with a given key -/
theorem pour_one (k : List String) (ps : List KPair) : ∀ (acc : List (List String × List KPair)),
    (acc.map (·.1)).Nodup → k ∈ acc.map (·.1) →
    (acc.map (fun x => if x.1 == k then (x.1, x.2 ++ ps) else x)).map (·.1) = acc.map (·.1) ∧
    ((acc.map (fun x => if x.1 == k then (x.1, x.2 ++ ps) else x)).flatMap (·.2)).Perm (acc.flatMap (·.2) ++ ps) ∧
    (∃ x ∈ acc.map (fun x => if x.1 == k then (x.1, x.2 ++ ps) else x), x.1 = k ∧ ∀ p ∈ ps, p ∈ x.2) ∧
    (∀ y ∈ acc, ∃ x ∈ acc.map (fun x => if x.1 == k then (x.1, x.2 ++ ps) else x), x.1 = y.1 ∧ ∀ p ∈ y.2, p ∈ x.2) := by
  intro acc
  have hkeys : ∀ (acc : List (List String × List KPair)),
      (acc.map (fun x => if x.1 == k then (x.1, x.2 ++ ps) else x)).map (·.1) = acc.map (·.1) := by
    intro acc
    rw [map_map]; apply map_congr_left; intro x _
    simp only [Function.comp]; split <;> rfl
  have hmono : ∀ (acc : List (List String × List KPair)),
      ∀ y ∈ acc, ∃ x ∈ acc.map (fun x => if x.1 == k then (x.1, x.2 ++ ps) else x), x.1 = y.1 ∧ ∀ p ∈ y.2, p ∈ x.2 := by
    intro acc y hy
    refine ⟨_, mem_map_of_mem hy, ?_⟩
    split
    · exact ⟨rfl, fun p hp => mem_append_left _ hp⟩
    · exact ⟨rfl, fun p hp => hp⟩
  intro hn hk
  refine ⟨hkeys acc, ?_, ?_, hmono acc⟩
  · induction acc with
    | nil => cases hk
    | cons x xs ih =>
      rw [map_cons, nodup_cons] at hn
      by_cases hx : x.1 = k
      · have hid : xs.map (fun x => if x.1 == k then (x.1, x.2 ++ ps) else x) = xs := by
          conv => rhs; rw [← map_id xs]
          apply map_congr_left; intro y hy
          have : y.1 ≠ k := by intro h; apply hn.1; rw [hx, ← h]; exact mem_map_of_mem (f := (·.1)) hy
          have : (y.1 == k) = false := by simpa using this
          simp [this]
        simp only [map_cons, hx, beq_self_eq_true, if_true, flatMap_cons, hid]
        rw [append_assoc, append_assoc]
        exact Perm.append_left _ perm_append_comm
      · have hk' : k ∈ xs.map (·.1) := by
          rw [map_cons, mem_cons] at hk
          rcases hk with h | h
          · exact absurd h.symm hx
          · exact h
        have hb : (x.1 == k) = false := by simpa using hx
        simp only [map_cons, hb, Bool.false_eq_true, if_false, flatMap_cons, append_assoc]
        exact Perm.append_left _ (ih hn.2 hk')
  · obtain ⟨x, hx, hxk⟩ := mem_map.mp hk
    refine ⟨_, mem_map_of_mem hx, ?_⟩
    have : (x.1 == k) = true := by simpa using hxk
    simp only [this, if_true]
    exact ⟨hxk, fun p hp => mem_append_right _ hp⟩

/-- what a bucket contributes: its pairs if the loop finds a merged set for its key, nothing otherwise -/
def landed (sets : List (List String)) (e : List String × List KPair) : List KPair :=
  match sets.find? (fun s2 => s2.any e.1.contains) with
  | some _ => e.2
  | none => []

theorem pour_fold (sets : List (List String)) (K : List (List String)) (hK : K.Nodup) (hsets : ∀ s ∈ sets, sortStr s ∈ K) :
    ∀ (b : List (List String × List KPair)) (acc : List (List String × List KPair)), acc.map (·.1) = K →
    (b.foldl (pourStep sets) acc).map (·.1) = K ∧
    ((b.foldl (pourStep sets) acc).flatMap (·.2)).Perm (acc.flatMap (·.2) ++ b.flatMap (landed sets)) ∧
    (∀ y ∈ acc, ∃ x ∈ b.foldl (pourStep sets) acc, x.1 = y.1 ∧ ∀ p ∈ y.2, p ∈ x.2) ∧
    (∀ e ∈ b, ∀ s2, sets.find? (fun s2 => s2.any e.1.contains) = some s2 →
      ∃ x ∈ b.foldl (pourStep sets) acc, x.1 = sortStr s2 ∧ ∀ p ∈ e.2, p ∈ x.2) := by
  intro b
  induction b with
  | nil =>
    intro acc hacc
    refine ⟨hacc, by simp, fun y hy => ⟨y, hy, rfl, fun p hp => hp⟩, ?_⟩
    intro e he; cases he
  | cons e b ih =>
    intro acc hacc
    simp only [foldl_cons]
    cases hf : sets.find? (fun s2 => s2.any e.1.contains) with
    | none =>
      have hstep : pourStep sets acc e = acc := by simp only [pourStep, hf]
      rw [hstep]
      obtain ⟨a, p, m, c⟩ := ih acc hacc
      refine ⟨a, ?_, m, ?_⟩
      · simp only [flatMap_cons, landed, hf, nil_append]; exact p
      · intro e' he' s2 hs2
        rcases mem_cons.mp he' with rfl | he'
        · rw [hf] at hs2; cases hs2
        · exact c e' he' s2 hs2
    | some t =>
      have hstep : pourStep sets acc e = acc.map (fun x => if x.1 == sortStr t then (x.1, x.2 ++ e.2) else x) := by
        simp only [pourStep, hf]
      rw [hstep]
      have ht : t ∈ sets := mem_of_find?_eq_some hf
      obtain ⟨k1, k2, k3, k4⟩ := pour_one (sortStr t) e.2 acc (by rw [hacc]; exact hK) (by rw [hacc]; exact hsets t ht)
      obtain ⟨a, p, m, c⟩ := ih _ (k1.trans hacc)
      refine ⟨a, ?_, ?_, ?_⟩
      · simp only [flatMap_cons, landed, hf]
        refine p.trans ?_
        rw [← append_assoc]
        exact Perm.append_right _ k2
      · intro y hy
        obtain ⟨x, hx, hxy, hsub⟩ := k4 y hy
        obtain ⟨z, hz, hzx, hsub'⟩ := m x hx
        exact ⟨z, hz, hzx.trans hxy, fun q hq => hsub' q (hsub q hq)⟩
      · intro e' he' s2 hs2
        rcases mem_cons.mp he' with rfl | he'
        · rw [hf] at hs2; cases hs2
          obtain ⟨x, hx, hxk, hsub⟩ := k3
          obtain ⟨z, hz, hzx, hsub'⟩ := m x hx
          exact ⟨z, hz, hzx.trans hxk, fun q hq => hsub' q (hsub q hq)⟩
        · exact c e' he' s2 hs2

theorem flatMap_landed (sets : List (List String)) : ∀ (b : List (List String × List KPair)),
    (∀ e ∈ b, landed sets e = if (!e.1.isEmpty) = true then e.2 else []) →
    b.flatMap (landed sets) = (b.filter (fun e => !e.1.isEmpty)).flatMap (·.2) := by
  intro b
  induction b with
  | nil => intro _; rfl
  | cons e b ih =>
    intro h
    have ih' := ih (fun e' he' => h e' (mem_cons_of_mem _ he'))
    by_cases hk : (!e.1.isEmpty) = true
    · rw [filter_cons_of_pos (p := fun e : List String × List KPair => !e.1.isEmpty) hk, flatMap_cons, flatMap_cons,
        h e mem_cons_self, if_pos hk, ih']
    · rw [filter_cons_of_neg (p := fun e : List String × List KPair => !e.1.isEmpty) hk, flatMap_cons, h e mem_cons_self,
        if_neg hk, nil_append]; exact ih'

/-- Target 5 (multiset): `mergeScripts` keeps the multiset of pairs of all buckets with a non-empty script key -/
theorem mergeScripts_perm (b : List (List String × List KPair)) :
    ((mergeScripts b).flatMap (·.2)).Perm ((b.filter (fun e => !e.1.isEmpty)).flatMap (·.2)) := by
  rw [mergeScripts_eq]
  obtain ⟨k1, k2, k3⟩ := emptyBuckets_keys (mergedSets b)
  obtain ⟨_, p, _, _⟩ := pour_fold (mergedSets b) _ k1 k2 b (emptyBuckets (mergedSets b)) rfl
  rw [k3, nil_append] at p
  refine p.trans (Perm.of_eq ?_)
  apply flatMap_landed
  intro e he
  by_cases hk : e.1 = []
  · have h := find_none_of_empty (mergedSets b) e.1 hk
    unfold landed; rw [h]; simp [hk]
  · obtain ⟨t, _, _, _, hf⟩ := mergedSets_unique b e he hk
    have : e.1.isEmpty = false := by simpa using hk
    simp [landed, hf, this]

/-- Target 5 (same bucket): the pairs of a bucket all go to the output bucket named by the merged set that contains the
    bucket's key — so two buckets that share a script (an exception and the class cell it excepts) end up in one list -/
theorem mergeScripts_lands (b : List (List String × List KPair)) (e : List String × List KPair) (he : e ∈ b) (hk : e.1 ≠ []) :
    ∃ t ∈ mergedSets b, Sub e.1 t ∧ ∃ x ∈ mergeScripts b, x.1 = sortStr t ∧ ∀ p ∈ e.2, p ∈ x.2 := by
  obtain ⟨t, ht, hsub, _, hf⟩ := mergedSets_unique b e he hk
  rw [mergeScripts_eq]
  obtain ⟨k1, k2, _⟩ := emptyBuckets_keys (mergedSets b)
  obtain ⟨_, _, _, c⟩ := pour_fold (mergedSets b) _ k1 k2 b (emptyBuckets (mergedSets b)) rfl
  exact ⟨t, ht, hsub, c e he t hf⟩

/-- two buckets whose keys share a script are contained in the same merged set -/
theorem mergedSets_share (b : List (List String × List KPair)) (e e' : List String × List KPair) (he : e ∈ b) (he' : e' ∈ b)
    (x : String) (hx : x ∈ e.1) (hx' : x ∈ e'.1) :
    ∃ t ∈ mergedSets b, Sub e.1 t ∧ Sub e'.1 t := by
  obtain ⟨t, ht, hsub, _, _⟩ := mergedSets_unique b e he (by intro h; rw [h] at hx; cases hx)
  obtain ⟨t', ht', hsub', _, _⟩ := mergedSets_unique b e' he' (by intro h; rw [h] at hx'; cases hx')
  have := apart_unique _ (mergedSets_apart b) t t' x ht ht' (hsub x hx) (hsub' x hx')
  subst this
  exact ⟨t, ht, hsub, hsub'⟩

/-- non-vacuity: three buckets, the first two sharing "Latn" -/
example : ∃ t ∈ mergedSets [(["Grek", "Latn"], [⟨.glyph "A", .glyph "V", 1⟩]), (["Cyrl", "Latn"], [⟨.glyph "A", .glyph "W", 2⟩]),
      (["Arab"], [⟨.glyph "x", .glyph "y", 3⟩])], Sub ["Grek", "Latn"] t ∧ Sub ["Cyrl", "Latn"] t :=
  mergedSets_share _ (["Grek", "Latn"], [⟨.glyph "A", .glyph "V", 1⟩]) (["Cyrl", "Latn"], [⟨.glyph "A", .glyph "W", 2⟩])
    (by simp) (by simp) "Latn" (by simp) (by simp)

end Ufo2ft.C05
