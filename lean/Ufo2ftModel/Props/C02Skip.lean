import Ufo2ftModel.Props.C02
import Ufo2ftModel.Props.C01Skip
/-! C02 with a skip-export list: the TrueType pre-processing chain (skip-export splice, decomposition of mixed glyphs,
    optional flattening) keeps what every exported glyph draws, as a multiset of contours. -/
namespace Ufo2ft.C02
open Ufo2ft List

/-- the reduced glyph set produced by the skip-export filter is again well-formed -/
theorem skipExport_good (skip : List String) (gs : GlyphSet) (st1 : FState) (rank : String → Nat)
    (hg : Good gs rank) (hn : Named gs) (h1 : skipExport skip (fun _ => true) gs = .ok st1) :
    Good st1.gs rank ∧ Named st1.gs := by
  unfold skipExport at h1
  cases hr : runFilter (skipExportStep skip) (fun _ => true) gs with
  | error e => rw [hr] at h1; cases h1
  | ok st0 =>
    rw [hr] at h1
    have := Except.ok.inj h1; subst this
    have hs0 := runFilter_sameRender (skipExportStep skip) rank
      (stepOK_of_isDecomp rank _ (skipExportStep_isDecomp skip)) (fun _ => true) gs st0 hr hg hn
    exact C01.good_filter skip st0.gs rank hs0.1 hs0.2.1

/-- **C02_render_skip**: for any skip-export list over a well-formed glyph set, after the splice, the mixed-glyph
    decomposition and (optionally) flattening, every exported glyph is still there, has contours or components but not
    both, and draws — under any non-singular outer transform — a permutation of the contours its source drew
    (references to skipped glyphs having been replaced by their outlines). -/
theorem C02_render_skip (skip : List String) (gs : GlyphSet) (st1 st st2 : FState) (rank : String → Nat)
    (hg : Good gs rank) (hn : Named gs)
    (h1 : skipExport skip (fun _ => true) gs = .ok st1)
    (h : runFilter decomposeStep (hasContours st1.gs) st1.gs = .ok st)
    (h2 : runFilter flattenStep (fun _ => true) st.gs = .ok st2)
    (n : String) (g : Glyph) (hs : skip.contains n = false) (hget : gs.get? n = some g) :
    ∃ g2, st2.gs.get? n = some g2 ∧
      ∀ S f, S.det ≠ 0 → rank n < f → (render f st2.gs S g2).Perm (render f gs S g) := by
  obtain ⟨_, hrender⟩ := C13.C13_render skip gs st1 rank hg hn h1
  obtain ⟨g1, hg1, _, _, _, _, hperm⟩ := hrender n g hs hget
  obtain ⟨hgood1, hnamed1⟩ := skipExport_good skip gs st1 rank hg hn h1
  have hsame := C02_render st1.gs st st2 rank hgood1 hnamed1 h h2
  obtain ⟨hsome, heq⟩ := hsame n
  cases hp : st2.gs.get? n with
  | none => rw [hp, hg1] at hsome; cases hsome
  | some g2 =>
    refine ⟨g2, rfl, ?_⟩
    intro S f hS hf
    exact (heq g2 g1 hp hg1 S f hS hf).trans (hperm S f hS hf)

/-- without flattening -/
theorem C02_mixed_skip (skip : List String) (gs : GlyphSet) (st1 st : FState) (rank : String → Nat)
    (hg : Good gs rank) (hn : Named gs)
    (h1 : skipExport skip (fun _ => true) gs = .ok st1)
    (h : runFilter decomposeStep (hasContours st1.gs) st1.gs = .ok st)
    (n : String) (g : Glyph) (hs : skip.contains n = false) (hget : gs.get? n = some g) :
    ∃ g2, st.gs.get? n = some g2 ∧ (g2.contours = [] ∨ g2.comps = []) ∧
      ∀ S f, S.det ≠ 0 → rank n < f → (render f st.gs S g2).Perm (render f gs S g) := by
  obtain ⟨_, hrender⟩ := C13.C13_render skip gs st1 rank hg hn h1
  obtain ⟨g1, hg1, _, _, _, _, hperm⟩ := hrender n g hs hget
  obtain ⟨hgood1, hnamed1⟩ := skipExport_good skip gs st1 rank hg hn h1
  obtain ⟨hmixed, hsame⟩ := C02_mixed st1.gs st rank hgood1 hnamed1 h
  obtain ⟨hsome, heq⟩ := hsame n
  cases hp : st.gs.get? n with
  | none => rw [hp, hg1] at hsome; cases hsome
  | some g2 =>
    refine ⟨g2, rfl, hmixed n g2 hp, ?_⟩
    intro S f hS hf
    exact (heq g2 g1 hp hg1 S f hS hf).trans (hperm S f hS hf)

end Ufo2ft.C02
