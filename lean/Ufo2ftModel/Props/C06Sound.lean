import Ufo2ftModel.Props.C06Build
/-! C06, part 8: soundness — every attachment is "anchor on b minus anchor on m" for a matching source anchor pair. -/
namespace Ufo2ft.C06
open List

theorem attach_some {P : Program} {ls : List Lookup} {b m : String} {c : Option Nat} {d : Int × Int}
    (h : attach P ls b m c = some d) : ∃ L ∈ ls, attachLookup P L b m c = some d := by
  obtain ⟨L, hL, hd⟩ := exists_of_findSome?_eq_some h
  exact ⟨L, mem_reverse.mp hL, hd⟩

theorem mem_of_getLast? {α} {l : List α} {a : α} (h : l.getLast? = some a) : a ∈ l := by
  obtain ⟨ys, rfl⟩ := getLast?_eq_some_iff.mp h
  simp

theorem markIn_some {P : Program} {L : Lookup} {m : String} {x : String × Int × Int} (h : markIn P L m = some x) :
    ∃ cls ∈ P.classes, cls.1 ∈ usedClasses L ∧ ∃ r ∈ cls.2, r.glyph = m ∧ x = (cls.1, r.x, r.y) := by
  obtain ⟨cls, hcls, hf⟩ := exists_of_findSome?_eq_some h
  split at hf
  · rename_i hu
    cases hfind : cls.2.find? (fun r => r.glyph == m) with
    | none => rw [hfind] at hf; simp at hf
    | some r =>
      rw [hfind] at hf; simp only [Option.map_some, Option.some.injEq] at hf
      exact ⟨cls, hcls, by simpa using hu, r, mem_of_find?_eq_some hfind, by simpa using find?_some hfind, hf.symm⟩
  · simp at hf

theorem attachLookup_some {P : Program} {L : Lookup} {b m : String} {c : Option Nat} {d : Int × Int}
    (h : attachLookup P L b m c = some d) :
    kindMatches L.kind c = true ∧ ∃ e ∈ L.entries, e.glyph = b ∧ ∃ cls ∈ P.classes, cls.1 ∈ usedClasses L ∧
      ∃ r ∈ cls.2, r.glyph = m ∧ ∃ comp, e.comps[c.getD 0]? = some comp ∧
        ∃ t ∈ comp, t.1 = cls.1 ∧ d = (t.2.1 - r.x, t.2.2 - r.y) := by
  unfold attachLookup at h
  split at h
  · rename_i hk
    refine ⟨hk, ?_⟩
    cases hfe : L.entries.find? (fun e => e.glyph == b) with
    | none => rw [hfe] at h; simp at h
    | some e =>
      cases hmi : markIn P L m with
      | none => rw [hfe, hmi] at h; simp at h
      | some x =>
        obtain ⟨cn, mx, my⟩ := x
        rw [hfe, hmi] at h
        simp only at h
        obtain ⟨cls, hcls, hu, r, hr, hrm, hx⟩ := markIn_some hmi
        simp only [Prod.mk.injEq] at hx
        obtain ⟨rfl, rfl, rfl⟩ := hx
        cases hcomp : e.comps[c.getD 0]? with
        | none => rw [hcomp] at h; simp at h
        | some comp =>
          rw [hcomp] at h
          simp only at h
          cases ht : (comp.filter (fun t => t.1 == cls.1)).getLast? with
          | none => rw [ht] at h; simp at h
          | some t =>
            rw [ht] at h
            simp only [Option.some.injEq] at h
            have htm := mem_of_getLast? ht
            obtain ⟨ht1, ht2⟩ := mem_filter.mp htm
            exact ⟨e, mem_of_find?_eq_some hfe, by simpa using find?_some hfe, cls, hcls, hu, r, hr, hrm, comp, hcomp,
              t, ht1, by simpa using ht2, h.symm⟩
  · simp at h

theorem kindMatches_none {k : Kind} (h : kindMatches k none = true) : k ≠ .liga := by
  cases k <;> simp [kindMatches] at h ⊢

theorem kindMatches_some {k : Kind} {j : Nat} (h : kindMatches k (some j) = true) : k = .liga := by
  cases k <;> simp [kindMatches] at h ⊢

theorem mem_candidates {i : Input} {b m : String} {c : Option Nat} {d : Int × Int} {gb gm : SrcGlyph}
    (hb : findGlyph i b = some gb) (hm : findGlyph i m = some gm) {sb sm : SrcAnchor} (hsb : sb ∈ gb.anchors)
    (hsm : sm ∈ gm.anchors) {k : List Char} (hk : markKey sm.name.toList = some k)
    (hmatch : baseNameMatches k c sb.name.toList = true)
    (hd : d = (qround i.quant sb.x - qround i.quant sm.x, qround i.quant sb.y - qround i.quant sm.y)) :
    d ∈ candidates i b m c := by
  unfold candidates
  rw [hb, hm]
  simp only
  refine mem_flatMap.mpr ⟨sm, hsm, ?_⟩
  rw [hk]
  simp only
  exact mem_map.mpr ⟨sb, mem_filter.mpr ⟨hsb, hmatch⟩, hd.symm⟩

/-- C06_offset for any sub-list of the generated lookups -/
theorem offset_sound {i : Input} {al : AList} (w : ALwf i al) {ls : List Lookup}
    (hls : ∀ L ∈ ls, L ∈ (build i al).lookups) {b m : String} {c : Option Nat} {d : Int × Int}
    (h : attach (build i al) ls b m c = some d) : d ∈ candidates i b m c := by
  obtain ⟨L, hL, hat⟩ := attach_some h
  obtain ⟨hk, e, he, heg, cls, hcls, _, r, hr, hrm, comp, hcomp, t, ht, htc, hd⟩ := attachLookup_some hat
  -- the base side
  obtain ⟨bA, htb, ⟨asb, hasb, hba⟩, hclass, hnum, hplain⟩ := build_lookups_ok i al L (hls L hL) e he _ comp hcomp t ht
  rw [heg] at hasb
  -- the mark side
  have hcls' : cls ∈ clsOf i al := hcls
  obtain ⟨aM, ⟨asm, hasm, ham⟩, hmark, _, hcn, hgn, hrx, hry, hsM⟩ := clsOf_mem w hcls' hr
  rw [hrm] at hasm
  -- same class ⇒ same key
  obtain ⟨hnm, hkne, n, hnmem, hkey, hcn2⟩ := classOf_kmOf w hclass
  have hsA := w.shape _ hasb bA.a hba hplain
  have hn : n = aM.name := by
    have : cnOf i al n = cnOf i al aM.name := by rw [← hcn2, ← hcn, ← htc, htb]
    exact (makeClasses_meOf w).2 n hnmem aM.name hgn this
  have hkeys : aM.key = bA.a.key := by rw [← hkey, hn, keyOfMarkName_eq hsM hmark]
  -- source anchors
  obtain ⟨gb, hgb, _, hsrcb⟩ := w.src _ hasb
  obtain ⟨gm, hgm, _, hsrcm⟩ := w.src _ hasm
  obtain ⟨sb, hsb, hsbn, hsbx, hsby⟩ := hsrcb bA.a hba
  obtain ⟨sm, hsm, hsmn, hsmx, hsmy⟩ := hsrcm aM ham
  obtain ⟨hmn, hpk, _⟩ := hsM.mark hmark
  have hkne' : aM.key.toList ≠ [] := by
    obtain ⟨⟨c', r', e', _⟩, _⟩ := (plainKey_iff _).mp hpk
    rw [e']; simp
  refine mem_candidates hgb hgm hsb hsm (k := aM.key.toList) ?_ ?_ ?_
  · rw [hsmn, hmn]; simp [markKey, hkne']
  · rw [hsbn, hkeys]
    cases c with
    | none =>
      have hkl := kindMatches_none hk
      simp only [hkl, if_false] at hnum
      obtain ⟨e1, _⟩ := hsA.base hnm hnum
      simp [baseNameMatches, e1]
    | some j =>
      have hkl := kindMatches_some hk
      simp only [hkl, if_true, Option.getD_some] at hnum
      obtain ⟨_, e1, _⟩ := hsA.lig hnm _ hnum
      simpa [baseNameMatches] using e1
  · rw [hd, htb]
    simp only [qround, ← hsbx, ← hsby, ← hsmx, ← hsmy, hrx, hry]

end Ufo2ft.C06
