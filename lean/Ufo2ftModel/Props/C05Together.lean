import Ufo2ftModel.Props.C05Merge
import Ufo2ftModel.Props.C05Part
import Ufo2ftModel.Props.C05Ufo
/-! C05, parts 5+6 combined: in `splitKerning`, the split pairs of two source pairs (an exception and the class pair it excepts)
    that match the same glyph pair end up in the same script bucket, hence in the same lookup, where `KerningPair` order lets
    the exception win. -/
namespace Ufo2ft.C05
open Ufo2ft List

/-! ### the script key of a cell -/

theorem mem_foldl_union (c : Ctx) (s : String) : ∀ (gl : List String) (acc : List String),
    s ∈ gl.foldl (fun acc g => unionStr acc (c.resolved g)) acc ↔ s ∈ acc ∨ ∃ g ∈ gl, s ∈ c.resolved g := by
  intro gl
  induction gl with
  | nil => intro acc; simp
  | cons g gl ih =>
    intro acc
    rw [foldl_cons, ih, mem_unionStr]
    constructor
    · rintro ((h | h) | ⟨g', hg', h⟩)
      · exact Or.inl h
      · exact Or.inr ⟨g, mem_cons_self, h⟩
      · exact Or.inr ⟨g', mem_cons_of_mem _ hg', h⟩
    · rintro (h | ⟨g', hg', h⟩)
      · exact Or.inl (Or.inl h)
      · rcases mem_cons.mp hg' with rfl | hg'
        · exact Or.inl (Or.inr h)
        · exact Or.inr ⟨g', hg', h⟩

/-- the bucket key of a split pair holds every script of the glyphs it matches, except that Common is kept only if both
    sides have it -/
theorem partition_key (c : Ctx) (p : KPair) (k : List String) (sp : KPair) (h : (k, sp) ∈ partitionByScript c p)
    (g1 g2 : String) (hm : Matches sp g1 g2) :
    (∀ s, (s ∈ c.resolved g1 ∨ s ∈ c.resolved g2) → s ≠ COMMON → s ∈ k) ∧
    (COMMON ∈ c.resolved g1 → COMMON ∈ c.resolved g2 → COMMON ∈ k) := by
  rw [partitionByScript_eq, mem_filterMap] at h
  obtain ⟨e, _, hc⟩ := h
  unfold cellOf at hc
  dsimp only at hc
  generalize (if p.side1.isClass then Side.cls (sortStr e.1.2) else Side.glyph (e.1.2.headD "")) = L1 at hc
  generalize (if p.side2.isClass then Side.cls (sortStr e.2.2) else Side.glyph (e.2.2.headD "")) = L2 at hc
  by_cases hmix : (e.1.1 != e.2.1 && e.1.1 != "Auto" && e.2.1 != "Auto") = true
  · rw [if_pos hmix] at hc; cases hc
  · rw [if_neg hmix] at hc
    simp only [Option.some.injEq, Prod.mk.injEq] at hc
    obtain ⟨hk, hsp⟩ := hc
    subst hsp
    dsimp only [Matches] at hm
    have in1 : ∀ s, s ∈ c.resolved g1 → s ∈ L1.glyphs.foldl (fun acc g => unionStr acc (c.resolved g)) [] :=
      fun s hs => (mem_foldl_union c s _ []).mpr (Or.inr ⟨g1, hm.1, hs⟩)
    have in2 : ∀ s, s ∈ c.resolved g2 → s ∈ L2.glyphs.foldl (fun acc g => unionStr acc (c.resolved g)) [] :=
      fun s hs => (mem_foldl_union c s _ []).mpr (Or.inr ⟨g2, hm.2, hs⟩)
    generalize L1.glyphs.foldl (fun acc g => unionStr acc (c.resolved g)) [] = S1 at hk in1
    generalize L2.glyphs.foldl (fun acc g => unionStr acc (c.resolved g)) [] = S2 at hk in2
    subst hk
    constructor
    · intro s hs hne
      rw [mem_sortStr]
      have hu : s ∈ unionStr S1 S2 := (mem_unionStr _ _ s).mpr (hs.elim (fun h => Or.inl (in1 s h)) (fun h => Or.inr (in2 s h)))
      by_cases hb : (S1.contains COMMON && S2.contains COMMON) = true
      · rw [if_pos hb]; exact hu
      · rw [if_neg hb]; exact mem_filter.mpr ⟨hu, by simpa using hne⟩
    · intro h1 h2
      rw [mem_sortStr]
      have c1 := in1 COMMON h1
      have c2 := in2 COMMON h2
      have hu : COMMON ∈ unionStr S1 S2 := (mem_unionStr _ _ COMMON).mpr (Or.inl c1)
      have hb : (S1.contains COMMON && S2.contains COMMON) = true := by
        rw [Bool.and_eq_true]; exact ⟨contains_iff_mem.mpr c1, contains_iff_mem.mpr c2⟩
      rw [if_pos hb]; exact hu

/-! ### the buckets before merging -/

def rawBuckets (c : Ctx) (pairs : List KPair) : List (List String × List KPair) :=
  pairs.foldl (fun b p => (partitionByScript c p).foldl (fun b (x : List String × KPair) => bucketAdd b x.1 x.2) b) []

theorem splitKerning_eq (c : Ctx) (pairs : List KPair) :
    splitKerning c pairs = (mergeScripts (rawBuckets c pairs)).map (fun e => (e.1, sortPairs e.2)) := rfl

def InBucket (b : List (List String × List KPair)) (k : List String) (sp : KPair) : Prop := ∃ e ∈ b, e.1 = k ∧ sp ∈ e.2

theorem bucketAdd_in (b : List (List String × List KPair)) (k : List String) (sp : KPair) :
    InBucket (bucketAdd b k sp) k sp ∧ ∀ k' q, InBucket b k' q → InBucket (bucketAdd b k sp) k' q := by
  unfold bucketAdd
  cases hf : b.find? (fun e => e.1 == k) with
  | some v =>
    dsimp only
    have hin := mem_of_find?_eq_some hf
    have hk : v.1 = k := by simpa using find?_some hf
    constructor
    · refine ⟨_, mem_map_of_mem hin, ?_⟩
      simp [hk]
    · rintro k' q ⟨e, he, hk', hq⟩
      refine ⟨_, mem_map_of_mem he, ?_⟩
      split
      · exact ⟨hk', mem_append_left _ hq⟩
      · exact ⟨hk', hq⟩
  | none =>
    dsimp only
    constructor
    · exact ⟨(k, [sp]), by simp, rfl, by simp⟩
    · rintro k' q ⟨e, he, hk', hq⟩
      exact ⟨e, mem_append_left _ he, hk', hq⟩

theorem rawBuckets_in (c : Ctx) : ∀ (pairs : List KPair) (b : List (List String × List KPair)),
    (∀ k q, InBucket b k q → InBucket (pairs.foldl (fun b p => (partitionByScript c p).foldl
      (fun b (x : List String × KPair) => bucketAdd b x.1 x.2) b) b) k q) ∧
    (∀ p ∈ pairs, ∀ x ∈ partitionByScript c p, InBucket (pairs.foldl (fun b p => (partitionByScript c p).foldl
      (fun b (x : List String × KPair) => bucketAdd b x.1 x.2) b) b) x.1 x.2) := by
  intro pairs
  induction pairs with
  | nil => intro b; exact ⟨fun k q h => h, fun p hp => by cases hp⟩
  | cons p ps ih =>
    intro b
    rw [foldl_cons]
    have inner : ∀ (xs : List (List String × KPair)) (b : List (List String × List KPair)),
        (∀ k q, InBucket b k q → InBucket (xs.foldl (fun b (x : List String × KPair) => bucketAdd b x.1 x.2) b) k q) ∧
        (∀ x ∈ xs, InBucket (xs.foldl (fun b (x : List String × KPair) => bucketAdd b x.1 x.2) b) x.1 x.2) := by
      intro xs
      induction xs with
      | nil => intro b; exact ⟨fun k q h => h, fun x hx => by cases hx⟩
      | cons x xs ih2 =>
        intro b
        rw [foldl_cons]
        obtain ⟨m, l⟩ := ih2 (bucketAdd b x.1 x.2)
        obtain ⟨a1, a2⟩ := bucketAdd_in b x.1 x.2
        refine ⟨fun k q h => m k q (a2 k q h), ?_⟩
        intro x' hx'
        rcases mem_cons.mp hx' with rfl | hx'
        · exact m _ _ a1
        · exact l x' hx'
    obtain ⟨m1, l1⟩ := inner (partitionByScript c p) b
    obtain ⟨m2, l2⟩ := ih ((partitionByScript c p).foldl (fun b (x : List String × KPair) => bucketAdd b x.1 x.2) b)
    refine ⟨fun k q h => m2 k q (m1 k q h), ?_⟩
    intro p' hp' x hx
    rcases mem_cons.mp hp' with rfl | hp'
    · exact m2 _ _ (l1 x hx)
    · exact l2 p' hp' x hx

theorem mergeScripts_keys_nodup (b : List (List String × List KPair)) : ((mergeScripts b).map (·.1)).Nodup := by
  rw [mergeScripts_eq]
  obtain ⟨k1, k2, _⟩ := emptyBuckets_keys (mergedSets b)
  obtain ⟨hk, _, _, _⟩ := pour_fold (mergedSets b) _ k1 k2 b (emptyBuckets (mergedSets b)) rfl
  rw [hk]; exact k1

/-- Parts 5+6 ("exceptions and the class cell they except stay together"): two split pairs — of any two source pairs — that
    match the same glyph pair, whose glyphs have a script other than Common or are both Common, are in the same output list
    of `splitKerning`, i.e. in the same lookup -/
theorem splitKerning_together (c : Ctx) (pairs : List KPair) (p p' : KPair) (hp : p ∈ pairs) (hp' : p' ∈ pairs)
    (x x' : List String × KPair) (hx : x ∈ partitionByScript c p) (hx' : x' ∈ partitionByScript c p')
    (g1 g2 : String) (hm : Matches x.2 g1 g2) (hm' : Matches x'.2 g1 g2)
    (hs : (∃ s, (s ∈ c.resolved g1 ∨ s ∈ c.resolved g2) ∧ s ≠ COMMON) ∨ (COMMON ∈ c.resolved g1 ∧ COMMON ∈ c.resolved g2)) :
    ∃ e ∈ splitKerning c pairs, x.2 ∈ e.2 ∧ x'.2 ∈ e.2 := by
  -- the two bucket keys share a script
  have hshare : ∃ s, s ∈ x.1 ∧ s ∈ x'.1 := by
    have k := partition_key c p x.1 x.2 hx g1 g2 hm
    have k' := partition_key c p' x'.1 x'.2 hx' g1 g2 hm'
    rcases hs with ⟨s, hs, hne⟩ | ⟨h1, h2⟩
    · exact ⟨s, k.1 s hs hne, k'.1 s hs hne⟩
    · exact ⟨COMMON, k.2 h1 h2, k'.2 h1 h2⟩
  obtain ⟨s, hs1, hs2⟩ := hshare
  obtain ⟨e, he, hek, hxe⟩ := (rawBuckets_in c pairs []).2 p hp x hx
  obtain ⟨e', he', hek', hxe'⟩ := (rawBuckets_in c pairs []).2 p' hp' x' hx'
  have hne : e.1 ≠ [] := by intro h; rw [hek] at h; rw [h] at hs1; cases hs1
  have hne' : e'.1 ≠ [] := by intro h; rw [hek'] at h; rw [h] at hs2; cases hs2
  obtain ⟨t, ht, hsub, y, hy, hyk, hyall⟩ := mergeScripts_lands (rawBuckets c pairs) e he hne
  obtain ⟨t', ht', hsub', y', hy', hyk', hyall'⟩ := mergeScripts_lands (rawBuckets c pairs) e' he' hne'
  have htt : t = t' := apart_unique _ (mergedSets_apart (rawBuckets c pairs)) t t' s ht ht'
    (hsub s (hek ▸ hs1)) (hsub' s (hek' ▸ hs2))
  subst htt
  have hyy : y = y' := map_nodup_inj (·.1) _ (mergeScripts_keys_nodup (rawBuckets c pairs)) y y' hy hy' (hyk.trans hyk'.symm)
  subst hyy
  rw [splitKerning_eq]
  refine ⟨(y.1, sortPairs y.2), mem_map.mpr ⟨y, hy, rfl⟩, ?_, ?_⟩
  · exact (mem_sortPairs _ _).mpr (hyall _ hxe)
  · exact (mem_sortPairs _ _).mpr (hyall' _ hxe')

/-- non-vacuity: the Latin cell of a Latin × (Latin + Arabic) class pair and its glyph-glyph exception share a lookup -/
example : ∃ e ∈ splitKerning exCtx [⟨.cls ["A"], .cls ["V", "alef-ar"], -10⟩, ⟨.glyph "A", .glyph "V", 5⟩],
    ∃ a ∈ e.2, ∃ b ∈ e.2, a.value = -10 ∧ b.value = 5 ∧ Matches a "A" "V" ∧ Matches b "A" "V" := by
  obtain ⟨x, hx, hm, hv⟩ := partition_complete exCtx ⟨.cls ["A"], .cls ["V", "alef-ar"], -10⟩ "A" "V"
    (by simp [Matches, Side.glyphs]) "Latn" "Latn" (by decide +kernel) (by decide +kernel) (by decide +kernel)
  obtain ⟨x', hx', hm', hv'⟩ := partition_complete exCtx ⟨.glyph "A", .glyph "V", 5⟩ "A" "V"
    (by simp [Matches, Side.glyphs]) "Latn" "Latn" (by decide +kernel) (by decide +kernel) (by decide +kernel)
  obtain ⟨e, he, h1, h2⟩ := splitKerning_together exCtx [⟨.cls ["A"], .cls ["V", "alef-ar"], -10⟩, ⟨.glyph "A", .glyph "V", 5⟩]
    ⟨.cls ["A"], .cls ["V", "alef-ar"], -10⟩ ⟨.glyph "A", .glyph "V", 5⟩ (by simp) (by simp) x x' hx hx' "A" "V" hm hm'
    (Or.inl ⟨"Latn", Or.inl (by decide +kernel), by decide⟩)
  exact ⟨e, he, x.2, h1, x'.2, h2, hv, hv', hm, hm'⟩

end Ufo2ft.C05
