import Ufo2ftModel.Spec.C08Env
/-!
Property C08, the calendar: the model's `stampOf` (epoch seconds ↦ year, month, day, hour, minute, second by the era arithmetic
of `civilFromDays`: 400 years = 146097 days, years starting in March) against the spec's `denotes` (days counted year by year
with the 4 / 100 / 400 leap rule and month by month, `Spec/C08Env.lean`) — for EVERY epoch, not per observed case.

  created_calendar      ∀ e, denotes (stampOf e) e                      (the model's date is a valid date and denotes e)
  created_unique / created_calendar_iff   denotes f e ↔ f = stampOf e   (and it is the only one: "modelDate = specDate")
  created_holds         the model satisfies `holdsCreated` on every input
  civil_correct         ∀ z, civilFromDays z is valid and daysSince1970 (civilFromDays z) = z          (days → civil → days)
  civil_roundtrip       valid (y, m, d), y ≥ 1970 → civilFromDays (daysSince1970 y m d) = (y, m, d)     (civil → days → civil)

`daysSince1970` is structural (sums over `List.range`), no fuel.  Range: the model is over `Nat`, the theorems hold for every
e ≥ 0; the code (`datetime.fromtimestamp`) accepts 0 ≤ e ≤ 253402300799 (9999-12-31 23:59:59) and raises beyond; negative
values are outside the model (`Epoch.value` carries a `Nat`).

Route: `daysBeforeYear` = closed form of the year-by-year sum (`yearSum`, induction), `cumDays` = table of the month-by-month sum
(`monthSum`); every day of an era is (century c ≤ 3, 4-year cycle q ≤ 24, year s ≤ 3, day doy) with the leap day exactly where
the rules put it (`doe_decomp`); on such a day the model's year-of-era formula gives 100c + 4q + s (`yoe_of`); the rest is
linear arithmetic (`omega`) per month.
-/
namespace Ufo2ft.C08

/-- closed form of the year-by-year count up to January 1st of year `y` (up to a constant): 365 per year + one per leap year
among 1 .. y-1 -/
def daysBeforeYear (y : Nat) : Nat := 365 * y + (y - 1) / 4 - (y - 1) / 100 + (y - 1) / 400

theorem isLeap_iff (y : Nat) : isLeap y = true ↔ (y % 4 = 0 ∧ y % 100 ≠ 0) ∨ y % 400 = 0 := by
  simp [isLeap]

theorem daysInYear_eq (y : Nat) : daysInYear y = if (y % 4 = 0 ∧ y % 100 ≠ 0) ∨ y % 400 = 0 then 366 else 365 := by
  unfold daysInYear
  by_cases h : isLeap y = true
  · rw [if_pos h, if_pos ((isLeap_iff y).mp h)]
  · rw [if_neg h, if_neg (fun h' => h ((isLeap_iff y).mpr h'))]

theorem daysBeforeYear_succ (y : Nat) (h : 1 ≤ y) : daysBeforeYear (y + 1) = daysBeforeYear y + daysInYear y := by
  obtain ⟨k, rfl⟩ : ∃ k, y = k + 1 := ⟨y - 1, by omega⟩
  rw [daysInYear_eq]
  simp only [daysBeforeYear, Nat.add_sub_cancel]
  have h4 : (k + 1) / 4 = k / 4 + (if (k + 1) % 4 = 0 then 1 else 0) := by split <;> omega
  have h100 : (k + 1) / 100 = k / 100 + (if (k + 1) % 100 = 0 then 1 else 0) := by split <;> omega
  have h400 : (k + 1) / 400 = k / 400 + (if (k + 1) % 400 = 0 then 1 else 0) := by split <;> omega
  have a : k / 100 ≤ k / 4 := by omega
  have b : (k + 1) / 100 ≤ (k + 1) / 4 := by omega
  have c1 : (k + 1) % 100 = 0 → (k + 1) % 4 = 0 := by omega
  have c2 : (k + 1) % 400 = 0 → (k + 1) % 100 = 0 := by omega
  generalize (k + 1) / 4 = A at *
  generalize (k + 1) / 100 = B at *
  generalize (k + 1) / 400 = C at *
  generalize k / 4 = A' at *
  generalize k / 100 = B' at *
  generalize k / 400 = C' at *
  generalize (k + 1) % 4 = r4 at *
  generalize (k + 1) % 100 = r100 at *
  generalize (k + 1) % 400 = r400 at *
  split at h4 <;> split at h100 <;> split at h400 <;> split <;> omega

theorem yearSum (n : Nat) :
    ((List.range n).map (fun k => daysInYear (1970 + k))).sum + daysBeforeYear 1970 = daysBeforeYear (1970 + n) := by
  induction n with
  | zero => simp
  | succ n ih =>
    have := daysBeforeYear_succ (1970 + n) (by omega)
    rw [List.range_succ, List.map_append, List.sum_append]
    simp only [List.map_cons, List.map_nil, List.sum_cons, List.sum_nil]
    rw [show 1970 + (n + 1) = 1970 + n + 1 from rfl]
    omega

def cumDays (y m : Nat) : Nat :=
  [0, 31, 59, 90, 120, 151, 181, 212, 243, 273, 304, 334].getD (m - 1) 0 + (if 2 < m ∧ isLeap y = true then 1 else 0)

theorem monthSum (y m : Nat) (h1 : 1 ≤ m) (h2 : m ≤ 12) :
    ((List.range (m - 1)).map (fun k => daysInMonth y (k + 1))).sum = cumDays y m := by
  have : m = 1 ∨ m = 2 ∨ m = 3 ∨ m = 4 ∨ m = 5 ∨ m = 6 ∨ m = 7 ∨ m = 8 ∨ m = 9 ∨ m = 10 ∨ m = 11 ∨ m = 12 := by omega
  rcases this with h | h | h | h | h | h | h | h | h | h | h | h <;> subst h <;>
    cases hl : isLeap y <;> simp [cumDays, daysInMonth, List.range_succ, hl]
/-- the model's year-of-era formula on day `doy` of year `100c + 4q + s` of an era returns that year; the last day (365) exists
only in a year before a leap February: s = 3, and not the 100th year of a century unless it is the 400th -/
theorem yoe_of (c q s doy : Nat) (hc : c ≤ 3) (hq : q ≤ 24) (hs : s ≤ 3)
    (hdoy : doy ≤ 364 + (if s = 3 ∧ (q ≠ 24 ∨ c = 3) then 1 else 0)) :
    let doe := 36524 * c + 1461 * q + 365 * s + doy
    (doe - doe / 1460 + doe / 36524 - doe / 146096) / 365 = 100 * c + 4 * q + s := by
  intro doe
  have hd : doe = 36524 * c + 1461 * q + 365 * s + doy := rfl
  generalize doe = D at *
  have hdoy' : doy ≤ 365 := by split at hdoy <;> omega
  have hdoy'' : doy = 365 → s = 3 ∧ (q ≠ 24 ∨ c = 3) := by split at hdoy <;> omega
  clear hdoy
  have h1 : D / 146096 = 0 ∨ (D / 146096 = 1 ∧ D = 146096) := by omega
  have h2 : D / 36524 = c ∨ (D / 36524 = 4 ∧ D = 146096) := by omega
  have h3 : D / 1460 = 25 * c + q ∨ (D / 1460 = 25 * c + q + 1 ∧ 1460 ≤ 24 * c + q + 365 * s + doy) := by omega
  rcases h1 with h1 | ⟨h1, h1'⟩ <;> rcases h2 with h2 | ⟨h2, h2'⟩ <;> rcases h3 with h3 | ⟨h3, h3'⟩ <;> rw [h1, h2, h3] <;> omega

/-- every day of a 400-year era is (century c, 4-year cycle q, year s, day doy) - with the leap day where the rules put it -/
theorem doe_decomp (doe : Nat) (h : doe < 146097) :
    ∃ c q s doy, c ≤ 3 ∧ q ≤ 24 ∧ s ≤ 3 ∧ doy ≤ 364 + (if s = 3 ∧ (q ≠ 24 ∨ c = 3) then 1 else 0) ∧
      doe = 36524 * c + 1461 * q + 365 * s + doy := by
  obtain ⟨c, r1, hc, h1, h1'⟩ : ∃ c r1, c ≤ 3 ∧ doe = 36524 * c + r1 ∧ (r1 < 36524 ∨ (c = 3 ∧ r1 = 36524)) := by
    by_cases h' : doe = 146096
    · exact ⟨3, 36524, by omega, by omega, by omega⟩
    · exact ⟨doe / 36524, doe % 36524, by omega, by omega, by omega⟩
  obtain ⟨q, r2, hq, h2, h2', h2''⟩ : ∃ q r2, q ≤ 24 ∧ r1 = 1461 * q + r2 ∧ r2 ≤ 1460 ∧ (r2 = 1460 → q ≠ 24 ∨ c = 3) := by
    by_cases h' : r1 = 36524
    · exact ⟨24, 1460, by omega, by omega, by omega, by omega⟩
    · exact ⟨r1 / 1461, r1 % 1461, by omega, by omega, by omega, by omega⟩
  obtain ⟨s, doy, hs, h3, h3', h3''⟩ : ∃ s doy, s ≤ 3 ∧ r2 = 365 * s + doy ∧ doy ≤ 365 ∧ (doy = 365 → s = 3 ∧ r2 = 1460) := by
    by_cases h' : r2 = 1460
    · exact ⟨3, 365, by omega, by omega, by omega, by omega⟩
    · exact ⟨r2 / 365, r2 % 365, by omega, by omega, by omega, by omega⟩
  refine ⟨c, q, s, doy, hc, hq, hs, ?_, by omega⟩
  split <;> omega

/-- `civilFromDays` in terms of the decomposition: March-based year `Y`, month index `mp` (0 = March), day -/
theorem civil_of (z0 era c q s doy : Nat) (hc : c ≤ 3) (hq : q ≤ 24) (hs : s ≤ 3)
    (hdoy : doy ≤ 364 + (if s = 3 ∧ (q ≠ 24 ∨ c = 3) then 1 else 0))
    (hz : z0 + 719468 = 146097 * era + (36524 * c + 1461 * q + 365 * s + doy)) :
    civilFromDays z0 =
      (if (if (5 * doy + 2) / 153 < 10 then (5 * doy + 2) / 153 + 3 else (5 * doy + 2) / 153 - 9) ≤ 2
         then 100 * c + 4 * q + s + era * 400 + 1 else 100 * c + 4 * q + s + era * 400,
       if (5 * doy + 2) / 153 < 10 then (5 * doy + 2) / 153 + 3 else (5 * doy + 2) / 153 - 9,
       doy - (153 * ((5 * doy + 2) / 153) + 2) / 5 + 1) := by
  have hy := yoe_of c q s doy hc hq hs hdoy
  simp only at hy
  have hdoy' : doy ≤ 365 := by split at hdoy <;> omega
  have he : (z0 + 719468) / 146097 = era := by omega
  have hd : (z0 + 719468) % 146097 = 36524 * c + 1461 * q + 365 * s + doy := by omega
  have h4 : (100 * c + 4 * q + s) / 4 = 25 * c + q := by omega
  have h100 : (100 * c + 4 * q + s) / 100 = c := by omega
  have hdd : 36524 * c + 1461 * q + 365 * s + doy - (365 * (100 * c + 4 * q + s) + (25 * c + q) - c) = doy := by omega
  simp only [civilFromDays, he, hd, hy, h4, h100, hdd]

theorem daysSince1970_eq (y m d : Nat) (hy : 1970 ≤ y) (h1 : 1 ≤ m) (h2 : m ≤ 12) :
    daysSince1970 y m d + 719527 = daysBeforeYear y + cumDays y m + (d - 1) := by
  have h := yearSum (y - 1970)
  rw [show 1970 + (y - 1970) = y by omega, show daysBeforeYear 1970 = 719527 by decide] at h
  unfold daysSince1970
  rw [monthSum y m h1 h2]
  omega

/-- first day of month `mp` (0 = March) within the March-based year -/
theorem marchOffset (mp : Nat) (h : mp ≤ 11) :
    (153 * mp + 2) / 5 = [0, 31, 61, 92, 122, 153, 184, 214, 245, 275, 306, 337].getD mp 0 := by
  have : mp = 0 ∨ mp = 1 ∨ mp = 2 ∨ mp = 3 ∨ mp = 4 ∨ mp = 5 ∨ mp = 6 ∨ mp = 7 ∨ mp = 8 ∨ mp = 9 ∨ mp = 10 ∨ mp = 11 := by omega
  rcases this with h | h | h | h | h | h | h | h | h | h | h | h <;> subst h <;> rfl

/-- days before the first of month `mp` of March-based year `Y`, counted the January-based way -/
theorem marchDays (Y mp : Nat) (hY : 1 ≤ Y) (h : mp ≤ 11) :
    daysBeforeYear (if (if mp < 10 then mp + 3 else mp - 9) ≤ 2 then Y + 1 else Y) +
        cumDays (if (if mp < 10 then mp + 3 else mp - 9) ≤ 2 then Y + 1 else Y) (if mp < 10 then mp + 3 else mp - 9) + 306 =
      daysBeforeYear (Y + 1) + (153 * mp + 2) / 5 := by
  have hs := daysBeforeYear_succ Y hY
  unfold daysInYear at hs
  have : mp = 0 ∨ mp = 1 ∨ mp = 2 ∨ mp = 3 ∨ mp = 4 ∨ mp = 5 ∨ mp = 6 ∨ mp = 7 ∨ mp = 8 ∨ mp = 9 ∨ mp = 10 ∨ mp = 11 := by omega
  rcases this with h | h | h | h | h | h | h | h | h | h | h | h <;> subst h <;>
    cases hl : isLeap Y <;> simp [cumDays, hl] at hs ⊢ <;> omega

/-- the day of the month is within the month's length -/
theorem monthLen (y doy : Nat) (h : doy ≤ 365) (hl : doy = 365 → isLeap y = true) :
    doy - (153 * ((5 * doy + 2) / 153) + 2) / 5 + 1 ≤
      daysInMonth y (if (5 * doy + 2) / 153 < 10 then (5 * doy + 2) / 153 + 3 else (5 * doy + 2) / 153 - 9) := by
  have hmp : (5 * doy + 2) / 153 = 0 ∨ (5 * doy + 2) / 153 = 1 ∨ (5 * doy + 2) / 153 = 2 ∨ (5 * doy + 2) / 153 = 3 ∨
      (5 * doy + 2) / 153 = 4 ∨ (5 * doy + 2) / 153 = 5 ∨ (5 * doy + 2) / 153 = 6 ∨ (5 * doy + 2) / 153 = 7 ∨
      (5 * doy + 2) / 153 = 8 ∨ (5 * doy + 2) / 153 = 9 ∨ (5 * doy + 2) / 153 = 10 ∨ (5 * doy + 2) / 153 = 11 := by omega
  rcases hmp with h | h | h | h | h | h | h | h | h | h | h | h <;> simp [h, daysInMonth]
  all_goals try omega
  split
  · omega
  · next h' => have : doy ≠ 365 := fun h'' => h' (hl h''); omega

theorem leapNext (era c q s : Nat) (h : s = 3 ∧ (q ≠ 24 ∨ c = 3)) (_hc : c ≤ 3) (hq : q ≤ 24) :
    isLeap (100 * c + 4 * q + s + era * 400 + 1) = true := by
  rw [isLeap_iff]; omega

theorem yearLower (z0 era c q s doy : Nat) (hc : c ≤ 3) (hq : q ≤ 24) (hs : s ≤ 3) (hdoy : doy ≤ 365)
    (hz : z0 + 719468 = 146097 * era + (36524 * c + 1461 * q + 365 * s + doy)) :
    1969 ≤ 100 * c + 4 * q + s + era * 400 ∧ (100 * c + 4 * q + s + era * 400 = 1969 → 306 ≤ doy) := by
  omega

/-- **civil_correct**: the date `civilFromDays` computes is a valid calendar date, and counting year by year / month by month
from 1970-01-01 to it gives back the day number — for EVERY day number -/
theorem civil_correct (z0 : Nat) :
    1970 ≤ (civilFromDays z0).1 ∧ 1 ≤ (civilFromDays z0).2.1 ∧ (civilFromDays z0).2.1 ≤ 12 ∧ 1 ≤ (civilFromDays z0).2.2 ∧
      (civilFromDays z0).2.2 ≤ daysInMonth (civilFromDays z0).1 (civilFromDays z0).2.1 ∧
      daysSince1970 (civilFromDays z0).1 (civilFromDays z0).2.1 (civilFromDays z0).2.2 = z0 := by
  obtain ⟨c, q, s, doy, hc, hq, hs, hdoy, hdoe⟩ := doe_decomp ((z0 + 719468) % 146097) (Nat.mod_lt _ (by omega))
  have hz : z0 + 719468 = 146097 * ((z0 + 719468) / 146097) + (36524 * c + 1461 * q + 365 * s + doy) := by omega
  generalize (z0 + 719468) / 146097 = era at hz
  clear hdoe
  rw [civil_of z0 era c q s doy hc hq hs hdoy hz]
  have hdoy' : doy ≤ 365 := by split at hdoy <;> omega
  have hleap : doy = 365 → isLeap (100 * c + 4 * q + s + era * 400 + 1) = true := by
    intro h; apply leapNext era c q s _ hc hq; split at hdoy <;> omega
  clear hdoy
  have hB : daysBeforeYear (100 * c + 4 * q + s + era * 400 + 1) =
      365 * (100 * c + 4 * q + s + era * 400 + 1) + (100 * era + 25 * c + q) - (4 * era + c) + era := by
    have hY4 : (100 * c + 4 * q + s + era * 400) / 4 = 100 * era + 25 * c + q := by omega
    have hY100 : (100 * c + 4 * q + s + era * 400) / 100 = 4 * era + c := by omega
    have hY400 : (100 * c + 4 * q + s + era * 400) / 400 = era := by omega
    simp only [daysBeforeYear, Nat.add_sub_cancel, hY4, hY100, hY400]
  obtain ⟨hYl, hYl'⟩ := yearLower z0 era c q s doy hc hq hs hdoy' hz
  have hmp : (5 * doy + 2) / 153 ≤ 11 := by omega
  have hoff : (153 * ((5 * doy + 2) / 153) + 2) / 5 ≤ doy := by omega
  have hjan : 306 ≤ doy → 10 ≤ (5 * doy + 2) / 153 := by omega
  have hmd := marchDays (100 * c + 4 * q + s + era * 400) ((5 * doy + 2) / 153) (by omega) hmp
  have hml := monthLen (100 * c + 4 * q + s + era * 400 + 1) doy hdoy' hleap
  have hml' : (5 * doy + 2) / 153 < 10 → ∀ y, doy - (153 * ((5 * doy + 2) / 153) + 2) / 5 + 1 ≤
      daysInMonth y (if (5 * doy + 2) / 153 < 10 then (5 * doy + 2) / 153 + 3 else (5 * doy + 2) / 153 - 9) := by
    intro h y; exact monthLen y doy hdoy' (by omega)
  generalize (5 * doy + 2) / 153 = mp at *
  generalize (153 * mp + 2) / 5 = off at *
  have hy : 1970 ≤ (if (if mp < 10 then mp + 3 else mp - 9) ≤ 2 then 100 * c + 4 * q + s + era * 400 + 1
      else 100 * c + 4 * q + s + era * 400) := by
    clear hmd hml hml' hB hz
    split <;> split at * <;> omega
  have hm1 : 1 ≤ (if mp < 10 then mp + 3 else mp - 9) := by clear hmd hml hml' hB hz hy; split <;> omega
  have hm2 : (if mp < 10 then mp + 3 else mp - 9) ≤ 12 := by clear hmd hml hml' hB hz hy; split <;> omega
  dsimp only
  refine ⟨hy, hm1, hm2, Nat.le_add_left 1 _, ?_, ?_⟩
  · by_cases h : mp < 10
    · exact hml' h _
    · have : (if mp < 10 then mp + 3 else mp - 9) ≤ 2 := by rw [if_neg h]; omega
      rw [if_pos this]; exact hml
  · have := daysSince1970_eq _ _ (doy - off + 1) hy hm1 hm2
    rw [Nat.add_sub_cancel] at this
    clear hml hml' hy hm1 hm2 hjan hYl'
    generalize daysSince1970 _ _ _ = DS at *
    generalize daysBeforeYear (if (if mp < 10 then mp + 3 else mp - 9) ≤ 2 then 100 * c + 4 * q + s + era * 400 + 1
      else 100 * c + 4 * q + s + era * 400) = A at *
    generalize cumDays _ _ = B at *
    omega

/-! ### the time of day, and the theorem about `stampOf` -/

/-- **created_calendar**: for EVERY epoch `e ≥ 0` the six numbers the model computes (era arithmetic) are a valid UTC date and
time of day, and counting from 1970-01-01 year by year (leap years by the 4/100/400 rule), month by month, then hours, minutes,
seconds, arrives exactly at `e` — the spec's `denotes`.  No range restriction in the model (`Nat`); the code supports what
`datetime` does: years ≤ 9999, i.e. e ≤ 253402300799. -/
theorem created_calendar (e : Nat) : denotes (stampOf e) e = true := by
  obtain ⟨h1, h2, h3, h4, h5, h6⟩ := civil_correct (e / 86400)
  simp only [denotes, stampOf, Bool.and_eq_true, decide_eq_true_eq, beq_iff_eq]
  refine ⟨⟨⟨⟨⟨⟨⟨⟨h1, h2⟩, h3⟩, h4⟩, h5⟩, ?_⟩, ?_⟩, ?_⟩, ?_⟩
  · omega
  · omega
  · omega
  · rw [h6]; omega

/-- the model satisfies the spec predicate `holdsCreated` for every input (explicit date or not, variable unset / invalid / any
value, any two wall clocks) -/
theorem created_holds (explicit : Option (List Nat)) (env : Epoch) (now₁ now₂ : Nat) :
    holdsCreated explicit env (headCreated explicit env now₁).toOption (headCreated explicit env now₂).toOption = true := by
  cases explicit with
  | some v => simp [holdsCreated, headCreated, Except.toOption]
  | none =>
    cases env with
    | unset => rfl
    | invalid => rfl
    | value e => simp [holdsCreated, headCreated, Except.toOption, created_calendar]

/-! ### round trip: a valid date is the one `civilFromDays` computes from its day number -/

theorem daysBeforeYear_mono (a k : Nat) (ha : 1 ≤ a) : daysBeforeYear a ≤ daysBeforeYear (a + k) := by
  induction k with
  | zero => exact Nat.le_refl _
  | succ k ih =>
    have := daysBeforeYear_succ (a + k) (by omega)
    rw [show a + (k + 1) = a + k + 1 from rfl]
    omega

theorem cumDays_succ (y m : Nat) (h1 : 1 ≤ m) (h2 : m ≤ 11) : cumDays y (m + 1) = cumDays y m + daysInMonth y m := by
  have : m = 1 ∨ m = 2 ∨ m = 3 ∨ m = 4 ∨ m = 5 ∨ m = 6 ∨ m = 7 ∨ m = 8 ∨ m = 9 ∨ m = 10 ∨ m = 11 := by omega
  rcases this with h | h | h | h | h | h | h | h | h | h | h <;> subst h <;>
    cases hl : isLeap y <;> simp [cumDays, daysInMonth, hl]

theorem cumDays_last (y : Nat) : cumDays y 12 + daysInMonth y 12 = daysInYear y := by
  cases hl : isLeap y <;> simp [cumDays, daysInMonth, daysInYear, hl]

theorem cumDays_mono (y m k : Nat) (h1 : 1 ≤ m) (h2 : m + k ≤ 12) : cumDays y m ≤ cumDays y (m + k) := by
  induction k with
  | zero => exact Nat.le_refl _
  | succ k ih =>
    have := cumDays_succ y (m + k) (by omega) (by omega)
    rw [show m + (k + 1) = m + k + 1 from rfl]
    have := ih (by omega)
    omega

/-- within a year: an earlier month ends before a later one starts -/
theorem cumDays_lt (y m m' : Nat) (h1 : 1 ≤ m) (h : m < m') (h2 : m' ≤ 12) : cumDays y m + daysInMonth y m ≤ cumDays y m' := by
  have := cumDays_succ y m h1 (by omega)
  have := cumDays_mono y (m + 1) (m' - (m + 1)) (by omega) (by omega)
  rw [show m + 1 + (m' - (m + 1)) = m' by omega] at this
  omega

theorem dayOfYear_le (y m d : Nat) (h1 : 1 ≤ m) (h2 : m ≤ 12) (hd : d ≤ daysInMonth y m) : cumDays y m + d ≤ daysInYear y := by
  have := cumDays_last y
  by_cases h : m = 12
  · subst h; omega
  · have := cumDays_lt y m 12 h1 (by omega) (by omega)
    omega

/-- the day count is injective on valid dates -/
theorem daysSince1970_inj (y m d y' m' d' : Nat) (hy : 1970 ≤ y) (h1 : 1 ≤ m) (h2 : m ≤ 12) (h3 : 1 ≤ d) (h4 : d ≤ daysInMonth y m)
    (hy' : 1970 ≤ y') (h1' : 1 ≤ m') (h2' : m' ≤ 12) (h3' : 1 ≤ d') (h4' : d' ≤ daysInMonth y' m')
    (h : daysSince1970 y m d = daysSince1970 y' m' d') : y = y' ∧ m = m' ∧ d = d' := by
  have e := daysSince1970_eq y m d hy h1 h2
  have e' := daysSince1970_eq y' m' d' hy' h1' h2'
  have b := dayOfYear_le y m d h1 h2 h4
  have b' := dayOfYear_le y' m' d' h1' h2' h4'
  have s := daysBeforeYear_succ y (by omega)
  have s' := daysBeforeYear_succ y' (by omega)
  have hyy : y = y' := by
    rcases Nat.lt_trichotomy y y' with hlt | heq | hgt
    · have := daysBeforeYear_mono (y + 1) (y' - (y + 1)) (by omega)
      rw [show y + 1 + (y' - (y + 1)) = y' by omega] at this
      omega
    · exact heq
    · have := daysBeforeYear_mono (y' + 1) (y - (y' + 1)) (by omega)
      rw [show y' + 1 + (y - (y' + 1)) = y by omega] at this
      omega
  subst hyy
  have hmm : m = m' := by
    rcases Nat.lt_trichotomy m m' with hlt | heq | hgt
    · have := cumDays_lt y m m' h1 hlt h2'; omega
    · exact heq
    · have := cumDays_lt y m' m h1' hgt h2; omega
  subst hmm
  exact ⟨rfl, rfl, by omega⟩

/-- **civil_roundtrip**: civil → days → civil is the identity on every valid date from 1970-01-01 on -/
theorem civil_roundtrip (y m d : Nat) (hy : 1970 ≤ y) (h1 : 1 ≤ m) (h2 : m ≤ 12) (h3 : 1 ≤ d) (h4 : d ≤ daysInMonth y m) :
    civilFromDays (daysSince1970 y m d) = (y, m, d) := by
  obtain ⟨g1, g2, g3, g4, g5, g6⟩ := civil_correct (daysSince1970 y m d)
  obtain ⟨e1, e2, e3⟩ := daysSince1970_inj _ _ _ y m d g1 g2 g3 g4 g5 hy h1 h2 h3 h4 g6
  rw [Prod.ext_iff, Prod.ext_iff]
  exact ⟨e1, e2, e3⟩

example : civilFromDays (daysSince1970 2000 2 29) = (2000, 2, 29) := civil_roundtrip 2000 2 29 (by decide) (by decide) (by decide) (by decide) (by decide)
example : civilFromDays (daysSince1970 2100 3 1) = (2100, 3, 1) ∧ daysSince1970 2100 3 1 = daysSince1970 2100 2 28 + 1 := by decide +kernel

/-- **created_unique**: the model's stamp is the ONLY six numbers that denote the instant `e` — so "`f` denotes `e`" (what the
check evaluates on observed dates) and "`f` = the model's date" are the same statement: modelDate e = specDate e -/
theorem created_unique (f : List Nat) (e : Nat) (h : denotes f e = true) : f = stampOf e := by
  match f, h with
  | [y, m, d, hh, mi, s], h =>
    simp only [denotes, Bool.and_eq_true, decide_eq_true_eq, beq_iff_eq] at h
    obtain ⟨⟨⟨⟨⟨⟨⟨⟨hy, h1⟩, h2⟩, h3⟩, h4⟩, h5⟩, h6⟩, h7⟩, h8⟩ := h
    have hD : daysSince1970 y m d = e / 86400 := by omega
    have hc := civil_roundtrip y m d hy h1 h2 h3 h4
    rw [hD] at hc
    simp only [stampOf, hc]
    have a1 : hh = e % 86400 / 3600 := by omega
    have a2 : mi = e % 86400 % 3600 / 60 := by omega
    have a3 : s = e % 86400 % 60 := by omega
    rw [← a1, ← a2, ← a3]

theorem created_calendar_iff (f : List Nat) (e : Nat) : denotes f e = true ↔ f = stampOf e :=
  ⟨created_unique f e, fun h => h ▸ created_calendar e⟩

example : denotes [2000, 2, 29, 0, 0, 0] 951782400 = true := by decide
example : stampOf 4107542400 = [2100, 3, 1, 0, 0, 0] ∧ stampOf 4107542399 = [2100, 2, 28, 23, 59, 59] := by decide
example : stampOf 253402300799 = [9999, 12, 31, 23, 59, 59] := by decide

end Ufo2ft.C08
