import Ufo2ftModel.Props.C06Entries
/-! C06, part 7: the parts of `build` by name; every lookup entry is justified by a source anchor. -/
namespace Ufo2ft.C06
open List

def kmOf (i : Input) (al : AList) : List (String × String) := (makeClassesFrom (preClasses i.pre) (meOf i al)).keyMap
def clsOf (i : Input) (al : AList) : Classes := (makeClassesFrom (preClasses i.pre) (meOf i al)).classes
def mgOf (i : Input) (al : AList) : List String := (meOf i al).map (·.1)
def baOf (i : Input) (al : AList) := baseAtts i (prune al) (mgOf i al) (kmOf i al)
def laOf (i : Input) (al : AList) := ligAtts i (prune al) (mgOf i al) (kmOf i al)
def maOf (i : Input) (al : AList) := mkmkAtts (prune al) (mgOf i al) (kmOf i al)
def bgroupsOf (i : Input) (al : AList) : List (List String) :=
  if i.group then groupMarkClasses (clsOf i al) ((baOf i al).flatMap (fun att => att.2.map (·.cls)))
  else singleGroups (kmOf i al)
def lgroupsOf (i : Input) (al : AList) : List (List String) :=
  if i.group then groupMarkClasses (clsOf i al) ((laOf i al).flatMap (fun att => att.2.flatMap (·.map (·.cls))))
  else singleGroups (kmOf i al)
def gbOf (i : Input) (al : AList) := (bgroupsOf i al).map (fun grp => (baOf i al).filterMap (filterBase grp))
def glOf (i : Input) (al : AList) := (lgroupsOf i al).map (fun grp => (laOf i al).filterMap (filterLig grp))

def isAbvmG (i : Input) : String → Bool := fun g => i.abvm.contains g
def isNotAbvmG (i : Input) : String → Bool := fun g => i.notAbvm.contains g
def mfAll : NA → Bool := fun _ => true
def mfAbove : NA → Bool := fun a => isAbove a.name
def mfBelow : NA → Bool := fun a => !isAbove a.name

def abvmLOf (i : Input) (al : AList) : List Lookup :=
  if i.abvm.isEmpty then [] else
    baseLookups "abvm" (isAbvmG i) mfAbove (gbOf i al) ++ ligLookups "abvm" (isAbvmG i) mfAbove (glOf i al) ++
      mkmkLookups "abvm" (isAbvmG i) mfAbove (maOf i al)
def blwmLOf (i : Input) (al : AList) : List Lookup :=
  if i.abvm.isEmpty then [] else
    baseLookups "blwm" (isAbvmG i) mfBelow (gbOf i al) ++ ligLookups "blwm" (isAbvmG i) mfBelow (glOf i al) ++
      mkmkLookups "blwm" (isAbvmG i) mfBelow (maOf i al)
def markLOf (i : Input) (al : AList) : List Lookup :=
  baseLookups "mark" (isNotAbvmG i) mfAll (gbOf i al) ++ ligLookups "mark" (isNotAbvmG i) mfAll (glOf i al)
def mkmkLOf (i : Input) (al : AList) : List Lookup := mkmkLookups "mkmk" (isNotAbvmG i) mfAll (maOf i al)

theorem build_eq (i : Input) (al : AList) :
    build i al = ⟨clsOf i al, abvmLOf i al ++ blwmLOf i al ++ markLOf i al ++ mkmkLOf i al⟩ := rfl

theorem bok_of_prune {al : AList} {km : List (String × String)} {g : String} {b : BAnchor} {num : Option Nat}
    (h : BOK (prune al) km g b num) : BOK al km g b num := ⟨anchorIn_of_prune h.1, h.2⟩

theorem gbOf_ok (i : Input) (al : AList) :
    ∀ atts ∈ gbOf i al, ∀ att ∈ atts, ∀ b ∈ att.2, BOK al (kmOf i al) att.1 b none := by
  intro atts hatts att hatt b hb
  obtain ⟨grp, _, rfl⟩ := mem_map.mp hatts
  obtain ⟨att0, hatt0, hf⟩ := mem_filterMap.mp hatt
  obtain ⟨e1, e2, _⟩ := filterBase_some hf
  rw [e1]
  rw [e2] at hb
  exact bok_of_prune ((baseAtts_ok hatt0).2.2.2 b (mem_filter.mp hb).1)

theorem glOf_ok (i : Input) (al : AList) :
    ∀ atts ∈ glOf i al, ∀ att ∈ atts, ∀ j comp, att.2[j]? = some comp → ∀ b ∈ comp,
      BOK al (kmOf i al) att.1 b (some (j + 1)) := by
  intro atts hatts att hatt j comp hj b hb
  obtain ⟨grp, _, rfl⟩ := mem_map.mp hatts
  obtain ⟨att0, hatt0, hf⟩ := mem_filterMap.mp hatt
  obtain ⟨e1, e2⟩ := filterLig_some hf
  rw [e1]
  rw [e2, getElem?_map] at hj
  cases hc : att0.2[j]? with
  | none => rw [hc] at hj; simp at hj
  | some comp0 =>
    rw [hc] at hj; simp only [Option.map_some, Option.some.injEq] at hj; subst hj
    exact bok_of_prune ((ligAtts_ok hatt0).2.2 j comp0 hc b (mem_filter.mp hb).1)

theorem maOf_ok (i : Input) (al : AList) : ∀ t ∈ maOf i al, BOK al (kmOf i al) t.2.1 t.2.2 none :=
  fun _ ht => bok_of_prune (mkmkAtts_ok ht).2.2

/-- every entry of every lookup of `build` is justified -/
theorem build_lookups_ok (i : Input) (al : AList) :
    ∀ L ∈ (build i al).lookups, ∀ e ∈ L.entries, EntryOK al (kmOf i al) L.kind e := by
  intro L hL
  rw [build_eq] at hL
  simp only [mem_append] at hL
  have hb := fun feat inc mf (h : L ∈ baseLookups feat inc mf (gbOf i al)) =>
    baseLookups_ok (gbOf_ok i al) h
  have hl := fun feat inc mf (h : L ∈ ligLookups feat inc mf (glOf i al)) =>
    ligLookups_ok (glOf_ok i al) h
  have hm := fun feat inc mf (h : L ∈ mkmkLookups feat inc mf (maOf i al)) =>
    mkmkLookups_ok (maOf_ok i al) h
  rcases hL with ((h | h) | h) | h
  · unfold abvmLOf at h
    split at h
    · simp at h
    · simp only [mem_append] at h
      rcases h with (h | h) | h
      · obtain ⟨k, _, he⟩ := hb _ _ _ h; rw [k]; exact he
      · obtain ⟨k, _, he⟩ := hl _ _ _ h; rw [k]; exact he
      · obtain ⟨k, _, he⟩ := hm _ _ _ h; rw [k]; exact he
  · unfold blwmLOf at h
    split at h
    · simp at h
    · simp only [mem_append] at h
      rcases h with (h | h) | h
      · obtain ⟨k, _, he⟩ := hb _ _ _ h; rw [k]; exact he
      · obtain ⟨k, _, he⟩ := hl _ _ _ h; rw [k]; exact he
      · obtain ⟨k, _, he⟩ := hm _ _ _ h; rw [k]; exact he
  · unfold markLOf at h
    simp only [mem_append] at h
    rcases h with h | h
    · obtain ⟨k, _, he⟩ := hb _ _ _ h; rw [k]; exact he
    · obtain ⟨k, _, he⟩ := hl _ _ _ h; rw [k]; exact he
  · obtain ⟨k, _, he⟩ := hm _ _ _ h; rw [k]; exact he

/-! ### the classes of `build` on a well-formed anchor list -/
theorem clsOf_eq {i : Input} {al : AList} (w : ALwf i al) :
    clsOf i al = (groupNames (meOf i al)).map (fun n => (cnOf i al n, (groupOf (meOf i al) n).map recOf)) := by
  unfold clsOf; exact congrArg ClsState.classes (makeClasses_meOf w).1

theorem kmOf_eq {i : Input} {al : AList} (w : ALwf i al) :
    kmOf i al = (groupNames (meOf i al)).map (fun n => (keyOfMarkName n, cnOf i al n)) := by
  unfold kmOf; exact congrArg ClsState.keyMap (makeClasses_meOf w).1

/-- a member of a mark class is a mark anchor of that glyph whose name gives the class name -/
theorem clsOf_mem {i : Input} {al : AList} (w : ALwf i al) {cls : String × List MarkRec} (hc : cls ∈ clsOf i al)
    {r : MarkRec} (hr : r ∈ cls.2) :
    ∃ a, AnchorIn al r.glyph a ∧ a.isMark = true ∧ markOK i r.glyph = true ∧ cls.1 = cnOf i al a.name ∧ a.name ∈ groupNames (meOf i al) ∧
      r.x = otRound a.x ∧ r.y = otRound a.y ∧ NAShape a := by
  rw [clsOf_eq w] at hc
  obtain ⟨n, hnmem, rfl⟩ := mem_map.mp hc
  obtain ⟨gm, hgm, rfl⟩ := mem_map.mp hr
  obtain ⟨e, he, he1, hgm2, hgmn⟩ := mem_groupOf hgm
  obtain ⟨hok, _, as, has, hall, _⟩ := mem_meOf w he
  obtain ⟨h1, h2, h3⟩ := hall gm.2 hgm2
  refine ⟨gm.2, ⟨as, ?_, h1⟩, h2, ?_, by rw [hgmn], by rw [hgmn]; exact hnmem, rfl, rfl, shape_of_mem_markNames w has h1 h3⟩
  · show (gm.1, as) ∈ al; rw [← he1]; exact has
  · show markOK i gm.1 = true; rw [← he1]; exact hok

/-- the class a base-side anchor refers to is named after `_key` -/
theorem classOf_kmOf {i : Input} {al : AList} (w : ALwf i al) {a : NA} {cn : String} (h : classOf (kmOf i al) a = some cn) :
    a.isMark = false ∧ a.key ≠ "" ∧ ∃ n ∈ groupNames (meOf i al), keyOfMarkName n = a.key ∧ cn = cnOf i al n := by
  unfold classOf at h
  split at h
  · simp at h
  · rename_i hc
    simp only [Bool.or_eq_true, not_or, Bool.not_eq_true, beq_eq_false_iff_ne] at hc
    have := alookup_some_mem h
    rw [kmOf_eq w] at this
    obtain ⟨n, hn, hnk⟩ := mem_map.mp this
    simp only [Prod.mk.injEq] at hnk
    exact ⟨hc.1, hc.2, n, hn, hnk.1, hnk.2.symm⟩

end Ufo2ft.C06
