import Ufo2ftModel.Props.Flatten
import Ufo2ftModel.Props.Reverse
import Ufo2ftModel.Props.C01
import Ufo2ftModel.Spec.C02
/-! Property C02 theorems. -/
namespace Ufo2ft.C02
open Ufo2ft List

/-! ### full decomposition leaves no component (no well-formedness needed) -/

def NoPassOne (gs : GlyphSet) (fuel : Nat) : Prop :=
  ∀ base t D, addComp fuel gs true true none base t = .ok D → D.comps = []
def NoPassMany (gs : GlyphSet) (fuel : Nat) : Prop :=
  ∀ t ks D, addComps fuel gs true true none t ks = .ok D → D.comps = []

theorem noPassMany_of_one (gs : GlyphSet) (fuel : Nat) (h1 : NoPassOne gs fuel) : NoPassMany gs fuel := by
  intro t ks
  induction ks with
  | nil => intro D hD; simp only [addComps] at hD; cases hD; rfl
  | cons k0 ks ih =>
    intro D hD
    simp only [addComps] at hD
    cases h0 : addComp fuel gs true true none k0.base (t.compose k0.t) with
    | error e => rw [h0] at hD; cases hD
    | ok d =>
      rw [h0] at hD
      cases hr : addComps fuel gs true true none t ks with
      | error e => rw [hr] at hD; cases hD
      | ok d' =>
        rw [hr] at hD
        have hD' := Except.ok.inj hD
        subst hD'
        simp [Drawn.append, h1 k0.base _ d h0, ih d' hr]

theorem noPassOne_succ (gs : GlyphSet) (fuel : Nat) (h2 : NoPassMany gs fuel) : NoPassOne gs (fuel + 1) := by
  intro base t D hD
  unfold addComp at hD
  have hi : isIncluded none base = true := rfl
  rw [if_pos hi] at hD
  cases hb : gs.get? base with
  | none => rw [hb] at hD; cases hD
  | some b =>
    rw [hb] at hD
    dsimp only at hD
    have hin : inclNested true none = none := rfl
    rw [hin] at hD
    cases hd : addComps fuel gs true true none t b.comps with
    | error e => rw [hd] at hD; cases hD
    | ok d =>
      rw [hd] at hD
      have hD' := Except.ok.inj hD
      subst hD'
      exact h2 t b.comps d hd

theorem noPass (gs : GlyphSet) : ∀ fuel, NoPassOne gs fuel ∧ NoPassMany gs fuel := by
  intro fuel
  induction fuel with
  | zero =>
    have h0 : NoPassOne gs 0 := by intro base t D hD; simp only [addComp] at hD; cases hD
    exact ⟨h0, noPassMany_of_one gs 0 h0⟩
  | succ n ih =>
    have h1 := noPassOne_succ gs n ih.2
    exact ⟨h1, noPassMany_of_one gs (n + 1) h1⟩

theorem decomposeFull_comps (gs : GlyphSet) (g g' : Glyph) (h : decomposeGlyph gs true none g = .ok g') :
    g'.comps = [] := by
  unfold decomposeGlyph at h
  cases hd : addComps (gs.length + 1) gs true true none Affine.id g.comps with
  | error e => rw [hd] at h; cases h
  | ok d =>
    rw [hd] at h
    have := Except.ok.inj h; subst this
    exact (noPass gs (gs.length + 1)).2 Affine.id g.comps d hd

/-- contours xor components (or neither) -/
def MixedFreeAt (gs : GlyphSet) (n : String) : Prop :=
  ∀ g, gs.get? n = some g → g.contours = [] ∨ g.comps = []

/-- every glyph that has contours is included -/
def InclCons (incl : String → Bool) (gs : GlyphSet) : Prop :=
  ∀ n g, gs.get? n = some g → incl n = true ∨ g.contours = []

/-- `DecomposeComponentsFilter(include=lambda g: len(g))` over any visiting order: every visited glyph ends up with
    contours or components but not both -/
theorem mixedLoop (incl : String → Bool) :
    ∀ (order : List String) (st st' : FState), filterLoop decomposeStep incl order st = .ok st' →
      Named st.gs → InclCons incl st.gs → (∀ n ∈ st.modified, MixedFreeAt st.gs n) →
      InclCons incl st'.gs ∧ (∀ n ∈ st'.modified, MixedFreeAt st'.gs n) ∧ (∀ n ∈ order, MixedFreeAt st'.gs n) ∧
      (∀ n, MixedFreeAt st.gs n → MixedFreeAt st'.gs n) := by
  intro order
  induction order with
  | nil =>
    intro st st' h _ hc hm
    simp only [filterLoop] at h
    have := Except.ok.inj h; subst this
    exact ⟨hc, hm, fun n hn' => (by cases hn'), fun n h => h⟩
  | cons n ns ih =>
    intro st st' h hn hc hm
    unfold filterLoop at h
    by_cases hmod : st.modified.contains n = true
    · rw [if_pos hmod] at h
      obtain ⟨a, b, c, d⟩ := ih st st' h hn hc hm
      refine ⟨a, b, ?_, d⟩
      intro x hx
      rcases mem_cons.mp hx with rfl | hx
      · exact d x (hm x (by simpa using hmod))
      · exact c x hx
    · rw [if_neg hmod] at h
      cases hget : st.gs.get? n with
      | none => rw [hget] at h; cases h
      | some g =>
        rw [hget] at h
        dsimp only at h
        have hname : g.name = n := hn n g hget
        by_cases hi : incl n = true
        · rw [if_pos hi] at h
          unfold decomposeStep at h
          by_cases he : g.comps.isEmpty = true
          · rw [if_pos he] at h
            dsimp only at h
            rw [if_neg (by simp)] at h
            obtain ⟨a, b, c, d⟩ := ih st st' h hn hc hm
            refine ⟨a, b, ?_, d⟩
            intro x hx
            rcases mem_cons.mp hx with rfl | hx
            · apply d x
              intro g0 hg0; rw [hget] at hg0; rw [← Option.some.inj hg0]; right; simpa using he
            · exact c x hx
          · rw [if_neg he] at h
            cases hd : decomposeGlyph st.gs true none g with
            | error err => rw [hd] at h; cases h
            | ok g' =>
              rw [hd] at h
              dsimp only at h
              rw [if_pos rfl, hname] at h
              have hflat : g'.comps = [] := decomposeFull_comps st.gs g g' hd
              have hn1 := named_set st.gs hn n g g' hget (by rw [decomposeGlyph_name st.gs true none g g' hd, hname])
              have keep : ∀ x, MixedFreeAt st.gs x → MixedFreeAt (st.gs.set n g') x := by
                intro x hx g0 hg0
                rw [get?_set st.gs n x g g' hget] at hg0
                by_cases ex : x = n
                · rw [if_pos ex] at hg0; rw [← Option.some.inj hg0]; right; exact hflat
                · rw [if_neg ex] at hg0; exact hx g0 hg0
              have hnat : MixedFreeAt (st.gs.set n g') n := by
                intro g0 hg0
                rw [get?_set st.gs n n g g' hget] at hg0
                simp only [if_true] at hg0
                rw [← Option.some.inj hg0]; right; exact hflat
              have hc1 : InclCons incl (st.gs.set n g') := by
                intro x g0 hg0
                rw [get?_set st.gs n x g g' hget] at hg0
                by_cases ex : x = n
                · left; rw [ex]; exact hi
                · rw [if_neg ex] at hg0; exact hc x g0 hg0
              have hm1 : ∀ x ∈ addMod st.modified n, MixedFreeAt (st.gs.set n g') x := by
                intro x hx
                unfold addMod at hx
                split at hx
                · exact keep x (hm x hx)
                · rcases mem_append.mp hx with hx | hx
                  · exact keep x (hm x hx)
                  · simp only [mem_singleton] at hx; subst hx; exact hnat
              obtain ⟨a, b, c, d⟩ := ih _ st' h hn1 hc1 hm1
              refine ⟨a, b, ?_, fun x hx => d x (keep x hx)⟩
              intro x hx
              rcases mem_cons.mp hx with rfl | hx
              · exact d x hnat
              · exact c x hx
        · rw [if_neg hi] at h
          obtain ⟨a, b, c, d⟩ := ih st st' h hn hc hm
          refine ⟨a, b, ?_, d⟩
          intro x hx
          rcases mem_cons.mp hx with rfl | hx
          · apply d x
            intro g0 hg0
            rcases hc x g0 hg0 with h1 | h1
            · exact absurd h1 hi
            · left; exact h1
          · exact c x hx

/-- the include predicate of TTFPreProcessor's first filter, evaluated on the source glyph set -/
def hasContours (gs : GlyphSet) (n : String) : Bool :=
  match gs.get? n with | some g => !g.contours.isEmpty | none => false

/-- **C02_mixed**: after the TrueType pre-processor's decomposition step no glyph mixes contours with components,
    and every glyph draws what it drew. -/
theorem C02_mixed (gs : GlyphSet) (st : FState) (rank : String → Nat) (hg : Good gs rank) (hn : Named gs)
    (h : runFilter decomposeStep (hasContours gs) gs = .ok st) :
    (∀ n g', st.gs.get? n = some g' → g'.contours = [] ∨ g'.comps = []) ∧ SameRender rank st.gs gs := by
  have hs := runFilter_sameRender decomposeStep rank (stepOK_of_isDecomp rank _ decomposeStep_isDecomp)
    (hasContours gs) gs st h hg hn
  refine ⟨?_, hs.2.2⟩
  unfold runFilter at h
  cases ho : orderedGlyphs gs with
  | error e => rw [ho] at h; cases h
  | ok order =>
    rw [ho] at h
    have hc : InclCons (hasContours gs) gs := by
      intro n g hget
      unfold hasContours
      rw [hget]
      cases hcs : g.contours with
      | nil => right; rfl
      | cons c cs => left; simp [hcs]
    obtain ⟨_, _, hvis, _⟩ := mixedLoop (hasContours gs) order ⟨gs, [], []⟩ st h hn hc (fun x hx => (by cases hx))
    intro n g' hg'
    obtain ⟨hsome, _⟩ := hs.2.2 n
    cases hgn : gs.get? n with
    | none => rw [hg', hgn] at hsome; cases hsome
    | some g => exact hvis n (C01.orderedGlyphs_mem gs order ho n g hgn) g' hg'

/-- **C02_flatten**: with flattenComponents the rendered shape is unchanged by both steps together -/
theorem C02_render (gs : GlyphSet) (st st2 : FState) (rank : String → Nat) (hg : Good gs rank) (hn : Named gs)
    (h : runFilter decomposeStep (hasContours gs) gs = .ok st)
    (h2 : runFilter flattenStep (fun _ => true) st.gs = .ok st2) :
    SameRender rank st2.gs gs := by
  have hs := runFilter_sameRender decomposeStep rank (stepOK_of_isDecomp rank _ decomposeStep_isDecomp)
    (hasContours gs) gs st h hg hn
  have hf := runFilter_sameRender flattenStep rank (flattenStep_ok rank) (fun _ => true) st.gs st2 h2 hs.1 hs.2.1
  exact hf.2.2.trans hs.2.2

/-! ### re-anchoring and reversal only permute the points of a closed contour -/

def xy (c : Contour) : List (Q × Q) := List.map (fun (p : Pt) => (p.x, p.y)) c

theorem xy_retype (l : List Pt) (s : Option Seg) : xy (retype l s) = xy l := by
  induction l generalizing s with
  | nil => rfl
  | cons p ps ih =>
    simp only [retype]
    cases hp : p.seg with
    | none => simp [xy, ih] at *; exact ih s
    | some t => simp only [xy, List.map_cons] at *; rw [ih (some t)]

theorem xy_reverse_closed (c : Contour) (hc : ∀ p ∈ c, p.seg ≠ some Seg.move) :
    (xy (reverseContour c)).Perm (xy c) := by
  cases c with
  | nil => exact Perm.refl _
  | cons p0 rest =>
    have h0 : p0.seg ≠ some Seg.move := hc p0 mem_cons_self
    simp only [reverseContour, h0, if_false, xy_retype]
    simp only [xy, List.map_cons, List.map_reverse]
    exact Perm.cons _ (reverse_perm _)

theorem xy_rotFirstOn (c : Contour) : (xy (rotFirstOn c)).Perm (xy c) := by
  unfold rotFirstOn
  cases C01.firstOnIdx c 0 with
  | none => exact Perm.refl _
  | some i =>
    simp only [xy, List.map_append]
    have : (c.take i ++ c.drop i) = c := take_append_drop i c
    calc map (fun (p : Pt) => (p.x, p.y)) (drop i c) ++ map (fun (p : Pt) => (p.x, p.y)) (take i c)
        _ ~ map (fun (p : Pt) => (p.x, p.y)) (take i c) ++ map (fun (p : Pt) => (p.x, p.y)) (drop i c) := perm_append_comm
        _ = map (fun (p : Pt) => (p.x, p.y)) c := by rw [← List.map_append, this]

theorem rotFirstOn_closed (c : Contour) (hc : ∀ p ∈ c, p.seg ≠ some Seg.move) :
    ∀ p ∈ rotFirstOn c, p.seg ≠ some Seg.move := by
  intro p hp
  unfold rotFirstOn at hp
  cases h : C01.firstOnIdx c 0 with
  | none => rw [h] at hp; exact hc p hp
  | some i =>
    rw [h] at hp
    rcases mem_append.mp hp with hp | hp
    · exact hc p (mem_of_mem_drop hp)
    · exact hc p (mem_of_mem_take hp)

/-- **C02_points**: whatever the options, the points emitted for a closed contour are exactly the contour's points
    (each once): reproduced point for point, only start point and direction change. -/
theorem C02_points_perm (o : Opts) (c : Contour) (hc : ∀ p ∈ c, p.seg ≠ some Seg.move) :
    (xy (ttContour o c)).Perm (xy c) := by
  unfold ttContour
  by_cases h1 : o.convertCubics = true
  · rw [if_pos h1]
    by_cases h2 : o.reverseDirection = true
    · rw [if_pos h2]
      exact (xy_reverse_closed _ (rotFirstOn_closed c hc)).trans (xy_rotFirstOn c)
    · rw [if_neg h2]; exact xy_rotFirstOn c
  · rw [if_neg h1]
    by_cases h2 : o.reverseDirection = true
    · rw [if_pos h2]; exact xy_reverse_closed c hc
    · rw [if_neg h2]

/-- rounding: every glyf coordinate is the nearest integer to the source coordinate, halves up -/
theorem C02_round (c : Contour) :
    (ttPts c).map (fun p => (p.x, p.y)) = List.map (fun (p : Pt) => (otRound p.x, otRound p.y)) c := by
  simp [ttPts]

end Ufo2ft.C02

namespace Ufo2ft.C02
open Ufo2ft List

def mkG (n : String) (bases : List String) : String × Glyph :=
  (n, ⟨n, 0, 0, if bases.isEmpty then [[⟨0, 0, some .line⟩]] else [], bases.map (fun b => ⟨b, Affine.id⟩), []⟩)

/-- A → [D, B], B → D, D → E, E → F: the base D is first reached through the shallow path -/
def exDepthGs : GlyphSet := [mkG "A" ["D", "B"], mkG "B" ["D"], mkG "D" ["E"], mkG "E" ["F"], mkG "F" []]

/-- **depth under-count (witness)**: `util.getMaxComponentDepth` shares its `visited` set between sibling components, so a
    base first reached through a shallow path is not re-explored through a deeper one: it reports 3 for A where the
    longest reference chain (what maxp.maxComponentDepth must be) is 4.  Only the traversal order of the filters
    depends on it, and the render-preservation theorems hold for ANY order. -/
theorem depth_undercount :
    (match maxComponentDepth exDepthGs (mkG "A" ["D", "B"]).2 with | .ok d => some d | .error _ => none) = some 3 ∧
    trueDepth 6 exDepthGs (mkG "A" ["D", "B"]).2 = 4 := by
  constructor
  · simp [maxComponentDepth, depthGlyph, depthComps, exDepthGs, mkG, GlyphSet.get?, alookup]
  · simp [trueDepth, exDepthGs, mkG, GlyphSet.get?, alookup]

end Ufo2ft.C02
