import Ufo2ftModel.Spec.C14
/-! Property C14: theorems about the model. -/
namespace Ufo2ft.C14
open List

/-! ### association lists -/

theorem alookup_aset_eq (k : String) (v : Glyph) (gs : GlyphSet) : alookup k (aset k v gs) = some v := by
  induction gs with
  | nil => simp [aset, alookup]
  | cons e l ih =>
    obtain ⟨k', v'⟩ := e
    by_cases h : (k' == k) = true
    · simp [aset, alookup, h]
    · simp [aset, alookup, h, ih]

theorem alookup_aset_ne (k n : String) (v : Glyph) (gs : GlyphSet) (h : n ≠ k) :
    alookup n (aset k v gs) = alookup n gs := by
  induction gs with
  | nil =>
    have : (k == n) = false := by simpa using fun e => h e.symm
    simp [aset, alookup, this]
  | cons e l ih =>
    obtain ⟨k', v'⟩ := e
    by_cases hk : (k' == k) = true
    · have e1 : k' = k := by simpa using hk
      have : (k' == n) = false := by subst e1; simpa using fun e => h e.symm
      simp [aset, alookup, hk, this]
    · by_cases hn : (k' == n) = true
      · simp [aset, alookup, hk, hn]
      · simp [aset, alookup, hk, hn, ih]

theorem alookup_adel_ne (k n : String) (gs : GlyphSet) (h : n ≠ k) :
    alookup n (adel k gs) = alookup n gs := by
  induction gs with
  | nil => simp [adel]
  | cons e l ih =>
    obtain ⟨k', v'⟩ := e
    by_cases hk : (k' == k) = true
    · have e1 : k' = k := by simpa using hk
      have : (k' == n) = false := by subst e1; simpa using fun e => h e.symm
      simp [adel, alookup, hk, this]
    · by_cases hn : (k' == n) = true
      · simp [adel, alookup, hk, hn]
      · simp [adel, alookup, hk, hn, ih]

theorem mem_sadd {s : List String} {n k : String} : k ∈ sadd s n ↔ k ∈ s ∨ k = n := by
  unfold sadd; split
  · rename_i h
    have : n ∈ s := by simpa using h
    constructor
    · exact Or.inl
    · rintro (h | h); exact h; subst h; exact this
  · simp


/-! ### the traversal: loop invariant and the contract a `filter` method has to meet -/

/-- Loop invariant of `BaseFilter.__call__` relative to the glyph set `gs₀` at the start of the call:
 glyphs not (yet) reported are untouched, reported glyphs lie in the footprint `A`. -/
structure Inv (gs₀ : GlyphSet) (A : String → Prop) (st : St) : Prop where
  rep : ∀ k, k ∉ st.modified → alookup k st.gs = alookup k gs₀
  fp : ∀ k, k ∈ st.modified → A k

/-- What a `filter` method must guarantee when called on an included (`I`) glyph `n`
 (`J` = extra invariant of the glyph set it maintains). -/
def Contract (gs₀ : GlyphSet) (I A : String → Prop) (J : GlyphSet → Prop) (filt : FilterFn) : Prop :=
  ∀ st n g st' r, Inv gs₀ A st → J st.gs → n ∉ st.modified → alookup n st.gs = some g → I n →
    filt st n g = .ok (st', r) →
    (∀ k, k ∉ st'.modified → k ≠ n → alookup k st'.gs = alookup k gs₀) ∧
    (r = false → n ∉ st'.modified → alookup n st'.gs = alookup n gs₀) ∧
    (∀ k, k ∈ st'.modified → A k) ∧ J st'.gs

theorem loopStep_inv {gs₀ : GlyphSet} {I A : String → Prop} {J : GlyphSet → Prop} {incl : Include} {filt : FilterFn}
    (hc : Contract gs₀ I A J filt)
    (hI : ∀ n g, alookup n gs₀ = some g → incl n g = true → I n) (hA : ∀ n, I n → A n)
    {st st' : St} {n : String} (hi : Inv gs₀ A st) (hj : J st.gs)
    (h : loopStep incl filt st n = .ok st') : Inv gs₀ A st' ∧ J st'.gs := by
  unfold loopStep at h
  split at h
  · cases h; exact ⟨hi, hj⟩
  · rename_i hm
    have hm : n ∉ st.modified := by simpa using hm
    split at h
    · cases h
    · rename_i g hg
      split at h
      · rename_i hin
        split at h
        · cases h
        · rename_i st1 r hf
          have hIn : I n := hI n g (by rw [← hi.rep n hm]; exact hg) hin
          have hAn : A n := hA n hIn
          obtain ⟨h1, h2, h3, h4⟩ := hc st n g st1 r hi hj hm hg hIn hf
          cases r
          · simp only [Bool.false_eq_true, if_false] at h
            cases h
            refine ⟨⟨?_, h3⟩, h4⟩
            intro k hk
            by_cases hkn : k = n
            · subst hkn; exact h2 rfl hk
            · exact h1 k hk hkn
          · simp only [if_true] at h
            cases h
            refine ⟨⟨?_, ?_⟩, h4⟩
            · intro k hk
              have hk' : ¬ (k ∈ st1.modified ∨ k = n) := by simpa [mem_sadd] using hk
              exact h1 k (fun h => hk' (Or.inl h)) (fun h => hk' (Or.inr h))
            · intro k hk
              rcases mem_sadd.mp hk with h | h
              · exact h3 k h
              · subst h; exact hAn
      · cases h; exact ⟨hi, hj⟩

theorem runLoop_inv {gs₀ : GlyphSet} {I A : String → Prop} {J : GlyphSet → Prop} {incl : Include} {filt : FilterFn}
    (hc : Contract gs₀ I A J filt)
    (hI : ∀ n g, alookup n gs₀ = some g → incl n g = true → I n) (hA : ∀ n, I n → A n)
    (names : List String) {st st' : St} (hi : Inv gs₀ A st) (hj : J st.gs)
    (h : runLoop incl filt st names = .ok st') : Inv gs₀ A st' ∧ J st'.gs := by
  induction names generalizing st with
  | nil => simp [runLoop, pure, Except.pure] at h; subst h; exact ⟨hi, hj⟩
  | cons n l ih =>
    simp only [runLoop, List.foldlM_cons, bind, Except.bind] at h
    split at h
    · cases h
    · rename_i st1 h1
      obtain ⟨hi1, hj1⟩ := loopStep_inv hc hI hA hi hj h1
      exact ih hi1 hj1 h

/-- `BaseFilter.__call__` establishes the invariant for whatever order the glyphs are visited in. -/
theorem baseCall_inv {gs : GlyphSet} {I A : String → Prop} {J : GlyphSet → Prop} {incl : Include} {filt : FilterFn}
    (hc : Contract gs I A J filt)
    (hI : ∀ n g, alookup n gs = some g → incl n g = true → I n) (hA : ∀ n, I n → A n)
    (hj : J gs)
    {st' : St} (h : baseCall incl filt gs = .ok st') : Inv gs A st' ∧ J st'.gs := by
  simp only [baseCall, bind, Except.bind] at h
  split at h
  · cases h
  · exact runLoop_inv hc hI hA _ ⟨fun _ _ => rfl, fun k hk => by simp at hk⟩ hj h


/-! ### filters that rewrite only the glyph they are given -/

/-- generic invariant rule for a Python `for` loop that may raise -/
theorem foldlM_inv {α β : Type} {f : β → α → Except Err β} {P : β → Prop} :
    ∀ (l : List α) (init r : β), (∀ acc x acc', x ∈ l → P acc → f acc x = .ok acc' → P acc') → P init →
      l.foldlM f init = .ok r → P r := by
  intro l
  induction l with
  | nil => intro init r _ h0 h; simp [pure, Except.pure] at h; subst h; exact h0
  | cons a l ih =>
    intro init r hs h0 h
    simp only [List.foldlM_cons, bind, Except.bind] at h
    split at h
    · cases h
    · rename_i b hb
      exact ih b r (fun acc x acc' hx => hs acc x acc' (List.mem_cons_of_mem _ hx))
        (hs init a b (List.mem_cons_self) h0 hb) h

theorem localFn_contract {gs₀ : GlyphSet} {I A : String → Prop}
    (f : GlyphSet → Glyph → Except Err (Glyph × Bool))
    (hf : ∀ gs g g', f gs g = .ok (g', false) → g' = g) :
    Contract gs₀ I A (fun _ => True) (localFn f) := by
  intro st n g st' r hi _ hm hg _ h
  unfold localFn at h
  split at h
  · cases h
  · rename_i g' r' hfg
    cases h
    refine ⟨?_, ?_, hi.fp, trivial⟩
    · intro k hk hkn
      simp only [alookup_aset_ne n k g' st.gs hkn]
      exact hi.rep k hk
    · intro hr _
      subst hr
      have := hf _ _ _ hfg
      subst this
      simp only [alookup_aset_eq]
      rw [← hi.rep n hm, hg]

theorem decomposeFilter_false (gs : GlyphSet) (g g' : Glyph) (h : decomposeFilter gs g = .ok (g', false)) : g' = g := by
  unfold decomposeFilter at h
  split at h
  · cases h; rfl
  · split at h <;> cases h

theorem decomposeTransformedFilter_false (gs : GlyphSet) (g g' : Glyph)
    (h : decomposeTransformedFilter gs g = .ok (g', false)) : g' = g := by
  unfold decomposeTransformedFilter at h
  split at h
  · exact decomposeFilter_false gs g g' h
  · cases h; rfl

theorem skipFilter_false (skip : List String) (gs : GlyphSet) (g g' : Glyph)
    (h : skipFilter skip gs g = .ok (g', false)) : g' = g := by
  unfold skipFilter at h
  split at h
  · cases h; rfl
  · split at h <;> cases h

theorem reverseFilter_false (g g' : Glyph) (h : reverseFilter g = (g', false)) : g' = g := by
  unfold reverseFilter at h
  split at h <;> cases h; rfl

theorem sortFilter_false (g g' : Glyph) (h : sortFilter g = (g', false)) : g' = g := by
  unfold sortFilter at h
  split at h <;> cases h; rfl

theorem opaqueFilter_false (opq : List Contour → List Contour) (g g' : Glyph)
    (h : opaqueFilter opq g = (g', false)) : g' = g := by
  unfold opaqueFilter at h
  split at h <;> cases h; rfl

/-- the base of a component is a simple or mixed glyph of the set: where flattening stops -/
def SM (gs : GlyphSet) (n : String) : Prop := ∃ g, alookup n gs = some g ∧ isSimpleOrMixed g = true

/-- `_flattenComponent` returns the component itself, or only references to simple/mixed glyphs
 (in which case the component's own base is not one). -/
theorem flattenComp_spec (gs : GlyphSet) : ∀ (fuel : Nat) (c : Comp) (l : List Comp),
    flattenComp gs fuel c = .ok l →
    (l = [c] ∧ SM gs c.base) ∨ (¬ SM gs c.base ∧ ∀ f ∈ l, SM gs f.base) := by
  intro fuel
  induction fuel with
  | zero => intro c l h; simp [flattenComp] at h
  | succ fuel ih =>
    intro c l h
    unfold flattenComp at h
    split at h
    · cases h
    · rename_i g hg
      split at h
      · rename_i hsm
        cases h
        exact Or.inl ⟨rfl, g, hg, hsm⟩
      · rename_i hsm
        refine Or.inr ⟨?_, ?_⟩
        · rintro ⟨g2, hg2, h2⟩
          rw [hg] at hg2; cases hg2; exact hsm h2
        · refine foldlM_inv (P := fun acc => ∀ f ∈ acc, SM gs f.base) g.comps [] l ?_ (by simp) h
          intro acc x acc' _ hacc hstep
          split at hstep
          · cases hstep
          · rename_i fl hfl
            cases hstep
            intro f hf
            rcases List.mem_append.mp hf with hf | hf
            · exact hacc f hf
            · obtain ⟨f0, hf0, rfl⟩ := List.mem_map.mp hf
              rcases ih x fl hfl with ⟨rfl, hx⟩ | ⟨_, hall⟩
              · simp at hf0; subst hf0; exact hx
              · exact hall f0 hf0

theorem flattenComp_head (gs : GlyphSet) (fuel : Nat) (c : Comp) (l : List Comp)
    (h : flattenComp gs fuel c = .ok l) (hh : l.head? = some c) : l = [c] := by
  rcases flattenComp_spec gs fuel c l h with ⟨rfl, _⟩ | ⟨hn, hall⟩
  · rfl
  · cases l with
    | nil => simp at hh
    | cons a t =>
      simp at hh; subst hh
      exact absurd (hall a (List.mem_cons_self)) hn

theorem flattenLoop (gs : GlyphSet) : ∀ (l pre cs : List Comp) (b fl : Bool),
    l.foldlM (flattenStep gs) (pre, b) = .ok (cs, fl) → fl = false → b = false ∧ cs = pre ++ l := by
  intro l
  induction l with
  | nil =>
    intro pre cs b fl h hfl
    simp [pure, Except.pure] at h
    obtain ⟨rfl, rfl⟩ := h
    exact ⟨hfl, by simp⟩
  | cons c l ih =>
    intro pre cs b fl h hfl
    simp only [List.foldlM_cons, bind, Except.bind] at h
    split at h
    · cases h
    · rename_i acc hacc
      unfold flattenStep at hacc
      split at hacc
      · cases hacc
      · rename_i fl1 hfl1
        cases hacc
        obtain ⟨hb, hcs⟩ := ih _ _ _ _ h hfl
        simp only [Bool.or_eq_false_iff] at hb
        obtain ⟨hb1, hb2⟩ := hb
        have hhead : fl1.head? = some c := by simpa using hb2
        have := flattenComp_head gs _ c fl1 hfl1 hhead
        subst this
        exact ⟨hb1, by simp [hcs]⟩

theorem flattenFilter_false (gs : GlyphSet) (g g' : Glyph) (h : flattenFilter gs g = .ok (g', false)) : g' = g := by
  unfold flattenFilter at h
  split at h
  · cases h; rfl
  · split at h
    · cases h
    · rename_i cs fl hl
      cases h
      obtain ⟨_, hcs⟩ := flattenLoop gs _ _ _ _ _ hl rfl
      simp at hcs
      subst hcs
      rfl


/-! ### PropagateAnchorsFilter: recursion through the components -/

/-- no filter step of the anchor propagation alters a component list -/
def SameComps (gs₀ gs : GlyphSet) : Prop :=
  ∀ n, (alookup n gs).map (·.comps) = (alookup n gs₀).map (·.comps)

theorem compsOf_of_sameComps {gs₀ gs : GlyphSet} (h : SameComps gs₀ gs) {n : String} {g : Glyph}
    (hg : alookup n gs = some g) : compsOf gs₀ n = g.comps := by
  have := h n
  rw [hg] at this
  unfold compsOf
  cases h0 : alookup n gs₀ with
  | none => rw [h0] at this; simp at this
  | some g0 => rw [h0] at this; simp at this; simp [this]

theorem propagate_spec (pin : PAIn) (gs₀ : GlyphSet) : ∀ (fuel : Nat) (name : String) (composite : Glyph) (st st' : St),
    SameComps gs₀ st.gs → alookup name st.gs = some composite →
    propagate pin fuel name composite st = .ok st' →
    (∀ k, k ∉ st'.modified → alookup k st'.gs = alookup k st.gs) ∧
    (∀ k, k ∈ st'.modified → k ∈ st.modified ∨ reachB gs₀ fuel name k = true) ∧
    SameComps gs₀ st'.gs ∧ (∀ k, k ∈ st.modified → k ∈ st'.modified) ∧
    (∀ k, alookup k st'.gs ≠ alookup k st.gs → reachB gs₀ fuel name k = true) := by
  intro fuel
  induction fuel with
  | zero => intro name composite st st' _ _ h; simp [propagate] at h
  | succ fuel ih =>
    intro name composite st st' hsc hlook h
    have hcomps : compsOf gs₀ name = composite.comps := compsOf_of_sameComps hsc hlook
    have hreach : ∀ k, (∃ c ∈ composite.comps, reachB gs₀ fuel c.base k = true) → reachB gs₀ (fuel + 1) name k = true := by
      intro k ⟨c, hc, hr⟩
      simp only [reachB, Bool.or_eq_true, List.any_eq_true]
      exact Or.inr ⟨c, by rw [hcomps]; exact hc, hr⟩
    unfold propagate at h
    split at h
    · cases h; exact ⟨fun _ _ => rfl, fun k hk => Or.inl hk, hsc, fun _ hk => hk, fun k hk => absurd rfl hk⟩
    · split at h
      · cases h; exact ⟨fun _ _ => rfl, fun k hk => Or.inl hk, hsc, fun _ hk => hk, fun k hk => absurd rfl hk⟩
      · dsimp only at h
        split at h
        · cases h
        · rename_i st2 hloop
          -- the loop over the components
          have hinv := foldlM_inv (f := propStep (propagate pin fuel))
            (P := fun (acc : St) =>
              (∀ k, k ∉ acc.modified → alookup k acc.gs = alookup k st.gs) ∧
              (∀ k, k ∈ acc.modified → k ∈ st.modified ∨ ∃ c ∈ composite.comps, reachB gs₀ fuel c.base k = true) ∧
              SameComps gs₀ acc.gs ∧ (∀ k, k ∈ st.modified → k ∈ acc.modified) ∧
              (∀ k, alookup k acc.gs ≠ alookup k st.gs → ∃ c ∈ composite.comps, reachB gs₀ fuel c.base k = true))
            composite.comps { st with processed := sadd st.processed name } st2
            (by
              intro acc x acc' hx ⟨p1, p2, p3, p4, p5⟩ hstep
              unfold propStep at hstep
              split at hstep
              · cases hstep; exact ⟨p1, p2, p3, p4, p5⟩
              · rename_i b hb
                obtain ⟨q1, q2, q3, q4, q5⟩ := ih x.base b acc acc' p3 hb hstep
                refine ⟨?_, ?_, q3, fun k hk => q4 k (p4 k hk), ?_⟩
                · intro k hk
                  rw [q1 k hk]
                  exact p1 k (fun h => hk (q4 k h))
                · intro k hk
                  rcases q2 k hk with h | h
                  · exact p2 k h
                  · exact Or.inr ⟨x, hx, h⟩
                · intro k hk
                  by_cases he : alookup k acc'.gs = alookup k acc.gs
                  · exact p5 k (by rw [← he]; exact hk)
                  · exact ⟨x, hx, q5 k he⟩)
            ⟨fun _ _ => rfl, fun k hk => Or.inl hk, hsc, fun _ hk => hk, fun k hk => absurd rfl hk⟩ hloop
          obtain ⟨p1, p2, p3, p4, p5⟩ := hinv
          split at h
          · cases h
          · rename_i toAdd amb _
            split at h
            · cases h
              refine ⟨p1, ?_, p3, p4, fun k hk => hreach k (p5 k hk)⟩
              intro k hk
              rcases p2 k hk with h | h
              · exact Or.inl h
              · exact Or.inr (hreach k h)
            · cases h
              refine ⟨?_, ?_, ?_, ?_, ?_⟩
              · intro k hk
                have hk' : ¬ (k ∈ st2.modified ∨ k = name) := by simpa [mem_sadd] using hk
                simp only
                rw [alookup_aset_ne name k _ _ (fun h => hk' (Or.inr h))]
                exact p1 k (fun h => hk' (Or.inl h))
              · intro k hk
                rcases mem_sadd.mp hk with h | h
                · rcases p2 k h with h | h
                  · exact Or.inl h
                  · exact Or.inr (hreach k h)
                · subst h
                  exact Or.inr (by simp [reachB])
              · intro n
                by_cases hn : n = name
                · subst hn
                  simp only [alookup_aset_eq, Option.map_some]
                  have := hsc n
                  rw [hlook] at this
                  simpa using this
                · simp only [alookup_aset_ne name n _ _ hn]
                  exact p3 n
              · intro k hk
                exact mem_sadd.mpr (Or.inl (p4 k hk))
              · intro k hk
                by_cases hn : k = name
                · subst hn; simp [reachB]
                · simp only [alookup_aset_ne name k _ _ hn] at hk
                  exact hreach k (p5 k hk)

/-- footprint of the anchor propagation: an included glyph or one it references, transitively -/
def ReachA (incl : Include) (gs₀ : GlyphSet) (fuel : Nat) (k : String) : Prop :=
  ∃ m, includedB incl gs₀ m = true ∧ reachB gs₀ fuel m k = true

theorem propagateFn_contract (pin : PAIn) (incl : Include) (gs₀ : GlyphSet) (fuel : Nat) :
    Contract gs₀ (fun n => includedB incl gs₀ n = true) (ReachA incl gs₀ fuel) (SameComps gs₀)
      (propagateFn pin fuel) := by
  intro st n g st' r hi hj hm hg hin h
  unfold propagateFn at h
  split at h
  · cases h
    exact ⟨fun k hk _ => hi.rep k hk, fun _ hk => hi.rep n hk, hi.fp, hj⟩
  · split at h
    · cases h
    · rename_i st1 hp
      obtain ⟨q1, q2, q3, q4, _⟩ := propagate_spec pin gs₀ fuel n g st st1 hj hg hp
      have hsub : ∀ k, k ∉ st1.modified → k ∉ st.modified := fun k hk hk2 => hk (q4 k hk2)
      cases h
      refine ⟨?_, ?_, ?_, q3⟩
      · intro k hk _
        rw [q1 k hk]; exact hi.rep k (hsub k hk)
      · intro _ hk
        rw [q1 n hk]; exact hi.rep n hm
      · intro k hk
        rcases q2 k hk with h | h
        · exact hi.fp k h
        · exact ⟨n, hin, h⟩

/-! ### TransformationsFilter: recursion through included bases -/

theorem transformFn_spec (incl : Include) (m : Affine) (gs₀ : GlyphSet) :
    ∀ (fuel : Nat) (st : St) (n : String) (g : Glyph) (st' : St) (r : Bool),
    Inv gs₀ (fun k => includedB incl gs₀ k = true) st →
    transformFn incl m fuel st n g = .ok (st', r) →
    (∀ k, k ∉ st'.modified → k ≠ n → alookup k st'.gs = alookup k gs₀) ∧
    (r = false → st' = st) ∧ (∀ k, k ∈ st'.modified → includedB incl gs₀ k = true) := by
  intro fuel
  induction fuel with
  | zero => intro st n g st' r _ h; simp [transformFn] at h
  | succ fuel ih =>
    intro st n g st' r hi h
    unfold transformFn at h
    split at h
    · cases h
      exact ⟨fun k hk _ => hi.rep k hk, fun _ => rfl, hi.fp⟩
    · split at h
      · cases h
      · rename_i st2 hloop
        have hinv : Inv gs₀ (fun k => includedB incl gs₀ k = true) st2 := by
          refine foldlM_inv (P := fun acc => Inv gs₀ (fun k => includedB incl gs₀ k = true) acc)
            g.comps st st2 ?_ hi hloop
          intro acc x acc' _ hacc hstep
          unfold transStep at hstep
          split at hstep
          · cases hstep; exact hacc
          · rename_i hnm
            have hnm : x.base ∉ acc.modified := by simpa using hnm
            split at hstep
            · cases hstep
            · rename_i b hb
              split at hstep
              · rename_i hin
                split at hstep
                · cases hstep
                · rename_i st1 r1 hrec
                  obtain ⟨q1, q2, q3⟩ := ih acc x.base b st1 r1 hacc hrec
                  cases r1
                  · simp only [Bool.false_eq_true, if_false] at hstep
                    cases hstep
                    rw [q2 rfl]; exact hacc
                  · simp only [if_true] at hstep
                    cases hstep
                    refine ⟨?_, ?_⟩
                    · intro k hk
                      have hk' : ¬ (k ∈ st1.modified ∨ k = x.base) := by simpa [mem_sadd] using hk
                      exact q1 k (fun h => hk' (Or.inl h)) (fun h => hk' (Or.inr h))
                    · intro k hk
                      rcases mem_sadd.mp hk with h | h
                      · exact q3 k h
                      · subst h
                        have : alookup x.base gs₀ = some b := by rw [← hacc.rep _ hnm]; exact hb
                        simp [includedB, this, hin]
              · cases hstep; exact hacc
        split at h
        · cases h
        · cases h
          refine ⟨?_, by simp, hinv.fp⟩
          intro k hk hkn
          simp only [alookup_aset_ne n k _ _ hkn]
          exact hinv.rep k hk

theorem transformFn_contract (incl : Include) (m : Affine) (gs₀ : GlyphSet) (fuel : Nat) :
    Contract gs₀ (fun n => includedB incl gs₀ n = true) (fun n => includedB incl gs₀ n = true) (fun _ => True)
      (transformFn incl m fuel) := by
  intro st n g st' r hi _ hm _ _ h
  obtain ⟨q1, q2, q3⟩ := transformFn_spec incl m gs₀ fuel st n g st' r hi h
  refine ⟨q1, ?_, q3, trivial⟩
  intro hr _
  rw [q2 hr]; exact hi.rep n hm


/-! ### every modelled filter class meets the contract -/

def Incl (incl : Include) (gs : GlyphSet) (n : String) : Prop := includedB incl gs n = true

/-- the footprint the loop maintains for each class -/
def A_of (k : Kind) (incl : Include) (gs : GlyphSet) : String → Prop :=
  match k with
  | .propagate _ => ReachA incl gs (gs.length + 1)
  | _ => Incl incl gs

def J_of (k : Kind) (gs₀ : GlyphSet) : GlyphSet → Prop :=
  match k with
  | .propagate _ => SameComps gs₀
  | _ => fun _ => True

theorem kind_contract (k : Kind) (incl : Include) (gs : GlyphSet) :
    Contract gs (Incl incl gs) (A_of k incl gs) (J_of k gs) (k.fn incl (gs.length + 1)) := by
  cases k with
  | decompose => exact localFn_contract _ decomposeFilter_false
  | decomposeTransformed => exact localFn_contract _ decomposeTransformedFilter_false
  | flatten => exact localFn_contract _ flattenFilter_false
  | propagate pin => exact propagateFn_contract pin incl gs _
  | transform o => exact transformFn_contract incl _ gs _
  | reverse =>
    exact localFn_contract (fun _ g => .ok (reverseFilter g))
      (fun _ g g' h => reverseFilter_false g g' (by injection h))
  | sort =>
    exact localFn_contract (fun _ g => .ok (sortFilter g))
      (fun _ g g' h => sortFilter_false g g' (by injection h))
  | skipExport skip => exact localFn_contract _ (skipFilter_false skip)
  | external opq =>
    exact localFn_contract (fun _ g => .ok (opaqueFilter opq g))
      (fun _ g g' h => opaqueFilter_false opq g g' (by injection h))

theorem J_of_init (k : Kind) (gs : GlyphSet) : J_of k gs gs := by
  cases k <;> simp [J_of, SameComps]

theorem mem_keys_of_alookup {gs : GlyphSet} {n : String} {g : Glyph} (h : alookup n gs = some g) : n ∈ keys gs := by
  induction gs with
  | nil => simp [alookup] at h
  | cons e l ih =>
    obtain ⟨k', v'⟩ := e
    by_cases hk : (k' == n) = true
    · have : k' = n := by simpa using hk
      simp [keys, this]
    · simp only [alookup, hk] at h
      simp only [keys, List.map_cons, List.mem_cons]
      exact Or.inr (ih (by simpa using h))

theorem Incl_A_of (k : Kind) (incl : Include) (gs : GlyphSet) (n : String) (h : Incl incl gs n) : A_of k incl gs n := by
  cases k <;> try exact h
  exact ⟨n, h, by simp [reachB]⟩

theorem A_of_allowed (k : Kind) (incl : Include) (gs : GlyphSet) (n : String) (h : A_of k incl gs n) :
    allowedB (fpOf k) incl gs n = true := by
  cases k <;> try (simpa [A_of, Incl, fpOf, allowedB] using h)
  · -- propagate
    obtain ⟨m, hm, hr⟩ := h
    simp only [fpOf, allowedB, List.any_eq_true, Bool.and_eq_true]
    refine ⟨m, ?_, hm, hr⟩
    unfold includedB at hm
    split at hm
    · rename_i g hg; exact mem_keys_of_alookup hg
    · cases hm
  · -- skipExport
    simp only [fpOf, allowedB, Bool.or_eq_true]
    exact Or.inl h

theorem skipDelete_spec (skip : List String) : ∀ (o : Out),
    (∀ n, n ∉ (skipDelete skip o).modified → alookup n (skipDelete skip o).gs = alookup n o.gs ∧ n ∉ o.modified) ∧
    (∀ n, n ∈ (skipDelete skip o).modified → n ∈ o.modified ∨ n ∈ skip) := by
  induction skip with
  | nil => intro o; exact ⟨fun n h => ⟨rfl, h⟩, fun n h => Or.inl h⟩
  | cons a l ih =>
    intro o
    simp only [skipDelete, List.foldl_cons]
    split
    · obtain ⟨h1, h2⟩ := ih { o with gs := adel a o.gs, modified := sadd o.modified a }
      simp only [skipDelete] at h1 h2
      refine ⟨?_, ?_⟩
      · intro n hn
        obtain ⟨e1, e2⟩ := h1 n hn
        have e2' : ¬ (n ∈ o.modified ∨ n = a) := by simpa [mem_sadd] using e2
        refine ⟨?_, fun h => e2' (Or.inl h)⟩
        rw [e1]
        exact alookup_adel_ne a n o.gs (fun h => e2' (Or.inr h))
      · intro n hn
        rcases h2 n hn with h | h
        · rcases mem_sadd.mp h with h | h
          · exact Or.inl h
          · exact Or.inr (by simp [h])
        · exact Or.inr (List.mem_cons_of_mem _ h)
    · obtain ⟨h1, h2⟩ := ih o
      simp only [skipDelete] at h1 h2
      refine ⟨h1, ?_⟩
      intro n hn
      rcases h2 n hn with h | h
      · exact Or.inl h
      · exact Or.inr (List.mem_cons_of_mem _ h)

/-! ### the property theorems -/

/-- Everything an invocation leaves behind, in one statement: either nothing at all was changed, or
 every glyph outside the returned set is untouched and the returned set lies inside the footprint. -/
theorem call_inv (k : Kind) (incl : Include) (obj : Obj) (gs : GlyphSet) (o : Out)
    (h : (call k incl obj gs).2 = .ok o) :
    o.gs = gs ∨
    ((∀ n, n ∉ o.modified → alookup n o.gs = alookup n gs) ∧
     (∀ n, n ∈ o.modified → allowedB (fpOf k) incl gs n = true)) := by
  have generic : ∀ st, baseCall incl (k.fn incl (gs.length + 1)) gs = .ok st →
      (∀ n, n ∉ st.modified → alookup n st.gs = alookup n gs) ∧
      (∀ n, n ∈ st.modified → A_of k incl gs n) := by
    intro st hb
    obtain ⟨hi, _⟩ := baseCall_inv (kind_contract k incl gs)
      (by
        intro n g hg hin
        simp [Incl, includedB, hg, hin])
      (Incl_A_of k incl gs) (J_of_init k gs) hb
    exact ⟨hi.rep, hi.fp⟩
  unfold call at h
  split at h
  · -- SkipExportGlyphsFilter with an empty list: returns before doing anything
    split at h
    · cases h
    · cases h; exact Or.inl rfl
  · rename_i hk
    split at h
    · cases h
    · rename_i st hb
      obtain ⟨g1, g2⟩ := generic st hb
      simp only at h
      cases h
      refine Or.inr ?_
      split
      · -- skipExport: the skipped glyphs are deleted and reported
        rename_i skip
        obtain ⟨d1, d2⟩ := skipDelete_spec skip { modified := st.modified, gs := st.gs, ambiguous := st.ambiguous }
        refine ⟨?_, ?_⟩
        · intro n hn
          obtain ⟨e1, e2⟩ := d1 n hn
          rw [e1]; exact g1 n e2
        · intro n hn
          rcases d2 n hn with h | h
          · exact A_of_allowed _ incl gs n (g2 n h)
          · simp only [fpOf, allowedB, Bool.or_eq_true]
            exact Or.inr (by simpa using h)
      · exact ⟨g1, fun n hn => A_of_allowed k incl gs n (g2 n hn)⟩

/-- **C14_report**: every glyph whose entry in the glyph set differs after the call (changed, added or
 removed) is in the returned set. -/
theorem C14_report (k : Kind) (incl : Include) (obj : Obj) (gs : GlyphSet) (o : Out)
    (h : (call k incl obj gs).2 = .ok o) (n : String) (hn : alookup n o.gs ≠ alookup n gs) :
    n ∈ o.modified := by
  rcases call_inv k incl obj gs o h with h0 | ⟨h1, _⟩
  · exact absurd (by rw [h0]) hn
  · exact Classical.byContradiction (fun hc => hn (h1 n hc))

/-- **C14_footprint**: every glyph whose entry differs after the call is an included glyph — or, for
 propagateAnchors, one referenced (transitively) by an included glyph; for skipExportGlyphs, a skipped glyph. -/
theorem C14_footprint (k : Kind) (incl : Include) (obj : Obj) (gs : GlyphSet) (o : Out)
    (h : (call k incl obj gs).2 = .ok o) (n : String) (hn : alookup n o.gs ≠ alookup n gs) :
    allowedB (fpOf k) incl gs n = true := by
  rcases call_inv k incl obj gs o h with h0 | ⟨h1, h2⟩
  · exact absurd (by rw [h0]) hn
  · exact h2 n (Classical.byContradiction (fun hc => hn (h1 n hc)))

theorem mem_changedNames {gs gs' : GlyphSet} {n : String} (h : n ∈ changedNames gs gs') :
    alookup n gs' ≠ alookup n gs := by
  unfold changedNames at h
  have := (List.mem_filter.mp h).2
  intro e
  simp [e] at this

/-- **C14_holds**: the decidable predicate the driver evaluates on observations holds of the model's own
 output (footprint and reporting together). -/
theorem C14_holds (k : Kind) (incl : Include) (obj : Obj) (gs : GlyphSet) (o : Out)
    (h : (call k incl obj gs).2 = .ok o) :
    holdsCall (fpOf k) incl gs o.modified o.gs = true := by
  simp only [holdsCall, holdsFootprint, holdsReport, Bool.and_eq_true, List.all_eq_true]
  refine ⟨?_, ?_⟩
  · intro n hn
    exact C14_footprint k incl obj gs o h n (mem_changedNames hn)
  · intro n hn
    simpa using C14_report k incl obj gs o h n (mem_changedNames hn)


/-- **C14_exclusive**: `include` together with `exclude` is a ValueError; a name list means membership,
 an exclude list its complement, a callable is used as it is, nothing means every glyph. -/
theorem C14_exclusive :
    (∀ i e, mkInclude (some i) (some e) = .error .valueError) ∧
    (∀ l, ∃ p, mkInclude (some (.names l)) none = .ok p ∧ ∀ n g, p n g = l.contains n) ∧
    (∀ l, ∃ p, mkInclude none (some l) = .ok p ∧ ∀ n g, p n g = !l.contains n) ∧
    (∀ q, mkInclude (some (.pred q)) none = .ok q) ∧
    (∃ p, mkInclude none none = .ok p ∧ ∀ n g, p n g = true) := by
  refine ⟨?_, ?_, ?_, ?_, ?_⟩
  · intro i e; cases i <;> rfl
  · intro l; exact ⟨_, rfl, fun _ _ => rfl⟩
  · intro l; exact ⟨_, rfl, fun _ _ => rfl⟩
  · intro q; rfl
  · exact ⟨_, rfl, fun _ _ => rfl⟩

/-- the states a filter object of class `k` can be in: new, or after any number of invocations -/
inductive Reachable (k : Kind) (incl : Include) : Obj → Prop
  | fresh : Reachable k incl Obj.fresh
  | step (obj : Obj) (gs : GlyphSet) : Reachable k incl obj → Reachable k incl (call k incl obj gs).1

theorem reachable_skipEmpty (incl : Include) (obj : Obj) (h : Reachable (.skipExport []) incl obj) :
    obj.ctxModified = none := by
  induction h with
  | fresh => rfl
  | step obj gs _ ih =>
    unfold call
    simp only [ih]

/-- **C14_skipExport_empty**: `SkipExportGlyphsFilter([])` returns `self.context.modified` before `set_context`
 ever ran; as no invocation of such an object reaches `set_context`, every invocation raises AttributeError
 (so the stale-set branch of the model is unreachable). -/
theorem C14_skipExport_empty (incl : Include) (obj : Obj) (h : Reachable (.skipExport []) incl obj) (gs : GlyphSet) :
    (call (.skipExport []) incl obj gs).2 = .error .attributeError := by
  unfold call
  simp only [reachable_skipEmpty incl obj h]

/-- **C14_stateless**: whatever a filter object has been applied to before, the next invocation returns what
 a new object returns: same error, same returned set, same glyph set. -/
theorem C14_stateless (k : Kind) (incl : Include) (obj : Obj) (h : Reachable k incl obj) (gs : GlyphSet) :
    (call k incl obj gs).2 = (call k incl Obj.fresh gs).2 := by
  by_cases hk : k = .skipExport []
  · subst hk
    rw [C14_skipExport_empty incl obj h, C14_skipExport_empty incl Obj.fresh Reachable.fresh]
  · unfold call
    split
    · exact absurd rfl hk
    · rfl


/-! ### BaseIFilter.__call__ (zipped masters) -/

/-- two lists related element by element -/
inductive All₂ {α β : Type} (R : α → β → Prop) : List α → List β → Prop
  | nil : All₂ R [] []
  | cons {a b l₁ l₂} : R a b → All₂ R l₁ l₂ → All₂ R (a :: l₁) (b :: l₂)

theorem All₂.imp {α β : Type} {R S : α → β → Prop} (h : ∀ a b, R a b → S a b) :
    ∀ {l₁ l₂}, All₂ R l₁ l₂ → All₂ S l₁ l₂
  | _, _, .nil => .nil
  | _, _, .cons hab t => .cons (h _ _ hab) (All₂.imp h t)

theorem All₂.refl_of {α : Type} {R : α → α → Prop} (h : ∀ a, R a a) : ∀ l : List α, All₂ R l l
  | [] => .nil
  | a :: l => .cons (h a) (All₂.refl_of h l)

theorem All₂.comp {α β γ : Type} {R : α → β → Prop} {S : β → γ → Prop} {T : α → γ → Prop}
    (hRS : ∀ a b c, R a b → S b c → T a c) :
    ∀ {l₁ l₂ l₃}, All₂ R l₁ l₂ → All₂ S l₂ l₃ → All₂ T l₁ l₃
  | _, _, _, .nil, .nil => .nil
  | _, _, _, .cons h1 t1, .cons h2 t2 => .cons (hRS _ _ _ h1 h2) (All₂.comp hRS t1 t2)

theorem All₂.and {α β : Type} {R S : α → β → Prop} :
    ∀ {l₁ l₂}, All₂ R l₁ l₂ → All₂ S l₁ l₂ → All₂ (fun a b => R a b ∧ S a b) l₁ l₂
  | _, _, .nil, .nil => .nil
  | _, _, .cons h1 t1, .cons h2 t2 => .cons ⟨h1, h2⟩ (All₂.and t1 t2)

theorem All₂.length_eq {α β : Type} {R : α → β → Prop} : ∀ {l₁ l₂}, All₂ R l₁ l₂ → l₁.length = l₂.length
  | _, _, .nil => rfl
  | _, _, .cons _ t => by simp [All₂.length_eq t]

theorem All₂.zip {α β : Type} {R : α → β → Prop} : ∀ {l₁ l₂}, All₂ R l₁ l₂ → ∀ p ∈ List.zip l₁ l₂, R p.1 p.2
  | _, _, .nil => by simp
  | _, _, .cons hab t => by
    intro p hp
    simp only [List.zip_cons_cons, List.mem_cons] at hp
    rcases hp with rfl | hp
    · exact hab
    · exact All₂.zip t p hp

/-- one master's glyph set now (`gs`) against the start of the call (`gs₀`) -/
structure MRel (A : GlyphSet → String → Prop) (J : GlyphSet → GlyphSet → Prop) (modified : List String)
    (gs₀ gs : GlyphSet) : Prop where
  rep : ∀ k, k ∉ modified → alookup k gs = alookup k gs₀
  fp : ∀ k, alookup k gs ≠ alookup k gs₀ → A gs₀ k
  j : J gs₀ gs

def IInv (gss₀ : List GlyphSet) (A : GlyphSet → String → Prop) (J : GlyphSet → GlyphSet → Prop) (st : ISt) : Prop :=
  All₂ (MRel A J st.modified) gss₀ st.gss

theorem glyphsOf_congr {n : String} {l₁ l₂ : List GlyphSet}
    (h : All₂ (fun a b => alookup n b = alookup n a) l₁ l₂) : glyphsOf l₂ n = glyphsOf l₁ n := by
  induction h with
  | nil => rfl
  | cons hab _ ih => simp only [glyphsOf, List.filterMap_cons, hab] at ih ⊢; rw [ih]

theorem any_glyphsOf (incl : Include) (gss : List GlyphSet) (n : String) :
    (glyphsOf gss n).any (incl n) = includedAnyB incl gss n := by
  induction gss with
  | nil => rfl
  | cons gs l ih =>
    simp only [glyphsOf, includedAnyB, List.filterMap_cons, List.any_cons] at ih ⊢
    cases h : alookup n gs with
    | none => simp [includedB, h, ih]
    | some g => simp [includedB, h, ih]

/-- contract of an interpolatable `filter(glyphName, glyphs)` method -/
def IContract (gss₀ : List GlyphSet) (I : String → Prop) (A : GlyphSet → String → Prop)
    (J : GlyphSet → GlyphSet → Prop) (filt : IFilterFn) : Prop :=
  ∀ st n st' r, IInv gss₀ A J st → n ∉ st.modified → I n →
    filt st n (glyphsOf st.gss n) = .ok (st', r) →
    All₂ (fun gs₀ gs =>
        (∀ k, k ∉ st'.modified → k ≠ n → alookup k gs = alookup k gs₀) ∧
        (r = false → n ∉ st'.modified → alookup n gs = alookup n gs₀) ∧
        (∀ k, alookup k gs ≠ alookup k gs₀ → A gs₀ k) ∧ J gs₀ gs) gss₀ st'.gss

theorem iLoopStep_inv {gss₀ : List GlyphSet} {I : String → Prop} {A : GlyphSet → String → Prop}
    {J : GlyphSet → GlyphSet → Prop} {incl : Include} {filt : IFilterFn}
    (hc : IContract gss₀ I A J filt) (hI : ∀ n, includedAnyB incl gss₀ n = true → I n)
    {st st' : ISt} {n : String} (hi : IInv gss₀ A J st)
    (h : iLoopStep incl filt st n = .ok st') : IInv gss₀ A J st' := by
  unfold iLoopStep at h
  split at h
  · cases h; exact hi
  · rename_i hm
    have hm : n ∉ st.modified := by simpa using hm
    dsimp only at h
    split at h
    · rename_i hin
      have heq : glyphsOf st.gss n = glyphsOf gss₀ n :=
        glyphsOf_congr (hi.imp (fun _ _ hr => hr.rep n hm))
      have hIn : I n := hI n (by rw [← any_glyphsOf, ← heq]; exact hin)
      split at h
      · cases h
      · rename_i st1 r hf
        have hpost := hc st n st1 r hi hm hIn hf
        cases r
        · simp only [Bool.false_eq_true, if_false] at h
          cases h
          refine hpost.imp ?_
          intro gs₀ gs ⟨h1, h2, h3, h4⟩
          refine ⟨?_, h3, h4⟩
          intro k hk
          by_cases hkn : k = n
          · subst hkn; exact h2 rfl hk
          · exact h1 k hk hkn
        · simp only [if_true] at h
          cases h
          refine hpost.imp ?_
          intro gs₀ gs ⟨h1, _, h3, h4⟩
          refine ⟨?_, h3, h4⟩
          intro k hk
          have hk' : ¬ (k ∈ st1.modified ∨ k = n) := by simpa [mem_sadd] using hk
          exact h1 k (fun h => hk' (Or.inl h)) (fun h => hk' (Or.inr h))
    · cases h; exact hi

theorem iRunLoop_inv {gss₀ : List GlyphSet} {I : String → Prop} {A : GlyphSet → String → Prop}
    {J : GlyphSet → GlyphSet → Prop} {incl : Include} {filt : IFilterFn}
    (hc : IContract gss₀ I A J filt) (hI : ∀ n, includedAnyB incl gss₀ n = true → I n)
    (names : List String) {st st' : ISt} (hi : IInv gss₀ A J st)
    (h : iRunLoop incl filt st names = .ok st') : IInv gss₀ A J st' :=
  foldlM_inv (f := iLoopStep incl filt) (P := IInv gss₀ A J) names st st'
    (fun _ _ _ _ hacc hstep => iLoopStep_inv hc hI hacc hstep) hi h

theorem iBaseCall_inv {gss : List GlyphSet} {I : String → Prop} {A : GlyphSet → String → Prop}
    {J : GlyphSet → GlyphSet → Prop} {incl : Include} {filt : IFilterFn}
    (hc : IContract gss I A J filt) (hI : ∀ n, includedAnyB incl gss n = true → I n)
    (hj : ∀ gs, J gs gs) (order : List String) {st' : ISt}
    (h : iBaseCall incl filt gss order = .ok st') : IInv gss A J st' := by
  simp only [iBaseCall, bind, Except.bind] at h
  split at h
  · cases h
  · refine iRunLoop_inv hc hI _ ?_ h
    exact All₂.refl_of (fun gs => ⟨fun _ _ => rfl, fun k hk => absurd rfl hk, hj gs⟩) gss

/-- `mapMasters` rewrites the entry `n` of each master and nothing else -/
theorem mapMasters_spec (f : GlyphSet → Glyph → Except Err Glyph) (n : String) :
    ∀ (gss gss' : List GlyphSet), mapMasters f n gss = .ok gss' →
      All₂ (fun gs gs' => ∀ k, k ≠ n → alookup k gs' = alookup k gs) gss gss' := by
  intro gss
  induction gss with
  | nil => intro gss' h; simp [mapMasters] at h; subst h; exact .nil
  | cons gs rest ih =>
    intro gss' h
    unfold mapMasters at h
    split at h
    · split at h
      · cases h
      · rename_i r hr
        cases h
        exact .cons (fun _ _ => rfl) (ih r hr)
    · split at h
      · cases h
      · rename_i g' _
        split at h
        · cases h
        · rename_i r hr
          cases h
          exact .cons (fun k hk => alookup_aset_ne n k g' gs hk) (ih r hr)

theorem iLocalFn_contract {gss₀ : List GlyphSet} {I : String → Prop} {A : String → Prop}
    (cond : List GlyphSet → List Glyph → Bool) (f : GlyphSet → Glyph → Except Err Glyph)
    (hIA : ∀ n, I n → A n) :
    IContract gss₀ I (fun _ => A) (fun _ _ => True) (iLocalFn cond f) := by
  intro st n st' r hi hm hIn h
  unfold iLocalFn at h
  split at h
  · split at h
    · cases h
    · rename_i gss' hmm
      cases h
      refine All₂.comp ?_ hi (mapMasters_spec f n _ _ hmm)
      intro gs₀ gs gs' hr hs
      refine ⟨?_, by simp, ?_, trivial⟩
      · intro k hk hkn
        rw [hs k hkn]; exact hr.rep k hk
      · intro k hk
        by_cases hkn : k = n
        · subst hkn; exact hIA _ hIn
        · rw [hs k hkn] at hk; exact hr.fp k hk
  · cases h
    exact hi.imp (fun gs₀ gs hr => ⟨fun k hk _ => hr.rep k hk, fun _ hk => hr.rep n hk, hr.fp, trivial⟩)

/-- the per-master loop of PropagateAnchorsIFilter: each master changes only reported glyphs, and only glyphs
 referenced from `n` in that master -/
theorem iPropMasters_spec (fuel : Nat) (n : String) {R : GlyphSet → GlyphSet → Prop}
    (hR : ∀ a b, R a b → SameComps a b) :
    ∀ {gss₀ gss : List GlyphSet}, All₂ R gss₀ gss →
    ∀ (pins : List PAIn) (procs : List (List String)) (m : List String) (a : Bool)
      (gss' : List GlyphSet) (procs' : List (List String)) (m' : List String) (a' : Bool),
      iPropMasters fuel n gss pins procs m a = .ok (gss', procs', m', a') →
      (∀ k, k ∈ m → k ∈ m') ∧
      All₂ (fun gs₀ gs' => ∃ gs, R gs₀ gs ∧ (∀ k, k ∉ m' → alookup k gs' = alookup k gs) ∧
          (∀ k, alookup k gs' ≠ alookup k gs → reachB gs₀ fuel n k = true) ∧ SameComps gs₀ gs') gss₀ gss' := by
  intro gss₀ gss hall
  induction hall with
  | nil =>
    intro pins procs m a gss' procs' m' a' h
    simp only [iPropMasters, Except.ok.injEq, Prod.mk.injEq] at h
    obtain ⟨rfl, _, rfl, _⟩ := h
    exact ⟨fun _ hk => hk, .nil⟩
  | @cons gs₀ gs l₁ l₂ hab t ih =>
    intro pins procs m a gss' procs' m' a' h
    unfold iPropMasters at h
    dsimp only at h
    split at h
    · -- the master does not have the glyph
      split at h
      · cases h
      · rename_i r ps m1 a1 hrec
        simp only [Except.ok.injEq, Prod.mk.injEq] at h
        obtain ⟨rfl, _, rfl, _⟩ := h
        obtain ⟨i1, i2⟩ := ih _ _ _ _ _ _ _ _ hrec
        exact ⟨i1, .cons ⟨gs, hab, fun _ _ => rfl, fun k hk => absurd rfl hk, hR _ _ hab⟩ i2⟩
    · rename_i g hg
      split at h
      · cases h
      · rename_i st1 hp
        split at h
        · cases h
        · rename_i r ps m1 a1 hrec
          simp only [Except.ok.injEq, Prod.mk.injEq] at h
          obtain ⟨rfl, _, rfl, _⟩ := h
          obtain ⟨i1, i2⟩ := ih _ _ _ _ _ _ _ _ hrec
          obtain ⟨q1, _, q3, q4, q5⟩ :=
            propagate_spec (pins.headD { marks := [], bounds := fun _ _ => none }) gs₀ fuel n g
              { gs := gs, modified := m, processed := procs.headD [], ambiguous := a } st1 (hR _ _ hab) hg hp
          refine ⟨fun k hk => i1 k (q4 k hk), .cons ⟨gs, hab, ?_, q5, q3⟩ i2⟩
          intro k hk
          exact q1 k (fun h => hk (i1 k h))

/-- footprint of the interpolatable anchor propagation in master `gs₀` -/
def IReachA (incl : Include) (gss₀ : List GlyphSet) (fuel : Nat) (gs₀ : GlyphSet) (k : String) : Prop :=
  ∃ m, includedAnyB incl gss₀ m = true ∧ reachB gs₀ fuel m k = true

theorem iPropagateFn_contract (pins : List PAIn) (incl : Include) (gss₀ : List GlyphSet) (fuel : Nat) :
    IContract gss₀ (fun n => includedAnyB incl gss₀ n = true) (IReachA incl gss₀ fuel) SameComps
      (iPropagateFn pins fuel) := by
  intro st n st' r hi hm hIn h
  unfold iPropagateFn at h
  split at h
  · cases h
    exact hi.imp (fun gs₀ gs hr => ⟨fun k hk _ => hr.rep k hk, fun _ hk => hr.rep n hk, hr.fp, hr.j⟩)
  · split at h
    · cases h
    · rename_i gss' procs' m' a' hpm
      obtain ⟨i1, i2⟩ := iPropMasters_spec fuel n (R := MRel (IReachA incl gss₀ fuel) SameComps st.modified)
        (fun _ _ hr => hr.j) hi _ _ _ _ _ _ _ _ hpm
      cases h
      refine i2.imp ?_
      intro gs₀ gs' ⟨gs, hr, s1, s2, s3⟩
      refine ⟨?_, ?_, ?_, s3⟩
      · intro k hk _
        rw [s1 k hk]; exact hr.rep k (fun h => hk (i1 k h))
      · intro _ hk
        rw [s1 n hk]; exact hr.rep n hm
      · intro k hk
        by_cases he : alookup k gs' = alookup k gs
        · exact hr.fp k (by rw [← he]; exact hk)
        · exact ⟨n, hIn, s2 k he⟩

/-! FlattenComponentsIFilter: `flattened |= ...` over the masters (since /repo commit 90a86ee; the former
 `flattened = ...` is kept below as `iFlattenMastersOld`, only to state the repaired defect). -/

theorem iFlattenMasters_spec (n : String) : ∀ (gss gss' : List GlyphSet) (fl fl' : Bool),
    iFlattenMasters n gss fl = .ok (gss', fl') →
    (fl = true → fl' = true) ∧
    All₂ (fun gs gs' => (∀ k, k ≠ n → alookup k gs' = alookup k gs) ∧
      (fl' = false → alookup n gs' = alookup n gs)) gss gss' := by
  intro gss
  induction gss with
  | nil =>
    intro gss' fl fl' h
    simp [iFlattenMasters] at h
    obtain ⟨rfl, rfl⟩ := h
    exact ⟨id, .nil⟩
  | cons gs rest ih =>
    intro gss' fl fl' h
    unfold iFlattenMasters at h
    split at h
    · split at h
      · cases h
      · rename_i r fl1 hr
        cases h
        obtain ⟨i1, i2⟩ := ih _ _ _ hr
        exact ⟨i1, .cons ⟨fun _ _ => rfl, fun _ => rfl⟩ i2⟩
    · rename_i g hg
      split at h
      · cases h
      · rename_i g' fl1 hff
        split at h
        · cases h
        · rename_i r fl2 hr
          cases h
          obtain ⟨i1, i2⟩ := ih _ _ _ hr
          refine ⟨fun hfl => i1 (by simp [hfl]), .cons ⟨fun k hk => alookup_aset_ne n k g' gs hk, ?_⟩ i2⟩
          intro hfalse
          have hor : (fl || fl1) = false := by
            cases hx : (fl || fl1)
            · rfl
            · rw [i1 hx] at hfalse; cases hfalse
          have hfl1 : fl1 = false := by
            cases fl1
            · rfl
            · simp at hor
          subst hfl1
          have := flattenFilter_false gs g g' hff
          subst this
          rw [alookup_aset_eq, hg]

theorem iFlattenFn_contract {gss₀ : List GlyphSet} {I : String → Prop} {A : String → Prop}
    (hIA : ∀ n, I n → A n) :
    IContract gss₀ I (fun _ => A) (fun _ _ => True) iFlattenFn := by
  intro st n st' r hi hm hIn h
  have hsame : All₂ (fun gs₀ gs =>
        (∀ k, k ∉ st.modified → k ≠ n → alookup k gs = alookup k gs₀) ∧
        (false = false → n ∉ st.modified → alookup n gs = alookup n gs₀) ∧
        (∀ k, alookup k gs ≠ alookup k gs₀ → A k) ∧ True) gss₀ st.gss :=
    hi.imp (fun gs₀ gs hr => ⟨fun k hk _ => hr.rep k hk, fun _ hk => hr.rep n hk, hr.fp, trivial⟩)
  unfold iFlattenFn at h
  split at h
  · cases h; exact hsame
  · split at h
    · cases h; exact hsame
    · split at h
      · cases h
      · rename_i gss' fl hmm
        cases h
        obtain ⟨_, hall⟩ := iFlattenMasters_spec n _ _ _ _ hmm
        refine All₂.comp ?_ hi hall
        intro gs₀ gs gs' hr ⟨s1, s2⟩
        refine ⟨?_, ?_, ?_, trivial⟩
        · intro k hk hkn
          rw [s1 k hkn]; exact hr.rep k hk
        · intro hfl _
          rw [s2 hfl]; exact hr.rep n hm
        · intro k hk
          by_cases hkn : k = n
          · subst hkn; exact hIA _ hIn
          · rw [s1 k hkn] at hk; exact hr.fp k hk

theorem delMap_spec (a : String) : ∀ (gl : List GlyphSet),
    All₂ (fun gs gs' => ∀ k, k ≠ a → alookup k gs' = alookup k gs) gl
      (gl.map (fun gs => if (alookup a gs).isSome then adel a gs else gs))
  | [] => .nil
  | g :: t => by
    simp only [List.map_cons]
    refine .cons ?_ (delMap_spec a t)
    intro k hk
    split
    · exact alookup_adel_ne a k g hk
    · rfl

theorem iSkipDelete_spec (skip : List String) : ∀ (o : IOut),
    All₂ (fun gs gs' => ∀ k, k ∉ (iSkipDelete skip o).modified → alookup k gs' = alookup k gs) o.gss (iSkipDelete skip o).gss ∧
    (∀ k, k ∈ (iSkipDelete skip o).modified → k ∈ o.modified ∨ k ∈ skip) ∧
    (∀ k, k ∈ o.modified → k ∈ (iSkipDelete skip o).modified) := by
  induction skip with
  | nil => intro o; exact ⟨All₂.refl_of (fun _ _ _ => rfl) _, fun k h => Or.inl h, fun k h => h⟩
  | cons a l ih =>
    intro o
    simp only [iSkipDelete, List.foldl_cons]
    split
    · obtain ⟨h1, h2, h3⟩ := ih { o with gss := o.gss.map (fun gs => if (alookup a gs).isSome then adel a gs else gs),
                                          modified := sadd o.modified a }
      simp only [iSkipDelete] at h1 h2 h3
      refine ⟨?_, ?_, ?_⟩
      · have hmap := delMap_spec a o.gss
        refine All₂.comp ?_ hmap h1
        intro g1 g2 g3 e1 e2 k hk
        rw [e2 k hk]
        refine e1 k ?_
        intro hka
        exact hk (h3 k (mem_sadd.mpr (Or.inr hka)))
      · intro k hk
        rcases h2 k hk with h | h
        · rcases mem_sadd.mp h with h | h
          · exact Or.inl h
          · exact Or.inr (by simp [h])
        · exact Or.inr (List.mem_cons_of_mem _ h)
      · intro k hk
        exact h3 k (mem_sadd.mpr (Or.inl hk))
    · obtain ⟨h1, h2, h3⟩ := ih o
      simp only [iSkipDelete] at h1 h2 h3
      refine ⟨h1, ?_, h3⟩
      intro k hk
      rcases h2 k hk with h | h
      · exact Or.inl h
      · exact Or.inr (List.mem_cons_of_mem _ h)

def IAny (incl : Include) (gss : List GlyphSet) (n : String) : Prop := includedAnyB incl gss n = true

def IA_of (k : IKind) (incl : Include) (gss : List GlyphSet) : GlyphSet → String → Prop :=
  match k with
  | .propagate _ => IReachA incl gss (maxLen gss + 1)
  | _ => fun _ => IAny incl gss

def IJ_of (k : IKind) : GlyphSet → GlyphSet → Prop :=
  match k with
  | .propagate _ => SameComps
  | _ => fun _ _ => True

theorem ikind_contract (k : IKind) (incl : Include) (gss : List GlyphSet) :
    IContract gss (IAny incl gss) (IA_of k incl gss) (IJ_of k) (k.fn (maxLen gss + 1)) := by
  cases k with
  | decompose =>
    unfold IKind.fn IA_of IJ_of iDecomposeFn
    exact iLocalFn_contract _ _ (fun _ h => h)
  | decomposeTransformed =>
    unfold IKind.fn IA_of IJ_of iDecomposeTransformedFn
    exact iLocalFn_contract _ _ (fun _ h => h)
  | flatten =>
    unfold IKind.fn IA_of IJ_of
    exact iFlattenFn_contract (fun _ h => h)
  | propagate pins => exact iPropagateFn_contract pins incl gss _
  | skipExport skip =>
    unfold IKind.fn IA_of IJ_of iSkipFn
    exact iLocalFn_contract _ _ (fun _ h => h)

theorem IJ_of_refl (k : IKind) (gs : GlyphSet) : IJ_of k gs gs := by
  cases k <;> simp [IJ_of, SameComps]

theorem maxLenS_eq (gss : List GlyphSet) : maxLenS gss = maxLen gss := rfl

theorem IA_of_allowed (k : IKind) (incl : Include) (gss : List GlyphSet) (gs₀ : GlyphSet) (n : String)
    (h : IA_of k incl gss gs₀ n) : allowedIB (fpOfI k) incl gss gs₀ n = true := by
  cases k <;> try (simpa [IA_of, IAny, fpOfI, allowedIB] using h)
  · -- propagate
    obtain ⟨m, hm, hr⟩ := h
    simp only [fpOfI, allowedIB, List.any_eq_true, Bool.and_eq_true, maxLenS_eq]
    refine ⟨m, ?_, hm, hr⟩
    simp only [includedAnyB, List.any_eq_true] at hm
    obtain ⟨gs, hgs, hin⟩ := hm
    unfold includedB at hin
    split at hin
    · rename_i g hg
      exact List.mem_flatMap.mpr ⟨gs, hgs, mem_keys_of_alookup hg⟩
    · cases hin
  · -- skipExport
    simp only [fpOfI, allowedIB, Bool.or_eq_true]
    exact Or.inl h

theorem iSkipDelete_changed (skip : List String) : ∀ (o : IOut),
    All₂ (fun gs gs' => ∀ k, k ∉ skip → alookup k gs' = alookup k gs) o.gss (iSkipDelete skip o).gss := by
  induction skip with
  | nil => intro o; exact All₂.refl_of (fun _ _ _ => rfl) _
  | cons a l ih =>
    intro o
    simp only [iSkipDelete, List.foldl_cons]
    split
    · have h1 := ih { o with gss := o.gss.map (fun gs => if (alookup a gs).isSome then adel a gs else gs),
                             modified := sadd o.modified a }
      simp only [iSkipDelete] at h1
      refine All₂.comp ?_ (delMap_spec a o.gss) h1
      intro g1 g2 g3 e1 e2 k hk
      have hk' : ¬ (k = a ∨ k ∈ l) := by simpa using hk
      rw [e2 k (fun h => hk' (Or.inr h)), e1 k (fun h => hk' (Or.inl h))]
    · have h1 := ih o
      simp only [iSkipDelete] at h1
      refine h1.imp ?_
      intro g1 g2 e k hk
      have hk' : ¬ (k = a ∨ k ∈ l) := by simpa using hk
      exact e k (fun h => hk' (Or.inr h))

/-- the traversal part of an interpolatable call -/
theorem iBaseCall_post (k : IKind) (incl : Include) (gss : List GlyphSet) (order : List String)
    (st : ISt) (hb : iBaseCall incl (k.fn (maxLen gss + 1)) gss order = .ok st) :
    All₂ (fun gs₀ gs => (∀ n, n ∉ st.modified → alookup n gs = alookup n gs₀) ∧
      (∀ n, alookup n gs ≠ alookup n gs₀ → allowedIB (fpOfI k) incl gss gs₀ n = true)) gss st.gss := by
  have hi := iBaseCall_inv (ikind_contract k incl gss) (fun _ h => h) (IJ_of_refl k) order hb
  exact hi.imp (fun gs₀ gs hr => ⟨hr.rep, fun n hn => IA_of_allowed k incl gss gs₀ n (hr.fp n hn)⟩)

theorem all₂_post_to_goal {gss gss' : List GlyphSet} {m : List String} {P : GlyphSet → String → Prop}
    (h : All₂ (fun gs₀ gs => (∀ n, n ∉ m → alookup n gs = alookup n gs₀) ∧
      (∀ n, alookup n gs ≠ alookup n gs₀ → P gs₀ n)) gss gss') :
    All₂ (fun gs₀ gs' => ∀ n, alookup n gs' ≠ alookup n gs₀ → n ∈ m ∧ P gs₀ n) gss gss' :=
  h.imp (fun _ _ hr n hn => ⟨Classical.byContradiction (fun hc => hn (hr.1 n hc)), hr.2 n hn⟩)

/-- what an invocation of an interpolatable filter leaves behind:
 in every master, a glyph whose entry differs is in the returned set and in the footprint -/
theorem icall_inv (k : IKind) (incl : Include) (obj : Obj) (gss : List GlyphSet)
    (order : List String) (o : IOut) (h : (icall k incl obj gss order).2 = .ok o) :
    All₂ (fun gs₀ gs' => ∀ n, alookup n gs' ≠ alookup n gs₀ →
      n ∈ o.modified ∧ allowedIB (fpOfI k) incl gss gs₀ n = true) gss o.gss := by
  have simple : ∀ k' : IKind, ∀ o', 
      (match iBaseCall incl (k'.fn (maxLen gss + 1)) gss order with
        | .error e => (Except.error e : Except Err IOut)
        | .ok st => .ok { modified := st.modified, gss := st.gss, ambiguous := st.ambiguous }) = .ok o' →
      All₂ (fun gs₀ gs' => ∀ n, alookup n gs' ≠ alookup n gs₀ →
        n ∈ o'.modified ∧ allowedIB (fpOfI k') incl gss gs₀ n = true) gss o'.gss := by
    intro k' o' h'
    split at h'
    · cases h'
    · rename_i st hb
      cases h'
      exact all₂_post_to_goal (iBaseCall_post k' incl gss order st hb)
  cases k with
  | flatten =>
    apply simple .flatten o
    simp only [icall] at h
    split at h <;> simp_all
  | decompose =>
    apply simple .decompose o
    simp only [icall] at h
    split at h <;> simp_all
  | decomposeTransformed =>
    apply simple .decomposeTransformed o
    simp only [icall] at h
    split at h <;> simp_all
  | propagate pins =>
    apply simple (.propagate pins) o
    simp only [icall] at h
    split at h <;> simp_all
  | skipExport skip =>
    cases skip with
    | nil =>
      simp only [icall] at h
      split at h
      · cases h
      · cases h; exact All₂.refl_of (fun _ n hn => absurd rfl hn) _
    | cons a l =>
      simp only [icall] at h
      split at h
      · cases h
      · rename_i st hb
        cases h
        have hp := iBaseCall_post (.skipExport (a :: l)) incl gss order st hb
        obtain ⟨d1, d2, d3⟩ := iSkipDelete_spec (a :: l) { modified := st.modified, gss := st.gss, ambiguous := st.ambiguous }
        have d4 := iSkipDelete_changed (a :: l) { modified := st.modified, gss := st.gss, ambiguous := st.ambiguous }
        -- combine the three element-wise relations gss ~ st.gss ~ result
        have hcomb : All₂ (fun gs (gs' : GlyphSet) =>
            (∀ k, k ∉ (iSkipDelete (a :: l) { modified := st.modified, gss := st.gss, ambiguous := st.ambiguous }).modified →
              alookup k gs' = alookup k gs) ∧ (∀ k, k ∉ (a :: l) → alookup k gs' = alookup k gs)) st.gss
            (iSkipDelete (a :: l) { modified := st.modified, gss := st.gss, ambiguous := st.ambiguous }).gss := by
          exact All₂.and d1 d4
        refine All₂.comp ?_ hp hcomb
        intro gs₀ gs gs' ⟨r1, r2⟩ ⟨e1, e2⟩ n hn
        by_cases hm : n ∈ (iSkipDelete (a :: l) { modified := st.modified, gss := st.gss, ambiguous := st.ambiguous }).modified
        · refine ⟨hm, ?_⟩
          by_cases he : alookup n gs = alookup n gs₀
          · -- untouched by the loop, so it was deleted: it is a skipped glyph
            have : n ∈ (a :: l) := Classical.byContradiction (fun hc => hn (by rw [e2 n hc]; exact he))
            simp only [fpOfI, allowedIB, Bool.or_eq_true]
            exact Or.inr (by simpa using this)
          · exact r2 n he
        · exact absurd (by rw [e1 n hm]; exact r1 n (fun h => hm (d3 n h))) hn

/-- **C14_ifootprint** (all five interpolatable classes): in every master, a glyph whose entry differs after
 the call is included in some master (`any(include(g) for g in glyphs)`) — or, for propagateAnchors, referenced
 in that master from such a glyph; for skipExportGlyphs, a skipped glyph. -/
theorem C14_ifootprint (k : IKind) (incl : Include) (obj : Obj) (gss : List GlyphSet) (order : List String)
    (o : IOut) (h : (icall k incl obj gss order).2 = .ok o) :
    All₂ (fun gs₀ gs' => ∀ n, alookup n gs' ≠ alookup n gs₀ → allowedIB (fpOfI k) incl gss gs₀ n = true) gss o.gss :=
  (icall_inv k incl obj gss order o h).imp (fun _ _ hr n hn => (hr n hn).2)

/-- **C14_ireport** (all five interpolatable classes): a glyph whose entry differs in any master is in the
 returned set. -/
theorem C14_ireport (k : IKind) (incl : Include) (obj : Obj) (gss : List GlyphSet)
    (order : List String) (o : IOut) (h : (icall k incl obj gss order).2 = .ok o) :
    All₂ (fun gs₀ gs' => ∀ n, alookup n gs' ≠ alookup n gs₀ → n ∈ o.modified) gss o.gss :=
  (icall_inv k incl obj gss order o h).imp (fun _ _ hr n hn => (hr n hn).1)

/-- **C14_iholds**: the predicate the driver evaluates on observations of interpolatable filters holds of the
 model's output (all five classes). -/
theorem C14_iholds (k : IKind) (incl : Include) (obj : Obj) (gss : List GlyphSet)
    (order : List String) (o : IOut) (h : (icall k incl obj gss order).2 = .ok o) :
    holdsICall (fpOfI k) incl gss o.modified o.gss = true := by
  have hall := icall_inv k incl obj gss order o h
  simp only [holdsICall, Bool.and_eq_true, List.all_eq_true, beq_iff_eq]
  refine ⟨hall.length_eq, ?_⟩
  intro p hp n hn
  obtain ⟨h1, h2⟩ := hall.zip p hp n (mem_changedNames hn)
  exact ⟨h2, by simpa using h1⟩

/-- the states an interpolatable filter object can be in -/
inductive IReachable (k : IKind) (incl : Include) : Obj → Prop
  | fresh : IReachable k incl Obj.fresh
  | step (obj : Obj) (gss : List GlyphSet) (order : List String) :
      IReachable k incl obj → IReachable k incl (icall k incl obj gss order).1

theorem ireachable_skipEmpty (incl : Include) (obj : Obj) (h : IReachable (.skipExport []) incl obj) :
    obj.ctxModified = none := by
  induction h with
  | fresh => rfl
  | step obj gss order _ ih =>
    unfold icall
    simp only [ih]

/-- **C14_istateless**: a reused interpolatable filter object returns what a new one returns. -/
theorem C14_istateless (k : IKind) (incl : Include) (obj : Obj) (h : IReachable k incl obj)
    (gss : List GlyphSet) (order : List String) :
    (icall k incl obj gss order).2 = (icall k incl Obj.fresh gss order).2 := by
  by_cases hk : k = .skipExport []
  · subst hk
    unfold icall
    simp only [ireachable_skipEmpty incl obj h, Obj.fresh]
  · unfold icall
    split
    · exact absurd rfl hk
    · rfl

/-! ### non-vacuity: the hypotheses of the theorems are met by concrete, non-trivial inputs
 (a -> simple glyph with an anchor; b -> mirrored composite of a; c -> composite of b) -/

def exPt (x y : Int) : Pt := { x := x, y := y, seg := some .line }
def exA : Glyph :=
  { width := 500, height := 0, contours := [[exPt 0 0, exPt 10 0, exPt 10 10]], comps := [], anchors := [⟨"top", 5, 10⟩] }
def exB : Glyph := { width := 500, height := 0, contours := [], comps := [⟨"a", ⟨-1, 0, 0, 1, 20, 0⟩⟩], anchors := [] }
def exC : Glyph := { width := 600, height := 0, contours := [], comps := [⟨"b", ⟨1, 0, 0, 1, 0, 5⟩⟩], anchors := [] }
def exGs : GlyphSet := [("a", exA), ("b", exB), ("c", exC)]
def exIncl (l : List String) : Include := fun n _ => l.contains n
def exPin : PAIn := { marks := [], bounds := fun _ _ => none }
def exT : TOpts :=
  { offsetX := 10, offsetY := 0, scaleX := 50, scaleY := 100, slant := 0, tanSlant := 0, origin := 4,
    capHeight := 700, xHeight := 500 }

/-- (returned set, names whose entry changed) of a call on a new object -/
def exRun (k : Kind) (incl : Include) : Option (List String × List String) :=
  match (call k incl Obj.fresh exGs).2 with
  | .ok o => some (o.modified, changedNames exGs o.gs)
  | .error _ => none

-- C14_report / C14_footprint / C14_holds: the call succeeds, something changes, something does not
example : exRun .decompose (exIncl ["b"]) = some (["b"], ["b"]) := by decide +kernel
example : exRun .flatten (exIncl ["b", "c"]) = some (["c"], ["c"]) := by decide +kernel
-- the anchor propagation changes `b`, which is not included but referenced by the included `c`
example : exRun (.propagate exPin) (exIncl ["c"]) = some (["b", "c"], ["b", "c"]) := by decide +kernel
-- the transformation recurses from `c` into the included base `b` and leaves `a` alone
example : exRun (.transform exT) (exIncl ["c", "b"]) = some (["b", "c"], ["b", "c"]) := by decide +kernel
-- skipExportGlyphs decomposes the reference to `a` in the included `b` and removes `a`
example : exRun (.skipExport ["a"]) (exIncl ["b", "c"]) = some (["b", "a"], ["a", "b"]) := by decide +kernel
-- over-reporting is possible (and allowed): nothing to reverse in composites, but contours are always "reversed"
example : exRun .reverse (exIncl ["a"]) = some (["a"], ["a"]) := by decide +kernel
-- C14_stateless / C14_skipExport_empty: there are reachable objects other than the new one
example : Reachable .decompose (exIncl ["b"]) (call .decompose (exIncl ["b"]) Obj.fresh exGs).1 :=
  Reachable.step _ _ Reachable.fresh
example : (call .decompose (exIncl ["b"]) Obj.fresh exGs).1.ctxModified = some ["b"] := by decide +kernel
example : (call (.skipExport []) (exIncl []) Obj.fresh exGs).2.toOption.isNone = true := by decide +kernel
-- the stale-set branch of the model exists (an object that has a context), it is only unreachable:
example : ((call (.skipExport []) (exIncl []) { ctxModified := some ["zzz"] } exGs).2.toOption.map (·.modified)) = some ["zzz"] := by
  decide +kernel
-- getMaxComponentDepth under-counts on shared bases (A -> [D, B], B -> D, D -> E, E -> F: 3, true depth 4)
def exLeaf : Glyph := { width := 0, height := 0, contours := [[exPt 0 0]], comps := [], anchors := [] }
def exRef (l : List String) : Glyph :=
  { width := 0, height := 0, contours := [], comps := l.map (fun b => ⟨b, Affine.ident⟩), anchors := [] }
def exShared : GlyphSet :=
  [("A", exRef ["D", "B"]), ("B", exRef ["D"]), ("D", exRef ["E"]), ("E", exRef ["F"]), ("F", exLeaf)]
example : (maxDepth exShared "A" (exRef ["D", "B"])).toOption = some 3 := by decide +kernel
example : (maxDepth exShared "B" (exRef ["D"])).toOption = some 3 := by decide +kernel

-- interpolatable variants: master 2 reaches `a` directly from `c`, master 1 through `b`
def exC2 : Glyph := { width := 600, height := 0, contours := [], comps := [⟨"a", ⟨1, 0, 0, 1, 20, 5⟩⟩], anchors := [] }
def exGs2 : GlyphSet := [("a", exA), ("b", exB), ("c", exC2)]
def exIRun (k : IKind) (incl : Include) (gss : List GlyphSet) : Option (List String × List (List String)) :=
  match (icall k incl Obj.fresh gss ["a", "b", "c"]).2 with
  | .ok o => some (o.modified, (List.zip gss o.gss).map (fun p => changedNames p.1 p.2))
  | .error _ => none

example : exIRun .decompose (exIncl ["c"]) [exGs, exGs2] = some (["c"], [["c"], ["c"]]) := by decide +kernel
example : exIRun (.propagate [exPin, exPin]) (exIncl ["c"]) [exGs, exGs2] = some (["b", "c"], [["b", "c"], ["c"]]) := by
  decide +kernel
example : exIRun (.skipExport ["a"]) (exIncl ["c"]) [exGs, exGs2] = some (["c", "a"], [["a"], ["a", "c"]]) := by
  decide +kernel

-- since the repair the flag is OR-ed over the masters: `c` is reported
example : exIRun .flatten (exIncl ["c"]) [exGs, exGs2] = some (["c"], [["c"], []]) := by decide +kernel

/-- the per-master loop of `FlattenComponentsIFilter.filter` as it was BEFORE /repo commit 90a86ee:
 `flattened = _flattenGlyphComponents(...)`, overwritten by every master that has the glyph. -/
def iFlattenMastersOld (n : String) : List GlyphSet → Bool → Except Err (List GlyphSet × Bool)
  | [], fl => .ok ([], fl)
  | gs :: rest, fl =>
    match alookup n gs with
    | none => match iFlattenMastersOld n rest fl with
      | .error e => .error e
      | .ok (r, fl') => .ok (gs :: r, fl')
    | some g => match flattenFilter gs g with
      | .error e => .error e
      | .ok (g', fl1) => match iFlattenMastersOld n rest fl1 with
        | .error e => .error e
        | .ok (r, fl') => .ok (aset n g' gs :: r, fl')

/-- **repaired defect (fixed in /repo by 90a86ee), about the OLD rule only**: with the flag of the last master
 winning, master 1's `c` is rewritten (c -> b -> a flattened to c -> a) while the flag returned for the glyph is
 `false`, so `BaseIFilter.__call__` would not have reported it. -/
theorem iflatten_lastflag_underreports :
    (match iFlattenMastersOld "c" [exGs, exGs2] false with
     | .ok (gss', fl) => some (fl, (List.zip [exGs, exGs2] gss').map (fun p => changedNames p.1 p.2))
     | .error _ => none) = some (false, [["c"], []]) := by decide +kernel

end Ufo2ft.C14
