import Ufo2ftModel.Props.C06AttachMkmk
/-! C06, part 15: mark-to-ligature attachment of a matching pair. -/
namespace Ufo2ft.C06
open List

theorem foldl_max_ge (l : List Nat) (a : Nat) : a ≤ l.foldl max a ∧ ∀ n ∈ l, n ≤ l.foldl max a := by
  induction l generalizing a with
  | nil => simp
  | cons b l ih =>
    simp only [foldl_cons]
    obtain ⟨h1, h2⟩ := ih (max a b)
    refine ⟨by omega, ?_⟩
    intro n hn
    rcases mem_cons.mp hn with rfl | hn
    · omega
    · exact h2 n hn

theorem le_maxNat {l : List Nat} {n : Nat} (h : n ∈ l) : n ≤ maxNat l := (foldl_max_ge l 0).2 n h

theorem takeWhile_eq_self {α} {p : α → Bool} {l : List α} (h : ∀ a ∈ l, p a = true) : l.takeWhile p = l := by
  induction l with
  | nil => rfl
  | cons a l ih =>
    rw [takeWhile_cons_of_pos (h a (by simp)), ih (fun x hx => h x (by simp [hx]))]

/-- the component lists _makeMarkToLigaAttachments builds for one glyph -/
def ligBM (km : List (String × String)) (as : List NA) : List (List BAnchor) :=
  (List.range (maxNat ((ligEvents km (plainOf as)).filterMap (·.number)))).map
    (fun j => compOf km (ligEvents km (plainOf as)) (j + 1))

theorem ligAtts_eq {i : Input} {al : AList} {mg : List String} {km : List (String × String)}
    {att : String × List (List BAnchor)} (h : att ∈ ligAtts i al mg km) :
    ∃ as, (att.1, as) ∈ al ∧ att.2 = ligBM km as := by
  obtain ⟨e, he, hf⟩ := mem_filterMap.mp h
  simp only at hf
  split at hf
  · simp at hf
  · split at hf
    · simp at hf
    · simp only [Option.some.injEq] at hf; subst hf
      exact ⟨e.2, he, rfl⟩

theorem ligAtts_mem {i : Input} {al : AList} {mg : List String} {km : List (String × String)} {g : String} {as : List NA}
    (h : (g, as) ∈ al) (hmg : g ∉ mg) (hb : ligOK i g = true) (hne : ligEvents km (plainOf as) ≠ []) :
    (g, ligBM km as) ∈ ligAtts i al mg km := by
  refine mem_filterMap.mpr ⟨(g, as), h, ?_⟩
  have h1 : (mg.contains g || !ligOK i g) = false := by simp [hmg, hb]
  have h2 : (ligEvents km (plainOf as)).isEmpty = false := by
    cases hh : ligEvents km (plainOf as) with
    | nil => exact absurd hh hne
    | cons _ _ => rfl
  simp only [h1, Bool.false_eq_true, if_false, h2]
  rfl

theorem mem_compOf_of {km : List (String × String)} {evs : List NA} {n : Nat} {a : NA} {c : String}
    (ha : a ∈ evs) (hn : a.number = some n) (hc : classOf km a = some c)
    (hnonull : ∀ a' ∈ evs, a'.number = some n → a'.key ≠ "") : (⟨a, c⟩ : BAnchor) ∈ compOf km evs n := by
  unfold compOf
  simp only
  have hall : ∀ x ∈ (evs.filter (fun a => a.number == some n)).reverse, (fun a : NA => a.key != "") x = true := by
    intro x hx
    obtain ⟨hx1, hx2⟩ := mem_filter.mp (mem_reverse.mp hx)
    simpa using hnonull x hx1 (by simpa using hx2)
  rw [takeWhile_eq_self hall, reverse_reverse]
  exact mem_filterMap.mpr ⟨a, mem_filter.mpr ⟨ha, by simp [hn]⟩, by simp [hc]⟩

theorem ligBM_get {km : List (String × String)} {as : List NA} {j : Nat} {a : NA}
    (ha : a ∈ ligEvents km (plainOf as)) (hn : a.number = some (j + 1)) :
    (ligBM km as)[j]? = some (compOf km (ligEvents km (plainOf as)) (j + 1)) := by
  unfold ligBM
  have hle : j + 1 ≤ maxNat ((ligEvents km (plainOf as)).filterMap (·.number)) :=
    le_maxNat (mem_filterMap.mpr ⟨a, ha, hn⟩)
  rw [getElem?_map, getElem?_range (by omega)]
  rfl

/-- mark-to-ligature: for a pair `k_N` / `_k` on a non-mark glyph that passes the ligature filter and does not
    declare component N empty -/
theorem lig_attach {i : Input} {al : AList} (w : ALwf i al) {b m : String} {ab am : NA} (p : Pair al b m ab am)
    (hok : markOK i m = true) (hpl : ab.ctx = none) (j : Nat) (hnum : ab.number = some (j + 1)) (hnmg : b ∉ mgOf i al)
    (hlig : ligOK i b = true)
    (hnonull : ∀ as, (b, as) ∈ al → ∀ a ∈ as, a.ctx = none → a.number = some (j + 1) → a.key ≠ "")
    (feat : String) (inc : String → Bool) (mf : NA → Bool) (hinc : inc b = true) (hmf : mf ab = true) :
    ∃ L ∈ ligLookups feat inc mf (glOf i al), (attachLookup (build i al) L b m (some j)).isSome = true := by
  have hcl := pair_classOf w p hok
  obtain ⟨recs, hcls, r, hr, hrg⟩ := pair_class w p hok
  obtain ⟨as', has', hab'⟩ := pair_prune_b w p
  -- the anchor reaches the component bookkeeping
  have hev : ab ∈ ligEvents (kmOf i al) (plainOf as') := mem_filter.mpr ⟨mem_plainOf_of hab' hpl, by simp [hnum, hcl]⟩
  have hnn : ∀ a' ∈ ligEvents (kmOf i al) (plainOf as'), a'.number = some (j + 1) → a'.key ≠ "" := by
    intro a' ha' hn'
    obtain ⟨_, as, has, e⟩ := mem_prune has'
    simp only at e
    have : a' ∈ as := by
      have := (mem_plainOf (mem_filter.mp ha').1).1
      rw [e] at this; exact (mem_filter.mp this).1
    exact hnonull as has a' this (mem_plainOf (mem_filter.mp ha').1).2 hn'
  have hcomp : (⟨ab, cnOf i al am.name⟩ : BAnchor) ∈ compOf (kmOf i al) (ligEvents (kmOf i al) (plainOf as')) (j + 1) :=
    mem_compOf_of hev hnum hcl hnn
  have hget := ligBM_get hev hnum
  have hatt0 : (b, ligBM (kmOf i al) as') ∈ laOf i al := ligAtts_mem has' hnmg hlig (ne_nil_of_mem hev)
  -- its group
  have hmem : members (clsOf i al) (cnOf i al am.name) ≠ [] := by
    rw [members_clsOf w hcls]; exact ne_nil_of_mem (mem_map.mpr ⟨r, hr, rfl⟩)
  obtain ⟨grp, hgrp, hcn⟩ := group_has (i := i) (al := al)
    ((laOf i al).flatMap (fun att => att.2.flatMap (·.map (·.cls)))) (classOf_alookup hcl)
    (mem_flatMap.mpr ⟨_, hatt0, mem_flatMap.mpr ⟨_, mem_of_getElem? hget, mem_map.mpr ⟨_, hcomp, rfl⟩⟩⟩) hmem
  have hgrp' : grp ∈ lgroupsOf i al := hgrp
  -- the grouped attachment
  have hfilter : filterLig grp (b, ligBM (kmOf i al) as') =
      some (b, (ligBM (kmOf i al) as').map (fun comp => comp.filter (fun x => grp.contains x.cls))) := by
    unfold filterLig
    simp only
    rw [if_neg]
    intro hall
    rw [all_eq_true] at hall
    have hm := hall _ (mem_map.mpr ⟨_, mem_of_getElem? hget, rfl⟩)
    have : (⟨ab, cnOf i al am.name⟩ : BAnchor) ∈
        (compOf (kmOf i al) (ligEvents (kmOf i al) (plainOf as')) (j + 1)).filter (fun x => grp.contains x.cls) :=
      mem_filter.mpr ⟨hcomp, by simpa using hcn⟩
    rw [isEmpty_iff] at hm
    rw [hm] at this; simp at this
  have hatts : (laOf i al).filterMap (filterLig grp) ∈ glOf i al := mem_map.mpr ⟨grp, hgrp', rfl⟩
  have hatt : (b, (ligBM (kmOf i al) as').map (fun comp => comp.filter (fun x => grp.contains x.cls))) ∈
      (laOf i al).filterMap (filterLig grp) := mem_filterMap.mpr ⟨_, hatt0, hfilter⟩
  generalize hes : (((laOf i al).filterMap (filterLig grp)).filter (fun att => inc att.1)).filterMap (fun att =>
      let cs := att.2.map (fun comp => comp.filter (fun x => mf x.a))
      if cs.all (·.isEmpty) then none else some (⟨att.1, cs.map compAST⟩ : Entry)) = es
  -- the shape of every entry, and of those for glyph b
  have hshape : ∀ e ∈ es, ∃ att0 ∈ laOf i al, e.glyph = att0.1 ∧
      e.comps = ((att0.2.map (fun comp => comp.filter (fun x => grp.contains x.cls))).map
        (fun comp => comp.filter (fun x => mf x.a))).map compAST := by
    intro e he
    rw [← hes] at he
    obtain ⟨att', hatt', hfe⟩ := mem_filterMap.mp he
    simp only at hfe
    split at hfe
    · simp at hfe
    · simp only [Option.some.injEq] at hfe; subst hfe
      obtain ⟨att0', hatt0', hf'⟩ := mem_filterMap.mp (mem_filter.mp hatt').1
      obtain ⟨e1, e2⟩ := filterLig_some hf'
      exact ⟨att0', hatt0', e1, by rw [e2]⟩
  have hentry : ∀ e ∈ es, e.glyph = b → ∃ comp, e.comps[j]? = some comp ∧
      (cnOf i al am.name, otRound ab.x, otRound ab.y) ∈ comp := by
    intro e he heg
    obtain ⟨att0', hatt0', e1, e2⟩ := hshape e he
    obtain ⟨as'', has'', e3⟩ := ligAtts_eq hatt0'
    rw [← e1, heg] at has''
    have hu : as'' = as' := mem_unique_of_nodup_keys ((prune_keys_sublist al).nodup w.keys) has'' has'
    rw [e2, e3, hu]
    simp only [getElem?_map, hget, Option.map_some]
    refine ⟨_, rfl, ?_⟩
    exact mem_compAST_of (b := ⟨ab, cnOf i al am.name⟩) (mem_filter.mpr ⟨mem_filter.mpr ⟨hcomp, by simpa using hcn⟩, hmf⟩)
  have hused : ∀ e ∈ es, ∀ comp ∈ e.comps, ∀ t ∈ comp, t.1 ∈ grp := by
    intro e he comp hcomp' t ht
    obtain ⟨att0', _, _, e2⟩ := hshape e he
    rw [e2] at hcomp'
    simp only [map_map, mem_map, Function.comp] at hcomp'
    obtain ⟨c0, _, rfl⟩ := hcomp'
    obtain ⟨x, hx, rfl⟩ := mem_compAST ht
    simpa using (mem_filter.mp (mem_filter.mp hx).1).2
  have he0 : ∃ e0 ∈ es, e0.glyph = b := by
    rw [← hes]
    refine ⟨(⟨b, (((ligBM (kmOf i al) as').map (fun comp => comp.filter (fun x => grp.contains x.cls))).map
      (fun comp => comp.filter (fun x => mf x.a))).map compAST⟩ : Entry),
      mem_filterMap.mpr ⟨_, mem_filter.mpr ⟨hatt, hinc⟩, ?_⟩, rfl⟩
    simp only
    rw [if_neg]
    intro hall
    rw [all_eq_true] at hall
    have hm := hall _ (mem_map.mpr ⟨_, mem_map.mpr ⟨_, mem_of_getElem? hget, rfl⟩, rfl⟩)
    have : (⟨ab, cnOf i al am.name⟩ : BAnchor) ∈
        ((compOf (kmOf i al) (ligEvents (kmOf i al) (plainOf as')) (j + 1)).filter (fun x => grp.contains x.cls)).filter (fun x => mf x.a) :=
      mem_filter.mpr ⟨mem_filter.mpr ⟨hcomp, by simpa using hcn⟩, hmf⟩
    rw [isEmpty_iff] at hm
    rw [hm] at this; simp at this
  obtain ⟨e0, he0, he0g⟩ := he0
  have hL : (⟨feat, .liga, es⟩ : Lookup) ∈ ligLookups feat inc mf (glOf i al) := by
    refine mem_filterMap.mpr ⟨_, hatts, ?_⟩
    simp only
    rw [hes, if_neg]
    cases es with
    | nil => simp at he0
    | cons _ _ => simp
  refine ⟨_, hL, attachLookup_isSome rfl ⟨e0, he0, he0g⟩ ?_ ?_⟩
  · refine ⟨(cnOf i al am.name, recs), hcls, ?_, r, hr, hrg⟩
    obtain ⟨comp, hc, hx⟩ := hentry e0 he0 he0g
    exact mem_usedClasses.mpr ⟨e0, he0, comp, mem_of_getElem? hc, _, hx, rfl⟩
  · intro e he heg cls hcls' hu hm
    obtain ⟨comp, hc, hx⟩ := hentry e he heg
    obtain ⟨e', he', comp', hcomp', t', ht', htc'⟩ := mem_usedClasses.mp hu
    have hin : cls.1 ∈ grp := by rw [← htc']; exact hused e' he' comp' hcomp' t' ht'
    have hsame : cls.1 = cnOf i al am.name :=
      same_class_in_group w _ hgrp hin hcn (r1 := cls.2) (r2 := recs) hcls' hcls hm ⟨r, hr, hrg⟩
    exact ⟨comp, hc, _, hx, hsame.symm⟩

end Ufo2ft.C06
