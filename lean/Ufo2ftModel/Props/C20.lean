import Ufo2ftModel.Spec.C20
/-! Property C20: theorems about the model (feaLib registration ∘ ufo2ft writers). -/
namespace Ufo2ft.C20
open List

/-! ### dictionaries -/

theorem alookup_cons {κ ν} [BEq κ] (k k' : κ) (v : ν) (l : List (κ × ν)) :
    alookup k ((k', v) :: l) = if k' == k then some v else alookup k l := rfl

theorem alookup_some_mem {κ ν} [BEq κ] [LawfulBEq κ] {k : κ} {v : ν} {l : List (κ × ν)}
    (h : alookup k l = some v) : (k, v) ∈ l := by
  induction l with
  | nil => simp [alookup] at h
  | cons e r ih =>
    obtain ⟨k', v'⟩ := e
    rw [alookup_cons] at h
    by_cases hk : (k' == k) = true
    · simp only [hk, if_true, Option.some.injEq] at h
      have : k' = k := by simpa using hk
      subst this; subst h; exact mem_cons_self
    · simp only [hk] at h
      exact mem_cons_of_mem _ (ih h)

theorem fget_fset (fs : Feats) (k k' : Key) (v : List Lk) :
    fget (fset fs k v) k' = if k = k' then some v else fget fs k' := by
  induction fs with
  | nil =>
    simp only [fset, fget, alookup_cons]
    by_cases h : k = k' <;> simp [h, alookup]
  | cons e r ih =>
    obtain ⟨k0, v0⟩ := e
    simp only [fget] at ih ⊢
    unfold fset
    by_cases h0 : k0 = k
    · subst h0
      simp only [BEq.rfl, if_true, alookup_cons]
      by_cases h : k0 = k' <;> simp [h]
    · have hb : (k0 == k) = false := by simpa using h0
      simp only [hb, Bool.false_eq_true, if_false, alookup_cons]
      by_cases h1 : k0 = k'
      · subst h1
        have : k ≠ k0 := fun h => h0 h.symm
        simp [this]
      · have hb1 : (k0 == k') = false := by simpa using h1
        simp only [hb1, Bool.false_eq_true, if_false]
        exact ih

theorem fget_fappend (fs : Feats) (k k' : Key) (x : Lk) :
    fget (fappend fs k x) k' = if k = k' then some ((fget fs k).getD [] ++ [x]) else fget fs k' := by
  unfold fappend; exact fget_fset _ _ _ _

/-- lookup `x` is registered under key `k` -/
def has (fs : Feats) (k : Key) (x : Lk) : Prop := ∃ v, fget fs k = some v ∧ x ∈ v

theorem has_fappend_self (fs : Feats) (k : Key) (x : Lk) : has (fappend fs k x) k x := by
  refine ⟨(fget fs k).getD [] ++ [x], ?_, ?_⟩
  · rw [fget_fappend]; simp
  · simp

theorem has_fappend_mono {fs : Feats} {k' : Key} {y : Lk} (h : has fs k' y) (k : Key) (x : Lk) :
    has (fappend fs k x) k' y := by
  obtain ⟨v, hv, hy⟩ := h
  by_cases e : k = k'
  · subst e
    refine ⟨(fget fs k).getD [] ++ [x], by rw [fget_fappend]; simp, ?_⟩
    simp [hv, hy]
  · exact ⟨v, by rw [fget_fappend]; simp [e, hv], hy⟩

theorem mem_triples_of_has {fs : Feats} {k : Key} {x : Lk} (h : has fs k x) (hg : x.gpos = true) :
    k ∈ triples fs := by
  obtain ⟨v, hv, hx⟩ := h
  have hm := alookup_some_mem hv
  unfold triples
  rw [mem_filterMap]
  refine ⟨(k, v), hm, ?_⟩
  have : v.any (·.gpos) = true := any_eq_true.mpr ⟨x, hx, hg⟩
  simp [this]

/-- keys present in the dict -/
def keys (fs : Feats) : List Key := fs.map (·.1)

theorem keys_cons (e : Key × List Lk) (r : Feats) (k : Key) : k ∈ keys (e :: r) ↔ k = e.1 ∨ k ∈ keys r := by
  simp [keys]

theorem keys_fset (fs : Feats) (k k' : Key) (v : List Lk) :
    k' ∈ keys (fset fs k v) → k' = k ∨ k' ∈ keys fs := by
  induction fs with
  | nil => intro h; simp [fset, keys] at h; exact Or.inl h
  | cons e r ih =>
    obtain ⟨k0, v0⟩ := e
    intro h
    unfold fset at h
    by_cases h0 : (k0 == k) = true
    · simp only [h0, if_true] at h
      right; rw [keys_cons] at h ⊢; exact h
    · simp only [h0, Bool.false_eq_true, if_false] at h
      rw [keys_cons] at h ⊢
      rcases h with h1 | h2
      · exact Or.inr (Or.inl h1)
      · rcases ih h2 with h3 | h4
        · exact Or.inl h3
        · exact Or.inr (Or.inr h4)

theorem mem_keys_of_mem_triples {fs : Feats} {k : Key} (h : k ∈ triples fs) : k ∈ keys fs := by
  unfold triples at h
  rw [mem_filterMap] at h
  obtain ⟨e, he, h2⟩ := h
  split at h2
  · simp only [Option.some.injEq] at h2; subst h2; exact mem_map_of_mem he
  · simp at h2


/-! ### the builder: one statement -/

theorem keys_fappend (fs : Feats) (k k' : Key) (x : Lk) :
    k' ∈ keys (fappend fs k x) → k' = k ∨ k' ∈ keys fs := keys_fset _ _ _ _

/-- the `add_lookup_to_feature_` loop -/
def regAll (f : Tag) (x : Lk) (ls : List LS) (fs : Feats) : Feats :=
  ls.foldl (fun fs sl => fappend fs (sl.1, sl.2, f) x) fs

theorem regAll_frame (f : Tag) (x : Lk) (ls : List LS) (fs : Feats) (k : Key) (hk : k.2.2 ≠ f) :
    fget (regAll f x ls fs) k = fget fs k := by
  unfold regAll
  induction ls generalizing fs with
  | nil => rfl
  | cons sl r ih =>
    simp only [foldl_cons]
    rw [ih, fget_fappend]
    have : (sl.1, sl.2, f) ≠ k := by intro e; apply hk; rw [← e]
    simp [this]

theorem regAll_mono (f : Tag) (x : Lk) (ls : List LS) (fs : Feats) (k : Key) (y : Lk) (h : has fs k y) :
    has (regAll f x ls fs) k y := by
  unfold regAll
  induction ls generalizing fs with
  | nil => exact h
  | cons sl r ih =>
    simp only [foldl_cons]
    exact ih _ (has_fappend_mono h _ _)

theorem regAll_self (f : Tag) (x : Lk) (ls : List LS) (fs : Feats) (sl : LS) (h : sl ∈ ls) :
    has (regAll f x ls fs) (sl.1, sl.2, f) x := by
  induction ls generalizing fs with
  | nil => cases h
  | cons a r ih =>
    rcases mem_cons.mp h with e | e
    · subst e
      exact regAll_mono f x r _ _ _ (has_fappend_self _ _ _)
    · exact ih _ e

theorem regAll_keys (f : Tag) (x : Lk) (ls : List LS) (fs : Feats) (k : Key)
    (h : k ∈ keys (regAll f x ls fs)) : k ∈ keys fs ∨ (k.2.2 = f ∧ (k.1, k.2.1) ∈ ls) := by
  induction ls generalizing fs with
  | nil => exact Or.inl h
  | cons a r ih =>
    rcases ih _ h with h1 | ⟨h2, h3⟩
    · rcases keys_fappend _ _ _ _ h1 with e | e
      · right; subst e; exact ⟨rfl, mem_cons_self⟩
      · exact Or.inl e
    · exact Or.inr ⟨h2, mem_cons_of_mem _ h3⟩

theorem addLookup_feats (f : Tag) (st : BState) (x : Lk) :
    (addLookup f st x).feats = regAll f x st.ls st.feats := rfl

/-- how the current language systems and `script_` evolve: independent of the lookups registered so far -/
def lsNext (c : List LS × Tag) : Stmt → List LS × Tag
  | .script s => if isSingleton c.1 (s, "dflt") then c else ([(s, "dflt")], s)
  | .language l _ => ([(c.2, l)], c.2)
  | .lookup _ => c

/-- all language systems that are current after some statement of the block -/
def lsAll (c : List LS × Tag) : List Stmt → List LS
  | [] => []
  | s :: r => (lsNext c s).1 ++ lsAll (lsNext c s) r

theorem step_ls (f : Tag) (st : BState) (s : Stmt) :
    ((step f st s).ls, (step f st s).script) = lsNext (st.ls, st.script) s := by
  cases s with
  | script t =>
    simp only [step, setScript, lsNext]
    split <;> simp [setLanguage]
  | language l i => simp [step, setLanguage, lsNext]
  | lookup x => simp [step, addLookup, lsNext]

theorem step_frame (f : Tag) (st : BState) (s : Stmt) (k : Key) (hk : k.2.2 ≠ f) :
    fget (step f st s).feats k = fget st.feats k := by
  have hset : ∀ (st : BState) (l : Tag) (i : Bool), fget (setLanguage f st l i).feats k = fget st.feats k := by
    intro st l i
    simp only [setLanguage]
    rw [fget_fset]
    have : (st.script, l, f) ≠ k := by intro e; apply hk; rw [← e]
    simp [this]
  cases s with
  | script t =>
    simp only [step, setScript]
    split
    · rfl
    · rw [hset]
  | language l i => exact hset st l i
  | lookup x => simp only [step, addLookup_feats]; exact regAll_frame f x _ _ k hk

theorem step_keys (f : Tag) (st : BState) (s : Stmt) (k : Key) (h : k ∈ keys (step f st s).feats) :
    k ∈ keys st.feats ∨ (k.2.2 = f ∧ (k.1, k.2.1) ∈ (step f st s).ls) := by
  have hset : ∀ (st : BState) (l : Tag) (i : Bool), k ∈ keys (setLanguage f st l i).feats →
      k ∈ keys st.feats ∨ (k.2.2 = f ∧ (k.1, k.2.1) ∈ (setLanguage f st l i).ls) := by
    intro st l i h
    simp only [setLanguage] at h ⊢
    rcases keys_fset _ _ _ _ h with e | e
    · right; subst e; simp
    · exact Or.inl e
  cases s with
  | script t =>
    simp only [step, setScript] at h ⊢
    split at h
    · exact Or.inl h
    · rename_i hns
      simp only [hns, Bool.false_eq_true, if_false]
      exact hset _ _ _ h
  | language l i => exact hset st l i h
  | lookup x =>
    simp only [step, addLookup_feats] at h
    exact regAll_keys f x _ _ k h

/-! ### the builder: a block, a file -/

def runSt (f : Tag) (st : BState) (stmts : List Stmt) : BState := stmts.foldl (step f) st

theorem runSt_frame (f : Tag) (stmts : List Stmt) (st : BState) (k : Key) (hk : k.2.2 ≠ f) :
    fget (runSt f st stmts).feats k = fget st.feats k := by
  unfold runSt
  induction stmts generalizing st with
  | nil => rfl
  | cons s r ih => simp only [foldl_cons]; rw [ih, step_frame f st s k hk]

theorem runSt_keys (f : Tag) (stmts : List Stmt) (st : BState) (k : Key)
    (h : k ∈ keys (runSt f st stmts).feats) :
    k ∈ keys st.feats ∨ (k.2.2 = f ∧ (k.1, k.2.1) ∈ lsAll (st.ls, st.script) stmts) := by
  unfold runSt at h
  induction stmts generalizing st with
  | nil => exact Or.inl h
  | cons s r ih =>
    simp only [foldl_cons] at h
    have hls := step_ls f st s
    rcases ih _ h with h1 | ⟨h2, h3⟩
    · rcases step_keys f st s k h1 with h4 | ⟨h5, h6⟩
      · exact Or.inl h4
      · right; refine ⟨h5, ?_⟩
        simp only [lsAll, mem_append]
        left; rw [← hls]; exact h6
    · right; refine ⟨h2, ?_⟩
      simp only [lsAll, mem_append]
      right; rw [← hls]; exact h3

/-- a block of lookups only: registered under every current language system -/
theorem runSt_unscripted (f : Tag) (stmts : List Stmt) (st : BState)
    (hb : ∀ s ∈ stmts, ∃ x, s = Stmt.lookup x) :
    (runSt f st stmts).ls = st.ls ∧
    (∀ k y, has st.feats k y → has (runSt f st stmts).feats k y) ∧
    (∀ x, Stmt.lookup x ∈ stmts → ∀ sl ∈ st.ls, has (runSt f st stmts).feats (sl.1, sl.2, f) x) := by
  unfold runSt
  induction stmts generalizing st with
  | nil => exact ⟨rfl, fun _ _ h => h, fun x hx => by cases hx⟩
  | cons s r ih =>
    obtain ⟨x0, rfl⟩ := hb s mem_cons_self
    have ih' := ih (step f st (.lookup x0)) (fun s hs => hb s (mem_cons_of_mem _ hs))
    have hls : (step f st (.lookup x0)).ls = st.ls := rfl
    simp only [foldl_cons]
    refine ⟨by rw [ih'.1, hls], ?_, ?_⟩
    · intro k y h
      apply ih'.2.1
      simp only [step, addLookup_feats]
      exact regAll_mono f x0 _ _ k y h
    · intro x hx sl hsl
      rcases mem_cons.mp hx with e | e
      · injection e with e; subst e
        apply ih'.2.1
        simp only [step, addLookup_feats]
        exact regAll_self f x _ _ sl hsl
      · exact ih'.2.2 x e sl (by rw [hls]; exact hsl)

theorem runBlock_eq (dl : List LS) (fs : Feats) (b : Block) :
    runBlock dl fs b = (runSt b.tag { feats := fs, ls := dl, script := "DFLT" } b.stmts).feats := rfl

def buildFrom (dl : List LS) (fs : Feats) (bs : List Block) : Feats := bs.foldl (runBlock dl) fs

theorem build_eq (p : Program) : build p = buildFrom (defaultLS p.langsys) [] p.blocks := rfl

theorem buildFrom_append (dl : List LS) (fs : Feats) (a b : List Block) :
    buildFrom dl fs (a ++ b) = buildFrom dl (buildFrom dl fs a) b := by
  simp [buildFrom, foldl_append]

/-- blocks with other tags leave the entries of tag `t` alone -/
theorem buildFrom_frame (dl : List LS) (bs : List Block) (fs : Feats) (k : Key)
    (h : ∀ b ∈ bs, b.tag ≠ k.2.2) : fget (buildFrom dl fs bs) k = fget fs k := by
  unfold buildFrom
  induction bs generalizing fs with
  | nil => rfl
  | cons b r ih =>
    simp only [foldl_cons]
    rw [ih _ (fun b' hb' => h b' (mem_cons_of_mem _ hb')), runBlock_eq,
      runSt_frame _ _ _ _ (fun e => h b mem_cons_self e.symm)]

/-- every key of the dict was created by a block of that tag, under a language system current in that block -/
theorem buildFrom_keys (dl : List LS) (bs : List Block) (fs : Feats) (k : Key)
    (h : k ∈ keys (buildFrom dl fs bs)) :
    k ∈ keys fs ∨ ∃ b ∈ bs, b.tag = k.2.2 ∧ (k.1, k.2.1) ∈ lsAll (dl, "DFLT") b.stmts := by
  unfold buildFrom at h
  induction bs generalizing fs with
  | nil => exact Or.inl h
  | cons b r ih =>
    simp only [foldl_cons] at h
    rcases ih _ h with h1 | ⟨b', hb', h2⟩
    · rw [runBlock_eq] at h1
      rcases runSt_keys _ _ _ _ h1 with h3 | ⟨h4, h5⟩
      · exact Or.inl h3
      · exact Or.inr ⟨b, mem_cons_self, h4.symm, h5⟩
    · exact Or.inr ⟨b', mem_cons_of_mem _ hb', h2⟩

/-- **feaLib, unscripted block**: a feature block made of lookups only, whose tag no later block uses, ends up
registered (with each of its lookups) under every default language system. -/
theorem unscripted_block_everywhere (dl : List LS) (pre post : List Block) (b : Block)
    (hb : ∀ s ∈ b.stmts, ∃ x, s = Stmt.lookup x) (hpost : ∀ b' ∈ post, b'.tag ≠ b.tag)
    (x : Lk) (hx : Stmt.lookup x ∈ b.stmts) (sl : LS) (hsl : sl ∈ dl) :
    has (buildFrom dl [] (pre ++ b :: post)) (sl.1, sl.2, b.tag) x := by
  rw [buildFrom_append]
  have : buildFrom dl (buildFrom dl [] pre) (b :: post)
      = buildFrom dl (runBlock dl (buildFrom dl [] pre) b) post := rfl
  rw [this]
  have h1 := (runSt_unscripted b.tag b.stmts { feats := buildFrom dl [] pre, ls := dl, script := "DFLT" } hb).2.2 x hx sl hsl
  rw [← runBlock_eq] at h1
  obtain ⟨v, hv, hm⟩ := h1
  exact ⟨v, by rw [buildFrom_frame _ _ _ _ (fun b' hb' => hpost b' hb')]; exact hv, hm⟩


/-! ### where a block with script statements can land -/

theorem isSingleton_mem {ls : List LS} {x : LS} (h : isSingleton ls x = true) : ∀ y ∈ ls, y = x := by
  simp only [isSingleton, Bool.and_eq_true, all_eq_true, beq_iff_eq] at h
  exact h.2

theorem isSingleton_ne_nil {ls : List LS} {x : LS} (h : isSingleton ls x = true) : ls ≠ [] := by
  simp only [isSingleton, Bool.and_eq_true, Bool.not_eq_true', isEmpty_eq_false_iff] at h
  exact h.1

/-- Under `DFLT dflt ∈ dl`: a block whose `language` statements are all `dflt` or declared for the script named just
before (`okStmts`) only ever has current language systems that are declared, or (s, dflt) for a script `s` the
block names.  Invariant `J`: either nothing happened yet (`c = (dl, "DFLT")`) or `c.1 = [(c.2, l)]`. -/
theorem lsAll_ok (langsys : List LS) (stmts : List Stmt) (c : List LS × Tag)
    (hd : ("DFLT", "dflt") ∈ defaultLS langsys)
    (hJ : (c.1 = defaultLS langsys ∧ c.2 = "DFLT") ∨
          ∃ l, c.1 = [(c.2, l)] ∧ ((c.2, l) ∈ defaultLS langsys ∨ l = "dflt"))
    (hok : okStmts langsys c.2 stmts = true) :
    ∀ sl ∈ lsAll c stmts, sl ∈ defaultLS langsys ∨ (sl.2 = "dflt" ∧ (sl.1 = c.2 ∨ sl.1 ∈ scriptTags stmts)) := by
  induction stmts generalizing c with
  | nil => intro sl h; cases h
  | cons s r ih =>
    -- what is known about the members of the current language systems
    have hcur : ∀ sl ∈ c.1, sl ∈ defaultLS langsys ∨ (sl.2 = "dflt" ∧ sl.1 = c.2) := by
      intro sl hsl
      rcases hJ with ⟨h1, _⟩ | ⟨l, h1, h2⟩
      · left; rw [← h1]; exact hsl
      · rw [h1] at hsl
        have : sl = (c.2, l) := by simpa using hsl
        subst this
        rcases h2 with h2 | h2
        · exact Or.inl h2
        · exact Or.inr ⟨h2, rfl⟩
    cases s with
    | script t =>
      simp only [okStmts] at hok
      intro sl hsl
      simp only [lsAll, lsNext, mem_append] at hsl
      by_cases hs : isSingleton c.1 (t, "dflt") = true
      · simp only [hs, if_true] at hsl
        -- the statement is ignored; then t = c.2
        have ht : t = c.2 := by
          rcases hJ with ⟨h1, h2⟩ | ⟨l, h1, _⟩
          · have := isSingleton_mem hs _ (h1 ▸ hd)
            rw [h2]; exact (Prod.mk.inj this).1.symm
          · have := isSingleton_mem hs (c.2, l) (by rw [h1]; exact mem_cons_self)
            exact (Prod.mk.inj this).1.symm
        rcases hsl with hsl | hsl
        · rcases hcur sl hsl with h | ⟨h1, h2⟩
          · exact Or.inl h
          · exact Or.inr ⟨h1, Or.inl h2⟩
        · rcases ih c hJ (ht ▸ hok) sl hsl with h | ⟨h1, h2⟩
          · exact Or.inl h
          · refine Or.inr ⟨h1, ?_⟩
            rcases h2 with h2 | h2
            · exact Or.inl h2
            · exact Or.inr (by simp [scriptTags, h2])
      · simp only [hs, Bool.false_eq_true, if_false] at hsl
        rcases hsl with hsl | hsl
        · have : sl = (t, "dflt") := by simpa using hsl
          subst this
          exact Or.inr ⟨rfl, Or.inr (by simp [scriptTags])⟩
        · rcases ih ([(t, "dflt")], t) (Or.inr ⟨"dflt", rfl, Or.inr rfl⟩) hok sl hsl with h | ⟨h1, h2⟩
          · exact Or.inl h
          · refine Or.inr ⟨h1, Or.inr ?_⟩
            rcases h2 with h2 | h2
            · simp [scriptTags, h2]
            · simp [scriptTags, h2]
    | language l i =>
      simp only [okStmts, Bool.and_eq_true, Bool.or_eq_true, beq_iff_eq] at hok
      obtain ⟨hl, hok⟩ := hok
      have hl' : (c.2, l) ∈ defaultLS langsys ∨ l = "dflt" := by
        rcases hl with h | h
        · exact Or.inr h
        · left
          have hm : (c.2, l) ∈ langsys := by simpa using h
          have : langsys ≠ [] := ne_nil_of_mem hm
          simp only [defaultLS]
          cases hls : langsys with
          | nil => exact absurd hls this
          | cons a b => simp only [isEmpty_cons, Bool.false_eq_true, if_false]; rw [← hls]; exact hm
      intro sl hsl
      simp only [lsAll, lsNext, mem_append] at hsl
      rcases hsl with hsl | hsl
      · have : sl = (c.2, l) := by simpa using hsl
        subst this
        rcases hl' with h | h
        · exact Or.inl h
        · exact Or.inr ⟨h, Or.inl rfl⟩
      · rcases ih ([(c.2, l)], c.2) (Or.inr ⟨l, rfl, hl'⟩) hok sl hsl with h | ⟨h1, h2⟩
        · exact Or.inl h
        · refine Or.inr ⟨h1, ?_⟩
          rcases h2 with h2 | h2
          · exact Or.inl h2
          · exact Or.inr (by simp [scriptTags, h2])
    | lookup x =>
      simp only [okStmts] at hok
      intro sl hsl
      simp only [lsAll, lsNext, mem_append] at hsl
      rcases hsl with hsl | hsl
      · rcases hcur sl hsl with h | ⟨h1, h2⟩
        · exact Or.inl h
        · exact Or.inr ⟨h1, Or.inl h2⟩
      · rcases ih c hJ hok sl hsl with h | ⟨h1, h2⟩
        · exact Or.inl h
        · refine Or.inr ⟨h1, ?_⟩
          rcases h2 with h2 | h2
          · exact Or.inl h2
          · exact Or.inr (by simp [scriptTags, h2])


/-! ### what the kerning writer emits -/

theorem alookup_groupAdd (acc : List (Tag × List Tag)) (s l t : Tag) :
    alookup t (groupAdd acc s l) = if s = t then some ((alookup s acc).getD [] ++ [l]) else alookup t acc := by
  induction acc with
  | nil =>
    simp only [groupAdd, alookup_cons]
    by_cases h : s = t <;> simp [h, alookup]
  | cons e r ih =>
    obtain ⟨s0, l0⟩ := e
    unfold groupAdd
    by_cases h0 : s0 = s
    · subst h0
      simp only [BEq.rfl, if_true, alookup_cons]
      by_cases h : s0 = t <;> simp [h]
    · have hb : (s0 == s) = false := by simpa using h0
      simp only [hb, Bool.false_eq_true, if_false, alookup_cons]
      by_cases h1 : s0 = t
      · subst h1
        have : s ≠ s0 := fun h => h0 h.symm
        simp [this]
      · have hb1 : (s0 == t) = false := by simpa using h1
        simp only [hb1, Bool.false_eq_true, if_false]
        exact ih

/-- the languages the kerning writer finds for a tag are declared for it -/
theorem langsOf_sound (langsys : List LS) (t : Tag) (ls : List Tag) (L : Tag)
    (h : alookup t (langsOf langsys) = some ls) (hL : L ∈ ls) : (t, L) ∈ langsys := by
  have gen : ∀ (l : List LS) (acc : List (Tag × List Tag)) (P : Tag → Tag → Prop),
      (∀ t ls L, alookup t acc = some ls → L ∈ ls → P t L) → (∀ sl ∈ l, P sl.1 sl.2) →
      ∀ t ls L, alookup t (l.foldl (fun acc sl => groupAdd acc sl.1 sl.2) acc) = some ls → L ∈ ls → P t L := by
    intro l
    induction l with
    | nil => intro acc P h1 _ t ls L h hL; exact h1 t ls L h hL
    | cons a r ih =>
      intro acc P h1 h2 t ls L h hL
      simp only [foldl_cons] at h
      refine ih (groupAdd acc a.1 a.2) P ?_ (fun sl hsl => h2 sl (mem_cons_of_mem _ hsl)) t ls L h hL
      intro t' ls' L' h' hL'
      rw [alookup_groupAdd] at h'
      by_cases e : a.1 = t'
      · simp only [e, if_true, Option.some.injEq] at h'
        subst h'
        rcases mem_append.mp hL' with hm | hm
        · cases hacc : alookup t' acc with
          | none => simp [hacc] at hm
          | some v => simp only [hacc, Option.getD_some] at hm; exact h1 t' v L' hacc hm
        · have : L' = a.2 := by simpa using hm
          subst this; rw [← e]; exact h2 a mem_cons_self
      · simp only [e, if_false] at h'
        exact h1 t' ls' L' h' hL'
  exact gen langsys [] (fun t L => (t, L) ∈ langsys) (fun _ _ _ h _ => by simp [alookup] at h)
    (fun sl hsl => hsl) t ls L h hL

theorem langsGet_sound (langsys : List LS) (t L : Tag) (hL : L ∈ langsGet (langsOf langsys) t) :
    L = "dflt" ∨ (t, L) ∈ langsys := by
  unfold langsGet at hL
  cases h : alookup t (langsOf langsys) with
  | none => simp [h] at hL; exact Or.inl hL
  | some ls => simp only [h, Option.getD_some] at hL; exact Or.inr (langsOf_sound langsys t ls L h hL)

/-- okStmts distributes over a section that contains no further `script` statement -/
theorem okStmts_lookups (langsys : List LS) (cur : Tag) (lks : List Lk) (r : List Stmt) :
    okStmts langsys cur (lks.map Stmt.lookup ++ r) = okStmts langsys cur r := by
  induction lks with
  | nil => rfl
  | cons a t ih => simp only [map_cons, cons_append, okStmts]; exact ih

theorem okStmts_langs (langsys : List LS) (cur : Tag) (ls : List Tag) (r : List Stmt)
    (h : ∀ L ∈ ls, L = "dflt" ∨ (cur, L) ∈ langsys) (hr : okStmts langsys cur r = true) :
    okStmts langsys cur (ls.map (fun l => Stmt.language l true) ++ r) = true := by
  induction ls with
  | nil => exact hr
  | cons a t ih =>
    simp only [map_cons, cons_append, okStmts, Bool.and_eq_true, Bool.or_eq_true, beq_iff_eq]
    refine ⟨?_, ih (fun L hL => h L (mem_cons_of_mem _ hL))⟩
    rcases h a mem_cons_self with e | e
    · exact Or.inl e
    · exact Or.inr (by simpa using e)

/-- one `addLookupReferences(feature, lookups, tag, languages)` call of the kerning writer -/
theorem okStmts_addRefs (langsys : List LS) (cur tag : Tag) (lks : List Lk) (ls : List Tag) (r : List Stmt)
    (htag : tag ≠ "") (h : ∀ L ∈ ls, L = "dflt" ∨ (tag, L) ∈ langsys)
    (hr : ∀ c, okStmts langsys c r = true) :
    okStmts langsys cur (addLookupReferences lks tag ls false ++ r) = true := by
  have hb : (tag == "") = false := by simpa using htag
  simp only [addLookupReferences, hb, Bool.false_eq_true, if_false, cons_append, okStmts, append_assoc,
    BEq.rfl, Bool.true_or, Bool.true_and]
  rw [okStmts_lookups]
  exact okStmts_langs langsys tag _ r (fun L hL => h L (mem_filter.mp hL).1) (hr tag)

theorem scriptTags_append (a b : List Stmt) : scriptTags (a ++ b) = scriptTags a ++ scriptTags b := by
  induction a with
  | nil => rfl
  | cons s r ih => cases s <;> simp [scriptTags, ih]

theorem okStmts_regs (langsys : List LS) (regs : List (Tag × List Lk × List Tag))
    (h : ∀ r ∈ regs, r.1 ≠ "" ∧ ∀ L ∈ r.2.2, L = "dflt" ∨ (r.1, L) ∈ langsys) :
    ∀ c, okStmts langsys c (regs.flatMap (fun r => addLookupReferences r.2.1 r.1 r.2.2 false)) = true := by
  induction regs with
  | nil => intro c; rfl
  | cons a t ih =>
    intro c
    simp only [flatMap_cons]
    exact okStmts_addRefs langsys c a.1 a.2.1 a.2.2 _ (h a mem_cons_self).1 (h a mem_cons_self).2
      (ih (fun r hr => h r (mem_cons_of_mem _ hr)))


theorem infoOf_tags (info : List (Tag × ScriptInfo)) (s t : Tag) (h : t ∈ (infoOf info s).tags) :
    ∃ p ∈ info, t ∈ p.2.tags := by
  unfold infoOf at h
  cases ha : alookup s info with
  | none => simp [ha] at h
  | some v => simp only [ha, Option.getD_some] at h; exact ⟨(s, v), alookup_some_mem ha, h⟩

theorem registrations_ok (isKern : Bool) (lookups : Lookups) (langsys : List LS) (info : List (Tag × ScriptInfo))
    (hinfo : info.all (fun p => p.2.tags.all (fun t => t != "")) = true) :
    ∀ r ∈ registrations isKern lookups (langsOf langsys) info,
      r.1 ≠ "" ∧ ∀ L ∈ r.2.2, L = "dflt" ∨ (r.1, L) ∈ langsys := by
  intro r hr
  simp only [registrations, mem_append, mem_flatMap, mem_map] at hr
  rcases hr with hr | ⟨s, _, tag, htag, e⟩
  · split at hr
    · cases hr
    · have : r = ("DFLT", dfltLookups isKern lookups info, langsGet (langsOf langsys) "DFLT") := by simpa using hr
      subst this
      exact ⟨by show "DFLT" ≠ ""; decide, fun L hL => langsGet_sound langsys _ L hL⟩
  · subst e
    obtain ⟨p, hp, htp⟩ := infoOf_tags info s tag htag
    have := (all_eq_true.mp hinfo) p hp
    have := (all_eq_true.mp this) tag htp
    exact ⟨by simpa using this, fun L hL => langsGet_sound langsys _ L hL⟩

theorem registerStmts_ok (isKern : Bool) (lookups : Lookups) (langsys : List LS) (info : List (Tag × ScriptInfo))
    (hinfo : info.all (fun p => p.2.tags.all (fun t => t != "")) = true) (c : Tag) :
    okStmts langsys c (registerStmts isKern lookups (langsOf langsys) info) = true :=
  okStmts_regs langsys _ (registrations_ok isKern lookups langsys info hinfo) c

theorem mem_kernBlocks (k : KernIn) (langsys : List LS) (b : Block) (h : b ∈ kernBlocks k langsys) :
    (b.tag = "kern" ∨ b.tag = "dist") ∧ k.todo.contains b.tag = true ∧
    b.stmts = registerStmts (b.tag == "kern") k.lookups (langsOf langsys) k.info := by
  simp only [kernBlocks, mem_filterMap, mem_filter] at h
  obtain ⟨t, ⟨ht, htodo⟩, h2⟩ := h
  split at h2
  · cases h2
  · simp only [Option.some.injEq] at h2
    subst h2
    refine ⟨?_, htodo, rfl⟩
    simpa using ht

/-! ### the assembled feature file -/

theorem assemble_blocks (i : In) :
    (assemble i).blocks = i.user ++ kernBlocks i.kern i.langsys ++ i.gen.map genBlock := rfl

theorem wfIn_info {i : In} (h : wfIn i = true) :
    i.kern.info.all (fun p => p.2.tags.all (fun t => t != "")) = true := by
  simp only [wfIn, Bool.and_eq_true] at h; exact h.1.1.1

theorem wfIn_nodup {i : In} (h : wfIn i = true) : (i.gen.map (·.tag)).Nodup := by
  simp only [wfIn, Bool.and_eq_true, decide_eq_true_eq] at h; exact h.1.1.2

theorem wfIn_gen {i : In} (h : wfIn i = true) (g : GenFeat) (hg : g ∈ i.gen) :
    g.lookups.any (·.gpos) = true ∧ g.tag ≠ "kern" ∧ g.tag ≠ "dist" := by
  simp only [wfIn, Bool.and_eq_true, all_eq_true] at h
  have := h.1.2 g hg
  simpa [and_assoc] using this

theorem wfIn_user {i : In} (h : wfIn i = true) (b : Block) (hb : b ∈ i.user) :
    b.tag ≠ "kern" ∧ b.tag ≠ "dist" ∧ b.tag ∉ i.gen.map (·.tag) := by
  simp only [wfIn, Bool.and_eq_true, all_eq_true] at h
  have := h.2 b hb
  simpa [and_assoc] using this

/-- **C20_unscripted_everywhere** — every generated mark/mkmk/abvm/blwm/curs feature (a block without script
statements) is registered under EVERY declared language system (under DFLT/dflt when none is declared). -/
theorem C20_unscripted_everywhere (i : In) (hwf : wfIn i = true) (g : GenFeat) (hg : g ∈ i.gen)
    (sl : LS) (hsl : declared i sl = true) :
    (sl.1, sl.2, g.tag) ∈ triples (build (assemble i)) := by
  obtain ⟨hany, _, _⟩ := wfIn_gen hwf g hg
  obtain ⟨x, hx, hgp⟩ := any_eq_true.mp hany
  obtain ⟨g1, g2, hsplit⟩ := append_of_mem hg
  have hnd := wfIn_nodup hwf
  rw [hsplit, map_append, map_cons] at hnd
  have hpost : ∀ b' ∈ g2.map genBlock, b'.tag ≠ (genBlock g).tag := by
    intro b' hb' e
    obtain ⟨g', hg', rfl⟩ := mem_map.mp hb'
    have h1 := (nodup_append.mp hnd).2.1
    have h2 := (nodup_cons.mp h1).1
    apply h2
    have : g'.tag = g.tag := e
    rw [← this]; exact mem_map_of_mem hg'
  have hblocks : (assemble i).blocks
      = (i.user ++ kernBlocks i.kern i.langsys ++ g1.map genBlock) ++ genBlock g :: g2.map genBlock := by
    rw [assemble_blocks, hsplit]; simp
  have hdl : sl ∈ defaultLS (assemble i).langsys := by
    have : sl ∈ defaultLS i.langsys := by simpa [declared] using hsl
    exact this
  have := unscripted_block_everywhere (defaultLS (assemble i).langsys)
    (i.user ++ kernBlocks i.kern i.langsys ++ g1.map genBlock) (g2.map genBlock) (genBlock g)
    (by intro s hs; simp only [genBlock, mem_map] at hs; obtain ⟨y, _, rfl⟩ := hs; exact ⟨y, rfl⟩)
    hpost x (by simp only [genBlock]; exact mem_map_of_mem hx) sl hdl
  rw [build_eq, hblocks]
  exact mem_triples_of_has this hgp

/-- **C20_kern_keys_partial** — where generated kerning can land.  Provided `DFLT dflt` is among the default
language systems (declared, or nothing declared), a (script, language) entry that carries generated kern/dist is
either a declared language system or (s, dflt) for a script `s` the kerning writer names in that block.
(`_partial`: without the proviso the statement is false, see `C20_quirk_witness`.) -/
theorem C20_kern_keys_partial (i : In) (hwf : wfIn i = true) (hd : declared i ("DFLT", "dflt") = true)
    (k : Key) (hk : k ∈ triples (build (assemble i))) (hf : k.2.2 ∈ kernTags i) :
    declared i (k.1, k.2.1) = true ∨ (k.2.1 = "dflt" ∧ k.1 ∈ kernScripts i k.2.2) := by
  have hkeys := mem_keys_of_mem_triples hk
  rw [build_eq] at hkeys
  rcases buildFrom_keys _ _ _ _ hkeys with h0 | ⟨b, hb, htag, hls⟩
  · simp [keys] at h0
  · have hkd : k.2.2 = "kern" ∨ k.2.2 = "dist" := by
      simp only [kernTags, mem_filter] at hf
      simpa using hf.1
    rw [assemble_blocks, mem_append, mem_append] at hb
    have hdl : ("DFLT", "dflt") ∈ defaultLS i.langsys := by simpa [declared] using hd
    rcases hb with (hb | hb) | hb
    · exfalso
      obtain ⟨h1, h2, _⟩ := wfIn_user hwf b hb
      rcases hkd with e | e
      · exact h1 (htag.trans e)
      · exact h2 (htag.trans e)
    · obtain ⟨_, _, hst⟩ := mem_kernBlocks _ _ b hb
      have hok : okStmts i.langsys "DFLT" b.stmts = true := by
        rw [hst]; exact registerStmts_ok _ _ _ _ (wfIn_info hwf) _
      have := lsAll_ok i.langsys b.stmts (defaultLS i.langsys, "DFLT") hdl (Or.inl ⟨rfl, rfl⟩) hok _ hls
      rcases this with h | ⟨h1, h2⟩
      · left; simpa [declared] using h
      · rcases h2 with h2 | h2
        · left
          have : (k.1, k.2.1) = ("DFLT", "dflt") := by
            ext <;> simp_all
          rw [this]; exact hd
        · right
          refine ⟨h1, ?_⟩
          simp only [kernScripts, mem_flatMap]
          exact ⟨b, hb, by simp [htag, h2]⟩
    · exfalso
      obtain ⟨g, hg, rfl⟩ := mem_map.mp hb
      obtain ⟨_, h1, h2⟩ := wfIn_gen hwf g hg
      have htag' : g.tag = k.2.2 := htag
      rcases hkd with e | e
      · exact h1 (htag'.trans e)
      · exact h2 (htag'.trans e)


/-! ### kerning follows the declared languages of a script -/

theorem keys_fset_nodup (fs : Feats) (k : Key) (v : List Lk) (h : (keys fs).Nodup) :
    (keys (fset fs k v)).Nodup := by
  induction fs with
  | nil => simp [fset, keys]
  | cons e r ih =>
    obtain ⟨k0, v0⟩ := e
    have hc : (keys ((k0, v0) :: r)) = k0 :: keys r := rfl
    rw [hc, nodup_cons] at h
    unfold fset
    by_cases h0 : (k0 == k) = true
    · simp only [h0, if_true]
      have : keys ((k0, v) :: r) = k0 :: keys r := rfl
      rw [this, nodup_cons]; exact h
    · simp only [h0, Bool.false_eq_true, if_false]
      have : keys ((k0, v0) :: fset r k v) = k0 :: keys (fset r k v) := rfl
      rw [this, nodup_cons]
      refine ⟨?_, ih h.2⟩
      intro hm
      rcases keys_fset _ _ _ _ hm with e | e
      · exact h0 (by simp [e])
      · exact h.1 e

theorem regAll_nodup (f : Tag) (x : Lk) (ls : List LS) (fs : Feats) (h : (keys fs).Nodup) :
    (keys (regAll f x ls fs)).Nodup := by
  unfold regAll
  induction ls generalizing fs with
  | nil => exact h
  | cons a r ih => simp only [foldl_cons]; exact ih _ (keys_fset_nodup _ _ _ h)

theorem step_nodup (f : Tag) (st : BState) (s : Stmt) (h : (keys st.feats).Nodup) :
    (keys (step f st s).feats).Nodup := by
  cases s with
  | script t =>
    simp only [step, setScript]
    split
    · exact h
    · exact keys_fset_nodup _ _ _ h
  | language l i => exact keys_fset_nodup _ _ _ h
  | lookup x => exact regAll_nodup f x _ _ h

theorem runSt_nodup (f : Tag) (stmts : List Stmt) (st : BState) (h : (keys st.feats).Nodup) :
    (keys (runSt f st stmts).feats).Nodup := by
  unfold runSt
  induction stmts generalizing st with
  | nil => exact h
  | cons s r ih => simp only [foldl_cons]; exact ih _ (step_nodup f st s h)

theorem buildFrom_nodup (dl : List LS) (bs : List Block) (fs : Feats) (h : (keys fs).Nodup) :
    (keys (buildFrom dl fs bs)).Nodup := by
  unfold buildFrom
  induction bs generalizing fs with
  | nil => exact h
  | cons b r ih => simp only [foldl_cons]; exact ih _ (by rw [runBlock_eq]; exact runSt_nodup _ _ _ h)

theorem fget_of_mem {fs : Feats} (h : (keys fs).Nodup) {k : Key} {v : List Lk} (hm : (k, v) ∈ fs) :
    fget fs k = some v := by
  induction fs with
  | nil => cases hm
  | cons e r ih =>
    obtain ⟨k0, v0⟩ := e
    have hc : (keys ((k0, v0) :: r)) = k0 :: keys r := rfl
    rw [hc, nodup_cons] at h
    simp only [fget, alookup_cons]
    rcases mem_cons.mp hm with e | e
    · injection e with e1 e2; subst e1; subst e2; simp
    · have : k0 ≠ k := by
        intro e'; subst e'; exact h.1 (mem_map_of_mem (f := (·.1)) e)
      have hb : (k0 == k) = false := by simpa using this
      simp only [hb, Bool.false_eq_true, if_false]
      exact ih h.2 e

/-- membership in the compiled table, read through the dict -/
theorem mem_triples_iff {fs : Feats} (h : (keys fs).Nodup) (k : Key) :
    k ∈ triples fs ↔ ∃ v, fget fs k = some v ∧ v.any (·.gpos) = true := by
  constructor
  · intro hk
    unfold triples at hk
    rw [mem_filterMap] at hk
    obtain ⟨e, he, h2⟩ := hk
    split at h2
    · rename_i hany
      simp only [Option.some.injEq] at h2; subst h2
      exact ⟨e.2, fget_of_mem h he, hany⟩
    · cases h2
  · rintro ⟨v, hv, hany⟩
    obtain ⟨x, hx, hg⟩ := any_eq_true.mp hany
    exact mem_triples_of_has ⟨v, hv, hx⟩ hg

theorem runSt_append (f : Tag) (st : BState) (a b : List Stmt) :
    runSt f st (a ++ b) = runSt f (runSt f st a) b := by simp [runSt, foldl_append]

/-- value written by `language l` with include_default (or `language dflt`) -/
theorem setLanguage_incl (f : Tag) (st : BState) (l : Tag) :
    setLanguage f st l true =
      { st with feats := fset st.feats (st.script, l, f) ((fget st.feats (st.script, "dflt", f)).getD []),
                ls := [(st.script, l)] } := by
  unfold setLanguage
  cases h : fget st.feats (st.script, "dflt", f) with
  | none => simp
  | some lk =>
    cases lk with
    | nil => simp
    | cons a t => simp

/-- the state is "tracked": nothing happened yet under language systems that no `script` statement can match,
or the current language systems are a single one of the current script -/
def Jst (dl : List LS) (st : BState) : Prop :=
  (st.ls = dl ∧ ∀ t, isSingleton dl (t, "dflt") = false) ∨ ∃ l, st.ls = [(st.script, l)]

theorem step_script_spec (dl : List LS) (f tag : Tag) (st : BState) (hJ : Jst dl st) :
    (step f st (.script tag)).script = tag ∧ (step f st (.script tag)).ls = [(tag, "dflt")] ∧
    (∀ k, k ≠ (tag, "dflt", f) → fget (step f st (.script tag)).feats k = fget st.feats k) := by
  by_cases hs : isSingleton st.ls (tag, "dflt") = true
  · have e : step f st (.script tag) = st := by simp [step, setScript, hs]
    rw [e]
    rcases hJ with ⟨h1, h2⟩ | ⟨l, h1⟩
    · rw [h1, h2] at hs; cases hs
    · have := isSingleton_mem hs (st.script, l) (by rw [h1]; exact mem_cons_self)
      injection this with e1 e2
      exact ⟨e1, by rw [h1, e1, e2], fun _ _ => rfl⟩
  · have e : step f st (.script tag) = setLanguage f { st with script := tag } "dflt" true := by
      simp [step, setScript, hs]
    rw [e, setLanguage_incl]
    refine ⟨rfl, rfl, ?_⟩
    intro k hk
    show fget (fset st.feats (tag, "dflt", f) _) k = _
    rw [fget_fset]
    simp [Ne.symm hk]

theorem runSt_lookups_spec (f tag : Tag) (lks : List Lk) (st : BState) (hls : st.ls = [(tag, "dflt")])
    (hp : ∃ v, fget st.feats (tag, "dflt", f) = some v) :
    (runSt f st (lks.map Stmt.lookup)).script = st.script ∧ (runSt f st (lks.map Stmt.lookup)).ls = st.ls ∧
    (∃ v, fget (runSt f st (lks.map Stmt.lookup)).feats (tag, "dflt", f) = some v) ∧
    (∀ k, k ≠ (tag, "dflt", f) → fget (runSt f st (lks.map Stmt.lookup)).feats k = fget st.feats k) := by
  induction lks generalizing st with
  | nil => exact ⟨rfl, rfl, hp, fun _ _ => rfl⟩
  | cons x r ih =>
    have e : runSt f st ((x :: r).map Stmt.lookup) = runSt f (step f st (.lookup x)) (r.map Stmt.lookup) := rfl
    rw [e]
    have h1 : (step f st (.lookup x)).ls = [(tag, "dflt")] := hls
    have h2 : (step f st (.lookup x)).feats = fappend st.feats (tag, "dflt", f) x := by
      simp [step, addLookup, hls]
    have hp' : ∃ v, fget (step f st (.lookup x)).feats (tag, "dflt", f) = some v := by
      rw [h2, fget_fappend]; simp
    obtain ⟨a1, a2, a3, a4⟩ := ih (step f st (.lookup x)) h1 hp'
    refine ⟨a1, by rw [a2, h1, hls], a3, ?_⟩
    intro k hk
    rw [a4 k hk, h2, fget_fappend]
    simp [Ne.symm hk]

theorem runSt_langs_spec (f tag : Tag) (Ls : List Tag) (st : BState) (hsc : st.script = tag)
    (hnd : ∀ L ∈ Ls, L ≠ "dflt") :
    (runSt f st (Ls.map (fun l => Stmt.language l true))).script = tag ∧
    ((∃ l, st.ls = [(tag, l)]) → ∃ l, (runSt f st (Ls.map (fun l => Stmt.language l true))).ls = [(tag, l)]) ∧
    fget (runSt f st (Ls.map (fun l => Stmt.language l true))).feats (tag, "dflt", f)
      = fget st.feats (tag, "dflt", f) ∧
    (∀ L ∈ Ls, fget (runSt f st (Ls.map (fun l => Stmt.language l true))).feats (tag, L, f)
      = some ((fget st.feats (tag, "dflt", f)).getD [])) ∧
    (∀ k, (∀ L ∈ Ls, k ≠ (tag, L, f)) →
      fget (runSt f st (Ls.map (fun l => Stmt.language l true))).feats k = fget st.feats k) := by
  induction Ls generalizing st with
  | nil => exact ⟨hsc, fun h => h, rfl, (fun _ h => by cases h), (fun _ _ => rfl)⟩
  | cons L r ih =>
    have e : runSt f st ((L :: r).map (fun l => Stmt.language l true))
        = runSt f (step f st (.language L true)) (r.map (fun l => Stmt.language l true)) := rfl
    rw [e]
    have hL : L ≠ "dflt" := hnd L mem_cons_self
    have hst : step f st (.language L true) =
        { feats := fset st.feats (tag, L, f) ((fget st.feats (tag, "dflt", f)).getD []), ls := [(tag, L)],
          script := st.script } := by
      simp only [step, setLanguage_incl, hsc]
    have hsc' : (step f st (.language L true)).script = tag := by rw [hst]; exact hsc
    have hd : fget (step f st (.language L true)).feats (tag, "dflt", f) = fget st.feats (tag, "dflt", f) := by
      rw [hst]
      show fget (fset st.feats (tag, L, f) _) _ = _
      rw [fget_fset]
      have : (tag, L, f) ≠ (tag, "dflt", f) := by intro e; injection e with _ e; injection e with e _; exact hL e
      simp [this]
    obtain ⟨a1, a2, a3, a4, a5⟩ := ih (step f st (.language L true)) hsc' (fun L' hL' => hnd L' (mem_cons_of_mem _ hL'))
    refine ⟨a1, fun _ => a2 ⟨L, by rw [hst]⟩, by rw [a3, hd], ?_, ?_⟩
    · intro L' hL'
      by_cases hin : L' ∈ r
      · rw [a4 L' hin, hd]
      · have : L' = L := by
          rcases mem_cons.mp hL' with e | e
          · exact e
          · exact absurd e hin
        subst this
        rw [a5 _ (fun L'' hL'' e => hin (by injection e with _ e; injection e with e _; rw [e]; exact hL''))]
        rw [hst]
        show fget (fset st.feats (tag, L', f) _) _ = _
        rw [fget_fset]; simp
    · intro k hk
      rw [a5 k (fun L' hL' => hk L' (mem_cons_of_mem _ hL')), hst]
      show fget (fset st.feats (tag, L, f) _) _ = _
      rw [fget_fset]
      have := hk L mem_cons_self
      simp [Ne.symm this]

/-- one `script tag; language dflt; lookups…; language L…` section written by `addLookupReferences` -/
theorem chunk_spec (dl : List LS) (f tag : Tag) (lks : List Lk) (Ls : List Tag) (st : BState)
    (htag : tag ≠ "") (hJ : Jst dl st) :
    Jst dl (runSt f st (addLookupReferences lks tag Ls false)) ∧
    (∀ t x g, t ≠ tag →
      fget (runSt f st (addLookupReferences lks tag Ls false)).feats (t, x, g) = fget st.feats (t, x, g)) ∧
    (∀ L ∈ Ls, fget (runSt f st (addLookupReferences lks tag Ls false)).feats (tag, L, f)
      = fget (runSt f st (addLookupReferences lks tag Ls false)).feats (tag, "dflt", f)) := by
  have hb : (tag == "") = false := by simpa using htag
  have hstm : addLookupReferences lks tag Ls false =
      [Stmt.script tag] ++ ([Stmt.language "dflt" true] ++ (lks.map Stmt.lookup ++
        (Ls.filter (fun l => l != "dflt")).map (fun l => Stmt.language l true))) := by
    simp [addLookupReferences, hb]
  rw [hstm, runSt_append, runSt_append, runSt_append]
  -- script
  have e1 : runSt f st [Stmt.script tag] = step f st (.script tag) := rfl
  obtain ⟨s1a, s1b, s1c⟩ := step_script_spec dl f tag st hJ
  rw [e1]
  generalize step f st (.script tag) = s1 at s1a s1b s1c
  -- language dflt
  obtain ⟨s2, hs2⟩ : ∃ s2, s2 = runSt f s1 [Stmt.language "dflt" true] := ⟨_, rfl⟩
  have e2 : s2 = { feats := fset s1.feats (tag, "dflt", f) ((fget s1.feats (tag, "dflt", f)).getD []),
                   ls := [(tag, "dflt")], script := s1.script } := by
    rw [hs2]
    show step f s1 (.language "dflt" true) = _
    simp only [step, setLanguage_incl, s1a]
  rw [← hs2]
  have s2a : s2.script = tag := by rw [e2]; exact s1a
  have s2b : s2.ls = [(tag, "dflt")] := by rw [e2]
  have s2p : ∃ v, fget s2.feats (tag, "dflt", f) = some v := by
    rw [e2]; show ∃ v, fget (fset s1.feats _ _) _ = some v
    simp [fget_fset]
  have s2c : ∀ k, k ≠ (tag, "dflt", f) → fget s2.feats k = fget s1.feats k := by
    intro k hk; rw [e2]; show fget (fset s1.feats _ _) _ = _
    simp [fget_fset, Ne.symm hk]
  clear hs2 e2
  -- lookups
  obtain ⟨s3a, s3b, s3p, s3c⟩ := runSt_lookups_spec f tag lks s2 s2b s2p
  generalize runSt f s2 (lks.map Stmt.lookup) = s3 at s3a s3b s3p s3c
  -- languages
  have hnd : ∀ L ∈ Ls.filter (fun l => l != "dflt"), L ≠ "dflt" := by
    intro L hL; simpa using (mem_filter.mp hL).2
  obtain ⟨s4a, s4b, s4d, s4l, s4c⟩ := runSt_langs_spec f tag _ s3 (by rw [s3a, s2a]) hnd
  generalize runSt f s3 ((Ls.filter (fun l => l != "dflt")).map (fun l => Stmt.language l true)) = s4
    at s4a s4b s4d s4l s4c
  refine ⟨?_, ?_, ?_⟩
  · right
    obtain ⟨l, hl⟩ := s4b ⟨"dflt", by rw [s3b, s2b]⟩
    exact ⟨l, by rw [s4a]; exact hl⟩
  · intro t x g ht
    have hne : ∀ y h, (t, x, g) ≠ (tag, y, h) := by
      intro y h e; injection e with e _; exact ht e
    rw [s4c _ (fun L _ => hne L f), s3c _ (hne _ _), s2c _ (hne _ _), s1c _ (hne _ _)]
  · intro L hL
    by_cases hd : L = "dflt"
    · rw [hd]
    · have hin : L ∈ Ls.filter (fun l => l != "dflt") := mem_filter.mpr ⟨hL, by simpa using hd⟩
      rw [s4l L hin, s4d]
      obtain ⟨v, hv⟩ := s3p
      simp [hv]

/-- `Q`: within feature `f`, every language the kerning writer knows for a tag has the very entry of the tag's
`dflt` -/
def Qf (f : Tag) (G : Tag → List Tag) (fs : Feats) : Prop :=
  ∀ t L, L ∈ G t → fget fs (t, L, f) = fget fs (t, "dflt", f)

theorem regs_spec (dl : List LS) (f : Tag) (G : Tag → List Tag) (regs : List (Tag × List Lk × List Tag))
    (h : ∀ r ∈ regs, r.1 ≠ "" ∧ r.2.2 = G r.1) (st : BState) (hJ : Jst dl st) (hQ : Qf f G st.feats) :
    Qf f G (runSt f st (regs.flatMap (fun r => addLookupReferences r.2.1 r.1 r.2.2 false))).feats := by
  induction regs generalizing st with
  | nil => exact hQ
  | cons a t ih =>
    simp only [flatMap_cons, runSt_append]
    obtain ⟨h1, h2⟩ := h a mem_cons_self
    obtain ⟨c1, c2, c3⟩ := chunk_spec dl f a.1 a.2.1 a.2.2 st h1 hJ
    refine ih (fun r hr => h r (mem_cons_of_mem _ hr)) _ c1 ?_
    intro t' L hL
    by_cases e : t' = a.1
    · subst e; exact c3 L (h2 ▸ hL)
    · rw [c2 _ _ _ e, c2 _ _ _ e]; exact hQ t' L hL

theorem langsOf_complete (langsys : List LS) (s l : Tag) (h : (s, l) ∈ langsys) :
    l ∈ langsGet (langsOf langsys) s := by
  have gen : ∀ (ll : List LS) (acc : List (Tag × List Tag)),
      (∀ s l, (∃ ls, alookup s acc = some ls ∧ l ∈ ls) →
        ∃ ls, alookup s (ll.foldl (fun acc sl => groupAdd acc sl.1 sl.2) acc) = some ls ∧ l ∈ ls) ∧
      (∀ sl ∈ ll, ∃ ls, alookup sl.1 (ll.foldl (fun acc sl => groupAdd acc sl.1 sl.2) acc) = some ls ∧ sl.2 ∈ ls) := by
    intro ll
    induction ll with
    | nil => intro acc; exact ⟨fun _ _ h => h, fun _ h => by cases h⟩
    | cons a r ih =>
      intro acc
      have step : ∀ s l, (∃ ls, alookup s acc = some ls ∧ l ∈ ls) →
          ∃ ls, alookup s (groupAdd acc a.1 a.2) = some ls ∧ l ∈ ls := by
        rintro s l ⟨ls, h1, h2⟩
        rw [alookup_groupAdd]
        by_cases e : a.1 = s
        · subst e; exact ⟨(alookup a.1 acc).getD [] ++ [a.2], by simp, by simp [h1, h2]⟩
        · exact ⟨ls, by simp [e, h1], h2⟩
      simp only [foldl_cons]
      obtain ⟨i1, i2⟩ := ih (groupAdd acc a.1 a.2)
      refine ⟨fun s l h => i1 s l (step s l h), ?_⟩
      intro sl hsl
      rcases mem_cons.mp hsl with e | e
      · subst e
        apply i1
        rw [alookup_groupAdd]
        exact ⟨(alookup sl.1 acc).getD [] ++ [sl.2], by simp, by simp⟩
      · exact i2 sl e
  obtain ⟨ls, h1, h2⟩ := (gen langsys []).2 (s, l) h
  unfold langsGet langsOf
  rw [h1]; exact h2

theorem registrations_langs (isKern : Bool) (lookups : Lookups) (langs : List (Tag × List Tag))
    (info : List (Tag × ScriptInfo)) :
    ∀ r ∈ registrations isKern lookups langs info, r.2.2 = langsGet langs r.1 := by
  intro r hr
  simp only [registrations, mem_append, mem_flatMap, mem_map] at hr
  rcases hr with hr | ⟨s, _, tag, _, e⟩
  · split at hr
    · cases hr
    · have : r = ("DFLT", dfltLookups isKern lookups info, langsGet langs "DFLT") := by simpa using hr
      subst this; rfl
  · subst e; rfl

/-- blocks of other tags leave `Qf f` alone; a block of tag `f` written by `_registerLookups` re-establishes it -/
theorem buildFrom_Q (dl : List LS) (f : Tag) (G : Tag → List Tag) (hB : ∀ t, isSingleton dl (t, "dflt") = false)
    (bs : List Block) (fs : Feats)
    (h : ∀ b ∈ bs, b.tag = f → ∃ regs : List (Tag × List Lk × List Tag),
      b.stmts = regs.flatMap (fun r => addLookupReferences r.2.1 r.1 r.2.2 false) ∧
      ∀ r ∈ regs, r.1 ≠ "" ∧ r.2.2 = G r.1)
    (hQ : Qf f G fs) : Qf f G (buildFrom dl fs bs) := by
  unfold buildFrom
  induction bs generalizing fs with
  | nil => exact hQ
  | cons b r ih =>
    simp only [foldl_cons]
    refine ih _ (fun b' hb' => h b' (mem_cons_of_mem _ hb')) ?_
    rw [runBlock_eq]
    by_cases e : b.tag = f
    · obtain ⟨regs, hst, hr⟩ := h b mem_cons_self e
      rw [hst, e]
      exact regs_spec dl f G regs hr _ (Or.inl ⟨rfl, hB⟩) hQ
    · intro t L hL
      rw [runSt_frame _ _ _ _ (fun e' => e e'.symm), runSt_frame _ _ _ _ (fun e' => e e'.symm)]
      exact hQ t L hL

theorem mem_kernTags (i : In) (f : Tag) (h : f ∈ kernTags i) : f = "kern" ∨ f = "dist" := by
  simp only [kernTags, mem_filter] at h
  simpa using h.1

/-- **C20_languages** — generated kerning registered under a script's default language system is registered
(with the same lookups) under every language system the feature file declares for that script.  No proviso. -/
theorem C20_languages (i : In) (hwf : wfIn i = true) (sl : LS) (hsl : sl ∈ i.langsys) (f : Tag)
    (hf : f ∈ kernTags i) (hk : (sl.1, "dflt", f) ∈ triples (build (assemble i))) :
    (sl.1, sl.2, f) ∈ triples (build (assemble i)) := by
  have hdl : defaultLS i.langsys = i.langsys := by
    unfold defaultLS
    cases hl : i.langsys with
    | nil => rw [hl] at hsl; cases hsl
    | cons a b => rfl
  by_cases hA : ∃ t, isSingleton (defaultLS i.langsys) (t, "dflt") = true
  · obtain ⟨t, ht⟩ := hA
    have := isSingleton_mem ht sl (by rw [hdl]; exact hsl)
    have e2 : sl.2 = "dflt" := by rw [this]
    rw [e2]; exact hk
  · have hB : ∀ t, isSingleton (defaultLS i.langsys) (t, "dflt") = false := by
      intro t
      cases h : isSingleton (defaultLS i.langsys) (t, "dflt") with
      | false => rfl
      | true => exact absurd ⟨t, h⟩ hA
    have hkd := mem_kernTags i f hf
    have hQ : Qf f (langsGet (langsOf i.langsys)) (build (assemble i)) := by
      rw [build_eq]
      refine buildFrom_Q _ f _ hB _ [] ?_ (fun _ _ _ => rfl)
      intro b hb htag
      rw [assemble_blocks, mem_append, mem_append] at hb
      rcases hb with (hb | hb) | hb
      · exfalso
        obtain ⟨h1, h2, _⟩ := wfIn_user hwf b hb
        rcases hkd with e | e
        · exact h1 (htag.trans e)
        · exact h2 (htag.trans e)
      · obtain ⟨_, _, hst⟩ := mem_kernBlocks _ _ b hb
        refine ⟨registrations (b.tag == "kern") i.kern.lookups (langsOf i.langsys) i.kern.info, hst, ?_⟩
        intro r hr
        exact ⟨(registrations_ok _ _ _ _ (wfIn_info hwf) r hr).1, registrations_langs _ _ _ _ r hr⟩
      · exfalso
        obtain ⟨g, hg, rfl⟩ := mem_map.mp hb
        obtain ⟨_, h1, h2⟩ := wfIn_gen hwf g hg
        have htag' : g.tag = f := htag
        rcases hkd with e | e
        · exact h1 (htag'.trans e)
        · exact h2 (htag'.trans e)
    have hnd : (keys (build (assemble i))).Nodup := by
      rw [build_eq]; exact buildFrom_nodup _ _ _ (by simp [keys])
    rw [mem_triples_iff hnd] at hk ⊢
    rw [hQ sl.1 sl.2 (langsOf_complete i.langsys sl.1 sl.2 hsl)]
    exact hk

/-! ### the property -/

/-- `holds` as a proposition: it only looks at membership in the observed table -/
theorem holdsReach_iff (i : In) (obs : List Key) :
    holdsReach i obs = true ↔
      ∀ k ∈ obs, k.2.2 ∈ kernTags i → ∀ g ∈ i.gen, actsOn g.acts k.1 = true → (k.1, k.2.1, g.tag) ∈ obs := by
  simp only [holdsReach, all_eq_true, Bool.or_eq_true, Bool.not_eq_true', contains_eq_mem, decide_eq_true_eq,
    decide_eq_false_iff_not]
  constructor
  · intro h k hk hf g hg ha
    rcases h k hk with h1 | h1
    · exact absurd hf h1
    · rcases h1 g hg with h2 | h2
      · rw [ha] at h2; cases h2
      · exact h2
  · intro h k hk
    by_cases hf : k.2.2 ∈ kernTags i
    · right; intro g hg
      cases ha : actsOn g.acts k.1 with
      | false => exact Or.inl rfl
      | true => exact Or.inr (h k hk hf g hg ha)
    · exact Or.inl hf

theorem holdsReach_congr (i : In) (a b : List Key) (h : ∀ k, k ∈ a ↔ k ∈ b) :
    holdsReach i a = holdsReach i b := by
  rw [Bool.eq_iff_iff, holdsReach_iff, holdsReach_iff]
  constructor
  · intro H k hk hf g hg ha; exact (h _).mp (H k ((h k).mpr hk) hf g hg ha)
  · intro H k hk hf g hg ha; exact (h _).mpr (H k ((h k).mp hk) hf g hg ha)

theorem mem_scriptList (fs : Feats) (k : Key) : k ∈ scriptList fs ↔ k ∈ triples fs := by
  unfold scriptList; exact mem_mergeSort

theorem holdsReach_scriptList (i : In) (fs : Feats) :
    holdsReach i (scriptList fs) = holdsReach i (triples fs) :=
  holdsReach_congr i _ _ (mem_scriptList fs)

theorem mem_failures (i : In) (obs : List Key) (fl : Key × Tag) :
    fl ∈ failures i obs ↔ fl.1 ∈ obs ∧ fl.1.2.2 ∈ kernTags i ∧
      ∃ g ∈ i.gen, g.tag = fl.2 ∧ actsOn g.acts fl.1.1 = true ∧ (fl.1.1, fl.1.2.1, g.tag) ∉ obs := by
  simp only [failures, mem_flatMap]
  constructor
  · rintro ⟨k, hk, h⟩
    split at h
    · rename_i hf
      simp only [mem_map, mem_filter, Bool.and_eq_true, Bool.not_eq_true', contains_eq_mem,
        decide_eq_false_iff_not] at h
      obtain ⟨g, ⟨hg, ha, hn⟩, rfl⟩ := h
      exact ⟨hk, by simpa using hf, g, hg, rfl, ha, hn⟩
    · cases h
  · rintro ⟨hk, hf, g, hg, hgt, ha, hn⟩
    refine ⟨fl.1, hk, ?_⟩
    have : (kernTags i).contains fl.1.2.2 = true := by simpa using hf
    simp only [this, if_true, mem_map, mem_filter, Bool.and_eq_true, Bool.not_eq_true', contains_eq_mem,
      decide_eq_false_iff_not]
    exact ⟨g, ⟨hg, ha, hn⟩, Prod.ext rfl hgt⟩

/-- `holds` is exactly "no offending entry" -/
theorem holdsReach_iff_failures_nil (i : In) (obs : List Key) :
    holdsReach i obs = true ↔ failures i obs = [] := by
  rw [holdsReach_iff, eq_nil_iff_forall_not_mem]
  constructor
  · intro h fl hfl
    obtain ⟨hk, hf, g, hg, _, ha, hn⟩ := (mem_failures i obs fl).mp hfl
    exact hn (h _ hk hf g hg ha)
  · intro h k hk hf g hg ha
    by_cases hn : (k.1, k.2.1, g.tag) ∈ obs
    · exact hn
    · exact absurd ((mem_failures i obs (k, g.tag)).mpr ⟨hk, hf, g, hg, rfl, ha, hn⟩) (h (k, g.tag))

theorem holdsLang_iff (i : In) (obs : List Key) :
    holdsLang i obs = true ↔
      ∀ sl ∈ i.langsys, ∀ f ∈ kernTags i, (sl.1, "dflt", f) ∈ obs → (sl.1, sl.2, f) ∈ obs := by
  simp only [holdsLang, all_eq_true, Bool.or_eq_true, Bool.not_eq_true', contains_eq_mem, decide_eq_true_eq,
    decide_eq_false_iff_not]
  constructor
  · intro h sl hsl f hf hm
    rcases h sl hsl f hf with h1 | h1
    · exact absurd hm h1
    · exact h1
  · intro h sl hsl f hf
    by_cases hm : (sl.1, "dflt", f) ∈ obs
    · exact Or.inr (h sl hsl f hf hm)
    · exact Or.inl hm

theorem holdsLang_congr (i : In) (a b : List Key) (h : ∀ k, k ∈ a ↔ k ∈ b) : holdsLang i a = holdsLang i b := by
  rw [Bool.eq_iff_iff, holdsLang_iff, holdsLang_iff]
  constructor
  · intro H sl hsl f hf hm; exact (h _).mp (H sl hsl f hf ((h _).mpr hm))
  · intro H sl hsl f hf hm; exact (h _).mpr (H sl hsl f hf ((h _).mp hm))

theorem holds_scriptList (i : In) (fs : Feats) : holds i (scriptList fs) = holds i (triples fs) := by
  unfold holds
  rw [holdsReach_scriptList, holdsLang_congr i _ _ (mem_scriptList fs)]

theorem reach_ok (i : In) (h : checkLangsys i.langsys [] false = true) :
    reach i = .ok (scriptList (build (assemble i))) := by
  simp [reach, h]

/-- **C20_partial** — the conditional form of C20 that does hold: if `DFLT dflt` is among the default language
systems (declared, or no languagesystem statement at all) and every script the kerning writer names is declared
by a `languagesystem <script> dflt;` statement, then wherever generated kerning is registered every generated
mark/mkmk/abvm/blwm/curs feature is registered too.  The unconditional statement is false
(`C20_false_as_stated`, `C20_quirk_witness`). -/
theorem C20_partial (i : In) (hwf : wfIn i = true) (hls : checkLangsys i.langsys [] false = true)
    (hd : declared i ("DFLT", "dflt") = true)
    (H : ∀ f ∈ kernTags i, ∀ s ∈ kernScripts i f, declared i (s, "dflt") = true) :
    ∃ r, reach i = .ok r ∧ holds i r = true := by
  refine ⟨_, reach_ok i hls, ?_⟩
  rw [holds_scriptList]
  simp only [holds, Bool.and_eq_true]
  refine ⟨?_, (holdsLang_iff i _).mpr (fun sl hsl f hf hk => C20_languages i hwf sl hsl f hf hk)⟩
  rw [holdsReach_iff]
  intro k hk hf g hg _
  have hdecl : declared i (k.1, k.2.1) = true := by
    rcases C20_kern_keys_partial i hwf hd k hk hf with h | ⟨h1, h2⟩
    · exact h
    · rw [h1]; exact H _ hf _ h2
  exact C20_unscripted_everywhere i hwf g hg (k.1, k.2.1) hdecl

/-- **C20_dflt** — when `DFLT dflt` is declared, or nothing is declared, every generated feature is reachable
from DFLT/dflt. (With languagesystem statements that omit DFLT this fails: the kerning writer still names DFLT.) -/
theorem C20_dflt (i : In) (hwf : wfIn i = true) (hd : declared i ("DFLT", "dflt") = true)
    (g : GenFeat) (hg : g ∈ i.gen) : ("DFLT", "dflt", g.tag) ∈ scriptList (build (assemble i)) := by
  rw [mem_scriptList]
  exact C20_unscripted_everywhere i hwf g hg ("DFLT", "dflt") hd

/-- **C20_model_failures_shapeA_partial** — under the same proviso every offending entry of the model's output has
the known shape A (kerning writer names the script, no languagesystem for it, a script-less generated feature is
missing); so any other kind of failure observed on the implementation is a departure from the model. -/
theorem C20_model_failures_shapeA_partial (i : In) (hwf : wfIn i = true)
    (hd : declared i ("DFLT", "dflt") = true)
    (hfs : ∀ f ∈ kernTags i, ∀ s ∈ kernScripts i f, s = "DFLT" ∨ s ∈ i.fontScripts) :
    ∀ fl ∈ failures i (scriptList (build (assemble i))), shapeA i fl = true := by
  intro fl hfl
  obtain ⟨hk, hf, g, hg, hgt, _, hn⟩ := (mem_failures i _ fl).mp hfl
  rw [mem_scriptList] at hk hn
  have hnd : declared i (fl.1.1, fl.1.2.1) = false := by
    cases h : declared i (fl.1.1, fl.1.2.1) with
    | false => rfl
    | true => exact absurd (C20_unscripted_everywhere i hwf g hg _ h) hn
  rcases C20_kern_keys_partial i hwf hd fl.1 hk hf with h | ⟨h1, h2⟩
  · rw [hnd] at h; cases h
  · have h3 : fl.2 ∈ i.gen.map (·.tag) := hgt ▸ mem_map_of_mem hg
    simp only [shapeA, Bool.and_eq_true]
    refine ⟨⟨⟨⟨by rw [hnd]; rfl, by simpa using h1⟩, by simpa using h2⟩, by simpa using h3⟩, ?_⟩
    have := hfs fl.1.2.2 hf fl.1.1 h2
    simpa using this

/-! ### the property as stated is false: witnesses -/

/-- a, b (Latin), acutecomb; one kerning pair; top/_top anchors; no languagesystem statement -/
def witness : In :=
  { langsys := []
    kern := { todo := ["dist", "kern"], lookups := [("Latn", [("kern_Latn", ⟨0, true⟩)])],
              info := [("Latn", { dir := "LTR", dist := false, tags := ["latn"] })] }
    gen := [{ tag := "mark", lookups := [⟨1, true⟩], acts := ["latn"] }]
    user := [], fontScripts := ["latn"] }

theorem witness_table : triples (build (assemble witness))
    = [("DFLT", "dflt", "kern"), ("latn", "dflt", "kern"), ("DFLT", "dflt", "mark")] := by decide

/-- **C20_false_as_stated** — on the witness the model compiles to DFLT:[kern, mark], latn:[kern]:
Latin text gets kerning and no mark positioning. The witness is well-formed and accepted by feaLib. -/
theorem C20_false_as_stated :
    wfIn witness = true ∧ ∃ r, reach witness = .ok r ∧ holds witness r = false ∧
      failures witness (triples (build (assemble witness))) = [(("latn", "dflt", "kern"), "mark")] := by
  refine ⟨by decide, _, reach_ok witness (by decide), ?_, ?_⟩
  · rw [holds_scriptList, witness_table]; decide
  · rw [witness_table]; decide

/-- kakhmer, khakhmer (Khmer: a dist script), nikahitkhmer; one pair; anchors; `languagesystem khmr dflt;` only -/
def quirkWitness : In :=
  { langsys := [("khmr", "dflt")]
    kern := { todo := ["dist", "kern"], lookups := [("Khmr", [("kern_Khmr", ⟨0, true⟩)])],
              info := [("Khmr", { dir := "LTR", dist := true, tags := ["khmr"] })] }
    gen := [{ tag := "abvm", lookups := [⟨1, true⟩], acts := ["khmr"] }]
    user := [], fontScripts := ["khmr"] }

theorem quirk_table : triples (build (assemble quirkWitness))
    = [("DFLT", "dflt", "dist"), ("khmr", "dflt", "abvm")] := by decide

/-- **C20_quirk_witness** — the proviso `DFLT dflt declared` of `C20_partial` cannot be dropped: here every script the
kerning writer names (khmr) IS declared, yet feaLib ignores `script khmr;` (the current language systems already are
{(khmr, dflt)}) while `script_` stays "DFLT", so `dist` is registered under DFLT/dflt — not declared, hence without
abvm — and khmr loses its kerning. -/
theorem C20_quirk_witness :
    wfIn quirkWitness = true ∧ checkLangsys quirkWitness.langsys [] false = true ∧
    (∀ f ∈ kernTags quirkWitness, ∀ s ∈ kernScripts quirkWitness f, declared quirkWitness (s, "dflt") = true) ∧
    holds quirkWitness (scriptList (build (assemble quirkWitness))) = false ∧
    (failures quirkWitness (triples (build (assemble quirkWitness)))).all (shapeB quirkWitness) = true := by
  refine ⟨by decide, by decide, by decide, ?_, ?_⟩
  · rw [holds_scriptList, quirk_table]; decide
  · rw [quirk_table]; decide


/-! ### inputs feaLib rejects -/

theorem checkLangsys_iff (r : List LS) (seen : List LS) (nonD : Bool) :
    checkLangsys r seen nonD = true ↔
      r.Nodup ∧ (∀ x ∈ r, x ∉ seen) ∧ (seen ≠ [] → ("DFLT", "dflt") ∉ r) ∧ (("DFLT", "dflt") ∉ r.tail) ∧
      (nonD = true → ∀ x ∈ r, x.1 ≠ "DFLT") ∧ r.Pairwise (fun a b => b.1 = "DFLT" → a.1 = "DFLT") := by
  induction r generalizing seen nonD with
  | nil => simp [checkLangsys]
  | cons a r ih =>
    obtain ⟨s, l⟩ := a
    unfold checkLangsys
    by_cases h1 : (s == "DFLT" && l == "dflt" && !seen.isEmpty) = true
    · simp only [h1, if_true]
      simp only [Bool.and_eq_true, beq_iff_eq, Bool.not_eq_true', isEmpty_eq_false_iff] at h1
      obtain ⟨⟨rfl, rfl⟩, h1⟩ := h1
      simp [h1]
    · simp only [h1, Bool.false_eq_true, if_false]
      by_cases h2 : (s == "DFLT" && nonD) = true
      · simp only [h2, if_true]
        simp only [Bool.and_eq_true, beq_iff_eq] at h2
        obtain ⟨rfl, rfl⟩ := h2
        simp
      · simp only [h2, Bool.false_eq_true, if_false]
        by_cases h3 : seen.contains (s, l) = true
        · simp only [h3, if_true]
          have : (s, l) ∈ seen := by simpa using h3
          simp [this]
        · simp only [h3, Bool.false_eq_true, if_false]
          rw [ih]
          have h3' : (s, l) ∉ seen := by simpa using h3
          simp only [Bool.and_eq_true, beq_iff_eq, Bool.not_eq_true', isEmpty_eq_false_iff, not_and] at h1 h2
          simp only [nodup_cons, mem_cons, pairwise_cons, tail_cons, ne_eq, reduceCtorEq, not_false_eq_true,
            forall_const, Bool.or_eq_true, bne_iff_ne]
          have ht : ∀ x, x ∈ r.tail → x ∈ r := fun x h => List.mem_of_mem_tail h
          constructor
          · rintro ⟨a1, a2, a3, a4, a5, a6⟩
            refine ⟨⟨fun h => a2 _ h (Or.inl rfl), a1⟩, ?_, ?_, ?_, ?_, ?_, a6⟩
            · rintro x (rfl | hx)
              · exact h3'
              · exact fun h => a2 x hx (Or.inr h)
            · intro hs; rintro (e | e)
              · injection e with e1 e2; exact h1 ⟨e1.symm, e2.symm⟩ hs
              · exact a3 e
            · exact a3
            · intro hn; rintro x (rfl | hx)
              · exact fun e => h2 e hn
              · exact a5 (Or.inl hn) x hx
            · intro b hb hbd
              by_cases hsd : s = "DFLT"
              · exact hsd
              · exact absurd hbd (a5 (Or.inr hsd) b hb)
          · rintro ⟨⟨b1, b2⟩, b3, b4, b5, b6, b7, b8⟩
            refine ⟨b2, ?_, b5, fun h => b5 (ht _ h), ?_, b8⟩
            · intro x hx; rintro (rfl | h)
              · exact b1 hx
              · exact b3 x (Or.inr hx) h
            · rintro (hn | hsd) x hx
              · exact b6 hn x (Or.inr hx)
              · exact fun e => hsd (b7 x hx e)

/-- the model of `add_language_system` accepts exactly the declaratively well-formed languagesystem lists -/
theorem checkLangsys_eq_wf (ls : List LS) : checkLangsys ls [] false = wfLangsys ls := by
  rw [Bool.eq_iff_iff, checkLangsys_iff]
  simp [wfLangsys, and_assoc]

/-- **C20_rejects** — duplicate languagesystem statements, a `DFLT dflt` that is not first, or a DFLT script
after another script: the compilation is rejected (FeatureLibError), and only then. -/
theorem C20_rejects (i : In) : reach i = .error .featureLib ↔ wfLangsys i.langsys = false := by
  rw [← checkLangsys_eq_wf]
  unfold reach
  cases h : checkLangsys i.langsys [] false <;> simp

/-! ### the kerning writer's block has the shape `holdsRegister` asks of the observed block -/

theorem sectionsOk_lookups (lks : List Lk) (r : List Stmt) :
    sectionsOk (lks.map Stmt.lookup ++ r) = sectionsOk r := by
  induction lks with
  | nil => rfl
  | cons a t ih => simp only [map_cons, cons_append, sectionsOk]; exact ih

theorem sectionsOk_langs (ls : List Tag) (r : List Stmt) :
    sectionsOk (ls.map (fun l => Stmt.language l true) ++ r) = sectionsOk r := by
  induction ls with
  | nil => rfl
  | cons a t ih => simp only [map_cons, cons_append, sectionsOk]; exact ih

theorem sectionsOk_addRefs (tag : Tag) (lks : List Lk) (ls : List Tag) (r : List Stmt)
    (htag : tag ≠ "") (hl : lks ≠ []) :
    sectionsOk (addLookupReferences lks tag ls false ++ r) = sectionsOk r := by
  have hb : (tag == "") = false := by simpa using htag
  obtain ⟨x, t, rfl⟩ := exists_cons_of_ne_nil hl
  simp only [addLookupReferences, hb, Bool.false_eq_true, if_false, cons_append, map_cons, sectionsOk,
    append_assoc, BEq.rfl, Bool.true_and]
  rw [sectionsOk_lookups, sectionsOk_langs]

theorem sectionsOk_regs (regs : List (Tag × List Lk × List Tag))
    (h : ∀ r ∈ regs, r.1 ≠ "" ∧ r.2.1 ≠ []) :
    sectionsOk (regs.flatMap (fun r => addLookupReferences r.2.1 r.1 r.2.2 false)) = true := by
  induction regs with
  | nil => rfl
  | cons a t ih =>
    simp only [flatMap_cons]
    rw [sectionsOk_addRefs _ _ _ _ (h a mem_cons_self).1 (h a mem_cons_self).2]
    exact ih (fun r hr => h r (mem_cons_of_mem _ hr))

/-- **C20_register** — whenever `_registerLookups` does not hit `assert lookups`, its block starts with a `script`
statement, every script section opens with `language dflt` and a lookup, and every `language` statement is
`dflt` or a language the feature file declares for that very script. -/
theorem C20_register (isKern : Bool) (lookups : Lookups) (langsys : List LS) (info : List (Tag × ScriptInfo))
    (hinfo : info.all (fun p => p.2.tags.all (fun t => t != "")) = true) (st : List Stmt)
    (h : registerLookups isKern lookups (langsOf langsys) info = .ok st) : holdsRegister langsys st = true := by
  unfold registerLookups at h
  split at h
  · cases h
  · rename_i hne
    injection h with h; subst h
    have hreg := registrations_ok isKern lookups langsys info hinfo
    have hne' : ∀ r ∈ registrations isKern lookups (langsOf langsys) info, r.2.1 ≠ [] := by
      intro r hr e
      apply hne
      exact any_eq_true.mpr ⟨r, hr, by simp [e]⟩
    unfold holdsRegister
    cases hreg0 : registrations isKern lookups (langsOf langsys) info with
    | nil => simp [registerStmts, hreg0]
    | cons a t =>
      have ha : a ∈ registrations isKern lookups (langsOf langsys) info := by rw [hreg0]; exact mem_cons_self
      have hstart : startsWithScript (registerStmts isKern lookups (langsOf langsys) info) = true := by
        have hb : ¬ a.1 = "" := (hreg a ha).1
        simp [registerStmts, hreg0, addLookupReferences, hb, startsWithScript]
      have hok := registerStmts_ok isKern lookups langsys info hinfo "DFLT"
      have hsec : sectionsOk (registerStmts isKern lookups (langsOf langsys) info) = true :=
        sectionsOk_regs _ (fun r hr => ⟨(hreg r hr).1, hne' r hr⟩)
      simp [hstart, hok, hsec]

/-- the assertion is hit exactly when some script's merged lookup dict is empty -/
theorem C20_register_rejects (isKern : Bool) (lookups : Lookups) (langs : List (Tag × List Tag))
    (info : List (Tag × ScriptInfo)) :
    registerLookups isKern lookups langs info = .error .assertion ↔
      ∃ r ∈ registrations isKern lookups langs info, r.2.1 = [] := by
  unfold registerLookups
  split
  · rename_i h
    obtain ⟨r, hr, he⟩ := any_eq_true.mp h
    exact ⟨fun _ => ⟨r, hr, by simpa using he⟩, fun _ => rfl⟩
  · rename_i h
    constructor
    · intro e; cases e
    · rintro ⟨r, hr, he⟩
      exact absurd (any_eq_true.mpr ⟨r, hr, by simp [he]⟩) h

/-! ### non-vacuity -/

/-- Latin + Greek kerning (one cross-script bucket), mark and mkmk, both scripts and DFLT declared, a Turkish
language system and a user feature with its own script statement: all hypotheses of `C20_partial` are met. -/
def sample : In :=
  { langsys := [("DFLT", "dflt"), ("latn", "dflt"), ("latn", "TRK"), ("grek", "dflt")]
    kern := { todo := ["dist", "kern"],
              lookups := [("Latn", [("kern_Latn", ⟨0, true⟩), ("kern_Grek_Latn", ⟨1, true⟩)]),
                          ("Grek", [("kern_Grek_Latn", ⟨1, true⟩)]), ("Zyyy", [("kern_Default", ⟨2, true⟩)])],
              info := [("Latn", { dir := "LTR", dist := false, tags := ["latn"] }),
                       ("Grek", { dir := "LTR", dist := false, tags := ["grek"] }),
                       ("Zyyy", { dir := "Auto", dist := false, tags := ["DFLT"] })] }
    gen := [{ tag := "mark", lookups := [⟨3, true⟩], acts := ["latn"] },
            { tag := "mkmk", lookups := [⟨4, true⟩], acts := ["*"] }]
    user := [{ tag := "cpsp", stmts := [.script "cyrl", .lookup ⟨5, true⟩] }]
    fontScripts := ["latn", "grek"] }

example : wfIn sample = true ∧ checkLangsys sample.langsys [] false = true ∧
    declared sample ("DFLT", "dflt") = true ∧
    (∀ f ∈ kernTags sample, ∀ s ∈ kernScripts sample f, declared sample (s, "dflt") = true) ∧
    kernScripts sample "kern" = ["DFLT", "grek", "latn"] := by decide

example : ("latn", "TRK", "kern") ∈ triples (build (assemble sample)) ∧
    ("latn", "TRK", "mkmk") ∈ triples (build (assemble sample)) ∧
    ("cyrl", "dflt", "cpsp") ∈ triples (build (assemble sample)) := by decide

/-- `C20_kern_keys_partial` / `C20_model_failures_shapeA_partial` are not vacuous: on the witness the proviso holds
and the second alternative (undeclared script named by the kerning writer) really occurs. -/
example : declared witness ("DFLT", "dflt") = true ∧ ("latn", "dflt", "kern") ∈ triples (build (assemble witness)) ∧
    declared witness ("latn", "dflt") = false ∧ "latn" ∈ kernScripts witness "kern" ∧
    (failures witness (triples (build (assemble witness)))).all (shapeA witness) = true := by decide

example : wfLangsys [("DFLT", "dflt"), ("latn", "dflt"), ("latn", "TRK")] = true ∧
    wfLangsys [("latn", "dflt"), ("DFLT", "dflt")] = false ∧ wfLangsys [("latn", "dflt"), ("latn", "dflt")] = false ∧
    wfLangsys [("DFLT", "TRK"), ("DFLT", "dflt")] = false := by decide

example : (registrations true [("Latn", [])] [] [("Latn", { dir := "LTR", dist := false, tags := ["latn"] })]).any
    (fun r => r.2.1.isEmpty) = true := by decide

/-! ### designspace rules -> extraSubstitutions -> script classification -/

theorem extraGet_cons (l0 : String) (rs : List String) (t : SubMap) (l' : String) :
    extraGet ((l0, rs) :: t) l' = if l0 == l' then rs else extraGet t l' := by
  unfold extraGet
  show ((if l0 == l' then some rs else alookup l' t).getD []) = _
  split <;> rfl

theorem extraGet_subAdd (m : SubMap) (l r l' x : String) :
    x ∈ extraGet (subAdd m l r) l' ↔ x ∈ extraGet m l' ∨ (l' = l ∧ x = r) := by
  induction m with
  | nil =>
    simp only [subAdd, extraGet_cons]
    by_cases h : l = l'
    · subst h; simp [extraGet, alookup]
    · have hb : (l == l') = false := by simpa using h
      simp only [hb]
      constructor
      · intro hx; exact Or.inl hx
      · rintro (hx | ⟨h1, _⟩)
        · exact hx
        · exact absurd h1.symm h
  | cons e t ih =>
    obtain ⟨l0, rs⟩ := e
    simp only [subAdd]
    by_cases h0 : l0 = l
    · subst h0
      simp only [beq_self_eq_true, if_true, extraGet_cons]
      by_cases h1 : l0 = l'
      · subst h1
        simp only [beq_self_eq_true, if_true]
        by_cases hc : rs.contains r = true
        · simp only [hc, if_true]
          constructor
          · intro hx; exact Or.inl hx
          · rintro (hx | ⟨_, hx⟩)
            · exact hx
            · subst hx; simpa using hc
        · simp only [hc]
          simp [mem_append]
      · have hb : (l0 == l') = false := by simpa using h1
        simp only [hb]
        constructor
        · intro hx; exact Or.inl hx
        · rintro (hx | ⟨h2, _⟩)
          · exact hx
          · exact absurd h2.symm h1
    · have hb : (l0 == l) = false := by simpa using h0
      simp only [hb, Bool.false_eq_true, if_false, extraGet_cons]
      by_cases h1 : l0 = l'
      · subst h1
        simp only [beq_self_eq_true, if_true]
        constructor
        · intro hx; exact Or.inl hx
        · rintro (hx | ⟨h2, _⟩)
          · exact hx
          · exact absurd h2 h0
      · have hb' : (l0 == l') = false := by simpa using h1
        simp only [hb', Bool.false_eq_true, if_false]
        exact ih

theorem extraGet_ruleFold (rule : Rule) (acc : SubMap) (l x : String) :
    x ∈ extraGet (rule.foldl (fun a s => subAdd a s.1 s.2) acc) l ↔ x ∈ extraGet acc l ∨ (l, x) ∈ rule := by
  induction rule generalizing acc with
  | nil => simp
  | cons s r ih =>
    simp only [foldl_cons, ih, extraGet_subAdd, mem_cons]
    obtain ⟨a, b⟩ := s
    simp only [Prod.mk.injEq]
    constructor
    · rintro ((h | h) | h)
      · exact Or.inl h
      · exact Or.inr (Or.inl h)
      · exact Or.inr (Or.inr h)
    · rintro (h | h | h)
      · exact Or.inl (Or.inl h)
      · exact Or.inl (Or.inr h)
      · exact Or.inr h

theorem extraGet_rulesFold (rules : List Rule) (acc : SubMap) (l x : String) :
    x ∈ extraGet (rules.foldl (fun acc rule => rule.foldl (fun a s => subAdd a s.1 s.2) acc) acc) l ↔
      x ∈ extraGet acc l ∨ ∃ rule ∈ rules, (l, x) ∈ rule := by
  induction rules generalizing acc with
  | nil => simp
  | cons r rs ih =>
    simp only [foldl_cons, ih, extraGet_ruleFold, mem_cons, exists_eq_or_imp, or_assoc]

/-- **the mapping handed to the feature writers is exactly the union of the rules**: `x` is among the glyphs
`extraSubstitutions[l]` iff some designspace rule replaces `l` by `x` (all rules, not only the last one). -/
theorem C20_ds_extra_complete (rules : List Rule) (l x : String) :
    x ∈ extraGet (extraSubs rules) l ↔ ∃ rule ∈ rules, (l, x) ∈ rule := by
  unfold extraSubs
  rw [extraGet_rulesFold]
  simp [extraGet, alookup]

/-- every stored entry is justified by a rule (no entry is invented): by induction over the construction -/
theorem subAdd_entries (m : SubMap) (l r : String) (P : String → String → Prop)
    (hm : ∀ e ∈ m, ∀ x ∈ e.2, P e.1 x) (hp : P l r) : ∀ e ∈ subAdd m l r, ∀ x ∈ e.2, P e.1 x := by
  induction m with
  | nil =>
    intro e he x hx
    simp only [subAdd, mem_singleton] at he
    subst he
    simp only [mem_singleton] at hx
    subst hx; exact hp
  | cons e0 t ih =>
    obtain ⟨l0, rs⟩ := e0
    intro e he x hx
    simp only [subAdd] at he
    by_cases h0 : l0 = l
    · subst h0
      simp only [beq_self_eq_true, if_true, mem_cons] at he
      rcases he with he | he
      · subst he
        by_cases hc : rs.contains r = true
        · simp only [hc, if_true] at hx
          exact hm (l0, rs) mem_cons_self x hx
        · simp only [hc] at hx
          rcases mem_append.mp hx with hx | hx
          · exact hm (l0, rs) mem_cons_self x hx
          · simp only [mem_singleton] at hx
            subst hx; exact hp
      · exact hm e (mem_cons_of_mem _ he) x hx
    · have hb : (l0 == l) = false := by simpa using h0
      simp only [hb, Bool.false_eq_true, if_false, mem_cons] at he
      rcases he with he | he
      · subst he; exact hm (l0, rs) mem_cons_self x hx
      · exact ih (fun e he => hm e (mem_cons_of_mem _ he)) e he x hx

theorem extraSubs_entries (rules : List Rule) :
    ∀ e ∈ extraSubs rules, ∀ x ∈ e.2, ∃ rule ∈ rules, (e.1, x) ∈ rule := by
  unfold extraSubs
  suffices h : ∀ (rs : List Rule) (acc : SubMap) (P : String → String → Prop),
      (∀ e ∈ acc, ∀ x ∈ e.2, P e.1 x) → (∀ rule ∈ rs, ∀ s ∈ rule, P s.1 s.2) →
      ∀ e ∈ rs.foldl (fun acc rule => rule.foldl (fun a s => subAdd a s.1 s.2) acc) acc, ∀ x ∈ e.2, P e.1 x by
    exact h rules [] (fun l x => ∃ rule ∈ rules, (l, x) ∈ rule) (by simp)
      (fun rule hr s hs => ⟨rule, hr, hs⟩)
  intro rs
  induction rs with
  | nil => intro acc P ha _; simpa using ha
  | cons r rs ih =>
    intro acc P ha hr
    simp only [foldl_cons]
    apply ih
    · have : ∀ (rule : Rule) (acc : SubMap), (∀ e ∈ acc, ∀ x ∈ e.2, P e.1 x) → (∀ s ∈ rule, P s.1 s.2) →
          ∀ e ∈ rule.foldl (fun a s => subAdd a s.1 s.2) acc, ∀ x ∈ e.2, P e.1 x := by
        intro rule
        induction rule with
        | nil => intro acc ha _; simpa using ha
        | cons s t iht =>
          intro acc ha hs
          simp only [foldl_cons]
          exact iht _ (subAdd_entries acc s.1 s.2 P ha (hs s mem_cons_self)) (fun s' h' => hs s' (mem_cons_of_mem _ h'))
      exact this r acc ha (hr r mem_cons_self)
    · exact fun rule h => hr rule (mem_cons_of_mem _ h)

/-- the model of `_pre_compile_designspace` satisfies the declarative requirement, for every list of rules -/
theorem C20_ds_extra (rules : List Rule) : holdsExtra rules (extraSubs rules) = true := by
  unfold holdsExtra
  simp only [Bool.and_eq_true, all_eq_true, any_eq_true, contains_iff_mem]
  constructor
  · intro rule hr s hs
    exact (C20_ds_extra_complete rules s.1 s.2).mpr ⟨rule, hr, hs⟩
  · intro e he x hx
    exact extraSubs_entries rules e he x hx

/-- **the variable-font path hands the writers the same mapping as the per-master path**: the loop of
`compile_variable_features` over the designspace's rules yields `extraSubs rules`. -/
theorem C20_ds_variable_same (rules : List Rule) : extraSubsVariable rules = extraSubs rules := rfl

/-- on either path the writers receive a mapping that satisfies the declarative requirement (every replacement of
every rule, nothing else), for every list of rules -/
theorem C20_ds_extra_paths (p : Path) (rules : List Rule) : holdsExtra rules (writersExtra p rules) = true := by
  cases p
  · exact C20_ds_extra rules
  · show holdsExtra rules (extraSubsVariable rules) = true
    rw [C20_ds_variable_same]; exact C20_ds_extra rules

/-- what the unfixed `compile_variable_features` handed over (no mapping at all) violates the requirement as soon as
a rule substitutes anything -/
example : holdsExtra [[("alpha", "alpha.bold")]] [] = false := by decide

theorem mem_classifyExtra (m : SubMap) (sets : List (Tag × List String)) (s : Tag) (glyphs : List String)
    (h : (s, glyphs) ∈ sets) : ∃ glyphs', (s, glyphs') ∈ classifyExtra m sets ∧
      (∀ x, x ∈ glyphs' ↔ x ∈ glyphs ∨ ∃ g ∈ glyphs, x ∈ extraGet m g) := by
  refine ⟨_, mem_map.mpr ⟨(s, glyphs), h, rfl⟩, ?_⟩
  intro x
  simp only [mem_append, mem_filter, mem_eraseDups, mem_flatMap]
  constructor
  · rintro (hx | ⟨hx, _⟩)
    · exact Or.inl hx
    · exact Or.inr hx
  · rintro (hx | hx)
    · exact Or.inl hx
    · by_cases hm : x ∈ glyphs
      · exact Or.inl hm
      · exact Or.inr ⟨hx, by simpa using hm⟩

/-- **a rule alternate inherits the script of the glyph it replaces, whatever rule it comes from**: if some rule
replaces `g` by `alt` and `g` is classified under script `s`, then after `classifyGlyphs` with the compiler's
`extraSubstitutions` the set of `s` contains `alt` (and everything it contained before). -/
theorem C20_ds_alternate_inherits (rules : List Rule) (sets : List (Tag × List String)) (s : Tag)
    (glyphs : List String) (hs : (s, glyphs) ∈ sets) (g alt : String) (hg : g ∈ glyphs)
    (rule : Rule) (hr : rule ∈ rules) (hsub : (g, alt) ∈ rule) :
    ∃ glyphs', (s, glyphs') ∈ classifyExtra (extraSubs rules) sets ∧ alt ∈ glyphs' ∧ ∀ x ∈ glyphs, x ∈ glyphs' := by
  obtain ⟨glyphs', hmem, hiff⟩ := mem_classifyExtra (extraSubs rules) sets s glyphs hs
  refine ⟨glyphs', hmem, ?_, fun x hx => (hiff x).mpr (Or.inl hx)⟩
  exact (hiff alt).mpr (Or.inr ⟨g, hg, (C20_ds_extra_complete rules g alt).mpr ⟨rule, hr, hsub⟩⟩)

/-- the classification step satisfies its declarative requirement -/
theorem C20_ds_classify (m : SubMap) (sets : List (Tag × List String)) :
    holdsClassify m sets (classifyExtra m sets) = true := by
  unfold holdsClassify
  simp only [all_eq_true, any_eq_true, Bool.and_eq_true, contains_iff_mem, beq_iff_eq]
  intro sg hsg
  obtain ⟨glyphs', hmem, hiff⟩ := mem_classifyExtra m sets sg.1 sg.2 hsg
  exact ⟨_, hmem, ⟨rfl, fun x hx => (hiff x).mpr (Or.inl hx)⟩,
    fun g hg x hx => (hiff x).mpr (Or.inr ⟨g, hg, hx⟩)⟩

/-- the seeded-defect shape, as a counterexample of the requirement: keeping only the LAST rule's replacement
of a glyph violates `holdsExtra`. -/
example : holdsExtra [[("alpha", "alpha.bold")], [("alpha", "alpha.cond")]] [("alpha", ["alpha.cond"])] = false := by decide

example : extraSubs [[("alpha", "alpha.bold"), ("beta", "beta.bold")], [("alpha", "alpha.cond")]] =
    [("alpha", ["alpha.bold", "alpha.cond"]), ("beta", ["beta.bold"])] := by decide

/-- converse direction on the Greek witness: mark/mkmk under grek without kern, while kerning acts on the rule
alternates of Greek letters, is a failure; with kern present it holds. -/
def dsWitness : DsIn :=
  { rules := [[("alpha", "alpha.bold"), ("beta", "beta.bold")], [("alpha", "alpha.cond"), ("beta", "beta.cond")]]
    own := [("a", ["latn"]), ("b", ["latn"]), ("alpha", ["grek"]), ("beta", ["grek"]), ("alpha.bold", []),
            ("beta.bold", []), ("alpha.cond", []), ("beta.cond", []), ("acutecomb", ["*"])]
    pairs := [("a", "b"), ("alpha.bold", "beta.bold")] }

example : kernActsOn dsWitness "grek" = true ∧ kernActsOn dsWitness "latn" = true ∧ kernActsOn dsWitness "DFLT" = false ∧
    holdsDs dsWitness [("DFLT", "dflt", "kern"), ("DFLT", "dflt", "mark"), ("grek", "dflt", "mark"),
                       ("latn", "dflt", "kern"), ("latn", "dflt", "mark")] = false ∧
    holdsDs dsWitness [("DFLT", "dflt", "kern"), ("DFLT", "dflt", "mark"), ("grek", "dflt", "kern"), ("grek", "dflt", "mark"),
                       ("latn", "dflt", "kern"), ("latn", "dflt", "mark")] = true := by decide


/-! ### mergeScripts: the merged buckets are pairwise disjoint -/

/-- when the `for scripts in rest` loop reports "nothing merged", nothing changed and every bucket is disjoint from
`common` -/
theorem absorb_false (c : SSet) (rest : List SSet) (h : (absorb c rest).2.2 = false) :
    absorb c rest = (c, rest, false) ∧ ∀ s ∈ rest, sdisjoint s c = true := by
  induction rest with
  | nil => simp [absorb]
  | cons s r ih =>
    unfold absorb at h ⊢
    by_cases hd : sdisjoint s c = true
    · simp only [hd, if_true] at h ⊢
      obtain ⟨h1, h2⟩ := ih h
      rw [h1]
      refine ⟨rfl, ?_⟩
      intro x hx
      rcases mem_cons.mp hx with rfl | hx
      · exact hd
      · exact h2 x hx
    · simp [hd] at h

theorem absorb_length (c : SSet) (rest : List SSet) :
    (absorb c rest).2.1.length ≤ rest.length ∧ ((absorb c rest).2.2 = true → (absorb c rest).2.1.length < rest.length) := by
  induction rest generalizing c with
  | nil => simp [absorb]
  | cons s r ih =>
    unfold absorb
    by_cases hd : sdisjoint s c = true
    · simp only [hd, if_true, length_cons]
      obtain ⟨h1, h2⟩ := ih c
      exact ⟨by omega, fun h => by have := h2 h; omega⟩
    · simp only [hd, length_cons]
      have := ih (sunion c s)
      simp
      omega

/-- a pass that reports "nothing merged" returns its input, and the input is pairwise disjoint -/
theorem mergePass_false (n : Nat) (sets : List SSet) (hn : sets.length ≤ n) (h : (mergePass n sets).2 = false) :
    (mergePass n sets).1 = sets ∧ sets.Pairwise (fun a b => sdisjoint b a = true) := by
  induction n generalizing sets with
  | zero =>
    have : sets = [] := by simpa using hn
    subst this; simp [mergePass]
  | succ n ih =>
    cases sets with
    | nil => simp [mergePass]
    | cons c rest =>
      simp only [mergePass, Bool.or_eq_false_iff] at h ⊢
      obtain ⟨ha, hp⟩ := h
      obtain ⟨ha1, ha2⟩ := absorb_false c rest ha
      rw [ha1] at hp ⊢
      simp only [length_cons] at hn
      obtain ⟨h1, h2⟩ := ih rest (by omega) hp
      simp only [h1, pairwise_cons, true_and]
      exact ⟨ha2, h2⟩

theorem mergePass_length (n : Nat) (sets : List SSet) :
    (mergePass n sets).1.length ≤ sets.length ∧ ((mergePass n sets).2 = true → (mergePass n sets).1.length < sets.length) := by
  induction n generalizing sets with
  | zero => 
    simp [mergePass]
  | succ n ih =>
    cases sets with
    | nil => simp [mergePass]
    | cons c rest =>
      simp only [mergePass, length_cons, Bool.or_eq_true]
      have h1 := absorb_length c rest
      have h2 := ih (absorb c rest).2.1
      refine ⟨by omega, ?_⟩
      rintro (h | h)
      · have := h1.2 h; omega
      · have := h2.2 h; omega

theorem mergeLoop_disjoint (n : Nat) (sets : List SSet) (hn : sets.length ≤ n) :
    (mergeLoop n sets).Pairwise (fun a b => sdisjoint b a = true) := by
  induction n generalizing sets with
  | zero =>
    have : sets = [] := by simpa using hn
    subst this; simp [mergeLoop]
  | succ n ih =>
    simp only [mergeLoop]
    by_cases hm : (mergePass sets.length sets).2 = true
    · simp only [hm, if_true]
      apply ih
      have := (mergePass_length sets.length sets).2 hm
      omega
    · have hm' : (mergePass sets.length sets).2 = false := by simpa using hm
      simp only [hm']
      obtain ⟨h1, h2⟩ := mergePass_false sets.length sets (Nat.le_refl _) hm'
      rw [h1]; exact h2

/-- **mergeScripts, first half**: for every list of bucket keys the merged buckets are pairwise disjoint (the fuel of the
model's `while merged` loop, the number of buckets, always suffices: a pass that merges shortens the list). -/
theorem C20_merge_disjoint (keys : List SSet) :
    (mergeSets keys).Pairwise (fun a b => sdisjoint b a = true) :=
  mergeLoop_disjoint _ _ (Nat.le_refl _)

/-- the seeded-defect shape: ONE pass over [A,B], [C,D], [B,C] leaves overlapping buckets; the loop repairs it -/
example : (mergePass 3 [["A", "B"], ["C", "D"], ["B", "C"]]).1 = [["A", "B", "C"], ["C", "D"]] ∧
    mergeSets [["A", "B"], ["C", "D"], ["B", "C"]] = [["A", "B", "C", "D"]] := by decide

example : holdsMerge [(["A", "B"], [0]), (["C", "D"], [1]), (["B", "C"], [2])] [(["A", "B", "C"], [0, 1, 2]), (["C", "D"], [])] = false ∧
    (mergeScripts [(["A", "B"], [0]), (["C", "D"], [1]), (["B", "C"], [2])]).toOption = some [(["A", "B", "C", "D"], [0, 1, 2])] ∧
    holdsMerge [(["A", "B"], [0]), (["C", "D"], [1]), (["B", "C"], [2])] [(["A", "B", "C", "D"], [0, 1, 2])] = true := by decide

/-! ### mergeScripts: every input bucket is inside one merged bucket -/

theorem mem_sunion_left {a b : SSet} {x : Tag} (h : x ∈ a) : x ∈ sunion a b := mem_append_left _ h

theorem mem_sunion_right {a b : SSet} {x : Tag} (h : x ∈ b) : x ∈ sunion a b := by
  unfold sunion
  by_cases ha : x ∈ a
  · exact mem_append_left _ ha
  · exact mem_append_right _ (mem_filter.mpr ⟨h, by simpa using ha⟩)

theorem absorb_cover (c : SSet) (rest : List SSet) :
    (∀ x ∈ c, x ∈ (absorb c rest).1) ∧
    ∀ s ∈ rest, s ∈ (absorb c rest).2.1 ∨ ∀ x ∈ s, x ∈ (absorb c rest).1 := by
  induction rest generalizing c with
  | nil => simp [absorb]
  | cons s r ih =>
    unfold absorb
    by_cases hd : sdisjoint s c = true
    · simp only [hd, if_true]
      obtain ⟨h1, h2⟩ := ih c
      refine ⟨h1, ?_⟩
      intro s' hs'
      rcases mem_cons.mp hs' with rfl | hs'
      · exact Or.inl mem_cons_self
      · rcases h2 s' hs' with h | h
        · exact Or.inl (mem_cons_of_mem _ h)
        · exact Or.inr h
    · simp only [hd]
      obtain ⟨h1, h2⟩ := ih (sunion c s)
      refine ⟨fun x hx => h1 x (mem_sunion_left hx), ?_⟩
      intro s' hs'
      rcases mem_cons.mp hs' with rfl | hs'
      · exact Or.inr (fun x hx => h1 x (mem_sunion_right hx))
      · exact h2 s' hs'

theorem mergePass_cover (n : Nat) (sets : List SSet) (hn : sets.length ≤ n) :
    ∀ s ∈ sets, ∃ b ∈ (mergePass n sets).1, ∀ x ∈ s, x ∈ b := by
  induction n generalizing sets with
  | zero =>
    have : sets = [] := by simpa using hn
    subst this; simp
  | succ n ih =>
    cases sets with
    | nil => simp
    | cons c rest =>
      simp only [length_cons] at hn
      obtain ⟨h1, h2⟩ := absorb_cover c rest
      have hl := (absorb_length c rest).1
      have ih' := ih (absorb c rest).2.1 (by omega)
      intro s hs
      simp only [mergePass]
      rcases mem_cons.mp hs with rfl | hs
      · exact ⟨_, mem_cons_self, h1⟩
      · rcases h2 s hs with h | h
        · obtain ⟨b, hb, hsub⟩ := ih' s h
          exact ⟨b, mem_cons_of_mem _ hb, hsub⟩
        · exact ⟨_, mem_cons_self, h⟩

theorem mergeLoop_cover (n : Nat) (sets : List SSet) :
    ∀ s ∈ sets, ∃ b ∈ mergeLoop n sets, ∀ x ∈ s, x ∈ b := by
  induction n generalizing sets with
  | zero => intro s hs; exact ⟨s, hs, fun _ h => h⟩
  | succ n ih =>
    intro s hs
    obtain ⟨b, hb, hsub⟩ := mergePass_cover sets.length sets (Nat.le_refl _) s hs
    simp only [mergeLoop]
    by_cases hm : (mergePass sets.length sets).2 = true
    · simp only [hm, if_true]
      obtain ⟨b', hb', hsub'⟩ := ih _ b hb
      exact ⟨b', hb', fun x hx => hsub' x (hsub x hx)⟩
    · have hm' : (mergePass sets.length sets).2 = false := by simpa using hm
      simp only [hm']
      exact ⟨b, hb, hsub⟩

/-- **mergeScripts, second half**: every non-empty input bucket key is contained in one merged bucket -/
theorem C20_merge_cover (keys : List SSet) (k : SSet) (hk : k ∈ keys) (hne : k.isEmpty = false) :
    ∃ b ∈ mergeSets keys, ∀ x ∈ k, x ∈ b :=
  mergeLoop_cover _ _ k (mem_filter.mpr ⟨hk, by simp [hne]⟩)

/-- converse direction across scripts on the four-script witness (Latn-Grek, Cyrl-Armn, Grek-Cyrl): mark under armn
without kern is a failure although no pair has BOTH glyphs in armn; with kern present it holds; a pair of mixed direction
does not count. -/
def xWitness : XIn :=
  { own := [("a", ["latn"]), ("alpha", ["grek"]), ("beta", ["grek"]), ("becy", ["cyrl"]), ("vecy", ["cyrl"]),
            ("aybarm", ["armn"]), ("alefhebr", ["hebr"]), ("period", ["*"])]
    pairs := [("a", "alpha"), ("vecy", "aybarm"), ("beta", "becy"), ("a", "alefhebr"), ("period", "alefhebr")]
    dirs := [("latn", "LTR"), ("grek", "LTR"), ("cyrl", "LTR"), ("armn", "LTR"), ("hebr", "RTL")] }

example : kernActsOnX xWitness "armn" = true ∧ kernActsOnX xWitness "hebr" = false ∧
    holdsX xWitness [("DFLT", "dflt", "kern"), ("DFLT", "dflt", "mark"), ("armn", "dflt", "mark"),
                     ("cyrl", "dflt", "kern"), ("cyrl", "dflt", "mark"), ("hebr", "dflt", "mark")] = false ∧
    holdsX xWitness [("DFLT", "dflt", "kern"), ("DFLT", "dflt", "mark"), ("armn", "dflt", "kern"), ("armn", "dflt", "mark"),
                     ("cyrl", "dflt", "kern"), ("cyrl", "dflt", "mark"), ("hebr", "dflt", "mark")] = true := by decide

/-! ### variable fonts: pair universe of `getVariableKerningPairs` -/

theorem mem_kunion (a b : List KP) (p : KP) : p ∈ kunion a b ↔ p ∈ a ∨ p ∈ b := by
  by_cases h : p ∈ a <;> simp [kunion, h]

theorem mem_varAllPairs (srcs : List KSrc) (p : KP) :
    p ∈ varAllPairs srcs ↔ ∃ s, s ∈ srcs ∧ s.layer = false ∧ p ∈ s.pairs := by
  induction srcs with
  | nil => simp [varAllPairs]
  | cons s r ih =>
    simp only [varAllPairs]
    by_cases hl : s.layer = true
    · simp only [hl, if_true, ih, mem_cons]
      constructor
      · rintro ⟨t, ht, h1, h2⟩; exact ⟨t, Or.inr ht, h1, h2⟩
      · rintro ⟨t, ht, h1, h2⟩
        rcases ht with rfl | ht
        · simp [hl] at h1
        · exact ⟨t, ht, h1, h2⟩
    · have hl' : s.layer = false := by simpa using hl
      simp only [hl', Bool.false_eq_true, if_false, mem_kunion, ih, mem_cons]
      constructor
      · rintro (h | ⟨t, ht, h1, h2⟩)
        · exact ⟨s, Or.inl rfl, hl', h⟩
        · exact ⟨t, Or.inr ht, h1, h2⟩
      · rintro ⟨t, ht, h1, h2⟩
        rcases ht with rfl | ht
        · exact Or.inl h2
        · exact Or.inr ⟨t, ht, h1, h2⟩

/-- **variable builds**: every kerning pair of every full source (default or not) whose sides exist is collated, and
only such pairs are - for all source lists. -/
theorem C20_var_pairs (srcs : List KSrc) (known : List String) :
    holdsVarPairs srcs known (varKeys srcs known) = true := by
  simp only [holdsVarPairs, Bool.and_eq_true, all_eq_true, Bool.or_eq_true, any_eq_true,
    contains_iff_mem, Bool.not_eq_eq_eq_not, Bool.not_true]
  constructor
  · intro s hs
    by_cases hl : s.layer = true
    · exact Or.inl hl
    · right
      intro p hp
      by_cases hk : (known.contains p.1 && known.contains p.2) = true
      · right
        simp only [varKeys, mem_filter]
        exact ⟨(mem_varAllPairs srcs p).2 ⟨s, hs, by simpa using hl, hp⟩, hk⟩
      · left; simpa using hk
  · intro p hp
    simp only [varKeys, mem_filter] at hp
    obtain ⟨s, hs, h1, h2⟩ := (mem_varAllPairs srcs p).1 hp.1
    exact ⟨s, hs, by simp [h1, h2]⟩

/-- a script kerned only in the non-default master: its pairs are collated; taking the default source's pairs only is not -/
example : holdsVarPairs [⟨false, [("A", "V")]⟩, ⟨false, [("A", "V"), ("Alpha", "Upsilon")]⟩] ["A", "V", "Alpha", "Upsilon"]
      (varKeys [⟨false, [("A", "V")]⟩, ⟨false, [("A", "V"), ("Alpha", "Upsilon")]⟩] ["A", "V", "Alpha", "Upsilon"]) = true ∧
    holdsVarPairs [⟨false, [("A", "V")]⟩, ⟨false, [("A", "V"), ("Alpha", "Upsilon")]⟩] ["A", "V", "Alpha", "Upsilon"]
      [("A", "V")] = false := by decide

end Ufo2ft.C20
