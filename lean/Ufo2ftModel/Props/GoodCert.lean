import Ufo2ftModel.Props.Render
import Ufo2ftModel.Props.Reverse
import Ufo2ftModel.Spec.Good
/-! A checked certificate implies the hypotheses of the geometry theorems. -/
namespace Ufo2ft
open List

theorem alookup_mem {n : String} {g : Glyph} : ∀ {gs : GlyphSet}, alookup n gs = some g → (n, g) ∈ gs := by
  intro gs
  induction gs with
  | nil => intro h; cases h
  | cons e gs ih =>
    intro h
    obtain ⟨k, v⟩ := e
    simp only [alookup] at h
    by_cases hk : (k == n) = true
    · rw [if_pos hk] at h
      have hkn : k = n := by simpa using hk
      have := Option.some.inj h
      subst this; subst hkn; exact mem_cons_self
    · rw [if_neg hk] at h; exact mem_cons_of_mem _ (ih h)

/-- **certificate soundness**: if the decidable check passes, the glyph set is acyclic with non-singular components and
    closed contours (`Good`), its keys are its glyph names (`Named`), and ranks are bounded by the number of glyphs —
    exactly the hypotheses of `C01_outline`, `C13_render`, `C15_*`, `C02_*`. -/
theorem goodCert_sound (gs : GlyphSet) (cert : List (String × Nat)) (h : goodCert gs cert = true) :
    Good gs (rankOf cert) ∧ Named gs ∧ ∀ n g, gs.get? n = some g → rankOf cert n ≤ gs.length := by
  have hall : ∀ n g, gs.get? n = some g →
      g.name = n ∧ (∀ k ∈ g.comps, k.t.det ≠ 0 ∧ rankOf cert k.base < rankOf cert n) ∧
      (∀ c ∈ g.contours, ∀ p ∈ c, p.seg ≠ some Seg.move) ∧ rankOf cert n ≤ gs.length := by
    intro n g hg
    have hm := alookup_mem hg
    unfold goodCert at h
    have := (List.all_eq_true.mp h) (n, g) hm
    simp only [Bool.and_eq_true, beq_iff_eq, List.all_eq_true, bne_iff_ne, ne_eq, decide_eq_true_eq] at this
    obtain ⟨⟨⟨h1, h2⟩, h3⟩, h4⟩ := this
    exact ⟨h1, fun k hk => h2 k hk, fun c hc p hp => h3 c hc p hp, h4⟩
  refine ⟨⟨?_, ?_, ?_⟩, ?_, ?_⟩
  · intro n g hg k hk; exact ((hall n g hg).2.1 k hk).2
  · intro n g hg k hk; exact ((hall n g hg).2.1 k hk).1
  · intro n g hg c hc; exact reverseContour_involutive c ((hall n g hg).2.2.1 c hc)
  · intro n g hg; exact (hall n g hg).1
  · intro n g hg; exact (hall n g hg).2.2.2

end Ufo2ft
