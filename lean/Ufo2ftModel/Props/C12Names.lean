import Ufo2ftModel.Spec.C12Names
import Ufo2ftModel.Props.C11
import Ufo2ftModel.Props.C12
/-!
C12, glyph identity (see `Model/C12Names.lean`): renaming glyphs to production names moves no charstring, for
either CFF version, and both versions end up with the same names.  The naming theorems of C11
(`C11_distinct`: the final names are pairwise distinct; `C11_perm_charStrings`: the CharStrings dict is
re-keyed entry by entry) are the ingredients; what is new is the step fontTools takes when it writes a
'CFF ' table (charset → CharStrings lookup), which is where a charset and a dict that disagree show.
-/
namespace Ufo2ft.C12
open List Ufo2ft.C11

theorem keys_indexed (l : List Name) : ∀ k, keys (indexed k l) = l := by
  induction l with
  | nil => intro k; rfl
  | cons a l ih => intro k; simp only [indexed, keys, map_cons, cons.injEq, true_and]; exact ih (k + 1)

theorem alookup_append_of_not_mem (k : Name) (a b : List (Name × Nat)) (h : k ∉ keys a) :
    alookup k (a ++ b) = alookup k b := by
  induction a with
  | nil => rfl
  | cons e a ih =>
    obtain ⟨k', v⟩ := e
    simp only [keys, map_cons, mem_cons, not_or] at h
    have hne : (k' == k) = false := by
      rw [beq_eq_false_iff_ne]; exact fun e => h.1 e.symm
    simp only [cons_append, alookup, hne, Bool.false_eq_true, if_false]
    exact ih h.2

/-- walking a charset `l.map f` through a CharStrings dict that was re-keyed with the same `f` finds the
    charstrings in their original order, provided the new names are pairwise distinct -/
theorem lookupAll_renamed (f : Name → Name) : ∀ (l : List Name) (k : Nat) (pre : List (Name × Nat)),
    (∀ a ∈ l, f a ∉ keys pre) → (l.map f).Nodup →
    lookupAll (pre ++ (indexed k l).map (fun e => (f e.1, e.2))) (l.map f) = .ok (List.range' k l.length) := by
  intro l
  induction l with
  | nil => intro k pre _ _; rfl
  | cons a l ih =>
    intro k pre hpre hnd
    simp only [map_cons, nodup_cons, mem_map, not_exists, not_and] at hnd
    have h1 : alookup (f a) (pre ++ (f a, k) :: (indexed (k + 1) l).map (fun e => (f e.1, e.2))) = some k := by
      rw [alookup_append_of_not_mem _ _ _ (hpre a mem_cons_self)]
      simp [alookup]
    have hpre' : ∀ b ∈ l, f b ∉ keys (pre ++ [(f a, k)]) := by
      intro b hb hin
      simp only [keys, map_append, map_cons, map_nil, mem_append, mem_singleton] at hin
      rcases hin with hin | hin
      · exact hpre b (mem_cons_of_mem _ hb) (by simpa [keys] using hin)
      · exact hnd.1 b hb hin
    have ih' := ih (k + 1) (pre ++ [(f a, k)]) hpre' hnd.2
    simp only [append_assoc, singleton_append] at ih'
    simp only [indexed, map_cons, lookupAll, h1, ih', length_cons]
    rw [List.range'_succ]

/-- the same for a font that is not renamed -/
theorem lookupAll_indexed (l : List Name) (h : l.Nodup) :
    lookupAll (indexed 0 l) l = .ok (List.range l.length) := by
  have := lookupAll_renamed id l 0 [] (by simp [keys]) (by simpa using h)
  simpa [List.range_eq_range'] using this

/-- the decision to rename does not look at the CFF version -/
theorem rename_decision_version_free (s : Switches) (b : Bool) :
    (decide' { s with cff1 := b }).rename = (decide' s).rename := by
  unfold decide'
  cases s.arg <;> cases s.libKeep <;> cases b <;> cases hc : s.cff1 <;> simp <;>
    (try (rename_i k; cases k <;> simp))

/-- **C12_names_content**: for every source font (distinct glyph names; since /repo b7d43fe also with glyphs the post-processor knows nothing about), every
    setting of the production-name switches and both CFF versions, the saved font holds at glyph index k the
    charstring of source glyph k: renaming never separates an outline from its advance width, its code points
    and its layout rules. -/
theorem C12_names_content (v : Ver) (s : Switches) (i : Input) (h : i.order.Nodup) :
    savedIndex v (renameCarriers v s i) = .ok (List.range i.order.length) := by
  cases v with
  | v2 =>
    unfold savedIndex renameCarriers initial
    simp only
    split <;> simp [renameGlyphs]
  | v1 =>
    unfold savedIndex renameCarriers initial
    simp only
    split
    · -- renamed
      have hd : (finalOrder i).Nodup := of_decide_eq_true (C11_distinct i h)
      have hk : ((keys (indexed 0 i.order)).map (applyMap (buildProductionNames i))).Nodup := by
        rw [keys_indexed]; exact hd
      have e1 := C11_perm_charStrings (buildProductionNames i) i.order (indexed 0 i.order) i.order hk
      have e2 : (renameGlyphs (buildProductionNames i) i.order (indexed 0 i.order) i.order).charset
          = i.order.map (applyMap (buildProductionNames i)) := by simp [renameGlyphs]
      simp only [e1, e2]
      have := lookupAll_renamed (applyMap (buildProductionNames i)) i.order 0 [] (by simp [keys]) hd
      simpa [List.range_eq_range'] using this
    · exact lookupAll_indexed i.order h

theorem renameCarriers_order (v : Ver) (s : Switches) (i : Input) :
    (renameCarriers v s i).order = if (decide' s).rename then finalOrder i else i.order := by
  have hr := rename_decision_version_free s (decide (v = .v1))
  unfold renameCarriers
  simp only [hr]
  split
  · cases v <;> simp [renameGlyphs, finalOrder, initial]
  · cases v <;> simp [initial]

theorem renameCarriers_charset (s : Switches) (i : Input) :
    (renameCarriers .v1 s i).charset = if (decide' s).rename then finalOrder i else i.order := by
  rw [← renameCarriers_order .v1 s i]
  unfold renameCarriers
  simp only
  split <;> simp [renameGlyphs, initial]

/-- the names a reader finds, when the font stores names, are the (possibly renamed) glyph order -
    in the charset for CFF 1, in 'post' for CFF 2 -/
theorem savedNames_eq (v : Ver) (s : Switches) (i : Input) (l : List Name)
    (hs : savedNames v (renameCarriers v s i) = some l) :
    l = if (decide' s).rename then finalOrder i else i.order := by
  cases v with
  | v1 =>
    simp only [savedNames, Option.some.injEq] at hs
    rw [← hs, renameCarriers_charset]
  | v2 =>
    simp only [savedNames] at hs
    split at hs
    · simp only [Option.some.injEq] at hs
      rw [← hs, renameCarriers_order]
    · cases hs

/-- **C12_names_same**: the CFF 1 and the CFF 2 build of the same sources, when both store names, store the
    same names in the same order -/
theorem C12_names_same (s : Switches) (i : Input) :
    holdsSameNames (savedNames .v1 (renameCarriers .v1 s i)) (savedNames .v2 (renameCarriers .v2 s i)) = true := by
  unfold holdsSameNames
  split
  · rename_i x y hx hy
    rw [savedNames_eq .v1 s i x hx, savedNames_eq .v2 s i y hy]; simp
  · rfl

/-- stored names are pairwise distinct, one per glyph -/
theorem C12_names_distinct (v : Ver) (s : Switches) (i : Input) (h : i.order.Nodup)
    (l : List Name) (hs : savedNames v (renameCarriers v s i) = some l) :
    l.length = i.order.length ∧ l.Nodup := by
  rw [savedNames_eq v s i l hs]
  split
  · exact ⟨by simp [finalOrder], of_decide_eq_true (C11_distinct i h)⟩
  · exact ⟨rfl, h⟩

/-- reading a list back through its indices -/
theorem filterMap_range_getElem? (src : List α) : (List.range src.length).filterMap (fun k => src[k]?) = src := by
  induction src with
  | nil => rfl
  | cons a l ih =>
    rw [length_cons, List.range_succ_eq_map, filterMap_cons]
    simp only [getElem?_cons_zero, filterMap_map]
    congr 1

/-- **C12_names**: the declarative predicate holds of the model for every input: whatever `src` each source
    glyph shows, the saved font shows the same at every index, under names that identify glyphs -/
theorem C12_names [BEq α] [LawfulBEq α] (v : Ver) (s : Switches) (i : Input) (h : i.order.Nodup)
    (hc : covers i = true) (src : List α) (hl : src.length = i.order.length) (idx : List Nat)
    (hi : savedIndex v (renameCarriers v s i) = .ok idx) :
    holdsCarried src (idx.filterMap (fun k => src[k]?)) (savedNames v (renameCarriers v s i)) = true := by
  rw [C12_names_content v s i h] at hi
  cases hi
  unfold holdsCarried
  have e : (List.range i.order.length).filterMap (fun k => src[k]?) = src := by
    rw [← hl]; exact filterMap_range_getElem? src
  rw [e]
  simp only [beq_self_eq_true, Bool.true_and]
  unfold namesIdentify
  split
  · rfl
  · rename_i l hs
    obtain ⟨h1, h2⟩ := C12_names_distinct v s i h l hs
    simp [h1, hl, h2]

/-! ### the hypotheses are met, and the theorems have teeth -/

def swapInput : Input :=
  { order := [".notdef".toList, "first".toList, "second".toList, "third".toList]
    glyphSet := [(".notdef".toList, none), ("first".toList, some 0x61), ("second".toList, some 0x62), ("third".toList, some 0x63)]
    psNames := some [("first".toList, "second".toList), ("second".toList, "first".toList), ("third".toList, "uni0063".toList)] }

def onSwitches : Switches :=
  { arg := some true, libUse := none, libDont := none, libKeep := none, hasPs := true, cff1 := true }

example : swapInput.order.Nodup ∧ covers swapInput = true := by decide
example : savedNames .v1 (renameCarriers .v1 onSwitches swapInput)
    = some [".notdef".toList, "second".toList, "first".toList, "uni0063".toList] := by decide
example : savedIndex .v1 (renameCarriers .v1 onSwitches swapInput) = .ok [0, 1, 2, 3] := by decide

/-- the seeded defect C12c (charset rebuilt from the already renamed glyph order) on the same input: the CFF 1
    font gets the charstrings of `first` and `second` swapped against hmtx/cmap/GSUB, the CFF 2 font does not -/
example : savedIndex .v1 (renameGlyphsTwice (buildProductionNames swapInput) (initial .v1 swapInput.order))
    = .ok [0, 2, 1, 3] := by decide
example : holdsCarried ["n", "f", "s", "t"] ["n", "s", "f", "t"] none = false := by decide

/-- a glyph the post-processor knows nothing about keeps its name; since the repair b7d43fe that name is reserved, so
    a production name equal to it gets a suffix and no charstring is lost (before the repair this input gave [1, 1]) -/
example : savedIndex .v1 (renameCarriers .v1 onSwitches
    { order := [".notdef".toList, "a".toList], glyphSet := [("a".toList, none)],
      psNames := some [("a".toList, ".notdef".toList)] }) = .ok [0, 1] := by decide

/-- **C12_cff1_writable**: for EVERY glyph order with distinct names that starts with '.notdef', every glyph
    set, every `public.postscriptNames` map (entries for '.notdef' and entries asking for the name '.notdef'
    included) and every setting of the switches, the CFF 1 charset after renaming still starts with '.notdef':
    fontTools can write the table. -/
theorem C12_cff1_writable (s : Switches) (i : Input) (h : i.order.Nodup) (h0 : i.order.head? = some notdef) :
    cff1Writable (renameCarriers .v1 s i).charset = true := by
  rw [renameCarriers_charset]
  unfold cff1Writable
  split
  · have hk : i.order[0]? = some notdef := by rw [← List.head?_eq_getElem?]; exact h0
    have := C11_notdef_kept i h 0 hk
    rw [List.head?_eq_getElem?, this]; rfl
  · rw [h0]; rfl

/-- the switches and the map do not reach the predicted font at all -/
theorem modelFontNamed_eq (s : Switches) (i : Input) (base : Out) (c : Combo)
    (h : i.order.Nodup) (h0 : i.order.head? = some notdef) :
    modelFontNamed s i base c = modelFont (i.order.map String.ofList) base c := by
  unfold modelFontNamed
  cases modelFont (i.order.map String.ofList) base c with
  | error e => rfl
  | ok o => simp [C12_cff1_writable s i h h0]

/-- **C12_same_named**: `C12_same` for sources built with ANY setting of the production-name switches and ANY
    `public.postscriptNames` map: the fonts predicted from the un-renamed reference build satisfy the property for
    every list of in-domain combinations (the glyph order of a compiled font has distinct names and starts with
    '.notdef') -/
theorem C12_same_named (s : Switches) (i : Input) (base : Out) (cs : List Combo)
    (hdom : ∀ c ∈ cs, inDomain c.2.1 c.2.2 = true) (hp : plainFont (i.order.map String.ofList) base)
    (h : i.order.Nodup) (h0 : i.order.head? = some notdef) :
    holdsSame cs (cs.map (modelFontNamed s i base)) = true := by
  have e : cs.map (modelFontNamed s i base) = cs.map (modelFont (i.order.map String.ofList) base) :=
    map_congr_left (fun c _ => modelFontNamed_eq s i base c h h0)
  rw [e]
  exact C12_same _ base cs hdom hp

/-- the former finding as an input: `public.postscriptNames = {'.notdef': 'nd', 'a': '.notdef'}` -/
def notdefInput : Input :=
  { order := [".notdef".toList, "a".toList, "b".toList]
    glyphSet := [(".notdef".toList, none), ("a".toList, some 0x61), ("b".toList, none)]
    psNames := some [(".notdef".toList, "nd".toList), ("a".toList, ".notdef".toList)] }

example : notdefInput.order.Nodup ∧ notdefInput.order.head? = some notdef := by decide
example : savedNames .v1 (renameCarriers .v1 onSwitches notdefInput)
    = some [".notdef".toList, ".notdef.1".toList, "b".toList] := by decide
example : holdsSame combos18 (combos18.map (modelFontNamed onSwitches notdefInput plainBase)) = true := by decide

/-- LABELLED COUNTEREXAMPLE over the OLD naming function (`C11.finalOrderOldNotdef`: '.notdef' renamed like any other
    glyph): the charset it produced for the same input cannot be written by fontTools, which is why the CFF 1 builds
    failed at save while the CFF 2 builds succeeded -/
example : cff1Writable (finalOrderOldNotdef notdefInput) = false := by decide

end Ufo2ft.C12
