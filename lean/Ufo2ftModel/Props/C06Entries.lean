import Ufo2ftModel.Props.C06Inv
/-! C06, part 6: every anchor in every generated lookup comes from an anchor of that glyph with that mark class. -/
namespace Ufo2ft.C06
open List

def AnchorIn (al : AList) (g : String) (a : NA) : Prop := ∃ as, (g, as) ∈ al ∧ a ∈ as

theorem anchorIn_of_prune {al : AList} {g : String} {a : NA} (h : AnchorIn (prune al) g a) : AnchorIn al g a := by
  obtain ⟨as', has', ha⟩ := h
  obtain ⟨_, as, has, e⟩ := mem_prune has'
  simp only at e; subst e
  exact ⟨as, has, (mem_filter.mp ha).1⟩

/-- the base-side anchor `b` belongs to glyph `g`, refers to class `b.cls`, and has ligature number `num` -/
def BOK (al : AList) (km : List (String × String)) (g : String) (b : BAnchor) (num : Option Nat) : Prop :=
  AnchorIn al g b.a ∧ classOf km b.a = some b.cls ∧ b.a.number = num ∧ b.a.ctx = none

theorem mem_plainOf {as : List NA} {a : NA} (h : a ∈ plainOf as) : a ∈ as ∧ a.ctx = none := by
  obtain ⟨h1, h2⟩ := mem_filter.mp h
  exact ⟨h1, by simpa using h2⟩

def EntryOK (al : AList) (km : List (String × String)) (kind : Kind) (e : Entry) : Prop :=
  ∀ j comp, e.comps[j]? = some comp → ∀ t ∈ comp, ∃ b : BAnchor,
    t = (b.cls, otRound b.a.x, otRound b.a.y) ∧ BOK al km e.glyph b (if kind = .liga then some (j + 1) else none)

theorem mem_compAST {comp : List BAnchor} {t : String × Int × Int} (h : t ∈ compAST comp) :
    ∃ b ∈ comp, t = (b.cls, otRound b.a.x, otRound b.a.y) := by
  obtain ⟨b, hb, rfl⟩ := mem_map.mp h
  exact ⟨b, (mergeSort_perm _ _).mem_iff.mp hb, rfl⟩

theorem mem_compAST_of {comp : List BAnchor} {b : BAnchor} (h : b ∈ comp) :
    (b.cls, otRound b.a.x, otRound b.a.y) ∈ compAST comp :=
  mem_map.mpr ⟨b, (mergeSort_perm _ _).mem_iff.mpr h, rfl⟩

/-! ### attachments -/
theorem baseAtts_ok {i : Input} {al : AList} {mg : List String} {km : List (String × String)}
    {att : String × List BAnchor} (h : att ∈ baseAtts i al mg km) :
    att.1 ∉ mg ∧ baseOK i att.1 = true ∧ att.2 ≠ [] ∧ ∀ b ∈ att.2, BOK al km att.1 b none := by
  obtain ⟨e, he, hf⟩ := mem_filterMap.mp h
  try simp only at hf
  split at hf
  · simp at hf
  · rename_i hc
    simp only [Bool.or_eq_true, not_or, Bool.not_eq_true, Bool.not_eq_false'] at hc
    split at hf
    · simp at hf
    · rename_i hne
      simp only [Option.some.injEq] at hf; subst hf
      refine ⟨by simpa using hc.1, by simpa using hc.2, by simpa using hne, ?_⟩
      intro b hb
      obtain ⟨a, ha, hab⟩ := mem_filterMap.mp hb
      split at hab
      · simp at hab
      · rename_i hnum
        cases hcl : classOf km a with
        | none => rw [hcl] at hab; simp at hab
        | some c =>
          rw [hcl] at hab; simp only [Option.map_some, Option.some.injEq] at hab; subst hab
          exact ⟨⟨e.2, he, (mem_plainOf ha).1⟩, hcl, by simpa using hnum, (mem_plainOf ha).2⟩

theorem mem_compOf {km : List (String × String)} {evs : List NA} {n : Nat} {b : BAnchor} (h : b ∈ compOf km evs n) :
    b.a ∈ evs ∧ b.a.number = some n ∧ classOf km b.a = some b.cls := by
  obtain ⟨a, ha, hab⟩ := mem_filterMap.mp h
  cases hcl : classOf km a with
  | none => rw [hcl] at hab; simp at hab
  | some c =>
    rw [hcl] at hab; simp only [Option.map_some, Option.some.injEq] at hab; subst hab
    have ha1 := (takeWhile_sublist _).subset (mem_reverse.mp ha)
    obtain ⟨ha2, ha3⟩ := mem_filter.mp (mem_reverse.mp ha1)
    exact ⟨ha2, by simpa using ha3, hcl⟩

theorem ligAtts_ok {i : Input} {al : AList} {mg : List String} {km : List (String × String)}
    {att : String × List (List BAnchor)} (h : att ∈ ligAtts i al mg km) :
    att.1 ∉ mg ∧ ligOK i att.1 = true ∧
      ∀ j comp, att.2[j]? = some comp → ∀ b ∈ comp, BOK al km att.1 b (some (j + 1)) := by
  obtain ⟨e, he, hf⟩ := mem_filterMap.mp h
  try simp only at hf
  split at hf
  · simp at hf
  · rename_i hc
    simp only [Bool.or_eq_true, not_or, Bool.not_eq_true, Bool.not_eq_false'] at hc
    split at hf
    · simp at hf
    · simp only [Option.some.injEq] at hf; subst hf
      refine ⟨by simpa using hc.1, by simpa using hc.2, ?_⟩
      intro j comp hj b hb
      simp only [getElem?_map] at hj
      cases hr : (range (maxNat (filterMap (fun x => x.number) (ligEvents km (plainOf e.2)))))[j]? with
      | none => rw [hr] at hj; simp at hj
      | some j' =>
        rw [hr] at hj
        simp only [Option.map_some, Option.some.injEq] at hj
        have hj' : j' = j := by
          have := List.getElem?_eq_some_iff.mp hr
          obtain ⟨_, h2⟩ := this
          simpa using h2.symm
        subst hj'; subst hj
        obtain ⟨h1, h2, h3⟩ := mem_compOf hb
        exact ⟨⟨e.2, he, (mem_plainOf (mem_filter.mp h1).1).1⟩, h3, h2, (mem_plainOf (mem_filter.mp h1).1).2⟩

theorem mkmkAtts_ok {al : AList} {mg : List String} {km : List (String × String)}
    {t : String × String × BAnchor} (h : t ∈ mkmkAtts al mg km) :
    t.2.1 ∈ mg ∧ t.1 = t.2.2.a.key ∧ BOK al km t.2.1 t.2.2 none := by
  obtain ⟨e, he, hf⟩ := mem_flatMap.mp h
  try simp only at hf
  split at hf
  · simp at hf
  · rename_i hmg
    obtain ⟨a, ha, hab⟩ := mem_filterMap.mp hf
    split at hab
    · simp at hab
    · rename_i hnum
      cases hcl : classOf km a with
      | none => rw [hcl] at hab; simp at hab
      | some c =>
        rw [hcl] at hab; simp only [Option.map_some, Option.some.injEq] at hab; subst hab
        exact ⟨by simpa using hmg, rfl, ⟨e.2, he, (mem_plainOf ha).1⟩, hcl, by simpa using hnum, (mem_plainOf ha).2⟩

/-! ### grouping keeps sub-lists -/
theorem filterBase_some {grp : List String} {att att' : String × List BAnchor} (h : filterBase grp att = some att') :
    att'.1 = att.1 ∧ att'.2 = att.2.filter (fun b => grp.contains b.cls) ∧ att'.2 ≠ [] := by
  unfold filterBase at h
  simp only at h
  split at h
  · simp at h
  · rename_i hne; simp only [Option.some.injEq] at h; subst h; exact ⟨rfl, rfl, by simpa using hne⟩

theorem filterLig_some {grp : List String} {att att' : String × List (List BAnchor)} (h : filterLig grp att = some att') :
    att'.1 = att.1 ∧ att'.2 = att.2.map (fun comp => comp.filter (fun b => grp.contains b.cls)) := by
  unfold filterLig at h
  simp only at h
  split at h
  · simp at h
  · simp only [Option.some.injEq] at h; subst h; exact ⟨rfl, rfl⟩

/-! ### lookups -/
theorem baseLookups_ok {al : AList} {km : List (String × String)} {feat : String} {inc : String → Bool} {mf : NA → Bool}
    {grouped : List (List (String × List BAnchor))}
    (hg : ∀ atts ∈ grouped, ∀ att ∈ atts, ∀ b ∈ att.2, BOK al km att.1 b none)
    {L : Lookup} (hL : L ∈ baseLookups feat inc mf grouped) :
    L.kind = .base ∧ L.feature = feat ∧ ∀ e ∈ L.entries, EntryOK al km .base e := by
  obtain ⟨atts, hatts, hf⟩ := mem_filterMap.mp hL
  try simp only at hf
  split at hf
  · simp at hf
  · simp only [Option.some.injEq] at hf; subst hf
    refine ⟨rfl, rfl, ?_⟩
    intro e he
    obtain ⟨att, hatt, hfe⟩ := mem_filterMap.mp he
    try simp only at hfe
    split at hfe
    · simp at hfe
    · simp only [Option.some.injEq] at hfe; subst hfe
      intro j comp hj t ht
      cases j with
      | zero =>
        simp only [getElem?_cons_zero, Option.some.injEq] at hj; subst hj
        obtain ⟨b, hb, rfl⟩ := mem_compAST ht
        exact ⟨b, rfl, hg atts hatts att (mem_filter.mp hatt).1 b (mem_filter.mp hb).1⟩
      | succ j => simp at hj

theorem ligLookups_ok {al : AList} {km : List (String × String)} {feat : String} {inc : String → Bool} {mf : NA → Bool}
    {grouped : List (List (String × List (List BAnchor)))}
    (hg : ∀ atts ∈ grouped, ∀ att ∈ atts, ∀ j comp, att.2[j]? = some comp → ∀ b ∈ comp, BOK al km att.1 b (some (j + 1)))
    {L : Lookup} (hL : L ∈ ligLookups feat inc mf grouped) :
    L.kind = .liga ∧ L.feature = feat ∧ ∀ e ∈ L.entries, EntryOK al km .liga e := by
  obtain ⟨atts, hatts, hf⟩ := mem_filterMap.mp hL
  try simp only at hf
  split at hf
  · simp at hf
  · simp only [Option.some.injEq] at hf; subst hf
    refine ⟨rfl, rfl, ?_⟩
    intro e he
    obtain ⟨att, hatt, hfe⟩ := mem_filterMap.mp he
    try simp only at hfe
    split at hfe
    · simp at hfe
    · simp only [Option.some.injEq] at hfe; subst hfe
      intro j comp hj t ht
      simp only [map_map, getElem?_map] at hj
      cases hc : att.2[j]? with
      | none => rw [hc] at hj; simp at hj
      | some comp0 =>
        rw [hc] at hj; simp only [Option.map_some, Option.some.injEq, Function.comp] at hj; subst hj
        obtain ⟨b, hb, rfl⟩ := mem_compAST ht
        exact ⟨b, rfl, hg atts hatts att (mem_filter.mp hatt).1 j comp0 hc b (mem_filter.mp hb).1⟩

theorem mkmkLookups_ok {al : AList} {km : List (String × String)} {feat : String} {inc : String → Bool} {mf : NA → Bool}
    {atts : List (String × String × BAnchor)}
    (hg : ∀ t ∈ atts, BOK al km t.2.1 t.2.2 none)
    {L : Lookup} (hL : L ∈ mkmkLookups feat inc mf atts) :
    L.kind = .mkmk ∧ L.feature = feat ∧ ∀ e ∈ L.entries, EntryOK al km .mkmk e := by
  obtain ⟨k, _, hf⟩ := mem_filterMap.mp hL
  try simp only at hf
  split at hf
  · simp at hf
  · simp only [Option.some.injEq] at hf; subst hf
    refine ⟨rfl, rfl, ?_⟩
    intro e he
    obtain ⟨t, ht, rfl⟩ := mem_map.mp he
    intro j comp hj t' ht'
    cases j with
    | zero =>
      simp only [getElem?_cons_zero, Option.some.injEq] at hj; subst hj
      obtain ⟨b, hb, rfl⟩ := mem_compAST ht'
      simp only [mem_singleton] at hb; subst hb
      exact ⟨t.2.2, rfl, hg t (mem_filter.mp ht).1⟩
    | succ j => simp at hj

end Ufo2ft.C06
