import Ufo2ftModel.Spec.C19
/-!
Property C19: theorems about the model of `ufo2ft/instantiator.py`.

Main results (each for ALL inputs: any number of masters, glyphs, points, pairs, rules):
* `C19_master`            an instance at a master location is that master, whatever the other masters and the scalars are
* `C19_blend`             off the master locations, compatible masters give the weighted sum, number by number
* `C19_holdsGlyph`, `C19_glyph`, `C19_master_glyph`   the declarative glyph predicate (master / blend / otRound) holds of
                          the model's `instance_at` / `generate_glyph_instance`
* `C19_scalars1_master`, `scalars1_sum`, `C19_blend_two`   one-axis master scalars reproduce masters, sum to one; two
                          masters: the linear blend ((p-v)A + vB)/p
* `C19_swap_ref`, `C19_swap_involution`, `C19_swap_unicodes`, `C19_swap_render`, `C19_swap_missing`   rule substitutions
* `C19_glyphset`, `C19_unicodes`           the instance has the default source's names and code points
* `C19_collect_ref`       the masters of a glyph are every source that has it, minus - only if the default source's glyph
                          is not empty - those where it is empty: wherever the default source stands in the source list
* `C19_instance_geometry` the whole `generate_instance`: undoing the substitutions in force, every glyph satisfies `holdsGlyph`
* `C19_kern_blend`, `C19_holdsKern`, `C19_kern_round`   kerning: masters storing the same pairs blend pair by pair
* `C19_pure`              the glyph-mutator cache cannot change any result (history independence)
* `C19_no_default`, `C19_dup_locations`, `fromMasters_error`   rejected inputs

Not proved here (tied by the correspondence run only): `holdsInfo` (six info attributes, OS/2 class fallbacks) of the
model's `generateInfo`; kerning of masters that store different pairs beyond "the result is a dict" (fontMath's group
fallback makes that sum order dependent); master scalars for more than one axis (measured input; `C19_master` and
`C19_blend` hold for any scalars).
-/
namespace Ufo2ft.C19
open List

/-! ### A. the master shortcut -/

theorem foldl_lookup_not_mem {α : Type} (items : List (Loc × α)) (key : Loc) (acc : Option α)
    (h : ∀ e ∈ items, locKey e.1 ≠ key) :
    items.foldl (fun acc e => if locKey e.1 == key then some e.2 else acc) acc = acc := by
  induction items generalizing acc with
  | nil => rfl
  | cons e rest ih =>
    simp only [foldl_cons]
    have hk : (locKey e.1 == key) = false := by simpa using h e (by simp)
    rw [hk]
    simp only [Bool.false_eq_true, if_false]
    exact ih _ (fun e' he' => h e' (by simp [he']))

theorem lookupMaster_of_mem {α : Type} {items : List (Loc × α)}
    (hnd : (items.map (fun e => locKey e.1)).Nodup) {l : Loc} {m : α} (h : (l, m) ∈ items) :
    lookupMaster items (locKey l) = some m := by
  unfold lookupMaster
  generalize (none : Option α) = acc
  induction items generalizing acc with
  | nil => cases h
  | cons e rest ih =>
    simp only [map_cons, nodup_cons] at hnd
    simp only [foldl_cons]
    rcases mem_cons.mp h with he | hr
    · subst he
      simp only [beq_self_eq_true, if_true]
      apply foldl_lookup_not_mem
      intro e' he' heq
      exact hnd.1 (by rw [← heq]; exact mem_map_of_mem (f := fun e => locKey e.1) he')
    · exact ih hnd.2 hr _

theorem locationsOk_nodup {α : Type} {items : List (Loc × α)} (h : locationsOk (items.map (·.1)) = true) :
    (items.map (fun e => locKey e.1)).Nodup := by
  unfold locationsOk at h
  simp only [Bool.and_eq_true, decide_eq_true_eq, map_map] at h
  exact h.1

/-- **C19_master**: at the location of a master, `instance_at` returns that master - for every kind of fontMath
    object, any arithmetic `ops` (none is performed), any scalars, and whatever the other masters look like
    (no compatibility is needed).  Hypothesis: the Variator could be built (distinct master locations). -/
theorem C19_master {α : Type} (ops : Ops α) (items : List (Loc × α))
    (hok : locationsOk (items.map (·.1)) = true) {l : Loc} {m : α} (h : (l, m) ∈ items) (scalars : List Q) :
    instanceAt ops ⟨items⟩ l scalars = .ok (some m) := by
  unfold instanceAt
  simp only [lookupMaster_of_mem (locationsOk_nodup hok) h]

theorem fromMasters_ok {α : Type} {items : List (Loc × α)} {v : Variator α} (h : fromMasters items = .ok v) :
    v.items = items ∧ locationsOk (items.map (·.1)) = true := by
  unfold fromMasters at h
  split at h
  · rename_i hl
    injection h with h; subst h; exact ⟨rfl, hl⟩
  · cases h

/-- two masters at one location (or none at the origin): the Variator is refused -/
theorem fromMasters_error {α : Type} {items : List (Loc × α)} (h : locationsOk (items.map (·.1)) = false) :
    fromMasters items = .error .instantiator := by
  unfold fromMasters; simp [h]

theorem masterAt_some {α : Type} {items : List (Loc × α)} {nl : Loc} {m : α} (h : masterAt items nl = some m) :
    ∃ l, (l, m) ∈ items ∧ locKey l = locKey nl := by
  unfold masterAt at h
  cases hf : items.find? (fun e => locKey e.1 == locKey nl) with
  | none => simp [hf] at h
  | some e =>
    simp only [hf, Option.map_some, Option.some.injEq] at h
    refine ⟨e.1, ?_, ?_⟩
    · have := mem_of_find?_eq_some hf
      rw [← h]; exact this
    · have := find?_some hf
      simpa using this

theorem masterAt_none {α : Type} {items : List (Loc × α)} {nl : Loc} (h : masterAt items nl = none) :
    ∀ e ∈ items, locKey e.1 ≠ locKey nl := by
  unfold masterAt at h
  simp only [Option.map_eq_none_iff, find?_eq_none] at h
  intro e he
  simpa using h e he

theorem instanceAt_hit {α : Type} (ops : Ops α) {items : List (Loc × α)}
    (hok : locationsOk (items.map (·.1)) = true) {nl : Loc} {m : α} (h : masterAt items nl = some m) (sc : List Q) :
    instanceAt ops ⟨items⟩ nl sc = .ok (some m) := by
  obtain ⟨l, hl, hk⟩ := masterAt_some h
  have := C19_master ops items hok hl sc
  unfold instanceAt at this ⊢
  rw [← hk]; exact this

theorem instanceAt_miss {α : Type} (ops : Ops α) {items : List (Loc × α)} {nl : Loc}
    (h : masterAt items nl = none) (sc : List Q) :
    instanceAt ops ⟨items⟩ nl sc = interpLoop ops none ((items.map (·.2)).zip sc) := by
  unfold instanceAt lookupMaster
  rw [foldl_lookup_not_mem _ _ _ (masterAt_none h)]

/-! ### B. glyph arithmetic on compatible glyphs is arithmetic on their numbers -/

theorem flatPts_cons (p : Pt) (c : List Pt) : flatPts (p :: c) = p.x :: p.y :: flatPts c := by
  simp [flatPts]

theorem flatPts_length (c : List Pt) : (flatPts c).length = 2 * c.length := by
  induction c with
  | nil => rfl
  | cons p c ih => rw [flatPts_cons]; simp only [length_cons, ih]; omega

theorem addPts_ok : ∀ (a b : List Pt), a.map (·.seg) = b.map (·.seg) →
    ∃ c, addPts a b = .ok c ∧ c.map (·.seg) = a.map (·.seg) ∧
      flatPts c = zipWith (· + ·) (flatPts a) (flatPts b)
  | [], b, _ => ⟨[], by simp [addPts], rfl, by simp [flatPts]⟩
  | p :: a, [], h => by simp at h
  | p :: a, q :: b, h => by
    simp only [map_cons, cons.injEq] at h
    obtain ⟨c, hc, hs, hf⟩ := addPts_ok a b h.2
    refine ⟨ptAdd p q :: c, by simp [addPts, hc], by simp [hs, ptAdd], ?_⟩
    simp [flatPts_cons, hf, ptAdd]

theorem segs_length {a b : List Pt} (h : a.map (·.seg) = b.map (·.seg)) : a.length = b.length := by
  have := congrArg length h; simpa using this

theorem addContours_ok : ∀ (a b : List (List Pt)), a.map (fun c => c.map (·.seg)) = b.map (fun c => c.map (·.seg)) →
    ∃ c, addContours a b = .ok c ∧ c.map (fun c => c.map (·.seg)) = a.map (fun c => c.map (·.seg)) ∧
      c.flatMap flatPts = zipWith (· + ·) (a.flatMap flatPts) (b.flatMap flatPts)
  | [], b, _ => ⟨[], by simp [addContours], rfl, by simp⟩
  | p :: a, [], h => by simp at h
  | p :: a, q :: b, h => by
    simp only [map_cons, cons.injEq] at h
    obtain ⟨c, hc, hs, hf⟩ := addContours_ok a b h.2
    obtain ⟨d, hd, hds, hdf⟩ := addPts_ok p q h.1
    refine ⟨d :: c, by simp [addContours, hc, hd], by simp [hs, hds], ?_⟩
    simp only [flatMap_cons, hf, hdf]
    rw [zipWith_append]
    rw [flatPts_length, flatPts_length, segs_length h.1]

theorem pairComps_eq_zip : ∀ (a b : List Comp), a.map (·.base) = b.map (·.base) → pairComps a b = a.zip b
  | [], b, _ => by simp [pairComps]
  | p :: a, [], h => by simp at h
  | p :: a, q :: b, h => by
    simp only [map_cons, cons.injEq] at h
    have hq : (q.base == p.base) = true := by simp [h.1]
    simp only [pairComps, find?_cons, hq, eraseP_cons, cond_true, zip_cons_cons]
    rw [pairComps_eq_zip a b h.2]

theorem dedupAux_of_nodup : ∀ (l seen : List String), l.Nodup → (∀ x ∈ l, x ∉ seen) → dedupAux l seen = l
  | [], _, _, _ => rfl
  | a :: l, seen, hnd, hdis => by
    simp only [nodup_cons] at hnd
    have ha : seen.contains a = false := by simpa using hdis a (by simp)
    simp only [dedupAux, ha, Bool.false_eq_true, if_false, cons.injEq, true_and]
    apply dedupAux_of_nodup l (a :: seen) hnd.2
    intro x hx
    simp only [mem_cons, not_or]
    exact ⟨fun e => hnd.1 (e ▸ hx), hdis x (by simp [hx])⟩

theorem filter_name_none {l : List Anchor} {n : String} (h : n ∉ l.map (·.name)) :
    l.filter (fun a => a.name == n) = [] := by
  simp only [filter_eq_nil_iff, beq_iff_eq]
  intro a ha e
  exact h (e ▸ mem_map_of_mem (f := (·.name)) ha)

theorem flatMap_congr_mem {α β : Type} (l : List α) (f g : α → List β) (h : ∀ a ∈ l, f a = g a) :
    l.flatMap f = l.flatMap g := by
  induction l with
  | nil => rfl
  | cons a l ih => simp only [flatMap_cons]; rw [h a (by simp), ih (fun x hx => h x (by simp [hx]))]

theorem pairAnchors_eq_zip : ∀ (a b : List Anchor), a.map (·.name) = b.map (·.name) → (a.map (·.name)).Nodup →
    pairAnchors a b = a.zip b := by
  intro a b h hnd
  unfold pairAnchors dedupFirst
  rw [dedupAux_of_nodup _ _ hnd (by simp)]
  induction a generalizing b with
  | nil => simp
  | cons x l ih =>
    cases b with
    | nil => simp at h
    | cons y r =>
      simp only [map_cons, cons.injEq] at h
      simp only [map_cons, nodup_cons] at hnd
      have hy : (y.name == x.name) = true := by simp [h.1]
      have hr : x.name ∉ r.map (·.name) := h.2 ▸ hnd.1
      simp only [map_cons, flatMap_cons, filter_cons, beq_self_eq_true, if_true, hy,
        filter_name_none hnd.1, filter_name_none hr, zip_cons_cons, zip_nil_right, singleton_append, cons.injEq, true_and]
      rw [← ih r h.2 hnd.2]
      apply flatMap_congr_mem
      intro n hn
      have hx : (x.name == n) = false := by
        simp only [beq_eq_false_iff_ne, ne_eq]; intro e; exact hnd.1 (e ▸ hn)
      have hy' : (y.name == n) = false := by rw [← h.1]; exact hx
      simp [hx, hy']

theorem flatComp_length (c : Comp) : (flatComp c).length = 6 := rfl
theorem flatAnchor_length (c : Anchor) : (flatAnchor c).length = 2 := rfl

theorem flatMap_const_length {α : Type} (f : α → List Q) (k : Nat) (hk : ∀ a, (f a).length = k) (l : List α) :
    (l.flatMap f).length = k * l.length := by
  induction l with
  | nil => simp
  | cons a l ih => simp only [flatMap_cons, length_append, hk, ih, length_cons]; rw [Nat.mul_succ]; omega

theorem comps_zip_flat : ∀ (a b : List Comp), a.length = b.length →
    ((a.zip b).map (fun p => compAdd p.1 p.2)).flatMap flatComp =
      zipWith (· + ·) (a.flatMap flatComp) (b.flatMap flatComp)
  | [], b, _ => by simp
  | p :: a, [], h => by simp at h
  | p :: a, q :: b, h => by
    simp only [length_cons, Nat.add_right_cancel_iff] at h
    simp only [zip_cons_cons, map_cons, flatMap_cons, comps_zip_flat a b h]
    rw [zipWith_append (by rfl)]
    simp [flatComp, compAdd]

theorem anchors_zip_flat : ∀ (a b : List Anchor), a.length = b.length →
    ((a.zip b).map (fun p => anchorAdd p.1 p.2)).flatMap flatAnchor =
      zipWith (· + ·) (a.flatMap flatAnchor) (b.flatMap flatAnchor)
  | [], b, _ => by simp
  | p :: a, [], h => by simp at h
  | p :: a, q :: b, h => by
    simp only [length_cons, Nat.add_right_cancel_iff] at h
    simp only [zip_cons_cons, map_cons, flatMap_cons, anchors_zip_flat a b h]
    rw [zipWith_append (by rfl)]
    simp [flatAnchor, anchorAdd]

theorem map_eq_length {α β : Type} {f : α → β} {a b : List α} (h : a.map f = b.map f) : a.length = b.length := by
  have := congrArg length h; simpa using this

theorem zip_map_fst_of_length {α β γ : Type} (f : α → γ) (g : α × β → α) (hg : ∀ p, f (g p) = f p.1) :
    ∀ (a : List α) (b : List β), a.length = b.length → ((a.zip b).map g).map f = a.map f
  | [], b, _ => by simp
  | p :: a, [], h => by simp at h
  | p :: a, q :: b, h => by
    simp only [length_cons, Nat.add_right_cancel_iff] at h
    simp [hg, zip_map_fst_of_length f g hg a b h]

/-- `MathGlyph.__add__` on two glyphs of the same shape: succeeds, keeps the shape, adds number by number -/
theorem gadd_ok (a b : MGlyph) (hs : shapeOf a = shapeOf b) (hnd : (a.anchors.map (·.name)).Nodup) :
    ∃ c, gadd a b = .ok c ∧ shapeOf c = shapeOf a ∧ flat c = zipWith (· + ·) (flat a) (flat b) := by
  simp only [shapeOf, Shape.mk.injEq] at hs
  obtain ⟨hc, hk, ha⟩ := hs
  obtain ⟨cs, hcs, hcseg, hcflat⟩ := addContours_ok a.contours b.contours hc
  refine ⟨{ width := a.width + b.width, height := a.height + b.height, contours := cs,
             comps := (pairComps a.comps b.comps).map (fun p => compAdd p.1 p.2),
             anchors := (pairAnchors a.anchors b.anchors).map (fun p => anchorAdd p.1 p.2) },
          by simp only [gadd, hcs], ?_, ?_⟩
  · simp only [shapeOf, Shape.mk.injEq]
    refine ⟨hcseg, ?_, ?_⟩
    · rw [pairComps_eq_zip _ _ hk]
      exact zip_map_fst_of_length (·.base) (fun p => compAdd p.1 p.2) (by intro p; rfl) _ _ (map_eq_length hk)
    · rw [pairAnchors_eq_zip _ _ ha hnd]
      exact zip_map_fst_of_length (·.name) (fun p => anchorAdd p.1 p.2) (by intro p; rfl) _ _ (map_eq_length ha)
  · simp only [flat]
    rw [pairComps_eq_zip _ _ hk, pairAnchors_eq_zip _ _ ha hnd, hcflat,
      comps_zip_flat _ _ (map_eq_length hk), anchors_zip_flat _ _ (map_eq_length ha)]
    have l1 : (a.contours.flatMap flatPts).length = (b.contours.flatMap flatPts).length := by
      have : ∀ (x y : List (List Pt)), x.map (fun c => c.map (·.seg)) = y.map (fun c => c.map (·.seg)) →
          (x.flatMap flatPts).length = (y.flatMap flatPts).length := by
        intro x
        induction x with
        | nil => intro y h; cases y <;> simp_all
        | cons p x ih =>
          intro y h
          cases y with
          | nil => simp at h
          | cons q y =>
            simp only [map_cons, cons.injEq] at h
            simp only [flatMap_cons, length_append, ih y h.2, flatPts_length, segs_length h.1]
      exact this _ _ hc
    have l2 : (a.comps.flatMap flatComp).length = (b.comps.flatMap flatComp).length := by
      rw [flatMap_const_length _ 6 flatComp_length, flatMap_const_length _ 6 flatComp_length, map_eq_length hk]
    rw [zipWith_append (by rfl), zipWith_append l1, zipWith_append l2]
    rfl

theorem shapeOf_gmul (a : MGlyph) (s : Q) : shapeOf (gmul a s) = shapeOf a := by
  simp [shapeOf, gmul, ptMul, compMul, anchorMul, Function.comp_def]

theorem flat_gmul (a : MGlyph) (s : Q) : flat (gmul a s) = (flat a).map (· * s) := by
  simp [flat, gmul, flatPts, flatComp, flatAnchor, ptMul, compMul, anchorMul, flatMap_map, map_flatMap]

theorem anchors_gmul (a : MGlyph) (s : Q) : (gmul a s).anchors.map (·.name) = a.anchors.map (·.name) := by
  simp [gmul, anchorMul, Function.comp_def]

/-! ### C. interpolation = weighted sum, number by number -/

/-- masters with scalar zero play no role at all -/
theorem interpLoop_filter {α : Type} (ops : Ops α) (acc : Option α) (l : List (α × Q)) :
    interpLoop ops acc l = interpLoop ops acc (l.filter (fun p => p.2 != 0)) := by
  induction l generalizing acc with
  | nil => rfl
  | cons p l ih =>
    obtain ⟨m, s⟩ := p
    by_cases hs : s = 0
    · subst hs
      simp only [interpLoop, beq_self_eq_true, if_true, filter_cons, bne_self_eq_false, Bool.false_eq_true, if_false]
      exact ih acc
    · have h1 : (s == 0) = false := by simpa using hs
      have h2 : (s != 0) = true := by simpa using hs
      simp only [filter_cons, h2, if_true]
      unfold interpLoop
      simp only [h1, Bool.false_eq_true, if_false]
      cases acc with
      | none => exact ih _
      | some v =>
        show (match ops.add v (ops.mul m s) with
              | .ok v' => interpLoop ops (some v') l
              | .error e => .error e) =
             (match ops.add v (ops.mul m s) with
              | .ok v' => interpLoop ops (some v') (filter (fun p => p.snd != 0) l)
              | .error e => .error e)
        cases ops.add v (ops.mul m s) with
        | ok v' => exact ih _
        | error e => rfl

theorem shape_anchors {a b : MGlyph} (h : shapeOf a = shapeOf b) :
    a.anchors.map (·.name) = b.anchors.map (·.name) := by
  simp only [shapeOf, Shape.mk.injEq] at h; exact h.2.2

theorem interpLoop_glyph_some (v : MGlyph) (l : List (MGlyph × Q)) (hnz : ∀ p ∈ l, p.2 ≠ 0)
    (hsh : ∀ p ∈ l, shapeOf p.1 = shapeOf v) (hnd : (v.anchors.map (·.name)).Nodup) :
    ∃ r, interpLoop glyphOps (some v) l = .ok (some r) ∧ shapeOf r = shapeOf v ∧
      flat r = l.foldl (fun acc p => zipWith (· + ·) acc ((flat p.1).map (· * p.2))) (flat v) := by
  induction l generalizing v with
  | nil => exact ⟨v, rfl, rfl, rfl⟩
  | cons p l ih =>
    obtain ⟨m, s⟩ := p
    have h1 : (s == 0) = false := by simpa using hnz (m, s) (by simp)
    have hm : shapeOf m = shapeOf v := hsh (m, s) (by simp)
    obtain ⟨c, hc, hcs, hcf⟩ := gadd_ok v (gmul m s) (by rw [shapeOf_gmul, hm]) hnd
    have hnd' : (c.anchors.map (·.name)).Nodup := by rw [shape_anchors hcs]; exact hnd
    obtain ⟨r, hr, hrs, hrf⟩ := ih c (fun p hp => hnz p (by simp [hp]))
      (fun p hp => by rw [hcs]; exact hsh p (by simp [hp])) hnd'
    refine ⟨r, ?_, by rw [hrs, hcs], ?_⟩
    · unfold interpLoop
      simp only [h1, Bool.false_eq_true, if_false]
      have : glyphOps.add v (glyphOps.mul m s) = .ok c := hc
      rw [this]; exact hr
    · rw [hrf, hcf, flat_gmul]; rfl

theorem foldl_vadd_length (base : List Q) (vs : List (List Q)) (hlen : ∀ v ∈ vs, v.length = base.length) :
    (vs.foldl (fun acc v => zipWith (· + ·) acc v) base).length = base.length := by
  induction vs generalizing base with
  | nil => rfl
  | cons v vs ih =>
    simp only [foldl_cons]
    have hv := hlen v (by simp)
    have hz : (zipWith (fun x1 x2 => x1 + x2) base v).length = base.length := by simp [hv]
    rw [ih _ (fun w hw => by rw [hz]; exact hlen w (by simp [hw])), hz]

theorem foldl_vadd_getElem? (base : List Q) (vs : List (List Q)) (hlen : ∀ v ∈ vs, v.length = base.length)
    (j : Nat) (hj : j < base.length) :
    (vs.foldl (fun acc v => zipWith (· + ·) acc v) base)[j]? = some (base[j] + (vs.map (fun v => v.getD j 0)).sum) := by
  induction vs generalizing base with
  | nil => simp [hj, Rat.add_zero]
  | cons v vs ih =>
    simp only [foldl_cons, map_cons, sum_cons]
    have hv := hlen v (by simp)
    have hz : (zipWith (fun x1 x2 => x1 + x2) base v).length = base.length := by simp [hv]
    rw [ih _ (fun w hw => by rw [hz]; exact hlen w (by simp [hw])) (by rw [hz]; exact hj)]
    have hjv : j < v.length := by rw [hv]; exact hj
    simp only [getElem_zipWith, getD_eq_getElem?_getD, getElem?_eq_getElem hjv, Option.getD_some, Option.some.injEq]
    rw [Rat.add_assoc]

theorem shape_flat_length {a b : MGlyph} (h : shapeOf a = shapeOf b) : (flat a).length = (flat b).length := by
  simp only [shapeOf, Shape.mk.injEq] at h
  obtain ⟨hc, hk, ha⟩ := h
  simp only [flat, length_append, length_cons, length_nil]
  rw [flatMap_const_length _ 6 flatComp_length, flatMap_const_length _ 6 flatComp_length,
    flatMap_const_length _ 2 flatAnchor_length, flatMap_const_length _ 2 flatAnchor_length,
    map_eq_length hk, map_eq_length ha]
  have : ∀ (x y : List (List Pt)), x.map (fun c => c.map (·.seg)) = y.map (fun c => c.map (·.seg)) →
      (x.flatMap flatPts).length = (y.flatMap flatPts).length := by
    intro x
    induction x with
    | nil => intro y h; cases y <;> simp_all
    | cons p x ih =>
      intro y h
      cases y with
      | nil => simp at h
      | cons q y =>
        simp only [map_cons, cons.injEq] at h
        simp only [flatMap_cons, length_append, ih y h.2, flatPts_length, segs_length h.1]
  rw [this _ _ hc]

theorem getD_map_mul (l : List Q) (s : Q) (j : Nat) : (l.map (· * s)).getD j 0 = s * l.getD j 0 := by
  simp only [getD_eq_getElem?_getD, getElem?_map]
  cases l[j]? with
  | none => simp
  | some v => simp [Rat.mul_comm]

/-- **C19_blend**: off the master locations, the instance of compatible masters (those with a non-zero scalar)
    exists, has the masters' shape, and EVERY number of it - coordinate, advance, anchor position, component matrix
    entry - is the weighted sum `Σ sᵢ · (that number in master i)`; for any scalars whatsoever. -/
theorem C19_blend (m0 : MGlyph) (s0 : Q) (rest : List (MGlyph × Q))
    (hnz : ∀ p ∈ (m0, s0) :: rest, p.2 ≠ 0) (hcompat : compatible (m0 :: rest.map (·.1)) = true) :
    ∃ r, interpLoop glyphOps none ((m0, s0) :: rest) = .ok (some r) ∧ shapeOf r = shapeOf m0 ∧
      flat r = blendNums (flat m0).length (s0 :: rest.map (·.2)) (flat m0 :: rest.map (fun c => flat c.1)) := by
  simp only [compatible, Bool.and_eq_true, all_eq_true, decide_eq_true_eq, mem_map, beq_iff_eq] at hcompat
  obtain ⟨hsh, hnd⟩ := hcompat
  have h1 : (s0 == 0) = false := by simpa using hnz (m0, s0) (by simp)
  obtain ⟨r, hr, hrs, hrf⟩ := interpLoop_glyph_some (gmul m0 s0) rest (fun p hp => hnz p (by simp [hp]))
    (fun p hp => by rw [shapeOf_gmul]; exact hsh p.1 ⟨p, hp, rfl⟩) (by rw [anchors_gmul]; exact hnd)
  refine ⟨r, ?_, by rw [hrs, shapeOf_gmul], ?_⟩
  · unfold interpLoop
    simp only [h1, Bool.false_eq_true, if_false]
    exact hr
  · rw [hrf]
    have hfold : rest.foldl (fun acc p => zipWith (· + ·) acc ((flat p.1).map (· * p.2))) (flat (gmul m0 s0)) =
        (rest.map (fun p => (flat p.1).map (· * p.2))).foldl (fun acc v => zipWith (· + ·) acc v) (flat (gmul m0 s0)) := by
      rw [foldl_map]
    rw [hfold]
    have hbase : (flat (gmul m0 s0)).length = (flat m0).length := by rw [flat_gmul]; simp
    have hlen : ∀ v ∈ rest.map (fun p => (flat p.1).map (· * p.2)), v.length = (flat (gmul m0 s0)).length := by
      intro v hv
      obtain ⟨p, hp, rfl⟩ := mem_map.mp hv
      rw [hbase, length_map]
      exact shape_flat_length (hsh p.1 ⟨p, hp, rfl⟩)
    apply ext_getElem?
    intro j
    by_cases hj : j < (flat m0).length
    · rw [foldl_vadd_getElem? _ _ hlen j (by rw [hbase]; exact hj)]
      simp only [blendNums, getElem?_map, getElem?_range hj, Option.map_some, Option.some.injEq, wsumAt,
        zip_cons_cons, map_cons, sum_cons]
      congr 1
      · simp only [flat_gmul, getElem_map, getD_eq_getElem?_getD, getElem?_eq_getElem hj, Option.getD_some]
        exact Rat.mul_comm _ _
      · clear hlen hfold hrf hr hnz hsh
        induction rest with
        | nil => rfl
        | cons p rest ih => simp only [map_cons, sum_cons, zip_cons_cons, ih, getD_map_mul]
    · have hl := foldl_vadd_length _ _ hlen
      rw [getElem?_eq_none (by rw [hl, hbase]; omega), getElem?_eq_none (by simp [blendNums]; omega)]

/-! ### D. rounding, and the declarative glyph predicate holds of the model -/

theorem close_self (a : Q) : close 0 a a = true := by
  simp [close, absQ, Rat.sub_self]

theorem zip_self_all_close : ∀ (l : List Q), ((l.zip l).all (fun p => close 0 p.1 p.2)) = true
  | [] => rfl
  | a :: l => by simp [close_self, zip_self_all_close l]

theorem holdsNums_of_eq {m0 r : MGlyph} {expected : List Q} (hs : shapeOf r = shapeOf m0) (hf : flat r = expected) :
    holdsNums 0 m0 expected r = true := by
  simp [holdsNums, hs, hf, zip_self_all_close]

theorem shapeOf_ground (g : MGlyph) : shapeOf (ground g) = shapeOf g := by
  simp [shapeOf, ground, Function.comp_def]

def rmask (b : Bool) (v : Q) : Q := if b then rnd v else v

theorem flatPts_round : ∀ (c : List Pt),
    flatPts (c.map (fun p => { p with x := rnd p.x, y := rnd p.y })) =
      zipWith rmask (c.flatMap (fun _ => [true, true])) (flatPts c)
  | [] => rfl
  | p :: c => by simp [flatPts_cons, flatPts_round c, rmask]

theorem mask_pts_length (c : List Pt) : (c.flatMap (fun _ => [true, true])).length = (flatPts c).length := by
  induction c with
  | nil => rfl
  | cons p c ih => simp [flatPts_cons, ih]

theorem flat_ground (g : MGlyph) : flat (ground g) = zipWith rmask (roundMask g) (flat g) := by
  simp only [flat, ground, roundMask]
  have hc : ∀ (cs : List (List Pt)),
      (cs.map (fun c => c.map (fun p => { p with x := rnd p.x, y := rnd p.y }))).flatMap flatPts =
        zipWith rmask (cs.flatMap (fun c => c.flatMap (fun _ => [true, true]))) (cs.flatMap flatPts) ∧
      (cs.flatMap (fun c => c.flatMap (fun _ => [true, true]))).length = (cs.flatMap flatPts).length := by
    intro cs
    induction cs with
    | nil => exact ⟨rfl, rfl⟩
    | cons c cs ih =>
      simp only [map_cons, flatMap_cons, ih.1, flatPts_round, length_append, ih.2, mask_pts_length, and_true]
      rw [zipWith_append (mask_pts_length c)]
  have hk : ∀ (ks : List Comp),
      (ks.map (fun c => { c with dx := rnd c.dx, dy := rnd c.dy })).flatMap flatComp =
        zipWith rmask (ks.flatMap (fun _ => [false, false, false, false, true, true])) (ks.flatMap flatComp) ∧
      (ks.flatMap (fun _ => [false, false, false, false, true, true])).length = (ks.flatMap flatComp).length := by
    intro ks
    induction ks with
    | nil => exact ⟨rfl, rfl⟩
    | cons c ks ih =>
      simp only [map_cons, flatMap_cons, ih.1, length_append, ih.2]
      rw [zipWith_append (by rfl)]
      simp [flatComp, rmask]
  have ha : ∀ (as : List Anchor),
      (as.map (fun c => { c with x := rnd c.x, y := rnd c.y })).flatMap flatAnchor =
        zipWith rmask (as.flatMap (fun _ => [true, true])) (as.flatMap flatAnchor) := by
    intro as
    induction as with
    | nil => rfl
    | cons c as ih =>
      simp only [map_cons, flatMap_cons, ih]
      rw [zipWith_append (by rfl)]
      simp [flatAnchor, rmask]
  rw [zipWith_append (by rfl), zipWith_append (hc g.contours).2, zipWith_append (hk g.comps).2,
    (hc g.contours).1, (hk g.comps).1, ha g.anchors]
  simp [rmask]

theorem roundMask_of_shape {a b : MGlyph} (h : shapeOf a = shapeOf b) : roundMask a = roundMask b := by
  simp only [shapeOf, Shape.mk.injEq] at h
  obtain ⟨hc, hk, ha⟩ := h
  have e1 : ∀ (cs : List (List Pt)), cs.flatMap (fun c => c.flatMap (fun _ => [true, true])) =
      (cs.map (fun c => c.map (·.seg))).flatMap (fun c => c.flatMap (fun _ => [true, true])) := by
    intro cs; simp [flatMap_map]
  have e2 : ∀ (ks : List Comp), ks.flatMap (fun _ => [false, false, false, false, true, true]) =
      (ks.map (·.base)).flatMap (fun _ => [false, false, false, false, true, true]) := by
    intro ks; simp [flatMap_map]
  have e3 : ∀ (as : List Anchor), as.flatMap (fun _ => [true, true]) =
      (as.map (·.name)).flatMap (fun _ => [true, true]) := by
    intro as; simp [flatMap_map]
  simp only [roundMask]
  rw [e1 a.contours, e1 b.contours, e2 a.comps, e2 b.comps, e3 a.anchors, e3 b.anchors, hc, hk, ha]

theorem applyRound_eq (round : Bool) (mask : List Bool) (nums : List Q) :
    applyRound round mask nums = if round then zipWith rmask mask nums else nums := rfl

/-- the instance glyph after `round_geometry` satisfies the predicate when the unrounded one has shape/numbers -/
theorem holdsNums_rounded (round : Bool) {m0 r : MGlyph} {nums : List Q}
    (hs : shapeOf r = shapeOf m0) (hf : flat r = nums) :
    holdsNums 0 m0 (applyRound round (roundMask m0) nums) (if round then ground r else r) = true := by
  cases round with
  | false => exact holdsNums_of_eq hs hf
  | true =>
    apply holdsNums_of_eq
    · simp only [if_true]; rw [shapeOf_ground, hs]
    · simp only [if_true, applyRound_eq]; rw [flat_ground, roundMask_of_shape hs, hf]

theorem contributing_nz {α : Type} {ms : List α} {ws : List Q} {p : α × Q} (h : p ∈ contributing ms ws) : p.2 ≠ 0 := by
  unfold contributing at h
  have := (mem_filter.mp h).2
  simpa using this

/-- **C19_holdsGlyph**: whatever glyph the model's `instance_at` produces (then rounds iff `round_geometry`) satisfies the
    declarative predicate `holdsGlyph`: the master itself at a master location; the weighted sum of the masters'
    numbers, rounded with `otRound` where geometry rounding applies, for compatible masters elsewhere. -/
theorem C19_holdsGlyph (round : Bool) (items : List (Loc × MGlyph)) (ws : List Q) (nl : Loc) (g : MGlyph)
    (hok : locationsOk (items.map (·.1)) = true)
    (h : instanceAt glyphOps ⟨items⟩ nl ws = .ok (some g)) :
    holdsGlyph 0 round items ws nl (if round then ground g else g) = true := by
  unfold holdsGlyph
  cases hm : masterAt items nl with
  | some m =>
    rw [instanceAt_hit glyphOps hok hm ws] at h
    injection h with h; injection h with h; subst h
    exact holdsNums_rounded round rfl rfl
  | none =>
    rw [instanceAt_miss glyphOps hm ws, interpLoop_filter] at h
    simp only []
    have hcs : contributing (items.map (·.2)) ws = ((items.map (·.2)).zip ws).filter (fun p => p.2 != 0) := rfl
    rw [hcs]
    cases hc : ((items.map (·.2)).zip ws).filter (fun p => p.2 != 0) with
    | nil => rfl
    | cons p rest =>
      obtain ⟨m0, s0⟩ := p
      simp only []
      split
      · rename_i hcompat
        rw [hc] at h
        have hnz : ∀ p ∈ (m0, s0) :: rest, p.2 ≠ 0 := by
          intro p hp; rw [← hc] at hp
          have := (mem_filter.mp hp).2
          simpa using this
        obtain ⟨r, hr, hrs, hrf⟩ := C19_blend m0 s0 rest hnz (by simpa using hcompat)
        rw [hr] at h
        injection h with h; injection h with h; subst h
        have h0 : (if (round && decide ((0 : Q) < 0)) = true then (1 : Q) else 0) = 0 := by simp
        rw [h0]
        have := holdsNums_rounded round hrs hrf
        simpa using this
      · rfl

/-! ### E. the one-axis variation model: master reproduction, partition of unity, the two-master blend -/

theorem nbrBelow_foldl_ge (ps : List Q) (p acc : Q) :
    acc ≤ ps.foldl (fun acc q => if 0 ≤ q && q < p && acc < q then q else acc) acc := by
  induction ps generalizing acc with
  | nil => exact Rat.le_refl
  | cons q ps ih =>
    simp only [foldl_cons]
    split
    · rename_i h
      simp only [Bool.and_eq_true, decide_eq_true_eq] at h
      have := ih q
      grind
    · exact ih acc

theorem nbrBelow_foldl_mem (ps : List Q) (p acc : Q) {q : Q} (hq : q ∈ ps) (h0 : 0 ≤ q) (hp : q < p) :
    q ≤ ps.foldl (fun acc q => if 0 ≤ q && q < p && acc < q then q else acc) acc := by
  induction ps generalizing acc with
  | nil => cases hq
  | cons x ps ih =>
    simp only [foldl_cons]
    rcases mem_cons.mp hq with he | hr
    · subst he
      split
      · exact nbrBelow_foldl_ge ps p q
      · rename_i h
        simp only [Bool.and_eq_true, decide_eq_true_eq, not_and] at h
        have := nbrBelow_foldl_ge ps p acc
        have := h ⟨h0, hp⟩
        grind
    · exact ih _ hr

theorem nbrAbove_foldl_le (ps : List Q) (p acc : Q) :
    ps.foldl (fun acc q => if p < q && q < acc then q else acc) acc ≤ acc := by
  induction ps generalizing acc with
  | nil => exact Rat.le_refl
  | cons q ps ih =>
    simp only [foldl_cons]
    split
    · rename_i h
      simp only [Bool.and_eq_true, decide_eq_true_eq] at h
      have := ih q
      grind
    · exact ih acc

theorem nbrAbove_foldl_mem (ps : List Q) (p acc : Q) {q : Q} (hq : q ∈ ps) (hp : p < q) :
    ps.foldl (fun acc q => if p < q && q < acc then q else acc) acc ≤ q := by
  induction ps generalizing acc with
  | nil => cases hq
  | cons x ps ih =>
    simp only [foldl_cons]
    rcases mem_cons.mp hq with he | hr
    · subst he
      split
      · exact nbrAbove_foldl_le ps p q
      · rename_i h
        simp only [Bool.and_eq_true, decide_eq_true_eq, not_and] at h
        have := nbrAbove_foldl_le ps p acc
        have := h hp
        grind
    · exact ih _ hr

theorem tent_self (lo pk hi : Q) : tent lo pk hi pk = 1 := by simp [tent]

theorem tent_outside {lo pk hi v : Q} (hne : v ≠ pk) (h : v ≤ lo ∨ hi ≤ v) : tent lo pk hi v = 0 := by
  unfold tent
  have h1 : (v == pk) = false := by simpa using hne
  simp only [h1, Bool.false_eq_true, if_false]
  have : (decide (v ≤ lo) || decide (hi ≤ v)) = true := by simpa using h
  simp [this]

/-- a non-default master's scalar vanishes at every other master position -/
theorem hat_other (ps : List Q) {p q : Q} (hp : p ≠ 0) (hq : q ∈ ps) (hne : q ≠ p) : hat ps p q = 0 := by
  unfold hat
  split
  · rename_i hpos
    apply tent_outside hne
    by_cases hlt : q < p
    · left
      by_cases h0 : 0 ≤ q
      · exact nbrBelow_foldl_mem ps p 0 hq h0 hlt
      · have := nbrBelow_foldl_ge ps p 0
        unfold nbrBelow; grind
    · right
      exact nbrAbove_foldl_mem ps p 1 hq (by grind)
  · rename_i hpos
    have hneg : 0 < -p := by grind
    have hq' : -q ∈ ps.map (fun q => -q) := mem_map_of_mem (f := fun q => -q) hq
    apply tent_outside (by grind)
    by_cases hlt : -q < -p
    · left
      by_cases h0 : 0 ≤ -q
      · exact nbrBelow_foldl_mem _ (-p) 0 hq' h0 hlt
      · have := nbrBelow_foldl_ge (ps.map (fun q => -q)) (-p) 0
        unfold nbrBelow; grind
    · right
      exact nbrAbove_foldl_mem _ (-p) 1 hq' (by grind)

theorem hat_self (ps : List Q) (p : Q) : hat ps p p = 1 := by
  unfold hat; split <;> exact tent_self _ _ _

theorem sum_indicator : ∀ (l : List Q) (q : Q), l.Nodup →
    (l.map (fun p => if p = q then (1 : Q) else 0)).sum = if q ∈ l then 1 else 0
  | [], q, _ => by simp
  | a :: l, q, h => by
    simp only [nodup_cons] at h
    simp only [map_cons, sum_cons, sum_indicator l q h.2, mem_cons]
    by_cases haq : a = q
    · subst haq; simp [h.1, Rat.add_zero]
    · have : ¬ q = a := fun e => haq e.symm
      simp [haq, this, Rat.zero_add]

/-- **C19_scalars1_master** (master-reproduction law of the one-axis variation model, n masters): at the position of
    a master, the master scalars are that master's unit vector - so even without the dictionary shortcut the
    interpolation would return the master. -/
theorem C19_scalars1_master (ps : List Q) (hnd : ps.Nodup) {q : Q} (hq : q ∈ ps) :
    scalars1 ps q = ps.map (fun p => if p = q then 1 else 0) := by
  unfold scalars1
  have hothers : ((ps.filter (· != 0)).map (fun p => hat ps p q)).sum = if q = 0 then 0 else 1 := by
    have hmap : (ps.filter (· != 0)).map (fun p => hat ps p q) =
        (ps.filter (· != 0)).map (fun p => if p = q then (1 : Q) else 0) := by
      apply map_congr_left
      intro p hp
      have hp0 : p ≠ 0 := by simpa using (mem_filter.mp hp).2
      by_cases hpq : p = q
      · subst hpq; simp [hat_self]
      · simp only [hpq, if_false]; exact hat_other ps hp0 hq (fun e => hpq e.symm)
    rw [hmap, sum_indicator _ q (hnd.filter _)]
    by_cases hq0 : q = 0
    · subst hq0; simp
    · simp [hq0, hq]
  simp only [hothers]
  apply map_congr_left
  intro p hp
  by_cases hp0 : p = 0
  · subst hp0
    by_cases hq0 : q = 0
    · subst hq0
      have : (1 : Q) - 0 = 1 := by grind
      simp [this]
    · have : ¬ (0 : Q) = q := fun e => hq0 e.symm
      simp [hq0, this, Rat.sub_self]
  · have h1 : (p == 0) = false := by simpa using hp0
    simp only [h1, Bool.false_eq_true, if_false]
    by_cases hpq : p = q
    · subst hpq; simp [hat_self]
    · simp only [hpq, if_false]; exact hat_other ps hp0 hq (fun e => hpq e.symm)

/-- partition of unity: with exactly one master at the origin the scalars sum to one at every location -/
theorem scalars1_sum (ps : List Q) (hnd : ps.Nodup) (h0 : (0 : Q) ∈ ps) (v : Q) : (scalars1 ps v).sum = 1 := by
  unfold scalars1
  generalize hS : ((ps.filter (· != 0)).map (fun p => hat ps p v)).sum = S
  have key : ∀ (l : List Q), l.Nodup →
      (l.map (fun p => if (p == 0) = true then 1 - S else hat ps p v)).sum =
        (if (0 : Q) ∈ l then 1 - S else 0) + ((l.filter (· != 0)).map (fun p => hat ps p v)).sum := by
    intro l hl
    induction l with
    | nil => simp [Rat.add_zero]
    | cons a l ih =>
      simp only [nodup_cons] at hl
      simp only [map_cons, sum_cons, ih hl.2, mem_cons, filter_cons]
      by_cases ha : a = 0
      · subst ha
        have : (0 : Q) ∉ l := hl.1
        simp [this, Rat.add_zero, Rat.zero_add]
      · have h1 : (a == 0) = false := by simpa using ha
        have h2 : (a != 0) = true := by simpa using ha
        have h3 : ¬ (0 : Q) = a := fun e => ha e.symm
        simp only [h1, h2, Bool.false_eq_true, if_false, if_true, map_cons, sum_cons, h3, false_or]
        grind
  rw [key ps hnd, hS]
  simp only [h0, if_true]
  grind

theorem two_below (p : Q) : nbrBelow [0, p] p = 0 := by
  simp [nbrBelow, Rat.lt_irrefl]
theorem two_above (p : Q) (hp : 0 < p) : nbrAbove [0, p] p = 1 := by
  unfold nbrAbove
  simp only [foldl_cons, foldl_nil]
  have h1 : ¬ (p < p) := Rat.lt_irrefl
  have h2 : ¬ (p < 0) := by grind
  simp [h1, h2]

/-- **two masters on one axis** (default at 0, the other at `p`, `0 < p ≤ 1`), location strictly between:
    the master scalars are `(p - v)/p` and `v/p` -/
theorem scalars1_two (p v : Q) (hp1 : p ≤ 1) (hv0 : 0 < v) (hvp : v < p) :
    scalars1 [0, p] v = [(p - v) / p, v / p] := by
  have hp0 : p ≠ 0 := by grind
  have hppos : 0 < p := by grind
  have hhat : hat [0, p] p v = v / p := by
    unfold hat
    simp only [hppos, if_true, two_below, two_above p hppos]
    unfold tent
    have h1 : (v == p) = false := by simp; grind
    have h2 : (decide (v ≤ 0) || decide (1 ≤ v)) = false := by simp; grind
    have e1 : v - 0 = v := by grind
    have e2 : p - 0 = p := by grind
    simp only [h1, h2, Bool.false_eq_true, if_false, hvp, if_true, e1, e2]
  unfold scalars1
  have hf : ([0, p].filter (· != 0)) = [p] := by simp [hp0]
  simp only [hf, map_cons, map_nil, sum_cons, sum_nil, Rat.add_zero, hhat, beq_self_eq_true, if_true]
  have h3 : (p == 0) = false := by simpa using hp0
  simp only [h3, Bool.false_eq_true, if_false, cons.injEq, and_true]
  rw [Rat.div_def, Rat.div_def]
  have := Rat.mul_inv_cancel p hp0
  grind

/-- **C19_blend_two**: one axis, two compatible masters `A` (default, at 0) and `B` (at `p`, `0 < p ≤ 1`), location `v`
    strictly between: the instance exists and every number of it is the linear blend `((p - v)·A + v·B) / p`
    (in design coordinates with masters at `a < b`: `((b-ℓ)·A + (ℓ-a)·B)/(b-a)`). -/
theorem C19_blend_two (A B : MGlyph) (ax : String) (p v : Q) (hp1 : p ≤ 1) (hv0 : 0 < v) (hvp : v < p)
    (hcompat : compatible [A, B] = true) :
    ∃ r, instanceAt glyphOps ⟨[([(ax, 0)], A), ([(ax, p)], B)]⟩ [(ax, v)] (scalars1 [0, p] v) = .ok (some r) ∧
      shapeOf r = shapeOf A ∧
      ∀ j, j < (flat A).length →
        (flat r)[j]? = some (((p - v) * (flat A).getD j 0 + v * (flat B).getD j 0) / p) := by
  have hp0 : p ≠ 0 := by grind
  have hmiss : masterAt [([(ax, (0 : Q))], A), ([(ax, p)], B)] [(ax, v)] = none := by
    have h1 : ¬ (0 : Q) = v := by grind
    have h2 : ¬ p = v := by grind
    simp [masterAt, locKey, h1, h2]
  rw [instanceAt_miss glyphOps hmiss, scalars1_two p v hp1 hv0 hvp]
  have hs0 : (p - v) / p ≠ 0 := by
    rw [Rat.div_def]; intro h
    have h3 := Rat.mul_inv_cancel p hp0
    have : (p - v) * p⁻¹ * p = 0 := by rw [h]; exact Rat.zero_mul _
    grind
  have hs1 : v / p ≠ 0 := by
    rw [Rat.div_def]; intro h
    have h3 := Rat.mul_inv_cancel p hp0
    have : v * p⁻¹ * p = 0 := by rw [h]; exact Rat.zero_mul _
    grind
  obtain ⟨r, hr, hrs, hrf⟩ := C19_blend A ((p - v) / p) [(B, v / p)]
    (by intro q hq; simp only [mem_cons, mem_nil_iff, or_false] at hq; rcases hq with h | h <;> subst h <;> assumption)
    (by simpa using hcompat)
  refine ⟨r, by simpa using hr, hrs, ?_⟩
  intro j hj
  rw [hrf]
  simp only [blendNums, map_cons, map_nil, getElem?_map, getElem?_range hj, Option.map_some, Option.some.injEq,
    wsumAt, zip_cons_cons, zip_nil_right, sum_cons, sum_nil]
  rw [Rat.div_def, Rat.div_def, Rat.div_def]
  grind

/-- the model's `generate_glyph_instance` satisfies the declarative glyph predicate (master / blend / rounding) -/
theorem C19_glyph (ds : DS) (di : Nat) (round : Bool) (name : String) (nl : Loc) (g : MGlyph)
    (h : generateGlyphInstance ds di round name nl = .ok g) :
    holdsGlyph 0 round (collectGlyphMasters ds di name)
      (scalarsFor ds ((collectGlyphMasters ds di name).map (·.1)) nl) nl g = true := by
  unfold generateGlyphInstance at h
  cases hv : fromMasters (collectGlyphMasters ds di name) with
  | error e => simp [hv] at h
  | ok v =>
    obtain ⟨hitems, hok⟩ := fromMasters_ok hv
    simp only [hv, instGlyph] at h
    cases hi : instanceAt glyphOps v nl (scalarsFor ds (v.items.map (·.1)) nl) with
    | error e => simp [hi] at h
    | ok o =>
      cases o with
      | none => simp [hi] at h
      | some g' =>
        simp only [hi, Except.ok.injEq] at h
        subst h
        have hv' : v = ⟨collectGlyphMasters ds di name⟩ := by cases v; simp_all
        subst hv'
        exact C19_holdsGlyph round _ _ nl g' hok hi

/-- **C19_master (glyph level)**: at a master location of the glyph, `generate_glyph_instance` returns that master,
    rounded iff `round_geometry` - no compatibility between the masters is needed. -/
theorem C19_master_glyph (ds : DS) (di : Nat) (round : Bool) (name : String) (nl : Loc) (m : MGlyph)
    (hok : locationsOk ((collectGlyphMasters ds di name).map (·.1)) = true)
    (hm : masterAt (collectGlyphMasters ds di name) nl = some m) :
    generateGlyphInstance ds di round name nl = .ok (if round then ground m else m) := by
  unfold generateGlyphInstance fromMasters
  simp only [hok, if_true, instGlyph]
  rw [instanceAt_hit glyphOps hok hm]

/-! ### F. rule substitutions -/

theorem renameOne_eq_sigma : renameOne = sigma := rfl

theorem sigma_sigma (a b n : String) : sigma a b (sigma a b n) = n := by
  unfold sigma
  by_cases h1 : n = a
  · subst h1
    by_cases h2 : b = n
    · subst h2; simp
    · simp [h2]
  · by_cases h2 : n = b
    · subst h2; simp [h1]
    · simp [h1, h2]

theorem sigma_injective (a b : String) {x y : String} (h : sigma a b x = sigma a b y) : x = y := by
  have := congrArg (sigma a b) h
  simpa [sigma_sigma] using this

theorem get?_of_mem_nodup : ∀ (gs : List SrcGlyph), (gs.map (·.name)).Nodup → ∀ g ∈ gs,
    gs.find? (fun x => x.name == g.name) = some g
  | [], _, g, hg => by cases hg
  | x :: gs, hnd, g, hg => by
    simp only [map_cons, nodup_cons] at hnd
    rcases mem_cons.mp hg with he | hr
    · subst he; simp
    · have hne : (x.name == g.name) = false := by
        simp only [beq_eq_false_iff_ne, ne_eq]
        intro e; exact hnd.1 (e ▸ mem_map_of_mem (f := (·.name)) hr)
      simp only [find?_cons, hne]
      exact get?_of_mem_nodup gs hnd.2 g hr

theorem get?_name {f : Font} {n : String} {g : SrcGlyph} (h : f.get? n = some g) : g.name = n := by
  unfold Font.get? at h
  have := find?_some h
  simpa using this

theorem get?_mem {f : Font} {n : String} {g : SrcGlyph} (h : f.get? n = some g) : g ∈ f.glyphs := by
  unfold Font.get? at h
  exact mem_of_find?_eq_some h

/-- inserting renamed pairs one by one into a dict is plain renaming when no two renamed keys collide -/
theorem kerning_foldl_eq_map (ren : Pair → Pair) : ∀ (l acc : KDict),
    ((acc.map (·.1)) ++ l.map (fun e => ren e.1)).Nodup →
    l.foldl (fun acc e =>
        if (alookup (ren e.1) acc).isSome then acc.map (fun x => if x.1 == ren e.1 then (ren e.1, e.2) else x)
        else acc ++ [(ren e.1, e.2)]) acc = acc ++ l.map (fun e => (ren e.1, e.2))
  | [], acc, _ => by simp
  | e :: l, acc, h => by
    simp only [foldl_cons, map_cons]
    have hnot : alookup (ren e.1) acc = none := by
      have hk : ren e.1 ∉ acc.map (·.1) := by
        intro hmem
        have := (nodup_append.mp h).2.2 _ hmem (ren e.1) (by simp)
        exact this rfl
      clear h
      induction acc with
      | nil => rfl
      | cons x acc ih =>
        simp only [map_cons, mem_cons, not_or] at hk
        have hx : (x.1 == ren e.1) = false := by
          simp only [beq_eq_false_iff_ne, ne_eq]; exact fun e' => hk.1 e'.symm
        simp only [alookup, hx, Bool.false_eq_true, if_false]
        exact ih hk.2
    simp only [hnot, Option.isSome_none, Bool.false_eq_true, if_false]
    rw [kerning_foldl_eq_map ren l (acc ++ [(ren e.1, e.2)])]
    · simp
    · simpa [append_assoc] using h

/-- **C19_swap_ref**: `swap_glyph_names` IS the renaming `(a b)`: glyph `n` gets outline, width and anchors of glyph
    `σ n`, every component base, kerning key and group member goes through `σ`; code points and names stay.
    In particular a glyph that references its swap partner is handled consistently (the component remap runs after
    the outline exchange, on all glyphs including the two).  Hypotheses: glyph names and kerning keys are
    dictionary keys (no duplicates), both glyphs exist. -/
theorem C19_swap_ref (f : Font) (a b : String) (hnd : (f.glyphs.map (·.name)).Nodup)
    (hk : (f.kerning.map (·.1)).Nodup) (ha : f.has a = true) (hb : f.has b = true) :
    swapGlyphNames f a b = .ok (swapRef f a b) := by
  have hfa : ∃ ga, f.get? a = some ga := by
    unfold Font.has at ha; unfold Font.get?
    cases h : f.glyphs.find? (fun g => g.name == a) with
    | some g => exact ⟨g, rfl⟩
    | none =>
      simp only [find?_eq_none] at h
      simp only [any_eq_true] at ha
      obtain ⟨g, hg, hga⟩ := ha
      exact absurd hga (h g hg)
  have hfb : ∃ gb, f.get? b = some gb := by
    unfold Font.has at hb; unfold Font.get?
    cases h : f.glyphs.find? (fun g => g.name == b) with
    | some g => exact ⟨g, rfl⟩
    | none =>
      simp only [find?_eq_none] at h
      simp only [any_eq_true] at hb
      obtain ⟨g, hg, hgb⟩ := hb
      exact absurd hgb (h g hg)
  obtain ⟨ga, hga⟩ := hfa
  obtain ⟨gb, hgb⟩ := hfb
  unfold swapGlyphNames
  simp only [hga, hgb]
  congr 1
  unfold swapRef
  congr 1
  · -- glyphs
    rw [map_map]
    apply map_congr_left
    intro g hg
    simp only [Function.comp_def, remapComps, swapOutlines, renameOne_eq_sigma]
    by_cases h1 : g.name = a
    · have hs : sigma a b a = b := by simp [sigma]
      simp [h1, hs, hgb]
    · by_cases h2 : g.name = b
      · have h1' : ¬ b = a := fun e => h1 (h2.trans e)
        have hs : sigma a b b = a := by simp [sigma, h1']
        simp [h1', h2, hs, hga]
      · have hs : sigma a b g.name = g.name := by simp [sigma, h1, h2]
        have hself : f.get? g.name = some g := get?_of_mem_nodup _ hnd g hg
        simp [h1, h2, hs, hself]
  · -- kerning
    have := kerning_foldl_eq_map (fun k => (sigma a b k.1, sigma a b k.2)) f.kerning [] (by
      simp only [map_nil, nil_append]
      have : f.kerning.map (fun e => (sigma a b e.1.1, sigma a b e.1.2)) =
          (f.kerning.map (·.1)).map (fun k => (sigma a b k.1, sigma a b k.2)) := by simp
      rw [this]
      apply Pairwise.map _ _ hk
      intro x y hne hxy
      simp only [Prod.mk.injEq] at hxy
      exact hne (Prod.ext (sigma_injective a b hxy.1) (sigma_injective a b hxy.2)))
    simpa [renameOne_eq_sigma] using this

/-- a missing glyph: the substitution is refused (InstantiatorError) -/
theorem C19_swap_missing (f : Font) (a b : String) (h : f.has a = false ∨ f.has b = false) :
    swapGlyphNames f a b = .error .instantiator := by
  have hnone : ∀ n, f.has n = false → f.get? n = none := by
    intro n hn
    unfold Font.has at hn; unfold Font.get?
    simp only [any_eq_false] at hn
    simp only [find?_eq_none]
    exact hn
  unfold swapGlyphNames
  rcases h with h | h
  · simp [hnone a h]
  · rw [hnone b h]
    cases f.get? a <;> rfl

/-- **C19_swap_unicodes**: names and code points of every glyph are untouched by a substitution -/
theorem C19_swap_unicodes (f f' : Font) (a b : String) (h : swapGlyphNames f a b = .ok f') :
    f'.glyphs.map (fun g => (g.name, g.unicodes)) = f.glyphs.map (fun g => (g.name, g.unicodes)) := by
  unfold swapGlyphNames at h
  split at h
  · injection h with h; subst h
    simp only [map_map]
    apply map_congr_left
    intro g _
    simp only [Function.comp_def, remapComps, swapOutlines]
    split
    · rfl
    · split <;> rfl
  · cases h

theorem find?_congr_mem {α : Type} (p q : α → Bool) : ∀ (l : List α), (∀ x ∈ l, p x = q x) → l.find? p = l.find? q
  | [], _ => rfl
  | x :: l, h => by
    simp only [find?_cons, h x (by simp)]
    rw [find?_congr_mem p q l (fun y hy => h y (by simp [hy]))]

/-- what the reference substitution does to one glyph -/
def swapT (f : Font) (a b : String) (g : SrcGlyph) : SrcGlyph :=
  match f.get? (sigma a b g.name) with
  | none => g
  | some s => { g with g := { width := s.g.width, height := g.g.height, contours := s.g.contours,
                              comps := s.g.comps.map (fun c => { c with base := sigma a b c.base }),
                              anchors := s.g.anchors } }

theorem swapRef_glyphs (f : Font) (a b : String) : (swapRef f a b).glyphs = f.glyphs.map (swapT f a b) := rfl

theorem swapT_name (f : Font) (a b : String) (g : SrcGlyph) : (swapT f a b g).name = g.name := by
  unfold swapT; split <;> rfl

theorem swapT_unicodes (f : Font) (a b : String) (g : SrcGlyph) : (swapT f a b g).unicodes = g.unicodes := by
  unfold swapT; split <;> rfl

theorem swapRef_get? (f : Font) (a b n : String) :
    (swapRef f a b).get? n = (f.get? n).map (swapT f a b) := by
  unfold Font.get?
  rw [swapRef_glyphs, find?_map]
  congr 1
  apply find?_congr_mem
  intro g _
  simp only [Function.comp_def, swapT_name]

theorem comps_sigma_sigma (a b : String) (cs : List Comp) :
    (cs.map (fun c => { c with base := sigma a b c.base })).map (fun c => { c with base := sigma a b c.base }) = cs := by
  rw [map_map]
  have : ((fun c : Comp => { c with base := sigma a b c.base }) ∘ fun c : Comp => { c with base := sigma a b c.base }) = id := by
    funext c; simp [sigma_sigma]
  rw [this, map_id]

/-- **C19_swap_involution**: substituting twice restores the font - outlines, widths, anchors, component references,
    kerning keys, group members. -/
theorem C19_swap_involution (f : Font) (a b : String) (hnd : (f.glyphs.map (·.name)).Nodup) :
    swapRef (swapRef f a b) a b = f := by
  have hgl : (swapRef (swapRef f a b) a b).glyphs = f.glyphs := by
    rw [swapRef_glyphs, swapRef_glyphs, map_map]
    conv => rhs; rw [← map_id f.glyphs]
    apply map_congr_left
    intro g hg
    simp only [Function.comp_def, id]
    have hself : f.get? g.name = some g := get?_of_mem_nodup _ hnd g hg
    unfold swapT
    simp only [swapRef_get?]
    cases hs : f.get? (sigma a b g.name) with
    | none => simp [hs]
    | some s =>
      have hsn : s.name = sigma a b g.name := get?_name hs
      simp only [hs, Option.map_some]
      unfold swapT
      simp only [hsn, sigma_sigma, hself, comps_sigma_sigma]
  have hk : (swapRef (swapRef f a b) a b).kerning = f.kerning := by
    show (f.kerning.map _).map _ = f.kerning
    rw [map_map]
    have : ((fun e : Pair × Q => ((sigma a b e.1.1, sigma a b e.1.2), e.2)) ∘
        fun e : Pair × Q => ((sigma a b e.1.1, sigma a b e.1.2), e.2)) = id := by
      funext e; simp [sigma_sigma]
    rw [this, map_id]
  have hg : (swapRef (swapRef f a b) a b).groups = f.groups := by
    show (f.groups.map _).map _ = f.groups
    rw [map_map]
    have : ((fun g : String × List String => (g.1, g.2.map (sigma a b))) ∘
        fun g : String × List String => (g.1, g.2.map (sigma a b))) = id := by
      funext g
      simp [Function.comp_def, sigma_sigma]
    rw [this, map_id]
  cases f with
  | mk glyphs kerning groups =>
    cases hf : swapRef (swapRef ⟨glyphs, kerning, groups⟩ a b) a b with
    | mk g2 k2 gr2 =>
      rw [hf] at hgl hk hg
      simp only at hgl hk hg
      subst hgl; subst hk; subst hg; rfl

/-- rendering with components resolved (fuel = depth bound); `tr c` places the rendered base of component `c` and
    looks at the component's matrix only -/
def render (tr : Comp → List (List Pt) → List (List Pt)) (f : Font) : Nat → String → List (List Pt)
  | 0, _ => []
  | k + 1, n =>
    match f.get? n with
    | none => []
    | some g => g.g.contours ++ g.g.comps.flatMap (fun c => tr c (render tr f k c.base))

theorem has_get? {f : Font} {n : String} (h : f.has n = true) : ∃ g, f.get? n = some g := by
  unfold Font.has at h; unfold Font.get?
  cases hf : f.glyphs.find? (fun g => g.name == n) with
  | some g => exact ⟨g, rfl⟩
  | none =>
    simp only [find?_eq_none] at hf
    simp only [any_eq_true] at h
    obtain ⟨g, hg, hgn⟩ := h
    exact absurd hgn (hf g hg)

/-- **C19_swap_render**: after the substitution, glyph `n` renders (components resolved to any depth) exactly as glyph
    `σ n` rendered before - also when one of the two glyphs references the other, or both are referenced from
    third glyphs: the component remap is consistent with the outline exchange. -/
theorem C19_swap_render (tr : Comp → List (List Pt) → List (List Pt))
    (htr : ∀ (c : Comp) (n : String), tr { c with base := n } = tr c)
    (f : Font) (a b : String) (ha : f.has a = true) (hb : f.has b = true) (k : Nat) (n : String) :
    render tr (swapRef f a b) k n = render tr f k (sigma a b n) := by
  induction k generalizing n with
  | zero => rfl
  | succ k ih =>
    unfold render
    rw [swapRef_get?]
    obtain ⟨ga, hga⟩ := has_get? ha
    obtain ⟨gb, hgb⟩ := has_get? hb
    cases hn : f.get? n with
    | none =>
      -- `n` is neither `a` nor `b`
      have h1 : n ≠ a := by intro e; subst e; simp [hga] at hn
      have h2 : n ≠ b := by intro e; subst e; simp [hgb] at hn
      have hs : sigma a b n = n := by simp [sigma, h1, h2]
      simp [hs, hn]
    | some g =>
      have hgn : g.name = n := get?_name hn
      have hex : ∃ s, f.get? (sigma a b n) = some s := by
        by_cases h1 : n = a
        · subst h1
          have : sigma n b n = b := by simp [sigma]
          exact ⟨gb, by rw [this]; exact hgb⟩
        · by_cases h2 : n = b
          · subst h2
            have : sigma a n n = a := by simp [sigma, h1]
            exact ⟨ga, by rw [this]; exact hga⟩
          · exact ⟨g, by simp [sigma, h1, h2, hn]⟩
      obtain ⟨s, hs⟩ := hex
      simp only [Option.map_some, hs]
      unfold swapT
      simp only [hgn, hs, flatMap_map]
      congr 1
      apply flatMap_congr_mem
      intro c _
      rw [htr, ih, sigma_sigma]

/-! ### G. the instance has the default source's glyph names and code points -/

theorem swap_names (f f' : Font) (a b : String) (h : swapGlyphNames f a b = .ok f') :
    f'.glyphs.map (·.name) = f.glyphs.map (·.name) := by
  have := congrArg (fun l => l.map (·.1)) (C19_swap_unicodes f f' a b h)
  simpa [Function.comp_def] using this

theorem applySwaps_names_unicodes : ∀ (swaps : List (String × String)) (f f' : Font), applySwaps f swaps = .ok f' →
    f'.glyphs.map (fun g => (g.name, g.unicodes)) = f.glyphs.map (fun g => (g.name, g.unicodes))
  | [], f, f', h => by simp only [applySwaps, Except.ok.injEq] at h; subst h; rfl
  | (a, b) :: rest, f, f', h => by
    unfold applySwaps at h
    split at h
    · cases hs : swapGlyphNames f a b with
      | error e => simp [hs] at h
      | ok f1 =>
        simp only [hs] at h
        rw [applySwaps_names_unicodes rest f1 f' h, C19_swap_unicodes f f1 a b hs]
    · exact applySwaps_names_unicodes rest f f' h

theorem generateGlyphs_names (ds : DS) (di : Nat) (round : Bool) (nl : Loc) :
    ∀ (src out : List SrcGlyph), generateGlyphs ds di round nl src = .ok out →
      out.map (·.name) = src.map (·.name) ∧
      ∀ g ∈ out, ∃ d ∈ src, d.name = g.name ∧ (g.unicodes = d.unicodes ∨ (ds.skip.contains d.name = true ∧ g.unicodes = []))
  | [], out, h => by simp only [generateGlyphs, Except.ok.injEq] at h; subst h; simp
  | d :: rest, out, h => by
    unfold generateGlyphs at h
    cases hg : generateGlyphInstance ds di round d.name nl with
    | ok g =>
      simp only [hg] at h
      cases hr : generateGlyphs ds di round nl rest with
      | error e => simp [hr] at h
      | ok t =>
        simp only [hr, Except.ok.injEq] at h
        subst h
        obtain ⟨hn, hu⟩ := generateGlyphs_names ds di round nl rest t hr
        refine ⟨by simp [hn], ?_⟩
        intro g' hg'
        rcases mem_cons.mp hg' with he | hm
        · subst he; exact ⟨d, by simp, rfl, Or.inl rfl⟩
        · obtain ⟨d', hd', h1, h2⟩ := hu g' hm
          exact ⟨d', by simp [hd'], h1, h2⟩
    | error e =>
      simp only [hg] at h
      split at h
      · rename_i hskip
        cases hr : generateGlyphs ds di round nl rest with
        | error e => simp [hr] at h
        | ok t =>
          simp only [hr, Except.ok.injEq] at h
          subst h
          obtain ⟨hn, hu⟩ := generateGlyphs_names ds di round nl rest t hr
          refine ⟨by simp [hn], ?_⟩
          intro g' hg'
          rcases mem_cons.mp hg' with he | hm
          · subst he; exact ⟨d, by simp, rfl, Or.inr ⟨hskip, rfl⟩⟩
          · obtain ⟨d', hd', h1, h2⟩ := hu g' hm
            exact ⟨d', by simp [hd'], h1, h2⟩
      · cases h

theorem bind_ok {ε α β : Type} {x : Except ε α} {f : α → Except ε β} {b : β} (h : x.bind f = .ok b) :
    ∃ a, x = .ok a ∧ f a = .ok b := by
  cases x with
  | error e => simp [Except.bind] at h
  | ok a => exact ⟨a, rfl, h⟩

/-- what a successful `generate_instance` went through -/
theorem generateInstance_inv (ds : DS) (round : Bool) (inst : Instance) (out : Output)
    (h : generateInstance ds round inst = .ok out) :
    ∃ di dsrc glyphs k swaps,
      findDefault ds = some di ∧ ds.sources[di]? = some dsrc ∧
      generateGlyphs ds di round (nloc ds (dictMerge (defaultDesignLoc ds) inst.loc)) dsrc.glyphs = .ok glyphs ∧
      processRulesSwaps ds.rules (dictMerge (defaultDesignLoc ds) inst.loc) (dsrc.glyphs.map (·.name)) = .ok swaps ∧
      applySwaps { glyphs := glyphs, kerning := k,
                   groups := kernGroups dsrc.groups ++ dsrc.groups.filter (fun g => !(isK1 g.1 || isK2 g.1)) } swaps
        = .ok out.font ∧
      out.libLocation = dictMerge (defaultDesignLoc ds) inst.loc ∧ out.libSkip = ds.skip := by
  unfold generateInstance at h
  split at h
  · cases h
  · rename_i di hdi
    split at h
    · cases h
    · split at h
      · cases h
      · rename_i dsrc hsrc
        unfold generateWith at h
        obtain ⟨_, _, h⟩ := bind_ok h
        obtain ⟨kv, _, h⟩ := bind_ok h
        obtain ⟨k, _, h⟩ := bind_ok h
        obtain ⟨info, _, h⟩ := bind_ok h
        obtain ⟨glyphs, hgl, h⟩ := bind_ok h
        obtain ⟨swaps, hsw, h⟩ := bind_ok h
        obtain ⟨font, hfont, h⟩ := bind_ok h
        injection h with h
        subst h
        exact ⟨di, dsrc, glyphs, _, swaps, hdi, hsrc, hgl, hsw, hfont, rfl, rfl⟩

/-- **C19_glyphset**: the instance's glyph names are exactly the default source's, in its order - whatever the
    other sources contain (extra glyphs are ignored, missing ones tolerated) and whatever rules are active. -/
theorem C19_glyphset (ds : DS) (round : Bool) (inst : Instance) (out : Output)
    (h : generateInstance ds round inst = .ok out) :
    ∃ di dsrc, findDefault ds = some di ∧ ds.sources[di]? = some dsrc ∧
      out.font.glyphs.map (·.name) = dsrc.glyphs.map (·.name) := by
  obtain ⟨di, dsrc, glyphs, k, swaps, hdi, hsrc, hgl, _, hfont, _, _⟩ := generateInstance_inv ds round inst out h
  refine ⟨di, dsrc, hdi, hsrc, ?_⟩
  have h1 := congrArg (fun l => l.map (·.1)) (applySwaps_names_unicodes swaps _ _ hfont)
  have h2 := (generateGlyphs_names ds di round _ _ _ hgl).1
  simp only [map_map, Function.comp_def] at h1
  rw [h1, h2]

/-- **C19_unicodes**: every glyph of the instance carries the code points its name has in the default source, active
    substitutions or not (a glyph that could not be instantiated and is listed in public.skipExportGlyphs is left
    empty, without code points). -/
theorem C19_unicodes (ds : DS) (round : Bool) (inst : Instance) (out : Output)
    (h : generateInstance ds round inst = .ok out) :
    ∃ di dsrc, findDefault ds = some di ∧ ds.sources[di]? = some dsrc ∧
      ∀ g ∈ out.font.glyphs, ∃ d ∈ dsrc.glyphs, d.name = g.name ∧
        (g.unicodes = d.unicodes ∨ (ds.skip.contains d.name = true ∧ g.unicodes = [])) := by
  obtain ⟨di, dsrc, glyphs, k, swaps, hdi, hsrc, hgl, _, hfont, _, _⟩ := generateInstance_inv ds round inst out h
  refine ⟨di, dsrc, hdi, hsrc, ?_⟩
  intro g hg
  have h1 := applySwaps_names_unicodes swaps _ _ hfont
  have hm : (g.name, g.unicodes) ∈ out.font.glyphs.map (fun g => (g.name, g.unicodes)) :=
    mem_map_of_mem (f := fun g => (g.name, g.unicodes)) hg
  rw [h1] at hm
  obtain ⟨g0, hg0, he⟩ := mem_map.mp hm
  simp only [Prod.mk.injEq] at he
  obtain ⟨d, hd, hn, hu⟩ := (generateGlyphs_names ds di round _ _ _ hgl).2 g0 hg0
  exact ⟨d, hd, by rw [hn, he.1], by rw [← he.2]; exact hu⟩

/-- no source at the default location: refused -/
theorem C19_no_default (ds : DS) (round : Bool) (inst : Instance) (h : findDefault ds = none) :
    generateInstance ds round inst = .error .instantiator := by
  unfold generateInstance; simp [h]

/-- two font-level masters at one location: refused (from_designspace cannot build the info/kerning Variators) -/
theorem C19_dup_locations (ds : DS) (round : Bool) (inst : Instance) (di : Nat) (dsrc : Source)
    (hdi : findDefault ds = some di) (hsrc : ds.sources[di]? = some dsrc) (hb : boundsOk (axisBounds ds.axes) = true)
    (hdup : locationsOk ((collectInfoMasters ds di).map (·.1)) = false) :
    generateInstance ds round inst = .error .instantiator := by
  unfold generateInstance
  simp only [hdi, hb, hsrc, Bool.not_true, Bool.false_eq_true, if_false]
  unfold generateWith
  rw [fromMasters_error hdup]
  rfl

/-! ### H. generating instances changes nothing but a cache that cannot change any result -/

/-- every cached Variator is the one `from_masters` would build now -/
def CacheValid (ds : DS) (di : Nat) (cache : Cache) : Prop :=
  ∀ n v, alookup n cache = some v → fromMasters (collectGlyphMasters ds di n) = .ok v

theorem cacheValid_nil (ds : DS) (di : Nat) : CacheValid ds di [] := by
  intro n v h; simp [alookup] at h

theorem pure_glyph (ds : DS) (di : Nat) (round : Bool) (cache : Cache) (name : String) (nl : Loc)
    (hv : CacheValid ds di cache) :
    (generateGlyphInstanceC ds di round cache name nl).1 = generateGlyphInstance ds di round name nl ∧
    CacheValid ds di (generateGlyphInstanceC ds di round cache name nl).2 := by
  unfold generateGlyphInstanceC generateGlyphInstance
  cases hl : alookup name cache with
  | some v => simp only [hv name v hl]; exact ⟨trivial, hv⟩
  | none =>
    cases hf : fromMasters (collectGlyphMasters ds di name) with
    | error e => exact ⟨rfl, hv⟩
    | ok v =>
      refine ⟨rfl, ?_⟩
      intro n w hw
      simp only [alookup] at hw
      split at hw
      · rename_i hn
        have : name = n := by simpa using hn
        subst this
        injection hw with hw; subst hw; exact hf
      · exact hv n w hw

/-- **C19_pure** (history independence): the sources are an immutable argument of the model - generating an instance
    can only add Variators to the `glyph_mutators` cache - and a cache filled by ANY earlier sequence of instances
    yields exactly the glyphs an unused Instantiator yields; the cache stays valid.  (So the k-th instance generated
    from one Instantiator equals the first instance of a fresh one, which is what the correspondence run measures.) -/
theorem C19_pure (ds : DS) (di : Nat) (round : Bool) (nl : Loc) :
    ∀ (src : List SrcGlyph) (cache : Cache), CacheValid ds di cache →
      (generateGlyphsC ds di round nl cache src).1 = generateGlyphs ds di round nl src ∧
      CacheValid ds di (generateGlyphsC ds di round nl cache src).2
  | [], cache, hv => ⟨rfl, hv⟩
  | d :: rest, cache, hv => by
    obtain ⟨h1, h2⟩ := pure_glyph ds di round cache d.name nl hv
    unfold generateGlyphsC generateGlyphs
    rw [← h1]
    cases hg : generateGlyphInstanceC ds di round cache d.name nl with
    | mk r cache1 =>
      rw [hg] at h2
      simp only at h2
      cases r with
      | ok g =>
        obtain ⟨h3, h4⟩ := C19_pure ds di round nl rest cache1 h2
        simp only
        rw [← h3]
        cases hr : generateGlyphsC ds di round nl cache1 rest with
        | mk r2 cache2 =>
          rw [hr] at h4
          cases r2 <;> exact ⟨rfl, h4⟩
      | error e =>
        simp only
        split
        · obtain ⟨h3, h4⟩ := C19_pure ds di round nl rest cache1 h2
          rw [← h3]
          cases hr : generateGlyphsC ds di round nl cache1 rest with
          | mk r2 cache2 =>
            rw [hr] at h4
            cases r2 <;> exact ⟨rfl, h4⟩
        · exact ⟨rfl, h2⟩

/-! ### I. kerning: masters that store the same pairs blend pair by pair -/

theorem alookup_none_of_not_mem {ν : Type} : ∀ (K : List (Pair × ν)) (k : Pair), k ∉ K.map (·.1) → alookup k K = none
  | [], _, _ => rfl
  | x :: K, k, h => by
    simp only [map_cons, mem_cons, not_or] at h
    have hx : (x.1 == k) = false := by simp only [beq_eq_false_iff_ne, ne_eq]; exact fun e => h.1 e.symm
    simp only [alookup, hx, Bool.false_eq_true, if_false]
    exact alookup_none_of_not_mem K k h.2

theorem alookup_of_mem_nodup {ν : Type} : ∀ (K : List (Pair × ν)) (k : Pair) (v : ν), (K.map (·.1)).Nodup → (k, v) ∈ K →
    alookup k K = some v
  | [], _, _, _, h => by cases h
  | x :: K, k, v, hnd, h => by
    simp only [map_cons, nodup_cons] at hnd
    rcases mem_cons.mp h with he | hr
    · subst he; simp [alookup]
    · have hx : (x.1 == k) = false := by
        simp only [beq_eq_false_iff_ne, ne_eq]
        intro e; exact hnd.1 (e ▸ mem_map_of_mem (f := (·.1)) hr)
      simp only [alookup, hx, Bool.false_eq_true, if_false]
      exact alookup_of_mem_nodup K k v hnd.2 hr

theorem kfind_none_left (K : KDict) (b : Option String) : kfind K (none, b) = none := by
  cases b <;> rfl
theorem kfind_none_right (K : KDict) (a : Option String) : kfind K (a, none) = none := by
  cases a <;> rfl

/-- a pair that is not stored and has no exception side looks up as 0 (no group fallback can apply) -/
theorem kget_zero_of_not_exc (gm : GroupMaps) (K : KDict) (k : Pair) (hk : alookup k K = none)
    (hexc : isExc gm k = false) : kget gm K k = 0 := by
  obtain ⟨a, b⟩ := k
  unfold isExc at hexc
  simp only [Bool.or_eq_false_iff, Bool.and_eq_false_iff, Bool.not_eq_false', Option.isSome_eq_false_iff,
    Option.isNone_iff_eq_none] at hexc
  unfold kget sideOf
  simp only [hk]
  by_cases h1 : isK1 a = true <;> by_cases h2 : isK2 b = true
  · simp [h1, h2, kfind, hk]
  · have hb : alookup b gm.side2 = none := by
      rcases hexc.2 with h | h
      · exact absurd h h2
      · exact h
    simp [h1, h2, hb, kfind, hk]
  · have ha : alookup a gm.side1 = none := by
      rcases hexc.1 with h | h
      · exact absurd h h1
      · exact h
    simp [h1, h2, ha, kfind, hk]
  · have ha : alookup a gm.side1 = none := by
      rcases hexc.1 with h | h
      · exact absurd h h1
      · exact h
    have hb : alookup b gm.side2 = none := by
      rcases hexc.2 with h | h
      · exact absurd h h2
      · exact h
    simp [h1, h2, ha, hb, kfind]

/-- invariant of the running kerning sum over the common pair set `U`: what is stored is right, what is missing is a
    zero without exception side -/
structure KInv (gm : GroupMaps) (U : List Pair) (val : Pair → Q) (K : KDict) : Prop where
  nodup : (K.map (·.1)).Nodup
  stored : ∀ e ∈ K, e.1 ∈ U ∧ e.2 = val e.1
  missing : ∀ k ∈ U, k ∉ K.map (·.1) → val k = 0 ∧ isExc gm k = false

theorem KInv.kget {gm : GroupMaps} {U : List Pair} {val : Pair → Q} {K : KDict} (h : KInv gm U val K)
    {k : Pair} (hk : k ∈ U) : kget gm K k = val k := by
  by_cases hm : k ∈ K.map (·.1)
  · obtain ⟨e, he, hek⟩ := mem_map.mp hm
    have hl : alookup k K = some e.2 := alookup_of_mem_nodup K k e.2 h.nodup (by rw [← hek]; exact he)
    unfold C19.kget
    simp only [hl]
    rw [(h.stored e he).2, hek]
  · obtain ⟨h0, hexc⟩ := h.missing k hk hm
    rw [kget_zero_of_not_exc gm K k (alookup_none_of_not_mem K k hm) hexc, h0]

theorem KInv.congr {gm : GroupMaps} {U : List Pair} {val val' : Pair → Q} {K : KDict} (h : KInv gm U val K)
    (he : ∀ k, val k = val' k) : KInv gm U val' K := by
  have : val = val' := funext he
  subst this; exact h

theorem KInv.cleanup {gm : GroupMaps} {U : List Pair} {val : Pair → Q} {K : KDict} (h : KInv gm U val K) :
    KInv gm U val (kcleanup gm K) := by
  unfold kcleanup
  refine ⟨?_, ?_, ?_⟩
  · exact Pairwise.sublist (filter_sublist.map _) h.nodup
  · intro e he; exact h.stored e (mem_filter.mp he).1
  · intro k hk hnot
    by_cases hm : k ∈ K.map (·.1)
    · obtain ⟨e, he, hek⟩ := mem_map.mp hm
      have hdrop : (!(e.2 == 0 && !isExc gm e.1)) = false := by
        cases hp : (!(e.2 == 0 && !isExc gm e.1)) with
        | false => rfl
        | true =>
          exfalso; apply hnot
          exact mem_map.mpr ⟨e, mem_filter.mpr ⟨he, hp⟩, hek⟩
      simp only [Bool.not_eq_false', Bool.and_eq_true, beq_iff_eq, Bool.not_eq_true'] at hdrop
      rw [← hek]
      exact ⟨by rw [← (h.stored e he).2]; exact hdrop.1, hdrop.2⟩
    · exact h.missing k hk hm

theorem KInv.mul {gm : GroupMaps} {U : List Pair} {M : KDict} (hnd : (M.map (·.1)).Nodup)
    (hU : ∀ k, k ∈ M.map (·.1) ↔ k ∈ U) (s : Q) :
    KInv gm U (fun k => s * C19.kget gm M k) (kmul gm M s) := by
  unfold kmul
  apply KInv.cleanup
  refine ⟨?_, ?_, ?_⟩
  · simpa [map_map, Function.comp_def] using hnd
  · intro e he
    obtain ⟨x, hx, rfl⟩ := mem_map.mp he
    refine ⟨(hU x.1).mp (mem_map_of_mem (f := (·.1)) hx), ?_⟩
    have hl : alookup x.1 M = some x.2 := alookup_of_mem_nodup M x.1 x.2 hnd hx
    simp only [C19.kget, hl]
    exact Rat.mul_comm _ _
  · intro k hk hnot
    exfalso; apply hnot
    simpa [map_map, Function.comp_def] using (hU k).mpr hk

theorem unionKeys_nodup {A B : KDict} (ha : (A.map (·.1)).Nodup) (hb : (B.map (·.1)).Nodup) :
    (unionKeys A B).Nodup := by
  unfold unionKeys
  refine nodup_append.mpr ⟨ha, Pairwise.sublist filter_sublist hb, ?_⟩
  intro x hx y hy hxy
  subst hxy
  have := (mem_filter.mp hy).2
  simp only [Bool.not_eq_true', contains_eq_mem, decide_eq_false_iff_not] at this
  exact this hx

theorem mem_unionKeys {A B : KDict} {k : Pair} : k ∈ unionKeys A B ↔ k ∈ A.map (·.1) ∨ k ∈ B.map (·.1) := by
  unfold unionKeys
  simp only [mem_append, mem_filter, Bool.not_eq_true', contains_eq_mem, decide_eq_false_iff_not]
  constructor
  · rintro (h | h)
    · exact Or.inl h
    · exact Or.inr h.1
  · rintro (h | h)
    · exact Or.inl h
    · by_cases hA : k ∈ A.map (·.1)
      · exact Or.inl hA
      · exact Or.inr ⟨h, hA⟩

theorem KInv.add {gm : GroupMaps} {U : List Pair} {va vb : Pair → Q} {A B : KDict}
    (ha : KInv gm U va A) (hb : KInv gm U vb B) : KInv gm U (fun k => va k + vb k) (kadd gm A B) := by
  unfold kadd
  apply KInv.cleanup
  unfold kaddRaw
  have hkeys : ((unionKeys A B).map (fun k => (k, C19.kget gm A k + C19.kget gm B k))).map (·.1) = unionKeys A B := by
    simp [map_map, Function.comp_def]
  have hinU : ∀ k ∈ unionKeys A B, k ∈ U := by
    intro k hk
    rcases mem_unionKeys.mp hk with h | h
    · obtain ⟨e, he, rfl⟩ := mem_map.mp h; exact (ha.stored e he).1
    · obtain ⟨e, he, rfl⟩ := mem_map.mp h; exact (hb.stored e he).1
  refine ⟨?_, ?_, ?_⟩
  · rw [hkeys]; exact unionKeys_nodup ha.nodup hb.nodup
  · intro e he
    obtain ⟨k, hk, rfl⟩ := mem_map.mp he
    exact ⟨hinU k hk, by simp only [ha.kget (hinU k hk), hb.kget (hinU k hk)]⟩
  · intro k hk hnot
    rw [hkeys] at hnot
    have h1 : k ∉ A.map (·.1) := fun h => hnot (mem_unionKeys.mpr (Or.inl h))
    have h2 : k ∉ B.map (·.1) := fun h => hnot (mem_unionKeys.mpr (Or.inr h))
    obtain ⟨z1, e1⟩ := ha.missing k hk h1
    obtain ⟨z2, _⟩ := hb.missing k hk h2
    exact ⟨by simp only [z1, z2]; exact Rat.add_zero 0, e1⟩

theorem interpLoop_kern_some (gm : GroupMaps) (U : List Pair) (rest : List (KDict × Q)) :
    ∀ (val : Pair → Q) (A : KDict), KInv gm U val A → (∀ p ∈ rest, p.2 ≠ 0) →
      (∀ p ∈ rest, (p.1.map (·.1)).Nodup ∧ ∀ k, k ∈ p.1.map (·.1) ↔ k ∈ U) →
      ∃ K, interpLoop (kernOps gm) (some A) rest = .ok (some K) ∧
        KInv gm U (fun k => val k + (rest.map (fun c => c.2 * C19.kget gm c.1 k)).sum) K := by
  induction rest with
  | nil =>
    intro val A hA _ _
    exact ⟨A, rfl, hA.congr (fun k => by simp [Rat.add_zero])⟩
  | cons p rest ih =>
    intro val A hA hnz hkeys
    obtain ⟨M, s⟩ := p
    have h1 : (s == 0) = false := by simpa using hnz (M, s) (by simp)
    obtain ⟨hMnd, hMU⟩ := hkeys (M, s) (by simp)
    have hstep := hA.add (KInv.mul (gm := gm) hMnd hMU s)
    obtain ⟨K, hK, hinv⟩ := ih _ _ hstep (fun p hp => hnz p (by simp [hp])) (fun p hp => hkeys p (by simp [hp]))
    refine ⟨K, ?_, hinv.congr (fun k => by simp only [map_cons, sum_cons]; exact Rat.add_assoc _ _ _)⟩
    unfold interpLoop
    simp only [h1, Bool.false_eq_true, if_false]
    exact hK

/-- **C19_kern_blend**: when the contributing masters all store the same pairs `U` (each as a dict), the kerning
    instance off the master locations stores only pairs of `U`, each with the blend `Σ sᵢ·(value in master i)`; a
    pair of `U` that is not stored has blend 0 (and no exception side); and fontMath's lookup of every pair of `U` in
    the instance gives the blend.  (`MathKerning`'s cleanup after every `+`/`*` cannot lose or alter a value.) -/
theorem C19_kern_blend (gm : GroupMaps) (U : List Pair) (m0 : KDict) (s0 : Q) (rest : List (KDict × Q))
    (hnz : ∀ p ∈ (m0, s0) :: rest, p.2 ≠ 0)
    (hkeys : ∀ p ∈ (m0, s0) :: rest, (p.1.map (·.1)).Nodup ∧ ∀ k, k ∈ p.1.map (·.1) ↔ k ∈ U) :
    ∃ K, interpLoop (kernOps gm) none ((m0, s0) :: rest) = .ok (some K) ∧ (K.map (·.1)).Nodup ∧
      (∀ e ∈ K, e.1 ∈ U ∧ e.2 = kernExpected gm ((m0, s0) :: rest) e.1) ∧
      (∀ k ∈ U, k ∉ K.map (·.1) → kernExpected gm ((m0, s0) :: rest) k = 0) ∧
      (∀ k ∈ U, C19.kget gm K k = kernExpected gm ((m0, s0) :: rest) k) := by
  have h1 : (s0 == 0) = false := by simpa using hnz (m0, s0) (by simp)
  obtain ⟨hnd0, hU0⟩ := hkeys (m0, s0) (by simp)
  obtain ⟨K, hK, hinv⟩ := interpLoop_kern_some gm U rest _ _ (KInv.mul (gm := gm) hnd0 hU0 s0)
    (fun p hp => hnz p (by simp [hp])) (fun p hp => hkeys p (by simp [hp]))
  have hval : ∀ k, s0 * C19.kget gm m0 k + (rest.map (fun c => c.2 * C19.kget gm c.1 k)).sum =
      kernExpected gm ((m0, s0) :: rest) k := by
    intro k; simp [kernExpected]
  have hinv' := hinv.congr hval
  refine ⟨K, ?_, hinv'.nodup, hinv'.stored, fun k hk hn => (hinv'.missing k hk hn).1, fun k hk => hinv'.kget hk⟩
  unfold interpLoop
  simp only [h1, Bool.false_eq_true, if_false]
  exact hK

/-! ### J. rounding -/

/-- geometry rounding (`otRound`, installed as fontMath's integer rounding) moves a number by at most 1/2 -/
theorem otRound_nearest (v : Q) : absQ ((otRound v : Q) - v) ≤ 1/2 := by
  unfold otRound absQ
  have h1 := Rat.floor_le (v + 1/2)
  have h2 := Rat.lt_floor_add_one (v + 1/2)
  simp only [Rat.intCast_add, Rat.intCast_one] at h2
  split <;> grind

/-- kerning rounding (`MathKerning.round`, Python-2 style half away from zero - NOT `otRound`) gives a nearest integer -/
theorem C19_kern_round (v : Q) : isNearestInt v (roundHalfAway v : Q) = true := by
  unfold isNearestInt roundHalfAway absQ
  simp only [Bool.and_eq_true, beq_iff_eq, decide_eq_true_eq]
  split
  · refine ⟨Rat.den_intCast _, ?_⟩
    have h1 := Rat.floor_le (v + 1/2)
    have h2 := Rat.lt_floor_add_one (v + 1/2)
    simp only [Rat.intCast_add, Rat.intCast_one] at h2
    split <;> grind
  · refine ⟨Rat.den_intCast _, ?_⟩
    have h1 := Rat.floor_le (-v + 1/2)
    have h2 := Rat.lt_floor_add_one (-v + 1/2)
    simp only [Rat.intCast_add, Rat.intCast_one] at h2
    simp only [Rat.intCast_neg]
    grind

/-- the two rounding modes differ exactly on negative ties: -3/2 goes to -1 as a coordinate, to -2 as a kerning value -/
example : otRound (-3/2 : Q) = -1 ∧ roundHalfAway (-3/2 : Q) = -2 := by decide +kernel

/-! ### K. non-vacuity: the hypotheses of the main theorems are met by concrete, non-trivial inputs -/

section NonVacuity

deriving instance DecidableEq for Except

private def gA : MGlyph :=
  ⟨500, 0, [[⟨0, 0, some "line"⟩, ⟨100, 0, some "line"⟩, ⟨50, 80, some "line"⟩]], [⟨"b", 1, 0, 0, 1, 10, 0⟩], [⟨"top", 50, 100⟩]⟩
private def gB : MGlyph :=
  ⟨600, 0, [[⟨0, 0, some "line"⟩, ⟨200, 0, some "line"⟩, ⟨100, 90, some "line"⟩]], [⟨"b", 1, 0, 0, 1, 30, 0⟩], [⟨"top", 90, 120⟩]⟩
/-- an incompatible master (one point fewer, no component) -/
private def gC : MGlyph := ⟨700, 0, [[⟨0, 0, some "line"⟩, ⟨300, 0, some "line"⟩]], [], []⟩

/-- C19_master: three masters, one of them incompatible; its location returns it untouched -/
example : instanceAt glyphOps ⟨[([("wght", (0 : Q))], gA), ([("wght", 1)], gB), ([("wght", 1/2)], gC)]⟩ [("wght", 1/2)] [7, 7, 7]
    = .ok (some gC) :=
  C19_master glyphOps _ (by decide +kernel) (by simp) _

/-- ... while between the masters the same family fails (fontMath IndexError, re-raised as InstantiatorError) -/
example : instanceAt glyphOps ⟨[([("wght", (0 : Q))], gA), ([("wght", 1)], gB), ([("wght", 1/2)], gC)]⟩ [("wght", 1/4)]
    (scalars1 [0, 1, 1/2] (1/4)) = .error .indexError := by decide +kernel

/-- C19_blend / C19_blend_two: compatible masters, location 1/4 of the way: width 525, second point x = 125 -/
example : compatible [gA, gB] = true := by decide
example : instanceAt glyphOps ⟨[([("wght", (0 : Q))], gA), ([("wght", 1)], gB)]⟩ [("wght", 1/4)] (scalars1 [0, 1] (1/4))
    = .ok (some ⟨525, 0, [[⟨0, 0, some "line"⟩, ⟨125, 0, some "line"⟩, ⟨125/2, 165/2, some "line"⟩]],
                 [⟨"b", 1, 0, 0, 1, 15, 0⟩], [⟨"top", 60, 105⟩]⟩) := by decide +kernel

/-- C19_scalars1_master: five masters on both sides of the default -/
example : scalars1 [0, 1/2, 3/4, 1, -1] (3/4) = [0, 0, 1, 0, 0] := by decide +kernel
example : ([0, 1/2, 3/4, 1, -1] : List Q).Nodup := by decide +kernel

private def fSwap : Font :=
  { glyphs := [⟨"a", [97], gA⟩, ⟨"a.alt", [], { gB with comps := [⟨"a", 1, 0, 0, 1, 5, 0⟩] }⟩,
               ⟨"c", [99], { gC with comps := [⟨"a", 1, 0, 0, 1, 0, 0⟩, ⟨"a.alt", 1, 0, 0, 1, 0, 0⟩] }⟩]
    kerning := [(("a", "c"), -20), (("public.kern1.A", "a.alt"), 10)]
    groups := [("public.kern1.A", ["a", "c"])] }

/-- C19_swap_ref / involution / render: `a.alt` references its swap partner `a`; hypotheses hold -/
example : (fSwap.glyphs.map (·.name)).Nodup ∧ (fSwap.kerning.map (·.1)).Nodup ∧ fSwap.has "a" = true ∧ fSwap.has "a.alt" = true := by
  decide
example : (swapGlyphNames fSwap "a" "a.alt").map (fun f => f.glyphs.map (fun g => (g.name, g.g.comps.map (·.base)))) =
    .ok [("a", ["a.alt"]), ("a.alt", ["b"]), ("c", ["a.alt", "a"])] := by decide +kernel

/-- C19_kern_blend: two masters storing the same pairs, one of which blends to zero and is cleaned away -/
example : interpLoop (kernOps (groupMaps [])) none
    [([(("a", "b"), (-20 : Q)), (("a", "c"), 10)], 1/2), ([(("a", "b"), -40), (("a", "c"), -10)], 1/2)] =
    .ok (some [(("a", "b"), -30)]) := by decide +kernel

end NonVacuity

/-! ### L. the whole instance: the geometry predicate the driver evaluates holds of the model's output -/

theorem generateGlyphs_spec (ds : DS) (di : Nat) (round : Bool) (nl : Loc) :
    ∀ (src out : List SrcGlyph), generateGlyphs ds di round nl src = .ok out →
      ∀ g ∈ out, ∃ d ∈ src, d.name = g.name ∧
        (generateGlyphInstance ds di round d.name nl = .ok g.g ∨
         (ds.skip.contains d.name = true ∧ g.g = MGlyph.empty ∧
          ∃ e, generateGlyphInstance ds di round d.name nl = .error e))
  | [], out, h => by simp only [generateGlyphs, Except.ok.injEq] at h; subst h; simp
  | d :: rest, out, h => by
    unfold generateGlyphs at h
    cases hg : generateGlyphInstance ds di round d.name nl with
    | ok g =>
      simp only [hg] at h
      cases hr : generateGlyphs ds di round nl rest with
      | error e => simp [hr] at h
      | ok t =>
        simp only [hr, Except.ok.injEq] at h
        subst h
        intro g' hg'
        rcases mem_cons.mp hg' with he | hm
        · subst he; exact ⟨d, by simp, rfl, Or.inl hg⟩
        · obtain ⟨d', hd', h1, h2⟩ := generateGlyphs_spec ds di round nl rest t hr g' hm
          exact ⟨d', by simp [hd'], h1, h2⟩
    | error e =>
      simp only [hg] at h
      split at h
      · rename_i hskip
        cases hr : generateGlyphs ds di round nl rest with
        | error e => simp [hr] at h
        | ok t =>
          simp only [hr, Except.ok.injEq] at h
          subst h
          intro g' hg'
          rcases mem_cons.mp hg' with he | hm
          · subst he; exact ⟨d, by simp, rfl, Or.inr ⟨hskip, rfl, e, hg⟩⟩
          · obtain ⟨d', hd', h1, h2⟩ := generateGlyphs_spec ds di round nl rest t hr g' hm
            exact ⟨d', by simp [hd'], h1, h2⟩
      · cases h

/-- the glyph part of `C19_swap_ref` needs no hypothesis on the kerning -/
theorem swap_glyphs_ref (f f1 : Font) (a b : String) (hnd : (f.glyphs.map (·.name)).Nodup)
    (h : swapGlyphNames f a b = .ok f1) : f1.glyphs = (swapRef f a b).glyphs := by
  unfold swapGlyphNames at h
  split at h
  · rename_i ga gb hga hgb
    injection h with h; subst h
    rw [swapRef_glyphs]
    simp only [map_map]
    apply map_congr_left
    intro g hg
    simp only [Function.comp_def, remapComps, swapOutlines, renameOne_eq_sigma, swapT]
    by_cases h1 : g.name = a
    · have hs : sigma a b a = b := by simp [sigma]
      simp [h1, hs, hgb]
    · by_cases h2 : g.name = b
      · have h1' : ¬ b = a := fun e => h1 (h2.trans e)
        have hs : sigma a b b = a := by simp [sigma, h1']
        simp [h1', h2, hs, hga]
      · have hs : sigma a b g.name = g.name := by simp [sigma, h1, h2]
        have hself : f.get? g.name = some g := get?_of_mem_nodup _ hnd g hg
        simp [h1, h2, hs, hself]
  · cases h

theorem swapRef_glyphs_congr (f f' : Font) (a b : String) (h : f.glyphs = f'.glyphs) :
    (swapRef f a b).glyphs = (swapRef f' a b).glyphs := by
  rw [swapRef_glyphs, swapRef_glyphs, h]
  apply map_congr_left
  intro g _
  unfold swapT Font.get?
  rw [h]

theorem swapRef_names (f : Font) (a b : String) : (swapRef f a b).glyphs.map (·.name) = f.glyphs.map (·.name) := by
  rw [swapRef_glyphs, map_map]
  apply map_congr_left
  intro g _
  exact swapT_name f a b g

/-- undoing the substitutions (in reverse order) on the glyphs of the substituted font gives the glyphs before -/
theorem unswap_applySwaps : ∀ (swaps : List (String × String)) (f f' : Font),
    (f.glyphs.map (·.name)).Nodup → applySwaps f swaps = .ok f' →
    (unswap f' (swaps.filter (fun s => s.1 != s.2))).glyphs = f.glyphs
  | [], f, f', _, h => by simp only [applySwaps, Except.ok.injEq] at h; subst h; rfl
  | (a, b) :: rest, f, f', hnd, h => by
    unfold applySwaps at h
    split at h
    · rename_i hab
      cases hs : swapGlyphNames f a b with
      | error e => simp [hs] at h
      | ok f1 =>
        simp only [hs] at h
        have hn1 : f1.glyphs.map (·.name) = f.glyphs.map (·.name) := swap_names f f1 a b hs
        have ih := unswap_applySwaps rest f1 f' (by rw [hn1]; exact hnd) h
        have hab' : ((a, b).1 != (a, b).2) = true := hab
        simp only [filter_cons, hab', if_true]
        unfold unswap at ih ⊢
        simp only [reverse_cons, foldl_append, foldl_cons, foldl_nil]
        generalize hF : (rest.filter (fun s => s.1 != s.2)).reverse.foldl (fun f s => swapRef f s.1 s.2) f' = F at ih ⊢
        rw [swapRef_glyphs_congr F f1 a b ih, swapRef_glyphs_congr f1 (swapRef f a b) a b (swap_glyphs_ref f f1 a b hnd hs),
          C19_swap_involution f a b hnd]
    · rename_i hab
      have hab' : ((a, b).1 != (a, b).2) = false := by simpa using hab
      simp only [filter_cons, hab', Bool.false_eq_true, if_false]
      exact unswap_applySwaps rest f f' hnd h

theorem evalConds_known (loc : Loc) : ∀ (cs : List Cond), (cs.all (fun c => (alookup c.name loc).isSome)) = true →
    evalConds loc cs = .ok (cs.all (condHolds loc))
  | [], _ => rfl
  | c :: cs, h => by
    simp only [all_cons, Bool.and_eq_true] at h
    unfold evalConds
    cases hl : alookup c.name loc with
    | none => simp [hl] at h
    | some v =>
      simp only [all_cons, condHolds, hl]
      have ih := evalConds_known loc cs h.2
      cases hmin : c.minimum <;> cases hmax : c.maximum <;>
        simp only [Option.all_none, Option.all_some, Bool.true_and, Bool.and_true] <;>
        (split <;> rename_i hok <;> simp_all [Rat.not_lt])

theorem evalRule_known (loc : Loc) : ∀ (css : List (List Cond)),
    (css.all (fun cs => cs.all (fun c => (alookup c.name loc).isSome))) = true →
    evalRule loc css = .ok (css.any (fun cs => cs.all (condHolds loc)))
  | [], _ => rfl
  | cs :: css, h => by
    simp only [all_cons, Bool.and_eq_true] at h
    unfold evalRule
    rw [evalConds_known loc cs h.1]
    cases hc : cs.all (condHolds loc) with
    | true => simp only [any_cons, hc, Bool.true_or]
    | false => simp only [any_cons, hc, Bool.false_or]; exact evalRule_known loc css h.2

/-- with every condition axis known, `process_rules_swaps` is the declarative list of substitutions in force -/
theorem processRulesSwaps_known (loc : Loc) (names : List String) : ∀ (rules : List Rule), rulesKnown loc rules = true →
    processRulesSwaps rules loc names =
      .ok ((rules.filter (ruleActive loc)).flatMap (fun r => r.subs.filter (fun s => names.contains s.1)))
  | [], _ => rfl
  | r :: rules, h => by
    unfold rulesKnown at h
    simp only [all_cons, Bool.and_eq_true] at h
    unfold processRulesSwaps
    rw [evalRule_known loc r.condSets h.1, processRulesSwaps_known loc names rules (by unfold rulesKnown; exact h.2)]
    simp only [filter_cons, ruleActive]
    by_cases hc : (r.condSets.any (fun cs => cs.all (condHolds loc))) = true <;> simp [hc]

/-! ### G'. which sources are masters of a glyph: the two-step filter of `collect_glyph_masters` is order free -/

theorem filterMap_congr_all {α β : Type} {f g : α → Option β} (h : ∀ x, f x = g x) (l : List α) :
    l.filterMap f = l.filterMap g := by
  have : f = g := funext h
  rw [this]

theorem zipIdx_filterMap_forget {α β γ : Type} (f : α → Option β) (h : α → β → γ) (p : γ → Bool) :
    ∀ (l : List α) (k : Nat),
    (((l.zipIdx k).filterMap (fun (e : α × Nat) => (f e.1).map (fun g => (e.2, h e.1 g)))).filter (fun e => p e.2)).map (·.2)
      = l.filterMap (fun s => (f s).bind (fun g => if p (h s g) then some (h s g) else none))
  | [], _ => by simp
  | a :: l, k => by
    have ih := zipIdx_filterMap_forget f h p l (k + 1)
    simp only [zipIdx_cons, filterMap_cons]
    cases hf : f a with
    | none => simpa using ih
    | some g =>
      simp only [Option.map_some, filter_cons, Option.bind_some]
      by_cases hp : p (h a g) = true
      · simp only [hp, if_true, map_cons]; rw [ih]
      · simp only [hp, Bool.false_eq_true, if_false]; rw [ih]

/-- "the default glyph is empty", as the loop of `collect_glyph_masters` finds it out (flag set when the loop reaches
    index `default_source_idx`), is a fact about the default source alone -/
theorem collect_defaultEmpty (ds : DS) (di : Nat) (name : String) :
    (ds.sources.zipIdx.filterMap (fun (e : Source × Nat) =>
      (e.1.glyphs.find? (fun g => g.name == name)).map (fun g => (e.2, nloc ds e.1.loc, g.g)))).any
      (fun e => e.1 == di && isEmptyGlyph e.2.2) = defaultGlyphEmpty ds di name := by
  rw [Bool.eq_iff_iff]
  simp only [any_eq_true, mem_filterMap, Option.map_eq_some_iff, Bool.and_eq_true, beq_iff_eq]
  unfold defaultGlyphEmpty srcGlyph
  constructor
  · rintro ⟨e, ⟨⟨s, i⟩, hmem, g, hg, rfl⟩, hi, he⟩
    have hs := mem_zipIdx_iff_getElem?.1 hmem
    simp only at hi hs he
    subst hi
    simp only [hs, hg, Option.map_some]
    exact he
  · intro h
    cases hs : ds.sources[di]? with
    | none => simp [hs] at h
    | some s =>
      cases hg : s.glyphs.find? (fun g => g.name == name) with
      | none => simp [hs, hg] at h
      | some g =>
        simp only [hs, hg, Option.map_some] at h
        exact ⟨(di, nloc ds s.loc, g.g), ⟨(s, di), mem_zipIdx_iff_getElem?.2 hs, g, hg, rfl⟩, rfl, h⟩

/-- **C19_collect_ref**: the masters `collect_glyph_masters` returns are exactly the declarative `glyphMastersRef`:
    every source that has the glyph, minus - only if the default source's glyph is not empty - those where it is empty.
    In particular the result does not depend on where in the source list the default source stands (a single pass
    that drops an empty glyph before it has seen the default glyph does not have this property). -/
theorem C19_collect_ref (ds : DS) (di : Nat) (name : String) :
    collectGlyphMasters ds di name = glyphMastersRef ds di name := by
  unfold collectGlyphMasters glyphMastersRef
  simp only
  rw [collect_defaultEmpty]
  have hall := zipIdx_filterMap_forget (fun s : Source => s.glyphs.find? (fun g => g.name == name))
    (fun s g => (nloc ds s.loc, g.g)) (fun _ => true) ds.sources 0
  have hne := zipIdx_filterMap_forget (fun s : Source => s.glyphs.find? (fun g => g.name == name))
    (fun s g => (nloc ds s.loc, g.g)) (fun e => !isEmptyGlyph e.2) ds.sources 0
  rw [filter_eq_self.2 (fun _ _ => rfl)] at hall
  cases hD : defaultGlyphEmpty ds di name with
  | true =>
    simp only [Bool.not_true, Bool.false_and, Bool.false_eq_true, if_false, Bool.true_or, if_true]
    rw [hall]
    apply filterMap_congr_all
    intro s
    unfold srcGlyph
    cases s.glyphs.find? (fun g => g.name == name) <;> simp
  | false =>
    simp only [Bool.not_false, Bool.true_and, Bool.false_or]
    have hrhs : ds.sources.filterMap (fun s => (srcGlyph s name).bind (fun g =>
          if (!(g.contours.isEmpty && g.comps.isEmpty)) = true then some (nloc ds s.loc, g) else none))
        = ds.sources.filterMap (fun s => (s.glyphs.find? (fun g => g.name == name)).bind (fun g =>
          if (!isEmptyGlyph (nloc ds s.loc, g.g).2) = true then some (nloc ds s.loc, g.g) else none)) := by
      apply filterMap_congr_all
      intro s
      unfold srcGlyph isEmptyGlyph
      cases s.glyphs.find? (fun g => g.name == name) <;> simp
    rw [hrhs, ← hne]
    split
    · rfl
    · rename_i hoe
      congr 1
      symm
      rw [filter_eq_self]
      intro e he
      -- no empty glyph among the others (hoe) and none at the default (hD)
      have h1 := collect_defaultEmpty ds di name
      rw [hD] at h1
      simp only [Bool.not_eq_true] at hoe
      rw [any_eq_false] at h1 hoe
      have a1 := h1 e he
      have a2 := hoe e he
      cases hemp : isEmptyGlyph e.2.2 with
      | false => rfl
      | true =>
        exfalso
        rw [hemp] at a1 a2
        cases hq : (e.1 == di) <;> simp [hq, bne] at a1 a2

/-- Light, Regular (default, listed second), Bold: `space` is empty in all three, only its advance varies -/
def exSpace (w : Q) (l : Q) : Source :=
  ⟨[("Weight", l)], false, [⟨"space", [32], ⟨w, 0, [], [], []⟩⟩], [], [], []⟩
def exOrderDS : DS := ⟨[⟨"Weight", "wght", 100, 400, 900, []⟩], [exSpace 200 100, exSpace 250 400, exSpace 320 900], [], [], []⟩

example : findDefault exOrderDS = some 1 := by decide +kernel
example : defaultGlyphEmpty exOrderDS 1 "space" = true := by decide +kernel
/-- all three masters take part although the first is met before the default source -/
example : (collectGlyphMasters exOrderDS 1 "space").map (·.2.width) = [200, 250, 320] := by
  rw [C19_collect_ref]; decide +kernel

/-- **C19_instance_geometry**: for every instance the model produces, undoing the substitutions in force (the
    declarative `specSwaps`) leaves a font in which every glyph of the default source satisfies `holdsGlyph` - the
    master itself at a master location, the weighted sum for compatible masters elsewhere, `otRound`ed iff
    `round_geometry` - or is a non-exported glyph that could not be instantiated and was left empty.
    Hypotheses: glyph names of the default source are dictionary keys; every rule condition names an axis. -/
theorem C19_instance_geometry (ds : DS) (round : Bool) (inst : Instance) (out : Output) (c : Ctx)
    (h : generateInstance ds round inst = .ok out) (hc : mkCtx ds round inst = some c)
    (hnd : (c.dsrc.glyphs.map (·.name)).Nodup) (hrk : rulesKnown c.location ds.rules = true) :
    ∀ d ∈ c.dsrc.glyphs, ∃ g, (unswap out.font c.swaps).get? d.name = some g ∧
      (holdsGlyph 0 round (c.glyphItems d.name) (c.ws ((c.glyphItems d.name).map (·.1))) c.nl g.g = true ∨
       (ds.skip.contains d.name = true ∧ g.g = MGlyph.empty)) := by
  obtain ⟨di, dsrc, glyphs, k, swaps, hdi, hsrc, hgl, hsw, hfont, _, _⟩ := generateInstance_inv ds round inst out h
  have hctx : c = ⟨ds, round, inst, di, dsrc, dictMerge (defaultDesignLoc ds) inst.loc,
      nloc ds (dictMerge (defaultDesignLoc ds) inst.loc)⟩ := by
    unfold mkCtx at hc
    simp only [hdi, hsrc, Option.some.injEq] at hc
    exact hc.symm
  subst hctx
  simp only at hnd hrk ⊢
  have hnames := (generateGlyphs_names ds di round _ _ _ hgl).1
  rw [processRulesSwaps_known _ _ _ hrk] at hsw
  injection hsw with hsw
  have hsp : Ctx.swaps ⟨ds, round, inst, di, dsrc, dictMerge (defaultDesignLoc ds) inst.loc,
      nloc ds (dictMerge (defaultDesignLoc ds) inst.loc)⟩ = swaps.filter (fun s => s.1 != s.2) := by
    simp only [Ctx.swaps, specSwaps, Ctx.names, hsw]
  rw [hsp]
  have hun := unswap_applySwaps swaps _ out.font (by simp only; rw [hnames]; exact hnd) hfont
  simp only at hun
  intro d hd
  -- the glyph generated for `d`
  have hdn : d.name ∈ glyphs.map (·.name) := by rw [hnames]; exact mem_map_of_mem (f := (·.name)) hd
  obtain ⟨g, hg, hgn⟩ := mem_map.mp hdn
  have hfind : (unswap out.font (swaps.filter (fun s => s.1 != s.2))).get? d.name = some g := by
    unfold Font.get?
    rw [hun, ← hgn]
    exact get?_of_mem_nodup glyphs (by rw [hnames]; exact hnd) g hg
  refine ⟨g, hfind, ?_⟩
  obtain ⟨d', hd', hn', hor⟩ := generateGlyphs_spec ds di round _ _ _ hgl g hg
  have hdd : d' = d := by
    have h1 : d'.name = d.name := by rw [hn', hgn]
    have := get?_of_mem_nodup _ hnd d' hd'
    rw [h1, get?_of_mem_nodup _ hnd d hd] at this
    injection this with this; exact this.symm
  subst hdd
  rcases hor with hok | ⟨hskip, hempty, _⟩
  · left
    simp only [Ctx.glyphItems, ← C19_collect_ref]
    exact C19_glyph ds di round d'.name _ g.g hok
  · right
    exact ⟨hskip, hempty⟩

/-! ### M. the declarative kerning predicate holds of the model -/

theorem kmulRaw_keys (A : KDict) (s : Q) : (A.map (fun e => (e.1, e.2 * s))).map (·.1) = A.map (·.1) := by
  simp [map_map, Function.comp_def]

theorem kround_keys (K : KDict) : (kround K).map (·.1) = K.map (·.1) := by
  simp [kround, map_map, Function.comp_def]

theorem kernValueOk_exact (v : Q) : kernValueOk 0 false v v = true := by
  simp [kernValueOk, close_self]

theorem kernValueOk_round (v : Q) : kernValueOk 0 true v (roundHalfAway v : Q) = true := by
  simp [kernValueOk, C19_kern_round]

/-- **C19_holdsKern**: whatever kerning the model's `instance_at` produces (then rounds iff `round_geometry`) satisfies
    `holdsKern`: exactly the master's pairs and values at a master location; for masters storing the same pairs the
    blend of every stored pair, nothing else, only zero blends missing.  Hypothesis: every master's kerning is a dict. -/
theorem C19_holdsKern (round : Bool) (gm : GroupMaps) (items : List (Loc × KDict)) (ws : List Q) (nl : Loc) (K : KDict)
    (hok : locationsOk (items.map (·.1)) = true) (hdict : ∀ e ∈ items, (e.2.map (·.1)).Nodup)
    (h : instanceAt (kernOps gm) ⟨items⟩ nl ws = .ok (some K)) :
    holdsKern 0 round gm items ws nl (if round then kround K else K) = true := by
  unfold holdsKern
  cases hm : masterAt items nl with
  | some m =>
    rw [instanceAt_hit (kernOps gm) hok hm ws] at h
    injection h with h; injection h with h; subst h
    obtain ⟨l, hl, _⟩ := masterAt_some hm
    have hnd := hdict (l, m) hl
    simp only at hnd
    cases round with
    | false =>
      simp only [Bool.false_eq_true, if_false, Bool.and_eq_true, decide_eq_true_eq, all_eq_true]
      refine ⟨hnd, isPerm_iff.mpr (Perm.refl _), ?_⟩
      intro e he
      rw [alookup_of_mem_nodup m e.1 e.2 hnd he]
      exact kernValueOk_exact _
    | true =>
      simp only [if_true, Bool.and_eq_true, decide_eq_true_eq, all_eq_true, kround_keys]
      refine ⟨hnd, isPerm_iff.mpr (Perm.refl _), ?_⟩
      intro e he
      obtain ⟨x, hx, rfl⟩ := mem_map.mp he
      rw [alookup_of_mem_nodup m x.1 x.2 hnd hx]
      exact kernValueOk_round _
  | none =>
    rw [instanceAt_miss (kernOps gm) hm ws, interpLoop_filter] at h
    have hcs : contributing (items.map (·.2)) ws = ((items.map (·.2)).zip ws).filter (fun p => p.2 != 0) := rfl
    simp only [hcs]
    cases hc : ((items.map (·.2)).zip ws).filter (fun p => p.2 != 0) with
    | nil =>
      rw [hc] at h
      simp [interpLoop] at h
    | cons p rest =>
      obtain ⟨k0, s0⟩ := p
      rw [hc] at h
      have hnz : ∀ p ∈ (k0, s0) :: rest, p.2 ≠ 0 := by
        intro p hp; rw [← hc] at hp
        have := (mem_filter.mp hp).2
        simpa using this
      have hmem : ∀ p ∈ (k0, s0) :: rest, (p.1.map (·.1)).Nodup := by
        intro p hp; rw [← hc] at hp
        have hz := (mem_filter.mp hp).1
        have h1 : p.1 ∈ items.map (·.2) := (of_mem_zip hz).1
        obtain ⟨e, he, hee⟩ := mem_map.mp h1
        rw [← hee]; exact hdict e he
      by_cases hsame : sameKeys (((k0, s0) :: rest).map (·.1)) = true
      · simp only [hsame, if_true]
        have hkeys : ∀ p ∈ (k0, s0) :: rest, (p.1.map (·.1)).Nodup ∧ ∀ k, k ∈ p.1.map (·.1) ↔ k ∈ k0.map (·.1) := by
          intro p hp
          refine ⟨hmem p hp, ?_⟩
          rcases mem_cons.mp hp with he | hr
          · subst he; intro k; exact Iff.rfl
          · simp only [sameKeys, map_cons, all_eq_true, mem_map] at hsame
            have := hsame p.1 ⟨p, hr, rfl⟩
            intro k; exact (isPerm_iff.mp this).mem_iff
        obtain ⟨K', hK', hnd, hstored, hmissing, _⟩ := C19_kern_blend gm (k0.map (·.1)) k0 s0 rest hnz hkeys
        rw [hK'] at h
        injection h with h; injection h with h; subst h
        have hkeys_out : (if round then kround K' else K').map (·.1) = K'.map (·.1) := by
          cases round <;> simp [kround_keys]
        simp only [Bool.and_eq_true, decide_eq_true_eq, all_eq_true, hkeys_out]
        refine ⟨hnd, ?_, ?_⟩
        · intro e he
          cases round with
          | false =>
            simp only [Bool.false_eq_true, if_false] at he
            obtain ⟨hU, hv⟩ := hstored e he
            exact ⟨contains_iff_mem.mpr hU, by rw [hv]; exact kernValueOk_exact _⟩
          | true =>
            simp only [if_true] at he
            obtain ⟨x, hx, rfl⟩ := mem_map.mp he
            obtain ⟨hU, hv⟩ := hstored x hx
            exact ⟨contains_iff_mem.mpr hU, by simp only [hv]; exact kernValueOk_round _⟩
        · intro e he
          by_cases hin : e.1 ∈ K'.map (·.1)
          · simp [hin]
          · have := hmissing e.1 (mem_map_of_mem (f := (·.1)) he) hin
            simp [hin, this, close_self]
      · simp only [hsame, Bool.false_eq_true, if_false, Bool.and_true, decide_eq_true_eq]
        -- masters storing different pairs: only "the result is a dict" is claimed
        have hgen : ∀ (l : List (KDict × Q)) (A : KDict), (A.map (·.1)).Nodup → (∀ p ∈ l, (p.1.map (·.1)).Nodup) →
            ∀ R, interpLoop (kernOps gm) (some A) l = .ok (some R) → (R.map (·.1)).Nodup := by
          intro l
          induction l with
          | nil => intro A hA _ R hR; simp only [interpLoop] at hR; injection hR with hR; injection hR with hR; subst hR; exact hA
          | cons q l ih =>
            intro A hA hl R hR
            unfold interpLoop at hR
            split at hR
            · exact ih A hA (fun p hp => hl p (by simp [hp])) R hR
            · have hstep : ((kadd gm A (kmul gm q.1 q.2)).map (·.1)).Nodup := by
                unfold kadd kcleanup kaddRaw
                refine Pairwise.sublist (filter_sublist.map _) ?_
                simp only [map_map, Function.comp_def, map_id']
                refine unionKeys_nodup hA ?_
                unfold kmul kcleanup
                refine Pairwise.sublist (filter_sublist.map _) ?_
                rw [kmulRaw_keys]; exact hl q (by simp)
              exact ih _ hstep (fun p hp => hl p (by simp [hp])) R hR
        have h1 : (s0 == 0) = false := by simpa using hnz (k0, s0) (by simp)
        unfold interpLoop at h
        simp only [h1, Bool.false_eq_true, if_false] at h
        have hA : ((kmul gm k0 s0).map (·.1)).Nodup := by
          unfold kmul kcleanup
          refine Pairwise.sublist (filter_sublist.map _) ?_
          rw [kmulRaw_keys]; exact hmem (k0, s0) (by simp)
        have := hgen rest _ hA (fun p hp => hmem p (by simp [hp])) K h
        cases round <;> simpa [kround_keys] using this

end Ufo2ft.C19
