import Ufo2ftModel.Props.C09
set_option linter.unusedSectionVars false
/-!
C09, pipeline level, part 1: a predicate on (key, glyph) pairs that the per-glyph operations keep is kept by the WHOLE
interpolatable pipeline — with or without an Instantiator, whatever the Instantiator's Variator cache holds (stale or not).
Used for: "a glyph's name is its key", "every component reference follows component references of the sources".
-/
namespace Ufo2ft.C09
open Ufo2ft List

/-! ### small facts -/

theorem alookup_mem {ν} (k : String) (l : List (String × ν)) (v : ν) (h : alookup k l = some v) : (k, v) ∈ l := by
  induction l with
  | nil => cases h
  | cons a l ih =>
    obtain ⟨k', v'⟩ := a
    simp only [alookup] at h
    by_cases hk : (k' == k) = true
    · rw [if_pos hk] at h
      have : k' = k := by simpa using hk
      cases h; subst this; exact List.mem_cons_self
    · rw [if_neg hk] at h; exact List.mem_cons_of_mem _ (ih h)

theorem alookup_isSome_of_mem {ν} (k : String) (l : List (String × ν)) (v : ν) (h : (k, v) ∈ l) :
    (alookup k l).isSome = true := by
  induction l with
  | nil => cases h
  | cons a l ih =>
    obtain ⟨k', v'⟩ := a
    simp only [alookup]
    by_cases hk : (k' == k) = true
    · rw [if_pos hk]; rfl
    · rw [if_neg hk]
      rcases List.mem_cons.mp h with h | h
      · cases h; simp at hk
      · exact ih h

theorem get?_mem (m : GlyphSet) (n : String) (g : Glyph) (h : m.get? n = some g) : (n, g) ∈ m := alookup_mem n m g h

theorem get?_of_mem_nodup : ∀ (m : GlyphSet) (n : String) (g : Glyph), m.names.Nodup → (n, g) ∈ m → m.get? n = some g := by
  intro m
  induction m with
  | nil => intro n g _ h; cases h
  | cons a m ih =>
    intro n g hnd h
    obtain ⟨k, v⟩ := a
    simp only [GlyphSet.names, List.map_cons, List.nodup_cons] at hnd
    simp only [GlyphSet.get?, alookup]
    rcases List.mem_cons.mp h with h | h
    · cases h; simp
    · by_cases hk : (k == n) = true
      · exfalso
        have : k = n := by simpa using hk
        subst this
        exact hnd.1 (List.mem_map.mpr ⟨(k, g), h, rfl⟩)
      · rw [if_neg hk]; exact ih n g hnd.2 h

theorem alookup_append {ν} (n : String) (a b : List (String × ν)) :
    alookup n (a ++ b) = match alookup n a with | some v => some v | none => alookup n b := by
  induction a with
  | nil => rfl
  | cons e a ih =>
    obtain ⟨k, v⟩ := e
    simp only [List.cons_append, alookup]
    by_cases hk : (k == n) = true
    · simp [hk]
    · simp only [hk]; exact ih

theorem mem_getD_mem (ms : Masters) (i : Nat) (e : String × Glyph) (h : e ∈ ms.getD i []) : ms.getD i [] ∈ ms := by
  by_cases hi : i < ms.length
  · simp only [List.getD_eq_getElem?_getD, List.getElem?_eq_getElem hi, Option.getD_some]
    exact List.getElem_mem hi
  · rw [getD_nil_of_le ms i (by omega)] at h; cases h

theorem mem_setAt (ms : Masters) (i : Nat) (m m' : GlyphSet) (h : m' ∈ setAt ms i m) : m' = m ∨ m' ∈ ms := by
  simp only [setAt] at h
  rcases List.mem_or_eq_of_mem_set h with h | h
  · exact Or.inr h
  · exact Or.inl h

theorem mem_set (m : GlyphSet) (n : String) (g : Glyph) (e : String × Glyph) (h : e ∈ m.set n g) : e = (n, g) ∨ e ∈ m := by
  simp only [GlyphSet.set, List.mem_map] at h
  obtain ⟨e0, he0, rfl⟩ := h
  by_cases hk : (e0.1 == n) = true
  · rw [if_pos hk]; exact Or.inl rfl
  · rw [if_neg hk]; exact Or.inr he0

/-- a fold that picks one element satisfying `P` -/
theorem foldl_pick {α} (P : α → Prop) (f : Option α → α → Option α)
    (hf : ∀ acc e r, f acc e = some r → (r = e ∧ P e) ∨ acc = some r) (l : List α) :
    ∀ acc r, l.foldl f acc = some r → (r ∈ l ∧ P r) ∨ acc = some r := by
  induction l with
  | nil => intro acc r h; exact Or.inr h
  | cons a l ih =>
    intro acc r h
    simp only [List.foldl_cons] at h
    rcases ih _ r h with ⟨h1, h2⟩ | h1
    · exact Or.inl ⟨List.mem_cons_of_mem _ h1, h2⟩
    · rcases hf acc a r h1 with ⟨h2, h3⟩ | h2
      · subst h2; exact Or.inl ⟨List.mem_cons_self, h3⟩
      · exact Or.inr h2

theorem below_spec (pts : List (Q × Glyph)) (t : Q) (r : Q × Glyph) (h : below pts t = some r) :
    r ∈ pts ∧ ((0 < t ∧ 0 < r.1 ∧ r.1 ≤ t) ∨ (t < 0 ∧ r.1 < 0 ∧ t ≤ r.1)) := by
  unfold below at h
  have := foldl_pick (fun e : Q × Glyph => (0 < t ∧ 0 < e.1 ∧ e.1 ≤ t) ∨ (t < 0 ∧ e.1 < 0 ∧ t ≤ e.1)) _ ?_ pts none r h
  · rcases this with h | h
    · exact h
    · cases h
  · intro acc e r hr
    split at hr
    · rename_i hc
      have hP : (0 < t ∧ 0 < e.1 ∧ e.1 ≤ t) ∨ (t < 0 ∧ e.1 < 0 ∧ t ≤ e.1) := by
        simpa [Bool.or_eq_true, Bool.and_eq_true, decide_eq_true_eq, and_assoc] using hc
      cases acc with
      | none => simp only [Option.some.injEq] at hr; exact Or.inl ⟨hr.symm, hP⟩
      | some a =>
        dsimp only at hr
        split at hr
        · simp only [Option.some.injEq] at hr; exact Or.inl ⟨hr.symm, hP⟩
        · exact Or.inr hr
    · exact Or.inr hr

theorem above_spec (pts : List (Q × Glyph)) (t : Q) (r : Q × Glyph) (h : above pts t = some r) :
    r ∈ pts ∧ ((0 < t ∧ t ≤ r.1) ∨ (t < 0 ∧ r.1 ≤ t)) := by
  unfold above at h
  have := foldl_pick (fun e : Q × Glyph => (0 < t ∧ t ≤ e.1) ∨ (t < 0 ∧ e.1 ≤ t)) _ ?_ pts none r h
  · rcases this with h | h
    · exact h
    · cases h
  · intro acc e r hr
    split at hr
    · rename_i hc
      have hP : (0 < t ∧ t ≤ e.1) ∨ (t < 0 ∧ e.1 ≤ t) := by
        simpa [Bool.or_eq_true, Bool.and_eq_true, decide_eq_true_eq] using hc
      cases acc with
      | none => simp only [Option.some.injEq] at hr; exact Or.inl ⟨hr.symm, hP⟩
      | some a =>
        dsimp only at hr
        split at hr
        · simp only [Option.some.injEq] at hr; exact Or.inl ⟨hr.symm, hP⟩
        · exact Or.inr hr
    · exact Or.inr hr

theorem ratio_range (lo t hi : Q) (h1 : lo < t) (h2 : t < hi) :
    0 < (t - lo) / (hi - lo) ∧ (t - lo) / (hi - lo) < 1 := by
  have hd : 0 < hi - lo := by grind
  constructor
  · rw [Rat.lt_div_iff hd]; grind
  · rw [Rat.div_lt_iff hd]; grind

theorem ratio_range' (lo t hi : Q) (h1 : t < lo) (h2 : hi < t) :
    0 < (t - lo) / (hi - lo) ∧ (t - lo) / (hi - lo) < 1 := by
  have e : (t - lo) / (hi - lo) = (lo - t) / (lo - hi) := by
    have hne : hi - lo ≠ 0 := by grind
    have hne' : lo - hi ≠ 0 := by grind
    rw [Rat.div_def, Rat.div_def]
    have hx : (lo - hi) * (lo - hi)⁻¹ = 1 := Rat.mul_inv_cancel _ hne'
    have h3 : (hi - lo)⁻¹ = -(lo - hi)⁻¹ := Rat.inv_eq_of_mul_eq_one (by grind)
    rw [h3]; grind
  rw [e]
  have hd : 0 < lo - hi := by grind
  constructor
  · rw [Rat.lt_div_iff hd]; grind
  · rw [Rat.div_lt_iff hd]; grind

/-! ### what `interpAt` returns -/

/-- `interpAt` returns a master's glyph, or a true interpolation `a·(1-s) + b·s` with `0 < s < 1` of two of them -/
theorem interpAt_cases (pts : List (Q × Glyph)) (t : Q) (g : Glyph) (h : interpAt pts t = some g) :
    (∃ e ∈ pts, e.2 = g) ∨
    (∃ a ∈ pts, ∃ b ∈ pts, ∃ s : Q, 0 < s ∧ s < 1 ∧ lerpGlyph s a.2 b.2 = some g) := by
  unfold interpAt at h
  cases h0 : pts.find? (fun e => e.1 == t) with
  | some e =>
    rw [h0] at h; simp only [Option.some.injEq] at h
    exact Or.inl ⟨e, List.mem_of_find?_eq_some h0, h⟩
  | none =>
    rw [h0] at h; dsimp only at h
    have hnot : ∀ e ∈ pts, e.1 ≠ t := by
      intro e he heq
      have := List.find?_eq_none.mp h0 e he
      simp [heq] at this
    cases hd : pts.find? (fun e => e.1 == 0) with
    | none => rw [hd] at h; cases h
    | some d =>
      rw [hd] at h; dsimp only at h
      have hdm : d ∈ pts := List.mem_of_find?_eq_some hd
      have hd0 : d.1 = 0 := by simpa using List.find?_some hd
      cases ha : above pts t with
      | none => rw [ha] at h; simp only [Option.some.injEq] at h; exact Or.inl ⟨d, hdm, h⟩
      | some hi =>
        rw [ha] at h; dsimp only at h
        obtain ⟨him, hic⟩ := above_spec pts t hi ha
        have hine := hnot hi him
        cases hb : below pts t with
        | some l =>
          rw [hb] at h; dsimp only at h
          obtain ⟨hlm, hlc⟩ := below_spec pts t l hb
          have hlne := hnot l hlm
          have hrange : 0 < (t - l.1) / (hi.1 - l.1) ∧ (t - l.1) / (hi.1 - l.1) < 1 := by
            rcases hic with ⟨h1, h2⟩ | ⟨h1, h2⟩
            · rcases hlc with ⟨_, _, h3⟩ | ⟨h3, _, _⟩
              · exact ratio_range _ _ _ (by grind) (by grind)
              · exfalso; grind
            · rcases hlc with ⟨h3, _, _⟩ | ⟨_, _, h3⟩
              · exfalso; grind
              · exact ratio_range' _ _ _ (by grind) (by grind)
          split at h
          · cases h
          · split at h
            · exact Or.inr ⟨l, hlm, hi, him, _, hrange.1, hrange.2, h⟩
            · exact Or.inr ⟨hi, him, l, hlm, 1 - (t - l.1) / (hi.1 - l.1), by grind, by grind, h⟩
        | none =>
          rw [hb] at h; dsimp only at h
          have hrange : 0 < (t - d.1) / (hi.1 - d.1) ∧ (t - d.1) / (hi.1 - d.1) < 1 := by
            rcases hic with ⟨h1, h2⟩ | ⟨h1, h2⟩
            · exact ratio_range _ _ _ (by rw [hd0]; exact h1) (by grind)
            · exact ratio_range' _ _ _ (by rw [hd0]; exact h1) (by grind)
          split at h
          · cases h
          · split at h
            · exact Or.inr ⟨d, hdm, hi, him, _, hrange.1, hrange.2, h⟩
            · exact Or.inr ⟨hi, him, d, hdm, 1 - (t - d.1) / (hi.1 - d.1), by grind, by grind, h⟩


/-! ### a glyph predicate that every per-glyph operation keeps -/

/-- closure properties of a predicate on (key, glyph) pairs -/
structure GInv (G : String → Glyph → Prop) : Prop where
  name : ∀ n g, G n g → g.name = n
  lerp : ∀ n s a b g, 0 < s → s < 1 → G n a → G n b → lerpGlyph s a b = some g → G n g
  decomp : ∀ (layer : GlyphSet) nested incl n g g', (∀ e ∈ layer, G e.1 e.2) → G n g →
    decomposeGlyph layer nested incl g = .ok g' → G n g'
  flat : ∀ (layer : GlyphSet) n g cs f, (∀ e ∈ layer, G e.1 e.2) → G n g →
    flattenGlyphComps layer g.comps = .ok (cs, f) → G n { g with comps := cs }
  rev : ∀ n g, G n g → G n { g with contours := g.contours.map reverseContour }

def SetQ (G : String → Glyph → Prop) (m : GlyphSet) : Prop := ∀ e ∈ m, G e.1 e.2
def MastersQ (G : String → Glyph → Prop) (ms : Masters) : Prop := ∀ m ∈ ms, SetQ G m

/-- every glyph the state holds anywhere — glyph sets, pristine source layers, cached Variators — satisfies `Q` -/
structure StQ (G : String → Glyph → Prop) (s : St) : Prop where
  ms : MastersQ G s.ms
  layers : MastersQ G s.layers
  cache : ∀ e ∈ s.cache, ∀ x ∈ e.2, G e.1 x.2

section generic
variable {G : String → Glyph → Prop} (hQ : GInv G)
include hQ

omit hQ in
theorem getD_setQ {ms : Masters} (h : MastersQ G ms) (i : Nat) : SetQ G (ms.getD i []) := by
  intro e he
  exact h _ (mem_getD_mem ms i e he) e he

theorem collectMasters_Q (I : Inst) (ms : Masters) (h : MastersQ G ms) (n : String) (pts : List (Q × Glyph))
    (hc : collectMasters I ms n = some pts) : ∀ x ∈ pts, G n x.2 := by
  unfold collectMasters at hc
  cases hd : (ms.getD I.defaultIdx []).get? n with
  | none => rw [hd] at hc; cases hc
  | some d =>
    rw [hd] at hc; dsimp only at hc
    have hall : ∀ x ∈ (ms.zip I.locs).filterMap (fun (m, l) => (m.get? n).map (fun g => (l, g))), G n x.2 := by
      intro x hx
      obtain ⟨⟨m, l⟩, hml, hx⟩ := List.mem_filterMap.mp hx
      dsimp only at hx
      cases hg : m.get? n with
      | none => rw [hg] at hx; cases hx
      | some g =>
        rw [hg] at hx; simp only [Option.map_some, Option.some.injEq] at hx
        rw [← hx]
        exact h m (List.of_mem_zip hml).1 _ (get?_mem m n g hg)
    split at hc
    · simp only [Option.some.injEq] at hc
      intro x hx; rw [← hc] at hx
      exact hall x (List.mem_filter.mp hx).1
    · simp only [Option.some.injEq] at hc
      intro x hx; rw [← hc] at hx; exact hall x hx

theorem interpAt_Q (n : String) (pts : List (Q × Glyph)) (h : ∀ x ∈ pts, G n x.2) (t : Q) (g : Glyph)
    (hi : interpAt pts t = some g) : G n g := by
  rcases interpAt_cases pts t g hi with ⟨e, he, rfl⟩ | ⟨a, ha, b, hb, s, h0, h1, hl⟩
  · exact h e he
  · exact hQ.lerp n s a.2 b.2 g h0 h1 (h a ha) (h b hb) hl

theorem mastersFor_Q (I : Inst) (s : St) (hs : StQ G s) (n : String) (pts : List (Q × Glyph))
    (h : mastersFor I s n = some pts) : ∀ x ∈ pts, G n x.2 := by
  unfold mastersFor at h
  cases hc : alookup n s.cache with
  | some p =>
    rw [hc] at h; simp only [Option.some.injEq] at h
    rw [← h]; exact hs.cache (n, p) (alookup_mem n s.cache p hc)
  | none =>
    rw [hc] at h
    exact collectMasters_Q hQ I s.layers hs.layers n pts h

theorem interpGlyph_Q (I : Inst) (s : St) (hs : StQ G s) (n : String) (t : Q) (g : Glyph)
    (h : interpGlyph I s n t = some g) : G n g := by
  unfold interpGlyph at h
  cases hm : mastersFor I s n with
  | none => rw [hm] at h; cases h
  | some pts =>
    rw [hm] at h
    exact interpAt_Q hQ n pts (mastersFor_Q hQ I s hs n pts hm) t g h

theorem layerSet_Q (inst : Option Inst) (s : St) (hs : StQ G s) (i : Nat) : SetQ G (layerSet inst s i) := by
  cases inst with
  | none => exact getD_setQ hs.ms i
  | some I =>
    intro e he
    simp only [layerSet, List.mem_append, List.mem_filterMap] at he
    rcases he with ⟨e0, he0, hx⟩ | ⟨n, _, hx⟩
    · split at hx
      · simp only [Option.some.injEq] at hx; rw [← hx]; exact getD_setQ hs.layers i e0 he0
      · cases hg : interpGlyph I s e0.1 (I.locs.getD i 0) with
        | none => rw [hg] at hx; cases hx
        | some g =>
          rw [hg] at hx; simp only [Option.map_some, Option.some.injEq] at hx
          rw [← hx]; exact interpGlyph_Q hQ I s hs e0.1 _ g hg
    · split at hx
      · cases hx
      · cases hg : interpGlyph I s n (I.locs.getD i 0) with
        | none => rw [hg] at hx; cases hx
        | some g =>
          rw [hg] at hx; simp only [Option.map_some, Option.some.injEq] at hx
          rw [← hx]; exact interpGlyph_Q hQ I s hs n _ g hg

theorem touch_Q (inst : Option Inst) (names : List String) (s : St) (hs : StQ G s) : StQ G (touch inst names s) := by
  cases inst with
  | none => exact hs
  | some I =>
    simp only [touch]
    induction names generalizing s with
    | nil => exact hs
    | cons n ns ih =>
      simp only [List.foldl_cons]
      apply ih
      split
      · exact hs
      · cases hc : collectMasters I s.layers n with
        | none => exact hs
        | some p =>
          refine ⟨hs.ms, hs.layers, ?_⟩
          intro e he x hx
          rcases List.mem_append.mp he with he | he
          · exact hs.cache e he x hx
          · simp only [List.mem_singleton] at he
            subst he
            exact collectMasters_Q hQ I s.layers hs.layers n p hc x hx

omit hQ in
theorem touch_ms (inst : Option Inst) (names : List String) (s : St) : (touch inst names s).ms = s.ms := by
  cases inst with
  | none => rfl
  | some I =>
    simp only [touch]
    induction names generalizing s with
    | nil => rfl
    | cons n ns ih =>
      simp only [List.foldl_cons]
      rw [ih]
      split
      · rfl
      · split <;> rfl

omit hQ in
theorem touch_layers (inst : Option Inst) (names : List String) (s : St) : (touch inst names s).layers = s.layers := by
  cases inst with
  | none => rfl
  | some I =>
    simp only [touch]
    induction names generalizing s with
    | nil => rfl
    | cons n ns ih =>
      simp only [List.foldl_cons]
      rw [ih]
      split
      · rfl
      · split <;> rfl


omit hQ in
theorem StQ_setms (s : St) (hs : StQ G s) (ms' : Masters) (h : MastersQ G ms') : StQ G { s with ms := ms' } := by
  refine ⟨h, ?_, hs.cache⟩
  have hl := hs.layers
  unfold St.layers at hl ⊢
  cases hp : s.pristine with
  | none => exact h
  | some o => rw [hp] at hl; exact hl

omit hQ in
theorem mastersQ_setAt (ms : Masters) (h : MastersQ G ms) (i : Nat) (m : GlyphSet) (hm : SetQ G m) :
    MastersQ G (setAt ms i m) := by
  intro m' hm'
  rcases mem_setAt ms i m m' hm' with rfl | h'
  · exact hm
  · exact h m' h'

omit hQ in
theorem setQ_set (m : GlyphSet) (h : SetQ G m) (n : String) (g : Glyph) (hg : G n g) : SetQ G (m.set n g) := by
  intro e he
  rcases mem_set m n g e he with rfl | h'
  · exact hg
  · exact h e h'

/-- a per-master operation that keeps `G` -/
def OpG (G : String → Glyph → Prop) (f : GlyphSet → Glyph → Except GErr (Option Glyph × Bool)) : Prop :=
  ∀ layer n g g' fl, SetQ G layer → G n g → f layer g = .ok (some g', fl) → G n g'

theorem decomposeOp_G (nested : Bool) (incl : Option (List String)) : OpG G (decomposeOp nested incl) := by
  intro layer n g g' fl hl hg h
  unfold decomposeOp at h
  cases hd : decomposeGlyph layer nested incl g with
  | error e => rw [hd] at h; cases h
  | ok g2 =>
    rw [hd] at h
    simp only [Except.ok.injEq, Prod.mk.injEq, Option.some.injEq] at h
    rw [← h.1]
    exact hQ.decomp layer nested incl n g g2 hl hg hd

theorem flattenOp_G : OpG G flattenOp := by
  intro layer n g g' fl hl hg h
  unfold flattenOp at h
  split at h
  · cases h
  · cases hd : flattenGlyphComps layer g.comps with
    | error e => rw [hd] at h; cases h
    | ok r =>
      obtain ⟨cs, f⟩ := r
      rw [hd] at h
      simp only [Except.ok.injEq, Prod.mk.injEq, Option.some.injEq] at h
      rw [← h.1]
      exact hQ.flat layer n g cs f hl hg hd

theorem perMaster_Q (inst : Option Inst) (n : String) (visit : GlyphSet → Glyph → List String)
    (f : GlyphSet → Glyph → Except GErr (Option Glyph × Bool)) (hf : OpG G f) :
    ∀ (idxs : List Nat) (s s' : St) (fl fl' : Bool), StQ G s → perMaster inst n visit f idxs s fl = .ok (s', fl') → StQ G s' := by
  intro idxs
  induction idxs with
  | nil =>
    intro s s' fl fl' hs h
    simp only [perMaster, Except.ok.injEq, Prod.mk.injEq] at h
    rw [← h.1]; exact hs
  | cons i rest ih =>
    intro s s' fl fl' hs h
    unfold perMaster at h
    cases hg : (s.ms.getD i []).get? n with
    | none => rw [hg] at h; exact ih s s' fl fl' hs h
    | some g =>
      rw [hg] at h; dsimp only at h
      have hGg : G n g := getD_setQ hs.ms i _ (get?_mem _ n g hg)
      cases hfr : f (layerSet inst s i) g with
      | error e => rw [hfr] at h; cases h
      | ok r =>
        obtain ⟨og, flx⟩ := r
        rw [hfr] at h; dsimp only at h
        have hs1 := touch_Q hQ inst (requested inst s i (visit (layerSet inst s i) g)) s hs
        cases og with
        | none => exact ih _ s' _ fl' hs1 h
        | some g' =>
          dsimp only at h
          refine ih _ s' _ fl' ?_ h
          apply StQ_setms _ hs1
          apply mastersQ_setAt _ hs1.ms
          apply setQ_set _ (getD_setQ hs1.ms i)
          exact hf _ n g g' flx (layerSet_Q hQ inst s hs i) hGg hfr

theorem ensureLoop_Q (I : Inst) (n : String) (toAdd : List Q) :
    ∀ (idx : List (Nat × Q)) (s s' : St), StQ G s → ensureLoop I n toAdd idx s = .ok s' → StQ G s' := by
  intro idx
  induction idx with
  | nil => intro s s' hs h; simp only [ensureLoop, Except.ok.injEq] at h; rw [← h]; exact hs
  | cons e rest ih =>
    obtain ⟨i, l⟩ := e
    intro s s' hs h
    unfold ensureLoop at h
    split at h
    · cases hg : (s.ms.getD i []).get? n with
      | some g => rw [hg] at h; cases h
      | none =>
        rw [hg] at h; dsimp only at h
        have hs1 := touch_Q hQ (some I) [n] s hs
        cases hi : interpGlyph I (touch (some I) [n] s) n l with
        | none => rw [hi] at h; cases h
        | some g =>
          rw [hi] at h; dsimp only at h
          refine ih _ s' ?_ h
          apply StQ_setms _ hs1
          apply mastersQ_setAt _ hs1.ms
          intro e he
          rcases List.mem_append.mp he with he | he
          · exact getD_setQ hs1.ms i e he
          · simp only [List.mem_singleton] at he
            subst he
            exact interpGlyph_Q hQ I _ hs1 n l g hi
    · exact ih s s' hs h

theorem ensureComposite_Q (inst : Option Inst) (s s' : St) (incl : Option (List String)) (n : String) (hs : StQ G s)
    (h : ensureComposite inst s incl n = .ok s') : StQ G s' := by
  unfold ensureComposite at h
  cases inst with
  | none => simp only [Except.ok.injEq] at h; rw [← h]; exact hs
  | some I =>
    dsimp only at h
    split at h
    · simp only [Except.ok.injEq] at h; rw [← h]; exact hs
    · exact ensureLoop_Q hQ I n _ _ s s' hs h

theorem decomposeIStep_Q (inst : Option Inst) (s : St) (n : String) (s' : St) (r : Bool) (hs : StQ G s)
    (h : decomposeIStep inst s n = .ok (s', r)) : StQ G s' := by
  unfold decomposeIStep at h
  split at h
  · simp only [Except.ok.injEq, Prod.mk.injEq] at h; rw [← h.1]; exact hs
  · cases he : ensureComposite inst s none n with
    | error e => rw [he] at h; cases h
    | ok s1 =>
      rw [he] at h; dsimp only at h
      have hs1 := ensureComposite_Q hQ inst s s1 none n hs he
      cases hp : perMaster inst n (decomposeVisit true none) (decomposeOp true none) (List.range s1.ms.length) s1 true with
      | error e => rw [hp] at h; cases h
      | ok res =>
        obtain ⟨s2, fl⟩ := res
        rw [hp] at h
        simp only [Except.ok.injEq, Prod.mk.injEq] at h
        rw [← h.1]
        exact perMaster_Q hQ inst n _ _ (decomposeOp_G hQ true none) _ s1 s2 true fl hs1 hp

theorem decomposeTransformedIStep_Q (inst : Option Inst) (s : St) (n : String) (s' : St) (r : Bool) (hs : StQ G s)
    (h : decomposeTransformedIStep inst s n = .ok (s', r)) : StQ G s' := by
  unfold decomposeTransformedIStep at h
  split at h
  · simp only [Except.ok.injEq, Prod.mk.injEq] at h; rw [← h.1]; exact hs
  · exact decomposeIStep_Q hQ inst s n s' r hs h

theorem skipIStep_Q (inst : Option Inst) (skip : List String) (s : St) (n : String) (s' : St) (r : Bool) (hs : StQ G s)
    (h : skipIStep inst skip s n = .ok (s', r)) : StQ G s' := by
  unfold skipIStep at h
  dsimp only at h
  split at h
  · simp only [Except.ok.injEq, Prod.mk.injEq] at h; rw [← h.1]; exact hs
  · cases he : ensureComposite inst s (some skip) n with
    | error e => rw [he] at h; cases h
    | ok s1 =>
      rw [he] at h; dsimp only at h
      have hs1 := ensureComposite_Q hQ inst s s1 (some skip) n hs he
      cases hp : perMaster inst n (decomposeVisit false (some skip)) (decomposeOp false (some skip))
          (List.range s1.ms.length) s1 true with
      | error e => rw [hp] at h; cases h
      | ok res =>
        obtain ⟨s2, fl⟩ := res
        rw [hp] at h
        simp only [Except.ok.injEq, Prod.mk.injEq] at h
        rw [← h.1]
        exact perMaster_Q hQ inst n _ _ (decomposeOp_G hQ false (some skip)) _ s1 s2 true fl hs1 hp

theorem flattenIStep_Q (inst : Option Inst) (s : St) (n : String) (s' : St) (r : Bool) (hs : StQ G s)
    (h : flattenIStep inst s n = .ok (s', r)) : StQ G s' := by
  unfold flattenIStep at h
  dsimp only at h
  split at h
  · simp only [Except.ok.injEq, Prod.mk.injEq] at h; rw [← h.1]; exact hs
  · split at h
    · simp only [Except.ok.injEq, Prod.mk.injEq] at h; rw [← h.1]; exact hs
    · exact perMaster_Q hQ inst n _ _ (flattenOp_G hQ) _ s s' false r hs h

omit hQ in
theorem StQ_orders (s : St) (o : List (List String)) (hs : StQ G s) : StQ G { s with orders := o } :=
  ⟨hs.ms, hs.layers, hs.cache⟩

omit hQ in
theorem StQ_updated (s : St) (b : Bool) (hs : StQ G s) : StQ G (s.updated b) := by
  unfold St.updated
  split
  · exact ⟨hs.ms, hs.ms, fun e he => by cases he⟩
  · exact hs

theorem runIU_Q (incl : Glyph → Bool) (step : St → String → Except GErr (St × Bool))
    (hstep : ∀ s n s' r, StQ G s → step s n = .ok (s', r) → StQ G s')
    (s s' : St) (hs : StQ G s) (h : runIU incl step s = .ok s') : StQ G s' := by
  unfold runIU at h
  cases hr : runI incl step s with
  | error e => rw [hr] at h; cases h
  | ok res =>
    obtain ⟨s1, md⟩ := res
    rw [hr] at h
    simp only [Except.ok.injEq] at h
    rw [← h]
    exact StQ_updated _ _ (runI_inv (StQ G) incl step hstep (fun s o h => StQ_orders s o h) s s1 md hs hr)

theorem skipI_Q (inst : Option Inst) (skip : List String) (s s' : St) (hs : StQ G s) (h : skipI inst skip s = .ok s') :
    StQ G s' := by
  unfold skipI at h
  split at h
  · simp only [Except.ok.injEq] at h; rw [← h]; exact hs
  · cases hr : runI (fun _ => true) (skipIStep inst skip) s with
    | error e => rw [hr] at h; cases h
    | ok res =>
      obtain ⟨s1, md⟩ := res
      rw [hr] at h
      simp only [Except.ok.injEq] at h
      rw [← h]
      have hs1 := runI_inv (StQ G) _ _ (skipIStep_Q hQ inst skip) (fun s o h => StQ_orders s o h) s s1 md hs hr
      apply StQ_updated
      apply StQ_setms _ hs1
      intro m' hm'
      obtain ⟨m, hm, rfl⟩ := List.mem_map.mp hm'
      intro e he
      exact hs1.ms m hm e (List.mem_filter.mp he).1


theorem decomposeNeeded_Q (inst : Option Inst) (s s' : St) (hs : StQ G s) (h : decomposeNeeded inst s = .ok s') :
    StQ G s' := by
  unfold decomposeNeeded at h
  dsimp only at h
  split at h
  · simp only [Except.ok.injEq] at h; rw [← h]; exact hs
  · exact runIU_Q hQ _ _ (decomposeIStep_Q hQ inst) s s' hs h

theorem flattenI_Q (inst : Option Inst) (s s' : St) (hs : StQ G s) (h : flattenI inst s = .ok s') : StQ G s' :=
  runIU_Q hQ _ _ (flattenIStep_Q hQ inst) s s' hs h

/-! the non-interpolatable custom filter on ONE glyph set -/

theorem decomposeStep_G (st : FState) (g : Glyph) (st' : FState) (r : Bool) (hs : SetQ G st.gs) (hg : ∃ n, G n g)
    (h : decomposeStep st g = .ok (st', r)) : SetQ G st'.gs := by
  unfold decomposeStep at h
  split at h
  · simp only [Except.ok.injEq, Prod.mk.injEq] at h; rw [← h.1]; exact hs
  · cases hd : decomposeGlyph st.gs true none g with
    | error e => rw [hd] at h; cases h
    | ok g' =>
      rw [hd] at h
      simp only [Except.ok.injEq, Prod.mk.injEq] at h
      rw [← h.1]
      obtain ⟨n, hn⟩ := hg
      have : g.name = n := hQ.name n g hn
      rw [this]
      exact setQ_set _ hs n g' (hQ.decomp st.gs true none n g g' hs hn hd)

theorem filterLoop_G (incl : String → Bool) : ∀ (order : List String) (st st' : FState), SetQ G st.gs →
    filterLoop decomposeTransformedStep incl order st = .ok st' → SetQ G st'.gs := by
  intro order
  induction order with
  | nil => intro st st' hs h; simp only [filterLoop, Except.ok.injEq] at h; rw [← h]; exact hs
  | cons n ns ih =>
    intro st st' hs h
    unfold filterLoop at h
    split at h
    · exact ih st st' hs h
    · cases hg : st.gs.get? n with
      | none => rw [hg] at h; cases h
      | some g =>
        rw [hg] at h; dsimp only at h
        split at h
        · cases hst : decomposeTransformedStep st g with
          | error e => rw [hst] at h; cases h
          | ok res =>
            obtain ⟨st1, r⟩ := res
            rw [hst] at h; dsimp only at h
            have h1 : SetQ G st1.gs := by
              unfold decomposeTransformedStep at hst
              split at hst
              · exact decomposeStep_G hQ st g st1 r hs ⟨n, hs _ (get?_mem _ n g hg)⟩ hst
              · simp only [Except.ok.injEq, Prod.mk.injEq] at hst; rw [← hst.1]; exact hs
            apply ih _ st' _ h
            split
            · exact h1
            · exact h1
        · exact ih st st' hs h

theorem customOpt_G (c : Option Custom) (m m' : GlyphSet) (hm : SetQ G m) (h : customOpt c m = .ok m') : SetQ G m' := by
  cases c with
  | none => simp only [customOpt, Except.ok.injEq] at h; rw [← h]; exact hm
  | some c =>
    simp only [customOpt, customSingle] at h
    unfold runFilter at h
    cases ho : orderedGlyphs m with
    | error e => rw [ho] at h; cases h
    | ok order =>
      rw [ho] at h; dsimp only at h
      split at h
      · cases h
      · rename_i st hst
        simp only [Except.ok.injEq] at h
        rw [← h]
        exact filterLoop_G hQ _ order _ st hm hst

theorem customEach_G : ∀ (cs : List (Option Custom)) (ms ms' : Masters), MastersQ G ms → customEach cs ms = .ok ms' →
    MastersQ G ms' := by
  intro cs
  induction cs with
  | nil => intro ms ms' hm h; simp only [customEach, Except.ok.injEq] at h; rw [← h]; exact hm
  | cons c cs ih =>
    intro ms ms' hm h
    cases ms with
    | nil => simp only [customEach, Except.ok.injEq] at h; rw [← h]; exact hm
    | cons m ms =>
      simp only [customEach] at h
      cases h1 : customOpt c m with
      | error e => rw [h1] at h; cases h
      | ok m1 =>
        cases h2 : customEach cs ms with
        | error e => rw [h1, h2] at h; cases h
        | ok r =>
          rw [h1, h2] at h
          simp only [Except.ok.injEq] at h
          rw [← h]
          intro x hx
          rcases List.mem_cons.mp hx with rfl | hx
          · exact customOpt_G hQ c m _ (hm m List.mem_cons_self) h1
          · exact ih ms r (fun y hy => hm y (List.mem_cons_of_mem _ hy)) h2 x hx

theorem runCustom_Q (cfg : Cfg) (pre : Bool) (s s' : St) (hs : StQ G s) (h : runCustom cfg pre s = .ok s') : StQ G s' := by
  unfold runCustom at h
  dsimp only at h
  split at h
  · simp only [Except.ok.injEq] at h; rw [← h]; exact hs
  · split at h
    · exact runIU_Q hQ _ _ (decomposeTransformedIStep_Q hQ cfg.inst) s s' hs h
    · cases hc : customEach (customPhase cfg pre) s.ms with
      | error e => rw [hc] at h; cases h
      | ok ms' =>
        rw [hc] at h
        simp only [Except.ok.injEq] at h
        rw [← h]
        exact StQ_updated _ _ (StQ_setms s hs ms' (customEach_G hQ _ s.ms ms' hs.ms hc))

theorem curvesStep_Q (cfg : Cfg) (s s' : St) (b : Option Masters) (hs : StQ G s)
    (hcu : ∀ q, cfg.convertCubics = true → cfg.cu2qu = some q → MastersQ G s.ms → MastersQ G q)
    (h : curvesStep cfg s = .ok (b, s')) : StQ G s' := by
  unfold curvesStep at h
  split at h
  · rename_i hcc
    cases hq : cfg.cu2qu with
    | none => rw [hq] at h; cases h
    | some q =>
      rw [hq] at h
      simp only [Except.ok.injEq, Prod.mk.injEq] at h
      rw [← h.2]
      exact StQ_updated _ _ (StQ_setms s hs q (hcu q hcc hq hs.ms))
  · split at h
    · simp only [Except.ok.injEq, Prod.mk.injEq] at h
      rw [← h.2]
      apply StQ_updated
      apply StQ_setms s hs
      intro m' hm'
      obtain ⟨m, hm, rfl⟩ := List.mem_map.mp hm'
      intro e he
      obtain ⟨e0, he0, rfl⟩ := List.mem_map.mp he
      exact hQ.rev e0.1 e0.2 (hs.ms m hm e0 he0)
    · simp only [Except.ok.injEq, Prod.mk.injEq] at h
      rw [← h.2]; exact hs

end generic

/-! ### walking through the pre-processors with a chain of state predicates -/

theorem curvesStep_before (cfg : Cfg) (s s' : St) (b : Option Masters) (h : curvesStep cfg s = .ok (b, s')) :
    (cfg.convertCubics = true → b = some s.ms) := by
  intro hc
  unfold curvesStep at h
  rw [if_pos hc] at h
  cases hq : cfg.cu2qu with
  | none => rw [hq] at h; cases h
  | some q =>
    rw [hq] at h
    simp only [Except.ok.injEq, Prod.mk.injEq] at h
    exact h.1.symm

theorem preprocessTTF_chain (P0 P1 P2 P3 P4 P5 P6 : St → Prop) (cfg : Cfg) (ms : Masters) (o : PreOut)
    (h0 : P0 ⟨ms, none, [], cfg.orders⟩)
    (h1 : ∀ s s', P0 s → skipI cfg.inst cfg.skip s = .ok s' → P1 s')
    (h2 : ∀ s s', P1 s → runCustom cfg true s = .ok s' → P2 s')
    (h3 : ∀ s s', P2 s → decomposeNeeded cfg.inst s = .ok s' → P3 s')
    (h4 : ∀ s s' b, P3 s → curvesStep cfg s = .ok (b, s') → o.beforeCu2qu = b → P4 s')
    (h5 : cfg.flatten = true → ∀ s s', P4 s → flattenI cfg.inst s = .ok s' → P5 s')
    (h5' : ∀ s, P4 s → P5 s)
    (h6 : ∀ s s', P5 s → runCustom cfg false s = .ok s' → P6 s')
    (h : preprocessTTF cfg ms = .ok o) : ∃ s, P6 s ∧ s.ms = o.final := by
  unfold preprocessTTF at h
  cases e1 : skipI cfg.inst cfg.skip ⟨ms, none, [], cfg.orders⟩ with
  | error e => rw [e1] at h; cases h
  | ok s1 =>
    rw [e1] at h; dsimp only at h
    cases e2 : runCustom cfg true s1 with
    | error e => rw [e2] at h; cases h
    | ok s2 =>
      rw [e2] at h; dsimp only at h
      cases e3 : decomposeNeeded cfg.inst s2 with
      | error e => rw [e3] at h; cases h
      | ok s3 =>
        rw [e3] at h; dsimp only at h
        cases e4 : curvesStep cfg s3 with
        | error e => rw [e4] at h; cases h
        | ok r4 =>
          obtain ⟨before, s4⟩ := r4
          rw [e4] at h; dsimp only at h
          cases e5 : (if cfg.flatten = true then flattenI cfg.inst s4 else Except.ok s4) with
          | error e => rw [e5] at h; cases h
          | ok s5 =>
            rw [e5] at h; dsimp only at h
            cases e6 : runCustom cfg false s5 with
            | error e => rw [e6] at h; cases h
            | ok s6 =>
              rw [e6] at h; dsimp only at h
              have ho := Except.ok.inj h
              have hb : o.beforeCu2qu = before := by rw [← ho]
              have p1 := h1 _ s1 h0 e1
              have p2 := h2 s1 s2 p1 e2
              have p3 := h3 s2 s3 p2 e3
              have p4 := h4 s3 s4 before p3 e4 hb
              have p5 : P5 s5 := by
                split at e5
                · rename_i hfl
                  exact h5 hfl s4 s5 p4 e5
                · have := Except.ok.inj e5; rw [← this]; exact h5' s4 p4
              exact ⟨s6, h6 s5 s6 p5 e6, by rw [← ho]⟩

theorem preprocessOTF_chain (P0 P1 P2 P3 P4 : St → Prop) (cfg : Cfg) (ms : Masters) (o : PreOut)
    (h0 : P0 ⟨ms, none, [], cfg.orders⟩)
    (h1 : ∀ s s', P0 s → skipI cfg.inst cfg.skip s = .ok s' → P1 s')
    (h2 : ∀ s s', P1 s → runCustom cfg true s = .ok s' → P2 s')
    (h3 : ∀ s s', P2 s → runIU (fun _ => true) (decomposeIStep cfg.inst) s = .ok s' → P3 s')
    (h4 : ∀ s s', P3 s → runCustom cfg false s = .ok s' → P4 s')
    (h : preprocessOTF cfg ms = .ok o) : ∃ s, P4 s ∧ s.ms = o.final := by
  unfold preprocessOTF at h
  cases e1 : skipI cfg.inst cfg.skip ⟨ms, none, [], cfg.orders⟩ with
  | error e => rw [e1] at h; cases h
  | ok s1 =>
    rw [e1] at h; dsimp only at h
    cases e2 : runCustom cfg true s1 with
    | error e => rw [e2] at h; cases h
    | ok s2 =>
      rw [e2] at h; dsimp only at h
      cases e3 : runIU (fun _ => true) (decomposeIStep cfg.inst) s2 with
      | error e => rw [e3] at h; cases h
      | ok s3 =>
        rw [e3] at h; dsimp only at h
        cases e4 : runCustom cfg false s3 with
        | error e => rw [e4] at h; cases h
        | ok s4 =>
          rw [e4] at h; dsimp only at h
          have ho := Except.ok.inj h
          exact ⟨s4, h4 s3 s4 (h3 s2 s3 (h2 s1 s2 (h1 _ s1 h0 e1) e2) e3) e4, by rw [← ho]⟩

/-! ### instance: component references follow a transitive relation -/

theorem pairComps_fst : ∀ (as bs : List Comp) (p : Comp × Comp), p ∈ pairComps as bs → p.1 ∈ as := by
  intro as
  induction as with
  | nil => intro bs p h; simp [pairComps] at h
  | cons c cs ih =>
    intro bs p h
    unfold pairComps at h
    split at h
    · rcases List.mem_cons.mp h with rfl | h
      · exact List.mem_cons_self
      · exact List.mem_cons_of_mem _ (ih _ p h)
    · exact List.mem_cons_of_mem _ (ih _ p h)

theorem lerpGlyph_name (s : Q) (a b g : Glyph) (h : lerpGlyph s a b = some g) : g.name = a.name := by
  unfold lerpGlyph at h
  split at h
  · simp only [Option.some.injEq] at h; rw [← h]
  · cases h

theorem lerpGlyph_comps (s : Q) (a b g : Glyph) (h : lerpGlyph s a b = some g) :
    g.comps = (pairComps a.comps b.comps).map (fun p => lerpComp s p.1 p.2) := by
  unfold lerpGlyph at h
  split at h
  · simp only [Option.some.injEq] at h; rw [← h]
  · cases h

section refs
variable (R : String → String → Prop) (htrans : ∀ a b c, R a b → R b c → R a c)

/-- the glyph's name is its key, and each of its components refers to a glyph `R`-below the key -/
def RefOk (n : String) (g : Glyph) : Prop := g.name = n ∧ ∀ k ∈ g.comps, R n k.base

def RefsOne (layer : GlyphSet) (fuel : Nat) : Prop :=
  ∀ rf nested incl base t D, addComp fuel layer rf nested incl base t = .ok D →
    ∀ k' ∈ D.comps, k'.base = base ∨ R base k'.base
def RefsMany (layer : GlyphSet) (fuel : Nat) : Prop :=
  ∀ rf nested incl t ks D, addComps fuel layer rf nested incl t ks = .ok D →
    ∀ k' ∈ D.comps, ∃ k ∈ ks, k'.base = k.base ∨ R k.base k'.base

theorem refsMany_of_one (layer : GlyphSet) (fuel : Nat) (h1 : RefsOne R layer fuel) : RefsMany R layer fuel := by
  intro rf nested incl t ks
  induction ks with
  | nil => intro D hD; simp only [addComps, Except.ok.injEq] at hD; rw [← hD]; intro k' hk'; cases hk'
  | cons k ks ih =>
    intro D hD
    simp only [addComps] at hD
    cases hk : addComp fuel layer rf nested incl k.base (t.compose k.t) with
    | error e => rw [hk] at hD; cases hD
    | ok d =>
      rw [hk] at hD
      cases hr : addComps fuel layer rf nested incl t ks with
      | error e => rw [hr] at hD; cases hD
      | ok d' =>
        rw [hr] at hD
        simp only [Except.ok.injEq] at hD
        rw [← hD]
        intro k' hk'
        simp only [Drawn.append, List.mem_append] at hk'
        rcases hk' with hk' | hk'
        · exact ⟨k, List.mem_cons_self, h1 rf nested incl k.base _ d hk k' hk'⟩
        · obtain ⟨k0, hk0, hx⟩ := ih d' hr k' hk'
          exact ⟨k0, List.mem_cons_of_mem _ hk0, hx⟩

include htrans in
theorem refsOne_succ (layer : GlyphSet) (hl : SetQ (RefOk R) layer) (fuel : Nat) (h2 : RefsMany R layer fuel) :
    RefsOne R layer (fuel + 1) := by
  intro rf nested incl base t D hD
  unfold addComp at hD
  split at hD
  · cases hb : layer.get? base with
    | none => rw [hb] at hD; cases hD
    | some b =>
      rw [hb] at hD; dsimp only at hD
      cases hd : addComps fuel layer rf nested (inclNested nested incl) t b.comps with
      | error e => rw [hd] at hD; cases hD
      | ok d =>
        rw [hd] at hD
        simp only [Except.ok.injEq] at hD
        rw [← hD]
        intro k' hk'
        obtain ⟨k, hk, hx⟩ := h2 rf nested _ t b.comps d hd k' hk'
        have hb' := (hl _ (get?_mem layer base b hb)).2 k hk
        right
        rcases hx with hx | hx
        · rw [hx]; exact hb'
        · exact htrans _ _ _ hb' hx
  · simp only [Except.ok.injEq] at hD
    rw [← hD]
    intro k' hk'
    simp only [List.mem_singleton] at hk'
    left; rw [hk']

include htrans in
theorem refs_all (layer : GlyphSet) (hl : SetQ (RefOk R) layer) : ∀ fuel, RefsOne R layer fuel ∧ RefsMany R layer fuel := by
  intro fuel
  induction fuel with
  | zero =>
    have h0 : RefsOne R layer 0 := by intro rf nested incl base t D hD; simp only [addComp] at hD; cases hD
    exact ⟨h0, refsMany_of_one R layer 0 h0⟩
  | succ n ih =>
    have h1 := refsOne_succ R htrans layer hl n ih.2
    exact ⟨h1, refsMany_of_one R layer (n + 1) h1⟩

def FRefsOne (layer : GlyphSet) (fuel : Nat) : Prop :=
  ∀ k fl, flattenComp fuel layer k = .ok fl → ∀ c ∈ fl, c.base = k.base ∨ R k.base c.base
def FRefsMany (layer : GlyphSet) (fuel : Nat) : Prop :=
  ∀ outer ks r, flattenNested fuel layer outer ks = .ok r → ∀ c ∈ r, ∃ n ∈ ks, c.base = n.base ∨ R n.base c.base

theorem frefsMany_of_one (layer : GlyphSet) (fuel : Nat) (h1 : FRefsOne R layer fuel) : FRefsMany R layer fuel := by
  intro outer ks
  induction ks with
  | nil => intro r hr; simp only [flattenNested, Except.ok.injEq] at hr; rw [← hr]; intro c hc; cases hc
  | cons n ns ih =>
    intro r hr
    simp only [flattenNested] at hr
    cases hf : flattenComp fuel layer n with
    | error e => rw [hf] at hr; cases hr
    | ok fl =>
      rw [hf] at hr; dsimp only at hr
      cases hn : flattenNested fuel layer outer ns with
      | error e => rw [hn] at hr; cases hr
      | ok r' =>
        rw [hn] at hr
        simp only [Except.ok.injEq] at hr
        rw [← hr]
        intro c hc
        rcases List.mem_append.mp hc with hc | hc
        · obtain ⟨c0, hc0, rfl⟩ := List.mem_map.mp hc
          exact ⟨n, List.mem_cons_self, h1 n fl hf c0 hc0⟩
        · obtain ⟨n0, hn0, hx⟩ := ih r' hn c hc
          exact ⟨n0, List.mem_cons_of_mem _ hn0, hx⟩

include htrans in
theorem frefsOne_succ (layer : GlyphSet) (hl : SetQ (RefOk R) layer) (fuel : Nat) (h2 : FRefsMany R layer fuel) :
    FRefsOne R layer (fuel + 1) := by
  intro k fl hfl
  unfold flattenComp at hfl
  cases hb : layer.get? k.base with
  | none => rw [hb] at hfl; cases hfl
  | some b =>
    rw [hb] at hfl; dsimp only at hfl
    split at hfl
    · simp only [Except.ok.injEq] at hfl
      rw [← hfl]; intro c hc; simp only [List.mem_singleton] at hc; left; rw [hc]
    · intro c hc
      obtain ⟨n, hn, hx⟩ := h2 k b.comps fl hfl c hc
      have hb' := (hl _ (get?_mem layer k.base b hb)).2 n hn
      right
      rcases hx with hx | hx
      · rw [hx]; exact hb'
      · exact htrans _ _ _ hb' hx

include htrans in
theorem frefs_all (layer : GlyphSet) (hl : SetQ (RefOk R) layer) : ∀ fuel, FRefsOne R layer fuel ∧ FRefsMany R layer fuel := by
  intro fuel
  induction fuel with
  | zero =>
    have h0 : FRefsOne R layer 0 := by intro k fl hfl; simp only [flattenComp] at hfl; cases hfl
    exact ⟨h0, frefsMany_of_one R layer 0 h0⟩
  | succ n ih =>
    have h1 := frefsOne_succ R htrans layer hl n ih.2
    exact ⟨h1, frefsMany_of_one R layer (n + 1) h1⟩

include htrans in
theorem flattenGlyphComps_refs (layer : GlyphSet) (hl : SetQ (RefOk R) layer) :
    ∀ (ks : List Comp) (r : List Comp) (f : Bool), flattenGlyphComps layer ks = .ok (r, f) →
      ∀ c ∈ r, ∃ k ∈ ks, c.base = k.base ∨ R k.base c.base := by
  intro ks
  induction ks with
  | nil => intro r f h; simp only [flattenGlyphComps, Except.ok.injEq, Prod.mk.injEq] at h; rw [← h.1]; intro c hc; cases hc
  | cons k ks ih =>
    intro r f h
    simp only [flattenGlyphComps] at h
    cases hf : flattenComp (layer.length + 1) layer k with
    | error e => rw [hf] at h; cases h
    | ok fl =>
      rw [hf] at h; dsimp only at h
      cases hh : fl.head? with
      | none => rw [hh] at h; cases h
      | some hd =>
        rw [hh] at h; dsimp only at h
        cases hr : flattenGlyphComps layer ks with
        | error e => rw [hr] at h; cases h
        | ok res =>
          obtain ⟨r', f'⟩ := res
          rw [hr] at h
          simp only [Except.ok.injEq, Prod.mk.injEq] at h
          rw [← h.1]
          intro c hc
          rcases List.mem_append.mp hc with hc | hc
          · exact ⟨k, List.mem_cons_self, (frefs_all R htrans layer hl _).1 k fl hf c hc⟩
          · obtain ⟨k0, hk0, hx⟩ := ih r' f' hr c hc
            exact ⟨k0, List.mem_cons_of_mem _ hk0, hx⟩

include htrans in
/-- `RefOk` is kept by every per-glyph operation of the pipeline -/
theorem refOk_GInv : GInv (RefOk R) where
  name := fun n g h => h.1
  lerp := by
    intro n s a b g _ _ ha _ hl
    refine ⟨by rw [lerpGlyph_name s a b g hl]; exact ha.1, ?_⟩
    intro k hk
    rw [lerpGlyph_comps s a b g hl] at hk
    obtain ⟨p, hp, rfl⟩ := List.mem_map.mp hk
    exact ha.2 p.1 (pairComps_fst _ _ p hp)
  decomp := by
    intro layer nested incl n g g' hl hg hd
    refine ⟨by rw [decomposeGlyph_name layer nested incl g g' hd]; exact hg.1, ?_⟩
    unfold decomposeGlyph at hd
    cases ha : addComps (layer.length + 1) layer true nested incl Affine.id g.comps with
    | error e => rw [ha] at hd; cases hd
    | ok d =>
      rw [ha] at hd
      simp only [Except.ok.injEq] at hd
      rw [← hd]
      intro k' hk'
      obtain ⟨k, hk, hx⟩ := (refs_all R htrans layer hl _).2 true nested incl Affine.id g.comps d ha k' hk'
      rcases hx with hx | hx
      · rw [hx]; exact hg.2 k hk
      · exact htrans _ _ _ (hg.2 k hk) hx
  flat := by
    intro layer n g cs f hl hg hf
    refine ⟨hg.1, ?_⟩
    intro c hc
    obtain ⟨k, hk, hx⟩ := flattenGlyphComps_refs R htrans layer hl g.comps cs f hf c hc
    rcases hx with hx | hx
    · rw [hx]; exact hg.2 k hk
    · exact htrans _ _ _ (hg.2 k hk) hx
  rev := fun n g h => h

end refs

end Ufo2ft.C09
