import Ufo2ftModel.Props.C05ApplyDet
import Ufo2ftModel.Props.C05ApplyNames
import Ufo2ftModel.Props.C05ApplyProg
/-! C05 end-to-end: `applyKern (program …) tag g1 g2 = quantize (ufoKern …)` — what a shaper applies to an adjacent glyph pair
    under a script tag, computed by the GPOS application semantics of `Spec/C05Apply.lean` on the program the kern-writer model
    emits, is the rounded UFO kerning value (as x-placement too in a right-to-left script).

    Composition of the stage theorems:
      C05_ufo_value (first match of the sorted pairs = UFO value)  →  σ_cover / σ_unique (base/mark splitting)
      →  partition_complete / partition_disjoint (direction cells)  →  splitKerning_together / splitKerning_one_bucket
      (one bucket = one lookup per pair list)  →  makeRules_eq / bucketLookup_compat (rules of the lookup; one format-2 subtable)
      →  makeKerningLookups_spec / emitted_spec (the lookup is emitted once)  →  C05_register / C05_dflt (it is referenced
      under the tag)  →  applyKern_single (every other lookup contributes zero). -/
namespace Ufo2ft.C05
open Ufo2ft List

/-- a bucket lookup of a pair list whose buckets hold no cell containing the pair leaves the pair alone; in particular every
    lookup, when no generated pair contains the pair -/
theorem item_zero (c : Ctx) (pairs : List KPair) (marks : Option (List String)) (im : Bool) (g1 g2 : String)
    (it : List String × Lookup) (hit : it ∈ allItems c pairs marks im)
    (h : ∀ m1 ∈ modes marks im, ∀ e ∈ splitKerning c (listOf pairs m1).1, it.2 = bucketLookup c m1.flag m1.sfx e →
      ∀ sp ∈ e.2, ¬ Matches sp g1 g2) : it.2.apply g1 g2 = (0, 0) := by
  unfold allItems at hit
  obtain ⟨lst, hlst, hit'⟩ := mem_flatMap.mp hit
  obtain ⟨m1, hm1, rfl⟩ := pairLists_sub pairs marks im lst hlst
  unfold bucketItems at hit'
  obtain ⟨e, he, rfl⟩ := mem_map.mp hit'
  exact bucketLookup_zero c _ _ e g1 g2 (h m1 hm1 e he rfl)

/-- The composition up to "which lookups are referenced": for ANY list of lookup names that contains every built lookup filed
    under `s` (when one of the glyphs is a letter of `s`), resp. every built Common lookup (when both are neutral), applying the
    named lookups of the emitted program gives the rounded UFO value -/
theorem C05_sum (c : Ctx) (r : RegCtx) (gs : List String) (groups : List (String × List String))
    (kerning : List (String × String × Q)) (q : Q) (marks : Option (List String)) (im tk td : Bool) (s g1 g2 : String)
    (hw : wfKern gs groups kerning = true) (hctx : ctxOK c gs = true) (hg1 : g1 ∈ gs) (hg2 : g2 ∈ gs)
    (hsD : DFLT_SCRIPTS.contains s = false)
    (hin1 : c.inScript s g1 = true) (hin2 : c.inScript s g2 = true) (hsc : scriptsOK c gs = true)
    (hclean : cellClean c gs groups kerning q marks im s g1 g2 = true) (names : List String)
    (hA : (s ∈ c.resolved g1 ∨ s ∈ c.resolved g2) → ∀ L, (program c r gs groups kerning q marks im tk td).built L.name = true →
      Has (makeKerningLookups c (genPairs gs groups kerning q) marks im) s L → L.name ∈ names)
    (hB : ¬(s ∈ c.resolved g1 ∨ s ∈ c.resolved g2) → ∀ L, (program c r gs groups kerning q marks im tk td).built L.name = true →
      Has (makeKerningLookups c (genPairs gs groups kerning q) marks im) COMMON L → L.name ∈ names) :
    applyNames (program c r gs groups kerning q marks im tk td) names g1 g2 =
      (quantize (ufoKern groups kerning g1 g2) q, if c.dir s == "RTL" then quantize (ufoKern groups kerning g1 g2) q else 0) := by
  have w := wf_of_wfKern gs groups kerning hw
  have ok := ctxOK_of c gs hctx
  have hs : s ≠ COMMON := by
    intro e; rw [e] at hsD; simp [DFLT_SCRIPTS, COMMON] at hsD
  have hval := C05_ufo_value gs groups kerning q hw g1 g2 hg1 hg2
  have hinj := nameInj_of_namesOK c _ marks im (namesOK_of_wf c gs groups kerning q marks im hw hsc)
  obtain ⟨minv, hhas⟩ := makeKerningLookups_spec c (genPairs gs groups kerning q) marks im hinj
  obtain ⟨hnd, hBL, hemit⟩ := emitted_spec _ hinj _ minv
  -- every emitted lookup is the lookup of some bucket of some pair list
  have hitem : ∀ l ∈ (program c r gs groups kerning q marks im tk td).lookups,
      ∃ it ∈ allItems c (genPairs gs groups kerning q) marks im, it.2 = l := by
    intro l hl
    rw [program_lookups] at hl
    obtain ⟨it, hit, e⟩ := mem_map.mp (hBL l hl)
    exact ⟨it, hit, e⟩
  cases hdet : detPair gs groups kerning q g1 g2 with
  | none =>
    -- no generated pair contains (g1, g2): the UFO value rounds to zero, and no lookup touches the pair
    rw [← detPair_eq, hdet] at hval
    simp only [Option.map_none, Option.getD_none] at hval
    rw [← hval]
    have hno : ∀ p ∈ genPairs gs groups kerning q, ¬ Matches p g1 g2 := by
      rw [detPair_eq] at hdet
      exact (firstMatch_eq_none_iff _ g1 g2).mp hdet
    rw [applyNames_none]
    · simp
    · intro l hl
      obtain ⟨it, hit, rfl⟩ := hitem l hl
      apply item_zero c _ marks im g1 g2 it hit
      intro m1 _ e he _ sp hsp hm
      obtain ⟨_, p0, hp0, hm0, _⟩ := cell_up c _ m1 e he sp hsp g1 g2 hm
      exact hno p0 hp0 hm0
  | some p0 =>
    have hv0 : p0.value = quantize (ufoKern groups kerning g1 g2) q := by
      rw [← detPair_eq, hdet] at hval
      simpa using hval
    obtain ⟨m0, hmode, hcond, hlist, e0, he0, ⟨spS, hspS, hmS⟩, happly, hrules⟩ :=
      det_lookup c gs groups kerning q marks im s g1 g2 w ok hg1 hg2 hs hin1 hin2 p0 hdet hclean
    rw [hv0] at happly
    rw [← happly]
    have hshare := shares_of_inScript c s g1 g2 hs hin1 hin2
    have hit0 : (e0.1, bucketLookup c m0.flag m0.sfx e0) ∈ allItems c (genPairs gs groups kerning q) marks im := by
      unfold allItems
      exact mem_flatMap.mpr ⟨_, hlist, mem_map.mpr ⟨e0, he0, rfl⟩⟩
    have hscr := splitKerning_bucket_scripts c _ g1 g2 e0 he0 spS hspS hmS
    -- every other emitted lookup leaves the pair alone
    have hzero : ∀ l ∈ (program c r gs groups kerning q marks im tk td).lookups, l ≠ bucketLookup c m0.flag m0.sfx e0 →
        l.apply g1 g2 = (0, 0) := by
      intro l hl hne
      obtain ⟨it, hit, rfl⟩ := hitem l hl
      apply item_zero c _ marks im g1 g2 it hit
      intro m1 hm1 e he heq sp hsp hm
      obtain ⟨hcond1, _⟩ := cell_up c _ m1 e he sp hsp g1 g2 hm
      have : m1 = m0 := modes_exclusive marks im g1 g2 m1 m0 hm1 hmode hcond1 hcond
      subst this
      have : e = e0 := splitKerning_one_bucket c _ g1 g2 hshare e e0 he he0 sp spS hsp hspS hm hmS
      subst this
      exact hne heq
    -- the lookup is filed under a script s0 of its bucket: s, or Common when neither glyph is a letter of s
    have hfiled : ∀ s0 ∈ e0.1, bucketLookup c m0.flag m0.sfx e0 ∈ (program c r gs groups kerning q marks im tk td).lookups ∧
        Has (makeKerningLookups c (genPairs gs groups kerning q) marks im) s0 (bucketLookup c m0.flag m0.sfx e0) := by
      intro s0 hs0
      have hH := hhas _ hit0 s0 hs0 hrules
      exact ⟨by rw [program_lookups]; exact hemit s0 _ hH, hH⟩
    have hbuilt : bucketLookup c m0.flag m0.sfx e0 ∈ (program c r gs groups kerning q marks im tk td).lookups →
        (program c r gs groups kerning q marks im tk td).built (bucketLookup c m0.flag m0.sfx e0).name = true := by
      intro hL
      unfold Program.built
      rw [any_eq_true]
      refine ⟨_, hL, ?_⟩
      cases hr : (bucketLookup c m0.flag m0.sfx e0).rules with
      | nil => exact absurd hr hrules
      | cons _ _ => simp
    have hnd' : ((program c r gs groups kerning q marks im tk td).lookups.map (·.name)).Nodup := by
      rw [program_lookups]; exact hnd
    by_cases hmem : s ∈ c.resolved g1 ∨ s ∈ c.resolved g2
    · -- a letter of s: the lookup is filed under s
      obtain ⟨hL, hH⟩ := hfiled s (hscr.1 s hmem hs)
      exact applyNames_single _ names g1 g2 _ hL hnd' (hA hmem _ (hbuilt hL) hH) hzero
    · -- both glyphs neutral: the lookup is a Common lookup
      have n1 : c.resolved g1 = [COMMON] := by
        simp only [Ctx.inScript, Ctx.neutral, Bool.or_eq_true, beq_iff_eq, contains_iff_mem] at hin1
        rcases hin1 with h | h
        · exact h
        · exact absurd (Or.inl h) hmem
      have n2 : c.resolved g2 = [COMMON] := by
        simp only [Ctx.inScript, Ctx.neutral, Bool.or_eq_true, beq_iff_eq, contains_iff_mem] at hin2
        rcases hin2 with h | h
        · exact h
        · exact absurd (Or.inr h) hmem
      obtain ⟨hL, hH⟩ := hfiled COMMON (hscr.2 (by rw [n1]; simp) (by rw [n2]; simp))
      exact applyNames_single _ names g1 g2 _ hL hnd' (hB hmem _ (hbuilt hL) hH) hzero

/-- the dictionary invariant, from the hypotheses of the end-to-end theorem -/
theorem map_inv_of (c : Ctx) (gs : List String) (groups : List (String × List String)) (kerning : List (String × String × Q)) (q : Q)
    (marks : Option (List String)) (im : Bool) (hw : wfKern gs groups kerning = true) (hsc : scriptsOK c gs = true) :
    MapInv ((allItems c (genPairs gs groups kerning q) marks im).map (·.2)) (makeKerningLookups c (genPairs gs groups kerning q) marks im) :=
  (makeKerningLookups_spec c (genPairs gs groups kerning q) marks im
    (nameInj_of_namesOK c _ marks im (namesOK_of_wf c gs groups kerning q marks im hw hsc))).1

/-- a letter of `s` is involved and the script's feature is written: the tag has a registration that references every lookup
    filed under `s` and lists exactly the languages declared for the tag -/
theorem reg_own (c : Ctx) (r : RegCtx) (gs : List String) (groups : List (String × List String))
    (kerning : List (String × String × Q)) (q : Q) (marks : Option (List String)) (im tk td : Bool) (s tag g1 g2 : String)
    (hw : wfKern gs groups kerning = true) (hsc : scriptsOK c gs = true)
    (hsD : DFLT_SCRIPTS.contains s = false) (htag : tag ∈ (alookup s r.otTags).getD [])
    (hfeat : featOn c r tk td s g1 g2 = true) (hmem : s ∈ c.resolved g1 ∨ s ∈ c.resolved g2)
    (L : Lookup) (hH : Has (makeKerningLookups c (genPairs gs groups kerning q) marks im) s L) :
    ∃ reg ∈ (program c r gs groups kerning q marks im tk td).kern ++ (program c r gs groups kerning q marks im tk td).dist,
      reg.script = tag ∧ L.name ∈ reg.lookups ∧ reg.languages = langsOf r tag := by
  have minv := map_inv_of c gs groups kerning q marks im hw hsc
  have hfeat' : (if r.dist.contains s then td else tk) = true := by
    unfold featOn at hfeat
    have : ((c.resolved g1).contains s || (c.resolved g2).contains s) = true := by
      rcases hmem with h | h <;> simp [h]
    rw [this] at hfeat
    simpa using hfeat
  obtain ⟨_, _, _, hskey⟩ := has_alookup _ _ minv s _ hH
  obtain ⟨reg, hreg, hscript, _, _, _, hmemreg⟩ :=
    C05_register c r (!r.dist.contains s) _ s tag hskey (by simp) hsD htag
  have hn : L.name ∈ reg.lookups := (hmemreg _).mpr (Or.inr (Or.inr (has_names _ _ minv s _ hH)))
  have hlangs : reg.languages = langsOf r tag := by
    rw [reg_languages c r _ _ reg hreg, hscript]
  refine ⟨reg, ?_, hscript, hn, hlangs⟩
  cases hd : r.dist.contains s with
  | false =>
    rw [hd] at hfeat' hreg
    simp only [Bool.false_eq_true, if_false] at hfeat'
    apply mem_append_left
    rw [program_kern, hfeat', if_pos rfl]
    simpa using hreg
  | true =>
    rw [hd] at hfeat' hreg
    simp only [if_true] at hfeat'
    apply mem_append_right
    rw [program_dist, hfeat', if_pos rfl]
    simpa using hreg

/-- `kern` is written: every registration of either feature references every Common lookup and lists the languages declared
    for its tag, and `DFLT` is registered -/
theorem reg_common (c : Ctx) (r : RegCtx) (gs : List String) (groups : List (String × List String))
    (kerning : List (String × String × Q)) (q : Q) (marks : Option (List String)) (im td : Bool)
    (hw : wfKern gs groups kerning = true) (hsc : scriptsOK c gs = true)
    (L : Lookup) (hH : Has (makeKerningLookups c (genPairs gs groups kerning q) marks im) COMMON L) :
    (∀ reg ∈ (program c r gs groups kerning q marks im true td).kern ++ (program c r gs groups kerning q marks im true td).dist,
      L.name ∈ reg.lookups ∧ reg.languages = langsOf r reg.script) ∧
    ∃ reg ∈ (program c r gs groups kerning q marks im true td).kern ++ (program c r gs groups kerning q marks im true td).dist,
      reg.script = "DFLT" := by
  have minv := map_inv_of c gs groups kerning q marks im hw hsc
  have hcn := has_names _ _ minv COMMON _ hH
  constructor
  · intro reg hreg
    rcases mem_append.mp hreg with h | h
    · rw [program_kern, if_pos rfl] at h
      exact ⟨regs_have_common c r true _ _ hcn reg h, reg_languages c r true _ reg h⟩
    · rw [program_dist] at h
      cases td with
      | false => simp at h
      | true =>
        rw [if_pos rfl] at h
        exact ⟨regs_have_common c r false _ _ hcn reg h, reg_languages c r false _ reg h⟩
  · obtain ⟨reg, hreg, hscript, _⟩ := dflt_reg c r (makeKerningLookups c (genPairs gs groups kerning q) marks im) _ hcn
    refine ⟨reg, mem_append_left _ ?_, hscript⟩
    rw [program_kern, if_pos rfl]
    exact hreg

theorem tk_of_neutral (c : Ctx) (r : RegCtx) (tk td : Bool) (s g1 g2 : String)
    (hfeat : featOn c r tk td s g1 g2 = true) (hmem : ¬(s ∈ c.resolved g1 ∨ s ∈ c.resolved g2)) : tk = true := by
  unfold featOn at hfeat
  have : ((c.resolved g1).contains s || (c.resolved g2).contains s) = false := by
    cases h1 : (c.resolved g1).contains s with
    | true => exact absurd (Or.inl (contains_iff_mem.mp h1)) hmem
    | false =>
      cases h2 : (c.resolved g2).contains s with
      | true => exact absurd (Or.inr (contains_iff_mem.mp h2)) hmem
      | false => rfl
  rw [this] at hfeat
  simpa using hfeat

/-- **C05 end-to-end.**  For well-formed kerning (`wfKern`), a Unicode context as fontTools supplies it (`ctxOK`, and script
    names of the ISO-15924 shape: `scriptsOK`), two glyphs of the font that are both of script `s` or script-neutral (`inScript`),
    an OpenType tag of `s` whose feature the writer writes (`featOn`), and the pair outside the three known bidi-cell shapes
    (`cellClean`):  the adjustment a shaper applies to `g1 g2` under `tag` (default language) — the emitted kern program read by
    the GPOS application semantics — is the UFO kerning value of the pair rounded to the quantisation step; in a right-to-left
    script the x-placement is that value too (and zero otherwise).  (That distinct buckets get distinct lookup names is no longer
    assumed: `namesOK_of_wf`.) -/
theorem C05_end_to_end (c : Ctx) (r : RegCtx) (gs : List String) (groups : List (String × List String))
    (kerning : List (String × String × Q)) (q : Q) (marks : Option (List String)) (im tk td : Bool) (s tag g1 g2 : String)
    (hw : wfKern gs groups kerning = true) (hctx : ctxOK c gs = true) (hg1 : g1 ∈ gs) (hg2 : g2 ∈ gs)
    (hsD : DFLT_SCRIPTS.contains s = false) (htag : tag ∈ (alookup s r.otTags).getD [])
    (hin1 : c.inScript s g1 = true) (hin2 : c.inScript s g2 = true) (hfeat : featOn c r tk td s g1 g2 = true)
    (hsc : scriptsOK c gs = true)
    (hclean : cellClean c gs groups kerning q marks im s g1 g2 = true) :
    applyKern (program c r gs groups kerning q marks im tk td) tag g1 g2 =
      (quantize (ufoKern groups kerning g1 g2) q, if c.dir s == "RTL" then quantize (ufoKern groups kerning g1 g2) q else 0) := by
  unfold applyKern
  apply C05_sum c r gs groups kerning q marks im tk td s g1 g2 hw hctx hg1 hg2 hsD hin1 hin2 hsc hclean
  · intro hmem L hb hH
    obtain ⟨reg, hreg, hscript, hn, _⟩ := reg_own c r gs groups kerning q marks im tk td s tag g1 g2 hw hsc hsD htag hfeat hmem L hH
    exact active_own _ tag _ reg hreg hscript hn hb
  · intro hmem L hb hH
    have htk := tk_of_neutral c r tk td s g1 g2 hfeat hmem
    subst htk
    obtain ⟨hall, hd⟩ := reg_common c r gs groups kerning q marks im td hw hsc L hH
    exact active_common _ tag _ (fun reg hreg => (hall reg hreg).1) hb hd

/-- `C05_end_to_end` with the hypotheses bundled as the decidable predicate the driver evaluates on every generated font -/
theorem C05_end_to_end_bundled (c : Ctx) (r : RegCtx) (gs : List String) (groups : List (String × List String))
    (kerning : List (String × String × Q)) (q : Q) (marks : Option (List String)) (im tk td : Bool) (s tag g1 g2 : String)
    (h : e2eHyp c r gs groups kerning q marks im tk td s tag g1 g2 = true) :
    applyKern (program c r gs groups kerning q marks im tk td) tag g1 g2 = e2eExpected c groups kerning q s g1 g2 := by
  unfold e2eHyp at h
  simp only [Bool.and_eq_true, contains_iff_mem, Bool.not_eq_true'] at h
  obtain ⟨⟨⟨⟨⟨⟨⟨⟨⟨⟨hw, hctx⟩, hg1⟩, hg2⟩, hsD⟩, htag⟩, hin1⟩, hin2⟩, hfeat⟩, hsc⟩, hclean⟩ := h
  exact C05_end_to_end c r gs groups kerning q marks im tk td s tag g1 g2 hw hctx hg1 hg2
    hsD htag hin1 hin2 hfeat hsc hclean

/-- **C05 end-to-end, every declared language.**  Under the hypotheses of `C05_end_to_end`, for every language the feature file
    declares for the tag (`lang ∈ langsOf r tag`; `dflt` always is) — and, when neither glyph is a letter of the script, other
    features neither put the tag into the ScriptList without kerning nor create a `DFLT` LangSys for the language that the
    writer does not list (`langHyp`) — the adjustment applied in a run of (tag, language) is the rounded UFO value, with
    the same x-placement in right-to-left scripts. -/
theorem C05_end_to_end_lang (d : Declared) (c : Ctx) (r : RegCtx) (gs : List String) (groups : List (String × List String))
    (kerning : List (String × String × Q)) (q : Q) (marks : Option (List String)) (im tk td : Bool) (s tag lang g1 g2 : String)
    (hw : wfKern gs groups kerning = true) (hctx : ctxOK c gs = true) (hg1 : g1 ∈ gs) (hg2 : g2 ∈ gs)
    (hsD : DFLT_SCRIPTS.contains s = false) (htag : tag ∈ (alookup s r.otTags).getD [])
    (hin1 : c.inScript s g1 = true) (hin2 : c.inScript s g2 = true) (hfeat : featOn c r tk td s g1 g2 = true)
    (hsc : scriptsOK c gs = true)
    (hclean : cellClean c gs groups kerning q marks im s g1 g2 = true)
    (hlang : langHyp d c r s tag lang g1 g2 = true) :
    applyKernLang d (program c r gs groups kerning q marks im tk td) tag lang g1 g2 =
      (quantize (ufoKern groups kerning g1 g2) q, if c.dir s == "RTL" then quantize (ufoKern groups kerning g1 g2) q else 0) := by
  unfold langHyp at hlang
  simp only [Bool.and_eq_true, Bool.or_eq_true, contains_iff_mem, Bool.not_eq_true'] at hlang
  obtain ⟨hl, hdecl⟩ := hlang
  unfold applyKernLang
  apply C05_sum c r gs groups kerning q marks im tk td s g1 g2 hw hctx hg1 hg2 hsD hin1 hin2 hsc hclean
  · intro hmem L hb hH
    obtain ⟨reg, hreg, hscript, hn, hlangs⟩ := reg_own c r gs groups kerning q marks im tk td s tag g1 g2 hw hsc hsD htag hfeat hmem L hH
    exact activeLang_own d _ tag lang _ reg hreg hscript (by rw [hlangs]; exact hl) hn hb
  · intro hmem L hb hH
    have htk := tk_of_neutral c r tk td s g1 g2 hfeat hmem
    subst htk
    obtain ⟨hall, reg0, hreg0, hs0⟩ := reg_common c r gs groups kerning q marks im td hw hsc L hH
    have hdecl' : d.tags.contains tag = false ∧ (d.langSys.contains ("DFLT", lang) = false ∨ lang ∈ langsOf r "DFLT") := by
      rcases hdecl with (h | h) | h
      · exact absurd (Or.inl h) hmem
      · exact absurd (Or.inr h) hmem
      · exact h
    apply activeLang_common d _ tag lang _ (fun reg hreg => (hall reg hreg).1) hb
    · exact ⟨reg0, hreg0, hs0, by rw [(hall reg0 hreg0).2]; exact dflt_in_langsOf r _⟩
    · intro reg hreg hs
      rw [(hall reg hreg).2, hs]; exact hl
    · refine ⟨hdecl'.1, ?_⟩
      rcases hdecl'.2 with h | h
      · exact Or.inl h
      · right
        intro reg hreg hs
        rw [(hall reg hreg).2, hs]; exact h

/-- `C05_end_to_end_lang`, hypotheses bundled (`e2eHyp` and `langHyp`, both evaluated by the driver) -/
theorem C05_end_to_end_lang_bundled (d : Declared) (c : Ctx) (r : RegCtx) (gs : List String) (groups : List (String × List String))
    (kerning : List (String × String × Q)) (q : Q) (marks : Option (List String)) (im tk td : Bool) (s tag lang g1 g2 : String)
    (h : e2eHyp c r gs groups kerning q marks im tk td s tag g1 g2 = true) (hlang : langHyp d c r s tag lang g1 g2 = true) :
    applyKernLang d (program c r gs groups kerning q marks im tk td) tag lang g1 g2 = e2eExpected c groups kerning q s g1 g2 := by
  unfold e2eHyp at h
  simp only [Bool.and_eq_true, contains_iff_mem, Bool.not_eq_true'] at h
  obtain ⟨⟨⟨⟨⟨⟨⟨⟨⟨⟨hw, hctx⟩, hg1⟩, hg2⟩, hsD⟩, htag⟩, hin1⟩, hin2⟩, hfeat⟩, hsc⟩, hclean⟩ := h
  exact C05_end_to_end_lang d c r gs groups kerning q marks im tk td s tag lang g1 g2 hw hctx hg1 hg2
    hsD htag hin1 hin2 hfeat hsc hclean hlang

/-- The assumption "lookup flags do not matter for an adjacent pair" costs nothing for IgnoreMarks lookups: the writer never
    puts a GDEF mark glyph into a rule of a lookup that carries the flag (such rules are made from the base halves of the
    pairs only) — so a shaper, or the reference interpreter, that lets an IgnoreMarks lookup skip every pair containing a mark
    applies the same adjustments as `applyKern`, which ignores the flag. -/
theorem C05_marks_never_in_base_lookup (c : Ctx) (r : RegCtx) (gs : List String) (groups : List (String × List String))
    (kerning : List (String × String × Q)) (q : Q) (ms : List String) (im tk td : Bool)
    (hw : wfKern gs groups kerning = true) (hsc : scriptsOK c gs = true)
    (l : Lookup) (hl : l ∈ (program c r gs groups kerning q (some ms) im tk td).lookups) (hflag : l.ignoreMarks = true)
    (rule : Rule) (hr : rule ∈ l.rules) (g : String) (hg : g ∈ rule.side1 ∨ g ∈ rule.side2) : g ∉ ms := by
  have hinj := nameInj_of_namesOK c _ (some ms) im (namesOK_of_wf c gs groups kerning q (some ms) im hw hsc)
  obtain ⟨minv, _⟩ := makeKerningLookups_spec c (genPairs gs groups kerning q) (some ms) im hinj
  obtain ⟨_, hBL, _⟩ := emitted_spec _ hinj _ minv
  rw [program_lookups] at hl
  obtain ⟨it, hit, rfl⟩ := mem_map.mp (hBL l hl)
  unfold allItems at hit
  obtain ⟨lst, hlst, hit'⟩ := mem_flatMap.mp hit
  obtain ⟨m1, hm1, rfl⟩ := pairLists_sub _ (some ms) im lst hlst
  unfold bucketItems at hit'
  obtain ⟨e, he, rfl⟩ := mem_map.mp hit'
  have hflag' : m1.flag = true := hflag
  by_cases hempty : ms = []
  · rw [hempty]; simp
  · -- the only mode with the flag is the base mode
    have hbase : m1 = .base ms := by
      unfold modes at hm1
      have hne : ms.isEmpty = false := by
        cases ms with
        | nil => exact absurd rfl hempty
        | cons _ _ => rfl
      cases im with
      | false =>
        simp only [Bool.false_eq_true, if_false, mem_singleton] at hm1
        rw [hm1] at hflag'; cases hflag'
      | true =>
        simp only [if_true, hne, Bool.false_eq_true, if_false, mem_cons, mem_nil_iff, or_false] at hm1
        rcases hm1 with h | h
        · exact h
        · rw [h] at hflag'; cases hflag'
    subst hbase
    obtain ⟨sp, hsp, hro⟩ := rule_prov c _ _ e rule hr
    obtain ⟨a1, a2, _⟩ := ruleOf_some c e.1 sp rule hro
    obtain ⟨p0, _, p, hp, k, hpart, _⟩ := cell_prov c _ (.base ms) e he sp hsp
    obtain ⟨_, _, sub1, sub2⟩ := cell_sides c p k sp hpart
    simp only [Mode.σ] at hp
    obtain ⟨b1, b2, _⟩ := mem_mkPair _ _ _ _ hp
    intro hgm
    have hc : ms.contains g = true := contains_iff_mem.mpr hgm
    rcases hg with hg | hg
    · rw [a1] at hg
      have := hit_base ms p0.side1 g
      rw [b1, hc] at this
      simp only [C05.hit, Bool.not_true, Bool.and_false, decide_eq_false_iff_not] at this
      exact this (sub1 g hg)
    · rw [a2] at hg
      have := hit_base ms p0.side2 g
      rw [b2, hc] at this
      simp only [C05.hit, Bool.not_true, Bool.and_false, decide_eq_false_iff_not] at this
      exact this (sub2 g hg)

/-- every cell of a generated pair lists only glyphs of that pair -/
theorem cellsOf_sub (c : Ctx) (marks : Option (List String)) (im : Bool) (p0 sp : KPair) (g1 g2 : String)
    (h : sp ∈ cellsOf c marks im p0 g1 g2) : ∀ x ∈ sp.glyphs, x ∈ p0.glyphs := by
  unfold cellsOf at h
  obtain ⟨h, _⟩ := mem_filter.mp h
  obtain ⟨x, hx0, rfl⟩ := mem_map.mp h
  obtain ⟨lst, hlst, hx1⟩ := mem_flatMap.mp hx0
  obtain ⟨p, hp, hxp⟩ := mem_flatMap.mp hx1
  obtain ⟨m1, _, hm1⟩ := pairLists_sub [p0] marks im lst hlst
  rw [hm1] at hp
  simp only [listOf, mem_flatMap, mem_singleton] at hp
  obtain ⟨p0', hp0', hp⟩ := hp
  rw [hp0'] at hp
  obtain ⟨_, _, _, s1, s2, _⟩ := σ_sound m1 p0 p hp
  obtain ⟨_, _, c1, c2⟩ := cell_sides c p x.1 x.2 hxp
  intro y hy
  simp only [KPair.glyphs, mem_append] at hy ⊢
  rcases hy with hy | hy
  · exact Or.inl (s1 y (c1 y hy))
  · exact Or.inr (s2 y (c2 y hy))

/-- a sufficient condition for `cellClean` at the granularity of the whole determining rule (no cell computation): the
    glyphs of the determining generated pair do not mix bidi types R and L, hold no bidi-L glyph when the script is
    right-to-left, and the two glyphs are not both neutral when the script is right-to-left -/
theorem cellClean_of_rule (c : Ctx) (gs : List String) (groups : List (String × List String)) (kerning : List (String × String × Q))
    (q : Q) (marks : Option (List String)) (im : Bool) (s g1 g2 : String)
    (h : ∀ p0, detPair gs groups kerning q g1 g2 = some p0 →
      ¬(p0.glyphs.any c.bidiR.contains = true ∧ p0.glyphs.any c.bidiL.contains = true) ∧
      (c.dir s = "RTL" → p0.glyphs.any c.bidiL.contains = false))
    (hn : c.dir s = "RTL" → ¬(c.neutral g1 = true ∧ c.neutral g2 = true)) :
    cellClean c gs groups kerning q marks im s g1 g2 = true := by
  unfold cellClean
  cases hd : detPair gs groups kerning q g1 g2 with
  | none => rfl
  | some p0 =>
    obtain ⟨hmix, hL⟩ := h p0 hd
    simp only [Bool.and_eq_true, all_eq_true, Bool.not_eq_true']
    constructor
    · intro sp hsp
      have hsub := cellsOf_sub c marks im p0 sp g1 g2 hsp
      have mono : ∀ (l : List String), sp.glyphs.any l.contains = true → p0.glyphs.any l.contains = true := by
        intro l hl
        simp only [any_eq_true] at hl ⊢
        obtain ⟨x, hx, hc⟩ := hl
        exact ⟨x, hsub x hx, hc⟩
      constructor
      · cases hR : sp.glyphs.any c.bidiR.contains with
        | false => rfl
        | true =>
          cases hLL : sp.glyphs.any c.bidiL.contains with
          | false => rfl
          | true => exact absurd ⟨mono _ hR, mono _ hLL⟩ hmix
      · cases hrtl : (c.dir s == "RTL") with
        | false => rfl
        | true =>
          cases hLL : sp.glyphs.any c.bidiL.contains with
          | false => rfl
          | true =>
            have := hL (by simpa using hrtl)
            rw [mono _ hLL] at this; cases this
    · cases hrtl : (c.dir s == "RTL") with
      | false => rfl
      | true =>
        have := hn (by simpa using hrtl)
        cases h1 : c.neutral g1 <;> cases h2 : c.neutral g2 <;> simp_all

end Ufo2ft.C05
