import Ufo2ftModel.Props.Render
/-! PropagateAnchorsFilter: anchors are only ever appended; nothing else of any glyph changes. -/
namespace Ufo2ft
open List

variable {bnd : Comp → Option (Q × Q)}

/-- `a` extends `b`: same glyphs, each with the same outline, components and metrics, and with `b`'s anchors as a prefix
    of `a`'s (existing anchors are never overridden, removed or reordered; new ones come after them) -/
def AnchExt (a b : GlyphSet) : Prop :=
  ∀ n gb, b.get? n = some gb → ∃ ga, a.get? n = some ga ∧ gb.anchors <+: ga.anchors ∧ ga.contours = gb.contours ∧
    ga.comps = gb.comps ∧ ga.width = gb.width ∧ ga.height = gb.height ∧ ga.name = gb.name

theorem AnchExt.refl (a : GlyphSet) : AnchExt a a :=
  fun n g h => ⟨g, h, prefix_refl _, rfl, rfl, rfl, rfl, rfl⟩

theorem AnchExt.trans {a b c : GlyphSet} (h1 : AnchExt a b) (h2 : AnchExt b c) : AnchExt a c := by
  intro n gc hc
  obtain ⟨gb, hb, p1, c1, k1, w1, e1, n1⟩ := h2 n gc hc
  obtain ⟨ga, ha, p2, c2, k2, w2, e2, n2⟩ := h1 n gb hb
  exact ⟨ga, ha, p1.trans p2, c2.trans c1, k2.trans k1, w2.trans w1, e2.trans e1, n2.trans n1⟩

theorem AnchExt.set (gs : GlyphSet) (name : String) (g : Glyph) (extra : List Anchor) (hget : gs.get? name = some g) :
    AnchExt (gs.set name { g with anchors := g.anchors ++ extra }) gs := by
  intro n gb hb
  rw [get?_set gs name n g _ hget]
  by_cases e : n = name
  · rw [if_pos e]
    rw [e, hget] at hb
    have := Option.some.inj hb; subst this
    exact ⟨_, rfl, prefix_append _ _, rfl, rfl, rfl, rfl, rfl⟩
  · rw [if_neg e]; exact ⟨gb, hb, prefix_refl _, rfl, rfl, rfl, rfl, rfl⟩

def PropOne (fuel : Nat) : Prop :=
  ∀ bnd marks st name st', propagate fuel bnd marks st name = .ok st' → AnchExt st'.gs st.gs
def PropMany (fuel : Nat) : Prop :=
  ∀ bnd marks st ks sp st' sp', propagateComps fuel bnd marks st ks sp = .ok (st', sp') → AnchExt st'.gs st.gs

theorem propMany_of_propOne (fuel : Nat) (h1 : PropOne fuel) : PropMany fuel := by
  intro bnd marks st ks
  induction ks generalizing st with
  | nil =>
    intro sp st' sp' h
    simp only [propagateComps] at h
    have := Except.ok.inj h
    rw [← (Prod.mk.inj this).1]; exact AnchExt.refl _
  | cons k ks ih =>
    intro sp st' sp' h
    unfold propagateComps at h
    cases hb : st.gs.get? k.base with
    | none => rw [hb] at h; exact ih st sp st' sp' h
    | some b0 =>
      rw [hb] at h
      dsimp only at h
      cases hp : propagate fuel bnd marks st k.base with
      | error e => rw [hp] at h; cases h
      | ok st1 =>
        rw [hp] at h
        dsimp only at h
        have e1 := h1 bnd marks st k.base st1 hp
        cases hb1 : st1.gs.get? k.base with
        | none => rw [hb1] at h; cases h
        | some b =>
          rw [hb1] at h
          dsimp only at h
          by_cases hm : (b.anchors.any fun a => a.name.startsWith "_") = true
          · rw [if_pos hm] at h; exact (ih st1 _ st' sp' h).trans e1
          · rw [if_neg hm] at h; exact (ih st1 _ st' sp' h).trans e1

theorem propOne_succ (fuel : Nat) (h2 : PropMany fuel) : PropOne (fuel + 1) := by
  intro bnd marks st name st' h
  unfold propagate at h
  by_cases hpr : st.processed.contains name = true
  · rw [if_pos hpr] at h
    have := Except.ok.inj h; subst this; exact AnchExt.refl _
  · rw [if_neg hpr] at h
    dsimp only at h
    cases hg : st.gs.get? name with
    | none => rw [hg] at h; cases h
    | some g =>
      rw [hg] at h
      dsimp only at h
      by_cases hskip : (g.comps.isEmpty || (marks.contains name && !g.anchors.isEmpty)) = true
      · rw [if_pos hskip] at h
        have := Except.ok.inj h; subst this; exact AnchExt.refl _
      · rw [if_neg hskip] at h
        cases hc : propagateComps fuel bnd marks { st with processed := st.processed ++ [name] } g.comps ⟨[], [], []⟩ with
        | error e => rw [hc] at h; cases h
        | ok res =>
          obtain ⟨st1, sp0⟩ := res
          rw [hc] at h
          dsimp only at h
          have e1 : AnchExt st1.gs st.gs := h2 bnd marks { st with processed := st.processed ++ [name] } g.comps _ st1 sp0 hc
          cases hpm : promoteSplit bnd name sp0 with
          | error e => rw [hpm] at h; cases h
          | ok sp =>
            rw [hpm] at h
            dsimp only at h
            have h' := Except.ok.inj h
            split at h'
            · subst h'; exact e1
            · subst h'
              dsimp only
              -- the glyph written back is `g` (as read before the recursion) with anchors appended; `g`'s record in st1
              -- extends it, so writing `g ++ extra` there still extends the original
              intro n gb hb
              obtain ⟨g1, hg1, p1, c1, k1, w1, x1, n1⟩ := e1 n gb hb
              by_cases en : n = name
              · subst en
                rw [hg] at hb
                have := Option.some.inj hb; subst this
                have hset := get?_set st1.gs n n g1
                  { g with anchors := g.anchors ++ (List.map (fun e => (⟨e.1, e.2.1, e.2.2⟩ : Anchor))
                    (List.mergeSort (List.foldl (fun d x => adjustAnchors d x.1 x.2)
                      (List.foldl (fun d an => if (g.anchors.any fun a => a.name.startsWith an) = true then d
                        else getAnchorData d sp.baseComps an) [] (sortStr sp.names)) sp.markComps)
                      (fun a b => strLe a.1 b.1))) } hg1
                rw [if_pos rfl] at hset
                exact ⟨_, hset, prefix_append _ _, rfl, rfl, rfl, rfl, rfl⟩
              · refine ⟨g1, ?_, p1, c1, k1, w1, x1, n1⟩
                obtain ⟨gname, hgname, _⟩ := e1 name g hg
                rw [get?_set st1.gs name n gname _ hgname, if_neg en]; exact hg1

theorem propagate_ext : ∀ fuel, PropOne fuel ∧ PropMany fuel := by
  intro fuel
  induction fuel with
  | zero =>
    have h0 : PropOne 0 := by intro bnd marks st name st' h; simp only [propagate] at h; cases h
    exact ⟨h0, propMany_of_propOne 0 h0⟩
  | succ n ih =>
    have h1 := propOne_succ n ih.2
    exact ⟨h1, propMany_of_propOne (n + 1) h1⟩

/-- **C15 (anchor propagation never overrides)**: running PropagateAnchorsFilter over any visiting order and include
    predicate leaves every glyph's outline, components and metrics untouched, and every glyph's original anchors unchanged
    and still first — propagated anchors are only appended after them. -/
theorem propagateLoop_ext (marks : List String) (incl : String → Bool) :
    ∀ (order : List String) (st st' : FState), filterLoop (propagateStep bnd marks) incl order st = .ok st' →
      AnchExt st'.gs st.gs := by
  intro order
  induction order with
  | nil =>
    intro st st' h
    simp only [filterLoop] at h
    have := Except.ok.inj h; subst this; exact AnchExt.refl _
  | cons n ns ih =>
    intro st st' h
    unfold filterLoop at h
    by_cases hm : st.modified.contains n = true
    · rw [if_pos hm] at h; exact ih st st' h
    · rw [if_neg hm] at h
      cases hget : st.gs.get? n with
      | none => rw [hget] at h; cases h
      | some g =>
        rw [hget] at h
        dsimp only at h
        by_cases hi : incl n = true
        · rw [if_pos hi] at h
          cases hs : propagateStep bnd marks st g with
          | error e => rw [hs] at h; cases h
          | ok res =>
            obtain ⟨st1, r⟩ := res
            rw [hs] at h
            dsimp only at h
            have key : AnchExt st1.gs st.gs := by
              unfold propagateStep at hs
              by_cases he : g.comps.isEmpty = true
              · rw [if_pos he] at hs
                have := Except.ok.inj hs
                rw [← (Prod.mk.inj this).1]; exact AnchExt.refl _
              · rw [if_neg he] at hs
                cases hp : propagate (st.gs.length + 1) bnd marks st g.name with
                | error e => rw [hp] at hs; cases hs
                | ok st2 =>
                  rw [hp] at hs
                  have := Except.ok.inj hs
                  rw [← (Prod.mk.inj this).1]
                  exact (propagate_ext (st.gs.length + 1)).1 bnd marks st g.name st2 hp
            by_cases hr : r = true
            · rw [if_pos hr] at h; exact (ih _ st' h).trans key
            · rw [if_neg hr] at h; exact (ih _ st' h).trans key
        · rw [if_neg hi] at h; exact ih st st' h

end Ufo2ft
