import Ufo2ftModel.Props.C01
import Ufo2ftModel.Props.C13
/-! C01 with a skip-export list: the drawn contours are a permutation of the specified ones. -/
namespace Ufo2ft.C01
open Ufo2ft List

def noClose (ops : List Op) : Prop := ∀ o ∈ ops, o ≠ Op.closePath

theorem segmentOps_noClose (cur : P) (offs : List P) (p : Pt) (closing : Bool) (ops : List Op) (cur' : P)
    (h : segmentOps cur offs p closing = .ok (ops, cur')) : noClose ops := by
  have hq : ∀ (c : P) (l : List P) (e : P), noClose (qCurve c l e) := by
    intro c l
    induction l generalizing c with
    | nil => intro e o ho; simp only [qCurve, mem_singleton] at ho; subst ho; simp
    | cons a l ih =>
      intro e o ho
      cases l with
      | nil => simp only [qCurve, mem_singleton, quadToCubic] at ho; subst ho; simp
      | cons b l' =>
        simp only [qCurve, mem_cons] at ho
        rcases ho with rfl | ho
        · simp [quadToCubic]
        · exact ih _ e o ho
  unfold segmentOps at h
  intro o ho
  cases hs : p.seg with
  | none => rw [hs] at h; cases h
  | some t =>
    rw [hs] at h
    cases t with
    | move => cases h
    | line =>
      dsimp only at h
      by_cases h1 : (!offs.isEmpty) = true
      · rw [if_pos h1] at h; cases h
      · rw [if_neg h1] at h
        by_cases h2 : (closing && ptOf p != cur) = true
        · rw [if_pos h2] at h; have := Except.ok.inj h; rw [← (Prod.mk.inj this).1] at ho; cases ho
        · rw [if_neg h2] at h; have := Except.ok.inj h; rw [← (Prod.mk.inj this).1] at ho
          simp only [mem_singleton] at ho; subst ho; simp
    | curve =>
      dsimp only at h
      match offs, h with
      | [a, b], h => have := Except.ok.inj h; rw [← (Prod.mk.inj this).1] at ho; simp only [mem_singleton] at ho; subst ho; simp
      | [], h => have := Except.ok.inj h; rw [← (Prod.mk.inj this).1] at ho; simp only [mem_singleton] at ho; subst ho; simp
      | [a], h => have := Except.ok.inj h; rw [← (Prod.mk.inj this).1] at ho; simp only [mem_singleton, quadToCubic] at ho; subst ho; simp
      | _ :: _ :: _ :: _, h => cases h
    | qcurve =>
      dsimp only at h
      have := Except.ok.inj h; rw [← (Prod.mk.inj this).1] at ho; exact hq _ _ _ o ho

theorem walk_noClose : ∀ (l : List Pt) (cur : P) (offs : List P) (ops : List Op),
    walk cur offs l = .ok ops → noClose ops := by
  intro l
  induction l with
  | nil => intro cur offs ops h; simp only [walk] at h; cases h; intro o ho; cases ho
  | cons p ps ih =>
    intro cur offs ops h
    unfold walk at h
    cases hs : p.seg with
    | none => rw [hs] at h; exact ih _ _ ops h
    | some t =>
      rw [hs] at h
      dsimp only at h
      cases hseg : segmentOps cur offs p ps.isEmpty with
      | error e => rw [hseg] at h; cases h
      | ok r =>
        obtain ⟨o1, c1⟩ := r
        rw [hseg] at h
        dsimp only at h
        cases hw : walk c1 [] ps with
        | error e => rw [hw] at h; cases h
        | ok r2 =>
          rw [hw] at h
          have := Except.ok.inj h; subst this
          intro o ho
          rcases mem_append.mp ho with ho | ho
          · exact segmentOps_noClose cur offs p ps.isEmpty o1 c1 hseg o ho
          · exact ih c1 [] r2 hw o ho

/-- the commands of one contour: a moveTo, drawing commands, one closePath at the very end -/
theorem toSegments_shape (c : Contour) (ops : List Op) (h : toSegments c = .ok ops) :
    ∃ body, ops = body ++ [Op.closePath] ∧ noClose body := by
  unfold toSegments at h
  split at h
  · cases h
  · cases hf : firstOnIdx c 0 with
    | none => rw [hf] at h; cases h
    | some i =>
      rw [hf] at h
      dsimp only at h
      cases hc : c[i]? with
      | none => rw [hc] at h; cases h
      | some start =>
        rw [hc] at h
        dsimp only at h
        cases hw : walk (ptOf start) [] (c.drop (i + 1) ++ c.take (i + 1)) with
        | error e => rw [hw] at h; cases h
        | ok w =>
          rw [hw] at h
          have := Except.ok.inj h; subst this
          refine ⟨Op.moveTo (ptOf start) :: w, by simp, ?_⟩
          intro o ho
          rcases mem_cons.mp ho with rfl | ho
          · simp
          · exact walk_noClose _ _ _ w hw o ho

theorem splitContours_body (body rest acc : List Op) (hb : noClose body) :
    splitContours (body ++ [Op.closePath] ++ rest) acc = (acc ++ body ++ [Op.closePath]) :: splitContours rest [] := by
  induction body generalizing acc with
  | nil => simp [splitContours]
  | cons o body ih =>
    have ho : o ≠ Op.closePath := hb o mem_cons_self
    have hb' : noClose body := fun x hx => hb x (mem_cons_of_mem _ hx)
    cases o with
    | closePath => exact absurd rfl ho
    | moveTo p => simp only [cons_append, splitContours]; rw [ih _ hb']; simp
    | lineTo p => simp only [cons_append, splitContours]; rw [ih _ hb']; simp
    | curveTo a b c => simp only [cons_append, splitContours]; rw [ih _ hb']; simp

theorem map_roundOp_noClose (tol : Q) (body : List Op) (hb : noClose body) : noClose (body.map (roundOp tol)) := by
  intro o ho
  obtain ⟨o0, h0, rfl⟩ := mem_map.mp ho
  have := hb o0 h0
  cases o0 <;> simp_all [roundOp]

/-- per-contour command list -/
def contourOps (tol : Q) (c : Contour) : Option (List Op) :=
  match toSegments c with | .ok ops => some (ops.map (roundOp tol)) | .error _ => none

/-- splitting the command stream of a contour list gives back one command group per contour, in order -/
theorem splitContours_contoursOps (tol : Q) : ∀ (cs : List Contour) (out : List Op), contoursOps tol cs = .ok out →
    splitContours out [] = cs.filterMap (contourOps tol) := by
  intro cs
  induction cs with
  | nil => intro out h; simp only [contoursOps] at h; cases h; rfl
  | cons c cs ih =>
    intro out h
    simp only [contoursOps] at h
    cases hc : toSegments c with
    | error e => rw [hc] at h; cases h
    | ok ops =>
      rw [hc] at h
      cases hr : contoursOps tol cs with
      | error e => rw [hr] at h; cases h
      | ok rest =>
        rw [hr] at h
        have := Except.ok.inj h; subst this
        obtain ⟨body, rfl, hb⟩ := toSegments_shape c ops hc
        have e : map (roundOp tol) (body ++ [Op.closePath]) = body.map (roundOp tol) ++ [Op.closePath] := by simp [roundOp]
        rw [e, splitContours_body _ _ _ (map_roundOp_noClose tol body hb)]
        have hco : contourOps tol c = some (body.map (roundOp tol) ++ [Op.closePath]) := by simp only [contourOps, hc, e]
        simp only [List.filterMap_cons, hco, nil_append, ih rest hr]

theorem contoursOps_perm (tol : Q) (cs1 cs2 : List Contour) (hp : cs1.Perm cs2) (o1 o2 : List Op)
    (h1 : contoursOps tol cs1 = .ok o1) (h2 : contoursOps tol cs2 = .ok o2) :
    (splitContours o1 []).Perm (splitContours o2 []) := by
  rw [splitContours_contoursOps tol cs1 o1 h1, splitContours_contoursOps tol cs2 o2 h2]
  exact hp.filterMap _

end Ufo2ft.C01

namespace Ufo2ft.C01
open Ufo2ft List

theorem contoursOps_ok_iff (tol : Q) : ∀ (cs : List Contour),
    (∃ o, contoursOps tol cs = .ok o) ↔ ∀ c ∈ cs, ∃ ops, toSegments c = .ok ops := by
  intro cs
  induction cs with
  | nil => simp [contoursOps]
  | cons c cs ih =>
    constructor
    · rintro ⟨o, h⟩
      simp only [contoursOps] at h
      cases hc : toSegments c with
      | error e => rw [hc] at h; cases h
      | ok ops =>
        rw [hc] at h
        cases hr : contoursOps tol cs with
        | error e => rw [hr] at h; cases h
        | ok rest =>
          intro c' hc'
          rcases mem_cons.mp hc' with rfl | hc'
          · exact ⟨ops, hc⟩
          · exact (ih.mp ⟨rest, hr⟩) c' hc'
    · intro h
      obtain ⟨ops, hc⟩ := h c mem_cons_self
      obtain ⟨rest, hr⟩ := ih.mpr (fun c' hc' => h c' (mem_cons_of_mem _ hc'))
      exact ⟨map (roundOp tol) ops ++ rest, by simp only [contoursOps, hc, hr]⟩

theorem alookup_filter_skipped (skip : List String) (n : String) (h : skip.contains n = true) :
    ∀ gs : GlyphSet, alookup n (gs.filter (fun e => !skip.contains e.1)) = none := by
  intro gs
  induction gs with
  | nil => rfl
  | cons e gs ih =>
    obtain ⟨k, v⟩ := e
    by_cases hk : skip.contains k = true
    · simp only [List.filter_cons, hk, Bool.not_true, Bool.false_eq_true, if_false, ih]
    · have hkn : (k == n) = false := by
        cases hkn : (k == n) with
        | false => rfl
        | true => have : k = n := by simpa using hkn
                  rw [this, h] at hk; exact absurd rfl hk
      simp only [List.filter_cons, hk, Bool.not_false, if_true, alookup, hkn, Bool.false_eq_true, if_false, ih]

/-- deleting the skipped entries keeps a well-formed glyph set well-formed -/
theorem good_filter (skip : List String) (gs : GlyphSet) (rank : String → Nat) (hg : Good gs rank) (hn : Named gs) :
    Good (gs.filter (fun e => !skip.contains e.1)) rank ∧ Named (gs.filter (fun e => !skip.contains e.1)) := by
  have key : ∀ n g, GlyphSet.get? (gs.filter (fun e => !skip.contains e.1)) n = some g → gs.get? n = some g := by
    intro n g h
    unfold GlyphSet.get? at h ⊢
    by_cases hs : skip.contains n = true
    · rw [alookup_filter_skipped skip n hs] at h; cases h
    · rw [C13.alookup_filter skip n (by simpa using hs)] at h; exact h
  exact ⟨⟨fun n g h => hg.ranked n g (key n g h), fun n g h => hg.nonsing n g (key n g h),
    fun n g h => hg.invol n g (key n g h)⟩, fun n g h => hn n g (key n g h)⟩

/-- **C01_outline with a skip-export list**: every remaining glyph's compiled outline consists of exactly the specified
    contours (the source outline with all components resolved, mirrored ones reversed, every coordinate rounded) — as a
    multiset: splicing a skipped component in may change the order of contours, nothing is lost or duplicated. -/
theorem C01_outline_skip (tol : Q) (skip : List String) (hne : skip.isEmpty = false) (gs pre : GlyphSet)
    (rank : String → Nat) (hg : Good gs rank) (hn : Named gs) (h : preprocess skip gs = .ok pre)
    (n : String) (g : Glyph) (hs : skip.contains n = false) (hget : gs.get? n = some g) (hb : rank n ≤ gs.length)
    (ops : List Op) (hops : cffOutline tol pre n = .ok ops) :
    holdsOutline false tol gs g ops = true := by
  unfold preprocess at h
  rw [hne] at h
  simp only [Bool.false_eq_true, if_false] at h
  cases h1 : skipExport skip (fun _ => true) gs with
  | error e => rw [h1] at h; cases h
  | ok st1 =>
    rw [h1] at h
    dsimp only at h
    cases h2 : runFilter decomposeStep (fun _ => true) st1.gs with
    | error e => rw [h2] at h; cases h
    | ok st2 =>
      rw [h2] at h
      have := Except.ok.inj h; subst this
      -- phase 1: skip-export
      obtain ⟨_, hrender⟩ := C13.C13_render skip gs st1 rank hg hn h1
      obtain ⟨g1, hg1, _, _, _, _, hperm⟩ := hrender n g hs hget
      -- well-formedness of the reduced set
      have hgood1 : Good st1.gs rank ∧ Named st1.gs := by
        unfold skipExport at h1
        cases hr : runFilter (skipExportStep skip) (fun _ => true) gs with
        | error e => rw [hr] at h1; cases h1
        | ok st0 =>
          rw [hr] at h1
          have := Except.ok.inj h1; subst this
          have hs0 := runFilter_sameRender (skipExportStep skip) rank
            (stepOK_of_isDecomp rank _ (skipExportStep_isDecomp skip)) (fun _ => true) gs st0 hr hg hn
          exact good_filter skip st0.gs rank hs0.1 hs0.2.1
      -- phase 2: full decomposition
      unfold runFilter at h2
      cases ho : orderedGlyphs st1.gs with
      | error e => rw [ho] at h2; cases h2
      | ok order =>
        rw [ho] at h2
        obtain ⟨_, _, hsame, _, hflat, _⟩ := fullLoop rank order ⟨st1.gs, [], []⟩ st2 h2 hgood1.1 hgood1.2
          (fun x hx => (by cases hx))
        obtain ⟨hsome, heq⟩ := hsame n
        have hmem := orderedGlyphs_mem st1.gs order ho n g1 hg1
        cases hp : st2.gs.get? n with
        | none => rw [hp, hg1] at hsome; cases hsome
        | some g' =>
          have hc : g'.comps = [] := hflat n hmem g' hp
          have hid : Affine.id.det ≠ 0 := by simp only [Affine.id, Affine.det]; grind
          have e := heq g' g1 hp hg1 Affine.id (gs.length + 2) hid (by omega)
          have p := hperm Affine.id (gs.length + 2) hid (by omega)
          have hcont : g'.contours = render (gs.length + 2) st2.gs Affine.id g' := by
            rw [render_succ, hc, drawContours_id]; simp
          unfold cffOutline at hops
          rw [hp] at hops
          dsimp only at hops
          -- the specified outline exists and is a contour-wise permutation
          have hpermc : (g'.contours).Perm (renderGlyph gs g) := by
            rw [hcont, e]; exact p
          obtain ⟨sops, hsops⟩ := (contoursOps_ok_iff tol (renderGlyph gs g)).mpr (by
            intro c hc'
            exact ((contoursOps_ok_iff tol g'.contours).mp ⟨ops, hops⟩) c (hpermc.mem_iff.mpr hc'))
          have hns := nonsingularFrom_of_good gs rank hg (gs.length + 1) g (hg.nonsing n g hget)
          unfold holdsOutline specOutline
          rw [hsops]
          simp only [hns, Bool.not_true, Bool.false_eq_true, if_false]
          exact isPerm_iff.mpr (contoursOps_perm tol _ _ hpermc ops sops hops hsops)

end Ufo2ft.C01
