import Ufo2ftModel.Props.C14
import Ufo2ftModel.Spec.C14Special
/-!
# C14 for DottedCircleFilter and ExplodeColorLayerGlyphsFilter

Proved for all inputs: what the two filters do to the GLYPH SET stays within what they are asked for, and
DottedCircleFilter reports it.  Also proved for all inputs (meeting a stated decidable condition): the two KNOWN
FINDINGS – `dottedCircle_writes_source` (the categories in the source font's lib / the feature text are written),
`explode_writes_source` (the source font's lib gets the colorLayers key) and `explode_underreports` (every glyph the
filter adds is missing from the returned set, while the glyphs it reports are unchanged).
-/
namespace Ufo2ft.C14
open List

/-! ## DottedCircleFilter -/

theorem dcTarget_eq (i : DCIn) :
    dcTarget i.src.glyphs i.gs =
      match checkDC i with
      | .nothing => none
      | .existing n _ => some n
      | .draw => some drawnName := by
  unfold dcTarget checkDC findDC dottedCircleCP drawnName
  cases h : i.src.glyphs.find? (fun g => g.unicodes.contains 0x25CC) with
  | none => simp
  | some fg =>
    simp only [Option.map_some]
    cases h2 : alookup fg.name i.gs with
    | none => rfl
    | some g => by_cases h3 : g.contours.isEmpty = true <;> simp [h3]

theorem dcTargetAnchors_eq (i : DCIn) :
    dcTargetAnchors i.src.glyphs i.gs i.drawn =
      match checkDC i with
      | .nothing => []
      | .existing _ g => g.anchors.map (·.name)
      | .draw => i.drawn.anchors.map (·.name) := by
  unfold dcTargetAnchors checkDC findDC dottedCircleCP
  cases h : i.src.glyphs.find? (fun g => g.unicodes.contains 0x25CC) with
  | none => simp
  | some fg =>
    simp only [Option.map_some]
    cases h2 : alookup fg.name i.gs with
    | none => rfl
    | some g => by_cases h3 : g.contours.isEmpty = true <;> simp [h3]

/-- what `dcFinish` does to the glyph set, the returned set and the source -/
theorem dcFinish_spec (i : DCIn) (name : String) (g : Glyph) (gs : GlyphSet) (ag ex : Bool) (o : DCOut)
    (h : dcFinish i name g gs ag ex = .ok o) :
    (∀ n, n ≠ name → alookup n o.gs = alookup n gs) ∧
    (alookup name o.gs ≠ alookup name gs → name ∈ o.modified) ∧
    (ag = true → name ∈ o.modified) ∧
    ∃ na ties, newAnchors g.width (g.anchors.map (·.name)) (gather i.src.glyphs) = .ok (na, ties) ∧
      (na = [] → o.gs = gs ∧ o.src = i.src) ∧
      (na ≠ [] → o.src = ensureBase name
          (if i.shared && ex then { i.src with glyphs := setFGlyph name { g with anchors := g.anchors ++ na } i.src.glyphs }
           else i.src)) := by
  unfold dcFinish at h
  split at h
  · exact absurd h (by simp)
  · rename_i na ties hna
    by_cases hem : na.isEmpty = true
    · rw [if_pos hem] at h
      simp only [Except.ok.injEq] at h
      subst h
      have hnil : na = [] := List.isEmpty_iff.mp hem
      refine ⟨fun _ _ => rfl, fun hc => absurd rfl hc, ?_, na, ties, hna, fun _ => ⟨rfl, rfl⟩, fun hc => absurd hnil hc⟩
      intro hag; simp [hag]
    · rw [if_neg hem] at h
      simp only [Except.ok.injEq] at h
      subst h
      have hne : na ≠ [] := fun e => hem (by simp [e])
      refine ⟨fun n hn => alookup_aset_ne name n _ gs hn, fun _ => by simp, fun _ => by simp, na, ties, hna,
        fun hc => absurd hc hne, fun _ => rfl⟩

/-- **dc_footprint**: the only entry of the glyph set that can differ after the call is the one glyph the filter is
 asked for – the font's U+25CC glyph if the glyph set has it with an outline, else `uni25CC`. -/
theorem dc_footprint (i : DCIn) (o : DCOut) (h : dcCall i = .ok o) (n : String)
    (hn : alookup n o.gs ≠ alookup n i.gs) : dcTarget i.src.glyphs i.gs = some n := by
  rw [dcTarget_eq]
  unfold dcCall at h
  split at h
  · simp only [Except.ok.injEq] at h; subst h; exact absurd rfl hn
  · rename_i m g hc
    have hs := (dcFinish_spec i m g i.gs false true o h).1
    by_cases e : n = m
    · subst e; rw [hc]
    · exact absurd (hs n e) hn
  · rename_i hc
    have hs := (dcFinish_spec i drawnName i.drawn _ true false o h).1
    by_cases e : n = drawnName
    · subst e; rw [hc]
    · exact absurd ((hs n e).trans (alookup_aset_ne drawnName n _ i.gs e)) hn

/-- **dc_report**: a changed or added glyph is in the returned set. -/
theorem dc_report (i : DCIn) (o : DCOut) (h : dcCall i = .ok o) (n : String)
    (hn : alookup n o.gs ≠ alookup n i.gs) : n ∈ o.modified := by
  unfold dcCall at h
  split at h
  · simp only [Except.ok.injEq] at h; subst h; exact absurd rfl hn
  · rename_i m g hc
    obtain ⟨h1, h2, _⟩ := dcFinish_spec i m g i.gs false true o h
    by_cases e : n = m
    · subst e; exact h2 hn
    · exact absurd (h1 n e) hn
  · obtain ⟨h1, _, h3, _⟩ := dcFinish_spec i drawnName i.drawn _ true false o h
    by_cases e : n = drawnName
    · subst e; exact h3 rfl
    · exact absurd ((h1 n e).trans (alookup_aset_ne drawnName n _ i.gs e)) hn

/-- **dc_holds**: the glyph-set clauses of the predicate the driver evaluates hold of the model for all inputs. -/
theorem dc_holds (i : DCIn) (o : DCOut) (h : dcCall i = .ok o) :
    holdsDCFootprint i.src.glyphs i.gs o.gs = true ∧ holdsReport i.gs o.gs o.modified = true := by
  simp only [holdsDCFootprint, holdsReport, List.all_eq_true]
  refine ⟨fun n hn => ?_, fun n hn => ?_⟩
  · simpa using dc_footprint i o h n (mem_changedNames hn)
  · simpa using dc_report i o h n (mem_changedNames hn)

theorem ensureBase_glyphs (dc : String) (s : DCSrc) : (ensureBase dc s).glyphs = s.glyphs := by
  unfold ensureBase
  split
  · split <;> rfl
  · rfl

/-- **dc_source_glyphs**: with a separate glyph set the glyphs of the source font are not touched. -/
theorem dc_source_glyphs (i : DCIn) (hs : i.shared = false) (o : DCOut) (h : dcCall i = .ok o) :
    o.src.glyphs = i.src.glyphs := by
  unfold dcCall at h
  split at h
  · simp only [Except.ok.injEq] at h; subst h; rfl
  · rename_i m g hc
    obtain ⟨_, _, _, na, ties, _, h5, h6⟩ := dcFinish_spec i m g i.gs false true o h
    by_cases e : na = []
    · rw [(h5 e).2]
    · rw [h6 e, ensureBase_glyphs]; simp [hs]
  · obtain ⟨_, _, _, na, ties, _, h5, h6⟩ := dcFinish_spec i drawnName i.drawn _ true false o h
    by_cases e : na = []
    · rw [(h5 e).2]
    · rw [h6 e, ensureBase_glyphs]; simp

/-! ### the known finding: the source font is written -/

theorem hasKey_dset {ν : Type} (k k' : String) (v : ν) (d : List (String × ν)) :
    hasKey k (dset k' v d) = (hasKey k d || k' == k) := by
  induction d with
  | nil => simp [dset, hasKey]
  | cons e t ih =>
    unfold dset
    by_cases he : (e.1 == k') = true
    · simp only [he, if_true]
      have : e.1 = k' := by simpa using he
      simp only [hasKey, List.any_cons] at ih ⊢
      by_cases hk : (k' == k) = true
      · simp [this, hk]
      · simp [this, hk]
    · simp only [he, Bool.false_eq_true, if_false]
      simp only [hasKey, List.any_cons] at ih ⊢
      rw [ih, Bool.or_assoc]

theorem hasKey_dappend (k k' : String) (p : Pos) (d : List (String × List Pos)) :
    hasKey k (dappend k' p d) = (hasKey k d || k' == k) := by
  induction d with
  | nil => simp [dappend, hasKey]
  | cons e t ih =>
    unfold dappend
    by_cases he : (e.1 == k') = true
    · simp only [he, if_true]
      have : e.1 = k' := by simpa using he
      simp only [hasKey, List.any_cons] at ih ⊢
      by_cases hk : (k' == k) = true
      · simp [this, hk]
      · simp [this, hk]
    · simp only [he, Bool.false_eq_true, if_false]
      simp only [hasKey, List.any_cons] at ih ⊢
      rw [ih, Bool.or_assoc]

theorem gatherAnchor_mono (fg : FGlyph) (acc : List (String × List Pos)) (a : Anchor) (k : String)
    (h : hasKey k acc = true) : hasKey k (gatherAnchor fg acc a) = true := by
  unfold gatherAnchor
  split
  · rw [hasKey_dset, h]; rfl
  · split
    · exact h
    · rw [hasKey_dappend, h]; rfl

theorem gatherAnchor_adds (fg : FGlyph) (acc : List (String × List Pos)) (a : Anchor)
    (h : a.name.startsWith "_" = true ∨ (effWidth fg == 0) = false) : hasKey a.name (gatherAnchor fg acc a) = true := by
  unfold gatherAnchor
  by_cases hs : a.name.startsWith "_" = true
  · rw [if_pos hs, hasKey_dset]; simp
  · rw [if_neg hs]
    rcases h with h | h
    · exact absurd h hs
    · simp only [h, Bool.false_eq_true, if_false]
      rw [hasKey_dappend]; simp

theorem foldl_anchor_mono (fg : FGlyph) (k : String) : ∀ (l : List Anchor) (acc : List (String × List Pos)),
    hasKey k acc = true → hasKey k (l.foldl (gatherAnchor fg) acc) = true
  | [], _, h => h
  | a :: t, acc, h => foldl_anchor_mono fg k t _ (gatherAnchor_mono fg acc a k h)

theorem foldl_anchor_adds (fg : FGlyph) (a : Anchor)
    (ha : a.name.startsWith "_" = true ∨ (effWidth fg == 0) = false) :
    ∀ (l : List Anchor) (acc : List (String × List Pos)), a ∈ l → hasKey a.name (l.foldl (gatherAnchor fg) acc) = true
  | [], _, h => by simp at h
  | b :: t, acc, h => by
    simp only [List.mem_cons] at h
    simp only [List.foldl_cons]
    rcases h with rfl | h
    · exact foldl_anchor_mono fg _ t _ (gatherAnchor_adds fg acc a ha)
    · exact foldl_anchor_adds fg a ha t _ h

theorem gather_mono (k : String) : ∀ (l : List FGlyph) (acc : List (String × List Pos)), hasKey k acc = true →
    hasKey k (l.foldl (fun acc fg => fg.g.anchors.foldl (gatherAnchor fg) acc) acc) = true
  | [], _, h => h
  | fg :: t, acc, h => gather_mono k t _ (foldl_anchor_mono fg k _ acc h)

/-- the keys of `all_anchors`: every mark anchor name, and every base anchor name seen on a glyph of non-zero extent -/
theorem gather_hasKey (glyphs : List FGlyph) (fg : FGlyph) (hfg : fg ∈ glyphs) (a : Anchor) (ha : a ∈ fg.g.anchors)
    (hc : a.name.startsWith "_" = true ∨ (effWidth fg == 0) = false) : hasKey a.name (gather glyphs) = true := by
  unfold gather
  suffices ∀ (l : List FGlyph) (acc : List (String × List Pos)), fg ∈ l →
      hasKey a.name (l.foldl (fun acc fg => fg.g.anchors.foldl (gatherAnchor fg) acc) acc) = true from this glyphs [] hfg
  intro l
  induction l with
  | nil => intro _ h; simp at h
  | cons b t ih =>
    intro acc h
    simp only [List.mem_cons] at h
    simp only [List.foldl_cons]
    rcases h with rfl | h
    · exact gather_mono _ t _ (foldl_anchor_adds fg a hc _ acc ha)
    · exact ih _ h

theorem newAnchorStep_mono (W : Q) (ds : List String) (all : List (String × List Pos))
    (acc acc' : List Anchor × List Bool) (e : String × List Pos) (h : newAnchorStep W ds all acc e = .ok acc')
    (hne : acc.1 ≠ []) : acc'.1 ≠ [] := by
  unfold newAnchorStep at h
  split at h
  · simp only [Except.ok.injEq] at h; subst h; exact hne
  · split at h
    · exact absurd h (by simp)
    · simp only [Except.ok.injEq] at h; subst h; simp

theorem newAnchorStep_adds (W : Q) (ds : List String) (all : List (String × List Pos))
    (acc acc' : List Anchor × List Bool) (e : String × List Pos) (h : newAnchorStep W ds all acc e = .ok acc')
    (hc : (ds.contains e.1 || !hasKey ("_" ++ e.1) all) = false) : acc'.1 ≠ [] := by
  unfold newAnchorStep at h
  rw [if_neg (by rw [hc]; simp)] at h
  split at h
  · exact absurd h (by simp)
  · simp only [Except.ok.injEq] at h; subst h; simp

theorem newAnchors_nonempty (W : Q) (ds : List String) (all : List (String × List Pos)) :
    ∀ (l : List (String × List Pos)) (acc r : List Anchor × List Bool),
      l.foldlM (newAnchorStep W ds all) acc = .ok r →
      (acc.1 ≠ [] ∨ ∃ e ∈ l, (ds.contains e.1 || !hasKey ("_" ++ e.1) all) = false) → r.1 ≠ [] := by
  intro l
  induction l with
  | nil =>
    intro acc r h hc
    simp only [List.foldlM_nil, pure, Except.pure, Except.ok.injEq] at h
    subst h
    rcases hc with hc | ⟨e, he, _⟩
    · exact hc
    · simp at he
  | cons x t ih =>
    intro acc r h hc
    simp only [List.foldlM_cons, bind, Except.bind] at h
    split at h
    · exact absurd h (by simp)
    · rename_i acc₁ h₁
      apply ih acc₁ r h
      rcases hc with hc | ⟨e, he, hce⟩
      · exact Or.inl (newAnchorStep_mono W ds all acc acc₁ x h₁ hc)
      · simp only [List.mem_cons] at he
        rcases he with rfl | he
        · exact Or.inl (newAnchorStep_adds W ds all acc acc₁ e h₁ hce)
        · exact Or.inr ⟨e, he, hce⟩

theorem hasKey_mem {ν : Type} {k : String} {d : List (String × ν)} (h : hasKey k d = true) : ∃ e ∈ d, e.1 = k := by
  simp only [hasKey, List.any_eq_true, beq_iff_eq] at h
  exact h

/-- an anchor is wanted ⇒ the second loop adds at least one anchor -/
theorem wants_adds (glyphs : List FGlyph) (have_ : List String) (W : Q) (na : List Anchor) (ties : List Bool)
    (hw : dcWantsAnchor glyphs have_ = true) (h : newAnchors W have_ (gather glyphs) = .ok (na, ties)) : na ≠ [] := by
  simp only [dcWantsAnchor, List.any_eq_true, Bool.and_eq_true, bne_iff_ne, ne_eq, Bool.not_eq_true',
    beq_iff_eq] at hw
  obtain ⟨fg, hfg, hext, a, ha, ⟨⟨hnm, hnh⟩, m, hm, b, hb, hbs, hbn⟩⟩ := hw
  have hw0 : (effWidth fg == 0) = false := by
    have : effWidth fg = extent fg := rfl
    simpa [this] using hext
  have hk1 : hasKey a.name (gather glyphs) = true :=
    gather_hasKey glyphs fg hfg a ha (Or.inr hw0)
  have hk2 : hasKey ("_" ++ a.name) (gather glyphs) = true := by
    have := gather_hasKey glyphs m hm b hb (Or.inl hbs)
    rwa [hbn] at this
  obtain ⟨e, he, hek⟩ := hasKey_mem hk1
  have := newAnchors_nonempty W have_ (gather glyphs) (gather glyphs) ([], []) (na, ties) h
    (Or.inr ⟨e, he, by rw [hek, hnh, hk2]; rfl⟩)
  exact this

theorem dset_ne_self (k : String) (c : List (String × String)) (h : alookup k c ≠ some "base") : dset k "base" c ≠ c := by
  induction c with
  | nil => simp [dset]
  | cons e t ih =>
    unfold dset
    by_cases he : (e.1 == k) = true
    · simp only [he, if_true]
      intro hc
      apply h
      simp only [alookup, he, if_true]
      have := (List.cons.inj hc).1
      rw [← this]
    · simp only [he]
      intro hc
      have := (List.cons.inj hc).2
      apply ih _ this
      intro h2
      apply h
      simp only [alookup, he]
      exact h2

/-- **dottedCircle_writes_source** (known finding C14-dottedCircle-source, as a theorem about the model): for EVERY
 input on which the call succeeds and whose dotted circle lacks an attachment point (`dcWantsAnchor`, a decidable
 condition on the font and the glyph set), the source font is written, whether or not a separate glyph set was given:
 * the features have no GDEF table and the lib has categories that do not yet call the target glyph a base:
   `font.lib["public.openTypeCategories"]` is changed;
 * the features have a GDEF table: `font.features.text` is assigned (and a `GlyphClassDef` base class that lacks the
   target glyph gets it, so the text differs). -/
theorem dottedCircle_writes_source (i : DCIn) (o : DCOut) (h : dcCall i = .ok o) (t : String)
    (ht : dcTarget i.src.glyphs i.gs = some t)
    (hw : dcWantsAnchor i.src.glyphs (dcTargetAnchors i.src.glyphs i.gs i.drawn) = true) :
    (∀ c, i.src.gdef = none → i.src.cats = some c → alookup t c ≠ some "base" → o.src.cats ≠ i.src.cats) ∧
    (∀ defs, i.src.gdef = some defs → o.src.feaAssigned = true ∧
        ((∃ l, some l ∈ defs ∧ l.contains t = false) → o.src.gdef ≠ i.src.gdef)) := by
  rw [dcTarget_eq] at ht
  rw [dcTargetAnchors_eq] at hw
  -- in both branches: anchors are added, so `ensure_base` runs on the target
  have key : ∃ s₁ : DCSrc, o.src = ensureBase t s₁ ∧ s₁.cats = i.src.cats ∧ s₁.gdef = i.src.gdef := by
    unfold dcCall at h
    split at h
    · rename_i hc; rw [hc] at ht; exact absurd ht (by simp)
    · rename_i m g hc
      rw [hc] at ht hw
      simp only [Option.some.injEq] at ht
      subst ht
      obtain ⟨_, _, _, na, ties, hna, _, h6⟩ := dcFinish_spec i m g i.gs false true o h
      have hne := wants_adds _ _ _ na ties hw hna
      refine ⟨_, h6 hne, ?_, ?_⟩ <;> (split <;> rfl)
    · rename_i hc
      rw [hc] at ht hw
      simp only [Option.some.injEq] at ht
      subst ht
      obtain ⟨_, _, _, na, ties, hna, _, h6⟩ := dcFinish_spec i drawnName i.drawn _ true false o h
      have hne := wants_adds _ _ _ na ties hw hna
      refine ⟨_, h6 hne, ?_, ?_⟩ <;> (split <;> rfl)
  obtain ⟨s₁, ho, hc₁, hg₁⟩ := key
  refine ⟨?_, ?_⟩
  · intro c hg hcats hnb
    rw [ho]
    unfold ensureBase
    rw [hg₁, hg, hc₁, hcats]
    simp only [Option.some.injEq, ne_eq]
    exact dset_ne_self t c hnb
  · intro defs hg
    rw [ho]
    unfold ensureBase
    rw [hg₁, hg]
    refine ⟨rfl, ?_⟩
    rintro ⟨l, hl, hlt⟩
    simp only [ne_eq, Option.some.injEq]
    intro hc
    -- the class `l` is mapped to `l ++ [t]`
    have hmap := congrArg List.length hc
    have : ∀ (ds : List (Option (List String))), some l ∈ ds →
        ds.map (fun b => match b with
          | some l => if l.contains t then some l else some (l ++ [t])
          | none => none) ≠ ds := by
      intro ds
      induction ds with
      | nil => intro hm; simp at hm
      | cons d r ih =>
        intro hm hh
        simp only [List.map_cons, List.cons.injEq] at hh
        simp only [List.mem_cons] at hm
        rcases hm with rfl | hm
        · have h1 := hh.1
          have hlt' : ¬ t ∈ l := by simpa using hlt
          simp only [List.contains_eq_mem, decide_eq_true_eq, hlt', if_false, Option.some.injEq] at h1
          exact absurd (congrArg List.length h1) (by simp)
        · exact ih hm hh.2
    exact this defs hl hc

/-! ## ExplodeColorLayerGlyphsFilter -/

theorem alookup_append_single {ν : Type} (k k' : String) (v : ν) : ∀ (l : List (String × ν)),
    alookup k (l ++ [(k', v)]) = match alookup k l with
      | some x => some x
      | none => if k' == k then some v else none
  | [] => by simp [alookup]
  | (a, b) :: t => by
    simp only [List.cons_append, alookup]
    by_cases h : (a == k) = true
    · simp [h]
    · simp only [h]; exact alookup_append_single k k' v t

theorem mem_keys_of_alookup' {ν : Type} {k : String} {v : ν} : ∀ {l : List (String × ν)}, alookup k l = some v →
    k ∈ l.map (·.1)
  | [], h => by simp [alookup] at h
  | (a, b) :: t, h => by
    simp only [alookup] at h
    by_cases e : (a == k) = true
    · have : a = k := by simpa using e
      simp [this]
    · simp only [e] at h
      exact List.mem_cons_of_mem _ (mem_keys_of_alookup' h)

theorem alookup_ne_none_of_mem_keys {ν : Type} {k : String} : ∀ {l : List (String × ν)}, k ∈ l.map (·.1) →
    alookup k l ≠ none
  | [], h => by simp at h
  | (a, b) :: t, h => by
    simp only [List.map_cons, List.mem_cons] at h
    simp only [alookup]
    by_cases e : (a == k) = true
    · simp [e]
    · simp only [e]
      rcases h with h | h
      · exact absurd (by simp [h]) e
      · exact alookup_ne_none_of_mem_keys h

/-- names of the layers and of their glyphs -/
def layerShape (ls : List (String × XSet)) : List (String × List String) := ls.map (fun e => (e.1, e.2.map (·.1)))

def shapeAllowed (sh : List (String × List String)) (n : String) : Bool :=
  sh.any (fun e => e.2.any (fun g => n == g ++ "." ++ e.1))

theorem exAllowed_shape (ls : List (String × XSet)) (n : String) : exAllowedName ls n = shapeAllowed (layerShape ls) n := by
  simp [exAllowedName, shapeAllowed, layerShape, List.any_map, Function.comp_def]

theorem alookup_shape (layer : String) : ∀ (ls : List (String × XSet)) (lay : XSet), alookup layer ls = some lay →
    alookup layer (layerShape ls) = some (lay.map (·.1))
  | [], _, h => by simp [alookup] at h
  | (a, b) :: t, lay, h => by
    simp only [alookup] at h
    simp only [layerShape, List.map_cons, alookup]
    by_cases e : (a == layer) = true
    · simp only [e, if_true, Option.some.injEq] at h ⊢
      rw [h]
    · simp only [e] at h ⊢
      exact alookup_shape layer t lay h

theorem alookup_mem {ν : Type} {k : String} {v : ν} : ∀ {l : List (String × ν)}, alookup k l = some v → (k, v) ∈ l
  | [], h => by simp [alookup] at h
  | (a, b) :: t, h => by
    simp only [alookup] at h
    by_cases e : (a == k) = true
    · simp only [e, if_true, Option.some.injEq] at h
      have : a = k := by simpa using e
      simp [this, h]
    · simp only [e] at h
      exact List.mem_cons_of_mem _ (alookup_mem h)

theorem shapeAllowed_of (sh : List (String × List String)) (layer name : String) (ks : List String)
    (h : alookup layer sh = some ks) (hn : name ∈ ks) : shapeAllowed sh (name ++ "." ++ layer) = true := by
  simp only [shapeAllowed, List.any_eq_true, beq_iff_eq]
  exact ⟨(layer, ks), alookup_mem h, name, hn, rfl⟩

theorem dset_keys {ν : Type} (k : String) (v : ν) : ∀ (l : List (String × ν)), k ∈ l.map (·.1) →
    (dset k v l).map (·.1) = l.map (·.1)
  | [], h => by simp at h
  | (a, b) :: t, h => by
    unfold dset
    by_cases e : (a == k) = true
    · simp [e]
    · simp only [e, Bool.false_eq_true, if_false, List.map_cons, List.cons.injEq, true_and]
      simp only [List.map_cons, List.mem_cons] at h
      rcases h with h | h
      · exact absurd (by simp [h]) e
      · exact dset_keys k v t h

theorem setLayerGlyph_shape (layer name : String) (lg : LGlyph) : ∀ (ls : List (String × XSet)) (ks : List String),
    alookup layer (layerShape ls) = some ks → name ∈ ks → layerShape (setLayerGlyph layer name lg ls) = layerShape ls
  | [], _, h, _ => by simp [layerShape, alookup] at h
  | (a, b) :: t, ks, h, hn => by
    simp only [layerShape, List.map_cons, alookup] at h
    unfold setLayerGlyph
    by_cases e : (a == layer) = true
    · simp only [e, if_true, Option.some.injEq] at h ⊢
      subst h
      simp only [layerShape, List.map_cons, List.cons.injEq, Prod.mk.injEq, true_and, and_true]
      exact dset_keys name lg b hn
    · simp only [e, Bool.false_eq_true, if_false] at h ⊢
      simp only [layerShape, List.map_cons, List.cons.injEq, true_and]
      exact setLayerGlyph_shape layer name lg t ks h hn

/-- invariant of the call relative to the glyph set `gs₀` and the layers `L₀` it started with -/
structure ExInv (gs₀ : XSet) (L₀ : List (String × XSet)) (st : ExSt) : Prop where
  keep : ∀ n g, alookup n gs₀ = some g → alookup n st.gs = some g
  fresh : ∀ n, alookup n gs₀ = none → alookup n st.gs ≠ none → n ∈ st.added
  added : ∀ n ∈ st.added, alookup n gs₀ = none ∧ alookup n st.gs ≠ none ∧ exAllowedName L₀ n = true
  shape : layerShape st.src.layers = layerShape L₀
  cl : st.src.colorLayers.isSome = true
  mod : ∀ n ∈ st.modified, alookup n gs₀ ≠ none

/-- what a helper of `filter` may do between two states -/
structure Good (gs₀ : XSet) (L₀ : List (String × XSet)) (s s' : ExSt) : Prop where
  inv : ExInv gs₀ L₀ s'
  modified : s'.modified = s.modified
  skip : s'.skip = s.skip
  grow : ∀ n ∈ s.added, n ∈ s'.added

theorem Good.refl {gs₀ L₀ s} (h : ExInv gs₀ L₀ s) : Good gs₀ L₀ s s := ⟨h, rfl, rfl, fun _ hn => hn⟩

theorem Good.trans {gs₀ L₀ s s' s''} (h1 : Good gs₀ L₀ s s') (h2 : Good gs₀ L₀ s' s'') : Good gs₀ L₀ s s'' :=
  ⟨h2.inv, h2.modified.trans h1.modified, h2.skip.trans h1.skip, fun n hn => h2.grow n (h1.grow n hn)⟩

/-- renaming a component in place keeps the invariant -/
theorem good_setLayer {gs₀ L₀} (s : ExSt) (h : ExInv gs₀ L₀ s) (layer name : String) (lg : LGlyph) (ks : List String)
    (hk : alookup layer (layerShape L₀) = some ks) (hn : name ∈ ks) :
    Good gs₀ L₀ s { s with src := { s.src with layers := setLayerGlyph layer name lg s.src.layers } } := by
  refine ⟨⟨h.keep, h.fresh, h.added, ?_, h.cl, h.mod⟩, rfl, rfl, fun _ hn => hn⟩
  show layerShape (setLayerGlyph layer name lg s.src.layers) = layerShape L₀
  rw [setLayerGlyph_shape layer name lg s.src.layers ks (by rw [h.shape]; exact hk) hn, h.shape]

theorem copyComps_good {gs₀ L₀} (rec : String → ExSt → Except Err (ExSt × String)) (layer name : String) (lg : LGlyph)
    (ks : List String) (hk : alookup layer (layerShape L₀) = some ks) (hn : name ∈ ks)
    (hrec : ∀ b s s' nm, ExInv gs₀ L₀ s → rec b s = .ok (s', nm) → Good gs₀ L₀ s s') :
    ∀ (rest done : List Comp) (st st' : ExSt) (c' : List Comp), ExInv gs₀ L₀ st →
      copyComps rec layer name lg done rest st = .ok (st', c') → Good gs₀ L₀ st st'
  | [], done, st, st', c', hi, h => by
    simp only [copyComps, Except.ok.injEq, Prod.mk.injEq] at h
    rw [← h.1]; exact Good.refl hi
  | c :: rest, done, st, st', c', hi, h => by
    simp only [copyComps] at h
    split at h
    · exact absurd h (by simp)
    · rename_i s₁ nm h₁
      have g1 := hrec c.base st s₁ nm hi h₁
      have g2 := good_setLayer s₁ g1.inv layer name
        { lg with g := { lg.g with comps := (done ++ [{ c with base := nm }]) ++ rest } } ks hk hn
      exact (g1.trans g2).trans (copyComps_good rec layer name lg ks hk hn hrec rest _ _ st' c' g2.inv h)

theorem copyGlyph_good {gs₀ L₀} (layer : String) : ∀ (fuel : Nat) (name : String) (st st' : ExSt) (nm : String),
    ExInv gs₀ L₀ st → copyGlyph layer fuel name st = .ok (st', nm) → Good gs₀ L₀ st st' ∧ nm ∈ st'.added
  | 0, _, _, _, _, _, h => by simp [copyGlyph] at h
  | fuel + 1, name, st, st', nm, hi, h => by
    simp only [copyGlyph] at h
    split at h
    · exact absurd h (by simp)
    · rename_i lay hlay
      split at h
      · exact absurd h (by simp)
      · rename_i lg hlg
        have hk : alookup layer (layerShape L₀) = some (lay.map (·.1)) := by
          rw [← hi.shape]; exact alookup_shape layer _ lay hlay
        have hn : name ∈ lay.map (·.1) := mem_keys_of_alookup' hlg
        split at h
        · split at h
          · rename_i _ hadd
            simp only [Except.ok.injEq, Prod.mk.injEq] at h
            rw [← h.1, ← h.2]
            exact ⟨Good.refl hi, by simpa using hadd⟩
          · exact absurd h (by simp)
        · rename_i hfree
          split at h
          · exact absurd h (by simp)
          · rename_i s₁ comps' hc
            have g1 := copyComps_good (gs₀ := gs₀) (L₀ := L₀) (fun b s => copyGlyph layer fuel b s) layer name lg
              (lay.map (·.1)) hk hn (fun b s s' nm hs hb => (copyGlyph_good layer fuel b s s' nm hs hb).1)
              lg.g.comps [] st s₁ comps' hi hc
            simp only [Except.ok.injEq, Prod.mk.injEq] at h
            obtain ⟨h1, h2⟩ := h
            subst h2
            have hnone : alookup (name ++ "." ++ layer) gs₀ = none := by
              cases hq : alookup (name ++ "." ++ layer) gs₀ with
              | none => rfl
              | some g =>
                have := hi.keep _ g hq
                rw [this] at hfree
                exact absurd rfl hfree
            have i1 := g1.inv
            rw [← h1]
            refine ⟨⟨⟨?_, ?_, ?_, ?_, i1.cl, ?_⟩, g1.modified, g1.skip, ?_⟩, by simp⟩
            · intro n g hg
              show alookup n (s₁.gs ++ [(name ++ "." ++ layer, _)]) = some g
              rw [alookup_append_single, i1.keep n g hg]
            · intro n hn0 hne
              show n ∈ s₁.added ++ [name ++ "." ++ layer]
              have hne' : alookup n (s₁.gs ++ [(name ++ "." ++ layer, _)]) ≠ none := hne
              rw [alookup_append_single] at hne'
              cases hq : alookup n s₁.gs with
              | some x => exact List.mem_append_left _ (i1.fresh n hn0 (by rw [hq]; simp))
              | none =>
                rw [hq] at hne'
                by_cases e : ((name ++ "." ++ layer) == n) = true
                · have : name ++ "." ++ layer = n := by simpa using e
                  simp [this]
                · simp [e] at hne'
            · intro n hn'
              have hn'' : n ∈ s₁.added ++ [name ++ "." ++ layer] := hn'
              rw [List.mem_append] at hn''
              show alookup n gs₀ = none ∧ alookup n (s₁.gs ++ [(name ++ "." ++ layer, _)]) ≠ none ∧ _
              rcases hn'' with hn'' | hn''
              · obtain ⟨a1, a2, a3⟩ := i1.added n hn''
                refine ⟨a1, ?_, a3⟩
                rw [alookup_append_single]
                cases hq : alookup n s₁.gs with
                | some x => simp
                | none => exact absurd hq a2
              · have : n = name ++ "." ++ layer := by simpa using hn''
                subst this
                refine ⟨hnone, ?_, ?_⟩
                · rw [alookup_append_single]
                  cases hq : alookup (name ++ "." ++ layer) s₁.gs with
                  | some x => simp
                  | none => simp
                · rw [exAllowed_shape]; exact shapeAllowed_of _ layer name _ hk hn
            · show layerShape (setLayerGlyph layer name _ s₁.src.layers) = layerShape L₀
              rw [setLayerGlyph_shape layer name _ s₁.src.layers _ (by rw [i1.shape]; exact hk) hn, i1.shape]
            · exact i1.mod
            · intro n hn'
              exact List.mem_append_left _ (g1.grow n hn')

theorem mapStep_good {gs₀ L₀} (n : String) (g : LGlyph) (acc acc' : ExSt × ColorMap) (e : String × Nat)
    (hi : ExInv gs₀ L₀ acc.1) (h : mapStep n g acc e = .ok acc') : Good gs₀ L₀ acc.1 acc'.1 := by
  unfold mapStep at h
  split at h
  · exact absurd h (by simp)
  · split at h
    · simp only [Except.ok.injEq] at h; rw [← h]; exact Good.refl hi
    · split at h
      · simp only [Except.ok.injEq] at h; rw [← h]; exact Good.refl hi
      · split at h
        · exact absurd h (by simp)
        · rename_i st' nm hc
          simp only [Except.ok.injEq] at h
          rw [← h]
          exact (copyGlyph_good _ _ _ _ _ _ hi hc).1

theorem foldlM_good {gs₀ L₀} {α : Type} (f : ExSt × ColorMap → α → Except Err (ExSt × ColorMap))
    (hf : ∀ acc acc' x, ExInv gs₀ L₀ acc.1 → f acc x = .ok acc' → Good gs₀ L₀ acc.1 acc'.1) :
    ∀ (l : List α) (acc r : ExSt × ColorMap), ExInv gs₀ L₀ acc.1 → l.foldlM f acc = .ok r → Good gs₀ L₀ acc.1 r.1
  | [], acc, r, hi, h => by
    simp only [List.foldlM_nil, pure, Except.pure, Except.ok.injEq] at h
    rw [← h]; exact Good.refl hi
  | x :: t, acc, r, hi, h => by
    simp only [List.foldlM_cons, bind, Except.bind] at h
    split at h
    · exact absurd h (by simp)
    · rename_i acc₁ h₁
      have g1 := hf acc acc₁ x hi h₁
      exact g1.trans (foldlM_good f hf t acc₁ r g1.inv h)

/-- `filter(glyph)`: the invariant is kept, the skip flag and the returned set are untouched -/
theorem exFilter_good {gs₀ L₀} (st st' : ExSt) (n : String) (g : LGlyph) (r : Bool) (hi : ExInv gs₀ L₀ st)
    (h : exFilter st n g = .ok (st', r)) : Good gs₀ L₀ st st' := by
  unfold exFilter at h
  split at h
  · simp only [Except.ok.injEq, Prod.mk.injEq] at h; rw [← h.1]; exact Good.refl hi
  · split at h
    · simp only [Except.ok.injEq, Prod.mk.injEq] at h; rw [← h.1]; exact Good.refl hi
    · rename_i mapping _
      split at h
      · exact absurd h (by simp)
      · rename_i s₁ layers hf
        have g1 := foldlM_good (gs₀ := gs₀) (L₀ := L₀) (mapStep n g)
          (fun acc acc' x hi' hx => mapStep_good n g acc acc' x hi' hx) mapping (st, []) (s₁, layers) hi hf
        split at h
        · simp only [Except.ok.injEq, Prod.mk.injEq] at h; rw [← h.1]; exact g1
        · simp only [Except.ok.injEq, Prod.mk.injEq] at h
          rw [← h.1]
          have i1 := g1.inv
          exact ⟨⟨i1.keep, i1.fresh, i1.added, i1.shape, rfl, i1.mod⟩, g1.modified, g1.skip, g1.grow⟩

theorem exLoopStep_inv {gs₀ L₀} (incl : Include) (st st' : ExSt) (n : String) (hn : alookup n gs₀ ≠ none)
    (hi : ExInv gs₀ L₀ st) (h : exLoopStep incl st n = .ok st') :
    ExInv gs₀ L₀ st' ∧ st'.skip = st.skip ∧ (∀ k ∈ st.added, k ∈ st'.added) := by
  unfold exLoopStep at h
  split at h
  · simp only [Except.ok.injEq] at h; rw [← h]; exact ⟨hi, rfl, fun _ hk => hk⟩
  · split at h
    · exact absurd h (by simp)
    · rename_i g hg
      split at h
      · split at h
        · exact absurd h (by simp)
        · rename_i s₁ r hf
          have g1 := exFilter_good st s₁ n g r hi hf
          simp only [Except.ok.injEq] at h
          rw [← h]
          have i1 := g1.inv
          by_cases hr : r = true
          · simp only [hr, if_true]
            refine ⟨⟨i1.keep, i1.fresh, i1.added, i1.shape, i1.cl, ?_⟩, g1.skip, g1.grow⟩
            intro k hk
            have hk' : k ∈ sadd s₁.modified n := hk
            rw [mem_sadd] at hk'
            rcases hk' with hk' | hk'
            · exact i1.mod k hk'
            · rw [hk']; exact hn
          · simp only [hr]
            exact ⟨i1, g1.skip, g1.grow⟩
      · simp only [Except.ok.injEq] at h; rw [← h]; exact ⟨hi, rfl, fun _ hk => hk⟩

/-! `sorted(glyphSet.keys(), …)` is a rearrangement of the keys -/

theorem mem_insertBy {α : Type} (le : α → α → Bool) (x y : α) : ∀ (l : List α), y ∈ insertBy le x l ↔ y = x ∨ y ∈ l
  | [] => by simp [insertBy]
  | z :: t => by
    unfold insertBy
    split
    · simp
    · simp only [List.mem_cons, mem_insertBy le x y t]
      constructor
      · rintro (h | h | h)
        · exact Or.inr (Or.inl h)
        · exact Or.inl h
        · exact Or.inr (Or.inr h)
      · rintro (h | h | h)
        · exact Or.inr (Or.inl h)
        · exact Or.inl h
        · exact Or.inr (Or.inr h)

theorem mem_isortBy {α : Type} (le : α → α → Bool) (y : α) : ∀ (l : List α), y ∈ isortBy le l ↔ y ∈ l
  | [] => by simp [isortBy]
  | x :: t => by
    have : isortBy le (x :: t) = insertBy le x (isortBy le t) := rfl
    rw [this, mem_insertBy, mem_isortBy le y t]
    simp

theorem mapM_keys (f : String × Glyph → Except Err Nat) : ∀ (l : List (String × Glyph)) (ds : List (String × Nat)),
    l.mapM (fun e => do let d ← f e; pure (e.1, d)) = .ok ds → ds.map (·.1) = l.map (·.1)
  | [], ds, h => by
    simp only [List.mapM_nil, pure, Except.pure, Except.ok.injEq] at h
    subst h; rfl
  | e :: t, ds, h => by
    simp only [List.mapM_cons, bind, Except.bind, pure, Except.pure] at h
    split at h
    · exact absurd h (by simp)
    · rename_i b hb
      split at h
      · exact absurd h (by simp)
      · rename_i bs hbs
        simp only [Except.ok.injEq] at h
        subst h
        split at hb
        · exact absurd hb (by simp)
        · rename_i d _
          simp only [Except.ok.injEq] at hb
          subst hb
          simp only [List.map_cons, List.cons.injEq, true_and]
          exact mapM_keys f t bs hbs

theorem orderedNames_mem (gs : GlyphSet) (names : List String) (h : orderedNames gs = .ok names) (n : String) :
    n ∈ names ↔ n ∈ keys gs := by
  unfold orderedNames at h
  simp only [bind, Except.bind, pure, Except.pure] at h
  split at h
  · exact absurd h (by simp)
  · rename_i ds hds
    simp only [Except.ok.injEq] at h
    subst h
    have hk := mapM_keys (fun e => maxDepth gs e.1 e.2) gs ds hds
    unfold keys
    rw [← hk]
    simp only [List.mem_map]
    constructor
    · rintro ⟨p, hp, rfl⟩
      exact ⟨p, (mem_isortBy _ p ds).mp hp, rfl⟩
    · rintro ⟨p, hp, rfl⟩
      exact ⟨p, (mem_isortBy _ p ds).mpr hp, rfl⟩

theorem keys_plain (xs : XSet) : keys xs.plain = xs.map (·.1) := by
  simp [keys, XSet.plain, Function.comp_def]

theorem exLoop_inv {gs₀ L₀} (incl : Include) : ∀ (names : List String) (st st' : ExSt),
    (∀ n ∈ names, alookup n gs₀ ≠ none) → ExInv gs₀ L₀ st → names.foldlM (exLoopStep incl) st = .ok st' →
    ExInv gs₀ L₀ st' ∧ st'.skip = st.skip ∧ (∀ k ∈ st.added, k ∈ st'.added)
  | [], st, st', _, hi, h => by
    simp only [List.foldlM_nil, pure, Except.pure, Except.ok.injEq] at h
    rw [← h]; exact ⟨hi, rfl, fun _ hk => hk⟩
  | n :: t, st, st', hn, hi, h => by
    simp only [List.foldlM_cons, bind, Except.bind] at h
    split at h
    · exact absurd h (by simp)
    · rename_i s₁ h₁
      obtain ⟨i1, k1, g1⟩ := exLoopStep_inv incl st s₁ n (hn n List.mem_cons_self) hi h₁
      obtain ⟨i2, k2, g2⟩ := exLoop_inv incl t s₁ st' (fun m hm => hn m (List.mem_cons_of_mem _ hm)) i1 h
      exact ⟨i2, k2.trans k1, fun k hk => g2 k (g1 k hk)⟩

theorem exInit_inv (i : ExIn) : ExInv i.gs i.src.layers (exInit i) :=
  ⟨fun _ _ h => h, fun _ h hne => absurd h hne, fun _ hn => by simp [exInit] at hn, rfl, rfl,
   fun _ hn => by simp [exInit] at hn⟩

/-- the invariant holds of what the call returns -/
theorem exCall_inv (incl : Include) (i : ExIn) (o : ExOut) (h : exCall incl i = .ok o) :
    ExInv i.gs i.src.layers { gs := o.gs, src := o.src, added := o.added, modified := o.modified, skip := i.src.colorLayers.isSome } := by
  unfold exCall at h
  split at h
  · exact absurd h (by simp)
  · rename_i names hnames
    split at h
    · exact absurd h (by simp)
    · rename_i st hst
      simp only [Except.ok.injEq] at h
      subst h
      have hmem : ∀ n ∈ names, alookup n i.gs ≠ none := by
        intro n hn
        have := (orderedNames_mem _ names hnames n).mp hn
        rw [keys_plain] at this
        exact alookup_ne_none_of_mem_keys this
      obtain ⟨i1, _, _⟩ := exLoop_inv incl names (exInit i) st hmem (exInit_inv i) hst
      exact ⟨i1.keep, i1.fresh, i1.added, i1.shape, i1.cl, i1.mod⟩

/-- **ex_footprint**: the filter only ADDS glyphs to the glyph set, under names `<glyph>.<layer>` of glyphs of the
 font's layers; no existing entry changes. -/
theorem ex_footprint (incl : Include) (i : ExIn) (o : ExOut) (h : exCall incl i = .ok o) (n : String)
    (hn : alookup n o.gs ≠ alookup n i.gs) :
    alookup n i.gs = none ∧ n ∈ o.added ∧ exAllowedName i.src.layers n = true := by
  have inv := exCall_inv incl i o h
  cases hq : alookup n i.gs with
  | some g => exact absurd (by rw [hq]; exact inv.keep n g hq) hn
  | none =>
    have hne : alookup n o.gs ≠ none := by rw [hq] at hn; exact hn
    have ha := inv.fresh n hq hne
    exact ⟨rfl, ha, (inv.added n ha).2.2⟩

theorem mem_xchangedNames {gs gs' : XSet} {n : String} (h : n ∈ xchangedNames gs gs') :
    alookup n gs' ≠ alookup n gs := by
  unfold xchangedNames at h
  have := (List.mem_filter.mp h).2
  intro e
  simp [e] at this

theorem xchangedNames_of_ne {gs gs' : XSet} {n : String} (h : alookup n gs' ≠ alookup n gs) :
    n ∈ xchangedNames gs gs' := by
  unfold xchangedNames
  rw [List.mem_filter]
  refine ⟨?_, by simpa using fun e => h e.symm⟩
  rw [List.mem_eraseDups, List.mem_append]
  cases h1 : alookup n gs with
  | none =>
    have h2 : alookup n gs' ≠ none := fun e => h (by rw [e, h1])
    obtain ⟨g, hg⟩ := Option.ne_none_iff_exists'.mp h2
    exact Or.inr (mem_keys_of_alookup' hg)
  | some g => exact Or.inl (mem_keys_of_alookup' h1)

/-- **ex_holds_footprint**: the footprint clause the driver evaluates holds of the model for all inputs. -/
theorem ex_holds_footprint (incl : Include) (i : ExIn) (o : ExOut) (h : exCall incl i = .ok o) :
    holdsExFootprint i.src.layers i.gs o.gs = true := by
  simp only [holdsExFootprint, List.all_eq_true, Bool.and_eq_true, Option.isNone_iff_eq_none]
  intro n hn
  obtain ⟨h1, _, h3⟩ := ex_footprint incl i o h n (mem_xchangedNames hn)
  exact ⟨h1, h3⟩

/-- **ex_reported_unchanged**: every glyph the filter reports is unchanged in the glyph set (it reports the glyphs
 it made color layers FOR). -/
theorem ex_reported_unchanged (incl : Include) (i : ExIn) (o : ExOut) (h : exCall incl i = .ok o) (n : String)
    (hn : n ∈ o.modified) : alookup n o.gs = alookup n i.gs := by
  have inv := exCall_inv incl i o h
  have := inv.mod n hn
  obtain ⟨g, hg⟩ := Option.ne_none_iff_exists'.mp this
  rw [hg]; exact inv.keep n g hg

/-- **explode_underreports** (known finding C14-explodeColorLayers, as a theorem about the model): for EVERY input on
 which the call succeeds, every glyph the filter adds to the glyph set is a new entry that is NOT in the returned
 set; so whenever it adds a glyph at all, the reporting clause of C14 is false of the call. -/
theorem explode_underreports (incl : Include) (i : ExIn) (o : ExOut) (h : exCall incl i = .ok o) :
    (∀ n ∈ o.added, alookup n i.gs = none ∧ alookup n o.gs ≠ none ∧ n ∉ o.modified) ∧
    (o.added ≠ [] → holdsExReport i.gs o.gs o.modified = false) := by
  have inv := exCall_inv incl i o h
  have h1 : ∀ n ∈ o.added, alookup n i.gs = none ∧ alookup n o.gs ≠ none ∧ n ∉ o.modified := by
    intro n hn
    obtain ⟨a1, a2, _⟩ := inv.added n hn
    exact ⟨a1, a2, fun hm => inv.mod n hm a1⟩
  refine ⟨h1, ?_⟩
  intro hne
  obtain ⟨n, hn⟩ := List.exists_mem_of_ne_nil _ hne
  obtain ⟨a1, a2, a3⟩ := h1 n hn
  cases hb : holdsExReport i.gs o.gs o.modified with
  | false => rfl
  | true =>
    simp only [holdsExReport, List.all_eq_true] at hb
    have := hb n (xchangedNames_of_ne (by rw [a1]; exact a2))
    exact absurd (by simpa using this) a3

/-- **explode_writes_source** (known finding, second half): for EVERY font whose lib has no `colorLayers` key the call,
 if it succeeds, leaves the key in the SOURCE font's lib – whatever the glyph set, the include list or the mappings. -/
theorem explode_writes_source (incl : Include) (i : ExIn) (o : ExOut) (h : exCall incl i = .ok o)
    (hk : i.src.colorLayers = none) : o.src.colorLayers ≠ i.src.colorLayers ∧ o.src ≠ i.src := by
  have inv := exCall_inv incl i o h
  have hs : o.src.colorLayers.isSome = true := inv.cl
  have h1 : o.src.colorLayers ≠ i.src.colorLayers := by
    rw [hk]; intro e; rw [e] at hs; simp at hs
  exact ⟨h1, fun e => h1 (by rw [e])⟩

/-! ### when the filter adds something -/

theorem mapStep_cases {gs₀ L₀} (n : String) (g : LGlyph) (acc acc' : ExSt × ColorMap) (e : String × Nat)
    (hi : ExInv gs₀ L₀ acc.1) (h : mapStep n g acc e = .ok acc') :
    (acc'.1 = acc.1 ∨ acc'.1.added ≠ []) ∧
    (∀ lay lg, alookup e.1 acc.1.src.layers = some lay → alookup n lay = some lg → g ≠ lg → acc'.1.added ≠ []) := by
  unfold mapStep at h
  split at h
  · exact absurd h (by simp)
  · rename_i lay hlay
    split at h
    · rename_i hn
      simp only [Except.ok.injEq] at h; rw [← h]
      refine ⟨Or.inl rfl, ?_⟩
      intro lay' lg' h1 h2 _
      rw [hlay] at h1; simp only [Option.some.injEq] at h1; subst h1
      rw [hn] at h2; exact absurd h2 (by simp)
    · rename_i lg hlg
      split at h
      · rename_i heq
        simp only [Except.ok.injEq] at h; rw [← h]
        refine ⟨Or.inl rfl, ?_⟩
        intro lay' lg' h1 h2 hne
        rw [hlay] at h1; simp only [Option.some.injEq] at h1; subst h1
        rw [hlg] at h2; simp only [Option.some.injEq] at h2; subst h2
        exact absurd (by simpa using heq) hne
      · split at h
        · exact absurd h (by simp)
        · rename_i st' nm hc
          simp only [Except.ok.injEq] at h; rw [← h]
          have := (copyGlyph_good _ _ _ _ _ _ hi hc).2
          have hne : st'.added ≠ [] := List.ne_nil_of_mem this
          exact ⟨Or.inr hne, fun _ _ _ _ _ => hne⟩

theorem mapFold_adds {gs₀ L₀} (n : String) (g : LGlyph) : ∀ (l : ColorMap) (acc r : ExSt × ColorMap),
    ExInv gs₀ L₀ acc.1 → l.foldlM (mapStep n g) acc = .ok r →
    (r.1 = acc.1 ∨ r.1.added ≠ []) ∧
    ((∃ le ∈ l, ∃ lay lg, alookup le.1 acc.1.src.layers = some lay ∧ alookup n lay = some lg ∧ g ≠ lg) → r.1.added ≠ [])
  | [], acc, r, _, h => by
    simp only [List.foldlM_nil, pure, Except.pure, Except.ok.injEq] at h
    rw [← h]
    exact ⟨Or.inl rfl, fun ⟨_, hle, _⟩ => by simp at hle⟩
  | x :: t, acc, r, hi, h => by
    simp only [List.foldlM_cons, bind, Except.bind] at h
    split at h
    · exact absurd h (by simp)
    · rename_i acc₁ h₁
      have g1 := mapStep_good n g acc acc₁ x hi h₁
      obtain ⟨c1, c2⟩ := mapStep_cases n g acc acc₁ x hi h₁
      have g2 := foldlM_good (gs₀ := gs₀) (L₀ := L₀) (mapStep n g)
        (fun a a' y hi' hy => mapStep_good n g a a' y hi' hy) t acc₁ r g1.inv h
      obtain ⟨d1, d2⟩ := mapFold_adds n g t acc₁ r g1.inv h
      have grow : acc₁.1.added ≠ [] → r.1.added ≠ [] := by
        intro hne
        obtain ⟨k, hk⟩ := List.exists_mem_of_ne_nil _ hne
        exact List.ne_nil_of_mem (g2.grow k hk)
      refine ⟨?_, ?_⟩
      · rcases c1 with c1 | c1
        · rcases d1 with d1 | d1
          · exact Or.inl (d1.trans c1)
          · exact Or.inr d1
        · exact Or.inr (grow c1)
      · rintro ⟨le, hle, lay, lg, h1, h2, h3⟩
        simp only [List.mem_cons] at hle
        rcases hle with rfl | hle
        · exact grow (c2 lay lg h1 h2 h3)
        · rcases c1 with c1 | c1
          · exact d2 ⟨le, hle, lay, lg, by rw [c1]; exact h1, h2, h3⟩
          · exact grow c1

/-- `filter(glyph)` on a font that is not skipped: nothing added means nothing but the `colorLayers` entry changed;
 a wanted copy is made -/
theorem exFilter_adds {gs₀ L₀} (st st' : ExSt) (n : String) (g : LGlyph) (r : Bool) (hi : ExInv gs₀ L₀ st)
    (hs : st.skip = false) (h : exFilter st n g = .ok (st', r)) :
    (st'.added = [] → st'.gs = st.gs ∧ st'.src.layers = st.src.layers ∧ st'.src.globalMap = st.src.globalMap ∧
        st.added = []) ∧
    (∀ m, effMap g.cmap st.src.globalMap = some m →
      (∃ le ∈ m, ∃ lay lg, alookup le.1 st.src.layers = some lay ∧ alookup n lay = some lg ∧ g ≠ lg) →
      st'.added ≠ []) := by
  unfold exFilter at h
  rw [if_neg (by simp [hs])] at h
  split at h
  · rename_i hm
    simp only [Except.ok.injEq, Prod.mk.injEq] at h; rw [← h.1]
    exact ⟨fun he => ⟨rfl, rfl, rfl, he⟩, fun m hm' => by rw [hm] at hm'; exact absurd hm' (by simp)⟩
  · rename_i mapping hm
    split at h
    · exact absurd h (by simp)
    · rename_i s₁ layers hf
      obtain ⟨d1, d2⟩ := mapFold_adds (gs₀ := gs₀) (L₀ := L₀) n g mapping (st, []) (s₁, layers) hi hf
      have key : (s₁.added = [] → s₁ = st) ∧
          ((∃ le ∈ mapping, ∃ lay lg, alookup le.1 st.src.layers = some lay ∧ alookup n lay = some lg ∧ g ≠ lg) →
            s₁.added ≠ []) := ⟨fun he => d1.resolve_right (fun hne => hne he), d2⟩
      split at h
      · simp only [Except.ok.injEq, Prod.mk.injEq] at h; rw [← h.1]
        refine ⟨fun he => ?_, fun m hm' hw => ?_⟩
        · have := key.1 he; subst this; exact ⟨rfl, rfl, rfl, he⟩
        · rw [hm] at hm'; simp only [Option.some.injEq] at hm'; subst hm'; exact key.2 hw
      · simp only [Except.ok.injEq, Prod.mk.injEq] at h; rw [← h.1]
        refine ⟨fun he => ?_, fun m hm' hw => ?_⟩
        · have he' : s₁.added = [] := he
          have := key.1 he'; subst this; exact ⟨rfl, rfl, rfl, he'⟩
        · rw [hm] at hm'; simp only [Option.some.injEq] at hm'; subst hm'; exact key.2 hw

theorem exLoop_adds {gs₀ L₀} (incl : Include) (G₀ : Option ColorMap) (n : String) (g : LGlyph) (m : ColorMap)
    (hg : alookup n gs₀ = some g) (hincl : incl n g.g = true)
    (hm : effMap g.cmap G₀ = some m)
    (hw : ∃ le ∈ m, ∃ lay lg, alookup le.1 L₀ = some lay ∧ alookup n lay = some lg ∧ g ≠ lg) :
    ∀ (names : List String) (st st' : ExSt), (∀ k ∈ names, alookup k gs₀ ≠ none) → ExInv gs₀ L₀ st → st.skip = false →
      (st.added = [] → st.gs = gs₀ ∧ st.src.layers = L₀ ∧ st.src.globalMap = G₀) → n ∈ names → n ∉ st.modified →
      names.foldlM (exLoopStep incl) st = .ok st' → st'.added ≠ []
  | [], _, _, _, _, _, _, hn, _, _ => by simp at hn
  | x :: t, st, st', hk, hi, hs, hq, hn, hnm, h => by
    simp only [List.foldlM_cons, bind, Except.bind] at h
    split at h
    · exact absurd h (by simp)
    · rename_i s₁ h₁
      have hkt : ∀ k ∈ t, alookup k gs₀ ≠ none := fun k hk' => hk k (List.mem_cons_of_mem _ hk')
      obtain ⟨i1, k1, gr1⟩ := exLoopStep_inv incl st s₁ x (hk x List.mem_cons_self) hi h₁
      obtain ⟨_, _, gr2⟩ := exLoop_inv incl t s₁ st' hkt i1 h
      by_cases he : s₁.added = []
      · -- nothing added by this step
        have hst : st.added = [] := by
          cases hst : st.added with
          | nil => rfl
          | cons a l =>
            have := gr1 a (by rw [hst]; exact List.mem_cons_self)
            rw [he] at this; exact absurd this (by simp)
        obtain ⟨q1, q2, q3⟩ := hq hst
        unfold exLoopStep at h₁
        by_cases hx : x = n
        · subst hx
          rw [if_neg (by simpa using hnm)] at h₁
          rw [q1, hg] at h₁
          simp only [hincl, if_true] at h₁
          split at h₁
          · exact absurd h₁ (by simp)
          · rename_i s₂ r hf
            have := (exFilter_adds st s₂ x g r hi hs hf).2 m (by rw [q3]; exact hm) (by rw [q2]; exact hw)
            simp only [Except.ok.injEq] at h₁
            have hadd : s₁.added = s₂.added := by rw [← h₁]; split <;> rfl
            rw [hadd] at he
            exact absurd he this
        · -- another glyph: the state seen by the rest of the loop is as at the start
          have hrest : n ∈ t := by
            simp only [List.mem_cons] at hn
            exact hn.resolve_left (fun e => hx e.symm)
          have hq1 : s₁.added = [] → s₁.gs = gs₀ ∧ s₁.src.layers = L₀ ∧ s₁.src.globalMap = G₀ := by
            intro _
            split at h₁
            · simp only [Except.ok.injEq] at h₁; rw [← h₁]; exact ⟨q1, q2, q3⟩
            · split at h₁
              · exact absurd h₁ (by simp)
              · split at h₁
                · split at h₁
                  · exact absurd h₁ (by simp)
                  · rename_i s₂ r hf
                    simp only [Except.ok.injEq] at h₁
                    have hadd : s₁.added = s₂.added := by rw [← h₁]; split <;> rfl
                    obtain ⟨a1, a2, a3, _⟩ := (exFilter_adds st s₂ x _ r hi hs hf).1 (by rw [← hadd]; exact he)
                    rw [← h₁]
                    split
                    · exact ⟨a1.trans q1, a2.trans q2, a3.trans q3⟩
                    · exact ⟨a1.trans q1, a2.trans q2, a3.trans q3⟩
                · simp only [Except.ok.injEq] at h₁; rw [← h₁]; exact ⟨q1, q2, q3⟩
          have hnm1 : n ∉ s₁.modified := by
            split at h₁
            · simp only [Except.ok.injEq] at h₁; rw [← h₁]; exact hnm
            · split at h₁
              · exact absurd h₁ (by simp)
              · split at h₁
                · split at h₁
                  · exact absurd h₁ (by simp)
                  · rename_i s₂ r hf
                    have g2 := exFilter_good st s₂ x _ r hi hf
                    simp only [Except.ok.injEq] at h₁
                    rw [← h₁]
                    split
                    · intro hc
                      have hc' : n ∈ sadd s₂.modified x := hc
                      rw [mem_sadd, g2.modified] at hc'
                      rcases hc' with hc' | hc'
                      · exact hnm hc'
                      · exact hx hc'.symm
                    · rw [g2.modified]; exact hnm
                · simp only [Except.ok.injEq] at h₁; rw [← h₁]; exact hnm
          exact exLoop_adds incl G₀ n g m hg hincl hm hw t s₁ st' hkt i1 (k1.trans hs) hq1 hrest hnm1 h
      · obtain ⟨k, hk'⟩ := List.exists_mem_of_ne_nil _ he
        exact List.ne_nil_of_mem (gr2 k hk')

/-- **explode_adds**: on every input that meets the decidable condition `exWantsCopy` (no `colorLayers` key yet; some
 included glyph is mapped to a layer glyph of its name that is not equal to it) a successful call adds at least one
 glyph – which by `explode_underreports` is not reported. -/
theorem explode_adds (incl : Include) (i : ExIn) (o : ExOut) (h : exCall incl i = .ok o)
    (hw : exWantsCopy incl i.src i.gs = true) :
    o.added ≠ [] ∧ holdsExReport i.gs o.gs o.modified = false := by
  have hadd : o.added ≠ [] := by
    simp only [exWantsCopy, Bool.and_eq_true, Option.isNone_iff_eq_none, List.any_eq_true, beq_iff_eq] at hw
    obtain ⟨hcl, e, _, ⟨hlook, hincl⟩, hmap⟩ := hw
    unfold exCall at h
    split at h
    · exact absurd h (by simp)
    · rename_i names hnames
      split at h
      · exact absurd h (by simp)
      · rename_i st hst
        simp only [Except.ok.injEq] at h
        subst h
        have hmem : ∀ n ∈ names, alookup n i.gs ≠ none := by
          intro n hn
          have := (orderedNames_mem _ names hnames n).mp hn
          rw [keys_plain] at this
          exact alookup_ne_none_of_mem_keys this
        have hin : e.1 ∈ names := by
          rw [orderedNames_mem _ names hnames, keys_plain]
          exact mem_keys_of_alookup' hlook
        have hmo : mappingOf e.2.cmap i.src.globalMap = effMap e.2.cmap i.src.globalMap := by
          cases e.2.cmap <;> rfl
        rw [hmo] at hmap
        cases hm : effMap e.2.cmap i.src.globalMap with
        | none => rw [hm] at hmap; exact absurd hmap (by simp)
        | some m =>
          rw [hm] at hmap
          simp only [List.any_eq_true] at hmap
          obtain ⟨le, hle, hlay⟩ := hmap
          have hw' : ∃ le ∈ m, ∃ lay lg, alookup le.1 i.src.layers = some lay ∧ alookup e.1 lay = some lg ∧ e.2 ≠ lg := by
            refine ⟨le, hle, ?_⟩
            split at hlay
            · exact absurd hlay (by simp)
            · rename_i lay h1
              split at hlay
              · exact absurd hlay (by simp)
              · rename_i lg h2
                exact ⟨lay, lg, h1, h2, by simpa using hlay⟩
          exact exLoop_adds (gs₀ := i.gs) (L₀ := i.src.layers) incl i.src.globalMap e.1 e.2 m hlook hincl hm hw' names
            (exInit i) st hmem (exInit_inv i) (by simp [exInit, hcl]) (fun _ => ⟨rfl, rfl, rfl⟩) hin
            (by simp [exInit]) hst
  exact ⟨hadd, (explode_underreports incl i o h).2 hadd⟩

/-! ## non-vacuity: the hypotheses are met by concrete inputs -/

def sA : Glyph :=
  { width := 500, height := 0, contours := [[exPt 0 0, exPt 100 0, exPt 100 100]], comps := [], anchors := [⟨"top", 50, 100⟩] }
def sM : Glyph :=
  { width := 0, height := 0, contours := [[exPt 0 0, exPt 10 0, exPt 10 10]], comps := [], anchors := [⟨"_top", 5, 0⟩] }
def sDrawn : Glyph :=
  { width := 600, height := 0, contours := [[exPt 160 0, exPt 440 0, exPt 300 280]], comps := [], anchors := [] }
/-- a base glyph with `top` (bounding box 100 wide), a mark with `_top`; no glyph is encoded U+25CC -/
def sFont : List FGlyph := [⟨"a", sA, [97], some 100⟩, ⟨"m", sM, [], some 10⟩]
def sIn (cats : Option (List (String × String))) (gdef : Option (List (Option (List String)))) : DCIn :=
  { src := { glyphs := sFont, cats := cats, gdef := gdef, feaCanonical := false }, gs := [("a", sA), ("m", sM)],
    shared := false, drawn := sDrawn }
/-- (returned set, anchors of uni25CC) -/
def sShow (r : Except Err DCOut) : Option (List String × Option (List Anchor)) :=
  match r with
  | .ok o => some (o.modified, (alookup "uni25CC" o.gs).map (fun (g : Glyph) => g.anchors))
  | .error _ => none
/-- the source font afterwards: the categories -/
def sCats (r : Except Err DCOut) : List (String × String) :=
  match r with
  | .ok o => o.src.cats.getD []
  | .error _ => []
/-- the source font afterwards: the base classes of the GDEF table, whether the feature text was assigned -/
def sGdef (r : Except Err DCOut) : List (List String) × Bool :=
  match r with
  | .ok o => ((o.src.gdef.getD []).map (fun (b : Option (List String)) => b.getD []), o.src.feaAssigned)
  | .error _ => ([], false)

-- the circle is drawn, `top` is put at 600 * (50/100) = 300, and the SOURCE font's categories get the new glyph
example : sShow (dcCall (sIn (some [("a", "base")]) none)) = some (["uni25CC"], some [⟨"top", 300, 100⟩]) := by
  decide +kernel
example : sCats (dcCall (sIn (some [("a", "base")]) none)) = [("a", "base"), ("uni25CC", "base")] := by decide +kernel
-- with a GDEF table the base class gets the glyph and the feature text is assigned
example : sGdef (dcCall (sIn none (some [some ["a"], none]))) = ([["a", "uni25CC"], []], true) := by decide +kernel
-- the hypotheses of `dottedCircle_writes_source`
example : dcTarget sFont [("a", sA), ("m", sM)] = some "uni25CC" := by decide +kernel
example : dcWantsAnchor sFont (dcTargetAnchors sFont [("a", sA), ("m", sM)] sDrawn) = true := by decide +kernel
-- an existing, encoded dotted circle that has the anchor already: nothing happens (`dcWantsAnchor` is false)
def sC : Glyph := { sDrawn with anchors := [⟨"top", 1, 2⟩] }
example : (match dcCall { src := { glyphs := sFont ++ [⟨"dc", sC, [0x25CC], some 280⟩], cats := some [], gdef := none, feaCanonical := true },
                          gs := [("a", sA), ("m", sM), ("dc", sC)], shared := false, drawn := sDrawn } with
           | .ok o => some (o.modified, o.src.cats) | .error _ => none) = some ([], some []) := by decide +kernel

def xA : LGlyph := { g := sA, unicodes := [97], cmap := none }
def xA1 : LGlyph := { g := { sA with anchors := [] }, unicodes := [97], cmap := none }
def xB1 : LGlyph := { g := { sM with comps := [⟨"a", Affine.ident⟩], anchors := [] }, unicodes := [], cmap := none }
/-- one glyph `a`; the layer `color1` has an `a` of its own (and a `b` nobody asks for); the font maps to `color1` -/
def xIn : ExIn :=
  { src := { layers := [("public.default", [("a", xA)]), ("color1", [("a", xA1), ("b", xB1)])],
             globalMap := some [("color1", 0)], colorLayers := none }, gs := [("a", xA)] }
/-- (returned set, added names, keys of the glyph set) -/
def xShow (r : Except Err ExOut) : Option (List String × List String × List String) :=
  match r with
  | .ok o => some (o.modified, o.added, o.gs.map (fun (e : String × LGlyph) => e.1))
  | .error _ => none
/-- the source font afterwards: lib colorLayers (`[("?", [])]` when the key is missing) -/
def xCL (r : Except Err ExOut) : List (String × ColorMap) :=
  match r with
  | .ok o => o.src.colorLayers.getD [("?", [])]
  | .error _ => []
/-- the source font afterwards: code points of the glyphs of layer color1 -/
def xUni (r : Except Err ExOut) : List (String × List Nat) :=
  match r with
  | .ok o => ((alookup "color1" o.src.layers).getD []).map (fun (e : String × LGlyph) => (e.1, e.2.unicodes))
  | .error _ => []

-- `a.color1` is added and not reported, `a` is reported and unchanged; the source font's lib gets colorLayers and the
-- layer glyph loses its code point
example : xShow (exCall (fun _ _ => true) xIn) = some (["a"], ["a.color1"], ["a", "a.color1"]) := by decide +kernel
example : xCL (exCall (fun _ _ => true) xIn) = [("a", [("a.color1", 0)])] := by decide +kernel
example : xUni (exCall (fun _ _ => true) xIn) = [("a", []), ("b", [])] := by decide +kernel
example : exWantsCopy (fun _ _ => true) xIn.src xIn.gs = true := by decide +kernel
-- a font that already has the key is skipped: nothing added, nothing reported
def xIn2 : ExIn := { src := { xIn.src with colorLayers := some [] }, gs := xIn.gs }
example : xShow (exCall (fun _ _ => true) xIn2) = some ([], [], ["a"]) := by decide +kernel
example : xCL (exCall (fun _ _ => true) xIn2) = [] := by decide +kernel
example : xUni (exCall (fun _ _ => true) xIn2) = [("a", [97]), ("b", [])] := by decide +kernel

end Ufo2ft.C14
