import Ufo2ftModel.Props.C16
/-! C16 — a history of compiles on the same source objects (several `<variable-font>` elements of one designspace,
re-use of a UFO after a variable build): InfoCompiler leaves the caller's source as it was, so every font of the
history depends on the original source info and its own overrides only. -/
namespace Ufo2ft.C16

theorem infoCompileStep_ok (src over : Info) (env envBase : Env) (ctx : Ctx) (bv bg : Bool) (o : Out) (src' : Info)
    (h : infoCompileStep src over env envBase ctx bv bg = .ok (o, src')) :
    postInfo src over env envBase ctx bv bg = .ok o ∧ src' = src := by
  unfold infoCompileStep copyInfo at h
  unfold postInfo
  by_cases hn : noOverrides over = true
  · simp only [hn, if_true] at h ⊢
    cases hc : compile src envBase ctx with
    | error e => simp [hc, bind, Except.bind] at h
    | ok r =>
      simp only [hc, bind, Except.bind, pure, Except.pure, Except.ok.injEq, Prod.mk.injEq] at h
      exact ⟨by rw [← h.1], h.2.symm⟩
  · have hn' : noOverrides over = false := by simpa using hn
    simp only [hn', Bool.false_eq_true, if_false] at h ⊢
    cases hc : infoCompile (fun a => src a) over env envBase ctx bv bg with
    | error e => simp [hc, bind, Except.bind] at h
    | ok r =>
      simp only [hc, bind, Except.bind, pure, Except.pure, Except.ok.injEq, Prod.mk.injEq] at h
      exact ⟨by rw [← h.1], h.2.symm⟩

/-- **C16_infocompiler_seq**: however many fonts are post-processed from the same source object and whatever
    their override sets are, (1) there is one font per step, and the k-th font is exactly what the post-processing
    gives for the ORIGINAL source info and the k-th override set alone — no override of an earlier font reaches a
    later one —, and (2) the source info at the end is the source info at the start. -/
theorem C16_infocompiler_seq (base : Info) (envBase : Env) (ctx : Ctx) :
    ∀ (steps : List SeqStep) (os : List Out) (fin : Info),
      infoCompileSeq base envBase ctx steps = .ok (os, fin) →
      os.length = steps.length ∧
      (∀ (k : Nat) (s : SeqStep) (o : Out), steps[k]? = some s → os[k]? = some o →
        postInfo base s.over s.env envBase ctx s.baseVertical s.baseGasp = .ok o) ∧
      fin = base := by
  intro steps
  induction steps with
  | nil =>
    intro os fin h
    simp only [infoCompileSeq, pure, Except.pure, Except.ok.injEq, Prod.mk.injEq] at h
    refine ⟨by rw [← h.1]; rfl, ?_, h.2.symm⟩
    intro k s o hs; simp at hs
  | cons s t ih =>
    intro os fin h
    unfold infoCompileSeq at h
    cases h1 : infoCompileStep base s.over s.env envBase ctx s.baseVertical s.baseGasp with
    | error e => simp [h1, bind, Except.bind] at h
    | ok p =>
      obtain ⟨o, src'⟩ := p
      obtain ⟨ho, hs⟩ := infoCompileStep_ok _ _ _ _ _ _ _ _ _ h1
      subst hs
      simp only [h1, bind, Except.bind] at h
      cases h2 : infoCompileSeq src' envBase ctx t with
      | error e => simp [h2] at h
      | ok q =>
        obtain ⟨os', fin'⟩ := q
        simp only [h2, pure, Except.pure, Except.ok.injEq, Prod.mk.injEq] at h
        obtain ⟨ihl, ih1, ih2⟩ := ih os' fin' h2
        refine ⟨by rw [← h.1]; simp [ihl], ?_, by rw [← h.2]; exact ih2⟩
        intro k s' o' hs' ho'
        rw [← h.1] at ho'
        cases k with
        | zero =>
          simp only [List.getElem?_cons_zero, Option.some.injEq] at hs' ho'
          rw [← hs', ← ho']; exact ho
        | succ k =>
          simp only [List.getElem?_cons_succ] at hs' ho'
          exact ih1 k s' o' hs' ho'

/-- the source is left unchanged, in the form of the observable predicate -/
theorem C16_infocompiler_seq_source (base : Info) (envBase : Env) (ctx : Ctx) (steps : List SeqStep) (os : List Out)
    (fin : Info) (h : infoCompileSeq base envBase ctx steps = .ok (os, fin)) :
    holdsSourceUnchanged base fin = true := by
  rw [(C16_infocompiler_seq base envBase ctx steps os fin h).2.2]
  simp [holdsSourceUnchanged]

/-- **C16_infocompiler_seq_rows**: every font of the history that has overrides shows, in every row of the tables
    InfoCompiler handles, the converted effective value of (original source info merged with ITS OWN overrides) — an
    attribute this font does not override has the value compiled from the source (explicit there, or the fallback),
    whatever the other fonts of the same designspace override. -/
theorem C16_infocompiler_seq_rows (base : Info) (envBase : Env) (ctx : Ctx) (steps : List SeqStep) (os : List Out)
    (fin : Info) (h : infoCompileSeq base envBase ctx steps = .ok (os, fin))
    (k : Nat) (s : SeqStep) (o : Out) (hs : steps[k]? = some s) (ho : os[k]? = some o)
    (hn : noOverrides s.over = false) :
    ∀ row ∈ rows, infoCompilerField row.field = true → isVheaField row.field = false →
      condHolds row.cond (getV (mergeInfo base s.over) s.env) (tempCtx ctx) row.attr = true →
      o.fields row.field = applyConv row.conv (getV (mergeInfo base s.over) s.env row.attr) := by
  have h1 := (C16_infocompiler_seq base envBase ctx steps os fin h).2.1 k s o hs ho
  simp only [postInfo, hn, Bool.false_eq_true, if_false] at h1
  exact C16_infocompiler_rows base _ _ envBase ctx _ _ _ h1

/-- a font of the history WITHOUT overrides is the plain compile of the original source info (to which `C16_font`
    applies), whatever the earlier fonts overrode -/
theorem C16_infocompiler_seq_plain (base : Info) (envBase : Env) (ctx : Ctx) (steps : List SeqStep) (os : List Out)
    (fin : Info) (h : infoCompileSeq base envBase ctx steps = .ok (os, fin))
    (k : Nat) (s : SeqStep) (o : Out) (hs : steps[k]? = some s) (ho : os[k]? = some o)
    (hn : noOverrides s.over = true) : compile base envBase ctx = .ok o := by
  have h1 := (C16_infocompiler_seq base envBase ctx steps os fin h).2.1 k s o hs ho
  simpa only [postInfo, hn, if_true] using h1

/-- a history of well-formed overrides on a well-formed source never raises (hypothesis on CFF strings as in
    `C16_infocompiler_total`) and returns the source as it was -/
theorem C16_infocompiler_seq_total (base : Info) (envBase : Env) (ctx : Ctx) (hb : wfInfo base = true)
    (henc : ctx.otf = true → ctx.cffWritten = true →
      cffEncodable (getV base envBase) envBase = true ∧ isAscii (getV base envBase .postscriptFontName).s = true) :
    ∀ (steps : List SeqStep), (∀ s ∈ steps, wfInfo s.over = true) →
      ∃ os, infoCompileSeq base envBase ctx steps = .ok (os, base) := by
  intro steps
  induction steps with
  | nil => intro _; exact ⟨[], rfl⟩
  | cons s t ih =>
    intro hw
    obtain ⟨os, hos⟩ := ih (fun x hx => hw x (by simp [hx]))
    have : ∃ o, infoCompileStep base s.over s.env envBase ctx s.baseVertical s.baseGasp = .ok (o, base) := by
      unfold infoCompileStep copyInfo
      by_cases hn : noOverrides s.over = true
      · obtain ⟨o, ho⟩ := C16_compiles_partial base envBase ctx hb henc
        exact ⟨o, by simp only [hn, if_true, ho, bind, Except.bind, pure, Except.pure]⟩
      · obtain ⟨o, ho⟩ := C16_infocompiler_total base s.over s.env envBase ctx s.baseVertical s.baseGasp hb
          (hw s (by simp)) henc
        have e : (fun a => base a) = base := rfl
        have hn' : noOverrides s.over = false := by simpa using hn
        exact ⟨o, by simp only [hn', Bool.false_eq_true, if_false, e, ho, bind, Except.bind, pure, Except.pure]⟩
    obtain ⟨o, ho⟩ := this
    refine ⟨o :: os, ?_⟩
    unfold infoCompileSeq
    simp only [ho, hos, bind, Except.bind, pure, Except.pure]

/-- what the copy in `InfoCompiler.__init__` is for: WITHOUT it (`temp_ufo.info = ufo.info`, see
    `infoCompileStepAliased`) every override stays on the caller's source, so the next font compiled from it shows
    it although it does not override it -/
theorem C16_infocompiler_alias_leaks (src over : Info) (env envBase : Env) (ctx : Ctx) (bv bg : Bool) (o : Out) (src' : Info)
    (h : infoCompileStepAliased src over env envBase ctx bv bg = .ok (o, src')) (a : Attr) (ha : over a ≠ .none) :
    src' a = over a := by
  unfold infoCompileStepAliased at h
  cases hc : infoCompile src over env envBase ctx bv bg with
  | error e => simp [hc, bind, Except.bind] at h
  | ok r =>
    simp only [hc, bind, Except.bind, pure, Except.pure, Except.ok.injEq, Prod.mk.injEq] at h
    rw [← h.2]; simp [mergeInfo, ha]

-- non-vacuity: a history of two steps on the same source runs, returns two fonts
example : (match infoCompileSeq (fun _ => .none) witnessEnv ⟨false, false, true, false⟩
    [⟨vheaOverride, witnessEnv, false, false⟩, ⟨fun _ => .none, witnessEnv, false, false⟩] with
    | .ok (os, _) => os.length == 2 | .error _ => false) = true := by decide

end Ufo2ft.C16
