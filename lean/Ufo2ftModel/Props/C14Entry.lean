import Ufo2ftModel.Model.C14Entry
import Ufo2ftModel.Spec.C14Entry
import Ufo2ftModel.Props.C14
/-!
Theorems about the entry of `BaseFilter.__call__` (all inputs).
-/
namespace Ufo2ft.C14

/-- **C14_entry_given**: a glyph set that was given is the one worked on - also when it is empty -/
theorem C14_entry_given (k : Kind) (incl : Include) (obj : Obj) (gs layer : GlyphSet) :
    entryCall k incl obj (some gs) layer = (.given, call k incl obj gs) := rfl

theorem C14_entry_inplace (k : Kind) (incl : Include) (obj : Obj) (layer : GlyphSet) :
    entryCall k incl obj none layer = (.layer, call k incl obj layer) := rfl

/-- **C14_entry_holds**: the predicate the driver evaluates holds of the model for every glyph set given -/
theorem C14_entry_holds (k : Kind) (incl : Include) (obj : Obj) (gs layer : GlyphSet) (separate : Bool) :
    holdsEntry separate (some (decide ((entryCall k incl obj (some gs) layer).1 = .given))) = true := by
  simp [holdsEntry, entryCall, entryTarget]

theorem orderedNames_nil : orderedNames [] = .ok [] := rfl
theorem baseCall_nil (incl : Include) (f : FilterFn) :
    baseCall incl f [] = .ok { gs := [], modified := [], processed := [] } := rfl
theorem skipDelete_nil (skip : List String) (o : Out) (h : o.gs = []) : skipDelete skip o = o := by
  unfold skipDelete
  induction skip with
  | nil => rfl
  | cons a l ih => simp [List.foldl, h, alookup]; simpa [skipDelete] using ih

/-- **C14_entry_empty**: on an empty glyph set a successful call reports nothing and leaves it empty, the layer of
 the source font playing no part (`layer` is arbitrary) -/
theorem C14_entry_empty (k : Kind) (incl : Include) (obj : Obj) (layer : GlyphSet) (o : Out)
    (hk : k ≠ .skipExport [])
    (h : (entryCall k incl obj (some []) layer).2.2 = .ok o) :
    o.modified = [] ∧ o.gs = [] := by
  simp only [entryCall, entryGlyphSet] at h
  cases k with
  | skipExport l =>
    cases l with
    | nil => exact absurd rfl hk
    | cons a l =>
      simp only [call, baseCall_nil] at h
      rw [skipDelete_nil] at h
      · cases h; exact ⟨rfl, rfl⟩
      · rfl
  | _ =>
    simp only [call, baseCall_nil] at h
    cases h; exact ⟨rfl, rfl⟩

/-- **C14_entry_empty_holds**: the predicate evaluated on observed calls with an empty separate glyph set holds of
 the model (which has no access to the font: nothing of it changes) -/
theorem C14_entry_empty_holds (k : Kind) (incl : Include) (obj : Obj) (layer : GlyphSet) (o : Out)
    (hk : k ≠ .skipExport [])
    (h : (entryCall k incl obj (some []) layer).2.2 = .ok o) :
    holdsEmptyCall o.gs [] = true := by
  rw [(C14_entry_empty k incl obj layer o hk h).2]; rfl

/-- the hypotheses are met: a transformation given an empty glyph set next to a non-empty layer -/
example : ∃ o, (entryCall .reverse (fun _ _ => true) Obj.fresh (some [])
      [("a", { width := 0, height := 0, contours := [], comps := [], anchors := [] })]).2.2 = .ok o ∧
    o.modified = [] ∧ o.gs = [] := ⟨_, rfl, rfl, rfl⟩

end Ufo2ft.C14
