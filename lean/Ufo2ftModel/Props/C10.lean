import Ufo2ftModel.Spec.C10
/-! Property C10 theorems.  Every `theorem` here is audited (`#print axioms`). -/
namespace Ufo2ft.C10
open Ufo2ft Ufo2ft.C05

/-! ## 1. The variation model: master reproduction for fontTools' delta construction, and the one-axis instance -/

theorem dot_append {Loc : Type} (A B : List (Loc → Q)) (x : Loc) (C D : List Q) (h : A.length = C.length) :
    dot (A ++ B) x (C ++ D) = dot A x C + dot B x D := by
  induction A generalizing C with
  | nil =>
    cases C with
    | nil => simp [dot, Rat.zero_add]
    | cons c C => simp at h
  | cons a A ih =>
    cases C with
    | nil => simp at h
    | cons c C =>
      simp only [List.length_cons, Nat.add_right_cancel_iff] at h
      simp only [List.cons_append, dot, ih C h]
      grind

theorem dot_zero {Loc : Type} (S : List (Loc → Q)) (x : Loc) (D : List Q) (h : ∀ g ∈ S, g x = 0) : dot S x D = 0 := by
  induction S generalizing D with
  | nil => cases D <;> simp [dot]
  | cons g S ih =>
    cases D with
    | nil => simp [dot]
    | cons d D =>
      simp only [dot]
      rw [h g (by simp), ih D (fun g' hg' => h g' (by simp [hg']))]
      grind

theorem deltasGo_append {Loc : Type} (pS : List (Loc → Q)) (pD : List Q) (m1 m2 : List ((Loc → Q) × Loc × Q)) :
    deltasGo pS pD (m1 ++ m2) = deltasGo (pS ++ m1.map (·.1)) (deltasGo pS pD m1) m2 := by
  induction m1 generalizing pS pD with
  | nil => simp [deltasGo]
  | cons m m1 ih =>
    obtain ⟨f, l, v⟩ := m
    simp only [List.cons_append, deltasGo, ih, List.map_cons, List.append_assoc, List.nil_append]

theorem deltasGo_prefix {Loc : Type} (pS : List (Loc → Q)) (pD : List Q) (ms : List ((Loc → Q) × Loc × Q)) :
    ∃ t, deltasGo pS pD ms = pD ++ t ∧ t.length = ms.length := by
  induction ms generalizing pS pD with
  | nil => exact ⟨[], by simp [deltasGo]⟩
  | cons m ms ih =>
    obtain ⟨f, l, v⟩ := m
    obtain ⟨t, ht, hl⟩ := ih (pS ++ [f]) (pD ++ [v - dot pS l pD])
    exact ⟨(v - dot pS l pD) :: t, by simp [deltasGo, ht], by simp [hl]⟩

/-- master reproduction for fontTools' delta construction: if the support scalar of master `i` is 1 at its own location and the
    support scalars of all LATER masters vanish there, interpolating at master `i`'s location returns master `i`'s value. -/
theorem deltas_reproduce {Loc : Type} (A B : List ((Loc → Q) × Loc × Q)) (f : Loc → Q) (l : Loc) (v : Q)
    (hd : f l = 1) (hu : ∀ b ∈ B, b.1 l = 0) :
    dot ((A ++ (f, l, v) :: B).map (·.1)) l (deltas (A ++ (f, l, v) :: B)) = v := by
  unfold deltas
  rw [deltasGo_append]
  obtain ⟨tA, hA, hlA⟩ := deltasGo_prefix ([] : List (Loc → Q)) [] A
  simp only [List.nil_append] at hA
  simp only [deltasGo, List.nil_append, hA]
  obtain ⟨tB, hB, hlB⟩ := deltasGo_prefix (A.map (·.1) ++ [f]) (tA ++ [v - dot (A.map (·.1)) l tA]) B
  rw [hB]
  simp only [List.map_append, List.map_cons]
  have e1 : (A.map (·.1) ++ f :: B.map (·.1)) = (A.map (·.1) ++ [f]) ++ B.map (·.1) := by simp
  rw [e1, dot_append _ _ _ _ _ (by simp [hlA]), dot_append _ _ _ _ _ (by simp [hlA])]
  rw [dot_zero (B.map (·.1)) l tB (by
    intro g hg
    obtain ⟨b, hb, rfl⟩ := List.mem_map.mp hg
    exact hu b hb)]
  simp only [dot, hd]
  grind

theorem deltaModel_law {Loc : Type} (S : List (Loc → Q)) (locs : List Loc) (hlen : S.length = locs.length)
    (hd : ∀ i (h1 : i < S.length) (h2 : i < locs.length), S[i] locs[i] = 1)
    (hu : ∀ i j (hi : i < locs.length) (hj : j < S.length), i < j → S[j] locs[i] = 0)
    (i : Nat) (vs : List Q) (h : i < locs.length) (hv : vs.length = locs.length) :
    interpolate S locs locs[i] vs = vs[i] := by
  unfold interpolate
  have hms : (S.zip (locs.zip vs)).length = locs.length := by simp [hlen, hv]
  have hi : i < (S.zip (locs.zip vs)).length := by omega
  have hsplit : S.zip (locs.zip vs) = (S.zip (locs.zip vs)).take i ++ (S.zip (locs.zip vs))[i] :: (S.zip (locs.zip vs)).drop (i + 1) := by
    rw [List.getElem_cons_drop, List.take_append_drop]
  have hel : (S.zip (locs.zip vs))[i] = (S[i], locs[i], vs[i]) := by simp
  have hS : (S.zip (locs.zip vs)).map (·.1) = S := by
    apply List.map_fst_zip
    simp [hlen, hv]
  have key := deltas_reproduce ((S.zip (locs.zip vs)).take i) ((S.zip (locs.zip vs)).drop (i + 1)) S[i] locs[i] vs[i]
    (hd i (by omega) h) (by
      intro b hb
      obtain ⟨k, hk, rfl⟩ := List.mem_iff_getElem.mp hb
      simp only [List.length_drop] at hk
      simp only [List.getElem_drop, List.getElem_zip]
      exact hu i (i + 1 + k) h (by omega) (by omega))
  rw [← hel, ← hsplit, hS] at key
  exact key

/-- fontTools' delta construction as a `VarModel`, given its two support facts -/
def deltaVarModel {Loc : Type} (S : List (Loc → Q)) (locs : List Loc) (hlen : S.length = locs.length)
    (hd : ∀ i (h1 : i < S.length) (h2 : i < locs.length), S[i] locs[i] = 1)
    (hu : ∀ i j (hi : i < locs.length) (hj : j < S.length), i < j → S[j] locs[i] = 0) : VarModel Loc :=
  { locs := locs, interp := interpolate S locs, law := fun i vs h hv => deltaModel_law S locs hlen hd hu i vs h hv }

def BoxInv (l : Q) (box : Q × Q) : Prop :=
  (0 < l → 0 ≤ box.1 ∧ box.1 < l ∧ l ≤ box.2) ∧ (l < 0 → box.1 ≤ l ∧ l < box.2 ∧ box.2 ≤ 0)

def Outside (p : Q) (box : Q × Q) : Prop := p ≤ box.1 ∨ box.2 ≤ p

theorem sb_zero (l : Q) (box : Q × Q) : splitBox l box 0 = box := by simp [splitBox]

theorem sb_irrel (l p : Q) (box : Q × Q) (hpl : p ≠ l) (h : ¬(box.1 < p ∧ p < box.2)) : splitBox l box p = box := by
  unfold splitBox
  by_cases h0 : p = 0
  · simp [h0]
  · have : (p == l || decide (box.1 < p) && decide (p < box.2)) = false := by
      simp only [Bool.or_eq_false_iff, beq_eq_false_iff_ne, ne_eq, hpl, not_false_eq_true, true_and, Bool.and_eq_false_iff,
        decide_eq_false_iff_not]
      by_cases h1 : box.1 < p
      · right; exact fun h2 => h ⟨h1, h2⟩
      · left; exact h1
    simp [h0, this]

theorem sb_lo (l p : Q) (box : Q × Q) (h0 : p ≠ 0) (h1 : box.1 < p) (h2 : p < box.2) (h3 : p < l) : splitBox l box p = (p, box.2) := by
  unfold splitBox
  simp [h0, h1, h2, h3]

theorem sb_hi (l p : Q) (box : Q × Q) (h0 : p ≠ 0) (h1 : box.1 < p) (h2 : p < box.2) (h3 : l < p) : splitBox l box p = (box.1, p) := by
  unfold splitBox
  have : ¬ p < l := by grind
  simp [h0, h1, h2, h3, this]

theorem splitBox_inv (l : Q) (box : Q × Q) (p : Q) (hl : l ≠ 0) (hp : p ≠ l) (h : BoxInv l box) :
    BoxInv l (splitBox l box p) ∧ Outside p (splitBox l box p) ∧ (∀ p', Outside p' box → Outside p' (splitBox l box p)) := by
  by_cases h0 : p = 0
  · subst h0
    rw [sb_zero]
    refine ⟨h, ?_, fun _ h' => h'⟩
    unfold BoxInv at h; unfold Outside
    grind
  · by_cases hin : box.1 < p ∧ p < box.2
    · by_cases hlt : p < l
      · rw [sb_lo l p box h0 hin.1 hin.2 hlt]
        unfold BoxInv at *; unfold Outside
        grind
      · have hgt : l < p := by grind
        rw [sb_hi l p box h0 hin.1 hin.2 hgt]
        unfold BoxInv at *; unfold Outside
        grind
    · rw [sb_irrel l p box hp hin]
      refine ⟨h, ?_, fun _ h' => h'⟩
      unfold Outside
      grind

theorem foldBox_inv (l : Q) (hl : l ≠ 0) (prev : List Q) (box : Q × Q) (done : List Q)
    (hprev : ∀ p ∈ prev, p ≠ l) (h : BoxInv l box) (hdone : ∀ p ∈ done, Outside p box) :
    BoxInv l (prev.foldl (splitBox l) box) ∧ ∀ p ∈ done ++ prev, Outside p (prev.foldl (splitBox l) box) := by
  induction prev generalizing box done with
  | nil => simpa using ⟨h, hdone⟩
  | cons p prev ih =>
    obtain ⟨h1, h2, h3⟩ := splitBox_inv l box p hl (hprev p (by simp)) h
    have := ih (splitBox l box p) (done ++ [p]) (fun q hq => hprev q (by simp [hq])) h1 (by
      intro q hq
      rcases List.mem_append.mp hq with hq | hq
      · exact h3 q (hdone q hq)
      · simp only [List.mem_singleton] at hq; subst hq; exact h2)
    simpa [List.foldl_cons, List.append_assoc] using this

/-- the support scalar of a master is 1 at its own location -/
theorem scalar1_self (prev : List Q) (l : Q) : scalar1 (region1 prev l) l = 1 := by
  unfold region1
  by_cases h0 : l = 0
  · simp [h0, scalar1]
  · simp only [beq_iff_eq, h0, if_false, scalar1]
    split <;> try rfl
    split <;> try rfl
    split <;> try rfl
    simp

/-- the support scalar of a master vanishes at every EARLIER master's location (one axis, range [-1, 1]) -/
theorem scalar1_earlier (prev : List Q) (l p : Q) (hl : l ≠ 0) (hr : -1 ≤ l ∧ l ≤ 1) (hp : p ∈ prev) (hne : ∀ q ∈ prev, q ≠ l) :
    scalar1 (region1 prev l) p = 0 := by
  have hinit : BoxInv l (if l > 0 then ((0 : Q), (1 : Q)) else (-1, 0)) := by
    unfold BoxInv
    by_cases hpos : l > 0
    · simp only [hpos, if_true]; grind
    · simp only [hpos, if_false]; grind
  obtain ⟨hinv, hout⟩ := foldBox_inv l hl prev _ [] hne hinit (by simp)
  have ho := hout p (by simpa using hp)
  have hpl := hne p hp
  unfold region1
  simp only [beq_iff_eq, hl, if_false]
  generalize prev.foldl (splitBox l) (if l > 0 then ((0 : Q), (1 : Q)) else (-1, 0)) = box at hinv ho
  obtain ⟨lo, hi⟩ := box
  unfold BoxInv at hinv; unfold Outside at ho
  simp only at hinv ho
  unfold scalar1
  simp only [beq_iff_eq, hl, if_false]
  have c1 : (decide (lo > l) || decide (l > hi)) = false := by
    simp only [Bool.or_eq_false_iff, decide_eq_false_iff_not]; grind
  have c2 : (decide (lo < 0) && decide (hi > 0)) = false := by
    simp only [Bool.and_eq_false_iff, decide_eq_false_iff_not]; grind
  have c3 : (decide (p ≤ lo) || decide (hi ≤ p)) = true := by
    simp only [Bool.or_eq_true, decide_eq_true_eq]; exact ho
  simp [c1, c2, c3, hpl]

theorem supports1Go_length (prev ls : List Q) : (supports1Go prev ls).length = ls.length := by
  induction ls generalizing prev with
  | nil => rfl
  | cons l ls ih => simp [supports1Go, ih]

theorem supports1Go_get (prev ls : List Q) (i : Nat) (h : i < ls.length) :
    (supports1Go prev ls)[i]'(by rw [supports1Go_length]; exact h) = region1 (prev ++ ls.take i) ls[i] := by
  induction ls generalizing prev i with
  | nil => simp at h
  | cons l ls ih =>
    cases i with
    | zero => simp [supports1Go]
    | succ i =>
      simp only [supports1Go, List.getElem_cons_succ, List.take_succ_cons]
      rw [ih (prev ++ [l]) i (by simpa using h)]
      simp

/-- one axis: masters in model order = the default (0) first, the others non-zero, pairwise different, inside [-1, 1] -/
def wf1 (ls : List Q) : Prop :=
  ls.Nodup ∧ (∀ l ∈ ls.tail, l ≠ 0) ∧ ∀ l ∈ ls, -1 ≤ l ∧ l ≤ 1

instance (ls : List Q) : Decidable (wf1 ls) := by unfold wf1; infer_instance

theorem wf1_nonzero (ls : List Q) (hwf : wf1 ls) (i : Nat) (h : i < ls.length) (hi : 0 < i) : ls[i] ≠ 0 := by
  cases ls with
  | nil => simp at h
  | cons x xs =>
    cases i with
    | zero => omega
    | succ k =>
      simp only [List.getElem_cons_succ]
      exact hwf.2.1 _ (by simp)

theorem supports1_get (ls : List Q) (k : Nat) (h : k < ls.length) (h' : k < ((supports1 ls).map scalar1).length) :
    ((supports1 ls).map scalar1)[k] = scalar1 (region1 (ls.take k) ls[k]) := by
  rw [List.getElem_map]
  have := supports1Go_get [] ls k h
  simp only [List.nil_append] at this
  unfold supports1
  rw [this]

/-- master reproduction on one axis, for ANY number of masters: interpolating at master `i`'s location gives master `i`'s value -/
theorem oneAxis_law (ls : List Q) (hwf : wf1 ls) (i : Nat) (vs : List Q) (h : i < ls.length) (hv : vs.length = ls.length) :
    interpolate1 ls ls[i] vs = vs[i] := by
  unfold interpolate1
  have hlen : ((supports1 ls).map scalar1).length = ls.length := by simp [supports1, supports1Go_length]
  refine deltaModel_law _ ls hlen ?_ ?_ i vs h hv
  · intro k h1 h2
    rw [supports1_get ls k h2 h1]
    exact scalar1_self _ _
  · intro a b ha hb hab
    have hb' : b < ls.length := by rw [← hlen]; exact hb
    rw [supports1_get ls b hb' hb]
    have hz := wf1_nonzero ls hwf
    obtain ⟨hnd, _, hrange⟩ := hwf
    apply scalar1_earlier
    · exact hz b hb' (by omega)
    · exact hrange _ (List.getElem_mem hb')
    · exact List.mem_take_iff_getElem.mpr ⟨a, by omega, rfl⟩
    · intro q hq
      obtain ⟨k, hk, rfl⟩ := List.mem_take_iff_getElem.mp hq
      intro heq
      have hk' : k < b := by omega
      have := (List.getElem_inj hnd).mp heq
      omega

/-- the one-axis piecewise-linear model as a `VarModel` -/
def oneAxisModel (ls : List Q) (hwf : wf1 ls) : VarModel Q :=
  { locs := ls, interp := interpolate1 ls, law := fun i vs h hv => oneAxis_law ls hwf i vs h hv }

/-- two masters in particular: default and one other master anywhere on the axis -/
theorem twoMasters_law (l v0 v1 : Q) (hl : l ≠ 0) (hr : -1 ≤ l ∧ l ≤ 1) :
    interpolate1 [0, l] 0 [v0, v1] = v0 ∧ interpolate1 [0, l] l [v0, v1] = v1 := by
  have hwf : wf1 [0, l] := by
    refine ⟨by simp [Ne.symm hl], by simpa using hl, ?_⟩
    · intro x hx
      simp only [List.mem_cons, List.not_mem_nil, or_false] at hx
      rcases hx with rfl | rfl
      · grind
      · exact hr
  exact ⟨oneAxis_law [0, l] hwf 0 [v0, v1] (by simp) rfl, oneAxis_law [0, l] hwf 1 [v0, v1] (by simp) rfl⟩

/-- non-vacuity: four masters on one axis (default, an intermediate, the maximum, the minimum) -/
example : wf1 [0, 1/2, 1, -1] := by decide +kernel
example : interpolate1 [0, 1/2, 1, -1] (1/2) [10, 40, 20, 0] = 40 := by decide +kernel


/-! ## 2. dictionaries -/
section dict
variable {κ : Type} {ν : Type} [BEq κ] [LawfulBEq κ]

theorem alookup_aupd_self (d : List (κ × ν)) (k : κ) (f : Option ν → ν) :
    alookup k (aupd d k f) = some (f (alookup k d)) := by
  induction d with
  | nil => simp [aupd, alookup]
  | cons e d ih =>
    obtain ⟨k', v⟩ := e
    by_cases h : k' = k
    · subst h; simp [aupd, alookup]
    · have : (k' == k) = false := by simpa using h
      simp [aupd, alookup, this, ih]

theorem alookup_aupd_other (d : List (κ × ν)) (k k' : κ) (f : Option ν → ν) (h : k' ≠ k) :
    alookup k' (aupd d k f) = alookup k' d := by
  induction d with
  | nil =>
    have : (k == k') = false := by simpa using Ne.symm h
    simp [aupd, alookup, this]
  | cons e d ih =>
    obtain ⟨k0, v⟩ := e
    by_cases h0 : k0 = k
    · subst h0
      have : (k0 == k') = false := by simpa using Ne.symm h
      simp [aupd, alookup, this]
    · have h0' : (k0 == k) = false := by simpa using h0
      simp [aupd, h0', alookup, ih]

theorem keys_aupd (d : List (κ × ν)) (k : κ) (f : Option ν → ν) :
    (aupd d k f).map (·.1) = if k ∈ d.map (·.1) then d.map (·.1) else d.map (·.1) ++ [k] := by
  induction d with
  | nil => simp [aupd]
  | cons e d ih =>
    obtain ⟨k0, v⟩ := e
    by_cases h0 : k0 = k
    · subst h0; simp [aupd]
    · have h0' : (k0 == k) = false := by simpa using h0
      simp only [aupd, h0', List.map_cons, ih, List.mem_cons, Bool.false_eq_true, if_false]
      have : ¬ k = k0 := fun h => h0 h.symm
      by_cases hm : k ∈ d.map (·.1)
      · simp [hm]
      · simp [hm, this]

theorem nodup_keys_aupd (d : List (κ × ν)) (k : κ) (f : Option ν → ν) (h : (d.map (·.1)).Nodup) :
    ((aupd d k f).map (·.1)).Nodup := by
  rw [keys_aupd]
  by_cases hm : k ∈ d.map (·.1)
  · simpa [hm] using h
  · simp only [hm, if_false]
    exact List.nodup_append.mpr ⟨h, by simp, by
      intro a ha b hb
      simp only [List.mem_singleton] at hb
      subst hb
      exact fun hab => hm (hab ▸ ha)⟩

theorem alookup_some_mem (d : List (κ × ν)) (k : κ) (v : ν) (h : alookup k d = some v) : (k, v) ∈ d := by
  induction d with
  | nil => simp [alookup] at h
  | cons e d ih =>
    obtain ⟨k0, v0⟩ := e
    by_cases h0 : k0 = k
    · subst h0; simp [alookup] at h; simp [h]
    · have h0' : (k0 == k) = false := by simpa using h0
      simp only [alookup, h0', Bool.false_eq_true, if_false] at h
      exact List.mem_cons_of_mem _ (ih h)

theorem alookup_isSome_iff (d : List (κ × ν)) (k : κ) : (alookup k d).isSome ↔ k ∈ d.map (·.1) := by
  induction d with
  | nil => simp [alookup]
  | cons e d ih =>
    obtain ⟨k0, v0⟩ := e
    by_cases h0 : k0 = k
    · subst h0; simp [alookup]
    · have h0' : (k0 == k) = false := by simpa using h0
      have : ¬ k = k0 := fun h => h0 h.symm
      simp [alookup, h0', ih, this]

theorem mem_alookup_of_nodup (d : List (κ × ν)) (k : κ) (v : ν) (hn : (d.map (·.1)).Nodup) (h : (k, v) ∈ d) :
    alookup k d = some v := by
  induction d with
  | nil => simp at h
  | cons e d ih =>
    obtain ⟨k0, v0⟩ := e
    simp only [List.map_cons, List.nodup_cons] at hn
    rcases List.mem_cons.mp h with heq | hm
    · cases heq; simp [alookup]
    · have : k0 ≠ k := by
        intro h0; subst h0
        exact hn.1 (List.mem_map.mpr ⟨(k0, v), hm, rfl⟩)
      have h0' : (k0 == k) = false := by simpa using this
      simp only [alookup, h0', Bool.false_eq_true, if_false]
      exact ih hn.2 hm
end dict

/-! ## 3. collapse_varscalar -/

theorem absQ_pos_iff (x : Q) : (absQ x > 0) ↔ x ≠ 0 := by
  unfold absQ
  by_cases h : x < 0
  · simp only [h, if_true]; grind
  · simp only [h, if_false]; grind

theorem collapse_cons (l : Loc) (v0 : Q) (rest : Scalar) :
    collapse ((l, v0) :: rest) = if rest.all (fun e => e.2 == v0) then .num v0 else .var ((l, v0) :: rest) := by
  have : rest.any (fun e => decide (absQ (e.2 - v0) > 0)) = !rest.all (fun e => e.2 == v0) := by
    induction rest with
    | nil => simp
    | cons e rest ih =>
      simp only [List.any_cons, List.all_cons, ih, Bool.not_and]
      congr 1
      by_cases h : e.2 = v0
      · have : ¬ (absQ (e.2 - v0) > 0) := by rw [absQ_pos_iff]; grind
        have h1 : decide (absQ (e.2 - v0) > 0) = false := by simpa using this
        have h2 : (e.2 == v0) = true := by simpa using h
        rw [h1, h2]; rfl
      · have : absQ (e.2 - v0) > 0 := by rw [absQ_pos_iff]; grind
        have h1 : decide (absQ (e.2 - v0) > 0) = true := by simpa using this
        have h2 : (e.2 == v0) = false := by simpa using h
        rw [h1, h2]; rfl
  simp only [collapse, this]
  cases rest.all (fun e => e.2 == v0) <;> simp

/-- C10_collapse: `collapse_varscalar` returns a plain number only if EVERY entry equals it; otherwise it returns the
    scalar unchanged (and then the entries really differ). -/
theorem C10_collapse (s : Scalar) : holdsCollapse s (collapse s) = true := by
  cases s with
  | nil => simp [collapse, holdsCollapse]
  | cons e rest =>
    obtain ⟨l, v0⟩ := e
    rw [collapse_cons]
    by_cases h : rest.all (fun e => e.2 == v0) = true
    · simp [h, holdsCollapse]
    · simp [h, holdsCollapse, allEqual]

/-- collapsing never changes the value read at any location the scalar defines -/
theorem collapse_at (s : Scalar) (l : Loc) (v : Q) (h : alookup l s = some v) : (collapse s).at l = some v := by
  cases s with
  | nil => simp [alookup] at h
  | cons e rest =>
    obtain ⟨l0, v0⟩ := e
    rw [collapse_cons]
    by_cases hall : rest.all (fun e => e.2 == v0) = true
    · simp only [hall, if_true, Value.at]
      have hm := alookup_some_mem _ _ _ h
      rcases List.mem_cons.mp hm with heq | hm
      · cases heq; rfl
      · have := List.all_eq_true.mp hall _ hm
        simp only [beq_iff_eq] at this
        simp [this]
    · simp only [hall, Value.at]
      exact h

/-- a collapsed number is the value of every entry -/
theorem collapse_num (s : Scalar) (x : Q) (h : collapse s = .num x) : ∀ e ∈ s, e.2 = x := by
  have := C10_collapse s
  rw [h] at this
  simp only [holdsCollapse, Bool.and_eq_true, List.all_eq_true, beq_iff_eq] at this
  exact this.2

example : collapse [([("wght", 400)], -30), ([("wght", 700)], -30)] = .num (-30) := by decide +kernel
example : collapse [([("wght", 400)], -30), ([("wght", 700)], -10)] = .var [([("wght", 400)], -30), ([("wght", 700)], -10)] := by
  decide +kernel

/-! ## 4. the table of variable kerning pairs as a sequence of writes -/

def tget (t : Table) (k : Key) (l : Loc) : Option Q := (alookup k t).bind (alookup l)

abbrev Write := Key × Loc × Q
def applyWrites (t : Table) (ws : List Write) : Table := ws.foldl (fun t w => tset t w.1 w.2.1 w.2.2) t

theorem tget_tset_self (t : Table) (k : Key) (l : Loc) (v : Q) : tget (tset t k l v) k l = some v := by
  simp [tget, tset, sset, alookup_aupd_self]

theorem tget_tset_other (t : Table) (k k' : Key) (l l' : Loc) (v : Q) (h : ¬(k' = k ∧ l' = l)) :
    tget (tset t k l v) k' l' = tget t k' l' := by
  by_cases hk : k' = k
  · subst hk
    have hl : l' ≠ l := fun hl => h ⟨rfl, hl⟩
    simp only [tget, tset, alookup_aupd_self, Option.bind_some, sset]
    rw [alookup_aupd_other _ _ _ _ hl]
    cases alookup k' t <;> simp [alookup]
  · simp [tget, tset, alookup_aupd_other _ _ _ _ hk]

theorem applyWrites_cons (t : Table) (w : Write) (ws : List Write) :
    applyWrites t (w :: ws) = applyWrites (tset t w.1 w.2.1 w.2.2) ws := rfl

theorem applyWrites_append (t : Table) (a b : List Write) : applyWrites t (a ++ b) = applyWrites (applyWrites t a) b := by
  simp [applyWrites, List.foldl_append]

/-- every stored value was written (or was there before) -/
theorem applyWrites_sound (t : Table) (ws : List Write) (k : Key) (l : Loc) (v : Q)
    (h : tget (applyWrites t ws) k l = some v) : (k, l, v) ∈ ws ∨ tget t k l = some v := by
  induction ws generalizing t with
  | nil => exact Or.inr h
  | cons w ws ih =>
    rw [applyWrites_cons] at h
    rcases ih _ h with hm | ht
    · exact Or.inl (List.mem_cons_of_mem _ hm)
    · by_cases hw : k = w.1 ∧ l = w.2.1
      · obtain ⟨h1, h2⟩ := hw
        subst h1 h2
        rw [tget_tset_self] at ht
        cases ht
        exact Or.inl (by simp)
      · rw [tget_tset_other _ _ _ _ _ _ hw] at ht
        exact Or.inr ht

/-- every written cell is defined afterwards -/
theorem applyWrites_defined (t : Table) (ws : List Write) (k : Key) (l : Loc)
    (h : (∃ v, (k, l, v) ∈ ws) ∨ (tget t k l).isSome) : (tget (applyWrites t ws) k l).isSome := by
  induction ws generalizing t with
  | nil =>
    rcases h with ⟨v, hv⟩ | h
    · simp at hv
    · exact h
  | cons w ws ih =>
    rw [applyWrites_cons]
    apply ih
    by_cases hw : k = w.1 ∧ l = w.2.1
    · right
      obtain ⟨h1, h2⟩ := hw
      subst h1 h2
      simp [tget_tset_self]
    · rcases h with ⟨v, hv⟩ | h
      · rcases List.mem_cons.mp hv with heq | hm
        · exact absurd ⟨by rw [← heq], by rw [← heq]⟩ hw
        · exact Or.inl ⟨v, hm⟩
      · right; rw [tget_tset_other _ _ _ _ _ _ hw]; exact h

theorem applyWrites_keys (t : Table) (ws : List Write) (k : Key) :
    k ∈ (applyWrites t ws).map (·.1) ↔ k ∈ t.map (·.1) ∨ ∃ w ∈ ws, w.1 = k := by
  induction ws generalizing t with
  | nil => simp [applyWrites]
  | cons w ws ih =>
    rw [applyWrites_cons, ih]
    simp only [tset, keys_aupd]
    by_cases hm : w.1 ∈ t.map (·.1)
    · simp only [hm, if_true, List.mem_cons, exists_eq_or_imp]
      constructor
      · rintro (h | h)
        · exact Or.inl h
        · exact Or.inr (Or.inr h)
      · rintro (h | h | h)
        · exact Or.inl h
        · exact Or.inl (h ▸ hm)
        · exact Or.inr h
    · simp only [hm, if_false, List.mem_append, List.mem_cons, List.not_mem_nil, or_false, exists_eq_or_imp]
      constructor
      · rintro ((h | h) | h)
        · exact Or.inl h
        · exact Or.inr (Or.inl h.symm)
        · exact Or.inr (Or.inr h)
      · rintro (h | h | h)
        · exact Or.inl (Or.inl h)
        · exact Or.inl (Or.inr h.symm)
        · exact Or.inr h

theorem applyWrites_nodup (t : Table) (ws : List Write) (h : (t.map (·.1)).Nodup) : ((applyWrites t ws).map (·.1)).Nodup := by
  induction ws generalizing t with
  | nil => exact h
  | cons w ws ih =>
    rw [applyWrites_cons]
    exact ih _ (nodup_keys_aupd _ _ _ h)

theorem foldl_if_filter {α β : Type} (c : α → Bool) (g : β → α → β) (l : List α) (b : β) :
    l.foldl (fun b a => if !c a then b else g b a) b = (l.filter c).foldl g b := by
  induction l generalizing b with
  | nil => rfl
  | cons a l ih =>
    simp only [List.foldl_cons, List.filter_cons]
    cases h : c a
    · simp only [Bool.not_false, if_true, Bool.false_eq_true, if_false]; exact ih b
    · simp only [Bool.not_true, Bool.false_eq_true, if_false, if_true, List.foldl_cons]; exact ih _

/-- the value a full source contributes for a key -/
def qv (cx : KCtx) (s : Source) (p : String × String) : Q := quantize (lookupKV cx s.kerning p) cx.q

def srcWrites (cx : KCtx) (pairs : List (String × String)) (s : Source) : List Write :=
  (pairs.filter (validPair cx)).map (fun p => (substKey cx p, s.loc, qv cx s p))

theorem vkSource_eq (cx : KCtx) (pairs : List (String × String)) (t : Table) (s : Source) :
    vkSource cx pairs t s = applyWrites t (srcWrites cx pairs s) := by
  unfold vkSource srcWrites applyWrites
  rw [foldl_if_filter (validPair cx) (fun t p => tset t (substKey cx p) s.loc (quantize (lookupKV cx s.kerning p) cx.q))]
  rw [List.foldl_map]
  rfl

theorem vkTable_eq (cx : KCtx) (pairs : List (String × String)) (srcs : List Source) :
    vkTable cx pairs srcs = applyWrites [] ((fullSources srcs).flatMap (srcWrites cx pairs)) := by
  unfold vkTable fullSources
  generalize srcs.filter (fun s => !s.sparse) = full
  generalize ([] : Table) = t
  induction full generalizing t with
  | nil => rfl
  | cons s full ih =>
    simp only [List.foldl_cons, List.flatMap_cons, applyWrites_append, vkSource_eq, ih]

section dict2
variable {κ : Type} {ν : Type} {μ : Type} [BEq κ] [LawfulBEq κ]

theorem alookup_none_of_not_mem (d : List (κ × ν)) (k : κ) (h : k ∉ d.map (·.1)) : alookup k d = none := by
  induction d with
  | nil => rfl
  | cons e d ih =>
    obtain ⟨k0, v0⟩ := e
    simp only [List.map_cons, List.mem_cons, not_or] at h
    have h0' : (k0 == k) = false := by simpa using fun h' => h.1 h'.symm
    simp [alookup, h0', ih h.2]

/-- lookups through a key-preserving `filterMap` -/
theorem alookup_filterMap (t : List (κ × ν)) (h : κ → ν → Option μ) (k : κ) (hn : (t.map (·.1)).Nodup) :
    alookup k (t.filterMap (fun e => (h e.1 e.2).map (fun v => (e.1, v)))) = (alookup k t).bind (h k) := by
  induction t with
  | nil => rfl
  | cons e t ih =>
    obtain ⟨k0, sc0⟩ := e
    simp only [List.map_cons, List.nodup_cons] at hn
    by_cases h0 : k0 = k
    · subst h0
      simp only [List.filterMap_cons, alookup, beq_self_eq_true, if_true, Option.bind_some]
      cases hh : h k0 sc0 with
      | none =>
        simp only [Option.map_none]
        rw [ih hn.2, alookup_none_of_not_mem _ _ hn.1]
        rfl
      | some v => simp [alookup]
    · have h0' : (k0 == k) = false := by simpa using h0
      simp only [List.filterMap_cons, alookup, h0', Bool.false_eq_true, if_false]
      cases hh : h k0 sc0 with
      | none => simpa using ih hn.2
      | some v => simpa [alookup, h0'] using ih hn.2

omit [BEq κ] [LawfulBEq κ] in
theorem mem_filterMap_keyed (t : List (κ × ν)) (h : κ → ν → Option μ) (e : κ × μ)
    (he : e ∈ t.filterMap (fun e => (h e.1 e.2).map (fun v => (e.1, v)))) : ∃ sc, (e.1, sc) ∈ t ∧ h e.1 sc = some e.2 := by
  obtain ⟨a, ha, hm⟩ := List.mem_filterMap.mp he
  cases hh : h a.1 a.2 with
  | none => simp [hh] at hm
  | some v =>
    simp only [hh, Option.map_some, Option.some.injEq] at hm
    subst hm
    exact ⟨a.2, ha, hh⟩

omit [BEq κ] [LawfulBEq κ] in
theorem keys_filterMap_sublist (t : List (κ × ν)) (h : κ → ν → Option μ) :
    ((t.filterMap (fun e => (h e.1 e.2).map (fun v => (e.1, v)))).map (·.1)).Sublist (t.map (·.1)) := by
  induction t with
  | nil => simp
  | cons e t ih =>
    simp only [List.filterMap_cons, List.map_cons]
    cases hh : h e.1 e.2 with
    | none => simpa using ih.cons e.1
    | some v => simpa using ih.cons_cons e.1
end dict2

/-! ### dedupFirst (Basic) -/
theorem mem_dedupAux {α} [BEq α] [LawfulBEq α] {l seen : List α} {a : α} : a ∈ dedupAux l seen ↔ a ∈ l ∧ a ∉ seen := by
  induction l generalizing seen with
  | nil => simp [dedupAux]
  | cons b l ih =>
    simp only [dedupAux]
    split
    · rename_i h
      have hb : b ∈ seen := by simpa using h
      rw [ih]
      constructor
      · rintro ⟨h1, h2⟩; exact ⟨by simp [h1], h2⟩
      · rintro ⟨h1, h2⟩
        rcases List.mem_cons.mp h1 with rfl | h1
        · exact absurd hb h2
        · exact ⟨h1, h2⟩
    · rename_i h
      have hb : b ∉ seen := by simpa using h
      simp only [List.mem_cons, ih]
      constructor
      · rintro (rfl | ⟨h1, h2⟩)
        · exact ⟨Or.inl rfl, hb⟩
        · exact ⟨Or.inr h1, fun h => h2 (Or.inr h)⟩
      · rintro ⟨h1 | h1, h2⟩
        · exact Or.inl h1
        · by_cases e : a = b
          · exact Or.inl e
          · exact Or.inr ⟨h1, fun h => by rcases h with h | h; exact e h; exact h2 h⟩

theorem nodup_dedupAux {α} [BEq α] [LawfulBEq α] (l seen : List α) : (dedupAux l seen).Nodup := by
  induction l generalizing seen with
  | nil => simp [dedupAux]
  | cons b l ih =>
    simp only [dedupAux]
    split
    · exact ih seen
    · rw [List.nodup_cons]
      refine ⟨?_, ih _⟩
      rw [mem_dedupAux]; simp

theorem mem_dedupFirst {α} [BEq α] [LawfulBEq α] {l : List α} {a : α} : a ∈ dedupFirst l ↔ a ∈ l := by
  simp [dedupFirst, mem_dedupAux]

theorem nodup_dedupFirst {α} [BEq α] [LawfulBEq α] (l : List α) : (dedupFirst l).Nodup := nodup_dedupAux l []

/-! ## 5. lookupKerningValue -/

@[simp] theorem kget_none_left (K : List (String × String × Q)) (b : Option String) : kget K none b = none := by
  cases b <;> rfl
@[simp] theorem kget_none_right (K : List (String × String × Q)) (a : Option String) : kget K a none = none := by
  cases a <;> rfl

/-- first candidate key (in order) that the kerning dict has, else 0 -/
def firstHit (K : List (String × String × Q)) (cands : List (Option String × Option String)) : Q :=
  ((cands.filterMap (fun c => kget K c.1 c.2)).head?).getD 0

theorem firstHit_cons (K : List (String × String × Q)) (c : Option String × Option String) (cs) :
    firstHit K (c :: cs) = match kget K c.1 c.2 with | some v => v | none => firstHit K cs := by
  unfold firstHit
  cases h : kget K c.1 c.2 <;> simp [h]

theorem firstHit_single (K : List (String × String × Q)) (c : Option String × Option String) :
    firstHit K [c] = (kget K c.1 c.2).getD 0 := by
  unfold firstHit
  cases h : kget K c.1 c.2 <;> simp [h]

theorem firstHit_nil (K : List (String × String × Q)) : firstHit K [] = 0 := rfl

theorem lookupKV_firstHit (cx : KCtx) (K : List (String × String × Q)) (p : String × String) :
    lookupKV cx K p =
      let first := if p.1.startsWith SIDE1_PREFIX then none else some p.1
      let firstGroup := if p.1.startsWith SIDE1_PREFIX then some p.1 else glyphToGroup cx.side1Classes p.1
      let second := if p.2.startsWith SIDE2_PREFIX then none else some p.2
      let secondGroup := if p.2.startsWith SIDE2_PREFIX then some p.2 else glyphToGroup cx.side2Classes p.2
      firstHit K [(some p.1, some p.2), (first, second), (first, secondGroup), (firstGroup, second), (firstGroup, secondGroup)] := by
  unfold lookupKV
  simp only []
  rw [firstHit_cons, firstHit_cons, firstHit_cons, firstHit_cons, firstHit_single]
  cases p.1.startsWith SIDE1_PREFIX <;> cases p.2.startsWith SIDE2_PREFIX <;> simp only [Bool.false_eq_true, if_false, if_true] <;>
    cases kget K (some p.1) (some p.2) <;> rfl

theorem keyValue_firstHit (cx : KCtx) (K : List (String × String × Q)) (p : String × String) :
    keyValue cx K p =
      let firsts : List String := if p.1.startsWith SIDE1_PREFIX then [p.1] else p.1 :: (glyphToGroup cx.side1Classes p.1).toList
      let seconds : List String := if p.2.startsWith SIDE2_PREFIX then [p.2] else p.2 :: (glyphToGroup cx.side2Classes p.2).toList
      firstHit K ((firsts.flatMap (fun f => seconds.map (fun s => (f, s)))).map (fun c => (some c.1, some c.2))) := by
  unfold keyValue firstHit
  simp only [List.filterMap_map]
  rfl

/-- the modelled `lookupKerningValue` computes the declarative UFO value of a key -/
theorem lookupKV_eq_keyValue (cx : KCtx) (K : List (String × String × Q)) (p : String × String) :
    lookupKV cx K p = keyValue cx K p := by
  rw [lookupKV_firstHit, keyValue_firstHit]
  cases p.1.startsWith SIDE1_PREFIX <;> cases p.2.startsWith SIDE2_PREFIX <;>
    cases glyphToGroup cx.side1Classes p.1 <;> cases glyphToGroup cx.side2Classes p.2 <;>
    simp only [Bool.false_eq_true, if_false, if_true, Option.toList, List.flatMap_cons, List.flatMap_nil, List.map_cons, List.map_nil,
      List.append_nil, List.cons_append, List.nil_append, firstHit_cons, firstHit_nil, kget_none_left, kget_none_right] <;>
    cases kget K (some p.1) (some p.2) <;> simp only <;>
    (repeat (first | rfl | (split <;> try rfl)))


/-! ## 6. getVariableKerningPairs -/

/-- per-entry step of the final loop of `getVariableKerningPairs` -/
def fin (dl : Loc) (k : Key) (sc : Scalar) : Option Value :=
  let sc' := if (alookup dl sc).isSome then sc else sset sc dl 0
  let v := collapse sc'
  if k.1.isClass && k.2.isClass && v == .num 0 then none else some v

theorem vkFinish_eq (dl : Loc) (t : Table) :
    vkFinish dl t = t.filterMap (fun e => (fin dl e.1 e.2).map (fun v => (e.1, v))) := by
  unfold vkFinish fin
  congr 1
  funext e
  simp only []
  split <;> (split <;> simp_all)

theorem wantKern_eq_qv (cx : KCtx) (s : Source) (p : String × String) : wantKern cx s p = qv cx s p := by
  unfold wantKern qv
  rw [lookupKV_eq_keyValue]

theorem allPairs_eq (srcs : List Source) : allPairs srcs = dedupFirst (unionKeys srcs) := rfl

theorem inj_of_nodup_map {α β : Type} (f : α → β) (l : List α) (h : (l.map f).Nodup) (a b : α) (ha : a ∈ l) (hb : b ∈ l)
    (hab : f a = f b) : a = b := by
  induction l with
  | nil => simp at ha
  | cons x l ih =>
    simp only [List.map_cons, List.nodup_cons, List.mem_map, not_exists, not_and] at h
    rcases List.mem_cons.mp ha with rfl | ha' <;> rcases List.mem_cons.mp hb with rfl | hb'
    · rfl
    · exact absurd hab.symm (h.1 b hb')
    · exact absurd hab (h.1 a ha')
    · exact ih h.2 ha' hb'

structure KWf (cx : KCtx) (srcs : List Source) (dl : Loc) : Prop where
  locs : ((fullSources srcs).map (·.loc)).Nodup
  dflt : ∃ s ∈ fullSources srcs, s.loc = dl
  inj : ∀ p p', p ∈ unionKeys srcs → validPair cx p = true → p' ∈ unionKeys srcs → validPair cx p' = true →
          substKey cx p = substKey cx p' → p = p'

theorem KWf_of_wfKern (cx : KCtx) (srcs : List Source) (dl : Loc) (h : wfKern cx srcs dl = true) : KWf cx srcs dl := by
  unfold wfKern at h
  simp only [Bool.and_eq_true, decide_eq_true_eq, List.any_eq_true, beq_iff_eq] at h
  obtain ⟨⟨h1, h2⟩, h3⟩ := h
  refine ⟨h1, h2, ?_⟩
  intro p p' hp hv hp' hv' heq
  exact inj_of_nodup_map _ _ h3 p p' (mem_dedupFirst.mpr (List.mem_filter.mpr ⟨hp, hv⟩))
    (mem_dedupFirst.mpr (List.mem_filter.mpr ⟨hp', hv'⟩)) heq

/-- usable keys -/
def vps (cx : KCtx) (srcs : List Source) : List (String × String) := (allPairs srcs).filter (validPair cx)

theorem mem_vps (cx : KCtx) (srcs : List Source) (p : String × String) :
    p ∈ vps cx srcs ↔ p ∈ unionKeys srcs ∧ validPair cx p = true := by
  simp [vps, allPairs_eq, mem_dedupFirst]

def allWrites (cx : KCtx) (srcs : List Source) : List Write := (fullSources srcs).flatMap (srcWrites cx (allPairs srcs))

theorem mem_allWrites (cx : KCtx) (srcs : List Source) (w : Write) :
    w ∈ allWrites cx srcs ↔ ∃ s ∈ fullSources srcs, ∃ p ∈ vps cx srcs, w = (substKey cx p, s.loc, qv cx s p) := by
  simp only [allWrites, List.mem_flatMap, srcWrites, List.mem_map, vps]
  constructor
  · rintro ⟨s, hs, p, hp, rfl⟩; exact ⟨s, hs, p, hp, rfl⟩
  · rintro ⟨s, hs, p, hp, rfl⟩; exact ⟨s, hs, p, hp, rfl⟩

theorem vkTable_writes (cx : KCtx) (srcs : List Source) :
    vkTable cx (allPairs srcs) srcs = applyWrites [] (allWrites cx srcs) := vkTable_eq cx (allPairs srcs) srcs

/-- F1: the cell (key of `p`, location of the full source `s`) holds exactly `s`'s quantised UFO value of `p` -/
theorem cell_value (cx : KCtx) (srcs : List Source) (dl : Loc) (hwf : KWf cx srcs dl)
    (p : String × String) (hp : p ∈ vps cx srcs) (s : Source) (hs : s ∈ fullSources srcs) :
    tget (vkTable cx (allPairs srcs) srcs) (substKey cx p) s.loc = some (qv cx s p) := by
  rw [vkTable_writes]
  have hdef := applyWrites_defined [] (allWrites cx srcs) (substKey cx p) s.loc
    (Or.inl ⟨qv cx s p, (mem_allWrites cx srcs _).mpr ⟨s, hs, p, hp, rfl⟩⟩)
  obtain ⟨v, hv⟩ := Option.isSome_iff_exists.mp hdef
  rcases applyWrites_sound [] _ _ _ _ hv with hm | h0
  · obtain ⟨s', hs', p', hp', heq⟩ := (mem_allWrites cx srcs _).mp hm
    simp only [Prod.mk.injEq] at heq
    obtain ⟨hk, hl, hvq⟩ := heq
    have hpp : p = p' := hwf.inj p p' ((mem_vps cx srcs p).mp hp).1 ((mem_vps cx srcs p).mp hp).2
      ((mem_vps cx srcs p').mp hp').1 ((mem_vps cx srcs p').mp hp').2 hk
    have hss : s = s' := inj_of_nodup_map (·.loc) _ hwf.locs s s' hs hs' hl
    subst hpp hss
    rw [hv, hvq]
  · simp [tget, alookup] at h0

/-- F2: the keys of the table are exactly the substituted usable keys -/
theorem table_keys (cx : KCtx) (srcs : List Source) (k : Key) :
    k ∈ (vkTable cx (allPairs srcs) srcs).map (·.1) ↔ ∃ p ∈ vps cx srcs, substKey cx p = k := by
  rw [vkTable_writes, applyWrites_keys]
  simp only [List.map_nil, List.not_mem_nil, false_or]
  constructor
  · rintro ⟨w, hw, rfl⟩
    obtain ⟨s, hs, p, hp, rfl⟩ := (mem_allWrites cx srcs _).mp hw
    exact ⟨p, hp, rfl⟩
  · rintro ⟨p, hp, rfl⟩
    -- some full source has the pair, so there is at least one full source
    have hu := ((mem_vps cx srcs p).mp hp).1
    simp only [unionKeys, List.mem_flatMap] at hu
    obtain ⟨s, hs, _⟩ := hu
    exact ⟨_, (mem_allWrites cx srcs _).mpr ⟨s, hs, p, hp, rfl⟩, rfl⟩

theorem table_nodup (cx : KCtx) (srcs : List Source) : ((vkTable cx (allPairs srcs) srcs).map (·.1)).Nodup := by
  rw [vkTable_writes]; exact applyWrites_nodup [] _ (by simp)

/-- F3: every location in a scalar of the table is a full source's location (sparse sources contribute nothing) -/
theorem table_locs (cx : KCtx) (srcs : List Source) (k : Key) (sc : Scalar) (le : Loc × Q)
    (hk : alookup k (vkTable cx (allPairs srcs) srcs) = some sc) (hle : le ∈ sc) : ∃ s ∈ fullSources srcs, s.loc = le.1 := by
  have h1 : (alookup le.1 sc).isSome := (alookup_isSome_iff sc le.1).mpr (List.mem_map.mpr ⟨le, hle, rfl⟩)
  obtain ⟨v, hv⟩ := Option.isSome_iff_exists.mp h1
  have ht : tget (vkTable cx (allPairs srcs) srcs) k le.1 = some v := by simp [tget, hk, hv]
  rw [vkTable_writes] at ht
  rcases applyWrites_sound [] _ _ _ _ ht with hm | h0
  · obtain ⟨s, hs, p, hp, heq⟩ := (mem_allWrites cx srcs _).mp hm
    simp only [Prod.mk.injEq] at heq
    exact ⟨s, hs, heq.2.1.symm⟩
  · simp [tget, alookup] at h0

/-- the scalar stored for a usable key, with its cells -/
theorem table_entry (cx : KCtx) (srcs : List Source) (dl : Loc) (hwf : KWf cx srcs dl) (p : String × String) (hp : p ∈ vps cx srcs) :
    ∃ sc, alookup (substKey cx p) (vkTable cx (allPairs srcs) srcs) = some sc ∧
      (∀ s ∈ fullSources srcs, alookup s.loc sc = some (qv cx s p)) ∧ (alookup dl sc).isSome := by
  have hk : (alookup (substKey cx p) (vkTable cx (allPairs srcs) srcs)).isSome :=
    (alookup_isSome_iff _ _).mpr ((table_keys cx srcs _).mpr ⟨p, hp, rfl⟩)
  obtain ⟨sc, hsc⟩ := Option.isSome_iff_exists.mp hk
  have hcells : ∀ s ∈ fullSources srcs, alookup s.loc sc = some (qv cx s p) := by
    intro s hs
    have := cell_value cx srcs dl hwf p hp s hs
    simpa [tget, hsc] using this
  refine ⟨sc, hsc, hcells, ?_⟩
  obtain ⟨s0, hs0, hl0⟩ := hwf.dflt
  rw [← hl0, hcells s0 hs0]; rfl

/-- on well-formed input the "insert 0 at the default location" branch is dead: every scalar already has the default location -/
theorem fin_no_fill (dl : Loc) (k : Key) (sc : Scalar) (h : (alookup dl sc).isSome) :
    fin dl k sc = if k.1.isClass && k.2.isClass && collapse sc == .num 0 then none else some (collapse sc) := by
  unfold fin; simp [h]

/-- **C10_kern.**  `getVariableKerningPairs` gives every usable key of the union of the full sources' kerning a value which, at EACH
    FULL SOURCE'S LOCATION, is `quantize q` of that source's own UFO value for the key (exception fallback — not 0, not an
    interpolation); it emits nothing else, nothing from sparse sources, no key twice, and omits only class-class keys that are 0 in
    every source. -/
theorem C10_kern (cx : KCtx) (srcs : List Source) (dl : Loc) (h : wfKern cx srcs dl = true) :
    holdsKern cx srcs dl (getVariableKerningPairs cx srcs dl) = true := by
  have hwf := KWf_of_wfKern cx srcs dl h
  unfold holdsKern getVariableKerningPairs
  rw [vkFinish_eq]
  simp only [Bool.and_eq_true, List.all_eq_true, decide_eq_true_eq]
  refine ⟨⟨?_, ?_⟩, ?_⟩
  · -- (1) every usable key, at every full source's location
    intro p hp
    have hp' : p ∈ vps cx srcs := (mem_vps cx srcs p).mpr (by simpa using hp)
    obtain ⟨sc, hsc, hcells, hdl⟩ := table_entry cx srcs dl hwf p hp'
    rw [alookup_filterMap _ (fin dl) _ (table_nodup cx srcs), hsc, Option.bind_some, fin_no_fill dl _ sc hdl]
    by_cases hdrop : ((substKey cx p).1.isClass && (substKey cx p).2.isClass && collapse sc == .num 0) = true
    · simp only [hdrop, if_true]
      simp only [Bool.and_eq_true, beq_iff_eq] at hdrop
      simp only [hdrop.1.1, hdrop.1.2, Bool.and_true, Bool.true_and, List.all_eq_true, beq_iff_eq]
      intro s hs
      rw [wantKern_eq_qv]
      exact collapse_num sc 0 hdrop.2 _ (alookup_some_mem _ _ _ (hcells s hs))
    · simp only [hdrop, Bool.false_eq_true, if_false, List.all_eq_true, beq_iff_eq]
      intro s hs
      rw [wantKern_eq_qv]
      exact collapse_at sc s.loc _ (hcells s hs)
  · -- (2) nothing else
    intro e he
    obtain ⟨sc, hmem, hfin⟩ := mem_filterMap_keyed _ (fin dl) e he
    have hkey : e.1 ∈ (vkTable cx (allPairs srcs) srcs).map (·.1) := List.mem_map.mpr ⟨_, hmem, rfl⟩
    obtain ⟨p, hp, hpk⟩ := (table_keys cx srcs e.1).mp hkey
    have hlook : alookup e.1 (vkTable cx (allPairs srcs) srcs) = some sc := mem_alookup_of_nodup _ _ _ (table_nodup cx srcs) hmem
    obtain ⟨sc', hsc', _, hdl⟩ := table_entry cx srcs dl hwf p hp
    rw [hpk, hlook] at hsc'
    cases hsc'
    refine ⟨List.any_eq_true.mpr ⟨p, by simpa using (mem_vps cx srcs p).mp hp, by simpa using hpk⟩, ?_⟩
    rw [fin_no_fill dl _ sc hdl] at hfin
    split at hfin
    · cases hfin
    · simp only [Option.some.injEq] at hfin
      cases hv : e.2 with
      | num x => rfl
      | var s =>
        rw [hv] at hfin
        have hc := C10_collapse sc
        rw [hfin] at hc
        simp only [holdsCollapse, Bool.and_eq_true, beq_iff_eq, Bool.or_eq_true] at hc
        obtain ⟨hs, hne⟩ := hc
        subst hs
        simp only [Bool.and_eq_true, List.all_eq_true, Bool.or_eq_true, List.any_eq_true, beq_iff_eq]
        refine ⟨fun le hle => ?_, ?_⟩
        · obtain ⟨src, hsrc, hl⟩ := table_locs cx srcs e.1 s le hlook hle
          exact Or.inl ⟨src, hsrc, hl⟩
        · rcases hne with hemp | hne
          · cases s with
            | nil => simp [alookup] at hdl
            | cons a s => simp at hemp
          · exact hne
  · -- (3) no key twice
    exact (table_nodup cx srcs).sublist (keys_filterMap_sublist _ (fin dl))


/-! ## 7. master reproduction of kerning: per key, and per glyph pair -/
set_option linter.unusedSimpArgs false

/-- reading (1) of the contract off `holdsKern` -/
theorem holdsKern_at (cx : KCtx) (srcs : List Source) (dl : Loc) (out : List (Key × Value)) (h : holdsKern cx srcs dl out = true)
    (p : String × String) (hp : p ∈ unionKeys srcs) (hv : validPair cx p = true) (s : Source) (hs : s ∈ fullSources srcs) :
    match alookup (substKey cx p) out with
    | some v => v.at s.loc = some (wantKern cx s p)
    | none => wantKern cx s p = 0 := by
  unfold holdsKern at h
  simp only [Bool.and_eq_true, List.all_eq_true, decide_eq_true_eq] at h
  have h1 := h.1.1 p (List.mem_filter.mpr ⟨hp, hv⟩)
  cases ho : alookup (substKey cx p) out with
  | none =>
    simp only [ho, Bool.and_eq_true, List.all_eq_true, beq_iff_eq] at h1
    exact h1.2 s hs
  | some v =>
    simp only [ho, List.all_eq_true, beq_iff_eq] at h1
    exact h1 s hs

theorem alookup_index {κ ν : Type} [BEq κ] [LawfulBEq κ] (d : List (κ × ν)) (k : κ) (v : ν) (h : alookup k d = some v) :
    ∃ (i : Nat) (hi : i < d.length), (d.map (·.1))[i]'(by simpa using hi) = k ∧ (d.map (·.2))[i]'(by simpa using hi) = v := by
  have hm := alookup_some_mem d k v h
  obtain ⟨i, hi, he⟩ := List.mem_iff_getElem.mp hm
  exact ⟨i, hi, by simp [he], by simp [he]⟩

/-- **C10_kern_reproduced.**  Whatever variation model the font builder uses, if it has the master-reproduction law then the emitted
    value of a usable key, interpolated at a full source's location, is that source's own quantised UFO kerning value for the key. -/
theorem C10_kern_reproduced (cx : KCtx) (srcs : List Source) (dl : Loc) (h : wfKern cx srcs dl = true)
    (p : String × String) (hp : p ∈ unionKeys srcs) (hv : validPair cx p = true) (s : Source) (hs : s ∈ fullSources srcs) :
    match alookup (substKey cx p) (getVariableKerningPairs cx srcs dl) with
    | some (.num x) => x = wantKern cx s p
    | some (.var sc) => ∀ M : VarModel Loc, M.locs = sc.map (·.1) → M.interp s.loc (sc.map (·.2)) = wantKern cx s p
    | none => wantKern cx s p = 0 := by
  have hk := holdsKern_at cx srcs dl _ (C10_kern cx srcs dl h) p hp hv s hs
  cases ho : alookup (substKey cx p) (getVariableKerningPairs cx srcs dl) with
  | none => simpa [ho] using hk
  | some v =>
    rw [ho] at hk
    cases v with
    | num x => simpa [Value.at] using hk
    | var sc =>
      simp only [Value.at] at hk
      intro M hM
      obtain ⟨i, hi, h1, h2⟩ := alookup_index sc s.loc _ hk
      have hlaw := M.law i (sc.map (·.2)) (by rw [hM]; simpa using hi) (by rw [hM]; simp)
      have hloc : M.locs[i]'(by rw [hM]; simpa using hi) = s.loc := by simp only [hM]; exact h1
      rw [hloc] at hlaw
      rw [hlaw]; exact h2

theorem fh_cons (K : List (String × String × Q)) (a b : Option String) (cs) :
    firstHit K ((a, b) :: cs) = match kget K a b with | some v => v | none => firstHit K cs := firstHit_cons K (a, b) cs

theorem ufoKern'_firstHit (G1 G2 : Option String) (K : List (String × String × Q)) (g1 g2 : String) :
    ufoKern' G1 G2 K g1 g2 = firstHit K [(some g1, some g2), (some g1, G2), (G1, some g2), (G1, G2)] := by
  unfold ufoKern'
  simp only [fh_cons, firstHit_nil]
  cases kget K (some g1) (some g2) <;> cases kget K (some g1) G2 <;> cases kget K G1 (some g2) <;> cases kget K G1 G2 <;> rfl

/-- the per-key UFO value of the most specific covering key equals the UFO value of the glyph pair, unless the diamond occurs -/
theorem chain_value (cx : KCtx) (K : List (String × String × Q)) (U : List (String × String)) (g1 g2 : String)
    (hU : ∀ a b, U.contains (a, b) = false → kget K (some a) (some b) = none)
    (hb1 : g1.startsWith SIDE1_PREFIX = false) (hb2 : g2.startsWith SIDE2_PREFIX = false)
    (hG1 : ∀ n, glyphToGroup cx.side1Classes g1 = some n → n.startsWith SIDE1_PREFIX = true)
    (hG2 : ∀ n, glyphToGroup cx.side2Classes g2 = some n → n.startsWith SIDE2_PREFIX = true)
    (hnd : ∀ n1 n2, glyphToGroup cx.side1Classes g1 = some n1 → glyphToGroup cx.side2Classes g2 = some n2 →
      ¬(U.contains (g1, g2) = false ∧ U.contains (g1, n2) = true ∧ kget K (some g1) (some n2) = none ∧
        (kget K (some n1) (some g2)).isSome = true)) :
    (match firstKey U g1 g2 (glyphToGroup cx.side1Classes g1) (glyphToGroup cx.side2Classes g2) with
     | some k => lookupKV cx K k
     | none => 0) = ufoKern' (glyphToGroup cx.side1Classes g1) (glyphToGroup cx.side2Classes g2) K g1 g2 := by
  rw [ufoKern'_firstHit]
  unfold firstKey chain
  cases hg1 : glyphToGroup cx.side1Classes g1 with
  | none =>
    cases hg2 : glyphToGroup cx.side2Classes g2 with
    | none =>
      simp only [Option.toList, List.map_nil, List.flatMap_nil, List.append_nil, List.find?_cons, List.find?_nil]
      cases hc : U.contains (g1, g2)
      · simp only [fh_cons, firstHit_nil, hU g1 g2 hc, kget_none_left, kget_none_right]
      · simp only [lookupKV_firstHit, hb1, hb2, hg1, hg2, Bool.false_eq_true, if_false, fh_cons, firstHit_nil,
          kget_none_left, kget_none_right]
        cases kget K (some g1) (some g2) <;> rfl
    | some n2 =>
      have hp2 := hG2 n2 hg2
      simp only [Option.toList, List.map_nil, List.map_cons, List.flatMap_nil, List.append_nil, List.nil_append,
        List.cons_append, List.find?_cons, List.find?_nil]
      cases hc : U.contains (g1, g2)
      · cases hc2 : U.contains (g1, n2)
        · simp only [fh_cons, firstHit_nil, hU g1 g2 hc, hU g1 n2 hc2, kget_none_left, kget_none_right]
        · simp only [lookupKV_firstHit, hb1, hp2, hg1, hg2, Bool.false_eq_true, if_false, if_true, fh_cons, firstHit_nil,
            hU g1 g2 hc, kget_none_left, kget_none_right]
          cases kget K (some g1) (some n2) <;> rfl
      · simp only [lookupKV_firstHit, hb1, hb2, hg1, hg2, Bool.false_eq_true, if_false, fh_cons, firstHit_nil,
          kget_none_left, kget_none_right]
        cases kget K (some g1) (some g2) <;> cases kget K (some g1) (some n2) <;> rfl
  | some n1 =>
    have hp1 := hG1 n1 hg1
    cases hg2 : glyphToGroup cx.side2Classes g2 with
    | none =>
      simp only [Option.toList, List.map_nil, List.map_cons, List.flatMap_nil, List.flatMap_cons, List.append_nil, List.nil_append,
        List.cons_append, List.find?_cons, List.find?_nil]
      cases hc : U.contains (g1, g2)
      · cases hc3 : U.contains (n1, g2)
        · simp only [fh_cons, firstHit_nil, hU g1 g2 hc, hU n1 g2 hc3, kget_none_left, kget_none_right]
        · simp only [lookupKV_firstHit, hp1, hb2, hg1, hg2, Bool.false_eq_true, if_false, if_true, fh_cons, firstHit_nil,
            hU g1 g2 hc, kget_none_left, kget_none_right]
          cases kget K (some n1) (some g2) <;> rfl
      · simp only [lookupKV_firstHit, hb1, hb2, hg1, hg2, Bool.false_eq_true, if_false, fh_cons, firstHit_nil,
          kget_none_left, kget_none_right]
        cases kget K (some g1) (some g2) <;> cases kget K (some n1) (some g2) <;> rfl
    | some n2 =>
      have hp2 := hG2 n2 hg2
      have hnd' := hnd n1 n2 hg1 hg2
      simp only [Option.toList, List.map_nil, List.map_cons, List.flatMap_nil, List.flatMap_cons, List.append_nil, List.nil_append,
        List.cons_append, List.find?_cons, List.find?_nil]
      cases hc : U.contains (g1, g2)
      · cases hc2 : U.contains (g1, n2)
        · cases hc3 : U.contains (n1, g2)
          · cases hc4 : U.contains (n1, n2)
            · simp only [fh_cons, firstHit_nil, hU g1 g2 hc, hU g1 n2 hc2, hU n1 g2 hc3, hU n1 n2 hc4]
            · simp only [lookupKV_firstHit, hp1, hp2, Bool.false_eq_true, if_false, if_true, fh_cons, firstHit_nil,
                hU g1 g2 hc, hU g1 n2 hc2, hU n1 g2 hc3, kget_none_left, kget_none_right]
              cases kget K (some n1) (some n2) <;> rfl
          · simp only [lookupKV_firstHit, hp1, hb2, hg2, Bool.false_eq_true, if_false, if_true, fh_cons, firstHit_nil,
              hU g1 g2 hc, hU g1 n2 hc2, kget_none_left, kget_none_right]
            cases kget K (some n1) (some g2) <;> cases kget K (some n1) (some n2) <;> rfl
        · -- the most specific emitted key is the glyph-class key (g1, G2): here the diamond matters
          simp only [hc, hc2, true_and, Bool.not_eq_true] at hnd'
          simp only [lookupKV_firstHit, hb1, hp2, hg1, Bool.false_eq_true, if_false, if_true, fh_cons, firstHit_nil,
            hU g1 g2 hc, kget_none_left, kget_none_right]
          cases h2 : kget K (some g1) (some n2) with
          | some v => rfl
          | none =>
            have h3 : kget K (some n1) (some g2) = none := by
              cases h3 : kget K (some n1) (some g2) with
              | none => rfl
              | some w => exact absurd ⟨h2, by simp [h3]⟩ hnd'
            simp only [h3]
      · simp only [lookupKV_firstHit, hb1, hb2, hg1, hg2, Bool.false_eq_true, if_false, fh_cons, firstHit_nil]
        cases kget K (some g1) (some g2) <;> rfl

theorem quantize_zero (q : Q) : quantize 0 q = 0 := by
  unfold quantize otRound
  have h1 : (0 : Q) / q = 0 := by grind
  have h2 : ((0 : Q) + 1 / 2).floor = 0 := by decide +kernel
  rw [h1, h2]
  simp [Rat.mul_zero]

theorem kget_none_of_not_union (srcs : List Source) (s : Source) (hs : s ∈ fullSources srcs) (a b : String)
    (h : (unionKeys srcs).contains (a, b) = false) : kget s.kerning (some a) (some b) = none := by
  unfold kget
  cases hf : s.kerning.find? (fun e => e.1 == a && e.2.1 == b) with
  | none => simp [hf]
  | some e =>
    exfalso
    have hm := List.mem_of_find?_eq_some hf
    have hp := List.find?_some hf
    simp only [Bool.and_eq_true, beq_iff_eq] at hp
    have : (a, b) ∈ unionKeys srcs := by
      simp only [unionKeys, List.mem_flatMap, List.mem_map]
      exact ⟨s, hs, e, hm, by rw [hp.1, hp.2]⟩
    have hc : (unionKeys srcs).contains (a, b) = true := by simpa using this
    rw [h] at hc; cases hc

theorem glyphToGroup_isSome (classes : List (String × List String)) (g n : String) (h : glyphToGroup classes g = some n) :
    (alookup n classes).isSome = true := by
  unfold glyphToGroup at h
  cases hl : (classes.filter (fun e => e.2.contains g)).getLast? with
  | none => rw [hl] at h; cases h
  | some e =>
    rw [hl] at h
    simp only [Option.map_some, Option.some.injEq] at h
    have hm : e ∈ classes.filter (fun e => e.2.contains g) := List.mem_of_getLast? hl
    have hm' : e ∈ classes := (List.mem_filter.mp hm).1
    exact (alookup_isSome_iff classes n).mpr (List.mem_map.mpr ⟨e, hm', h⟩)

/-- **C10_kern_glyph.**  Reading the emitted pairs first-match (most specific emitted key covering the glyph pair), the adjustment of
    ANY glyph pair at a full source's location is that source's own quantised UFO kerning — exception fallback included — EXCEPT in the
    diamond shape (`Spec.diamond`): glyph-class key present elsewhere but missing in this source, which has the class-glyph key. -/
theorem C10_kern_glyph (cx : KCtx) (srcs : List Source) (dl : Loc) (h : wfKern cx srcs dl = true)
    (s : Source) (hs : s ∈ fullSources srcs) (g1 g2 : String)
    (hm1 : cx.glyphSet.contains g1 = true) (hm2 : cx.glyphSet.contains g2 = true)
    (hb1 : g1.startsWith SIDE1_PREFIX = false) (hb2 : g2.startsWith SIDE2_PREFIX = false)
    (hG1 : ∀ n, glyphToGroup cx.side1Classes g1 = some n → n.startsWith SIDE1_PREFIX = true)
    (hG2 : ∀ n, glyphToGroup cx.side2Classes g2 = some n → n.startsWith SIDE2_PREFIX = true)
    (hnd : diamond cx srcs s g1 g2 = false) :
    appliedAt cx (unionKeys srcs) (getVariableKerningPairs cx srcs dl) s.loc g1 g2 =
      quantize (ufoKern' (glyphToGroup cx.side1Classes g1) (glyphToGroup cx.side2Classes g2) s.kerning g1 g2) cx.q := by
  have hcv := chain_value cx s.kerning (unionKeys srcs) g1 g2 (kget_none_of_not_union srcs s hs) hb1 hb2 hG1 hG2 (by
    intro n1 n2 h1 h2 hcon
    unfold diamond at hnd
    simp only [h1, h2, hcon.1, hcon.2.1, hcon.2.2.1, hcon.2.2.2, Bool.not_false, Bool.and_self, Option.isNone_none] at hnd
    cases hnd)
  unfold appliedAt
  cases hf : firstKey (unionKeys srcs) g1 g2 (glyphToGroup cx.side1Classes g1) (glyphToGroup cx.side2Classes g2) with
  | none =>
    rw [hf] at hcv
    simp only [] at hcv
    rw [← hcv, quantize_zero]
  | some k =>
    rw [hf] at hcv
    simp only [] at hcv
    have hkU : k ∈ unionKeys srcs := by
      have := List.find?_some hf
      simpa using this
    have hkc : k ∈ chain g1 g2 (glyphToGroup cx.side1Classes g1) (glyphToGroup cx.side2Classes g2) := List.mem_of_find?_eq_some hf
    have hm1' : g1 ∈ cx.glyphSet := by simpa using hm1
    have hm2' : g2 ∈ cx.glyphSet := by simpa using hm2
    have hvalid : validPair cx k = true := by
      unfold chain at hkc
      unfold validPair
      cases hg1 : glyphToGroup cx.side1Classes g1 <;> cases hg2 : glyphToGroup cx.side2Classes g2 <;>
        simp only [hg1, hg2, Option.toList, List.map_nil, List.map_cons, List.flatMap_nil, List.flatMap_cons, List.append_nil,
          List.nil_append, List.cons_append, List.mem_cons, List.not_mem_nil, or_false] at hkc
      · subst hkc; simp [hm1', hm2']
      · rcases hkc with rfl | rfl
        · simp [hm1', hm2']
        · simp [hm1', glyphToGroup_isSome _ _ _ hg2]
      · rcases hkc with rfl | rfl
        · simp [hm1', hm2']
        · simp [hm2', glyphToGroup_isSome _ _ _ hg1]
      · rcases hkc with rfl | rfl | rfl | rfl
        · simp [hm1', hm2']
        · simp [hm1', glyphToGroup_isSome _ _ _ hg2]
        · simp [hm2', glyphToGroup_isSome _ _ _ hg1]
        · simp [glyphToGroup_isSome _ _ _ hg1, glyphToGroup_isSome _ _ _ hg2]
    have hat := holdsKern_at cx srcs dl _ (C10_kern cx srcs dl h) k hkU hvalid s hs
    have hw : wantKern cx s k = quantize (lookupKV cx s.kerning k) cx.q := by rw [wantKern_eq_qv]; rfl
    simp only []
    cases ho : alookup (substKey cx k) (getVariableKerningPairs cx srcs dl) with
    | none =>
      rw [ho] at hat
      simp only [] at hat
      rw [← hcv, ← hw, hat]
    | some v =>
      rw [ho] at hat
      simp only [] at hat
      simp only [hat, Option.getD_some]
      rw [hw, hcv]


/-! ## 8. variable anchors -/

/-- a scalar as a sequence of writes -/
def applyS (s : Scalar) (ws : List (Loc × Q)) : Scalar := ws.foldl (fun s w => sset s w.1 w.2) s

theorem applyS_cons (s : Scalar) (w : Loc × Q) (ws : List (Loc × Q)) : applyS s (w :: ws) = applyS (sset s w.1 w.2) ws := rfl

/-- last write wins -/
theorem applyS_lookup (s : Scalar) (ws : List (Loc × Q)) (l : Loc) :
    alookup l (applyS s ws) = match (ws.filter (fun w => w.1 == l)).getLast? with
      | some w => some w.2
      | none => alookup l s := by
  induction ws generalizing s with
  | nil => simp [applyS]
  | cons w ws ih =>
    rw [applyS_cons, ih]
    by_cases hw : w.1 = l
    · have hb : (w.1 == l) = true := by simpa using hw
      simp only [List.filter_cons, hb, if_true]
      cases hf : ws.filter (fun w => w.1 == l) with
      | nil => simp [sset, hw, alookup_aupd_self]
      | cons x xs =>
        rw [List.getLast?_cons_cons]
        have hsome : ((x :: xs).getLast?).isSome = true := by simp
        obtain ⟨y, hy⟩ := Option.isSome_iff_exists.mp hsome
        rw [hy]
    · have hb : (w.1 == l) = false := by simpa using hw
      simp only [List.filter_cons, hb, Bool.false_eq_true, if_false]
      cases hf : (ws.filter (fun w => w.1 == l)).getLast? with
      | some x => rfl
      | none => simp only [sset]; rw [alookup_aupd_other _ _ _ _ (Ne.symm hw)]

theorem applyS_keys (s : Scalar) (ws : List (Loc × Q)) (l : Loc) :
    l ∈ (applyS s ws).map (·.1) ↔ l ∈ s.map (·.1) ∨ ∃ w ∈ ws, w.1 = l := by
  rw [← alookup_isSome_iff, applyS_lookup]
  cases hf : (ws.filter (fun w => w.1 == l)).getLast? with
  | some x =>
    have hm := List.mem_of_getLast? hf
    simp only [List.mem_filter, beq_iff_eq] at hm
    simp only [Option.isSome_some, true_iff]
    exact Or.inr ⟨x, hm.1, hm.2⟩
  | none =>
    have hnil : ws.filter (fun w => w.1 == l) = [] := List.getLast?_eq_none_iff.mp hf
    simp only [alookup_isSome_iff]
    constructor
    · exact Or.inl
    · rintro (h | ⟨w, hw, rfl⟩)
      · exact h
      · have : w ∈ ws.filter (fun w' => w'.1 == w.1) := List.mem_filter.mpr ⟨hw, by simp⟩
        rw [hnil] at this; cases this

/-- the anchors of one layer that `_getAnchor` reads -/
def layerAnchors (ly : AnchorLayer) (glyph anchor : String) : List (String × Q × Q) :=
  match alookup glyph ly.glyphs with
  | none => []
  | some as => as.filter (fun a => a.1 == anchor)

def anchorWrites (layers : List AnchorLayer) (glyph anchor : String) : List (Loc × Q × Q) :=
  layers.flatMap (fun ly => (layerAnchors ly glyph anchor).map (fun a => (ly.loc, a.2.1, a.2.2)))

def anchorStep (acc : Scalar × Scalar × Bool) (w : Loc × Q × Q) : Scalar × Scalar × Bool :=
  (sset acc.1 w.1 (otRound w.2.1), sset acc.2.1 w.1 (otRound w.2.2), true)

theorem anchorScalars_eq (layers : List AnchorLayer) (glyph anchor : String) :
    anchorScalars layers glyph anchor = (anchorWrites layers glyph anchor).foldl anchorStep ([], [], false) := by
  unfold anchorScalars anchorWrites
  generalize (([], [], false) : Scalar × Scalar × Bool) = init
  induction layers generalizing init with
  | nil => rfl
  | cons ly layers ih =>
    simp only [List.foldl_cons, List.flatMap_cons, List.foldl_append]
    rw [ih]
    congr 1
    unfold layerAnchors
    cases alookup glyph ly.glyphs with
    | none => rfl
    | some as =>
      simp only [List.foldl_map]
      generalize init = acc
      induction as generalizing acc with
      | nil => rfl
      | cons a as iha =>
        simp only [List.foldl_cons, List.filter_cons]
        by_cases h : (a.1 == anchor) = true
        · simp only [h, if_true, List.foldl_cons]; exact iha _
        · simp only [h, Bool.false_eq_true, if_false]; exact iha _

theorem anchorFold_proj (ws : List (Loc × Q × Q)) (init : Scalar × Scalar × Bool) :
    (ws.foldl anchorStep init).1 = applyS init.1 (ws.map (fun w => (w.1, (otRound w.2.1 : Q)))) ∧
    (ws.foldl anchorStep init).2.1 = applyS init.2.1 (ws.map (fun w => (w.1, (otRound w.2.2 : Q)))) ∧
    (ws.foldl anchorStep init).2.2 = (init.2.2 || !ws.isEmpty) := by
  induction ws generalizing init with
  | nil => simp [applyS]
  | cons w ws ih =>
    obtain ⟨h1, h2, h3⟩ := ih (anchorStep init w)
    simp only [List.foldl_cons, List.map_cons, applyS_cons]
    refine ⟨h1, h2, ?_⟩
    have : (anchorStep init w).2.2 = true := rfl
    rw [this] at h3
    simpa [anchorStep] using h3

theorem layerAnchor_eq (ly : AnchorLayer) (glyph anchor : String) :
    layerAnchor ly glyph anchor = ((layerAnchors ly glyph anchor).getLast?).map (·.2) := by
  unfold layerAnchor layerAnchors
  cases alookup glyph ly.glyphs <;> rfl

theorem anchorWrites_filter (layers : List AnchorLayer) (glyph anchor : String) (hn : (layers.map (·.loc)).Nodup)
    (ly : AnchorLayer) (hly : ly ∈ layers) :
    (anchorWrites layers glyph anchor).filter (fun w => w.1 == ly.loc) =
      (layerAnchors ly glyph anchor).map (fun a => (ly.loc, a.2.1, a.2.2)) := by
  unfold anchorWrites
  induction layers with
  | nil => simp at hly
  | cons l0 layers ih =>
    simp only [List.map_cons, List.nodup_cons, List.mem_map, not_exists, not_and] at hn
    simp only [List.flatMap_cons, List.filter_append]
    rcases List.mem_cons.mp hly with rfl | hm
    · have h1 : ((layerAnchors ly glyph anchor).map (fun a => (ly.loc, a.2.1, a.2.2))).filter (fun w => w.1 == ly.loc) =
          (layerAnchors ly glyph anchor).map (fun a => (ly.loc, a.2.1, a.2.2)) := by
        apply List.filter_eq_self.mpr
        intro w hw
        obtain ⟨a, _, rfl⟩ := List.mem_map.mp hw
        simp
      have h2 : (layers.flatMap (fun ly' => (layerAnchors ly' glyph anchor).map (fun a => (ly'.loc, a.2.1, a.2.2)))).filter
          (fun w => w.1 == ly.loc) = [] := by
        apply List.filter_eq_nil_iff.mpr
        intro w hw
        obtain ⟨ly', hly', hw'⟩ := List.mem_flatMap.mp hw
        obtain ⟨a, _, rfl⟩ := List.mem_map.mp hw'
        simp only [beq_iff_eq]
        exact fun heq => hn.1 ly' hly' heq
      rw [h1, h2, List.append_nil]
    · have h1 : ((layerAnchors l0 glyph anchor).map (fun a => (l0.loc, a.2.1, a.2.2))).filter (fun w => w.1 == ly.loc) = [] := by
        apply List.filter_eq_nil_iff.mpr
        intro w hw
        obtain ⟨a, _, rfl⟩ := List.mem_map.mp hw
        simp only [beq_iff_eq]
        exact fun heq => hn.1 ly hm heq.symm
      rw [h1, List.nil_append]
      exact ih hn.2 hm

theorem anchorWrites_nil_iff (layers : List AnchorLayer) (glyph anchor : String) :
    anchorWrites layers glyph anchor = [] ↔ ∀ ly ∈ layers, layerAnchors ly glyph anchor = [] := by
  unfold anchorWrites
  simp [List.flatMap_eq_nil_iff]

/-- the value a variable anchor coordinate has at the location of a layer that has the anchor -/
theorem anchor_cell (layers : List AnchorLayer) (glyph anchor : String) (hn : (layers.map (·.loc)).Nodup)
    (ly : AnchorLayer) (hly : ly ∈ layers) (proj : Q × Q → Q) (xy : Q × Q) (h : layerAnchor ly glyph anchor = some xy) :
    alookup ly.loc (applyS [] ((anchorWrites layers glyph anchor).map (fun w => (w.1, (otRound (proj w.2) : Q))))) =
      some (otRound (proj xy) : Q) := by
  rw [applyS_lookup, List.filter_map]
  have : ((fun (w : Loc × Q) => w.1 == ly.loc) ∘ fun (w : Loc × Q × Q) => (w.1, (otRound (proj w.2) : Q))) =
      fun (w : Loc × Q × Q) => w.1 == ly.loc := rfl
  rw [this, anchorWrites_filter layers glyph anchor hn ly hly, List.getLast?_map, List.getLast?_map]
  rw [layerAnchor_eq] at h
  cases hl : (layerAnchors ly glyph anchor).getLast? with
  | none => simp [hl] at h
  | some a =>
    simp only [hl, Option.map_some, Option.some.injEq] at h
    subst h
    rfl

/-- **C10_anchor.**  A variable anchor carries one entry per source layer that contains the glyph with that anchor (full or sparse),
    whose value is `otRound` of THAT layer's anchor — so any variation model with the master-reproduction law reproduces the layer's
    rounded anchor at the layer's location; `None` exactly when no layer has it; no other locations. -/
theorem C10_anchor (layers : List AnchorLayer) (glyph anchor : String) (hwf : wfAnchor layers = true) :
    holdsAnchor layers glyph anchor (getAnchorVar layers glyph anchor) = true := by
  have hn : (layers.map (·.loc)).Nodup := by simpa [wfAnchor] using hwf
  unfold getAnchorVar
  rw [anchorScalars_eq]
  obtain ⟨hx, hy, hfound⟩ := anchorFold_proj (anchorWrites layers glyph anchor) ([], [], false)
  simp only [hx, hy, hfound, Bool.false_or]
  unfold holdsAnchor
  have hfilt : ∀ ly, ly ∈ layers.filter (fun ly => (layerAnchor ly glyph anchor).isSome) ↔
      ly ∈ layers ∧ layerAnchors ly glyph anchor ≠ [] := by
    intro ly
    simp only [List.mem_filter, layerAnchor_eq, Option.isSome_map, List.getLast?_isSome]
  by_cases hw : anchorWrites layers glyph anchor = []
  · -- no layer has the anchor
    simp only [hw, List.isEmpty_nil, Bool.not_true, Bool.false_eq_true, if_false]
    have hall := (anchorWrites_nil_iff layers glyph anchor).mp hw
    simp only [List.isEmpty_iff]
    apply List.filter_eq_nil_iff.mpr
    intro ly hly
    simp [layerAnchor_eq, hall ly hly]
  · have hne : (anchorWrites layers glyph anchor).isEmpty = false := by simpa [List.isEmpty_iff] using hw
    simp only [hne, Bool.not_false, if_true]
    simp only [Bool.and_eq_true, Bool.not_eq_true', List.all_eq_true]
    obtain ⟨ly0, hly0, hA0⟩ : ∃ ly ∈ layers, layerAnchors ly glyph anchor ≠ [] := by
      have := mt (anchorWrites_nil_iff layers glyph anchor).mpr hw
      simpa using this
    refine ⟨⟨?_, ?_⟩, ?_⟩
    · -- some layer has it
      simp only [List.isEmpty_eq_false_iff]
      exact List.ne_nil_of_mem ((hfilt ly0).mpr ⟨hly0, hA0⟩)
    · intro ly hly
      obtain ⟨hmem, hA⟩ := (hfilt ly).mp hly
      cases hla : layerAnchor ly glyph anchor with
      | none =>
        rw [layerAnchor_eq] at hla
        simp only [Option.map_eq_none_iff, List.getLast?_eq_none_iff] at hla
        exact absurd hla hA
      | some xy =>
        obtain ⟨x, y⟩ := xy
        simp only [Bool.and_eq_true, beq_iff_eq]
        exact ⟨collapse_at _ _ _ (anchor_cell layers glyph anchor hn ly hmem (·.1) (x, y) hla),
               collapse_at _ _ _ (anchor_cell layers glyph anchor hn ly hmem (·.2) (x, y) hla)⟩
    · -- no other locations; a scalar only if the values differ
      intro v hv
      have key : ∀ (proj : Q × Q → Q),
          (match collapse (applyS [] ((anchorWrites layers glyph anchor).map (fun w => (w.1, (otRound (proj w.2) : Q))))) with
           | .num _ => true
           | .var s => s.all (fun le => (layers.filter (fun ly => (layerAnchor ly glyph anchor).isSome)).any (fun ly => ly.loc == le.1)) &&
               !allEqual s) = true := by
        intro proj
        generalize hsc : applyS [] ((anchorWrites layers glyph anchor).map (fun w => (w.1, (otRound (proj w.2) : Q)))) = sc
        cases hc : collapse sc with
        | num x => rfl
        | var s =>
          have hcol := C10_collapse sc
          rw [hc] at hcol
          simp only [holdsCollapse, Bool.and_eq_true, beq_iff_eq, Bool.or_eq_true] at hcol
          obtain ⟨hs, hneq⟩ := hcol
          subst hs
          simp only [Bool.and_eq_true, List.all_eq_true, List.any_eq_true, beq_iff_eq]
          refine ⟨fun le hle => ?_, ?_⟩
          · have hk : le.1 ∈ s.map (·.1) := List.mem_map.mpr ⟨le, hle, rfl⟩
            rw [← hsc, applyS_keys] at hk
            rcases hk with hk | ⟨w, hw', hwl⟩
            · simp at hk
            · obtain ⟨w0, hw0, rfl⟩ := List.mem_map.mp hw'
              unfold anchorWrites at hw0
              obtain ⟨ly, hly, hin⟩ := List.mem_flatMap.mp hw0
              obtain ⟨a, ha, rfl⟩ := List.mem_map.mp hin
              exact ⟨ly, (hfilt ly).mpr ⟨hly, List.ne_nil_of_mem ha⟩, hwl⟩
          · rcases hneq with hemp | hneq
            · exfalso
              have : ly0.loc ∈ s.map (·.1) := by
                rw [← hsc, applyS_keys]
                right
                obtain ⟨a, ha⟩ := List.exists_mem_of_ne_nil _ hA0
                exact ⟨(ly0.loc, (otRound (proj (a.2.1, a.2.2)) : Q)), List.mem_map.mpr ⟨(ly0.loc, a.2.1, a.2.2), by
                  unfold anchorWrites
                  exact List.mem_flatMap.mpr ⟨ly0, hly0, List.mem_map.mpr ⟨a, ha, rfl⟩⟩, rfl⟩, rfl⟩
              simp only [List.isEmpty_iff] at hemp
              rw [hemp] at this; simp at this
            · simpa using hneq
      simp only [List.mem_cons, List.not_mem_nil, or_false] at hv
      rcases hv with rfl | rfl
      · exact key (·.1)
      · exact key (·.2)


/-! ## 9. witnesses and non-vacuity -/

/-- masters A (wght=400, default) and B (wght=700), a sparse source in between (its font's kerning must be ignored);
    groups kern1.G1 = [g1, x], kern2.G2 = [g2, y];  A: (g1, G2) = -50, (G1, G2) = -4;  B: (G1, g2) = -30, (G1, G2) = -10 -/
def exCx : KCtx := { side1Classes := [("public.kern1.G1", ["g1", "x"])], side2Classes := [("public.kern2.G2", ["g2", "y"])],
                     glyphSet := ["g1", "g2", "x", "y"], q := 1 }
def exA : Source := { loc := [("wght", 400)], sparse := false,
                      kerning := [("g1", "public.kern2.G2", -50), ("public.kern1.G1", "public.kern2.G2", -4)] }
def exB : Source := { loc := [("wght", 700)], sparse := false,
                      kerning := [("public.kern1.G1", "g2", -30), ("public.kern1.G1", "public.kern2.G2", -10)] }
def exS : Source := { loc := [("wght", 550)], sparse := true, kerning := [("g1", "g2", 999)] }
def exSrcs : List Source := [exA, exS, exB]
def exDl : Loc := [("wght", 400)]

/-- non-vacuity of C10_kern / C10_kern_glyph: a well-formed input with a key missing in one master and an exception chain -/
example : wfKern exCx exSrcs exDl = true := by decide +kernel

/-- at B the pair (x, g2) - no diamond - gets B's own UFO value -30 (from the class-glyph key), although A has no such key -/
example : diamond exCx exSrcs exB "x" "g2" = false ∧
    appliedAt exCx (unionKeys exSrcs) (getVariableKerningPairs exCx exSrcs exDl) exB.loc "x" "g2" = -30 := by decide +kernel

/-- **the diamond is a real counterexample**: for (g1, g2) at B first-match reads -10 (the class-class fallback that
    `lookupKerningValue` returns for the KEY (g1, G2) in B) while B's UFO kerning of the glyph pair is -30 -/
theorem C10_kern_diamond_witness :
    wfKern exCx exSrcs exDl = true ∧ diamond exCx exSrcs exB "g1" "g2" = true ∧
    appliedAt exCx (unionKeys exSrcs) (getVariableKerningPairs exCx exSrcs exDl) exB.loc "g1" "g2" = -10 ∧
    quantize (ufoKern' (glyphToGroup exCx.side1Classes "g1") (glyphToGroup exCx.side2Classes "g2") exB.kerning "g1" "g2") exCx.q = -30 := by
  decide +kernel

/-! ### sources with groups of their own -/

theorem kget_none_first (K : List (String × String × Q)) (G : Option String)
    (h : ∀ n, G = some n → ∀ e ∈ K, e.1 ≠ n) (b : Option String) : kget K G b = none := by
  cases G with
  | none => cases b <;> rfl
  | some n =>
    cases b with
    | none => rfl
    | some y =>
      simp only [kget, Option.map_eq_none_iff, List.find?_eq_none]
      intro e he
      have := h n rfl e he
      simp [this]

theorem kget_none_second (K : List (String × String × Q)) (G : Option String)
    (h : ∀ n, G = some n → ∀ e ∈ K, e.2.1 ≠ n) (a : Option String) : kget K a G = none := by
  cases G with
  | none => cases a <;> rfl
  | some n =>
    cases a with
    | none => rfl
    | some x =>
      simp only [kget, Option.map_eq_none_iff, List.find?_eq_none]
      intro e he
      have := h n rfl e he
      simp [this]

/-- **C10_own_groups.**  UFO semantics of a master read with the master's OWN group membership equals UFO semantics read with the
    family's classes (the union `getKerningGroups` builds over all sources), provided each side's own view is the family's or the
    master lacks the group and names it in no key (`Spec.ownGroupOK1/2`): a master need not define the groups that only other
    masters' pairs use. -/
theorem C10_own_groups (K : List (String × String × Q)) (g1 g2 : String) (O1 O2 G1 G2 : Option String)
    (h1 : ownGroupOK1 K O1 G1) (h2 : ownGroupOK2 K O2 G2) :
    ufoKern' O1 O2 K g1 g2 = ufoKern' G1 G2 K g1 g2 := by
  have a1 : ∀ b, kget K O1 b = kget K G1 b := by
    intro b
    rcases h1 with rfl | ⟨rfl, h1⟩
    · rfl
    · rw [kget_none_first K G1 h1 b]; cases b <;> rfl
  have a2 : ∀ a, kget K a O2 = kget K a G2 := by
    intro a
    rcases h2 with rfl | ⟨rfl, h2⟩
    · rfl
    · rw [kget_none_second K G2 h2 a]; cases a <;> rfl
  unfold ufoKern'
  simp only [a1, a2]

/-- **C10_kern_glyph_own.**  `C10_kern_glyph` for families whose sources do not carry the same groups: at a full source's location the
    first-match reading of the emitted pairs is that source's quantised UFO kerning READ WITH ITS OWN GROUPS (`O1`, `O2` = the
    groups of `g1`, `g2` in that source), outside the diamond shape. -/
theorem C10_kern_glyph_own (cx : KCtx) (srcs : List Source) (dl : Loc) (h : wfKern cx srcs dl = true)
    (s : Source) (hs : s ∈ fullSources srcs) (g1 g2 : String)
    (hm1 : cx.glyphSet.contains g1 = true) (hm2 : cx.glyphSet.contains g2 = true)
    (hb1 : g1.startsWith SIDE1_PREFIX = false) (hb2 : g2.startsWith SIDE2_PREFIX = false)
    (hG1 : ∀ n, glyphToGroup cx.side1Classes g1 = some n → n.startsWith SIDE1_PREFIX = true)
    (hG2 : ∀ n, glyphToGroup cx.side2Classes g2 = some n → n.startsWith SIDE2_PREFIX = true)
    (hnd : diamond cx srcs s g1 g2 = false) (O1 O2 : Option String)
    (ho1 : ownGroupOK1 s.kerning O1 (glyphToGroup cx.side1Classes g1))
    (ho2 : ownGroupOK2 s.kerning O2 (glyphToGroup cx.side2Classes g2)) :
    appliedAt cx (unionKeys srcs) (getVariableKerningPairs cx srcs dl) s.loc g1 g2 =
      quantize (ufoKern' O1 O2 s.kerning g1 g2) cx.q := by
  rw [C10_own_groups s.kerning g1 g2 O1 O2 _ _ ho1 ho2]
  exact C10_kern_glyph cx srcs dl h s hs g1 g2 hm1 hm2 hb1 hb2 hG1 hG2 hnd

/-- Regular (default) has no groups and no kerning; Bold defines kern1.T = [T, Tbar], kern2.o = [a, o] and the class pair -66 -/
def ogCx : KCtx := { side1Classes := [("public.kern1.T", ["T", "Tbar"])], side2Classes := [("public.kern2.o", ["a", "o"])],
                     glyphSet := ["T", "Tbar", "a", "o"], q := 1 }
def ogCxDefaultOnly : KCtx := { ogCx with side1Classes := [], side2Classes := [] }
def ogR : Source := { loc := [("wght", 400)], sparse := false, kerning := [] }
def ogB : Source := { loc := [("wght", 700)], sparse := false, kerning := [("public.kern1.T", "public.kern2.o", -66), ("Tbar", "a", -44)] }

/-- non-vacuity of C10_kern_glyph_own: with the classes of ALL sources the Bold-only class pair is reproduced at Bold and is 0 at
    Regular, whose own groups are empty (own view `none`, no key names the groups) -/
example : wfKern ogCx [ogR, ogB] ogR.loc = true ∧
    appliedAt ogCx (unionKeys [ogR, ogB]) (getVariableKerningPairs ogCx [ogR, ogB] ogR.loc) ogB.loc "T" "o" = -66 ∧
    appliedAt ogCx (unionKeys [ogR, ogB]) (getVariableKerningPairs ogCx [ogR, ogB] ogR.loc) ogR.loc "T" "o" = 0 ∧
    quantize (ufoKern' none none ogR.kerning "T" "o") 1 = 0 := by decide +kernel

/-- **the groups of every source are needed**: with the classes of the default source alone (none here) the Bold-only class pair is
    dropped - the font applies 0 to (T, o) at Bold where Bold's UFO kerning is -66 -/
theorem C10_own_groups_witness :
    appliedAt ogCxDefaultOnly (unionKeys [ogR, ogB]) (getVariableKerningPairs ogCxDefaultOnly [ogR, ogB] ogR.loc) ogB.loc "T" "o" = 0 ∧
    quantize (ufoKern' (some "public.kern1.T") (some "public.kern2.o") ogB.kerning "T" "o") 1 = -66 := by
  decide +kernel

/-- non-vacuity of C10_anchor: a default master, a sparse layer that has the glyph (and the anchor), a second master; the anchor is
    rounded per layer (half up), the layer without the glyph contributes nothing -/
def exLayers : List AnchorLayer :=
  [{ loc := [("wght", 400)], glyphs := [("a", [("top", 100.5, 500)]), ("b", [])] },
   { loc := [("wght", 550)], glyphs := [("a", [("top", 120, 510.25)])] },
   { loc := [("wght", 600)], glyphs := [("b", [("top", 1, 1)])] },
   { loc := [("wght", 700)], glyphs := [("a", [("bottom", 0, 0), ("top", 140, 520), ("top", 141, 520)])] }]
example : wfAnchor exLayers = true := by decide +kernel
example : getAnchorVar exLayers "a" "top" =
    some (.var [([("wght", 400)], 101), ([("wght", 550)], 120), ([("wght", 700)], 141)],
          .var [([("wght", 400)], 500), ([("wght", 550)], 510), ([("wght", 700)], 520)]) := by decide +kernel
example : getAnchorVar exLayers "a" "nosuch" = none := by decide +kernel

/-! ## 10. feature compatibility, outlines -/

/-- **C10_compat.**  Variable features are built iff every non-default source's feature text equals the default's modulo comments and
    whitespace, or every non-default source's text is empty modulo comments and whitespace. -/
theorem C10_compat (texts : List String) (dflt : Nat) : holdsCompat texts dflt (featuresCompatible texts dflt) = true := by
  unfold holdsCompat featuresCompatible
  simp [List.all_eq]

/-- the decision does not depend on the order of the non-default sources -/
theorem compat_perm (first : List Char) (r1 r2 : List (List Char)) (h : r1.Perm r2) :
    (r1.all (· == first) || r1.all (·.isEmpty)) = (r2.all (· == first) || r2.all (·.isEmpty)) := by
  rw [h.all_eq, h.all_eq]

/-- a comment up to the end of its line is invisible to the comparison -/
theorem strip_comment_line (c l : List Char) (h : '\n' ∉ c) :
    stripComments ('#' :: (c ++ '\n' :: l)) false = '\n' :: stripComments l false := by
  have aux : ∀ c : List Char, '\n' ∉ c → stripComments (c ++ '\n' :: l) true = '\n' :: stripComments l false := by
    intro c
    induction c with
    | nil => intro _; simp [stripComments]
    | cons a c ih =>
      intro hc
      simp only [List.mem_cons, not_or] at hc
      have : (a == '\n') = false := by simpa using fun h' => hc.1 h'.symm
      simp only [List.cons_append, stripComments, this, Bool.false_eq_true, if_false, if_true]
      exact ih hc.2
  simp only [stripComments]
  have h1 : ('#' == '\n') = false := by decide
  simp only [h1, Bool.false_eq_true, if_false, beq_self_eq_true, if_true]
  exact aux c h

example : featuresCompatible ["feature liga { sub f i by f_i; } liga;", "# only here\nfeature  liga {\n sub f i by f_i;\t} liga; # c"] 0 = false := by
  decide +kernel
example : featuresCompatible ["feature liga { sub f i by f_i; } liga;\n", "feature  liga {\n sub f i by f_i;#c\n} liga; "] 0 = true := by
  decide +kernel
example : featuresCompatible ["feature liga { sub f i by f_i; } liga;", "# nothing", ""] 0 = true := by decide +kernel
/-- a quirk of the code that the model mirrors: a non-default text consisting of white space only (here a newline after the comment)
    is normalised to one space, which is not "empty", so such a family is NOT treated as "only the default has features" -/
example : featuresCompatible ["feature liga { sub f i by f_i; } liga;", "# nothing\n", ""] 0 = false := by decide +kernel


/-- rounding moves a number by at most one half -/
theorem otRound_near (x : Q) : x - 1/2 < (otRound x : Q) ∧ (otRound x : Q) ≤ x + 1/2 := by
  unfold otRound
  have h1 := Rat.floor_le (x + 1/2)
  have h2 := Rat.lt_floor_add_one (x + 1/2)
  have h3 : (((x + 1/2).floor + 1 : Int) : Q) = ((x + 1/2).floor : Q) + 1 := by simp [Rat.intCast_add]
  rw [h3] at h2
  constructor <;> grind

/-- two integers that both lie within one half of numbers at most `d` apart are at most `d + 1` apart -/
theorem round_both (x y : Q) : absQ ((otRound x : Q) - (otRound y : Q)) ≤ absQ (x - y) + 1 := by
  have hx := otRound_near x
  have hy := otRound_near y
  unfold absQ
  split <;> split <;> grind

/-- **C10_outline_of_law** (formerly `C10_outline_partial`).  For ANY variation model with the EXACT master-reproduction law, every
    coordinate interpolated at master `i`'s location is master `i`'s coordinate, so two consumers that both round differ by at
    most one unit.  The law with exact deltas is a theorem for the modelled VariationModel (`nAxis_law`, Props/C10Var.lean); what
    varLib really stores are ROUNDED deltas: for those see `C10_outline_rounded` (Props/C10Var.lean), where the ≤ 1 is proved
    from `getDeltas(…, round=otRound)` itself and only "the compiled tables evaluate this model" remains measured. -/
theorem C10_outline_of_law {L : Type} (M : VarModel L) (coords : List (List Q)) (hc : ∀ c ∈ coords, c.length = M.locs.length)
    (i : Nat) (hi : i < M.locs.length) :
    ∀ c (hm : c ∈ coords), M.interp (M.locs[i]) c = c[i]'(by rw [hc c hm]; exact hi) ∧
      absQ ((otRound (M.interp (M.locs[i]) c) : Q) - (otRound (c[i]'(by rw [hc c hm]; exact hi)) : Q)) ≤ 1 := by
  intro c hm
  have hlaw := M.law i c hi (hc c hm)
  refine ⟨hlaw, ?_⟩
  rw [hlaw]
  have : (otRound (c[i]'(by rw [hc c hm]; exact hi)) : Q) - (otRound (c[i]'(by rw [hc c hm]; exact hi)) : Q) = 0 := by grind
  rw [this]
  unfold absQ
  split <;> grind

/-! ## 11. link to C05's reference semantics -/

/-- on a kerning dict (unique keys) C05's reference lookup (last entry wins) and this model's (first entry) coincide -/
theorem kernGet_eq_kget (K : List (String × String × Q)) (hn : (K.map (fun e => (e.1, e.2.1))).Nodup) (a b : Option String) :
    kernGet K a b = kget K a b := by
  cases a with
  | none => cases b <;> rfl
  | some x =>
    cases b with
    | none => rfl
    | some y =>
      simp only [kernGet, kget]
      induction K with
      | nil => rfl
      | cons e K ih =>
        simp only [List.map_cons, List.nodup_cons, List.mem_map, not_exists, not_and] at hn
        by_cases he : (e.1 == x && e.2.1 == y) = true
        · have hnone : K.filter (fun e => e.1 == x && e.2.1 == y) = [] := by
            apply List.filter_eq_nil_iff.mpr
            intro e' he' hc
            simp only [Bool.and_eq_true, beq_iff_eq] at he hc
            exact hn.1 e' he' (by rw [he.1, he.2, hc.1, hc.2])
          simp [he, hnone]
        · have he' : (e.1 == x && e.2.1 == y) = false := by simpa using he
          simp only [List.filter_cons, he', Bool.false_eq_true, if_false, List.find?_cons]
          exact ih hn.2

/-- `ufoKern'` is C05's `ufoKern` (the reference the driver evaluates on instantiated fonts) with the groups looked up -/
theorem ufoKern_eq (groups : List (String × List String)) (K : List (String × String × Q))
    (hn : (K.map (fun e => (e.1, e.2.1))).Nodup) (g1 g2 : String) :
    ufoKern groups K g1 g2 = ufoKern' (groupOf SIDE1_PREFIX groups g1) (groupOf SIDE2_PREFIX groups g2) K g1 g2 := by
  unfold ufoKern ufoKern'
  simp only [kernGet_eq_kget K hn]
  rfl

end Ufo2ft.C10
