import Ufo2ftModel.Props.C06OrderLig
/-!
C06, part 20: WHICH candidate wins when several anchor keys match a (mark, mark) pair — the mark-to-mark case.

`_makeMarkToMarkAttachments` / `_makeMkmkFeature`: one MarkMarkPos lookup per ANCHOR KEY, `sorted(...)` = ascending key order
(in both modes: mark-to-mark lookups are never grouped by `groupMarkClasses`, so no mode hypothesis is needed here), empty
lookups dropped; the last applicable lookup wins.  So the attachment of a (base mark b, mark m) pair is the one of the GREATEST
matching key.
-/
namespace Ufo2ft.C06
open List

/-- the mark-to-mark lookup of the anchor key `k` (none when it comes out empty) -/
def mkmkLookupOfKey (feat : String) (inc : String → Bool) (mf : NA → Bool) (atts : List (String × String × BAnchor))
    (k : String) : Option Lookup :=
  let es := (atts.filter (fun t => t.1 == k && inc t.2.1 && mf t.2.2.a)).map (fun t =>
    (⟨t.2.1, [compAST [t.2.2]]⟩ : Entry))
  if es.isEmpty then none else some ⟨feat, .mkmk, es⟩

theorem mkmkLookups_eq (feat : String) (inc : String → Bool) (mf : NA → Bool) (atts : List (String × String × BAnchor)) :
    mkmkLookups feat inc mf atts =
      (sortStr (dedupFirst (atts.map (·.1)))).filterMap (mkmkLookupOfKey feat inc mf atts) := rfl

/-- what the mark-to-mark lookup of key `k` does to (b, m): if it attaches, then through the plain un-numbered anchor of key
    `k` on `b` (which passes the feature's anchor filter) and `_k` on `m` -/
theorem mkMkmk_attach_some {i : Input} {al : AList} (w : ALwf i al) {feat : String} {inc : String → Bool} {mf : NA → Bool}
    {k : String} {L : Lookup} (hL : mkmkLookupOfKey feat inc mf (maOf i al) k = some L)
    {b m : String} {d : Int × Int} (h : attachLookup (build i al) L b m none = some d) :
    ∃ ab am, Pair al b m ab am ∧ ab.ctx = none ∧ ab.number = none ∧ mf ab = true ∧ ab.key = k ∧
      d = (otRound ab.x - otRound am.x, otRound ab.y - otRound am.y) := by
  obtain ⟨_, e, he, heg, cls, hcls, _, r, hr, hrm, comp, hcomp, t, ht, htc, hd⟩ := attachLookup_some h
  unfold mkmkLookupOfKey at hL
  simp only at hL
  split at hL
  · simp at hL
  · simp only [Option.some.injEq] at hL; subst hL
    try simp only at he
    obtain ⟨t0, ht0, rfl⟩ := mem_map.mp he
    obtain ⟨ht1, ht2⟩ := mem_filter.mp ht0
    simp only [Bool.and_eq_true, beq_iff_eq] at ht2
    obtain ⟨⟨hk0, _⟩, hmfx⟩ := ht2
    simp only [Option.getD_none, getElem?_cons_zero, Option.some.injEq] at hcomp; subst hcomp
    simp only at heg
    obtain ⟨x, hx, rfl⟩ := mem_compAST ht
    simp only [mem_singleton] at hx; subst hx
    obtain ⟨_, hkey0, hain, hclass, hnum, hplain⟩ := mkmkAtts_ok ht1
    rw [heg] at hain
    have hainb := anchorIn_of_prune hain
    have hcls' : cls ∈ clsOf i al := hcls
    obtain ⟨aM, ⟨asm, hasm, ham⟩, hmark, _, hcn, hgn, hrx, hry, hsM⟩ := clsOf_mem w hcls' hr
    rw [hrm] at hasm
    obtain ⟨hnm, _, n, hnmem, hkey, hcn2⟩ := classOf_kmOf w hclass
    have hn : n = aM.name := by
      have : cnOf i al n = cnOf i al aM.name := by rw [← hcn2, ← hcn, ← htc]
      exact (makeClasses_meOf w).2 n hnmem aM.name hgn this
    have hkeys : aM.key = t0.2.2.a.key := by rw [← hkey, hn, keyOfMarkName_eq hsM hmark]
    have hctxM : aM.ctx = none := plain_of_us w hasm ham (hsM.mark hmark).1
    refine ⟨t0.2.2.a, aM, ⟨hainb, ⟨asm, hasm, ham⟩, hnm, hmark, hctxM, hkeys⟩, hplain, hnum, hmfx, ?_, ?_⟩
    · rw [← hkey0, hk0]
    · rw [hd, hrx, hry]

/-- the mark-to-mark lookup of the pair's key exists and attaches the pair -/
theorem mkMkmk_attach_of_pair {i : Input} {al : AList} (w : ALwf i al) {b m : String} {ab am : NA} (p : Pair al b m ab am)
    (hok : markOK i m = true) (hpl : ab.ctx = none) (hnum : ab.number = none) (hmg : b ∈ mgOf i al)
    (feat : String) (inc : String → Bool) (mf : NA → Bool) (hinc : inc b = true) (hmf : mf ab = true) :
    ∃ L, mkmkLookupOfKey feat inc mf (maOf i al) ab.key = some L ∧
      (attachLookup (build i al) L b m none).isSome = true := by
  have hcl := pair_classOf w p hok
  obtain ⟨recs, hcls, r, hr, hrg⟩ := pair_class w p hok
  obtain ⟨as', has', hab'⟩ := pair_prune_b w p
  have ht0 : (ab.key, b, (⟨ab, cnOf i al am.name⟩ : BAnchor)) ∈ maOf i al := mkmkAtts_mem has' hmg hab' hpl hnum hcl
  generalize hes : ((maOf i al).filter (fun t => t.1 == ab.key && inc t.2.1 && mf t.2.2.a)).map (fun t =>
      (⟨t.2.1, [compAST [t.2.2]]⟩ : Entry)) = es
  -- every entry of this lookup refers to the class of the pair
  have hentry : ∀ e ∈ es, ∃ x : BAnchor, e.comps = [compAST [x]] ∧ x.cls = cnOf i al am.name := by
    intro e he
    rw [← hes] at he
    obtain ⟨t, ht, rfl⟩ := mem_map.mp he
    obtain ⟨ht1, ht2⟩ := mem_filter.mp ht
    simp only [Bool.and_eq_true, beq_iff_eq] at ht2
    obtain ⟨_, hk, _, hc, _⟩ := mkmkAtts_ok ht1
    refine ⟨t.2.2, rfl, ?_⟩
    exact classOf_same_key hc hcl (by rw [← hk, ht2.1.1])
  have he0 : (⟨b, [compAST [⟨ab, cnOf i al am.name⟩]]⟩ : Entry) ∈ es := by
    rw [← hes]
    exact mem_map.mpr ⟨_, mem_filter.mpr ⟨ht0, by simp [hinc, hmf]⟩, rfl⟩
  have hL : mkmkLookupOfKey feat inc mf (maOf i al) ab.key = some (⟨feat, .mkmk, es⟩ : Lookup) := by
    unfold mkmkLookupOfKey
    simp only
    rw [hes, if_neg]
    cases es with
    | nil => simp at he0
    | cons _ _ => simp
  have hused : ∀ cn, cn ∈ usedClasses (⟨feat, .mkmk, es⟩ : Lookup) → cn = cnOf i al am.name := by
    intro cn hcn
    obtain ⟨e, he, comp, hcomp, t, ht, htc⟩ := mem_usedClasses.mp hcn
    obtain ⟨x, hc, hx⟩ := hentry e he
    rw [hc] at hcomp
    simp only [mem_singleton] at hcomp; subst hcomp
    obtain ⟨y, hy, rfl⟩ := mem_compAST ht
    simp only [mem_singleton] at hy; subst hy
    rw [← htc]; exact hx
  refine ⟨_, hL, attachLookup_isSome rfl ⟨_, he0, rfl⟩ ?_ ?_⟩
  · refine ⟨(cnOf i al am.name, recs), hcls, ?_, r, hr, hrg⟩
    exact mem_usedClasses.mpr ⟨_, he0, compAST [⟨ab, cnOf i al am.name⟩], mem_singleton.mpr rfl,
      _, mem_compAST_of (mem_singleton.mpr rfl), rfl⟩
  · intro e he _ cls _ hu _
    obtain ⟨x, hc, hx⟩ := hentry e he
    have := hused cls.1 hu
    refine ⟨compAST [x], by rw [hc]; rfl, _, mem_compAST_of (mem_singleton.mpr rfl), ?_⟩
    rw [this]; exact hx

/- FULL STATEMENT: see C06Order (all features, both modes, all kinds).  PROVED below: the mark-to-mark lookups of any ONE
   feature (both modes — these lookups are per key in either mode), and the whole generated `mkmk` feature.  MISSING: the
   composition across the features of `P.lookups` (abvm / blwm / mkmk can all hold mark-to-mark lookups for one pair). -/
/-- **C06_candidate_order_mkmk_partial** (mark-to-mark, one feature): when several anchor keys match the pair (mark glyph b,
    mark m), the mark-to-mark lookups of a feature attach `m` through the pair whose key is the GREATEST among the matching
    keys that pass the anchor filter — at exactly base anchor − mark anchor of that pair. -/
theorem C06_candidate_order_mkmk_partial {i : Input} {al : AList} (w : ALwf i al) {b m : String} {ab am : NA}
    (p : Pair al b m ab am) (hok : markOK i m = true) (hpl : ab.ctx = none) (hnum : ab.number = none)
    (hmg : b ∈ mgOf i al)
    (feat : String) (inc : String → Bool) (mf : NA → Bool) (hinc : inc b = true) (hmf : mf ab = true)
    (hmax : ∀ ab' am', Pair al b m ab' am' → ab'.ctx = none → ab'.number = none → mf ab' = true → ab'.key ≤ ab.key) :
    attach (build i al) (mkmkLookups feat inc mf (maOf i al)) b m none =
      some (otRound ab.x - otRound am.x, otRound ab.y - otRound am.y) := by
  unfold attach
  rw [mkmkLookups_eq, ← filterMap_reverse, findSome?_filterMap']
  apply findSome?_reverse_sorted (sortStr_sorted _) (ks := ab.key)
  · obtain ⟨as', has', hab'⟩ := pair_prune_b w p
    have ht0 : (ab.key, b, (⟨ab, cnOf i al am.name⟩ : BAnchor)) ∈ maOf i al :=
      mkmkAtts_mem has' hmg hab' hpl hnum (pair_classOf w p hok)
    exact mem_sortStr.mpr (mem_dedupFirst.mpr (mem_map.mpr ⟨_, ht0, rfl⟩))
  · obtain ⟨L, hL, hs⟩ := mkMkmk_attach_of_pair w p hok hpl hnum hmg feat inc mf hinc hmf
    rw [hL, Option.bind_some]
    cases hd : attachLookup (build i al) L b m none with
    | none => rw [hd] at hs; simp at hs
    | some d =>
      obtain ⟨ab', am', p', hpl', hnum', _, hk', hd'⟩ := mkMkmk_attach_some w hL hd
      obtain ⟨e1, e2⟩ := pair_unique w p p' hpl hpl' hnum hnum' hk'
      rw [hd', e1, e2]
  · intro k _ hsome
    cases hG : (mkmkLookupOfKey feat inc mf (maOf i al) k).bind (fun L => attachLookup (build i al) L b m none) with
    | none => rw [hG] at hsome; simp at hsome
    | some d =>
      obtain ⟨L, hF, hd⟩ := Option.bind_eq_some_iff.mp hG
      obtain ⟨ab', am', p', hpl', hnum', hmf', hk', _⟩ := mkMkmk_attach_some w hF hd
      rw [← hk']
      exact hmax ab' am' p' hpl' hnum' hmf'

/-- **C06_candidate_order_mkmk_feature_partial**: the generated `mkmk` feature attaches a mark to a mark glyph of the not-abvm
    set through the pair of the greatest matching key. -/
theorem C06_candidate_order_mkmk_feature_partial {i : Input} {al : AList} (w : ALwf i al) {b m : String} {ab am : NA}
    (p : Pair al b m ab am) (hok : markOK i m = true) (hpl : ab.ctx = none) (hnum : ab.number = none)
    (hmg : b ∈ mgOf i al) (hinc : isNotAbvmG i b = true)
    (hmax : ∀ ab' am', Pair al b m ab' am' → ab'.ctx = none → ab'.number = none → ab'.key ≤ ab.key) :
    attach (build i al) (mkmkLOf i al) b m none = some (otRound ab.x - otRound am.x, otRound ab.y - otRound am.y) :=
  C06_candidate_order_mkmk_partial w p hok hpl hnum hmg "mkmk" (isNotAbvmG i) mfAll hinc rfl
    (fun ab' am' p' h1 h2 _ => hmax ab' am' p' h1 h2)

/-! ### non-vacuity: two matching keys on a mark glyph -/
/-- mark `acutecomb` carries `_top`, `_top.alt` and the mark-to-mark anchors `top` (100, 500), `top.alt` (150, 560); mark
    `gravecomb` has `_top` (10, 20) and `_top.alt` (30, 40): both keys match the pair (acutecomb, gravecomb) -/
def orderMkmkFont : Input :=
  { glyphs := [⟨"acutecomb", [{ name := "_top", x := 0, y := 0 }, { name := "_top.alt", x := 5, y := 5 },
                               { name := "top", x := 100, y := 500 }, { name := "top.alt", x := 150, y := 560 }]⟩,
               ⟨"gravecomb", [{ name := "_top", x := 10, y := 20 }, { name := "_top.alt", x := 30, y := 40 }]⟩],
    gdef := none, quant := 1, group := false, abvm := [], notAbvm := ["acutecomb", "gravecomb"] }

def orderMkmkAL : AList :=
  [("acutecomb", [⟨"_top", 0, 0, true, "top", none, none⟩, ⟨"_top.alt", 5, 5, true, "top.alt", none, none⟩,
                  ⟨"top", 100, 500, false, "top", none, none⟩, ⟨"top.alt", 150, 560, false, "top.alt", none, none⟩]),
   ("gravecomb", [⟨"_top", 10, 20, true, "top", none, none⟩, ⟨"_top.alt", 30, 40, true, "top.alt", none, none⟩])]

theorem orderMkmkFont_al : anchorLists orderMkmkFont = .ok orderMkmkAL := by
  have h : (match anchorLists orderMkmkFont with | .ok al => decide (al = orderMkmkAL) | .error _ => false) = true := by
    decide +kernel
  cases h' : anchorLists orderMkmkFont with
  | ok al => rw [h'] at h; simpa using h
  | error e => rw [h'] at h; simp at h

/-- the hypotheses of C06_candidate_order_mkmk_feature_partial (hence of C06_candidate_order_mkmk_partial) are met by a pair
    with TWO matching keys; the greater key `top.alt` wins: (150 − 30, 560 − 40), not the `top` candidate (90, 480) -/
example : attach (build orderMkmkFont orderMkmkAL) (mkmkLOf orderMkmkFont orderMkmkAL) "acutecomb" "gravecomb" none =
    some (120, 520) := by
  have w : ALwf orderMkmkFont orderMkmkAL := alwf_of_ok (by decide) orderMkmkFont_al
  have p : Pair orderMkmkAL "acutecomb" "gravecomb" ⟨"top.alt", 150, 560, false, "top.alt", none, none⟩
      ⟨"_top.alt", 30, 40, true, "top.alt", none, none⟩ :=
    ⟨⟨_, List.Mem.head _, List.Mem.tail _ (List.Mem.tail _ (List.Mem.tail _ (List.Mem.head _)))⟩,
     ⟨_, List.Mem.tail _ (List.Mem.head _), List.Mem.tail _ (List.Mem.head _)⟩, rfl, rfl, rfl, rfl⟩
  have h := C06_candidate_order_mkmk_feature_partial w p (by decide) rfl rfl (by decide +kernel) (by decide) (by
      intro ab' am' p' _ _
      obtain ⟨as, has, ha⟩ := p'.hb
      have hnb := p'.nb
      simp [orderMkmkAL] at has
      subst has
      simp at ha
      rcases ha with rfl | rfl | rfl | rfl
      · simp at hnb
      · simp at hnb
      · decide
      · decide)
  rw [h]
  decide +kernel

end Ufo2ft.C06
