import Ufo2ftModel.Props.C06Complete
import Ufo2ftModel.Props.C06CtxSound
/-! C06, part 19: contextual completeness — every eligible contextual anchor gets its referenced lookup and dispatch line. -/
namespace Ufo2ft.C06
open List

/-- the dispatch lookups have the line `l` under the text `b` -/
def HasLine (D : List (String × List (String × String))) (b : String) (l : String × String) : Prop :=
  ∃ d ∈ D, d.1 = b ∧ l ∈ d.2

theorem dispAdd_keeps {D : List (String × List (String × String))} {b b' : String} {l l' : String × String}
    (h : HasLine D b l) : HasLine (dispAdd D b' l') b l := by
  obtain ⟨d, hd, hb, hl⟩ := h
  unfold dispAdd
  split
  · by_cases e : (d.1 == b') = true
    · exact ⟨(d.1, d.2 ++ [l']), mem_map.mpr ⟨d, hd, by simp [e]⟩, hb, by simp [hl]⟩
    · exact ⟨d, mem_map.mpr ⟨d, hd, by simp [e]⟩, hb, hl⟩
  · exact ⟨d, by simp [hd], hb, hl⟩

theorem dispAdd_has (D : List (String × List (String × String))) (b : String) (l : String × String) :
    HasLine (dispAdd D b l) b l := by
  unfold dispAdd
  split
  · rename_i h
    obtain ⟨d, hd, hdb⟩ := any_eq_true.mp h
    exact ⟨(d.1, d.2 ++ [l]), mem_map.mpr ⟨d, hd, by simp [hdb]⟩, by simpa using hdb, by simp⟩
  · exact ⟨(b, [l]), by simp, rfl, by simp⟩

theorem ctxStep_some {km : List (String × String)} {feat pre : String} {kind : Kind} {c k cls : String} {names : List String}
    {entries : List Entry} {st st' : CtxFeature} (hc : ctxClass km k = some cls)
    (h : ctxStep km feat pre kind c k names entries st = .ok st') :
    ∃ before after text, splitCtx c = .ok (before, after) ∧
      st'.refs = st.refs ++ [⟨feat, kind, keepLast entries⟩] ∧ st'.disp = dispAdd st.disp before ("# " ++ after, text) := by
  unfold ctxStep at h
  rw [hc] at h
  simp only at h
  cases hs : splitCtx c with
  | error e => rw [hs] at h; simp at h
  | ok ba =>
    rw [hs] at h
    simp only [Except.ok.injEq] at h
    subst h
    exact ⟨ba.1, ba.2, _, rfl, rfl, rfl⟩

theorem ctxStep_none {km : List (String × String)} {feat pre : String} {kind : Kind} {c k : String} {names : List String}
    {entries : List Entry} {st : CtxFeature} (hc : ctxClass km k = none) :
    ctxStep km feat pre kind c k names entries st = .ok st := by
  simp [ctxStep, hc]

section Fold
variable (al : AList) (km : List (String × String)) (feat pre : String) (d : Dest) (atts : List (String × String × NA))

/-- the loop only adds referenced lookups and dispatch lines -/
theorem ctxFold_mono (l : List (String × String)) (s s' : CtxFeature)
    (h : l.foldl (ctxWorkStep al km feat pre d atts) (.ok s) = .ok s') :
    (∀ L ∈ s.refs, L ∈ s'.refs) ∧ ∀ b ln, HasLine s.disp b ln → HasLine s'.disp b ln := by
  induction l generalizing s with
  | nil => simp only [foldl_nil, Except.ok.injEq] at h; subst h; exact ⟨fun _ h => h, fun _ _ h => h⟩
  | cons ck l ih =>
    simp only [foldl_cons] at h
    cases hstep : ctxWorkStep al km feat pre d atts (.ok s) ck with
    | error e => rw [hstep, foldl_ctxWorkStep_error] at h; simp at h
    | ok s1 =>
      rw [hstep] at h
      obtain ⟨i1, i2⟩ := ih s1 h
      have hs : ctxStep km feat pre (kindOfDest d) ck.1 ck.2 ((ctxSel atts ck).map (·.2.1))
          ((ctxSel atts ck).map (fun t => ctxEntry al km d t.2.1 t.2.2)) s = .ok s1 := by simpa [ctxWorkStep] using hstep
      cases hc : ctxClass km ck.2 with
      | none =>
        rw [ctxStep_none hc] at hs
        simp only [Except.ok.injEq] at hs; subst hs
        exact ⟨i1, i2⟩
      | some cls =>
        obtain ⟨before, after, text, _, hr, hd⟩ := ctxStep_some hc hs
        refine ⟨fun L hL => i1 L (by rw [hr]; simp [hL]), fun b ln hh => i2 b ln (by rw [hd]; exact dispAdd_keeps hh)⟩

/-- a processed (context, key) whose key has a mark class leaves its referenced lookup and its dispatch line -/
theorem ctxFold_contains (l : List (String × String)) (s s' : CtxFeature)
    (h : l.foldl (ctxWorkStep al km feat pre d atts) (.ok s) = .ok s') {ck : String × String} (hck : ck ∈ l)
    {cls : String} (hc : ctxClass km ck.2 = some cls) :
    ∃ before after text, splitCtx ck.1 = .ok (before, after) ∧
      (⟨feat, kindOfDest d, keepLast ((ctxSel atts ck).map (fun t => ctxEntry al km d t.2.1 t.2.2))⟩ : Lookup) ∈ s'.refs ∧
      HasLine s'.disp before ("# " ++ after, text) := by
  induction l generalizing s with
  | nil => simp at hck
  | cons ck0 l ih =>
    simp only [foldl_cons] at h
    cases hstep : ctxWorkStep al km feat pre d atts (.ok s) ck0 with
    | error e => rw [hstep, foldl_ctxWorkStep_error] at h; simp at h
    | ok s1 =>
      rw [hstep] at h
      rcases mem_cons.mp hck with rfl | hck
      · have hs : ctxStep km feat pre (kindOfDest d) ck.1 ck.2 ((ctxSel atts ck).map (·.2.1))
            ((ctxSel atts ck).map (fun t => ctxEntry al km d t.2.1 t.2.2)) s = .ok s1 := by simpa [ctxWorkStep] using hstep
        obtain ⟨before, after, text, hsp, hr, hd⟩ := ctxStep_some hc hs
        obtain ⟨m1, m2⟩ := ctxFold_mono al km feat pre d atts l s1 s' h
        exact ⟨before, after, text, hsp, m1 _ (by rw [hr]; simp), m2 _ _ (by rw [hd]; exact dispAdd_has _ _ _)⟩
      · exact ih s1 h hck

end Fold

theorem mem_ctxWork {atts : List (String × String × NA)} {t : String × String × NA} (h : t ∈ atts) :
    (t.1, t.2.2.key) ∈ ctxWork atts := by
  unfold ctxWork
  refine mem_flatMap.mpr ⟨t.1, ?_, ?_⟩
  · unfold ctxOrder
    rw [(mergeSort_perm _ _).mem_iff, mem_dedupFirst]
    exact mem_map.mpr ⟨t, h, rfl⟩
  · refine mem_map.mpr ⟨t.2.2.key, ?_, rfl⟩
    rw [mem_dedupFirst]
    exact mem_map.mpr ⟨t, mem_filter.mpr ⟨h, by simp⟩, rfl⟩

theorem mem_ofDest_of {atts : List (Dest × String × String × NA)} {d : Dest} {t : String × String × NA}
    (h : (d, t) ∈ atts) : t ∈ ofDest atts d :=
  mem_map.mpr ⟨(d, t), mem_filter.mpr ⟨h, by simp⟩, rfl⟩

/-- the contextual part of the feature that carries destination `d` -/
def ctxPartOf (cm ck : CtxFeature) : Dest → CtxFeature
  | .mark => ck
  | _ => cm

def ctxFeatOf : Dest → String
  | .mark => "mkmk"
  | _ => "mark"

/-- every contextual attachment whose key has a mark class ends up in a referenced lookup of its feature, with its context
    dispatched -/
theorem ctxFeatures_contains {i : Input} {al : AList} {cm ck : CtxFeature} (h : ctxFeatures i al = .ok (cm, ck))
    {d : Dest} {t : String × String × NA} (ht : (d, t) ∈ ctxAtts i (prune al) (mgOf i al) (kmOf i al))
    {cls : String} (hc : ctxClass (kmOf i al) t.2.2.key = some cls) :
    ∃ before after text, splitCtx t.1 = .ok (before, after) ∧
      (⟨ctxFeatOf d, kindOfDest d, keepLast ((ctxSel (ofDest (ctxAtts i (prune al) (mgOf i al) (kmOf i al)) d) (t.1, t.2.2.key)).map
        (fun t' => ctxEntry (prune al) (kmOf i al) d t'.2.1 t'.2.2))⟩ : Lookup) ∈ (ctxPartOf cm ck d).refs ∧
      HasLine (ctxPartOf cm ck d).disp before ("# " ++ after, text) := by
  unfold ctxFeatures at h
  simp only at h
  cases h1 : ctxDest (prune al) (makeClassesFrom (preClasses i.pre) (markEntries i (prune al) (markNames al))).keyMap
      "mark" "ContextualMark" .base
      (ofDest (ctxAtts i (prune al) ((markEntries i (prune al) (markNames al)).map (·.1))
        (makeClassesFrom (preClasses i.pre) (markEntries i (prune al) (markNames al))).keyMap) .base) ⟨[], []⟩ with
  | error e => rw [h1] at h; simp at h
  | ok s1 =>
    rw [h1] at h; simp only at h
    cases h2 : ctxDest (prune al) (makeClassesFrom (preClasses i.pre) (markEntries i (prune al) (markNames al))).keyMap
        "mark" "ContextualMark" .lig
        (ofDest (ctxAtts i (prune al) ((markEntries i (prune al) (markNames al)).map (·.1))
          (makeClassesFrom (preClasses i.pre) (markEntries i (prune al) (markNames al))).keyMap) .lig) s1 with
    | error e => rw [h2] at h; simp at h
    | ok s2 =>
      rw [h2] at h; simp only at h
      cases h3 : ctxDest (prune al) (makeClassesFrom (preClasses i.pre) (markEntries i (prune al) (markNames al))).keyMap
          "mkmk" "ContextualMarkToMark" .mark
          (ofDest (ctxAtts i (prune al) ((markEntries i (prune al) (markNames al)).map (·.1))
            (makeClassesFrom (preClasses i.pre) (markEntries i (prune al) (markNames al))).keyMap) .mark) ⟨[], []⟩ with
      | error e => rw [h3] at h; simp at h
      | ok s3 =>
        rw [h3] at h
        simp only [Except.ok.injEq, Prod.mk.injEq] at h
        obtain ⟨rfl, rfl⟩ := h
        have hw := mem_ctxWork (mem_ofDest_of ht)
        cases d with
        | base =>
          obtain ⟨before, after, text, hsp, hL, hl⟩ := ctxFold_contains _ _ _ _ _ _ _ _ _ h1 hw hc
          obtain ⟨m1, m2⟩ := ctxFold_mono _ _ _ _ _ _ _ _ _ h2
          exact ⟨before, after, text, hsp, m1 _ hL, m2 _ _ hl⟩
        | lig => exact ctxFold_contains _ _ _ _ _ _ _ _ _ h2 hw hc
        | mark => exact ctxFold_contains _ _ _ _ _ _ _ _ _ h3 hw hc


/-! ### helpers -/

theorem eq_of_filter_length_one {α} {p : α → Bool} {l : List α} (h : (l.filter p).length = 1) {x y : α}
    (hx : x ∈ l) (hy : y ∈ l) (px : p x = true) (py : p y = true) : x = y := by
  have hx' : x ∈ l.filter p := mem_filter.mpr ⟨hx, px⟩
  have hy' : y ∈ l.filter p := mem_filter.mpr ⟨hy, py⟩
  match hl : l.filter p with
  | [] => rw [hl] at h; simp at h
  | [z] => rw [hl] at hx' hy'; simp only [mem_singleton] at hx' hy'; rw [hx', hy']
  | _ :: _ :: _ => rw [hl] at h; simp at h

/-- an entry whose glyph has no different rival in the list survives `keepLast` -/
theorem mem_keepLast_of {l : List Entry} {e : Entry} (he : e ∈ l) (hu : ∀ e' ∈ l, e'.glyph = e.glyph → e' = e) :
    e ∈ keepLast l := by
  induction l with
  | nil => simp at he
  | cons x l ih =>
    simp only [keepLast]
    split
    · rename_i hany
      -- a later entry has the glyph of x
      rcases mem_cons.mp he with rfl | he'
      · obtain ⟨e', he', hg⟩ := any_eq_true.mp hany
        have := hu e' (by simp [he']) (by simpa using hg)
        exact ih (this ▸ he') (fun e'' h'' hg'' => hu e'' (by simp [h'']) hg'')
      · exact ih he' (fun e'' h'' hg'' => hu e'' (by simp [h'']) hg'')
    · rcases mem_cons.mp he with rfl | he'
      · simp
      · exact mem_cons_of_mem _ (ih he' (fun e'' h'' hg'' => hu e'' (by simp [h'']) hg''))

theorem ctxEntry_glyph (al : AList) (km : List (String × String)) (d : Dest) (g : String) (a : NA) :
    (ctxEntry al km d g a).glyph = g := by
  unfold ctxEntry; cases d <;> rfl

/-- every anchor of a contextual statement refers to the class of the anchor's key -/
theorem ctxEntry_class {al : AList} {km : List (String × String)} {d : Dest} {g : String} {a : NA}
    {comp : List (String × Int × Int)} (hc : comp ∈ (ctxEntry al km d g a).comps) {t : String × Int × Int} (ht : t ∈ comp) :
    t.1 = (alookup a.key km).getD "" := by
  unfold ctxEntry at hc
  cases d with
  | lig =>
    simp only [mem_map] at hc
    obtain ⟨j, _, rfl⟩ := hc
    split at ht
    · obtain ⟨x, hx, rfl⟩ := mem_compAST ht
      simp only [mem_singleton] at hx; subst hx; rfl
    · simp at ht
  | base =>
    simp only [mem_singleton] at hc; subst hc
    obtain ⟨x, hx, rfl⟩ := mem_compAST ht
    simp only [mem_singleton] at hx; subst hx; rfl
  | mark =>
    simp only [mem_singleton] at hc; subst hc
    obtain ⟨x, hx, rfl⟩ := mem_compAST ht
    simp only [mem_singleton] at hx; subst hx; rfl

/-- the statement of a contextual anchor has, at the queried component, the anchor for the class of its key -/
theorem ctxEntry_comp {al : AList} {km : List (String × String)} {d : Dest} {g : String} {a : NA} {cls : String}
    (hcls : alookup a.key km = some cls) (c : Option Nat)
    (hnum : a.number = c.map (· + 1)) (hd : (d = .lig) ↔ c.isSome = true)
    (hcount : ∀ j, c = some j → j < ligCompCount al g) :
    ∃ comp, (ctxEntry al km d g a).comps[c.getD 0]? = some comp ∧ (cls, otRound a.x, otRound a.y) ∈ comp := by
  unfold ctxEntry
  rw [hcls]
  simp only [Option.getD_some]
  cases c with
  | none =>
    have hdl : d ≠ .lig := fun e => by have := hd.mp e; simp at this
    cases d with
    | lig => exact absurd rfl hdl
    | base => exact ⟨_, rfl, mem_compAST_of (b := ⟨a, cls⟩) (by simp)⟩
    | mark => exact ⟨_, rfl, mem_compAST_of (b := ⟨a, cls⟩) (by simp)⟩
  | some j =>
    have hdl : d = .lig := hd.mpr rfl
    subst hdl
    simp only [Option.getD_some, getElem?_map]
    have hj := hcount j rfl
    rw [getElem?_range hj]
    simp only [Option.map_some]
    have : (some (j + 1) == a.number) = true := by rw [hnum]; simp
    rw [if_pos this]
    exact ⟨_, rfl, mem_compAST_of (b := ⟨a, cls⟩) (by simp)⟩


theorem answersKey_of_shape {nm : List Char} {a : NA} (hs : NAShapeOn nm a) (hnm : a.isMark = false) :
    answersKey a.key.toList nm = true := by
  unfold answersKey
  cases hnum : a.number with
  | none =>
    obtain ⟨e, _⟩ := hs.base hnm hnum
    simp [e]
  | some n =>
    obtain ⟨_, hl, _⟩ := hs.lig hnm n hnum
    simp only [isLigName, Bool.and_eq_true, Bool.not_eq_true'] at hl
    obtain ⟨⟨⟨h1, h2⟩, h3⟩, _⟩ := hl
    simp [h1, h2, h3]

/-- **contextual completeness** (model level): an eligible contextual anchor gets a referenced lookup of its feature that
    attaches the mark, and its context is dispatched -/
theorem ctx_complete {i : Input} {al : AList} (w : ALwf i al) (cv : ALcov i al) (hnd : (i.glyphs.map (·.name)).Nodup)
    {cm ck : CtxFeature} (h : ctxFeatures i al = .ok (cm, ck)) {gb gm : SrcGlyph} (hgb : gb ∈ i.glyphs)
    (hgm : gm ∈ i.glyphs) {sb : SrcAnchor} (hsb : sb ∈ gb.anchors) {c : Option Nat}
    (he : ctxEligible i gb gm c sb = true) :
    ∃ F, (F = cm ∧ ctxFeatureOf i gb = "mark" ∨ F = ck ∧ ctxFeatureOf i gb = "mkmk") ∧
      (∃ L ∈ F.refs, (attachLookup (build i al) L gb.name gm.name c).isSome = true) ∧
      ∀ before after, splitCtx (ctxOfSrc sb) = .ok (before, after) → ∃ text, HasLine F.disp before ("# " ++ after, text) := by
  have hfb := findGlyph_of_mem hnd hgb
  simp only [ctxEligible, Bool.and_eq_true, bne_iff_ne, ne_eq, beq_iff_eq, any_eq_true] at he
  obtain ⟨⟨⟨⟨⟨⟨⟨⟨hlib, hstar⟩, hctxne⟩, hincb⟩, hincm⟩, hokm⟩, hdest⟩, hcount⟩, sm, hsm, hmatch⟩ := he
  cases hmk : markKey sm.name.toList with
  | none => rw [hmk] at hmatch; simp at hmatch
  | some k =>
    rw [hmk] at hmatch
    simp only [Bool.and_eq_true, all_eq_true, Bool.or_eq_true, beq_iff_eq, Bool.not_eq_true'] at hmatch
    obtain ⟨⟨hpk, hbm⟩, hall⟩ := hmatch
    obtain ⟨hn, _⟩ := markKey_some hmk
    -- the NamedAnchors
    obtain ⟨amN, ⟨asm, hasm, hamN⟩, hmm, hmkey, hmname⟩ := na_of_src_mark cv hgm hincm hsm hn hpk
    have hpair : baseNameMatches k c (pairName sb) = true := by
      unfold pairName; rw [hlib]; exact hbm
    obtain ⟨a, ⟨asb, hasb, ha⟩, hnb, hakey, hanum, haname⟩ := na_of_src_side cv hgb hincb hsb hpk c hpair
    have hstar' : (a.name.toList.head? == some '*') = true := by rw [haname]; simpa using hstar
    -- the context of the NamedAnchor is the lib data of `sb`
    obtain ⟨c0, hc0⟩ : ∃ c0, a.ctx = some c0 := by
      cases hc : a.ctx with
      | some c0 => exact ⟨c0, rfl⟩
      | none => have := w.nostar _ hasb a ha hc; rw [hstar'] at this; simp at this
    have hsblib : sb.lib = some c0 := by
      obtain ⟨sg, hsg, _, hsrc⟩ := w.src _ hasb
      simp only at hsg
      rw [hfb] at hsg
      simp only [Option.some.injEq] at hsg; subst hsg
      obtain ⟨s, hs, hsn, _, _, hsl⟩ := hsrc a ha
      have : s = sb := eq_of_filter_length_one (p := fun a2 => a2.name == sb.name) hcount hs hsb
        (by simp [hsn, haname]) (by simp)
      rw [← this]; exact hsl c0 hc0
    have hctx : ctxOfSrc sb = stripSp c0 := by unfold ctxOfSrc; rw [hsblib]; rfl
    have hne0 : stripSp c0 ≠ "" := by rw [← hctx]; exact hctxne
    -- pairing
    have hplm : amN.ctx = none := plain_of_us w hasm hamN (by rw [hmname]; exact hn)
    have p : Pair al gb.name gm.name a amN :=
      ⟨⟨asb, hasb, ha⟩, ⟨asm, hasm, hamN⟩, hnb, hmm, hplm, by rw [hmkey, hakey]⟩
    obtain ⟨as', has', ha'⟩ := pair_prune_b w p
    have hcl := pair_classOf w p hokm
    obtain ⟨recs, hcls, r, hr, hrg⟩ := pair_class w p hokm
    obtain ⟨_, hkne, _⟩ := classOf_kmOf w hcl
    have hlook := classOf_alookup hcl
    have hcc : ctxClass (kmOf i al) a.key = some (cnOf i al amN.name) := by
      unfold ctxClass
      have : (a.key == "") = false := by simpa using hkne
      rw [this]; exact hlook
    -- the destination
    have hmgiff : gb.name ∈ mgOf i al ↔ isMarkGlyph i gb = true :=
      ⟨fun hh => isMarkGlyph_of_mg w hfb hh, fun hh => mg_of_isMarkGlyph w cv hfb hh⟩
    obtain ⟨dd, hdd, hfeat, hkind, hlig⟩ : ∃ dd, ctxDestOf i (mgOf i al) (kmOf i al) gb.name a = some dd ∧
        ctxFeatOf dd = ctxFeatureOf i gb ∧ kindMatches (kindOfDest dd) c = true ∧ ((dd = .lig) ↔ c.isSome = true) := by
      unfold ctxDestOf ctxFeatureOf
      cases c with
      | none =>
        simp only [Option.map_none] at hanum
        by_cases hmg : isMarkGlyph i gb = true
        · have : gb.name ∈ mgOf i al := hmgiff.mpr hmg
          refine ⟨.mark, ?_, by simp [ctxFeatOf, hmg], rfl, by simp⟩
          simp [this, hcl, hnb, hanum]
        · have : gb.name ∉ mgOf i al := fun hh => hmg (hmgiff.mp hh)
          have hbl : (baseOK i gb.name || ligIn i gb.name) = true := by
            simp only [Bool.or_eq_true] at hdest ⊢
            rcases hdest with (hh | hh) | hh
            · exact absurd hh hmg
            · exact Or.inl hh
            · exact Or.inr hh
          refine ⟨.base, ?_, by simp [ctxFeatOf, hmg], rfl, by simp⟩
          simp [this, hanum, hbl]
      | some j =>
        simp only [Option.map_some] at hanum
        simp only [Bool.and_eq_true, Bool.not_eq_true'] at hdest
        have : gb.name ∉ mgOf i al := fun hh => by have := hmgiff.mp hh; rw [hdest.1] at this; simp at this
        refine ⟨.lig, ?_, by simp [ctxFeatOf, hdest.1], rfl, by simp⟩
        simp [this, hanum, hdest.2]
    -- the attachment is processed
    have hatt := mem_ctxAtts_of (i := i) (mg := mgOf i al) (km := kmOf i al) has' ha' hc0 hdd hne0
    obtain ⟨before, after, text, hsp, hL, hline⟩ := ctxFeatures_contains h hatt hcc
    simp only at hsp hL hline
    refine ⟨ctxPartOf cm ck dd, ?_, ⟨_, hL, ?_⟩, ?_⟩
    · cases dd with
      | mark => exact Or.inr ⟨rfl, by rw [← hfeat]; rfl⟩
      | base => exact Or.inl ⟨rfl, by rw [← hfeat]; rfl⟩
      | lig => exact Or.inl ⟨rfl, by rw [← hfeat]; rfl⟩
    · -- the referenced lookup attaches the mark
      -- every rival statement for this glyph is this very anchor
      have huniq : ∀ t' ∈ ctxSel (ofDest (ctxAtts i (prune al) (mgOf i al) (kmOf i al)) dd) (stripSp c0, a.key),
          t'.2.1 = gb.name → t'.2.2 = a := by
        intro t' ht' hg
        obtain ⟨ht'1, ht'2⟩ := mem_filter.mp ht'
        simp only [Bool.and_eq_true, beq_iff_eq] at ht'2
        obtain ⟨⟨as2', has2', ha2'⟩, ⟨c2, hc2, hc2s⟩, _, _⟩ := mem_ctxAtts (mem_ofDest ht'1)
        simp only at has2' ha2' hc2 hc2s
        rw [hg] at has2'
        obtain ⟨_, as2, has2, e2⟩ := mem_prune has2'
        simp only at e2
        rw [e2] at ha2'
        obtain ⟨ha2, hkeep2⟩ := mem_filter.mp ha2'
        have hasEq : as2 = asb := mem_unique_of_nodup_keys w.keys has2 hasb
        subst hasEq
        have hk2 : t'.2.2.key ≠ "" := by rw [ht'2.2]; exact hkne
        have hnm2 := ctx_nonmark w has2 ha2 hkeep2 hc2 hk2
        obtain ⟨hstar2, hsh2⟩ := w.cshape _ has2 _ ha2 c2 hc2
        obtain ⟨sg, hsg, _, hsrc⟩ := w.src _ has2
        simp only at hsg
        rw [hfb] at hsg
        simp only [Option.some.injEq] at hsg; subst hsg
        obtain ⟨s2, hs2, hs2n, _, _, hs2l⟩ := hsrc _ ha2
        have hcomp : ctxCompetes k (ctxOfSrc sb) s2 = true := by
          unfold ctxCompetes
          have h1 : s2.lib.isSome = true := by rw [hs2l c2 hc2]; rfl
          have h2 : (s2.name.toList.head? == some '*') = true := by rw [hs2n]; exact hstar2
          have h3 : ctxOfSrc s2 = ctxOfSrc sb := by
            rw [hctx]; unfold ctxOfSrc; rw [hs2l c2 hc2]; simp only [Option.getD_some]; rw [← hc2s, ht'2.1]
          have h4 : answersKey k (effName s2.name.toList) = true := by
            have := answersKey_of_shape hsh2 hnm2
            rw [ht'2.2, hakey, String.toList_ofList] at this
            rw [hs2n]; exact this
          simp [h1, h2, h3, h4]
        have hname : s2.name = sb.name := by
          rcases hall s2 hs2 with hh | hh
          · exact hh
          · rw [hcomp] at hh; simp at hh
        have hnames : t'.2.2.name = a.name := by rw [← hs2n, hname, haname]
        exact injOn_of_nodup_map (w.names _ has2) _ ha2 _ ha hnames
      have hsel : (stripSp c0, gb.name, a) ∈
          ctxSel (ofDest (ctxAtts i (prune al) (mgOf i al) (kmOf i al)) dd) (stripSp c0, a.key) :=
        mem_filter.mpr ⟨mem_ofDest_of hatt, by simp⟩
      have hent : ctxEntry (prune al) (kmOf i al) dd gb.name a ∈
          keepLast ((ctxSel (ofDest (ctxAtts i (prune al) (mgOf i al) (kmOf i al)) dd) (stripSp c0, a.key)).map
            (fun t' => ctxEntry (prune al) (kmOf i al) dd t'.2.1 t'.2.2)) := by
        apply mem_keepLast_of (mem_map.mpr ⟨_, hsel, rfl⟩)
        intro e' he' hg'
        obtain ⟨t', ht', rfl⟩ := mem_map.mp he'
        rw [ctxEntry_glyph, ctxEntry_glyph] at hg'
        rw [huniq t' ht' hg', hg']
      -- the component the query asks for
      have hcountLig : ∀ j, c = some j → j < ligCompCount (prune al) gb.name := by
        intro j hj
        subst hj
        simp only [Option.map_some] at hanum
        unfold ligCompCount
        rw [alookup_of_mem_nodup ((prune_keys_sublist al).nodup w.keys) has']
        simp only [Option.getD_some]
        have : j + 1 ≤ maxNat (as'.filterMap (fun a => if a.key == "" then none else a.number)) :=
          le_maxNat (mem_filterMap.mpr ⟨a, ha', by simp [hkne, hanum]⟩)
        omega
      obtain ⟨comp0, hcomp0, ht0⟩ := ctxEntry_comp (al := prune al) (d := dd) (g := gb.name) hlook c hanum hlig hcountLig
      -- all classes the lookup refers to are the class of the key
      have hused : ∀ cn, cn ∈ usedClasses (⟨ctxFeatOf dd, kindOfDest dd,
          keepLast ((ctxSel (ofDest (ctxAtts i (prune al) (mgOf i al) (kmOf i al)) dd) (stripSp c0, a.key)).map
            (fun t' => ctxEntry (prune al) (kmOf i al) dd t'.2.1 t'.2.2))⟩ : Lookup) → cn = cnOf i al amN.name := by
        intro cn hcn
        obtain ⟨e', he', comp', hcomp', t', ht', htc'⟩ := mem_usedClasses.mp hcn
        obtain ⟨t2, ht2, rfl⟩ := mem_map.mp (mem_keepLast he')
        have hk2 := (mem_filter.mp ht2).2
        simp only [Bool.and_eq_true, beq_iff_eq] at hk2
        have := ctxEntry_class hcomp' ht'
        rw [hk2.2, hlook] at this
        rw [← htc', this]; rfl
      refine attachLookup_isSome hkind ⟨_, hent, ctxEntry_glyph _ _ _ _ _⟩ ?_ ?_
      · refine ⟨(cnOf i al amN.name, recs), hcls, ?_, r, hr, hrg⟩
        exact mem_usedClasses.mpr ⟨_, hent, comp0, mem_of_getElem? hcomp0, _, ht0, rfl⟩
      · intro e' he' hg' cls' _ hu' _
        obtain ⟨t2, ht2, rfl⟩ := mem_map.mp (mem_keepLast he')
        rw [ctxEntry_glyph] at hg'
        rw [huniq t2 ht2 hg', hg']
        exact ⟨comp0, hcomp0, _, ht0, (hused _ hu').symm⟩
    · intro b' a'' hsp'
      rw [hctx, hsp] at hsp'
      simp only [Except.ok.injEq, Prod.mk.injEq] at hsp'
      obtain ⟨rfl, rfl⟩ := hsp'
      exact ⟨text, hline⟩

end Ufo2ft.C06
