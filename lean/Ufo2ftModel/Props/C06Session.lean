import Ufo2ftModel.Props.C06
import Ufo2ftModel.Model.C06Session
/-!
C06, writer re-use: what one MarkFeatureWriter instance generates for the n-th font of a session is what a fresh
instance generates for that font alone, hence the C06 predicates hold of every font of a session.
-/
namespace Ufo2ft.C06
open List

/-- **C06_session_history_free**: the outputs of a session are the single-font outputs, font by font, whatever the
    instance did before (including runs that raised). -/
theorem C06_session_history_free (w : Writer) (fonts : List Input) :
    (w.session fonts).2 = fonts.map modelX := by
  induction fonts generalizing w with
  | nil => rfl
  | cons f fs ih => simp only [Writer.session, List.map_cons, ih]; rfl

/-- **C06_session_holds**: every font of a session (at any position, after any history) that the writer accepts gets
    lookups whose attachment table satisfies the three C06 predicates evaluated against THAT font's anchors. -/
theorem C06_session_holds (w : Writer) (fonts : List Input) (n : Nat) (i : Input) (X : ProgramX)
    (hi : fonts[n]? = some i) (hX : (w.session fonts).2[n]? = some (.ok X)) (hwf : wf0 i = true) (K : Nat) :
    holdsOffset i (tableOf X.plain X.plain.lookups (allQueries i K)) = true ∧
    holdsSound i (tableOf X.plain X.plain.lookups (allQueries i K)) = true ∧
    holdsComplete i K (tableOf X.plain X.plain.lookups (allQueries i K)) = true := by
  rw [C06_session_history_free, List.getElem?_map, hi] at hX
  simp only [Option.map_some, Option.some.injEq] at hX
  exact C06_holds_general i X hwf hX K

end Ufo2ft.C06
