import Ufo2ftModel.Props.C13VFCert
/-!
C13 (variable fonts): **totality** of the model of `SkipExportGlyphsIFilter` on well-formed families.

`skipFamily` can return four errors.  Where they come from, and why none occurs:
* `.assertion` / `.cyclic` / `.recursion` from `orderI` (`getMaxComponentDepth` of every name in the first glyph set that has
  it; fuel = size of that glyph set + 2): a name of the order that no source has; a glyph stored under a key that is not
  its name; a component cycle.  Excluded by: the order lists names of the family only, `Named`, `WF.ranked` (the
  fuel suffices: a chain of present glyphs is no longer than the glyph set — `countRank`).
* `.assertion` from `ensureLoop` (`assert glyphName not in glyphSet`): never — the locations to add are those the glyph has no
  source at.  `.missing n` from `ensureLoop` (the Instantiator cannot interpolate `n`): never — an affected glyph has a source,
  so the default source has it (`WF.defaultFull`), and all its masters are alike.
* `.missing b` from the decomposition: a component refers to a SKIPPED glyph `b` that no source has.  THIS CAN HAPPEN on a
  `WFSkip` family (`dangling_witness` below) — and the real filter raises `MissingComponentError` on the same input
  (`decomposeCompositeGlyph(..., skipMissing=False)`).  Hypothesis `SkipRefs`: every skipped component base exists in the
  default source.
* `.recursion` from the decomposition (fuel = size of the `InterpolatedLayer` + 1): never — the glyph being decomposed is in
  the layer, and a chain below it is shorter than the layer.
-/
namespace Ufo2ft.C13
open Ufo2ft Ufo2ft.C09 List

/-! ### the decomposing pen succeeds -/

/-- every included component base of a glyph of `G` is in `G` -/
def RefsIn (G : GlyphSet) (incl : Option (List String)) : Prop :=
  ∀ n g, G.get? n = some g → ∀ k ∈ g.comps, isIncluded incl k.base = true → (G.get? k.base).isSome = true

theorem addComp_total (G : GlyphSet) (r : String → Nat) (hr : RankedP G r) (incl : Option (List String))
    (hrefs : RefsIn G incl) (rf : Bool) : ∀ F,
    (∀ base t, 1 ≤ F → (isIncluded incl base = true → (G.get? base).isSome = true ∧ r base + 2 ≤ F) →
      ∃ d, addComp F G rf false incl base t = .ok d) ∧
    (∀ t ks, (ks ≠ [] → 1 ≤ F) → (∀ k ∈ ks, isIncluded incl k.base = true → (G.get? k.base).isSome = true ∧ r k.base + 2 ≤ F) →
      ∃ d, addComps F G rf false incl t ks = .ok d) := by
  intro F
  induction F with
  | zero =>
    refine ⟨fun _ _ h => by omega, ?_⟩
    intro t ks h0 _
    cases ks with
    | nil => exact ⟨⟨[], []⟩, by simp only [addComps]⟩
    | cons k ks => exact absurd (h0 (by simp)) (by omega)
  | succ F ih =>
    have h1 : ∀ base t, 1 ≤ F + 1 → (isIncluded incl base = true → (G.get? base).isSome = true ∧ r base + 2 ≤ F + 1) →
        ∃ d, addComp (F + 1) G rf false incl base t = .ok d := by
      intro base t _ hb
      unfold addComp
      by_cases hi : isIncluded incl base = true
      · rw [if_pos hi]
        obtain ⟨hs, hrk⟩ := hb hi
        obtain ⟨b, hbb⟩ := Option.isSome_iff_exists.mp hs
        rw [hbb]
        dsimp only
        rw [inclNested_false]
        obtain ⟨d, hd⟩ := ih.2 t b.comps (fun _ => by omega) (by
          intro k hk hik
          have hp := hrefs base b hbb k hk hik
          have := hr base b hbb k hk hp
          exact ⟨hp, by omega⟩)
        rw [hd]
        exact ⟨_, rfl⟩
      · rw [if_neg hi]; exact ⟨_, rfl⟩
    refine ⟨h1, ?_⟩
    intro t ks
    induction ks with
    | nil => intro _ _; exact ⟨⟨[], []⟩, by simp only [addComps]⟩
    | cons k ks ihk =>
      intro _ hks
      simp only [addComps]
      obtain ⟨d, hd⟩ := h1 k.base (t.compose k.t) (by omega) (hks k mem_cons_self)
      obtain ⟨d', hd'⟩ := ihk (fun _ => by omega) (fun k' hk' => hks k' (mem_cons_of_mem _ hk'))
      rw [hd, hd']
      exact ⟨_, rfl⟩

/-- `decomposeCompositeGlyph(g, G, include=incl, decomposeNested=False)` succeeds for a glyph `g` of an acyclic glyph set
    whose included component bases all exist: the fuel `|G| + 1` suffices -/
theorem decomposeGlyph_total (G : GlyphSet) (rank : String → Nat) (hr : Ranked G rank) (incl : Option (List String))
    (hrefs : RefsIn G incl) (n : String) (g : Glyph) (hg : G.get? n = some g) :
    ∃ g', decomposeGlyph G false incl g = .ok g' := by
  have hrP : RankedP G rank := fun a b c k hk _ => hr a b c k hk
  have hc := rankedP_count G rank hrP
  have hb := countRank_le G rank n
  obtain ⟨d, hd⟩ := (addComp_total G _ hc incl hrefs true (G.length + 1)).2 Affine.id g.comps (fun _ => by omega) (by
    intro k hk hik
    have hp := hrefs n g hg k hk hik
    have := hc n g hg k hk hp
    exact ⟨hp, by omega⟩)
  unfold decomposeGlyph
  rw [hd]
  exact ⟨_, rfl⟩


/-! ### decomposition against an `InterpolatedLayer` succeeds -/

/-- every component that refers to a skipped glyph refers to a glyph the default source has (no dangling reference to a
    skipped name) -/
def SkipRefs (I : Inst) (ms : Masters) (skip : List String) : Prop :=
  ∀ m ∈ ms, ∀ n g, m.get? n = some g → ∀ k ∈ g.comps, skip.contains k.base = true →
    ((dflt I ms).get? k.base).isSome = true

section
variable {I : Inst} {P : Masters} {rank : String → Nat} {skip : List String}

theorem layer_dec_total (hwf : WF I P rank) (hrefs : SkipRefs I P skip) (layer : GlyphSet) (l : Q) (hl : l ∈ I.locs)
    (hlayer : ∀ b, layer.get? b = glyphAt I P b l) (n : String) (g : Glyph) (hg : glyphAt I P n l = some g) :
    ∃ g', decomposeGlyph layer false (some skip) g = .ok g' := by
  have hu := inHull_of_mem hl
  have hgood := good_instance hwf l hu
  have hr : Ranked layer rank := by
    intro x gx hx k hk
    rw [hlayer x] at hx
    exact hgood.ranked x gx (by rw [instanceAt_get]; exact hx) k hk
  have hrefs' : RefsIn layer (some skip) := by
    intro x gx hx k hk hik
    rw [hlayer x] at hx
    rw [isIncluded_some] at hik
    obtain ⟨m, hm, g0, hg0, hsh⟩ := instance_like_master hwf l hu x gx hx
    obtain ⟨k0, hk0, he⟩ := mem_comps_of_sh hsh hk
    have hb := ksh_base he
    have hd := hrefs m hm x g0 hg0 k0 hk0 (by rw [hb]; exact hik)
    rw [hb] at hd
    obtain ⟨dx, hdx⟩ := Option.isSome_iff_exists.mp hd
    obtain ⟨gk, hgk, _⟩ := glyphAt_sh hwf k.base dx hdx l hu
    rw [hlayer, hgk]; rfl
  exact decomposeGlyph_total layer rank hr (some skip) hrefs' n g (by rw [hlayer]; exact hg)

/-- the per-master decomposition loop succeeds when every master of `n` present is the family's glyph at its location -/
theorem perMaster_total (hwf : WF I P rank) (hkeys : ∀ m ∈ P, (m.map (·.1)).Nodup) (hrefs : SkipRefs I P skip)
    (n : String) : ∀ (idxs : List Nat) (s : St) (fl : Bool), idxs.Nodup → InstOK I P s →
      (∀ j ∈ idxs, ∀ g, (s.ms.getD j []).get? n = some g →
        ∃ own l, P[j]? = some own ∧ I.locs[j]? = some l ∧ glyphAt I P n l = some g) →
      ∃ res, perMaster (some I) n (decomposeVisit false (some skip)) (decomposeOp false (some skip)) idxs s fl = .ok res := by
  intro idxs
  induction idxs with
  | nil => intro s fl _ _ _; exact ⟨(s, fl), by simp only [perMaster]⟩
  | cons i rest ih =>
    intro s fl hnd hok hall
    have hi : i ∉ rest := (List.nodup_cons.mp hnd).1
    have hrest : rest.Nodup := (List.nodup_cons.mp hnd).2
    unfold perMaster
    cases hg : (s.ms.getD i []).get? n with
    | none =>
      dsimp only
      exact ih s fl hrest hok (fun j hj => hall j (mem_cons_of_mem _ hj))
    | some g =>
      dsimp only
      obtain ⟨own, l, hown, hl, hgl⟩ := hall i mem_cons_self g hg
      have hlm : l ∈ I.locs := List.mem_iff_getElem?.mpr ⟨i, hl⟩
      obtain ⟨g', hd⟩ := layer_dec_total hwf hrefs (layerSet (some I) s i) l hlm
        (fun b => layerSet_get hwf hkeys hok i own l hown hl b) n g hgl
      have hop : decomposeOp false (some skip) (layerSet (some I) s i) g = .ok (some g', true) := by
        unfold decomposeOp; rw [hd]
      rw [hop]
      dsimp only
      obtain ⟨hok1, hms1⟩ := touch_ok (I := I) (P := P)
        (requested (some I) s i (decomposeVisit false (some skip) (layerSet (some I) s i) g)) hok
      refine ih _ _ hrest ⟨hok1.pristine, hok1.cache⟩ ?_
      intro j hj g2 hg2
      have hne : i ≠ j := fun e => hi (e ▸ hj)
      dsimp only at hg2
      rw [hms1, getD_setAt_ne _ _ _ _ hne] at hg2
      exact hall j (mem_cons_of_mem _ hj) g2 hg2


/-! ### `ensureCompositeDefinedAtComponentLocations` succeeds -/

theorem ensureLoop_total (n : String) (toAdd : List Q) :
    ∀ (idx : List (Nat × Q)) (s : St), (idx.map (·.1)).Nodup → InstOK I P s →
      (∀ j l, (j, l) ∈ idx → toAdd.contains l = true →
        (s.ms.getD j []).get? n = none ∧ ∃ g, glyphAt I P n l = some g) →
      ∃ s', ensureLoop I n toAdd idx s = .ok s' := by
  intro idx
  induction idx with
  | nil => intro s _ _ _; exact ⟨s, by simp only [ensureLoop]⟩
  | cons e rest ih =>
    obtain ⟨i, l⟩ := e
    intro s hnd hok hall
    simp only [List.map_cons, List.nodup_cons] at hnd
    unfold ensureLoop
    by_cases hc : toAdd.contains l = true
    · rw [if_pos hc]
      obtain ⟨hnone, g, hg⟩ := hall i l mem_cons_self hc
      rw [hnone]
      dsimp only
      obtain ⟨hok1, hms1⟩ := touch_ok (I := I) (P := P) [n] hok
      rw [interpGlyph_eq hok1, hg]
      dsimp only
      refine ih _ hnd.2 ⟨hok1.pristine, hok1.cache⟩ ?_
      intro j l' hm hc'
      have hne : i ≠ j := by
        intro e
        subst e
        exact hnd.1 (List.mem_map.mpr ⟨(i, l'), hm, rfl⟩)
      dsimp only
      rw [hms1, getD_setAt_ne _ _ _ _ hne]
      exact hall j l' (mem_cons_of_mem _ hm) hc'
    · rw [if_neg hc]
      exact ih s hnd.2 hok (fun j l' hm hc' => hall j l' (mem_cons_of_mem _ hm) hc')

variable {s : St} {md : List String}

theorem toAdd_iff (hwf : WF I P rank) (hB : ∀ n, rank n ≤ (allNames P).length) (h : Inv I P skip s md) (n : String)
    (hn : n ∉ md) (l : Q) :
    ((locsFromComps ((allNames s.ms).length + 1) I s.ms (some skip) n).filter
        (fun l => !(sourceLocs I s.ms n).contains l)).contains l = true ↔
      (Tied I P (some skip) l n ∧ l ∉ sourceLocs I P n) := by
  rw [List.contains_iff_mem, List.mem_filter, need_iff_tied hwf hB h n hn l]
  simp only [Bool.not_eq_true', List.contains_eq_mem, decide_eq_false_iff_not, h.locs_orig hn l]

theorem ensureComposite_total (hwf : WF I P rank) (hB : ∀ n, rank n ≤ (allNames P).length) (h : Inv I P skip s md)
    (n : String) (hn : n ∉ md) (d : Glyph) (hd : (dflt I P).get? n = some d) :
    ∃ s1, ensureComposite (some I) s (some skip) n = .ok s1 := by
  unfold ensureComposite
  dsimp only
  split
  · exact ⟨s, rfl⟩
  · have hnd : (((List.range s.ms.length).zip I.locs).map (·.1)).Nodup :=
      List.Nodup.sublist (zip_fst_sublist _ _) List.nodup_range
    apply ensureLoop_total n _ _ s hnd h.inst
    intro j l hm hc
    obtain ⟨hj, hjl⟩ := (mem_range_zip _ _ _ _).mp hm
    obtain ⟨_, hsrc⟩ := (toAdd_iff hwf hB h n hn l).mp hc
    have hlm : l ∈ I.locs := List.mem_iff_getElem?.mpr ⟨j, hjl⟩
    constructor
    · rw [h.orig n hn j]
      cases hg : (P.getD j []).get? n with
      | none => rfl
      | some g => exact absurd ((sourceLocs_at hwf n j l hjl).mpr (by rw [hg]; rfl)) hsrc
    · obtain ⟨g, hg, _⟩ := glyphAt_sh hwf n d hd l (inHull_of_mem hlm)
      exact ⟨g, hg⟩

/-- one `SkipExportGlyphsIFilter.filter(n)` succeeds -/
theorem skipIStep_total (hwf : WF I P rank) (hkeys : ∀ m ∈ P, (m.map (·.1)).Nodup)
    (hB : ∀ n, rank n ≤ (allNames P).length) (hrefs : SkipRefs I P skip) (h : Inv I P skip s md) (n : String)
    (hn : n ∉ md) : ∃ res, skipIStep (some I) skip s n = .ok res := by
  unfold skipIStep
  dsimp only
  split
  · exact ⟨_, rfl⟩
  · rename_i htest
    -- some source has `n`, so the default source has it
    have hd : ∃ d, (dflt I P).get? n = some d := by
      simp only [Bool.or_eq_true, not_or, Bool.not_eq_true', Bool.not_eq_true, List.all_eq_false] at htest
      obtain ⟨_, g, hg, _⟩ := htest
      obtain ⟨m, hm, hgm⟩ := (mem_glyphsNamed _ _ _).mp ((h.named_orig hn g).mp hg)
      exact Option.isSome_iff_exists.mp (hwf.defaultFull m hm n (by rw [hgm]; rfl))
    obtain ⟨d, hd⟩ := hd
    obtain ⟨s1, he⟩ := ensureComposite_total hwf hB h n hn d hd
    rw [he]
    dsimp only
    obtain ⟨hok1, hl1, _, hn1⟩ := ensureComposite_ok hwf hB h n hn s1 he
    obtain ⟨res, hp⟩ := perMaster_total hwf hkeys hrefs n (List.range s1.ms.length) s1 true List.nodup_range hok1 (by
      intro j hj g hg
      have hjlt : j < s1.ms.length := List.mem_range.mp hj
      have hjP : j < P.length := by rw [← h.len, ← hl1]; exact hjlt
      have hjl : j < I.locs.length := by rw [hwf.len]; exact hjP
      refine ⟨P[j], I.locs[j], List.getElem?_eq_getElem hjP, List.getElem?_eq_getElem hjl, ?_⟩
      obtain ⟨a, b⟩ := hn1 j I.locs[j] (List.getElem?_eq_getElem hjl)
      by_cases hnew : NewLoc I P skip n I.locs[j]
      · obtain ⟨g0, hg0, hget⟩ := a hnew
        rw [hget] at hg
        rw [← Option.some.inj hg]; exact hg0
      · rw [b hnew] at hg; cases hg)
    rw [hp]
    obtain ⟨s2, fl⟩ := res
    exact ⟨_, rfl⟩

/-- the loop of `BaseIFilter.__call__` succeeds, whatever the order -/
theorem iLoop_total (hwf : WF I P rank) (hkeys : ∀ m ∈ P, (m.map (·.1)).Nodup)
    (hB : ∀ n, rank n ≤ (allNames P).length) (hrefs : SkipRefs I P skip) :
    ∀ (order : List String) (s : St) (md : List String), Inv I P skip s md →
      ∃ res, iLoop (fun _ => true) (skipIStep (some I) skip) order (s, md) = .ok res := by
  intro order
  induction order with
  | nil => intro s md _; exact ⟨(s, md), by simp only [iLoop]⟩
  | cons n ns ih =>
    intro s md h
    unfold iLoop
    by_cases h1 : md.contains n = true
    · rw [if_pos h1]; exact ih s md h
    · rw [if_neg h1]
      have hn : n ∉ md := by simpa using h1
      by_cases h2 : (glyphsNamed s.ms n).any (fun _ => true) = true
      · rw [if_pos h2]
        obtain ⟨res, hs⟩ := skipIStep_total hwf hkeys hB hrefs h n hn
        obtain ⟨s1, r⟩ := res
        rw [hs]
        dsimp only
        exact ih s1 _ (skipIStep_inv hwf hkeys hB h n hn s1 r hs).1
      · rw [if_neg h2]; exact ih s md h

end

/-! ### `getMaxComponentDepth` and the order of the names -/

def DepthG (gs : GlyphSet) (r : String → Nat) (F : Nat) : Prop :=
  ∀ n g maxDepth visited stack, gs.get? n = some g → r n < F → (∀ s ∈ stack, r n < r s) →
    (g.comps.isEmpty = true ∨ visited.contains n = false) →
    ∃ res, depthGlyph F gs g maxDepth visited stack = .ok res

def DepthC (gs : GlyphSet) (r : String → Nat) (F : Nat) : Prop :=
  ∀ ks initial cur visited stack,
    (∀ k ∈ ks, (gs.get? k.base).isSome = true → r k.base < F ∧ ∀ s ∈ stack, r k.base < r s) →
    ∃ res, depthComps F gs ks initial cur visited stack = .ok res

theorem depthC_of_depthG (gs : GlyphSet) (r : String → Nat) (F : Nat) (hG : DepthG gs r F) : DepthC gs r F := by
  intro ks
  induction ks with
  | nil => intro initial cur visited stack _; exact ⟨(cur, visited), by simp only [depthComps]⟩
  | cons k ks ih =>
    intro initial cur visited stack hks
    have hrest := fun k' hk' => hks k' (mem_cons_of_mem _ hk')
    unfold depthComps
    cases hb : gs.get? k.base with
    | none => dsimp only; exact ih initial cur visited stack hrest
    | some b =>
      dsimp only
      obtain ⟨hlt, hst⟩ := hks k mem_cons_self (by rw [hb]; rfl)
      by_cases hv : (!visited.contains k.base) = true
      · rw [if_pos hv]
        obtain ⟨res, hres⟩ := hG k.base b initial visited stack hb hlt hst (Or.inr (by simpa using hv))
        obtain ⟨d, visited'⟩ := res
        rw [hres]
        dsimp only
        exact ih initial (max cur d) visited' stack hrest
      · rw [if_neg hv]
        have hns : ¬ stack.contains k.base = true := by
          intro hc
          have := hst k.base (by simpa using hc)
          omega
        rw [if_neg hns]
        exact ih initial cur visited stack hrest

theorem depth_total (gs : GlyphSet) (r : String → Nat) (hr : RankedP gs r) (hn : Named gs) : ∀ F, DepthG gs r F := by
  intro F
  induction F with
  | zero => intro n g _ _ _ _ h; omega
  | succ F ih =>
    intro n g maxDepth visited stack hg hlt hst hv
    unfold depthGlyph
    by_cases he : g.comps.isEmpty = true
    · rw [if_pos he]; exact ⟨_, rfl⟩
    · rw [if_neg he]
      have hname : g.name = n := hn n g hg
      have hvn : visited.contains n = false := by
        rcases hv with h | h
        · exact absurd h he
        · exact h
      rw [hname, if_neg (by rw [hvn]; simp)]
      apply depthC_of_depthG gs r F ih
      intro k hk hp
      have := hr n g hg k hk hp
      refine ⟨by omega, ?_⟩
      intro s hs
      rcases List.mem_cons.mp hs with rfl | hs
      · exact this
      · have := hst s hs; omega

theorem maxComponentDepth_total (gs : GlyphSet) (rank : String → Nat) (hr : Ranked gs rank) (hn : Named gs)
    (n : String) (g : Glyph) (hg : gs.get? n = some g) : ∃ d, maxComponentDepth gs g = .ok d := by
  have hrP : RankedP gs rank := fun a b c k hk _ => hr a b c k hk
  have hc := rankedP_count gs rank hrP
  have hb := countRank_le gs rank n
  obtain ⟨res, hres⟩ := depth_total gs _ hc hn (gs.length + 2) n g 0 [] [] hg (by omega) (fun s hs => by cases hs)
    (Or.inr rfl)
  obtain ⟨d, v⟩ := res
  unfold maxComponentDepth
  rw [hres]
  exact ⟨d, rfl⟩

theorem compDepth_total (ms : Masters) (rank : String → Nat) (hr : ∀ m ∈ ms, Ranked m rank) (hn : ∀ m ∈ ms, Named m)
    (n : String) (hmem : n ∈ allNames ms) : ∃ d, compDepth ms n = .ok d := by
  obtain ⟨i, hi, hs⟩ := (mem_allNames_iff ms n).mp hmem
  unfold compDepth
  cases hf : ms.find? (fun m => (m.get? n).isSome) with
  | none =>
    have := List.find?_eq_none.mp hf ms[i] (List.getElem_mem hi)
    rw [getD_of_getElem? (List.getElem?_eq_getElem hi)] at hs
    rw [hs] at this
    exact absurd rfl this
  | some m =>
    dsimp only
    have hm : m ∈ ms := List.mem_of_find?_eq_some hf
    have hsome : (m.get? n).isSome = true := by simpa using List.find?_some hf
    obtain ⟨g, hg⟩ := Option.isSome_iff_exists.mp hsome
    rw [hg]
    exact maxComponentDepth_total m rank (hr m hm) (hn m hm) n g hg

theorem orderI_total (ms : Masters) (rank : String → Nat) (hr : ∀ m ∈ ms, Ranked m rank) (hn : ∀ m ∈ ms, Named m)
    (names : List String) (hnames : ∀ n ∈ names, n ∈ allNames ms) : ∃ order, orderI ms names = .ok order := by
  have hd : ∃ ds, depthsI ms names = .ok ds := by
    induction names with
    | nil => exact ⟨[], by simp only [depthsI]⟩
    | cons n l ih =>
      obtain ⟨d, hd⟩ := compDepth_total ms rank hr hn n (hnames n mem_cons_self)
      obtain ⟨ds, hds⟩ := ih (fun x hx => hnames x (mem_cons_of_mem _ hx))
      unfold depthsI
      rw [hd, hds]
      exact ⟨_, rfl⟩
  obtain ⟨ds, hds⟩ := hd
  unfold orderI
  rw [hds]
  exact ⟨_, rfl⟩

/-! ### the filter succeeds; the headline theorem without the `.ok` hypothesis -/

/-- what totality needs on top of `WFSkip`: glyphs are stored under their own names (true of every ufo2ft glyph set), and
    no component refers to a skipped glyph that does not exist -/
structure WFTotal (I : Inst) (ms : Masters) (rank : String → Nat) (skip : List String) : Prop where
  base : WFSkip I ms rank
  named : ∀ m ∈ ms, Named m
  refs : SkipRefs I ms skip

/-- **skipFamily_ok**: on a `WFTotal` family the model of `SkipExportGlyphsIFilter.__call__` returns — no error — for every
    iteration order of the glyph-name set that lists names of the family only -/
theorem skipFamily_ok (skip : List String) (I : Inst) (ms : Masters) (rank : String → Nat) (orders : List (List String))
    (h : WFTotal I ms rank skip) (hsub : ∀ o, orders.head? = some o → ∀ n ∈ o, n ∈ allNames ms) :
    ∃ ms', skipFamily skip I ms orders = .ok ms' := by
  unfold skipFamily skipI
  by_cases hempty : skip.isEmpty = true
  · rw [if_pos hempty]; exact ⟨ms, rfl⟩
  · rw [if_neg hempty]
    have hinv0 : ∀ rest, Inv I ms skip ⟨ms, some ms, [], rest⟩ [] := fun rest =>
      ⟨⟨rfl, fun x p hx => by simp [alookup] at hx⟩, rfl, fun _ _ hx => hx, fun _ _ _ => rfl, fun x hx => by cases hx⟩
    have key : ∀ (names : List String) (rest : List (List String)), (∀ n ∈ names, n ∈ allNames ms) →
        ∃ order, orderI ms names = .ok order ∧
          ∃ res, iLoop (fun _ => true) (skipIStep (some I) skip) order (⟨ms, some ms, [], rest⟩, []) = .ok res := by
      intro names rest hn
      obtain ⟨order, ho⟩ := orderI_total ms rank h.base.wf.ranked h.named names hn
      exact ⟨order, ho, iLoop_total h.base.wf h.base.keys h.base.rankBound h.refs order _ [] (hinv0 rest)⟩
    unfold runI
    cases horders : orders with
    | nil =>
      dsimp only
      obtain ⟨order, ho, res, hres⟩ := key (allNames ms) [] (fun n hn => hn)
      have hd : List.drop 1 ([] : List (List String)) = [] := rfl
      rw [ho]
      dsimp only
      rw [hd, hres]
      obtain ⟨s', md⟩ := res
      exact ⟨_, rfl⟩
    | cons o rest =>
      dsimp only
      obtain ⟨order, ho, res, hres⟩ := key o rest (hsub o (by rw [horders]; rfl))
      have hd : List.drop 1 (o :: rest) = rest := rfl
      rw [ho]
      dsimp only
      rw [hd, hres]
      obtain ⟨s', md⟩ := res
      exact ⟨_, rfl⟩

/-- **C13_vf_render_total** — the variable-font clause of C13 with nothing left conditional on the model's success:
    on a `WFTotal` family, for every iteration order that is a listing of the family's glyph names, the model of the filter
    returns sources `ms'` in which no source has a skipped glyph and every non-skipped glyph draws, at EVERY location
    between the sources, a permutation of what it drew, with the same advance -/
theorem C13_vf_render_total (skip : List String) (I : Inst) (ms : Masters) (rank : String → Nat)
    (orders : List (List String)) (h : WFTotal I ms rank skip)
    (hcover : ∀ o, orders.head? = some o → ∀ n ∈ allNames ms, n ∈ o)
    (hsub : ∀ o, orders.head? = some o → ∀ n ∈ o, n ∈ allNames ms) :
    ∃ ms', skipFamily skip I ms orders = .ok ms' ∧
      (∀ m' ∈ ms', ∀ x, skip.contains x = true → m'.get? x = none) ∧
      ∀ n, skip.contains n = false → ∀ t, InHull I t →
        (renderAt I ms' t n).Perm (renderAt I ms t n) ∧ advanceAt I ms' t n = advanceAt I ms t n := by
  obtain ⟨ms', hrun⟩ := skipFamily_ok skip I ms rank orders h hsub
  refine ⟨ms', hrun, ?_, ?_⟩
  · have rel := skipFamily_rel h.base.wf h.base.keys h.base.rankBound orders hcover ms' hrun
    exact rel.gone
  · intro n hsk t ht
    exact ⟨C13_vf_render_default skip I ms ms' rank orders h.base hcover hrun n hsk t ht,
      (C13_vf_render skip I ms ms' rank orders h.base hcover hrun n hsk t ht).2.2.1⟩

/-- **certificate soundness for totality**: `famCert` implies `WFTotal` for EVERY skip list -/
theorem famCert_total (I : Inst) (ms : Masters) (cert : List (String × Nat)) (h : famCert I ms cert = true)
    (skip : List String) : WFTotal I ms (rankOf cert) skip := by
  have hbase := famCert_sound I ms cert h
  unfold famCert at h
  simp only [Bool.and_eq_true, List.all_eq_true, beq_iff_eq] at h
  obtain ⟨_, h2⟩ := h
  refine ⟨hbase, ?_, ?_⟩
  · intro m hm n g hg
    exact (h2 m hm (n, g) (get?_mem hg)).1
  · intro m hm n g hg k hk _
    exact (h2 m hm (n, g) (get?_mem hg)).2 k hk

end Ufo2ft.C13
