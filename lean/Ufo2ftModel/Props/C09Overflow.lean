import Ufo2ftModel.Spec.C09Overflow
import Ufo2ftModel.Props.C09Pipe
/-!
The glyph pen's overflow decision is a function of the components' 2×2 alone, so glyph sets with EQUAL 2×2 in every master
(`holdsTwoByTwo`, which `check_for_nonmatching_components` + joint decomposition establish: `C09_twoByTwo`) get the same
decision in every master.  Equality after F2Dot14 quantisation is NOT enough (`C09_f2dot14_witness`): 2 and 2 + 2⁻¹⁶ have the
same `floatToFixed(·, 14)` but only the second one overflows.
-/
namespace Ufo2ft.C09
open Ufo2ft

theorem penDecomposes_eq (g : Glyph) : penDecomposes g = (g.comps.map (fun k => k.t.linear)).any overflows4 := by
  unfold penDecomposes
  rw [List.any_map]
  rfl

theorem penDecisionsOf_eq (ms : Masters) (n : String) :
    penDecisionsOf ms n = (twoByTwosOf ms n).map (fun l => l.any overflows4) := by
  unfold penDecisionsOf twoByTwosOf
  rw [List.map_map]
  apply List.map_congr_left
  intro g _
  exact penDecomposes_eq g

theorem allEq_map {α β} [BEq α] [LawfulBEq α] [BEq β] [LawfulBEq β] (f : α → β) (l : List α) (h : allEq l = true) :
    allEq (l.map f) = true := by
  apply allEq_of_pairwise
  intro x hx y hy
  obtain ⟨a, ha, rfl⟩ := List.mem_map.mp hx
  obtain ⟨b, hb, rfl⟩ := List.mem_map.mp hy
  rw [allEq_mem l h a ha b hb]

/-- equal 2×2 in every master ⟹ the pen's decision is the same in every master (any glyph sets) -/
theorem penJoint_of_twoByTwo (out : Masters) (h : ((allNames out).all (fun n => allEq (twoByTwosOf out n))) = true) :
    ((allNames out).all (fun n => allEq (penDecisionsOf out n))) = true := by
  rw [List.all_eq_true] at h ⊢
  intro n hn
  rw [penDecisionsOf_eq]
  exact allEq_map _ _ (h n hn)

theorem holdsPenJoint_of_twoByTwo (src out : Masters) (h : holdsTwoByTwo src out = true) : holdsPenJoint src out = true := by
  unfold holdsTwoByTwo at h
  unfold holdsPenJoint
  cases hc : compCompatible src with
  | false => rfl
  | true =>
    rw [hc] at h
    simp only [Bool.not_true, Bool.false_or] at h ⊢
    exact penJoint_of_twoByTwo out h

/-- **C09_penJoint**: in the model's TrueType pipeline without Instantiator (hypotheses of `C09_twoByTwo`) the glyph pen's
    compile-time decomposition (a 2×2 entry beyond ±2) hits a glyph in every master or in none. -/
theorem C09_penJoint (cfg : Cfg) (src : Masters) (o : PreOut) (httf : cfg.ttf = true) (hi : cfg.inst = none)
    (hu : uniformCustom cfg = true) (hwf : wfSrc src = true) (hns : noSentinels src = true)
    (hord : ordersCover cfg src = true) (hcu : cu2quOk cfg o.beforeCu2qu = true) (hnd : notdefJoint cfg src = true)
    (h : compileFamily cfg src = .ok o) : holdsPenJoint src o.final = true :=
  holdsPenJoint_of_twoByTwo src o.final (C09_twoByTwo cfg src o httf hi hu hwf hns hord hcu hnd h)

/-- comparing the 2×2 at F2Dot14 precision does not give jointness: equal quantisation, different decision -/
theorem C09_f2dot14_witness :
    f2dot14 2 = f2dot14 (2 + 1/65536) ∧ overflows 2 = false ∧ overflows (2 + 1/65536) = true := by
  decide +kernel

/-- two masters whose only component has 2×2 (2,0,0,1) resp. (2+2⁻¹⁶,0,0,1): same F2Dot14 values, not pen-joint -/
example : overflows4 (2, 0, 0, 1) = false ∧ overflows4 (2 + 1/65536, 0, 0, 1) = true := by decide +kernel

end Ufo2ft.C09
