import Ufo2ftModel.Props.C17
/-!
C17, totality: exactly when the model of `BaseFeatureWriter._insert` / `write` / the writer loop raises.

The only exception the model has is `ValueError`.  In the code it comes from `block.statements.index(comment)` (or
`statements.index(block)`) when the comment object stored in `insertComments[tag]` is no longer in a top-level feature
block, and from `min([])`.  For a well-formed file (`wfFile`: the comments inside top-level feature blocks are distinct
objects - what feaLib's parser produces, and what every writer preserves) this file proves

* `placeMarked_error_iff`   : one marked placement raises  ⇔  the marker comment is in no top-level feature block
* `C17_write_error_iff`     : `write w f` raises  ⇔  `writeErrs f w` : among the feature blocks the writer hands to `_insert`
                              (`specFeats`) that have a marker, some tag occurs twice        (decidable, reads only the input)
* `C17_write_returns_iff`   : `write w f` returns ⇔ `writeErrs f w = false`
* `C17_run_error_iff`       : the writer loop raises ⇔ some writer, on the file the writers before it left (they all
                              returned), satisfies `writeErrs`;  `runErrs` is the same as a Bool
* `C17_run_returns_of_tags` : input-only sufficient condition: no writer lists the same tag twice in `produce`
* `…_total`                 : the headline theorems C17_subsequence / C17_place / C17_write / C17_run without the
                              "the run returned" hypothesis: the run returns AND the property holds.

Files in which one comment id occurs twice have no Python counterpart (ids stand for object identity); for them the
error condition has no closed form (removing a comment-only block removes several occurrences at once) and the
theorems of Props/C17.lean stated for runs that return remain the ones to use.
-/
namespace Ufo2ft.C17
open List

/-! ## one placement -/

theorem mem_uidsOf_iff (c : Nat) (l : File) : c ∈ uidsOf l ↔ ∃ s ∈ l, holdsComment c s = true := by
  constructor
  · intro h
    obtain ⟨s, hs, hc⟩ := mem_flatMap.mp h
    refine ⟨s, hs, ?_⟩
    cases s with
    | block o k tag ext body =>
      cases k <;> simp [blockCommentUids] at hc
      exact (holdsComment_iff _ _ _ _ _).mpr hc
    | _ => simp [blockCommentUids] at hc
  · rintro ⟨s, hs, hc⟩
    exact mem_flatMap.mpr ⟨s, hs, holds_mem_uids hc⟩

/-- `block.statements.index(comment)` / `statements.index(block)` find their object iff the comment is (directly) in
some top-level feature block -/
theorem placeMarked_ok_of_mem (st : St) (rev : List Feat) (f : Feat) (c : Nat) (h : c ∈ uidsOf st.stmts) :
    ∃ st', placeMarked st rev f c = .ok st' := by
  obtain ⟨s, hs, hc⟩ := (mem_uidsOf_iff c st.stmts).mp h
  unfold placeMarked
  cases hp : st.stmts.findIdx? (holdsComment c) with
  | none =>
    rw [findIdx?_eq_none_iff] at hp
    rw [hp s hs] at hc; cases hc
  | some p =>
    obtain ⟨pre, x, post, e, hl, hx, _⟩ := findIdx_decomp hp
    obtain ⟨o, tag, ext, body, rfl, hb⟩ := holdsComment_block hx
    subst hl
    simp only [e, getElem?_mid]
    cases hm : body.findIdx? (isCommentUid c) with
    | none =>
      rw [findIdx?_eq_none_iff] at hm
      obtain ⟨y, hy, hyc⟩ := any_eq_true.mp hb
      rw [hm y hy] at hyc; cases hyc
    | some mi => exact ⟨_, rfl⟩

theorem placeMarked_err_of_not_mem (st : St) (rev : List Feat) (f : Feat) (c : Nat) (h : c ∉ uidsOf st.stmts) :
    placeMarked st rev f c = .error .valueError := by
  unfold placeMarked
  cases hp : st.stmts.findIdx? (holdsComment c) with
  | none => rfl
  | some p =>
    exfalso
    obtain ⟨pre, x, post, e, _, hx, _⟩ := findIdx_decomp hp
    exact h ((mem_uidsOf_iff c st.stmts).mpr ⟨x, by rw [e]; simp, hx⟩)

/-- **placeMarked_error_iff** (no well-formedness needed): placing a feature at its marker raises exactly when the
marker comment is in no top-level feature block (any more). -/
theorem placeMarked_error_iff (st : St) (rev : List Feat) (f : Feat) (c : Nat) :
    placeMarked st rev f c = .error .valueError ↔ c ∉ uidsOf st.stmts := by
  constructor
  · intro h hc
    obtain ⟨st', h'⟩ := placeMarked_ok_of_mem st rev f c hc
    rw [h'] at h; cases h
  · exact placeMarked_err_of_not_mem st rev f c

/-- forward reading of one placement: every statement other than the block that held the marker is still there -/
theorem place_fwd {st st' : St} {rev : List Feat} {f : Feat} {c : Nat} (h : placeMarked st rev f c = .ok st') :
    ∃ blk ∈ st.stmts, holdsComment c blk = true ∧ ∀ s ∈ st.stmts, s ≠ blk → s ∈ st'.stmts := by
  obtain ⟨pre, post, o, tag, ext, bpre, txt, bpost, e, _, _, e', _⟩ := placeMarked_spec h
  refine ⟨.block o .feature tag ext (bpre ++ .comment c txt :: bpost), by rw [e]; simp, ?_, ?_⟩
  · rw [holdsComment_iff]; simp [itemUids]
  · intro s hs hne
    rw [e] at hs
    rw [e']
    rcases mem_append.mp hs with hs | hs
    · simp [hs]
    · rcases mem_cons.mp hs with hs | hs
      · exact absurd hs hne
      · simp [hs]

/-! ## the first loop of `_insert` -/

/-- reading the features in the writer's order: a feature whose tag has a marker and was already seen with it -/
def dupFrom (M : String → Bool) : List String → List Feat → Bool
  | _, [] => false
  | seen, p :: ps => if M p.tag then seen.contains p.tag || dupFrom M (p.tag :: seen) ps else dupFrom M seen ps

/-- `dupFrom` says: among the marked features some tag occurs twice, or one of them was seen before -/
theorem dupFrom_iff (M : String → Bool) (seen : List String) (ps : List Feat) :
    dupFrom M seen ps = false ↔
      ((ps.filter (fun p => M p.tag)).map (·.tag)).Nodup ∧ ∀ t ∈ (ps.filter (fun p => M p.tag)).map (·.tag), t ∉ seen := by
  induction ps generalizing seen with
  | nil => simp [dupFrom]
  | cons p ps ih =>
    unfold dupFrom
    by_cases hm : M p.tag = true
    · simp only [hm, if_true, Bool.or_eq_false_iff, ih, filter_cons, map_cons, nodup_cons, mem_cons]
      constructor
      · rintro ⟨h1, h2, h3⟩
        have h1' : p.tag ∉ seen := by simpa using h1
        refine ⟨⟨fun hin => (h3 _ hin) (Or.inl rfl), h2⟩, ?_⟩
        rintro t (rfl | ht)
        · exact h1'
        · exact fun hs => h3 t ht (Or.inr hs)
      · rintro ⟨⟨h1, h2⟩, h3⟩
        refine ⟨by simpa using h3 p.tag (Or.inl rfl), h2, ?_⟩
        intro t ht hor
        rcases hor with rfl | hs
        · exact h1 ht
        · exact h3 t (Or.inr ht) hs
    · simp only [hm, Bool.false_eq_true, if_false, ih, filter_cons]

theorem find_mkOf {ic : List Marker} {t : String} {m : Marker} (h : ic.find? (·.tag == t) = some m) :
    mkOf ic t = some m.comment := by simp [mkOf, h]

theorem find_mkOf_none {ic : List Marker} {t : String} (h : ic.find? (·.tag == t) = none) :
    mkOf ic t = none := by simp [mkOf, h]

/-- the first loop: with distinct comment objects, every marker still in its (one) block unless its tag was placed, and
the markers of placed tags gone, the loop raises exactly when a marked tag comes a second time -/
theorem loop1_total (ic : List Marker) (fs : List Feat) : ∀ (rev : List Feat) (st : St) (seen : List String),
    (uidsOf st.stmts).Nodup →
    (∀ t c, mkOf ic t = some c → t ∉ seen → ∃ s ∈ st.stmts, holdsComment c s = true ∧ stmtTag s = t) →
    (∀ t c, mkOf ic t = some c → t ∈ seen → c ∉ uidsOf st.stmts) →
    (dupFrom (fun t => (mkOf ic t).isSome) seen fs = false → ∃ st', loop1 ic fs rev st = .ok st') ∧
    (dupFrom (fun t => (mkOf ic t).isSome) seen fs = true → loop1 ic fs rev st = .error .valueError) := by
  induction fs with
  | nil => intro rev st seen _ _ _; simp [dupFrom, loop1]
  | cons p ps ih =>
    intro rev st seen hn hb hc
    unfold dupFrom loop1
    cases hfind : ic.find? (·.tag == p.tag) with
    | none =>
      have hmk := find_mkOf_none hfind
      simp only [hmk, Option.isSome_none, Bool.false_eq_true, if_false]
      exact ih (p :: rev) st seen hn hb hc
    | some m =>
      have hmk := find_mkOf hfind
      simp only [hmk, Option.isSome_some, if_true, Bool.or_eq_false_iff, Bool.or_eq_true]
      by_cases hs : p.tag ∈ seen
      · -- the marker was consumed by the first feature with this tag
        have herr := placeMarked_err_of_not_mem st rev p m.comment (hc _ _ hmk hs)
        have hcont : seen.contains p.tag = true := by simpa using hs
        constructor
        · intro h; rw [hcont] at h; cases h.1
        · intro _; simp [herr]
      · obtain ⟨blk0, hblk0, hh0, ht0⟩ := hb _ _ hmk hs
        obtain ⟨st1, h1⟩ := placeMarked_ok_of_mem st rev p m.comment
          ((mem_uidsOf_iff _ _).mpr ⟨blk0, hblk0, hh0⟩)
        obtain ⟨blk, hblk, hh, hfwd⟩ := place_fwd h1
        have hbe : blk = blk0 := unique_holder hn hblk hblk0 hh hh0
        subst hbe
        obtain ⟨_, _, _, hsub, _, _⟩ := place_step h1 hn
        have hgone := place_step_gone h1 hn
        have hcont : seen.contains p.tag = false := by simpa using hs
        have := ih (p :: rev) st1 (p.tag :: seen) (hsub.nodup hn)
          (by
            intro t c hm hnot
            simp only [mem_cons, not_or] at hnot
            obtain ⟨s, hs1, hs2, hs3⟩ := hb t c hm hnot.2
            refine ⟨s, hfwd s hs1 ?_, hs2, hs3⟩
            intro he; subst he
            exact hnot.1 (by rw [← hs3, ht0]))
          (by
            intro t c hm hin
            rcases mem_cons.mp hin with rfl | hin
            · rw [hmk] at hm; injection hm with hm; subst hm; exact hgone
            · exact fun hx => hc t c hm hin (hsub.subset hx))
        simp only [h1, hcont]
        constructor
        · intro h; exact this.1 h.2
        · intro h
          rcases h with h | h
          · cases h
          · exact this.2 h

/-! ## `min(indices)` never sees an empty list -/

theorem walkBack_indices (index : Nat) (rev : List Feat) (st : St) (h : st.indices ≠ []) :
    (walkBack index rev st).indices ≠ [] := by
  induction rev generalizing st with
  | nil => exact h
  | cons f rest ih =>
    unfold walkBack
    split
    · exact h
    · exact ih _ (by simp)

theorem placeMarked_indices {st st' : St} {rev : List Feat} {f : Feat} {c : Nat}
    (h : placeMarked st rev f c = .ok st') : st'.indices ≠ [] := by
  unfold placeMarked at h
  split at h
  · cases h
  · split at h
    · split at h
      · cases h
      · injection h with h
        subst h
        exact walkBack_indices _ _ _ (by simp)
    · cases h

theorem loop1_indices (ic : List Marker) (fs : List Feat) : ∀ (rev : List Feat) (st st' : St),
    loop1 ic fs rev st = .ok st' → (st.inserted ≠ [] → st.indices ≠ []) → (st'.inserted ≠ [] → st'.indices ≠ []) := by
  induction fs with
  | nil => intro rev st st' h; simp only [loop1, Except.ok.injEq] at h; subst h; exact id
  | cons p ps ih =>
    intro rev st st' h hj
    unfold loop1 at h
    split at h
    · split at h
      · rename_i st1 h1
        exact ih _ _ _ h (fun _ => placeMarked_indices h1)
      · cases h
    · exact ih _ _ _ h hj

theorem loop2_indices_keep (fs : List Feat) (st : St) (h : st.indices ≠ []) : (loop2 fs st).indices ≠ [] := by
  induction fs generalizing st with
  | nil => exact h
  | cons p ps ih =>
    unfold loop2
    split
    · exact ih st h
    · exact ih _ (by simp)

theorem loop2_indices (fs : List Feat) (st : St) (hne : fs ≠ []) (hj : st.inserted ≠ [] → st.indices ≠ []) :
    (loop2 fs st).indices ≠ [] := by
  cases fs with
  | nil => exact absurd rfl hne
  | cons p ps =>
    unfold loop2
    split
    · rename_i hc
      apply loop2_indices_keep
      apply hj
      intro he; rw [he] at hc; simp at hc
    · exact loop2_indices_keep _ _ (by simp)

/-- `_insert` raises exactly when its first loop does (it is only called with a non-empty feature list) -/
theorem insert_total (f : File) (ic : Option (List Marker)) (w : Writer) (feats : List Feat) (hne : feats ≠ []) :
    (∀ st1, loop1 (ic.getD []) feats [] { stmts := f, indices := [], inserted := [] } = .ok st1 →
      ∃ o, insert f ic w feats = .ok o) ∧
    (loop1 (ic.getD []) feats [] { stmts := f, indices := [], inserted := [] } = .error .valueError →
      insert f ic w feats = .error .valueError) := by
  constructor
  · intro st1 h1
    unfold insert
    simp only [h1]
    have hi := loop2_indices feats st1 hne (loop1_indices _ _ _ _ _ h1 (by simp))
    cases hm : (loop2 feats st1).indices.min? with
    | none => rw [min?_eq_none_iff] at hm; exact absurd hm hi
    | some m => exact ⟨_, rfl⟩
  · intro h1
    unfold insert
    simp only [h1]

/-! ## one writer -/

/-- the features with a marker among those the writer hands to `_insert`, by tag -/
def markedTags (f : File) (w : Writer) : List String :=
  ((specFeats f w).filter (fun p => (markerOf f w p.tag).isSome)).map (·.tag)

/-- **when a writer raises** (decidable; reads the input only): among the feature blocks it hands to `_insert` that
have an insertion marker in the user's file, two have the same tag - the first consumes the marker, the second looks
for it in vain. -/
def writeErrs (f : File) (w : Writer) : Bool := !decide (markedTags f w).Nodup

theorem markerOf_holder {f : File} {w : Writer} {t : String} {c : Nat} (h : markerOf f w t = some c) :
    ∃ s ∈ f, holdsComment c s = true ∧ stmtTag s = t := by
  unfold markerOf at h
  split at h
  · exact firstMarker_block h
  · cases h

theorem write_total (w : Writer) (f : File) (hf : wfFile f = true) :
    (writeErrs f w = false → ∃ o, write w f = .ok o) ∧
    (writeErrs f w = true → write w f = .error .valueError) := by
  have hn : (uidsOf f).Nodup := of_decide_eq_true hf
  have hl := loop1_total ((setContext w f).insertComments.getD []) (specFeats f w) []
    { stmts := f, indices := [], inserted := [] } [] hn
    (by intro t c hm _; rw [mkOf_setContext] at hm; exact markerOf_holder hm)
    (by intro t c _ hin; cases hin)
  rw [mkOf_setContext] at hl
  have hd : dupFrom (fun t => (markerOf f w t).isSome) [] (specFeats f w) = writeErrs f w := by
    unfold writeErrs markedTags
    cases h' : dupFrom (fun t => (markerOf f w t).isSome) [] (specFeats f w) with
    | false => simp [((dupFrom_iff _ _ _).mp h').1]
    | true =>
      by_cases hnd : ((specFeats f w).filter (fun p => (markerOf f w p.tag).isSome)).map (·.tag) |>.Nodup
      · have := (dupFrom_iff (fun t => (markerOf f w t).isSome) [] (specFeats f w)).mpr ⟨hnd, by simp⟩
        rw [this] at h'; cases h'
      · simp [hnd]
  rw [hd] at hl
  unfold write
  simp only [specFeats_eq]
  constructor
  · intro he
    obtain ⟨st1, h1⟩ := hl.1 he
    split
    · exact ⟨_, rfl⟩
    · split
      · exact ⟨_, rfl⟩
      · rename_i hne
        exact (insert_total f _ w _ (by intro h0; rw [h0] at hne; exact hne rfl)).1 st1 h1
  · intro he
    have h1 := hl.2 he
    have hne : specFeats f w ≠ [] := by
      intro h0; rw [← hd, h0] at he; simp [dupFrom] at he
    have hne' : ¬ ((specFeats f w).isEmpty = true) := by simpa using hne
    have htodo : ¬ ((setContext w f).todo.isEmpty = true) := by
      intro ht
      apply hne
      have : (setContext w f).todo = [] := by simpa using ht
      rw [← specFeats_eq, this]
      simp
    simp only [htodo, hne']
    exact (insert_total f _ w _ hne).2 h1

/-- **C17_write_error_iff**: for a file whose comment objects are distinct, a writer raises (ValueError, the only
exception of the model) exactly when `writeErrs` says so: it hands `_insert` two feature blocks with the same tag and the
user's file has an insertion marker for that tag. -/
theorem C17_write_error_iff (w : Writer) (f : File) (hf : wfFile f = true) :
    write w f = .error .valueError ↔ writeErrs f w = true := by
  constructor
  · intro h
    cases he : writeErrs f w with
    | true => rfl
    | false =>
      obtain ⟨o, ho⟩ := (write_total w f hf).1 he
      rw [ho] at h; cases h
  · exact (write_total w f hf).2

/-- **C17_write_returns_iff**: … and returns exactly otherwise. -/
theorem C17_write_returns_iff (w : Writer) (f : File) (hf : wfFile f = true) :
    (∃ o, write w f = .ok o) ↔ writeErrs f w = false := by
  constructor
  · rintro ⟨o, ho⟩
    cases he : writeErrs f w with
    | false => rfl
    | true => rw [(write_total w f hf).2 he] at ho; cases ho
  · exact (write_total w f hf).1

/-- a writer whose feature blocks have distinct tags (part of `wfWriter`) never raises -/
theorem writeErrs_of_tags (w : Writer) (f : File) (ht : (w.produce.map (·.tag)).Nodup) : writeErrs f w = false := by
  unfold writeErrs markedTags
  have hsub : ((specFeats f w).filter (fun p => (markerOf f w p.tag).isSome)).Sublist w.produce :=
    filter_sublist.trans filter_sublist
  simp [(hsub.map _).nodup ht]

/-- a writer in append mode, or without marker pattern, never raises -/
theorem writeErrs_of_no_markers (w : Writer) (f : File) (h : (w.skip && w.pattern) = false) : writeErrs f w = false := by
  unfold writeErrs markedTags
  have : (specFeats f w).filter (fun p => (markerOf f w p.tag).isSome) = [] := by
    rw [filter_eq_nil_iff]
    intro p _
    unfold markerOf
    rw [h]
    simp
  simp [this]

/-! ## the writer loop -/

def stepErrs : Step → File → Bool
  | .writer w, f => writeErrs f w
  | .gdef _, _ => false

/-- **when the writer loop raises**: the first writer for which `writeErrs` holds on the file left by the writers
before it (`step` is only consulted for the files of steps that returned) -/
def runErrs : List Step → File → Bool
  | [], _ => false
  | s :: ss, f => stepErrs s f || (match step s f with | .ok f' => runErrs ss f' | .error _ => false)

theorem step_total (s : Step) (f : File) (hf : wfFile f = true) :
    (stepErrs s f = false → ∃ o, step s f = .ok o ∧ wfFile o = true) ∧
    (stepErrs s f = true → step s f = .error .valueError) := by
  have hn : (uidsOf f).Nodup := of_decide_eq_true hf
  cases s with
  | writer w =>
    constructor
    · intro he
      obtain ⟨o, ho⟩ := (write_total w f hf).1 he
      exact ⟨o, ho, decide_eq_true ((uids_write hn ho).nodup hn)⟩
    · exact (write_total w f hf).2
  | gdef i =>
    constructor
    · intro _
      refine ⟨_, rfl, decide_eq_true ?_⟩
      have h2 := (C17_gdef_step i f).2
      unfold uidsOf at h2; rw [h2]; exact hn
    · intro h; cases h

theorem run_total (steps : List Step) (f : File) (hf : wfFile f = true) :
    (runErrs steps f = false → ∃ outs, runAll steps f = .ok outs) ∧
    (runErrs steps f = true → runAll steps f = .error .valueError) := by
  induction steps generalizing f with
  | nil => simp [runErrs, runAll]
  | cons s ss ih =>
    unfold runErrs runAll
    cases he : stepErrs s f with
    | true =>
      have := (step_total s f hf).2 he
      simp [this]
    | false =>
      obtain ⟨o, ho, hwo⟩ := (step_total s f hf).1 he
      simp only [ho, Bool.false_or]
      constructor
      · intro h
        obtain ⟨outs, houts⟩ := (ih o hwo).1 h
        exact ⟨o :: outs, by simp [houts]⟩
      · intro h
        simp [(ih o hwo).2 h]

/-- **C17_run_error_iff**: for a well-formed file the writer loop raises exactly when `runErrs` holds. -/
theorem C17_run_error_iff (steps : List Step) (f : File) (hf : wfFile f = true) :
    runAll steps f = .error .valueError ↔ runErrs steps f = true := by
  constructor
  · intro h
    cases he : runErrs steps f with
    | true => rfl
    | false =>
      obtain ⟨o, ho⟩ := (run_total steps f hf).1 he
      rw [ho] at h; cases h
  · exact (run_total steps f hf).2

theorem C17_run_returns_iff (steps : List Step) (f : File) (hf : wfFile f = true) :
    (∃ outs, runAll steps f = .ok outs) ↔ runErrs steps f = false := by
  constructor
  · rintro ⟨o, ho⟩
    cases he : runErrs steps f with
    | false => rfl
    | true => rw [(run_total steps f hf).2 he] at ho; cases ho
  · exact (run_total steps f hf).1

theorem getLastD_cons (a : α) (l : List α) (x y : α) : (a :: l).getLast?.getD x = (a :: l).getLast?.getD y := by
  cases h : (a :: l).getLast? with
  | none => simp at h
  | some z => rfl

/-- `runErrs` without recursion through the model: some writer `w` of the list, all writers before it having returned,
satisfies `writeErrs` on the file they left. -/
theorem C17_run_error_where (steps : List Step) (f : File) (hf : wfFile f = true) :
    runAll steps f = .error .valueError ↔
      ∃ pre w post fs, steps = pre ++ .writer w :: post ∧ runAll pre f = .ok fs ∧
        writeErrs (fs.getLast?.getD f) w = true := by
  rw [C17_run_error_iff steps f hf]
  induction steps generalizing f with
  | nil => simp [runErrs]
  | cons s ss ih =>
    unfold runErrs
    cases he : stepErrs s f with
    | true =>
      simp only [Bool.true_or, true_iff]
      cases s with
      | writer w => exact ⟨[], w, ss, [], rfl, rfl, he⟩
      | gdef i => cases he
    | false =>
      obtain ⟨o, ho, hwo⟩ := (step_total s f hf).1 he
      simp only [ho, Bool.false_or]
      rw [ih o hwo]
      constructor
      · rintro ⟨pre, w, post, fs, e, hr, hw⟩
        refine ⟨s :: pre, w, post, o :: fs, by simp [e], by simp [runAll, ho, hr], ?_⟩
        cases fs with
        | nil => simpa using hw
        | cons a l => rw [getLast?_cons_cons, getLastD_cons a l f o]; exact hw
      · rintro ⟨pre, w, post, fs, e, hr, hw⟩
        cases pre with
        | nil =>
          simp only [nil_append, cons.injEq] at e
          obtain ⟨rfl, rfl⟩ := e
          simp only [runAll, Except.ok.injEq] at hr
          subst hr
          simp only [getLast?_nil, Option.getD_none] at hw
          simp only [stepErrs] at he
          rw [he] at hw; cases hw
        | cons s' pre' =>
          simp only [cons_append, cons.injEq] at e
          obtain ⟨rfl, rfl⟩ := e
          simp only [runAll, ho] at hr
          cases hr' : runAll pre' o with
          | error e => simp [hr'] at hr
          | ok l =>
            simp only [hr', Except.ok.injEq] at hr
            subst hr
            refine ⟨pre', w, post, l, rfl, hr', ?_⟩
            cases l with
            | nil => simpa using hw
            | cons a l => rw [getLast?_cons_cons, getLastD_cons a l f o] at hw; exact hw

/-- input-only condition: no writer of the list builds two feature blocks with the same tag -/
def tagsDistinct : Step → Bool
  | .writer w => decide (w.produce.map (·.tag)).Nodup || !(w.skip && w.pattern)
  | .gdef _ => true

theorem runErrs_of_tags (steps : List Step) (f : File) (hf : wfFile f = true)
    (ht : ∀ s ∈ steps, tagsDistinct s = true) : runErrs steps f = false := by
  induction steps generalizing f with
  | nil => rfl
  | cons s ss ih =>
    have he : stepErrs s f = false := by
      have := ht s (by simp)
      cases s with
      | writer w =>
        simp only [tagsDistinct, Bool.or_eq_true, decide_eq_true_eq, Bool.not_eq_true'] at this
        rcases this with h | h
        · exact writeErrs_of_tags w f h
        · exact writeErrs_of_no_markers w f h
      | gdef i => rfl
    obtain ⟨o, ho, hwo⟩ := (step_total s f hf).1 he
    unfold runErrs
    simp only [he, ho, Bool.false_or]
    exact ih o hwo (fun s hs => ht s (by simp [hs]))

/-- **C17_run_returns_of_tags**: on a well-formed file, a list of writers none of which (in skip mode with a marker
pattern) builds two feature blocks with the same tag never raises. -/
theorem C17_run_returns_of_tags (steps : List Step) (f : File) (hf : wfFile f = true)
    (ht : ∀ s ∈ steps, tagsDistinct s = true) : ∃ outs, runAll steps f = .ok outs :=
  (run_total steps f hf).1 (runErrs_of_tags steps f hf ht)

theorem runAll_length {steps : List Step} {f : File} {outs : List File} (h : runAll steps f = .ok outs) :
    outs.length = steps.length := by
  induction steps generalizing f outs with
  | nil => simp [runAll] at h; subst h; rfl
  | cons s ss ih =>
    unfold runAll at h
    split at h
    · cases h
    · split at h
      · cases h
      · rename_i l hl
        injection h with h
        subst h
        simp [ih hl]

/-! ## the headline theorems without the "it returned" hypothesis -/

/-- **C17_subsequence_total**: on a well-formed file, unless `runErrs` (a repeated marked tag), the writer loop returns
one file per writer and each of them reads, as far as the user's statements go, exactly as the user's file. -/
theorem C17_subsequence_total (steps : List Step) (f : File) (hf : wfFile f = true) (he : runErrs steps f = false) :
    ∃ outs, runAll steps f = .ok outs ∧ outs.length = steps.length ∧ ∀ o ∈ outs, skel o = skel f := by
  obtain ⟨outs, h⟩ := (run_total steps f hf).1 he
  exact ⟨outs, h, runAll_length h, C17_subsequence steps f outs h⟩

/-- **C17_place_total**: a well-formed writer on a well-formed file returns, and the generated blocks stand where the
plan says. -/
theorem C17_place_total (w : Writer) (f : File) (hw : wfWriter w = true) (hf : wfFile f = true) :
    ∃ o, write w f = .ok o ∧
      if (specFeats f w).isEmpty then o = f
      else ftoks o = expectedToks f w (specFeats f w) ∧ ∀ c ∈ usedMarkers f w (specFeats f w), c ∉ uidsOf o := by
  have ht : (w.produce.map (·.tag)).Nodup := by
    simp only [wfWriter, Bool.and_eq_true, decide_eq_true_eq] at hw; exact hw.2
  obtain ⟨o, ho⟩ := (write_total w f hf).1 (writeErrs_of_tags w f ht)
  exact ⟨o, ho, C17_place w f o hw hf ho⟩

/-- **C17_write_total**: a well-formed writer on a well-formed file returns a file for which the whole per-writer
predicate holds. -/
theorem C17_write_total (w : Writer) (f : File) (hw : wfWriter w = true) (hf : wfFile f = true) :
    ∃ o, write w f = .ok o ∧ holdsWrite f w o = true := by
  obtain ⟨o, ho, _⟩ := C17_place_total w f hw hf
  exact ⟨o, ho, C17_write w f o hw hf ho⟩

/-- **C17_run_total**: a well-formed file and any sequence of well-formed writers (and GDEF writers): the loop returns,
one file per writer, every step satisfies the per-writer property and the user's statements are those of the original. -/
theorem C17_run_total (steps : List Step) (f : File)
    (hw : ∀ s ∈ steps, match s with | .writer w => wfWriter w = true | .gdef .. => True)
    (hf : wfFile f = true) :
    ∃ outs, runAll steps f = .ok outs ∧ outs.length = steps.length ∧
      holdsRun steps f outs = true ∧ holdsFinal f outs = true := by
  have ht : ∀ s ∈ steps, tagsDistinct s = true := by
    intro s hs
    have := hw s hs
    cases s with
    | writer w =>
      simp only [wfWriter, Bool.and_eq_true, decide_eq_true_eq] at this
      simp [tagsDistinct, this.2]
    | gdef i => rfl
  obtain ⟨outs, h⟩ := C17_run_returns_of_tags steps f hf ht
  exact ⟨outs, h, runAll_length h, C17_run steps f outs hw hf h⟩

/-! ## non-vacuity -/

/-- the writer of Props/C17.lean handing `kern` to `_insert` twice, on the file with a `kern` marker -/
def exWdup : Writer := { exW with produce := [⟨"kern", 10⟩, ⟨"dist", 11⟩, ⟨"kern", 12⟩] }

example : wfFile exF = true ∧ writeErrs exF exWdup = true ∧ write exWdup exF = .error .valueError := ⟨by decide, by decide, rfl⟩
/-- the same writer raises nothing where `kern` has no marker (append mode / file without marker): both blocks are appended -/
example : writeErrs [.leaf 1] exWdup = false ∧
    write exWdup [.leaf 1] = .ok [.gen (.defn 30), .gen .blank, .leaf 1, .gen (.lookup 20), .gen (.feature "kern" 10),
                                   .gen (.feature "dist" 11), .gen (.feature "kern" 12)] := ⟨by decide, rfl⟩
example : writeErrs exF { exWdup with skip := false } = false := by decide
/-- hypotheses of the `_total` theorems are met by the non-trivial example (marker in the middle of a block) -/
example : wfFile exF = true ∧ wfWriter exW = true ∧ writeErrs exF exW = false ∧ write exW exF = .ok exO :=
  ⟨by decide, by decide, by decide, rfl⟩
example : runErrs [.writer exW, .gdef ⟨[], true, 1, 40⟩] exF = false ∧
    tagsDistinct (.writer exW) = true ∧ tagsDistinct (.writer exWdup) = false := by decide
/-- the loop raises at the second writer, on the file the first one left -/
example : runErrs [.gdef ⟨[], true, 1, 40⟩, .writer exWdup] exF = true ∧
    runAll [.gdef ⟨[], true, 1, 40⟩, .writer exWdup] exF = .error .valueError := ⟨by decide, rfl⟩
/-- a second writer with the duplicate is harmless once the first has consumed the marker and left a `kern` block -/
example : runErrs [.writer exW, .writer exWdup] exF = false := by decide
/-- without `wfFile` the characterisation is false: the same comment object in two blocks serves two placements -/
example : wfFile [.block (.user 2) .feature "kern" false [.comment 4 "# Automatic Code", .leaf 5],
                  .block (.user 6) .feature "kern" false [.comment 4 "# Automatic Code", .leaf 7]] = false ∧
    writeErrs [.block (.user 2) .feature "kern" false [.comment 4 "# Automatic Code", .leaf 5],
               .block (.user 6) .feature "kern" false [.comment 4 "# Automatic Code", .leaf 7]] exWdup = true ∧
    (write exWdup [.block (.user 2) .feature "kern" false [.comment 4 "# Automatic Code", .leaf 5],
                   .block (.user 6) .feature "kern" false [.comment 4 "# Automatic Code", .leaf 7]]).toBool = true := by decide

end Ufo2ft.C17
